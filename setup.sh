#!/bin/sh
# Offline setup after a fresh restore: build the Go harness against /repo (hooks on), regenerate the facts,
# build the whole Lean project (models, lemmas, property theorems) and the native driver.
set -e
cd "$(dirname "$0")"
export GOFLAGS=-mod=mod GOPROXY=off GOSUMDB=off GOTOOLCHAIN=local CGO_ENABLED=0
REPO="${VERIF_REPO:-/repo}"
cp "$REPO/go.sum" harness/go.sum
if [ "$REPO" != /repo ]; then (cd harness && go mod edit -replace go.brendoncarroll.net/p2p="$REPO"); fi
mkdir -p harness/bin .work evidence replays
./harness/evilssh_src/gen.sh
(cd harness && go build -tags verif -o bin/ ./cmd/... && go1.26 build -tags verif -o bin/corr26 ./cmd/corr)
mkdir -p lean/P2PVerif/Gen
./harness/bin/extract -repo "$REPO" > lean/P2PVerif/Gen/Facts.lean.new
if ! cmp -s lean/P2PVerif/Gen/Facts.lean.new lean/P2PVerif/Gen/Facts.lean 2>/dev/null; then mv lean/P2PVerif/Gen/Facts.lean.new lean/P2PVerif/Gen/Facts.lean; else rm lean/P2PVerif/Gen/Facts.lean.new; fi
./harness/bin/go2lean -repo "$REPO" -o lean/P2PVerif/Gen/Src.lean.new
if ! cmp -s lean/P2PVerif/Gen/Src.lean.new lean/P2PVerif/Gen/Src.lean 2>/dev/null; then mv lean/P2PVerif/Gen/Src.lean.new lean/P2PVerif/Gen/Src.lean; else rm lean/P2PVerif/Gen/Src.lean.new; fi
(cd lean && lake build)
echo setup-ok
