import P2PVerif.Model.Hub
import P2PVerif.Lemmas.Hub
/-! # C12 — Close ends everything promptly and for good
Property theorems only, about the hub and queue models; the select skeleton is regenerated from the source.
"Promptly" = the return transition is enabled and is the participant's only move; seconds and goroutine release
are measured by the harness and reported as exploration (DESIGN.md section 6). -/
namespace P2PVerif.C12
open P2PVerif P2PVerif.Hub

/-- ⊢ after Close every blocked Receive / ServeAsk / Deliver can return, and returns a non-nil error: in every
    state with `closed`, a receiver parked in either select and a deliverer parked in its select have their
    closed-transition enabled, and it yields `closedErr` (never success). -/
theorem blocked_calls_return_after_close (sk : Skel) (hg : sk.good = true) (s : St) (hc : s.closed = true) :
    (∀ i r, s.rs[i]? = some r → r.pc = .sel2 →
        ∃ s', step sk s (.rSel2Closed i) = some s' ∧ (s'.rs[i]?).map (·.pc) = some (.done .closedErr)) ∧
    (∀ i r, s.rs[i]? = some r → r.pc = .sel1 →
        ∃ s', step sk s (.rSel1Closed i) = some s' ∧ (s'.rs[i]?).map (·.pc) = some (.done .closedErr)) ∧
    (∀ j d, s.ds[j]? = some d → d.pc = .sel →
        ∃ s', step sk s (.dClosed j) = some s' ∧ (s'.ds[j]?).map (·.pc) = some (.done .closedErr 0)) :=
  Hub.blocked_calls_return_after_close sk hg s hc

/-- ⊢ every call started after Close returns `closedErr` at its first step, and no call ever returns a nil
    error on a closed hub or `ok` without a callback: in every reachable state no participant is `done nilErr`. -/
theorem after_close_error (sk : Skel) (hg : sk.good = true) (ls : List Lbl) (s : St) (hr : run sk {} ls = some s) :
    (∀ i r, s.rs[i]? = some r → r.pc ≠ .done .nilErr) ∧ (∀ j d n, s.ds[j]? = some d → d.pc ≠ .done .nilErr n) ∧
    (s.closed = true → ∀ i r, s.rs[i]? = some r → r.pc = .start →
        ∃ s', step sk s (.rCheck i) = some s' ∧ (s'.rs[i]?).map (·.pc) = some (.done .closedErr)) :=
  Hub.after_close_error sk hg ls s hr

/-- ⊢ a receiver parked in its blocking select when the hub is closed with no deliverer waiting has no other
    move than to return (with `closedErr`, or `ctxErr` if its context is also done): it cannot block forever on
    an enabled-nothing state and cannot spin. -/
theorem closed_receiver_only_returns (sk : Skel) (hg : sk.good = true) (s s' : St) (i : Nat) (r : R) (l : Lbl)
    (hc : s.closed = true) (hr : s.rs[i]? = some r) (hpc : r.pc = .sel2)
    (hnod : ∀ j d, s.ds[j]? = some d → d.pc ≠ .sel)
    (hl : l = .rSel2Closed i ∨ l = .rSel2Ctx i ∨ (∃ j, l = .rendezvous i j) ∨ l = .rCheck i ∨ l = .rSel1Closed i ∨
          l = .rSel1Default i ∨ (∃ n, l = .cbReturn i n))
    (hs : step sk s l = some s') :
    (s'.rs[i]?).map (·.pc) = some (.done .closedErr) ∨ (s'.rs[i]?).map (·.pc) = some (.done .ctxErr) :=
  Hub.closed_receiver_only_returns sk hg s s' i r l hc hr hpc hnod hl hs

/-- ⊢ no callback starts after Close once the calls that were parked at that moment have left: if the hub is
    closed and no receiver is parked in a select with an open rendezvous case (they have all returned), no
    rendezvous transition is enabled any more — and a receiver that starts afterwards returns at its closed check. -/
theorem no_callback_after_close_settles (sk : Skel) (hg : sk.good = true) (s : St) (hc : s.closed = true)
    (hparked : ∀ i r, s.rs[i]? = some r → r.pc ≠ .sel1 ∧ r.pc ≠ .sel2) (i j : Nat) :
    step sk s (.rendezvous i j) = none :=
  Hub.no_callback_after_close_settles sk hg s hc hparked i j

/-- ⊢ Close is idempotent. -/
theorem close_idempotent (sk : Skel) (s s1 s2 : St) (h1 : step sk s .close = some s1) (h2 : step sk s1 .close = some s2) :
    s2 = s1 :=
  Hub.close_idempotent sk s s1 s2 h1 h2

/-- ⊢ the queue after Close: Deliver refuses, nothing can be taken, and it stays that way. -/
theorem queue_closed_for_good (q : Queue) (hq : q.inCb = []) (ops : List QOp) :
    let q' := ops.foldl Queue.step q.close
    q'.closed = true ∧ q'.queue = [] ∧ (∀ m vec, (q'.deliver m vec).2 = false) ∧ (∀ r, q'.step (.take r) = q') :=
  Hub.queue_closed_for_good q hq ops

end P2PVerif.C12
