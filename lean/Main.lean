import P2PVerif.Driver.Core
import P2PVerif.Driver.Mux
import P2PVerif.Driver.Cache
import P2PVerif.Driver.DHT
import P2PVerif.Driver.Key
import P2PVerif.Driver.Addr
import P2PVerif.Driver.Frag
import P2PVerif.Driver.Ke
import P2PVerif.Driver.KeT
import P2PVerif.Driver.DHTNode
import P2PVerif.Driver.Asker
import P2PVerif.Driver.Hub
import P2PVerif.Driver.Stack
import P2PVerif.Driver.Src
open P2PVerif.Driver

def streams : List (String × Stream) := [
  ("mux", muxStream),
  ("cache", cacheStream),
  ("dht", dhtStream),
  ("key", keyStream),
  ("addr", addrStream),
  ("frag", fragStream),
  ("fragt", fragtStream),
  ("ke", keStream),
  ("ket", ketStream),
  ("node", nodeStream),
  ("ask", askStream),
  ("hub", hubStream),
  ("stack", stackStream),
  ("src", srcStream),
  ("replay", replayStream)
]

def main (args : List String) : IO UInt32 := do
  match args with
  | [name] =>
    match streams.lookup name with
    | some s => run s
    | none => IO.eprintln s!"unknown stream {name}"; return 2
  | _ => IO.eprintln "usage: driver <stream>"; return 2
