import P2PVerif.Model.Util
import P2PVerif.Model.Varint
import P2PVerif.Model.Mux
import P2PVerif.Lemmas.Varint
import P2PVerif.Props.C15
import P2PVerif.Gen.Facts
