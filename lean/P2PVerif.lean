import P2PVerif.Model.Util
