import P2PVerif.Model.Mux
import P2PVerif.Lemmas.Varint
/-! # C15 — multiplexed channels are isolated and framing is unambiguous
Property theorems only; helper lemmas live in `Lemmas/`. -/
namespace P2PVerif.C15
open P2PVerif P2PVerif.Mux

/-- ⊢ `binary.Uvarint` inverts `binary.PutUvarint` for every 64-bit value, whatever follows. -/
theorem uvarint_roundtrip (x : Nat) (hx : x < 2 ^ 64) (rest : Bytes) :
    Varint.get (Varint.put x ++ rest) = .ok x (Varint.put x).length :=
  Varint.get_put x hx rest

/-- ⊢ framing then unframing returns the same channel and payload: every kind, every well-typed channel
    id (strings of any length and content, all 16/32/64-bit values, all varints), every payload. -/
theorem demux_mux (k : Kind) (c : Chan) (x : Bytes) (h : c.WF k) : demux k (mux k c x) = .ok c x := by
  cases k <;> cases c <;> simp only [Chan.WF] at h
  case str.s c =>
    simp only [mux, header, demux, List.append_assoc]
    rw [Varint.get_put _ h]
    simp
  case varint.n c =>
    simp only [mux, header, demux]
    rw [Varint.get_put _ h]
    simp
  case u16.n c =>
    simp only [mux, header, demux, be2, List.cons_append, List.nil_append]
    congr 2; omega
  case u32.n c =>
    simp only [mux, header, demux, be4, List.cons_append, List.nil_append]
    congr 2; omega
  case u64.n c =>
    simp only [mux, header, demux, be8, List.cons_append, List.nil_append]
    congr 2; omega

/-- ⊢ two different (channel, payload) pairs never produce the same bytes. -/
theorem mux_injective (k : Kind) (c c' : Chan) (x x' : Bytes) (h : c.WF k) (h' : c'.WF k)
    (e : mux k c x = mux k c' x') : c = c' ∧ x = x' := by
  have h1 := demux_mux k c x h
  have h2 := demux_mux k c' x' h'
  rw [e, h2] at h1
  injection h1 with hc hx
  exact ⟨hc.symm, hx.symm⟩

/-- ⊢ prefix-freeness: if one channel's header followed by anything equals another channel's header
    followed by anything, the channels are the same (so no header is a proper prefix of another's frame). -/
theorem header_prefix_free (k : Kind) (c c' : Chan) (x x' : Bytes) (h : c.WF k) (h' : c'.WF k)
    (e : header k c ++ x = header k c' ++ x') : c = c' :=
  (mux_injective k c c' x x' h h' e).1

/-- ⊢ a frame made for channel `c` reaches only the swarm opened for `c` (and reaches it unchanged),
    for every set of simultaneously open channels; if `c` is not open at the destination it reaches nobody. -/
theorem dispatch_isolated (k : Kind) (opened : List Chan) (c : Chan) (x : Bytes) (h : c.WF k) :
    dispatch k opened (mux k c x) = if c ∈ opened then some (c, x) else none := by
  simp [dispatch, demux_mux k c x h]

/-- corollary in the property's words: whatever is delivered went to channel `c` itself with payload `x` -/
theorem dispatch_only_own_channel (k : Kind) (opened : List Chan) (c c' : Chan) (x y : Bytes) (h : c.WF k)
    (hd : dispatch k opened (mux k c x) = some (c', y)) : c' = c ∧ y = x := by
  rw [dispatch_isolated k opened c x h] at hd
  split at hd
  · injection hd with hd; injection hd with h1 h2; exact ⟨h1.symm, h2.symm⟩
  · cases hd

-- non-vacuity: concrete well-typed channels of each kind, including the extremes
example : (Chan.s []).WF .str ∧ (Chan.n (2^64-1)).WF .varint ∧ (Chan.n 65535).WF .u16 ∧
    (Chan.n (2^32-1)).WF .u32 ∧ (Chan.n (2^64-1)).WF .u64 := by
  simp [Chan.WF]
example : dispatch .str [.s [1,2], .s []] (mux .str (.s []) [9]) = some (.s [], [9]) := by
  rw [dispatch_isolated _ _ _ _ (by simp [Chan.WF])]; simp

end P2PVerif.C15
