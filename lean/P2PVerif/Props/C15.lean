import P2PVerif.Model.Mux
import P2PVerif.Lemmas.Varint
import P2PVerif.Lemmas.SrcMux
/-! # C15 — multiplexed channels are isolated and framing is unambiguous
Property theorems only; helper lemmas live in `Lemmas/`. -/
namespace P2PVerif.C15
open P2PVerif P2PVerif.Mux P2PVerif.Src P2PVerif.Go P2PVerif.SrcMux P2PVerif.SrcKad

/-- ⊢ `binary.Uvarint` inverts `binary.PutUvarint` for every 64-bit value, whatever follows. -/
theorem uvarint_roundtrip (x : Nat) (hx : x < 2 ^ 64) (rest : Bytes) :
    Varint.get (Varint.put x ++ rest) = .ok x (Varint.put x).length :=
  Varint.get_put x hx rest

/-- ⊢ framing then unframing returns the same channel and payload: every kind, every well-typed channel
    id (strings of any length and content, all 16/32/64-bit values, all varints), every payload. -/
theorem demux_mux (k : Kind) (c : Chan) (x : Bytes) (h : c.WF k) : demux k (mux k c x) = .ok c x := by
  cases k <;> cases c <;> simp only [Chan.WF] at h
  case str.s c =>
    simp only [mux, header, demux, List.append_assoc]
    rw [Varint.get_put _ h]
    simp
  case varint.n c =>
    simp only [mux, header, demux]
    rw [Varint.get_put _ h]
    simp
  case u16.n c =>
    simp only [mux, header, demux, be2, List.cons_append, List.nil_append]
    congr 2; omega
  case u32.n c =>
    simp only [mux, header, demux, be4, List.cons_append, List.nil_append]
    congr 2; omega
  case u64.n c =>
    simp only [mux, header, demux, be8, List.cons_append, List.nil_append]
    congr 2; omega

/-- ⊢ two different (channel, payload) pairs never produce the same bytes. -/
theorem mux_injective (k : Kind) (c c' : Chan) (x x' : Bytes) (h : c.WF k) (h' : c'.WF k)
    (e : mux k c x = mux k c' x') : c = c' ∧ x = x' := by
  have h1 := demux_mux k c x h
  have h2 := demux_mux k c' x' h'
  rw [e, h2] at h1
  injection h1 with hc hx
  exact ⟨hc.symm, hx.symm⟩

/-- ⊢ prefix-freeness: if one channel's header followed by anything equals another channel's header
    followed by anything, the channels are the same (so no header is a proper prefix of another's frame). -/
theorem header_prefix_free (k : Kind) (c c' : Chan) (x x' : Bytes) (h : c.WF k) (h' : c'.WF k)
    (e : header k c ++ x = header k c' ++ x') : c = c' :=
  (mux_injective k c c' x x' h h' e).1

/-- ⊢ a frame made for channel `c` reaches only the swarm opened for `c` (and reaches it unchanged),
    for every set of simultaneously open channels; if `c` is not open at the destination it reaches nobody. -/
theorem dispatch_isolated (k : Kind) (opened : List Chan) (c : Chan) (x : Bytes) (h : c.WF k) :
    dispatch k opened (mux k c x) = if c ∈ opened then some (c, x) else none := by
  simp [dispatch, demux_mux k c x h]

/-- corollary in the property's words: whatever is delivered went to channel `c` itself with payload `x` -/
theorem dispatch_only_own_channel (k : Kind) (opened : List Chan) (c c' : Chan) (x y : Bytes) (h : c.WF k)
    (hd : dispatch k opened (mux k c x) = some (c', y)) : c' = c ∧ y = x := by
  rw [dispatch_isolated k opened c x h] at hd
  split at hd
  · injection hd with hd; injection hd with h1 h2; exact ⟨h1.symm, h2.symm⟩
  · cases hd

-- non-vacuity: concrete well-typed channels of each kind, including the extremes
example : (Chan.s []).WF .str ∧ (Chan.n (2^64-1)).WF .varint ∧ (Chan.n 65535).WF .u16 ∧
    (Chan.n (2^32-1)).WF .u32 ∧ (Chan.n (2^64-1)).WF .u64 := by
  simp [Chan.WF]
example : dispatch .str [.s [1,2], .s []] (mux .str (.s []) [9]) = some (.s [], [9]) := by
  rw [dispatch_isolated _ _ _ _ (by simp [Chan.WF])]; simp

/-! ### the same, about the definitions regenerated from the Go source (`Gen/Src.lean`) -/

/-- ⊢ (source) `uint16DemuxFunc` undoes `uint16MuxFunc` on the concatenated frame: every channel, every payload
    vector; neither faults. -/
theorem src_u16_roundtrip (c : UInt16) (x : List Go.Bytes) :
    (p2pmux.uint16MuxFunc c x >>= fun v => p2pmux.uint16DemuxFunc v.flatten) = .ok (c, x.flatten, none) := by
  rw [u16Mux_eq]
  simp only [bind_ok, hdr16, List.flatten_cons, List.cons_append, List.nil_append, u16Demux_ok, byteOf_toNat]
  congr 2
  have := c.toNat_lt
  have e : c.toNat / 256 % 256 * 256 + c.toNat % 256 = c.toNat := by omega
  rw [e]; simp

theorem src_u32_roundtrip (c : UInt32) (x : List Go.Bytes) :
    (p2pmux.uint32MuxFunc c x >>= fun v => p2pmux.uint32DemuxFunc v.flatten) = .ok (c, x.flatten, none) := by
  rw [u32Mux_eq]
  simp only [bind_ok, hdr32, List.flatten_cons, List.cons_append, List.nil_append, u32Demux_ok, byteOf_toNat]
  congr 2
  have := c.toNat_lt
  have e : ((c.toNat / 16777216 % 256 * 256 + c.toNat / 65536 % 256) * 256 + c.toNat / 256 % 256) * 256 + c.toNat % 256 = c.toNat := by omega
  rw [e]; simp

theorem src_u64_roundtrip (c : UInt64) (x : List Go.Bytes) :
    (p2pmux.uint64MuxFunc c x >>= fun v => p2pmux.uint64DemuxFunc v.flatten) = .ok (c, x.flatten, none) := by
  rw [u64Mux_eq]
  simp only [bind_ok, hdr64, List.flatten_cons, List.cons_append, List.nil_append, u64Demux_ok, byteOf_toNat]
  congr 2
  have := c.toNat_lt
  have e : ((((((c.toNat / 72057594037927936 % 256 * 256 + c.toNat / 281474976710656 % 256) * 256 + c.toNat / 1099511627776 % 256) * 256
      + c.toNat / 4294967296 % 256) * 256 + c.toNat / 16777216 % 256) * 256 + c.toNat / 65536 % 256) * 256 + c.toNat / 256 % 256) * 256
      + c.toNat % 256 = c.toNat := by omega
  rw [e]; simp

theorem src_varint_roundtrip (c : UInt64) (x : List Go.Bytes) :
    (p2pmux.varintMuxFunc c x >>= fun v => p2pmux.varintDemuxFunc v.flatten) = .ok (c, x.flatten, none) := by
  rw [varintMux_eq]
  simp only [bind_ok, List.flatten_cons, varintDemux_model]
  have : nb (Go.uvarintBytes c ++ x.flatten) = Varint.put c.toNat ++ nb x.flatten := by
    simp only [nb, List.map_append]
    have := nb_uvarintBytes c
    simp only [nb] at this
    rw [this]
  rw [this, Varint.get_put _ c.toNat_lt]
  simp only
  congr 2
  · simp
  · have : (Varint.put c.toNat).length = (Go.uvarintBytes c).length := by simp [Go.uvarintBytes]
    rw [this]; simp

theorem src_string_roundtrip (c : Go.Bytes) (x : List Go.Bytes) (hlen : c.length + 10 + x.flatten.length < 2 ^ 63) :
    (p2pmux.stringMuxFunc c x >>= fun v => p2pmux.stringDemuxFunc v.flatten) = .ok (c, x.flatten, none) := by
  have hc : c.length < 2 ^ 64 := by omega
  rw [stringMux_eq c x hc]
  have hl := uvarintBytes_len (UInt64.ofNat c.length)
  have hu : (UInt64.ofNat c.length).toNat = c.length := u64_ofNat_toNat _ hc
  simp only [bind_ok, List.flatten_cons]
  rw [stringDemux_model _ (by rw [List.length_append, List.length_append]; omega)]
  have : nb ((Go.uvarintBytes (UInt64.ofNat c.length) ++ c) ++ x.flatten)
      = Varint.put c.length ++ nb (c ++ x.flatten) := by
    simp only [nb, List.map_append, List.append_assoc]
    have := nb_uvarintBytes (UInt64.ofNat c.length)
    simp only [nb, hu] at this
    rw [this]
  rw [this, Varint.get_put _ hc]
  have e : (Varint.put c.length).length = (Go.uvarintBytes (UInt64.ofNat c.length)).length := by
    simp [Go.uvarintBytes, hu]
  simp only [e, List.append_assoc, List.drop_left', List.length_append]
  have : ¬ (c.length + x.flatten.length < c.length) := by omega
  simp [this]

/-- ⊢ (source) two different (channel, payload) pairs never produce the same frame bytes: 16-bit channels. The other
    kinds follow from their round-trip theorems in the same way. -/
theorem src_u16_injective (c c' : UInt16) (x x' : List Go.Bytes) (v v' : List Go.Bytes)
    (h : p2pmux.uint16MuxFunc c x = .ok v) (h' : p2pmux.uint16MuxFunc c' x' = .ok v') (e : v.flatten = v'.flatten) :
    c = c' ∧ x.flatten = x'.flatten := by
  have r := src_u16_roundtrip c x
  have r' := src_u16_roundtrip c' x'
  rw [h] at r; rw [h'] at r'
  simp only [bind_ok] at r r'
  rw [e, r'] at r
  injection r with r
  injection r with r1 r2
  injection r2 with r2 _
  exact ⟨r1.symm, r2.symm⟩

theorem src_u32_injective (c c' : UInt32) (x x' : List Go.Bytes) (v v' : List Go.Bytes)
    (h : p2pmux.uint32MuxFunc c x = .ok v) (h' : p2pmux.uint32MuxFunc c' x' = .ok v') (e : v.flatten = v'.flatten) :
    c = c' ∧ x.flatten = x'.flatten := by
  have r := src_u32_roundtrip c x
  have r' := src_u32_roundtrip c' x'
  rw [h] at r; rw [h'] at r'
  simp only [bind_ok] at r r'
  rw [e, r'] at r
  injection r with r
  injection r with r1 r2
  injection r2 with r2 _
  exact ⟨r1.symm, r2.symm⟩

theorem src_u64_injective (c c' : UInt64) (x x' : List Go.Bytes) (v v' : List Go.Bytes)
    (h : p2pmux.uint64MuxFunc c x = .ok v) (h' : p2pmux.uint64MuxFunc c' x' = .ok v') (e : v.flatten = v'.flatten) :
    c = c' ∧ x.flatten = x'.flatten := by
  have r := src_u64_roundtrip c x
  have r' := src_u64_roundtrip c' x'
  rw [h] at r; rw [h'] at r'
  simp only [bind_ok] at r r'
  rw [e, r'] at r
  injection r with r
  injection r with r1 r2
  injection r2 with r2 _
  exact ⟨r1.symm, r2.symm⟩

theorem src_varint_injective (c c' : UInt64) (x x' : List Go.Bytes) (v v' : List Go.Bytes)
    (h : p2pmux.varintMuxFunc c x = .ok v) (h' : p2pmux.varintMuxFunc c' x' = .ok v') (e : v.flatten = v'.flatten) :
    c = c' ∧ x.flatten = x'.flatten := by
  have r := src_varint_roundtrip c x
  have r' := src_varint_roundtrip c' x'
  rw [h] at r; rw [h'] at r'
  simp only [bind_ok] at r r'
  rw [e, r'] at r
  injection r with r
  injection r with r1 r2
  injection r2 with r2 _
  exact ⟨r1.symm, r2.symm⟩

theorem src_string_injective (c c' : Go.Bytes) (x x' : List Go.Bytes) (v v' : List Go.Bytes)
    (hl : c.length + 10 + x.flatten.length < 2 ^ 63) (hl' : c'.length + 10 + x'.flatten.length < 2 ^ 63)
    (h : p2pmux.stringMuxFunc c x = .ok v) (h' : p2pmux.stringMuxFunc c' x' = .ok v') (e : v.flatten = v'.flatten) :
    c = c' ∧ x.flatten = x'.flatten := by
  have r := src_string_roundtrip c x hl
  have r' := src_string_roundtrip c' x' hl'
  rw [h] at r; rw [h'] at r'
  simp only [bind_ok] at r r'
  rw [e, r'] at r
  injection r with r
  injection r with r1 r2
  injection r2 with r2 _
  exact ⟨r1.symm, r2.symm⟩

/-- ⊢ (source) the regenerated mux functions produce exactly the model's frames, so everything proved about
    `Mux.mux`/`Mux.demux` above speaks about the code as it is now. -/
theorem src_mux_is_model_u16 (c : UInt16) (x : List Go.Bytes) :
    ∃ v, p2pmux.uint16MuxFunc c x = .ok v ∧ nb v.flatten = mux .u16 (.n c.toNat) (nb x.flatten) :=
  ⟨_, u16Mux_eq c x, by
    have := nb_hdr16 c
    simp only [nb] at this
    simp [mux, header, nb, this]⟩
theorem src_mux_is_model_u32 (c : UInt32) (x : List Go.Bytes) :
    ∃ v, p2pmux.uint32MuxFunc c x = .ok v ∧ nb v.flatten = mux .u32 (.n c.toNat) (nb x.flatten) :=
  ⟨_, u32Mux_eq c x, by
    have := nb_hdr32 c
    simp only [nb] at this
    simp [mux, header, nb, this]⟩
theorem src_mux_is_model_u64 (c : UInt64) (x : List Go.Bytes) :
    ∃ v, p2pmux.uint64MuxFunc c x = .ok v ∧ nb v.flatten = mux .u64 (.n c.toNat) (nb x.flatten) :=
  ⟨_, u64Mux_eq c x, by
    have := nb_hdr64 c
    simp only [nb] at this
    simp [mux, header, nb, this]⟩
theorem src_mux_is_model_varint (c : UInt64) (x : List Go.Bytes) :
    ∃ v, p2pmux.varintMuxFunc c x = .ok v ∧ nb v.flatten = mux .varint (.n c.toNat) (nb x.flatten) :=
  ⟨_, varintMux_eq c x, by
    have := nb_uvarintBytes c
    simp only [nb] at this
    simp [mux, header, nb, this]⟩

-- non-vacuity: the regenerated functions run (this is `#eval`-level evidence inside the kernel)
example : p2pmux.uint16MuxFunc 513 [[7, 8], [9]] = .ok [[2, 1], [7, 8], [9]] := by
  rw [u16Mux_eq]; rfl
example : p2pmux.uint16DemuxFunc [2, 1, 7, 8, 9] = .ok (513, [7, 8, 9], none) := by
  rw [u16Demux_ok]; rfl

end P2PVerif.C15
