import P2PVerif.Model.Secure
import P2PVerif.Lemmas.Secure
/-! # C04 — secure swarms attribute every message to the key its sender proved
Property theorems only, about the decision models of `Model/Secure.lean`; proof of possession inside TLS and
inside the SSH signature check is assumed (a `sign k` step / a TLS-proven key can only come from a holder of `k`).
The p2pkeswarm statements rest on the channel theorems of C05 and the session theorems of C03. -/
namespace P2PVerif.C04
open P2PVerif P2PVerif.P2PKE P2PVerif.Secure

/-- ⊢ sshswarm: for every sequence of authentication steps — queries for any keys in any order, repeated, before
    and after failed signatures — by a peer that can sign only with the keys it holds, the identity recorded for
    the connection is a key that peer signed with in this connection; in particular a key it holds. -/
theorem ssh_src_is_proven_key (held : KeyId → Bool) (steps : List AuthStep) (h : stepsBy held steps) (k : KeyId)
    (hid : (SshSrv.run steps).identity = some k) : held k = true ∧ AuthStep.sign k ∈ steps :=
  Secure.ssh_src_is_proven_key held steps h k hid

/-- the defect of the unrepaired code, as a theorem about its model: the closure variable can name a key the
    peer merely asked about. -/
theorem ssh_closure_confusion :
    ∃ (held : KeyId → Bool) (steps : List AuthStep) (v : KeyId), stepsBy held steps ∧ held v = false ∧
      (SshSrv.run steps).identityClosure = some v :=
  Secure.ssh_closure_confusion

/-- ⊢ quicswarm: a payload addressed to identity X is handed only to a connection whose TLS-proven key is X, and
    every message served carries the proven key as its source identity, only if the allow function admits it. -/
theorem quic_identity (dstID proven : KeyId) (allow : KeyId → Bool) :
    (quicMayUse dstID proven = true → proven = dstID) ∧
    (∀ src, quicAccept allow proven = some src → src = proven ∧ allow proven = true) :=
  Secure.quic_identity dstID proven allow

/-- ⊢ p2pkeswarm, inbound: whatever happened on the channel of a transport address (any incoming terms, timers,
    sends), the source identity attached to delivered application data is the channel's remote key, that key
    passed the predicate the channel was created with (the whitelist for contacts the application did not
    address itself; the addressed identity otherwise), and the delivering session is with that key. -/
theorem ke_src_is_accepted_key (key : KeyId) (whitelist : KeyId → Bool) (how : Created) (ra ka ht : Nat) (lt : IdLt)
    (ops : List COp) (w : Wire) (eph now : Nat) (p : Bytes) :
    let c := (Chan.fresh key (acceptOf whitelist how) ra ka ht).run lt ops
    let c' := (c.step lt (.deliver w eph now)).1
    (c.step lt (.deliver w eph now)).2.app = some p →
    ∃ k, keSrcID c' = some k ∧ acceptOf whitelist how k = true ∧
      ∃ e, (c'.cur = some e ∨ c'.prev = some e) ∧ e.sess.rKey = some k :=
  Secure.ke_src_is_accepted_key key whitelist how ra ka ht lt ops w eph now p

/-- ⊢ p2pkeswarm, outbound: a Tell to identity X at some transport address encrypts only on a channel whose
    remote key is X — whether the channel was created by this Tell or earlier by an inbound contact. -/
theorem ke_wrong_identity_never_receives (key : KeyId) (whitelist : KeyId → Bool) (how : Created) (ra ka ht : Nat)
    (lt : IdLt) (ops : List COp) (dstID : KeyId) (p : Bytes) (now : Nat) (w : Wire) :
    let c := (Chan.fresh key (acceptOf whitelist how) ra ka ht).run lt ops
    keMayUse dstID c = true → (c.step lt (.send p now)).2.sent = [w] →
    ∃ e, (c.expire now).cur = some e ∧ e.sess.rKey = some dstID :=
  Secure.ke_wrong_identity_never_receives key whitelist how ra ka ht lt ops dstID p now w

/-- ⊢ whitelist respected: on a channel created by an inbound contact, a peer key the whitelist rejects never
    gets application data delivered and never becomes the remote key. -/
theorem whitelist_respected (key : KeyId) (whitelist : KeyId → Bool) (ra ka ht : Nat) (lt : IdLt) (ops : List COp)
    (k : KeyId) (hk : whitelist k = false) :
    ((Chan.fresh key (acceptOf whitelist .inbound) ra ka ht).run lt ops).remoteKey ≠ some k :=
  Secure.whitelist_respected key whitelist ra ka ht lt ops k hk

-- non-vacuity: the history that confused the unrepaired server leaves the repaired one with the signer's key
example : (SshSrv.run [.query 1, .query 2, .sign 1]).identity = some 1 ∧
          (SshSrv.run [.query 1, .query 2, .sign 1]).identityClosure = some 2 := by decide

end P2PVerif.C04
