import P2PVerif.Model.KeWorld
import P2PVerif.Lemmas.Replay
import P2PVerif.Lemmas.KeAuth
/-! # C02 — secure channel delivers only authentic peer plaintexts, at most once
Property theorems only; same adversary as C03. `W.apps` logs every application delivery (session, accepted wire
term, plaintext), `W.sends` every honest `Send` (session, emitted term, plaintext). -/
namespace P2PVerif.C02
open P2PVerif P2PVerif.P2PKE

/-- facts obligation: the message limit read from the source fits the 32-bit header counter, so the counter
    in the header is the AEAD counter, never a truncation of it. -/
theorem header_counter_exact (n : Nat) (h : n < maxNonce) : n % 2 ^ 32 = n := by
  have : maxNonce < 2 ^ 32 := by decide
  exact Nat.mod_eq_of_lt (by omega)

/-- ⊢ the replay filter accepts each counter at most once, for every counter sequence of any length. -/
theorem replay_at_most_once (lim : Nat) (cs : List Nat) : (Replay.run Replay.Filter.empty lim cs).2.Nodup :=
  Replay.accepted_at_most_once lim cs

/-- ⊢ every plaintext handed to the application of an honest session whose authenticated peer key is honest was
    given to `Send` by that peer's session of this very handshake, as that very ciphertext (so it arrives
    unmodified, and never from an unrelated or adversarial session). -/
theorem session_authentic (hk : KeyId → Bool) (W : World) (hr : Reach hk W) (i : Nat) (w : Wire) (p : Bytes)
    (hd : (i, w, p) ∈ W.apps) (s : Sess) (hs : W.sess[i]? = some s) (k : KeyId) (hkey : s.rKey = some k)
    (hon : hk k = true) :
    ∃ j sP, (j, w, p) ∈ W.sends ∧ W.sess[j]? = some sP ∧ sP.key = k ∧ sP.isInit = !s.isInit ∧
      s.rEph = some (2 * j) ∧ sP.rEph = some (2 * i) :=
  P2PKE.session_authentic hk W hr i w p hd s hs k hkey hon

/-- ⊢ at most once: no session accepts the same ciphertext twice, and a ciphertext is accepted by at most one
    session ever — also across any number of session rotations on a channel, since every session has its own
    ephemeral. -/
theorem at_most_once (hk : KeyId → Bool) (W : World) (hr : Reach hk W) :
    (W.apps.map (fun a => (a.1, a.2.1))).Nodup ∧
    ∀ i i' w p p', (i, w, p) ∈ W.apps → (i', w, p') ∈ W.apps → i = i' ∧ p = p' :=
  P2PKE.at_most_once hk W hr

/-- ⊢ no two ciphertexts are produced under the same key and counter: within a session the data counters are
    pairwise distinct and at least 16 (the handshake messages of that key use 2 and 3), and different sessions
    have different keys. -/
theorem nonce_unique (hk : KeyId → Bool) (W : World) (hr : Reach hk W) :
    (W.sends.map (fun a => (a.1, a.2.1.counter))).Nodup ∧
    ∀ a ∈ W.sends, noncePostHandshake ≤ a.2.1.counter ∧ a.2.1.counter < maxNonce :=
  P2PKE.nonce_unique hk W hr

/-- ⊢ nothing an honest session puts on the transport is plaintext: every emission is a handshake term or an
    AEAD term whose payload only the holders of the session's ephemerals can open. -/
theorem no_plaintext_on_wire (hk : KeyId → Bool) (W : World) (hr : Reach hk W) :
    ∀ w ∈ W.wire, match w with
      | .initHello .. | .respHello .. | .initDone .. | .respDone .. => True
      | .data eI eR _ _ _ _ => advEph eI = false ∨ advEph eR = false
      | _ => False :=
  P2PKE.no_plaintext_on_wire hk W hr

end P2PVerif.C02
