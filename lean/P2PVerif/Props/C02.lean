import P2PVerif.Model.KeWorld
import P2PVerif.Lemmas.Replay
import P2PVerif.Lemmas.KeAuth
import P2PVerif.Lemmas.SrcReplay
import P2PVerif.Lemmas.SrcKe
/-! # C02 — secure channel delivers only authentic peer plaintexts, at most once
Property theorems only; same adversary as C03. `W.apps` logs every application delivery (session, accepted wire
term, plaintext), `W.sends` every honest `Send` (session, emitted term, plaintext). -/
namespace P2PVerif.C02
open P2PVerif P2PVerif.P2PKE

/-- facts obligation: the message limit read from the source fits the 32-bit header counter, so the counter
    in the header is the AEAD counter, never a truncation of it. -/
theorem header_counter_exact (n : Nat) (h : n < maxNonce) : n % 2 ^ 32 = n := by
  have : maxNonce < 2 ^ 32 := by decide
  exact Nat.mod_eq_of_lt (by omega)

/-- ⊢ the replay filter accepts each counter at most once, for every counter sequence of any length. -/
theorem replay_at_most_once (lim : Nat) (cs : List Nat) : (Replay.run Replay.Filter.empty lim cs).2.Nodup :=
  Replay.accepted_at_most_once lim cs

/-- ⊢ every plaintext handed to the application of an honest session whose authenticated peer key is honest was
    given to `Send` by that peer's session of this very handshake, as that very ciphertext (so it arrives
    unmodified, and never from an unrelated or adversarial session). -/
theorem session_authentic (hk : KeyId → Bool) (W : World) (hr : Reach hk W) (i : Nat) (w : Wire) (p : Bytes)
    (hd : (i, w, p) ∈ W.apps) (s : Sess) (hs : W.sess[i]? = some s) (k : KeyId) (hkey : s.rKey = some k)
    (hon : hk k = true) :
    ∃ j sP, (j, w, p) ∈ W.sends ∧ W.sess[j]? = some sP ∧ sP.key = k ∧ sP.isInit = !s.isInit ∧
      s.rEph = some (2 * j) ∧ sP.rEph = some (2 * i) :=
  P2PKE.session_authentic hk W hr i w p hd s hs k hkey hon

/-- ⊢ at most once: no session accepts the same ciphertext twice, and a ciphertext is accepted by at most one
    session ever — also across any number of session rotations on a channel, since every session has its own
    ephemeral. -/
theorem at_most_once (hk : KeyId → Bool) (W : World) (hr : Reach hk W) :
    (W.apps.map (fun a => (a.1, a.2.1))).Nodup ∧
    ∀ i i' w p p', (i, w, p) ∈ W.apps → (i', w, p') ∈ W.apps → i = i' ∧ p = p' :=
  P2PKE.at_most_once hk W hr

/-- ⊢ no two ciphertexts are produced under the same key and counter: within a session the data counters are
    pairwise distinct and at least 16 (the handshake messages of that key use 2 and 3), and different sessions
    have different keys. -/
theorem nonce_unique (hk : KeyId → Bool) (W : World) (hr : Reach hk W) :
    (W.sends.map (fun a => (a.1, a.2.1.counter))).Nodup ∧
    ∀ a ∈ W.sends, noncePostHandshake ≤ a.2.1.counter ∧ a.2.1.counter < maxNonce :=
  P2PKE.nonce_unique hk W hr

/-- ⊢ nothing an honest session puts on the transport is plaintext: every emission is a handshake term or an
    AEAD term whose payload only the holders of the session's ephemerals can open. -/
theorem no_plaintext_on_wire (hk : KeyId → Bool) (W : World) (hr : Reach hk W) :
    ∀ w ∈ W.wire, match w with
      | .initHello .. | .respHello .. | .initDone .. | .respDone .. => True
      | .data eI eR _ _ _ _ => advEph eI = false ∨ advEph eR = false
      | _ => False :=
  P2PKE.no_plaintext_on_wire hk W hr

/-! ### about the definitions regenerated from the Go source (`Gen/Src.lean`) -/
section Src
open P2PVerif.Src P2PVerif.Go

/-- ⊢ (source) `replay.Filter.ValidateCounter` — the window every session checks inbound counters against, translated
    from the source of the wireguard module the repository builds with — IS the model `Replay.validate`: from related
    states it never faults, returns the model's verdict and leaves a related state, for every counter and limit
    (all 64-bit values, including the wrap-around arithmetic of the block indices). -/
theorem src_replay_is_model (f : replay.FilterT) (m : Replay.Filter) (h : SrcReplay.frel f m) (counter limit : UInt64) :
    ∃ ok f', replay.Filter.ValidateCounter f counter limit = .ok (ok, f') ∧
      SrcReplay.frel f' (Replay.validate m counter.toNat limit.toNat).1 ∧
      ok = (Replay.validate m counter.toNat limit.toNat).2 :=
  SrcReplay.ValidateCounter_model f m h counter limit

/-- ⊢ (source) so the real filter, started from its zero value, accepts no counter twice — every sequence of 64-bit
    counters of any length, every limit. -/
theorem src_replay_at_most_once (limit : UInt64) (cs : List UInt64) :
    ∃ f' acc, SrcReplay.srcRun SrcReplay.zeroFilter limit cs = .ok (f', acc) ∧ acc.Nodup :=
  SrcReplay.src_accepts_at_most_once limit cs

/-- ⊢ (source) the 4-byte header `newMessage` writes is the counter `GetNonce` reads back, and `Body` returns what
    follows it: the counter on the wire is the AEAD counter of that message. -/
theorem src_header_counter_roundtrip (n : UInt32) (body : Go.Bytes) :
    (p2pke.newMessage n >>= fun h => p2pke.Message.GetNonce (h ++ body)) = .ok n ∧
    (p2pke.newMessage n >>= fun h => p2pke.Message.Body (h ++ body)) = .ok body := by
  rw [SrcKe.newMessage_eq]
  exact ⟨SrcKe.getNonce_new n body, SrcKe.body_new n body⟩

-- non-vacuity: the zero filter is related to the model's empty filter
example : SrcReplay.frel SrcReplay.zeroFilter Replay.Filter.empty := SrcReplay.zero_rel
end Src

end P2PVerif.C02
