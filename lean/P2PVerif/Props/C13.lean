import P2PVerif.Model.Hub
import P2PVerif.Lemmas.Hub
/-! # C13 — cancellation is prompt; each message is handed to exactly one receiver
Property theorems only, about the labelled transition systems of `Model/Hub.lean` (TellHub, AskHub, Queue of
s/swarmutil). `run sk {} ls = some s`: `s` is reachable by the transition sequence `ls` — any number of receivers
and deliverers, any interleaving, cancellations and close at any point. Which cases the selects offer is read
from the source on every run (`Skel.tell`, `Skel.ask`). "Promptly" is stated as enabledness: a cancelled or
closed-out participant always has its own return transition available and nothing forces it elsewhere; wall-clock
latency and select fairness are outside the model (DESIGN.md section 6).
(Bound variables carry explicit types — `(i : Nat) (r : R)` … — because `s.rs[i]?` alone does not let Lean infer them.) -/
namespace P2PVerif.C13
open P2PVerif P2PVerif.Hub

/-- facts obligation: every blocking select in hubs.go offers the closed channel and the context, the rendezvous
    channel is offered on both sides, and closing with a nil error stores ErrClosed; Queue.Receive offers the
    context, the closed channel and the queue. -/
theorem skeleton_ok :
    Skel.tell.good = true ∧ Skel.ask.good = true ∧
    casesOf "Queue.Receive" 0 = ["recv:ctx.Done()", "recv:q.closed", "recv:q.queue"] ∧
    casesOf "Queue.Deliver" 0 = ["recv:q.closed", "recv:q.freelist", "default"] ∧
    casesOf "Queue.DeliverVec" 0 = ["recv:q.closed", "recv:q.freelist", "default"] ∧
    -- the only channel operations outside a select are the deliverer's wait for its own callback (the commit point),
    -- the return of a message to the freelist (which has room: the message came from it) and Purge's drain loop
    Gen.Facts.bareChanOps = [("TellHub.Deliver", "recv:req.done"), ("AskHub.Deliver", "recv:req.done"),
      ("Queue.Receive", "send:q.freelist"), ("Queue.Purge", "recv:q.queue,send:q.freelist")] := by
  refine ⟨by decide, by decide, by decide, by decide, by decide, by decide⟩

/-- ⊢ each delivered message enters at most one callback (never two concurrent receivers), for every schedule
    and every number of receivers and producers; a receiver inside a callback holds a message that was started. -/
theorem exactly_one_receiver (sk : Skel) (ls : List Lbl) (s : St) (hr : run sk {} ls = some s) :
    s.started.Nodup ∧
    (∀ (i i' : Nat) (r r' : R) (j : Nat), s.rs[i]? = some r → s.rs[i']? = some r' → r.pc = .inCb j → r'.pc = .inCb j → i = i') ∧
    (∀ (i : Nat) (r : R) (j : Nat), s.rs[i]? = some r → r.pc = .inCb j → j ∈ s.started) :=
  Hub.exactly_one_receiver sk ls s hr

/-- ⊢ a delivery call returns success only after its callback has finished with the message (and returns that
    callback's result), and an error only if no callback ever saw the message. -/
theorem deliver_result_truthful (sk : Skel) (ls : List Lbl) (s : St) (hr : run sk {} ls = some s) :
    (∀ (j : Nat) (d : D) (n : Nat), s.ds[j]? = some d → d.pc = .done .ok n → (j, n) ∈ s.finished ∧ j ∈ s.started) ∧
    (∀ (j : Nat) (d : D) (r : Res) (n : Nat), s.ds[j]? = some d → d.pc = .done r n → r ≠ .ok → j ∉ s.started) ∧
    (∀ j n, (j, n) ∈ s.finished → j ∈ s.started) :=
  Hub.deliver_result_truthful sk ls s hr

/-- ⊢ cancellation: a participant whose context is done and which is parked in its blocking select can always
    return the context's error, and nothing else is ever *forced* on it. (Receivers; deliverers likewise.) -/
theorem cancel_enabled (sk : Skel) (hg : sk.good = true) (s : St) :
    (∀ (i : Nat) (r : R), s.rs[i]? = some r → r.pc = .sel2 → r.ctx = true →
        ∃ s', step sk s (.rSel2Ctx i) = some s' ∧ (s'.rs[i]?).map (·.pc) = some (.done .ctxErr)) ∧
    (∀ (j : Nat) (d : D), s.ds[j]? = some d → d.pc = .sel → d.ctx = true →
        ∃ s', step sk s (.dCtx j) = some s' ∧ (s'.ds[j]?).map (·.pc) = some (.done .ctxErr 0)) :=
  Hub.cancel_enabled sk hg s

/-- ⊢ a message is never lost because a competing receiver was cancelled: cancelling or returning a receiver
    that is not in a callback leaves every deliverer's state and the started/finished logs untouched. -/
theorem cancel_loses_nothing (sk : Skel) (s s' : St) (i : Nat) (l : Lbl)
    (hl : l = .cancelR i ∨ l = .rSel2Ctx i ∨ l = .rSel2Closed i ∨ l = .rSel1Closed i ∨ l = .rSel1Default i ∨ l = .rCheck i)
    (hs : step sk s l = some s') : s'.ds = s.ds ∧ s'.started = s.started ∧ s'.finished = s.finished :=
  Hub.cancel_loses_nothing sk s s' i l hl hs

/-- ⊢ the bounded queue: slots are conserved (free + queued + in callbacks = capacity, all distinct), so the
    queue never holds more than its capacity and no buffer is in two places at once. -/
theorem queue_slots_conserved (cap mtu : Nat) (ops : List QOp) :
    let q := ops.foldl Queue.step (Queue.new cap mtu)
    (q.free ++ q.queue.map (·.1) ++ q.inCb.map (·.2.1)).Nodup ∧
    -- original: (q.closed = false → (q.free ++ q.queue.map (·.1) ++ q.inCb.map (·.2.1)).length = cap)
    -- false when a receiver id is reused while it is still inside a callback: `Queue.cbReturn r` drops every
    -- `inCb` entry of `r` but frees one slot. Counterexample (cap 2): deliver, deliver, take 0, take 0, cbReturn 0
    -- leaves free = [1], queue = [], inCb = [] (one slot lost) — see the `example` below. Each `Receive` call is
    -- one participant, so the exact count is stated for op sequences with fresh receiver ids (`Hub.FreshTakes`,
    -- Lemmas/HubQueue.lean: no `take r` while `r` is in a callback). Distinctness and the bound need no hypothesis.
    (FreshTakes (Queue.new cap mtu) ops → q.closed = false →
      (q.free ++ q.queue.map (·.1) ++ q.inCb.map (·.2.1)).length = cap) ∧
    q.queue.length ≤ cap :=
  Hub.queue_slots_conserved cap mtu ops

-- the counterexample to the unconditional count (a model artefact: one receiver id inside two callbacks)
example :
    let q := List.foldl Queue.step (Queue.new 2 100)
      [.deliver ⟨0, 0, []⟩ false, .deliver ⟨0, 0, []⟩ false, .take 0, .take 0, .cbReturn 0]
    q.closed = false ∧ (q.free ++ q.queue.map (·.1) ++ q.inCb.map (·.2.1)).length = 1 := by decide

-- `FreshTakes` rejects exactly that sequence, and admits a receiver that calls `Receive` again after returning
example : ¬ FreshTakes (Queue.new 2 100)
    [.deliver ⟨0, 0, []⟩ false, .deliver ⟨0, 0, []⟩ false, .take 0, .take 0, .cbReturn 0] := by decide
example : FreshTakes (Queue.new 2 100)
    [.deliver ⟨0, 0, []⟩ false, .take 0, .cbReturn 0, .deliver ⟨0, 0, []⟩ false, .take 0, .take 1] := by decide

/-- ⊢ the queue is first-in first-out and a cancelled Receive loses nothing: `take` yields the oldest delivered
    message, a cancelled receiver leaves the queue as it is. -/
theorem queue_fifo (q : Queue) (m : QMsg) (vec : Bool) (r : Nat) :
    (∀ q', q.deliver m vec = (q', true) → q'.queue.map (·.2) = q.queue.map (·.2) ++ [m]) ∧
    (∀ q' m', q.take r = some (q', m') → q.queue.map (·.2) = m' :: q'.queue.map (·.2)) ∧
    (q.step (.cancel r) = q) :=
  Hub.queue_fifo q m vec r

-- non-vacuity: a rendezvous followed by the callback's return and the deliverer's success is a run of TellHub
example : ((run Skel.tell {} [.spawnR, .spawnD, .rCheck 0, .rendezvous 0 0, .cbReturn 0 7, .dDone 0]).map
    (fun s => s.ds.map (·.pc))) = some [.done .ok 7] := by decide

end P2PVerif.C13
