import P2PVerif.Model.DHT
import P2PVerif.Lemmas.DHT
import P2PVerif.Model.DHTNode
import P2PVerif.Lemmas.DHTNode
import P2PVerif.Lemmas.SrcIter
import P2PVerif.Lemmas.SrcDht
/-! # C20 — iterative DHT operations are bounded, non-redundant and report truthfully
Property theorems only, about the model of p/kademlia/dht.go in `Model/DHT.lean`. The remote side is an
arbitrary responder `Nat → NodeInfo → Resp` (call index first), so cyclic, self-referential, fabricated,
enormous and history-dependent peer lists are all inside the quantifier. `St.visited` is the (ghost) list of
ids passed to the operation's callback, `St.asked` those passed to the RPC, most recent first. -/
namespace P2PVerif.C20
open P2PVerif P2PVerif.Kad P2PVerif.DHT

-- `Oper`, `Oper.run`, `Oper.key` (the four operations, uniformly) live in `Model/DHT.lean`.

/-- ⊢ every operation contacts each distinct node at most once, whatever the responder returns. -/
theorem contacts_nodup (o : Oper) (fuel : Nat) (initial : List NodeInfo) (ask : Responder) (st : St)
    (h : o.run fuel initial ask = some st) : st.visited.Nodup ∧ st.asked.Nodup ∧ ∀ a ∈ st.asked, a ∈ st.visited :=
  DHT.contacts_nodup o fuel initial ask st h

/-- ⊢ every operation terminates: for ids that are 32 valid bytes and a key of at least 32 bytes (what
    `p2p.PeerID` enforces), some amount of fuel suffices, for every responder. -/
theorem terminates (o : Oper) (initial : List NodeInfo) (ask : Responder)
    (hk : 32 ≤ o.key.length ∧ validBytes o.key)
    (hi : ∀ n ∈ initial, n.id.length = 32 ∧ validBytes n.id)
    (ha : ∀ i n, ∀ m ∈ (ask i n).nodes, m.id.length = 32 ∧ validBytes m.id) :
    ∃ fuel, (o.run fuel initial ask).isSome :=
  DHT.terminates o initial ask hk hi ha

/-- ⊢ only nodes somebody mentioned are contacted: an initial peer or a peer listed in an earlier answer. -/
theorem contacts_subset_mentioned (o : Oper) (fuel : Nat) (initial : List NodeInfo) (ask : Responder) (st : St)
    (h : o.run fuel initial ask = some st) :
    ∀ v ∈ st.visited, (∃ n ∈ initial, n.id = v) ∨ (∃ i n, ∃ m ∈ (ask i n).nodes, m.id = v) :=
  DHT.contacts_subset_mentioned o fuel initial ask st h

/-- ⊢ find-node: the reported closest node was contacted and no contacted node is nearer to the target. -/
theorem findnode_closest_is_min_of_visited (fuel : Nat) (initial : List NodeInfo) (target : Bytes)
    (validate : NodeInfo → Bool) (ask : Responder) (st : St)
    (h : findNode fuel initial target validate ask = some st) :
    (st.visited ≠ [] → st.closest.isSome) ∧
    ∀ c, st.closest = some c → c.id ∈ st.visited ∧ ∀ v ∈ st.visited, distanceLt target v c.id = false :=
  DHT.findnode_closest_is_min_of_visited fuel initial target validate ask st h

/-- ⊢ get: a returned value was answered by a contacted node and passed validation; the reported closest
    node responded and no responder is nearer to the key. -/
theorem get_truthful (fuel : Nat) (initial : List NodeInfo) (key : Bytes) (validate : Bytes → Bool)
    (ask : Responder) (st : St) (h : get fuel initial key validate ask = some st) :
    (∀ v, st.value = some v → validate v = true ∧
        ∃ f, st.from_ = some f ∧ f ∈ st.asked ∧ ∃ i n, n.id = f ∧ (ask i n).ok = true ∧ (ask i n).value = some v) ∧
    (st.responders ≠ [] → st.closest.isSome) ∧
    (∀ c, st.closest = some c → c.id ∈ st.responders ∧ ∀ r ∈ st.responders, distanceLt key r c.id = false) ∧
    (∀ r ∈ st.responders, r ∈ st.asked) :=
  DHT.get_truthful fuel initial key validate ask st h

/-- ⊢ put: the accepted count is the number of distinct nodes that accepted, the error is raised exactly
    when that number is below the required minimum, and the reported closest node is the nearest acceptor. -/
theorem put_truthful (fuel : Nat) (initial : List NodeInfo) (key : Bytes) (ask : Responder) (st : St)
    (minAccepted : Nat) (h : put fuel initial key ask = some st) :
    st.accepted = st.acceptors.length ∧ st.acceptors.Nodup ∧ (∀ a ∈ st.acceptors, a ∈ st.asked) ∧
    (∀ a ∈ st.acceptors, ∃ i n, n.id = a ∧ (ask i n).ok = true ∧ (ask i n).accepted = true) ∧
    (putErr minAccepted st = true ↔ st.acceptors.length < (if minAccepted < 1 then 2 else minAccepted)) ∧
    (st.acceptors ≠ [] → st.closest.isSome) ∧
    (∀ c, st.closest = some c → c.id ∈ st.acceptors ∧ ∀ a ∈ st.acceptors, distanceLt key a c.id = false) :=
  DHT.put_truthful fuel initial key ask st minAccepted h

/-- ⊢ a find-node handler never returns more than ten nodes, whatever limit the request carries. -/
theorem responder_list_capped (reqLimit : Nat) : findNodeLimit reqLimit ≤ 10 ∧ findNodeLimit reqLimit ≤ reqLimit := by
  unfold findNodeLimit; split <;> omega

/-- ⊢ find-node never uses a record that failed validation: every node it contacts (and the node it reports as
    closest) is an initial peer — the caller's own, never validated — or a record from some answer that passed the
    caller's `validate`. (A seeded change that let every second of two adjacent invalid records through was what made
    this theorem worth stating: seeded/C20-validate-delete-skip.) -/
theorem findnode_only_validated (fuel : Nat) (initial : List NodeInfo) (target : Bytes)
    (validate : NodeInfo → Bool) (ask : Responder) (st : St)
    (h : findNode fuel initial target validate ask = some st) :
    (∀ v ∈ st.visited, (∃ n ∈ initial, n.id = v) ∨ (∃ i n, ∃ m ∈ (ask i n).nodes, validate m = true ∧ m.id = v)) ∧
    (∀ c, st.closest = some c → (c ∈ initial) ∨ (∃ i n, c ∈ (ask i n).nodes ∧ validate c = true)) :=
  DHT.findnode_only_validated fuel initial target validate ask st h

/-! ## the node that answers (`Model/DHTNode.lean`, p/kademlia/dht_node.go)

What an honest responder guarantees to the iterative operations above. A node is reached from `Node.new` by any
sequence of `AddPeer`, `RemovePeer`, local `Put` and `HandlePut` (`Node.run`). -/

/-- ⊢ FindNode answers at most `min(limit, 10)` nodes (a negative limit: none), each one a peer the node holds
    with the information it stored for it, and the list is the front of the node's nearest-first iteration. -/
theorem findnode_answer (n : Node) (target : Bytes) (limit : Int) :
    (n.handleFindNode target limit).length ≤ 10 ∧
    ((n.handleFindNode target limit).length : Int) ≤ max limit 0 ∧
    (∃ k, n.handleFindNode target limit = ((n.peers.forEach target).take k).map toInfo) ∧
    (∀ x ∈ n.handleFindNode target limit, ∃ e ∈ n.peers.entries, e.key = x.id ∧ e.val = x.info) :=
  DHT.findnode_answer n target limit

/-- ⊢ a node never lists itself: its own id is refused by `AddPeer`, so no answer (FindNode, or the closer lists of
    Put and Get) contains it. -/
theorem never_lists_self (localID : Bytes) (ps ds pt dt : Nat) (ops : List NOp) (key : Bytes) (limit : Int) :
    let n := (Node.new localID ps ds pt dt).run ops
    (∀ e ∈ n.peers.entries, e.key ≠ localID) ∧
    (∀ x ∈ n.handleFindNode key limit, x.id ≠ localID) ∧ (∀ x ∈ n.closerNodes key, x.id ≠ localID) :=
  DHT.never_lists_self localID ps ds pt dt ops key limit

/-- ⊢ the closer lists of Put and Get hold only peers strictly closer to the key than the node's own locus, each
    one a peer the node holds. -/
theorem closer_list_strict (n : Node) (key : Bytes) :
    ∀ x ∈ n.closerNodes key, distanceLt key x.id n.peers.locus = true ∧ ∃ e ∈ n.peers.entries, e.key = x.id ∧ e.val = x.info :=
  DHT.closer_list_strict n key

/-- ⊢ Accepted is truthful: when HandlePut answers Accepted the value can be read back at once; when it does not,
    the key is not stored afterwards; a node without a data cache accepts nothing. -/
theorem accepted_is_truthful (localID : Bytes) (ps ds pt dt : Nat) (ops : List NOp) (key value : Bytes) (ttl now : Nat) :
    let n := (Node.new localID ps ds pt dt).run ops
    let r := n.handlePut key value ttl now
    (r.2.1 = true → r.1.get key = some value) ∧
    (r.2.1 = false → r.1.get key = none) ∧
    (ds = 0 → r.2.1 = false) :=
  DHT.accepted_is_truthful localID ps ds pt dt ops key value ttl now

/-- ⊢ the data cache never holds more than its configured size, and the peer cache never more than its own. -/
theorem node_caches_bounded (localID : Bytes) (ps ds pt dt : Nat) (ops : List NOp) :
    let n := (Node.new localID ps ds pt dt).run ops
    n.data.entries.length ≤ ds ∧ n.peers.entries.length ≤ ps :=
  DHT.node_caches_bounded localID ps ds pt dt ops

-- non-vacuity: the re-contact scenario of the unrepaired code (A→[B,C], B nearer than C, C→[B]) runs to completion
-- and contacts B once
-- ORIGINAL STATEMENT (false for the model: with a single initial peer `put` bounds the queue to
-- `1 * 3 / 2 = 1` entry, so C is dropped and the run yields `some ([[8], [1]], 2)`):
--   (put 10 [A] [0] ask).map (fun st => (st.asked.reverse, st.accepted)) = some ([[8], [1], [2]], 3)
-- CHANGED: a second, farther initial peer D raises the queue bound to 3, so C is contacted (and lists B again).
example :
    let A : NodeInfo := ⟨[8], []⟩; let B : NodeInfo := ⟨[1], []⟩; let C : NodeInfo := ⟨[2], []⟩
    let D : NodeInfo := ⟨[9], []⟩
    let ask : Responder := fun _ n => if n.id = [8] then ⟨true, [B, C], true, none⟩ else if n.id = [2] then ⟨true, [B], true, none⟩ else ⟨true, [], true, none⟩
    (put 10 [A, D] [0] ask).map (fun st => (st.asked.reverse, st.accepted)) = some ([[8], [1], [2], [9]], 4) := by decide

/-! ## the regenerated `dhtIterate`

`Src.kademlia.dhtIterate` is the definition `harness/cmd/go2lean` produces from p/kademlia/dht.go on every run (with
`pop`, `contains`, the `seen` map and `slices.SortFunc`); the caller's callback is an arbitrary pure function of a
state it threads (`σ`), the node it is called with, returning the new state, the peers it learnt and whether to go
on. `srcRec g` is `g` made to record (ghost) the ids it is called with, most recent first. -/

/-- `g`, recording the ids it is called with -/
def srcRec {σ : Type} (g : σ → Src.kademlia.NodeInfoT → σ × List Src.kademlia.NodeInfoT × Bool) :
    σ × List Go.Bytes → Src.kademlia.NodeInfoT → (σ × List Go.Bytes) × List Src.kademlia.NodeInfoT × Bool :=
  fun s x => ((( g s.1 x).1, x.ID :: s.2), (g s.1 x).2.1, (g s.1 x).2.2)

/-- ⊢ regenerated, non-redundant: whatever the callback answers (cyclic, self-referential, fabricated, enormous
    peer lists are all inside `g`), `dhtIterate` as regenerated from the source never passes the same id to the
    callback twice, and it ends without a run-time panic other than the documented one for a candidate limit
    below 1 (the model's loop fuel of 2^64+1 rounds aside). -/
theorem src_iterate_contacts_nodup {σ : Type} (key : Go.Bytes) (n : Int)
    (g : σ → Src.kademlia.NodeInfoT → σ × List Src.kademlia.NodeInfoT × Bool)
    (nodes : List Src.kademlia.NodeInfoT) (st0 : σ) :
    Src.kademlia.dhtIterate nodes key n (fun s x => pure (srcRec g s x)) (st0, []) = .error .fuel ∨
    (nodes ≠ [] ∧ n < 1 ∧
      Src.kademlia.dhtIterate nodes key n (fun s x => pure (srcRec g s x)) (st0, []) = .error (.panic "panic")) ∨
    ∃ st tr, Src.kademlia.dhtIterate nodes key n (fun s x => pure (srcRec g s x)) (st0, []) = .ok (st, tr) ∧ tr.Nodup := by
  rcases Src.dhtIterate_inv key n (srcRec g) (fun _ => True) (fun seen s => s.2 = seen ∧ seen.Nodup)
      (by
        intro seen s node hR _ hnot
        refine ⟨⟨?_, ?_⟩, fun _ _ _ => trivial⟩
        · simp only [srcRec]; rw [hR.1]
        · exact List.nodup_cons.2 ⟨hnot, hR.2⟩)
      nodes (fun _ _ => trivial) (st0, []) ⟨rfl, List.nodup_nil⟩ with h | h | ⟨st, h, seen, hs, hn⟩
  · exact .inl h
  · exact .inr (.inl h)
  · exact .inr (.inr ⟨st.1, st.2, h, hs ▸ hn⟩)

/-- ⊢ regenerated, only nearer mentioned nodes: every id the regenerated `dhtIterate` passes to the callback is the
    id of an initial peer, or of a peer that an earlier answer of the callback listed AND that is strictly nearer to
    the key than the node which listed it. (So every chain of referrals strictly descends in distance: what bounds
    the operation whatever the responders fabricate.) -/
theorem src_iterate_contacts_mentioned {σ : Type} (key : Go.Bytes) (n : Int)
    (g : σ → Src.kademlia.NodeInfoT → σ × List Src.kademlia.NodeInfoT × Bool)
    (nodes : List Src.kademlia.NodeInfoT) (st0 : σ) (st : σ) (tr : List Go.Bytes)
    (h : Src.kademlia.dhtIterate nodes key n (fun s x => pure (srcRec g s x)) (st0, []) = .ok (st, tr)) :
    ∀ id ∈ tr, (∃ x ∈ nodes, x.ID = id) ∨
      ∃ s y, ∃ x ∈ (g s y).2.1, x.ID = id ∧
        Kad.distanceLt (SrcKad.nb key) (SrcKad.nb x.ID) (SrcKad.nb y.ID) = true := by
  let P : Src.kademlia.NodeInfoT → Prop := fun x => x ∈ nodes ∨
    ∃ s y, x ∈ (g s y).2.1 ∧ Kad.distanceLt (SrcKad.nb key) (SrcKad.nb x.ID) (SrcKad.nb y.ID) = true
  rcases Src.dhtIterate_inv key n (srcRec g) P (fun _ s => ∀ id ∈ s.2, ∃ x, P x ∧ x.ID = id)
      (by
        intro seen s node hR hPn _
        refine ⟨?_, fun x hx hlt => .inr ⟨s.1, node, hx, hlt⟩⟩
        intro id hid
        simp only [srcRec, List.mem_cons] at hid
        rcases hid with hid | hid
        · exact ⟨node, hPn, hid.symm⟩
        · exact hR id hid)
      nodes (fun x hx => .inl hx) (st0, []) (by intro id hid; simp at hid) with h' | h' | ⟨st', h', _, hR⟩
  · rw [h] at h'; cases h'
  · rw [h] at h'; cases h'.2.2
  · rw [h] at h'
    cases h'
    intro id hid
    obtain ⟨x, hx, hxid⟩ := hR id hid
    rcases hx with hx | ⟨s, y, hx, hlt⟩
    · exact .inl ⟨x, hx, hxid⟩
    · exact .inr ⟨s, y, x, hx, hxid, hlt⟩

-- non-vacuity: a concrete run of the regenerated function (A lists B and C; B and C list A back; all ids differ)
example :
    let mk : UInt8 → Src.kademlia.NodeInfoT := fun b => { ID := b :: List.replicate 31 0, Info := [] }
    let g : Unit → Src.kademlia.NodeInfoT → Unit × List Src.kademlia.NodeInfoT × Bool := fun _ x =>
      ((), (if x.ID.head? = some 8 then [mk 1, mk 2] else [mk 8]), true)
    (Src.kademlia.dhtIterate [mk 8] (List.replicate 32 0) 3 (fun s x => pure (srcRec g s x)) ((), [])).toOption.map
      (fun r => r.2.reverse.map (·.head?)) = some [some 8, some 1, some 2] := by decide

/-- ⊢ regenerated `DHTGet`, truthful: `Src.kademlia.DHTGet` is the definition go2lean produces from `DHTGet` in
    p/kademlia/dht.go (the closure it hands to `dhtIterate` included, with the result it accumulates as the closure's
    state). For every network — `Ask` is any total function of the contacted node and the request: honest, failing,
    adversarial, with cyclic or fabricated closer lists —, every total validator (none: accept all), every key and
    every list of initial peers: when the call returns, the reported value is absent (and `From` is the zero id), or it
    is exactly the value that a node with id `From` answered without an error and that the validator accepted; an
    error is reported iff `From` is the zero id. -/
theorem src_DHTGet_truthful (params : Src.kademlia.DHTGetParamsT)
    (hAsk : ∀ n r, ∃ a, params.Ask n r = .ok a) (hVal : ∀ x, ∃ b, Src.getValidate params x = .ok b)
    (res : Src.kademlia.DHTGetResultT) (err : Go.Err) (h : Src.kademlia.DHTGet params = .ok (res, err)) :
    ((res.Value = [] ∧ res.From = Src.zero32) ∨
      ∃ node resp, node.ID = res.From ∧ params.Ask node { Key := params.Key } = .ok (resp, none) ∧
        resp.Value = some res.Value ∧ Src.getValidate params res.Value = .ok true) ∧
    (err.isSome ↔ res.From = Src.zero32) :=
  Src.DHTGet_good params hAsk hVal res err h

/-- ⊢ regenerated `DHTPut`, truthful: for every network (`Ask` any total function), key, value, time to live and
    list of initial peers, the counters of the result count the nodes that were contacted — pairwise different ids
    —, those among them that answered, and those that answered "accepted" (so `Accepted` is the number of DISTINCT
    nodes that accepted); the error is raised exactly when that number is below the required minimum (2 when the
    caller asks for less than 1). -/
theorem src_DHTPut_truthful (params : Src.kademlia.DHTPutParamsT) (hAsk : ∀ n r, ∃ a, params.Ask n r = .ok a)
    (res : Src.kademlia.DHTPutResultT) (err : Go.Err) (h : Src.kademlia.DHTPut params = .ok (res, err)) :
    (∃ contacted : List Src.kademlia.NodeInfoT, (contacted.map (·.ID)).Nodup ∧
      res.Contacted = (contacted.length : Int) ∧
      res.Responded = ((contacted.filter (Src.putResponds params)).length : Int) ∧
      res.Accepted = ((contacted.filter (Src.putAccepts params)).length : Int)) ∧
    (err.isSome ↔ res.Accepted < (if params.MinAccepted < 1 then 2 else params.MinAccepted)) :=
  Src.DHTPut_good params hAsk res err h

/-- ⊢ regenerated `DHTFindNode`, truthful: the node reported as closest was passed to the operation's callback, no
    node passed to the callback is nearer to the target (`visited` are the ids passed to the callback), every visited
    id belongs to an initial peer or to a record that passed the caller's validation, and the error is raised
    exactly when the reported node is not the target. -/
theorem src_DHTFindNode_closest_is_min (params : Src.kademlia.DHTFindNodeParamsT)
    (hAsk : ∀ n r, ∃ a, params.Ask n r = .ok a)
    (hVal : ∀ x, ∃ b, (params.Validate.getD (fun _ => pure true)) x = .ok b)
    (res : Src.kademlia.DHTFindNodeResultT) (err : Go.Err) (h : Src.kademlia.DHTFindNode params = .ok (res, err)) :
    (∃ visited : List Go.Bytes,
      ((visited = [] ∧ res.Closest = Src.zero32) ∨
       (res.Closest ∈ visited ∧
        ∀ c ∈ visited, Kad.distanceLt (SrcKad.nb params.Target) (SrcKad.nb c) (SrcKad.nb res.Closest) = false)) ∧
      ∀ id ∈ visited, ∃ x : Src.kademlia.NodeInfoT, x.ID = id ∧
        (x ∈ params.Initial ∨ (params.Validate.getD (fun _ => pure true)) x = .ok true)) ∧
    (err.isSome ↔ res.Closest ≠ params.Target) := by
  obtain ⟨⟨hv, visited, hG, hVis⟩, he⟩ := Src.DHTFindNode_good params hAsk hVal res err h
  refine ⟨⟨visited, ?_, hVis⟩, he⟩
  rcases hG with ⟨_, h1, h2⟩ | ⟨_, h1, h2⟩
  · exact .inl ⟨h1, h2⟩
  · exact .inr ⟨h1, h2⟩

/-- ⊢ regenerated `DHTJoin`, truthful: the number it returns is the number of contacted nodes — pairwise different
    ids — for which the caller's `AddPeer` answered true, for every network and every (total) `AddPeer`. -/
theorem src_DHTJoin_counts (params : Src.kademlia.DHTJoinParamsT)
    (hAsk : ∀ n r, ∃ a, params.Ask n r = .ok a) (hAdd : ∀ i f, ∃ b, params.AddPeer i f = .ok b)
    (added : Int) (h : Src.kademlia.DHTJoin params = .ok added) :
    ∃ contacted : List Src.kademlia.NodeInfoT, (contacted.map (·.ID)).Nodup ∧
      added = ((contacted.filter (Src.joinAdds params)).length : Int) :=
  Src.DHTJoin_good params hAsk hAdd added h

-- non-vacuity: a run of the regenerated DHTGet that returns a validated value (A answers [7], closer to key 0 than B)
example :
    let mk : UInt8 → Src.kademlia.NodeInfoT := fun b => { ID := b :: List.replicate 31 0, Info := [] }
    let params : Src.kademlia.DHTGetParamsT := {
      Key := List.replicate 32 0, Initial := [mk 9], Validate := some (fun v => pure (v != [])),
      Ask := fun n _ => pure (if n.ID.head? = some 9 then ({ Value := none, ExpiresAt := default, Closer := [mk 1] }, none)
                              else ({ Value := some [7], ExpiresAt := default, Closer := [] }, none)) }
    (Src.kademlia.DHTGet params).toOption.map (fun r => (r.1.Value, r.1.From.head?, r.1.NumContacted, r.2.isSome)) =
      some ([7], some 1, 2, false) := by decide

end P2PVerif.C20
