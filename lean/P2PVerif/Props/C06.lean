import P2PVerif.Model.KeWorld
import P2PVerif.Lemmas.KePair
/-! # C06 — the handshake completes under loss, duplication and reordering
Property theorems only. `Pair.run` applies any finite schedule of deliver / duplicate / reorder / reflect /
retransmit / send actions over the genuine messages of one honest session pair (`pool` = everything either side
has emitted; dropping a message is simply never delivering it). -/
namespace P2PVerif.C06
open P2PVerif P2PVerif.P2PKE

/- ORIGINAL STATEMENT (false for a `Sess` value no code path can produce: one with `hs > 8`; the data branch of
   `deliver` sets `hs := 8`):
     theorem hs_monotone (s : Sess) (w : Wire) (now : Nat) : s.hs ≤ (s.deliver w now).1.hs
   counterexample (checked with #eval): s = { isInit := true, key := 0, eph := 0, hs := 9, expiresAt := 100 },
     w = .data 0 0 ⟨0, 0, .bogus⟩ .r2i 5 [], now = 1: s.hs = 9, (s.deliver w now).1.hs = 8.
   Refined with the hypothesis `s.hs ≤ 8`, which every session the code produces satisfies: `hs_range` below. -/
/-- ⊢ sessions never regress: no message of any kind lowers the handshake index. -/
theorem hs_monotone (s : Sess) (w : Wire) (now : Nat) (h8 : s.hs ≤ 8) : s.hs ≤ (s.deliver w now).1.hs :=
  P2PKE.hs_monotone s w now h8

/-- ⊢ the handshake index only takes the values the code uses (so `hs ≤ 8` always holds): true of a new session
    and preserved by every `deliver` (of any term) and every `send`. -/
theorem hs_range :
    (∀ isInit key eph now ra, HsOk (Sess.new isInit key eph now ra).hs) ∧
    (∀ (s : Sess) (w : Wire) (now : Nat), HsOk s.hs → HsOk (s.deliver w now).1.hs) ∧
    (∀ (s : Sess) (p : Bytes) (now : Nat), HsOk s.hs → HsOk (s.send p now).1.hs) ∧
    (∀ n, HsOk n → n ≤ 8) :=
  ⟨P2PKE.new_hsOk, P2PKE.deliver_hsOk, P2PKE.send_hsOk, fun _ h => h.le⟩

/-- ⊢ and never fail permanently on their own traffic: a genuine message that is rejected leaves the session
    exactly as it was. -/
theorem failed_deliver_is_noop (kI kR tI tR ra : Nat) (acts : List PAct) (k now : Nat) (w : Wire) :
    let P := (Pair.init kI kR tI tR ra).run acts
    P.pool[k]? = some w →
    ((P.i.deliver w now).2 = .err → (P.i.deliver w now).1 = P.i) ∧
    ((P.r.deliver w now).2 = .err → (P.r.deliver w now).1 = P.r) :=
  P2PKE.failed_deliver_is_noop kI kR tI tR ra acts k now w

/-- ⊢ never panic: in every reachable state of the pair the cached handshake message the code indexes exists
    (the `panic` branches of `writeHandshake` are unreachable). -/
theorem no_fault (kI kR tI tR ra : Nat) (acts : List PAct) :
    let P := (Pair.init kI kR tI tR ra).run acts
    (P.i.hs < 4 → (P.i.hs = 0 ∨ P.i.hs = 2) → P.i.handshake.isSome) ∧
    (P.r.hs < 4 → (P.r.hs = 1 ∨ P.r.hs = 3) → P.r.handshake.isSome) :=
  P2PKE.no_fault kI kR tI tR ra acts

/-- ⊢ asking for the current handshake message is idempotent: it is a function of the handshake state and stays
    the same until the handshake index changes. -/
theorem handshake_idempotent (kI kR tI tR ra : Nat) (acts : List PAct) (a : PAct) :
    let P := (Pair.init kI kR tI tR ra).run acts
    let P' := P.step a
    (P'.i.hs = P.i.hs → P'.i.handshake = P.i.handshake) ∧ (P'.r.hs = P.r.hs → P'.r.handshake = P.r.handshake) :=
  P2PKE.handshake_idempotent kI kR tI tR ra acts a

/-- ⊢ completion: from every state reachable by any schedule (before any expiry and below the message limit),
    delivering each side's current handshake message once more in sequence makes both sessions ready, and
    then data flows both ways. -/
theorem completion (kI kR tI tR ra : Nat) (acts : List PAct) (now : Nat) (p q : Bytes)
    (hlive : let P := (Pair.init kI kR tI tR ra).run acts
             now ≤ P.i.expiresAt ∧ now ≤ P.r.expiresAt ∧ P.i.nonce + 1 < maxNonce ∧ P.r.nonce + 1 < maxNonce) :
    let P := ((Pair.init kI kR tI tR ra).run acts).exchange now
    P.i.isReady = true ∧ P.r.isReady = true ∧
    (∃ w sI, P.i.send p now = (sI, some w) ∧ (P.r.deliver w now).2 = .app p) ∧
    (∃ w sR, P.r.send q now = (sR, some w) ∧ (P.i.deliver w now).2 = .app q) :=
  P2PKE.completion kI kR tI tR ra acts now p q hlive

-- non-vacuity: the state "initiator completed by data, RespDone lost" is reachable and completes
example :
    let P := (Pair.init 1 2 5 6 1000).run [.toR 0 7, .toI 1 8, .toR 2 9, .sendR [42] 10, .toI 4 11]
    (P.i.hs, P.i.nonce, P.r.hs) = (8, 16, 3) := by decide +kernel  -- plain `decide` hits maxRecDepth (replay ring is an Array)

end P2PVerif.C06
