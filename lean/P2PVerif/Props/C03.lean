import P2PVerif.Model.KeWorld
import P2PVerif.Lemmas.KeAuth
import P2PVerif.Lemmas.SrcVec
/-! # C03 — a session is usable only after the peer proved its key for this handshake
Property theorems only. `Reach hk W`: any number of honest sessions (keys marked by `hk`), every message they
receive built by a symbolic adversary (`Buildable`) that owns any number of keys and ephemerals, controls the
transport, replays, splices hello claims and ephemerals, and reuses any signature it has been able to read.
Cryptography is ideal (see `Model/P2PKE.lean`). Honest session `i` uses ephemeral `2*i`. -/
namespace P2PVerif.C03
open P2PVerif P2PVerif.P2PKE

/-- facts obligation: the two signature purposes read from the source differ (so a timestamp signature is
    never accepted where a channel-binding signature is required — in the model they are different types),
    and the handshake counters are the ones the model uses. -/
theorem purpose_separation :
    Gen.Facts.p2pkePurposeChannelBinding ≠ Gen.Facts.p2pkePurposeTimestamp ∧
    Gen.Facts.p2pkeNonceInitHello = 0 ∧ Gen.Facts.p2pkeNonceRespHello = 1 ∧ Gen.Facts.p2pkeNonceInitDone = 2 ∧
    Gen.Facts.p2pkeNonceRespDone = 3 ∧ Gen.Facts.p2pkeNoncePostHandshake = noncePostHandshake := by
  refine ⟨by decide, by decide, by decide, by decide, by decide, by decide⟩

/-- ⊢ a responder that can send or receive (hsIndex ≥ 3) and reports honest key `k` has as its peer an honest
    initiator session owned by `k` that ran this very handshake (same ephemerals, same claim) and reports the
    responder's key. -/
theorem responder_ready_authentic (hk : KeyId → Bool) (W : World) (hr : Reach hk W) (i : Nat) (s : Sess)
    (hs : W.sess[i]? = some s) (hresp : s.isInit = false) (h3 : 3 ≤ s.hs) (k : KeyId) (hkey : s.rKey = some k)
    (hon : hk k = true) :
    ∃ j sI, W.sess[j]? = some sI ∧ sI.isInit = true ∧ sI.key = k ∧ s.rEph = some (2 * j) ∧
      sI.rEph = some (2 * i) ∧ sI.hello = s.hello ∧ 2 ≤ sI.hs ∧ sI.rKey = some s.key :=
  P2PKE.responder_ready_authentic hk W hr i s hs hresp h3 k hkey hon

/-- ⊢ an initiator that can receive (hsIndex ≥ 2) and reports honest key `k` has as its peer an honest responder
    session owned by `k` that ran this very handshake and took the initiator's key from its claim. -/
theorem initiator_ready_authentic (hk : KeyId → Bool) (W : World) (hr : Reach hk W) (i : Nat) (s : Sess)
    (hs : W.sess[i]? = some s) (hinit : s.isInit = true) (h2 : 2 ≤ s.hs) (k : KeyId) (hkey : s.rKey = some k)
    (hon : hk k = true) :
    ∃ j sR, W.sess[j]? = some sR ∧ sR.isInit = false ∧ sR.key = k ∧ s.rEph = some (2 * j) ∧
      sR.rEph = some (2 * i) ∧ sR.hello = s.hello ∧ 1 ≤ sR.hs ∧ sR.rKey = some s.key :=
  P2PKE.initiator_ready_authentic hk W hr i s hs hinit h2 k hkey hon

/-- ⊢ a party without `k`'s private key — including one replaying or splicing signed material from other
    handshakes — never brings an honest session to usable with `k` as its remote key: if no honest session is
    owned by `k`, no honest session that can send or receive reports `k`. -/
theorem no_victim_key (hk : KeyId → Bool) (W : World) (hr : Reach hk W) (k : KeyId) (hon : hk k = true)
    (hnone : ∀ s ∈ W.sess, s.key ≠ k) :
    ∀ s ∈ W.sess, (s.canSend = true ∨ s.canReceive = true) → s.rKey ≠ some k :=
  P2PKE.no_victim_key hk W hr k hon hnone

/-- ⊢ gates: application data is accepted only by a session that can receive, encrypted only by one that can
    send — after every single delivered message, whatever it is. -/
theorem gates (s : Sess) (w : Wire) (now : Nat) (p : Bytes) :
    ((s.deliver w now).2 = .app p → s.canReceive = true) ∧
    (∀ out, (s.send p now).2 = some out → s.canSend = true) :=
  P2PKE.gates s w now p

/-- ⊢ regenerated gates: the definitions of `Session.canSend`, `canReceive` and `IsReady` REGENERATED from
    p/p2pke/session.go are the model's gates (handshake indices fit the `uint8` field). -/
theorem src_gates_are_model (s : Sess) (h : s.hs < 256) :
    Src.p2pke.Session.canSend s.isInit (UInt8.ofNat s.hs) = .ok s.canSend ∧
    Src.p2pke.Session.canReceive (UInt8.ofNat s.hs) = .ok s.canReceive ∧
    Src.p2pke.Session.IsReady s.isInit (UInt8.ofNat s.hs) = .ok s.isReady :=
  ⟨Src.canSend_eq s h, Src.canReceive_eq s h, Src.IsReady_eq s h⟩

/-- ⊢ regenerated send gate, stated outright: the source lets a responder encrypt only from handshake index 2
    (the InitDone, carrying the initiator's transcript signature, has been verified) and an initiator only from
    index 3 (the RespDone); it accepts data only from index 2. -/
theorem src_send_gate (isInit : Bool) (hs : UInt8) :
    (Src.p2pke.Session.canSend isInit hs = .ok true → (isInit = true → 3 ≤ hs.toNat) ∧ (isInit = false → 2 ≤ hs.toNat)) ∧
    (Src.p2pke.Session.canReceive hs = .ok true → 2 ≤ hs.toNat) := by
  unfold Src.p2pke.Session.canSend Src.p2pke.Session.canReceive
  simp only [Go.pure_eq, Except.ok.injEq, Bool.or_eq_true, Bool.and_eq_true, decide_eq_true_eq, Bool.not_eq_true',
    ge_iff_le, UInt8.le_iff_toNat_le]
  refine ⟨fun h => ⟨fun hi => ?_, fun hi => ?_⟩, fun h => h⟩
  · rcases h with h | h
    · exact h.2
    · rw [hi] at h; exact absurd h.1 (by decide)
  · rcases h with h | h
    · rw [hi] at h; exact absurd h.1 (by decide)
    · exact h.2

example : Src.p2pke.Session.canSend false 1 = .ok false ∧ Src.p2pke.Session.canSend false 3 = .ok true ∧
    Src.p2pke.Session.IsReady true 2 = .ok false ∧ Src.p2pke.Session.IsReady true 4 = .ok true := ⟨rfl, rfl, rfl, rfl⟩

-- non-vacuity: a completed honest handshake exists in the reachable worlds
example :
    let W := ((({} : World).newSess true 1 5 100).newSess false 2 6 100)
    let m0 := Wire.initHello 0 ⟨1, 5, .ts 1 5⟩
    let W := W.deliver 1 m0 7
    (W.sess[1]?.map (·.hs)) = some 1 := by decide

end P2PVerif.C03
