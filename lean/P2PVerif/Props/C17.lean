import P2PVerif.Model.Base64
import P2PVerif.Model.DER
import P2PVerif.Model.Distance
import P2PVerif.Lemmas.Base64
import P2PVerif.Lemmas.DER
/-! # C17 — keys and identities have one canonical, lossless encoding
Property theorems only. `DER.marshalKey`/`parseKey` model f/x509 MarshalPublicKey/ParsePublicKey (the DER shape
encoding/asn1 emits), `B64.marshalText`/`unmarshalText` model PeerID.MarshalText/UnmarshalText over the alphabet
regenerated from peer.go into `Gen.Facts.base64Alphabet`. -/
namespace P2PVerif.C17
open P2PVerif P2PVerif.B64 P2PVerif.DER

/-- facts obligation: the alphabet read from the source has 64 symbols in strictly increasing code-point order
    (what makes the text encoding order-preserving), and a peer id is 32 bytes. -/
theorem alphabet_ok : alphabet.length = 64 ∧ alphabet.Pairwise (· < ·) ∧ Gen.Facts.peerIDSize = 32 := by
  refine ⟨by decide, by decide, by decide⟩

/-- ⊢ marshalling a public key and parsing it back yields the same key, for every algorithm identifier
    encoding/asn1 accepts both ways and every key body of any length. -/
theorem parse_marshal_key (k : Key) (h : validOID k.alg = true) (hd : ∀ b ∈ k.data, b < 256) :
    parseKey (marshalKey k) = some k :=
  DER.parse_marshal_key k h hd

/-- ⊢ two keys compare equal exactly when their encodings are equal. -/
theorem equal_iff_encoding (a b : Key) (ha : validOID a.alg = true) (hb : validOID b.alg = true)
    (hda : ∀ x ∈ a.data, x < 256) (hdb : ∀ x ∈ b.data, x < 256) :
    equalKeys a b = true ↔ marshalKey a = marshalKey b :=
  DER.equal_iff_encoding a b ha hb hda hdb

/-- ⊢ a fingerprint computed as a hash of the canonical encoding is a function of the key alone (equal keys,
    equal fingerprints, at whichever layer it is computed), and for an injective hash distinct keys get
    distinct fingerprints. -/
theorem fingerprint_of_key_only (H : Bytes → Bytes) (a b : Key) (ha : validOID a.alg = true) (hb : validOID b.alg = true)
    (hda : ∀ x ∈ a.data, x < 256) (hdb : ∀ x ∈ b.data, x < 256) :
    (equalKeys a b = true → H (marshalKey a) = H (marshalKey b)) ∧
    ((∀ x y, H x = H y → x = y) → H (marshalKey a) = H (marshalKey b) → equalKeys a b = true) := by
  constructor
  · intro h; rw [(equal_iff_encoding a b ha hb hda hdb).1 h]
  · intro hinj h; exact (equal_iff_encoding a b ha hb hda hdb).2 (hinj _ _ h)

/-- ⊢ peer-id text encoding round-trips for every 32-byte id. -/
theorem peerid_roundtrip (id : Bytes) (hl : id.length = 32) (hv : ∀ b ∈ id, b < 256) :
    unmarshalText alphabet (marshalText alphabet id) = some id :=
  B64.peerid_roundtrip id hl hv

/-- ⊢ it preserves byte order: comparing texts gives the same result as comparing ids. -/
theorem peerid_order (a b : Bytes) (hla : a.length = 32) (hlb : b.length = 32)
    (hva : ∀ x ∈ a, x < 256) (hvb : ∀ x ∈ b, x < 256) :
    cmpChars (marshalText alphabet a) (marshalText alphabet b) = Kad.lexCmp a b :=
  B64.peerid_order a b hla hlb hva hvb

/-- ⊢ it rejects text that is not a valid encoding: whatever is accepted has the right length, uses only
    alphabet characters, and is exactly the canonical text of the 32-byte id it yields. -/
theorem peerid_rejects_invalid (t : List Char) (id : Bytes) (h : unmarshalText alphabet t = some id) :
    t.length = 43 ∧ (∀ c ∈ t, c ∈ alphabet) ∧ id.length = 32 ∧ (∀ b ∈ id, b < 256) ∧ marshalText alphabet id = t :=
  B64.peerid_rejects_invalid t id h

-- non-vacuity
example : validOID [1, 3, 101, 112] = true := by decide
example : unmarshalText alphabet (marshalText alphabet (List.replicate 32 255)) = some (List.replicate 32 255) := by decide

end P2PVerif.C17
