import P2PVerif.Model.Base64
import P2PVerif.Model.DER
import P2PVerif.Model.Distance
import P2PVerif.Lemmas.Base64
import P2PVerif.Lemmas.DER
import P2PVerif.Lemmas.SrcOid
/-! # C17 — keys and identities have one canonical, lossless encoding
Property theorems only. `DER.marshalKey`/`parseKey` model f/x509 MarshalPublicKey/ParsePublicKey (the DER shape
encoding/asn1 emits), `B64.marshalText`/`unmarshalText` model PeerID.MarshalText/UnmarshalText over the alphabet
regenerated from peer.go into `Gen.Facts.base64Alphabet`. -/
namespace P2PVerif.C17
open P2PVerif P2PVerif.B64 P2PVerif.DER

/-- facts obligation: the alphabet read from the source has 64 symbols in strictly increasing code-point order
    (what makes the text encoding order-preserving), and a peer id is 32 bytes. -/
theorem alphabet_ok : alphabet.length = 64 ∧ alphabet.Pairwise (· < ·) ∧ Gen.Facts.peerIDSize = 32 := by
  refine ⟨by decide, by decide, by decide⟩

/-- ⊢ marshalling a public key and parsing it back yields the same key, for every algorithm identifier
    encoding/asn1 accepts both ways and every key body of any length. -/
theorem parse_marshal_key (k : Key) (h : validOID k.alg = true) (hd : ∀ b ∈ k.data, b < 256) :
    parseKey (marshalKey k) = some k :=
  DER.parse_marshal_key k h hd

/-- ⊢ two keys compare equal exactly when their encodings are equal. -/
theorem equal_iff_encoding (a b : Key) (ha : validOID a.alg = true) (hb : validOID b.alg = true)
    (hda : ∀ x ∈ a.data, x < 256) (hdb : ∀ x ∈ b.data, x < 256) :
    equalKeys a b = true ↔ marshalKey a = marshalKey b :=
  DER.equal_iff_encoding a b ha hb hda hdb

/-- ⊢ a fingerprint computed as a hash of the canonical encoding is a function of the key alone (equal keys,
    equal fingerprints, at whichever layer it is computed), and for an injective hash distinct keys get
    distinct fingerprints. -/
theorem fingerprint_of_key_only (H : Bytes → Bytes) (a b : Key) (ha : validOID a.alg = true) (hb : validOID b.alg = true)
    (hda : ∀ x ∈ a.data, x < 256) (hdb : ∀ x ∈ b.data, x < 256) :
    (equalKeys a b = true → H (marshalKey a) = H (marshalKey b)) ∧
    ((∀ x y, H x = H y → x = y) → H (marshalKey a) = H (marshalKey b) → equalKeys a b = true) := by
  constructor
  · intro h; rw [(equal_iff_encoding a b ha hb hda hdb).1 h]
  · intro hinj h; exact (equal_iff_encoding a b ha hb hda hdb).2 (hinj _ _ h)

/-- ⊢ peer-id text encoding round-trips for every 32-byte id. -/
theorem peerid_roundtrip (id : Bytes) (hl : id.length = 32) (hv : ∀ b ∈ id, b < 256) :
    unmarshalText alphabet (marshalText alphabet id) = some id :=
  B64.peerid_roundtrip id hl hv

/-- ⊢ it preserves byte order: comparing texts gives the same result as comparing ids. -/
theorem peerid_order (a b : Bytes) (hla : a.length = 32) (hlb : b.length = 32)
    (hva : ∀ x ∈ a, x < 256) (hvb : ∀ x ∈ b, x < 256) :
    cmpChars (marshalText alphabet a) (marshalText alphabet b) = Kad.lexCmp a b :=
  B64.peerid_order a b hla hlb hva hvb

/-- ⊢ it rejects text that is not a valid encoding: whatever is accepted has the right length, uses only
    alphabet characters, and is exactly the canonical text of the 32-byte id it yields. -/
theorem peerid_rejects_invalid (t : List Char) (id : Bytes) (h : unmarshalText alphabet t = some id) :
    t.length = 43 ∧ (∀ c ∈ t, c ∈ alphabet) ∧ id.length = 32 ∧ (∀ b ∈ id, b < 256) ∧ marshalText alphabet id = t :=
  B64.peerid_rejects_invalid t id h

-- non-vacuity
example : validOID [1, 3, 101, 112] = true := by decide
example : unmarshalText alphabet (marshalText alphabet (List.replicate 32 255)) = some (List.replicate 32 255) := by decide

/-- ⊢ regenerated algorithm identifiers: `oids.New`, `Len`, `At` and `ASN1`, REGENERATED from f/x509/oids/oids.go
    (an identifier is stored as one 8-byte big-endian word per arc), are lossless: an identifier built from arcs that
    are non-negative Go ints has as many arcs as it was given, `At` reads back arc `k` (as the 64-bit word), and `ASN1`
    — what `MarshalPublicKey` and the fingerprints are computed from — returns exactly the arcs. -/
theorem src_oid_lossless (xs : List Int) (hlen : xs.length < 2 ^ 64) (h : ∀ x ∈ xs, 0 ≤ x ∧ x < 9223372036854775808) :
    (Src.oids.New xs >>= Src.oids.OID.ASN1) = .ok xs ∧
    (Src.oids.New xs >>= Src.oids.OID.Len) = .ok (xs.length : Int) ∧
    ∀ (k : Nat) (hk : k < xs.length), (Src.oids.New xs >>= fun o => Src.oids.OID.At o (k : Int)) = .ok (Go.toU64 xs[k]) := by
  refine ⟨Src.ASN1_New_id xs hlen h, ?_, ?_⟩
  · rw [Src.New_eq]; exact Src.Len_New xs
  · intro k hk
    rw [Src.New_eq]; exact Src.At_New xs k hk

/-- ⊢ two identifiers with different arcs are different values (so `==` on identifiers decides equality of arcs) -/
theorem src_oid_injective (xs ys : List Int) (hx : xs.length < 2 ^ 64) (hy : ys.length < 2 ^ 64)
    (h : ∀ x ∈ xs ++ ys, 0 ≤ x ∧ x < 9223372036854775808) (e : Src.oids.New xs = Src.oids.New ys) : xs = ys := by
  have h1 := Src.ASN1_New_id xs hx (fun x hm => h x (List.mem_append_left _ hm))
  have h2 := Src.ASN1_New_id ys hy (fun x hm => h x (List.mem_append_right _ hm))
  rw [e, h2] at h1
  injection h1 with h1
  exact h1.symm

example : (Src.oids.New [1, 2, 840, 113549] >>= Src.oids.OID.ASN1) = .ok [1, 2, 840, 113549] :=
  Src.ASN1_New_id _ (by decide) (by decide)

end P2PVerif.C17
