import P2PVerif.Model.Stack
import P2PVerif.Lemmas.Stack
import P2PVerif.Lemmas.SrcVec
/-! # C01 — every swarm delivers exactly what was told, to whom it was told
Property theorems only. The framing layers (fragmenting swarm, every multiplexer kind) are composed to ANY
nesting depth (`Stack`, induction over the list of layers) over a base swarm; what the receiving stack hands up
is exactly the told payload — never a truncation, a concatenation or anything else — and nothing is handed up
before the last base datagram arrived. The other layers contribute their own theorems: reassembly under
arbitrary interleavings of many messages and sources (C10, fragswarm and mbapp), channel isolation (C15),
authenticity and at-most-once delivery of the P2PKE layer (C02), the queue's copy-on-enqueue and slot ownership
(C13/C14). Source/destination attribution, buffer non-interference and the real transports (UDP, QUIC, SSH) are
checked on real stacks by the swarm oracle (ledger of told triples). -/
namespace P2PVerif.C01
open P2PVerif P2PVerif.Stack

/-- ⊢ for every nesting of fragmenting and multiplexing layers, every base MTU, every message-id counter state and
    every payload no longer than the stack's `MTU()`: the Tell is accepted, every datagram handed to the base swarm
    fits it, and the receiving stack, fed those datagrams, delivers exactly the payload, once. -/
theorem stack_roundtrip (s : Stack) (hs : WF s) (base : Nat) (cs : Ctrs) (x : Bytes) (src : Nat)
    (hfit : (x.length : Int) ≤ mtu s base) :
    ∃ ds cs', encode s base cs x = some (ds, cs') ∧ (∀ d ∈ ds, d.length ≤ base) ∧
      (recvAll s (init s) src ds).2 = [x] :=
  Stack.stack_roundtrip s hs base cs x src hfit

/-- ⊢ never a truncation or a part: nothing is delivered from any proper prefix of those datagrams. -/
theorem stack_prefix_silent (s : Stack) (hs : WF s) (base : Nat) (cs : Ctrs) (x : Bytes) (src : Nat)
    (ds : List Bytes) (cs' : Ctrs) (he : encode s base cs x = some (ds, cs')) (k : Nat) (hk : k < ds.length) :
    (recvAll s (init s) src (ds.take k)).2 = [] :=
  Stack.stack_prefix_silent s hs base cs x src ds cs' he k hk

/-- ⊢ a payload longer than the stack's `MTU()` is refused (by whichever layer notices), never sent in part. -/
theorem stack_over_mtu_rejected (s : Stack) (base : Nat) (cs : Ctrs) (x : Bytes)
    (h : (x.length : Int) > mtu s base) : encode s base cs x = none :=
  Stack.stack_over_mtu_rejected s base cs x h

-- non-vacuity: a three-layer stack (string channel over fragments over a uint16 channel, base MTU 40)
example :
    let s : Stack := [.mux .str (.s [97, 98]), .frag 1000, .mux .u16 (.n 513)]
    (encode s 40 [0, 7, 0] (List.range 60)).map (fun r => r.1.length) = some 3 ∧
    ((encode s 40 [0, 7, 0] (List.range 60)).map (fun r => (recvAll s (init s) 1 r.1).2)) = some [List.range 60] := by
  decide +kernel

/-- ⊢ regenerated gather: `p2p.VecBytes`, REGENERATED from swarm.go — the routine every layer uses to turn the
    told vector into the bytes it frames — appends exactly the concatenation of the segments, in order, after
    what `out` already held: nothing dropped, repeated or reordered, and what `out` held is kept. -/
theorem src_VecBytes_is_concatenation (out : Go.Bytes) (v : List Go.Bytes) :
    Src.p2p.VecBytes out v = .ok (out ++ v.flatten) := Src.VecBytes_eq out v

example : Src.p2p.VecBytes [9] [[1, 2], [], [3]] = .ok [9, 1, 2, 3] := rfl

end P2PVerif.C01
