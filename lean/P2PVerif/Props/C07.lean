import P2PVerif.Model.KeWorld
import P2PVerif.Lemmas.KeChan
import P2PVerif.Lemmas.KeConv
/-! # C07 — channels establish, converge and keep working across rotation and restart
Property theorems only, about the channel model (`Model/P2PKE.lean`) with time as an explicit input. -/
namespace P2PVerif.C07
open P2PVerif P2PVerif.P2PKE

/-- ⊢ slot discipline, in every reachable state: previous and current sessions are ready, the prospective
    session is not (a session that becomes ready is promoted before `Deliver` returns, also when it was completed
    by data instead of the final handshake message). -/
theorem slots_inv (key : KeyId) (accept : KeyId → Bool) (ra ka ht : Nat) (lt : IdLt) (ops : List COp) :
    let c := (Chan.fresh key accept ra ka ht).run lt ops
    (∀ e, c.prev = some e → e.sess.isReady = true) ∧ (∀ e, c.cur = some e → e.sess.isReady = true) ∧
    (∀ e, c.next = some e → e.sess.isReady = false) :=
  P2PKE.slots_inv key accept ra ka ht lt ops

/-- ⊢ make before break: a rekey, a handshake retransmission, a blocking caller (or its cancellation) or an
    incoming term never leaves the channel without a current session if it had one that has not expired (the
    handshake timer and a blocking caller expire sessions first, like Send and the rekey timer); the old session
    stays until the new one is ready. -/
theorem make_before_break (key : KeyId) (accept : KeyId → Bool) (ra ka ht : Nat) (lt : IdLt) (ops : List COp) (op : COp) :
    let c := (Chan.fresh key accept ra ka ht).run lt ops
    c.cur.isSome →
    (match op with
     | .deliver .. | .unpend => True
     | .send _ now | .rekey _ now | .expire now | .hs now | .pend now => (c.expire now).cur.isSome) →
    (c.step lt op).1.cur.isSome :=
  P2PKE.make_before_break key accept ra ka ht lt ops op

/-- ⊢ keep-alive is sound: authenticated data through the current session refreshes `lastReceived`, and a current
    session that is not past its reject time and received data no longer than the keep-alive timeout ago is not
    torn down. -/
theorem keepalive_sound (key : KeyId) (accept : KeyId → Bool) (ra ka ht : Nat) (lt : IdLt) (ops : List COp) :
    let c := (Chan.fresh key accept ra ka ht).run lt ops
    (∀ e w now p, c.cur = some e → (e.sess.deliver w now).2 = .app p →
        (c.deliverSlot 1 w now).1.lastReceived = now ∧ (c.deliverSlot 1 w now).2 = some (some { app := some p })) ∧
    (∀ e now, c.cur = some e → now ≤ e.sess.expiresAt → now - c.lastReceived ≤ c.keepAlive → (c.expire now).cur = some e) :=
  P2PKE.keepalive_sound key accept ra ka ht lt ops

/-- ⊢ simultaneous initiation converges: when both sides hold their own initiator session and each receives the
    other's InitHello, both end up on the same handshake (the one whose id is smaller), whatever the order. -/
theorem tie_break_converges (kA kB : KeyId) (ra ka ht : Nat) (lt : IdLt) (tA tB ephA ephB eA' eB' now : Nat)
    (hlt : ∀ a b, a ≠ b → (lt a b = true ↔ lt b a = false)) (hne : ephA ≠ ephB) :
    let A := (Chan.fresh kA (fun _ => true) ra ka ht).onRekey lt ephA tA
    let B := (Chan.fresh kB (fun _ => true) ra ka ht).onRekey lt ephB tB
    ∀ a b, A.next.map (·.id) = some a → B.next.map (·.id) = some b →
      let A' := (A.deliver lt b eA' now).1
      let B' := (B.deliver lt a eB' now).1
      A'.next.map (·.id) = B'.next.map (·.id) ∧ (A'.next.map (·.id) = some a ∨ A'.next.map (·.id) = some b) :=
  P2PKE.tie_break_converges kA kB ra ka ht lt tA tB ephA ephB eA' eB' now hlt hne

/-- ⊢ convergence (partial): once every emitted message is delivered, a pending Send completes within three
    handshake rounds — from fresh channels, and after the peer restarted with a fresh channel at any point of
    an established connection (`ops` is an arbitrary history of the surviving side after establishment is not
    covered: see DESIGN.md section 6; wall-clock bounds rest on timers firing when due). -/
theorem convergence_partial (kA kB : KeyId) (ra ka ht : Nat) (lt : IdLt) (t0 : Nat) (p : Bytes) :
    P2PKE.EstablishFresh kA kB ra ka ht lt t0 p ∧ P2PKE.EstablishAfterRestart kA kB ra ka ht lt t0 p :=
  ⟨P2PKE.establish_fresh kA kB ra ka ht lt t0 p, P2PKE.establish_after_restart kA kB ra ka ht lt t0 p⟩

end P2PVerif.C07
