import P2PVerif.Model.KeWorld
import P2PVerif.Lemmas.KeChan
import P2PVerif.Lemmas.KeConv
import P2PVerif.Model.KeTimed
import P2PVerif.Lemmas.KeTimed
import P2PVerif.Lemmas.KeTimedSoon
/-! # C07 — channels establish, converge and keep working across rotation and restart
Property theorems only, about the channel model (`Model/P2PKE.lean`) with time as an explicit input. -/
namespace P2PVerif.C07
open P2PVerif P2PVerif.P2PKE

/-- ⊢ slot discipline, in every reachable state: previous and current sessions are ready, the prospective
    session is not (a session that becomes ready is promoted before `Deliver` returns, also when it was completed
    by data instead of the final handshake message). -/
theorem slots_inv (key : KeyId) (accept : KeyId → Bool) (ra ka ht : Nat) (lt : IdLt) (ops : List COp) :
    let c := (Chan.fresh key accept ra ka ht).run lt ops
    (∀ e, c.prev = some e → e.sess.isReady = true) ∧ (∀ e, c.cur = some e → e.sess.isReady = true) ∧
    (∀ e, c.next = some e → e.sess.isReady = false) :=
  P2PKE.slots_inv key accept ra ka ht lt ops

/-- ⊢ make before break: a rekey, a handshake retransmission, a blocking caller (or its cancellation) or an
    incoming term never leaves the channel without a current session if it had one that has not expired (the
    handshake timer and a blocking caller expire sessions first, like Send and the rekey timer); the old session
    stays until the new one is ready. -/
theorem make_before_break (key : KeyId) (accept : KeyId → Bool) (ra ka ht : Nat) (lt : IdLt) (ops : List COp) (op : COp) :
    let c := (Chan.fresh key accept ra ka ht).run lt ops
    c.cur.isSome →
    (match op with
     | .deliver .. | .unpend => True
     | .send _ now | .rekey _ now | .expire now | .hs now | .pend now => (c.expire now).cur.isSome) →
    (c.step lt op).1.cur.isSome :=
  P2PKE.make_before_break key accept ra ka ht lt ops op

/-- ⊢ keep-alive is sound: authenticated data through the current session refreshes `lastReceived`, and a current
    session that is not past its reject time and received data no longer than the keep-alive timeout ago is not
    torn down. -/
theorem keepalive_sound (key : KeyId) (accept : KeyId → Bool) (ra ka ht : Nat) (lt : IdLt) (ops : List COp) :
    let c := (Chan.fresh key accept ra ka ht).run lt ops
    (∀ e w now p, c.cur = some e → (e.sess.deliver w now).2 = .app p →
        (c.deliverSlot 1 w now).1.lastReceived = now ∧ (c.deliverSlot 1 w now).2 = some (some { app := some p })) ∧
    (∀ e now, c.cur = some e → now ≤ e.sess.expiresAt → now - c.lastReceived ≤ c.keepAlive → (c.expire now).cur = some e) :=
  P2PKE.keepalive_sound key accept ra ka ht lt ops

/-- ⊢ simultaneous initiation converges: when both sides hold their own initiator session and each receives the
    other's InitHello, both end up on the same handshake (the one whose id is smaller), whatever the order. -/
theorem tie_break_converges (kA kB : KeyId) (ra ka ht : Nat) (lt : IdLt) (tA tB ephA ephB eA' eB' now : Nat)
    (hlt : ∀ a b, a ≠ b → (lt a b = true ↔ lt b a = false)) (hne : ephA ≠ ephB) :
    let A := (Chan.fresh kA (fun _ => true) ra ka ht).onRekey lt ephA tA
    let B := (Chan.fresh kB (fun _ => true) ra ka ht).onRekey lt ephB tB
    ∀ a b, A.next.map (·.id) = some a → B.next.map (·.id) = some b →
      let A' := (A.deliver lt b eA' now).1
      let B' := (B.deliver lt a eB' now).1
      A'.next.map (·.id) = B'.next.map (·.id) ∧ (A'.next.map (·.id) = some a ∨ A'.next.map (·.id) = some b) :=
  P2PKE.tie_break_converges kA kB ra ka ht lt tA tB ephA ephB eA' eB' now hlt hne

/-- ⊢ convergence (partial): once every emitted message is delivered, a pending Send completes within three
    handshake rounds — from fresh channels, and after the peer restarted with a fresh channel at any point of
    an established connection (`ops` is an arbitrary history of the surviving side after establishment is not
    covered: see DESIGN.md section 6; wall-clock bounds rest on timers firing when due). -/
theorem convergence_partial (kA kB : KeyId) (ra ka ht : Nat) (lt : IdLt) (t0 : Nat) (p : Bytes) :
    P2PKE.EstablishFresh kA kB ra ka ht lt t0 p ∧ P2PKE.EstablishAfterRestart kA kB ra ka ht lt t0 p :=
  ⟨P2PKE.establish_fresh kA kB ra ka ht lt t0 p, P2PKE.establish_after_restart kA kB ra ka ht lt t0 p⟩

/-! ## the channel with its timers (`Model/KeTimed.lean`)

`TSt.run` interleaves application and network operations, the passing of time and the two timer callbacks in any
order; a callback is enabled once its deadline has passed and may run arbitrarily late. -/

/-- ⊢ never stranded: in every reachable state, whatever was lost, reordered, refused or restarted and however
    late the timer callbacks ran, a channel on which callers wait for a session has no current session and has a
    timer armed that will act for them — the rekey timer (it initiates), or the handshake timer together with a
    prospective session (it retransmits it and gives it up after the time-out, which starts over). -/
theorem never_stranded (key : KeyId) (accept : KeyId → Bool) (rj ka ra bo : Nat) (lt : IdLt) (ops : List TOp) :
    ((TSt.mk (TChan.fresh key accept rj ka ra bo) 0).run lt ops).t.NotStranded :=
  P2PKE.never_stranded key accept rj ka ra bo lt ops

/-- ⊢ what the handshake timer retransmits is alive: after the callback ran at `now`, a prospective session that
    is still there has not passed its reject time and is no older than the handshake time-out. -/
theorem prospective_is_live (t : TChan) (now : Nat) (e : Entry) :
    (t.fireHs now).1.chan.next = some e →
    now ≤ e.sess.expiresAt ∧ now - (e.sess.expiresAt - t.chan.rejectAfter) ≤ t.chan.hsTimeout :=
  P2PKE.prospective_is_live t now e

/-- ⊢ giving up starts over: when the handshake callback drops the prospective session (`next` was there before
    and is gone afterwards) and it was the channel's own attempt, or callers are waiting and there is no current
    session, the rekey timer is armed for this very instant. -/
theorem abandon_restarts (t : TChan) (now : Nat) (e : Entry) :
    t.chan.next = some e → (t.fireHs now).1.chan.next = none →
    (e.sess.isInit = true ∨ (t.chan.waiting > 0 ∧ (t.chan.expire now).cur = none)) →
    (t.fireHs now).1.rekeyAt = some now :=
  P2PKE.abandon_restarts t now e

/-- ⊢ the rekey callback always leaves a driven prospective session: afterwards there is a prospective session
    (the one it found, or a fresh initiator session it created) and the handshake timer is armed. -/
theorem rekey_leaves_driven_session (key : KeyId) (accept : KeyId → Bool) (rj ka ra bo : Nat) (lt : IdLt) (ops : List TOp)
    (eph now : Nat) :
    let t := ((TSt.mk (TChan.fresh key accept rj ka ra bo) 0).run lt ops).t
    (t.fireRekey lt eph now).chan.next.isSome ∧ (t.fireRekey lt eph now).hsAt.isSome :=
  P2PKE.rekey_leaves_driven_session key accept rj ka ra bo lt ops eph now

/-- ⊢ a stale responder session does not block a Send (the deadlock found by the `ket` oracle, F31): a channel
    holds only a prospective session `e` that is older than the handshake time-out (say a responder session whose
    initiator is gone). A caller that starts waiting at `t1` finds it dropped and the rekey timer armed for `t1`;
    the rekey callback then creates a fresh initiator session and arms the handshake timer to send its InitHello
    at once. -/
theorem stale_prospective_does_not_block (t : TChan) (lt : IdLt) (e : Entry) (t1 eph : Nat)
    (hcur : t.chan.cur = none) (hnext : t.chan.next = some e)
    (hold : t1 - (e.sess.expiresAt - t.chan.rejectAfter) > t.chan.hsTimeout) :
    let a := (t.pend t1).1
    let c := a.fireRekey lt eph t1
    a.chan.waiting = t.chan.waiting + 1 ∧ a.chan.next = none ∧ a.rekeyAt = some t1 ∧
    (∃ e', c.chan.next = some e' ∧ e'.sess.isInit = true ∧ e'.sess.eph = eph) ∧ c.hsAt = some t1 :=
  P2PKE.stale_prospective_does_not_block t lt e t1 eph hcur hnext hold

/-- ⊢ a handshake that does not complete is given up in bounded time: while callers wait and there is no current
    session, the first handshake callback that runs more than the time-out after the prospective session was
    created drops it and arms the rekey timer for that instant (the callback runs every backoff while the session
    is there: `never_stranded`). -/
theorem stuck_handshake_is_given_up (t : TChan) (e : Entry) (now : Nat)
    (hcur : t.chan.cur = none) (hnext : t.chan.next = some e) (hw : t.chan.waiting > 0)
    (hage : now - (e.sess.expiresAt - t.chan.rejectAfter) > t.chan.hsTimeout) :
    (t.fireHs now).1.chan.next = none ∧ (t.fireHs now).1.rekeyAt = some now :=
  P2PKE.stuck_handshake_is_given_up t e now hcur hnext hw hage

/-- ⊢ through the timers, from fresh channels (with a handshake backoff that is not zero — otherwise the handshake
    timer would retransmit within the same instant): a caller starts waiting on A at `t0`; letting the timers run (no
    time needs to pass: the rekey callback creates the session and arms the handshake timer for the same instant)
    emits exactly A's InitHello; after two loss-free round trips A has a current session, the caller has
    returned, A — the initiator — has its rekey timer armed `ra` ahead, and B has a current session too. -/
theorem pending_send_completes_fresh (kA kB : KeyId) (rj ka ra bo : Nat) (lt : IdLt) (t0 : Nat) (hbo : 0 < bo) :
    let A0 := TChan.fresh kA (fun k => k == kB) rj ka ra bo
    let B0 := TChan.fresh kB (fun k => k == kA) rj ka ra bo
    let A1 := (A0.pend t0).1
    let adv := A1.advance lt t0 0 4 100
    A1.chan.waiting = 1 ∧
    ∃ hello, adv.2.1 = [(t0, hello)] ∧
      ∃ rh, (B0.deliver lt hello 200 t0).2.sent = some rh ∧
        ∃ idn, (adv.1.deliver lt rh 300 t0).2.sent = some idn ∧
          ∃ rd, ((B0.deliver lt hello 200 t0).1.deliver lt idn 400 t0).2.sent = some rd ∧
            let A4 := ((adv.1.deliver lt rh 300 t0).1.deliver lt rd 500 t0).1
            let B2 := ((B0.deliver lt hello 200 t0).1.deliver lt idn 400 t0).1
            A4.chan.cur.isSome ∧ A4.chan.waiting = 0 ∧ A4.rekeyAt = some (t0 + ra) ∧ B2.chan.cur.isSome :=
  P2PKE.pending_send_completes_fresh kA kB rj ka ra bo lt t0 hbo

/-- ⊢ bounded waiting for action: in every reachable state — any interleaving, callbacks arbitrarily late — while
    callers wait for a session, a timer that will act for them is due no later than one handshake backoff from
    now: the rekey timer (its callback initiates), or the handshake timer with a prospective session (its callback
    retransmits, or gives the session up and starts over). Moreover the handshake timer is never armed further than
    one backoff ahead. With `stuck_handshake_is_given_up` this bounds how long a channel can sit on a handshake that
    cannot complete: `handshakeAttempts` backoffs plus the lateness of the callbacks. -/
theorem acts_within_one_backoff (key : KeyId) (accept : KeyId → Bool) (rj ka ra bo : Nat) (lt : IdLt) (ops : List TOp) :
    let s := (TSt.mk (TChan.fresh key accept rj ka ra bo) 0).run lt ops
    s.ActsSoon ∧ (∀ b, s.t.hsAt = some b → b ≤ s.now + s.t.backoff) :=
  P2PKE.acts_within_one_backoff key accept rj ka ra bo lt ops

end P2PVerif.C07
