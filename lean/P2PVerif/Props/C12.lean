import P2PVerif.Model.Hub
import P2PVerif.Lemmas.Hub
/-! # C12 — Close ends everything promptly and for good
Property theorems only, about the hub and queue models; the select skeleton is regenerated from the source.
"Promptly" = the return transition is enabled and is the participant's only move; seconds and goroutine release
are measured by the harness and reported as exploration (DESIGN.md section 6).
(Bound variables carry explicit types because `s.rs[i]?` alone does not let Lean infer them.) -/
namespace P2PVerif.C12
open P2PVerif P2PVerif.Hub

/-- ⊢ after Close every blocked Receive / ServeAsk / Deliver can return, and returns a non-nil error: in every
    state with `closed`, a receiver parked in either select and a deliverer parked in its select have their
    closed-transition enabled, and it yields `closedErr` (never success). (The non-blocking select `sel1` exists
    only in TellHub.Receive, so that conjunct is stated for `kind = .tell`.) -/
theorem blocked_calls_return_after_close (sk : Skel) (hg : sk.good = true) (s : St) (hc : s.closed = true) :
    (∀ (i : Nat) (r : R), s.rs[i]? = some r → r.pc = .sel2 →
        ∃ s', step sk s (.rSel2Closed i) = some s' ∧ (s'.rs[i]?).map (·.pc) = some (.done .closedErr)) ∧
    -- original: (∀ i r, s.rs[i]? = some r → r.pc = .sel1 → ∃ s', step sk s (.rSel1Closed i) = some s' ∧ …)
    -- false for an ask hub: `s` is an arbitrary state, `Skel.ask` has no non-blocking select (`s1Closed = false`,
    -- which `good` allows for `kind = .ask`), so `step Skel.ask {closed := true, rs := [{pc := .sel1}]}
    -- (.rSel1Closed 0) = none`. The non-blocking select exists only in TellHub.Receive: restricted to `kind = .tell`.
    (sk.kind = .tell → ∀ (i : Nat) (r : R), s.rs[i]? = some r → r.pc = .sel1 →
        ∃ s', step sk s (.rSel1Closed i) = some s' ∧ (s'.rs[i]?).map (·.pc) = some (.done .closedErr)) ∧
    (∀ (j : Nat) (d : D), s.ds[j]? = some d → d.pc = .sel →
        ∃ s', step sk s (.dClosed j) = some s' ∧ (s'.ds[j]?).map (·.pc) = some (.done .closedErr 0)) :=
  Hub.blocked_calls_return_after_close sk hg s hc

/-- ⊢ (why the `sel1` conjunct above is stated for tell hubs only) in an ask hub no receiver is ever parked in a
    non-blocking select, for every schedule. -/
theorem ask_never_sel1 (sk : Skel) (hk : sk.kind = .ask) (ls : List Lbl) (s : St) (hr : run sk {} ls = some s) :
    ∀ (i : Nat) (r : R), s.rs[i]? = some r → r.pc ≠ .sel1 :=
  Hub.ask_never_sel1 sk hk ls s hr

-- the counterexample to the unrestricted conjunct: a good ask skeleton, an (unreachable) receiver at `sel1`
example : Skel.ask.good = true ∧ step Skel.ask { closed := true, rs := [{ pc := .sel1 }] } (.rSel1Closed 0) = none := by
  decide

/-- ⊢ every call started after Close returns `closedErr` at its first step, and no call ever returns a nil
    error on a closed hub or `ok` without a callback: in every reachable state no participant is `done nilErr`. -/
theorem after_close_error (sk : Skel) (hg : sk.good = true) (ls : List Lbl) (s : St) (hr : run sk {} ls = some s) :
    (∀ (i : Nat) (r : R), s.rs[i]? = some r → r.pc ≠ .done .nilErr) ∧ (∀ (j : Nat) (d : D) (n : Nat), s.ds[j]? = some d → d.pc ≠ .done .nilErr n) ∧
    (s.closed = true → ∀ (i : Nat) (r : R), s.rs[i]? = some r → r.pc = .start →
        ∃ s', step sk s (.rCheck i) = some s' ∧ (s'.rs[i]?).map (·.pc) = some (.done .closedErr)) :=
  Hub.after_close_error sk hg ls s hr

/-- ⊢ a receiver parked in its blocking select when the hub is closed with no deliverer waiting has no other
    move than to return (with `closedErr`, or `ctxErr` if its context is also done): it cannot block forever on
    an enabled-nothing state and cannot spin. -/
theorem closed_receiver_only_returns (sk : Skel) (hg : sk.good = true) (s s' : St) (i : Nat) (r : R) (l : Lbl)
    (hc : s.closed = true) (hr : s.rs[i]? = some r) (hpc : r.pc = .sel2)
    (hnod : ∀ (j : Nat) (d : D), s.ds[j]? = some d → d.pc ≠ .sel)
    (hl : l = .rSel2Closed i ∨ l = .rSel2Ctx i ∨ (∃ j, l = .rendezvous i j) ∨ l = .rCheck i ∨ l = .rSel1Closed i ∨
          l = .rSel1Default i ∨ (∃ n, l = .cbReturn i n))
    (hs : step sk s l = some s') :
    (s'.rs[i]?).map (·.pc) = some (.done .closedErr) ∨ (s'.rs[i]?).map (·.pc) = some (.done .ctxErr) :=
  Hub.closed_receiver_only_returns sk hg s s' i r l hc hr hpc hnod hl hs

/-- ⊢ no callback starts after Close once the calls that were parked at that moment have left: if the hub is
    closed and no receiver is parked in a select with an open rendezvous case (they have all returned), no
    rendezvous transition is enabled any more — and a receiver that starts afterwards returns at its closed check. -/
theorem no_callback_after_close_settles (sk : Skel) (hg : sk.good = true) (s : St) (hc : s.closed = true)
    (hparked : ∀ (i : Nat) (r : R), s.rs[i]? = some r → r.pc ≠ .sel1 ∧ r.pc ≠ .sel2) (i j : Nat) :
    step sk s (.rendezvous i j) = none :=
  Hub.no_callback_after_close_settles sk hg s hc hparked i j

/-- ⊢ Close is idempotent. -/
theorem close_idempotent (sk : Skel) (s s1 s2 : St) (h1 : step sk s .close = some s1) (h2 : step sk s1 .close = some s2) :
    s2 = s1 :=
  Hub.close_idempotent sk s s1 s2 h1 h2

/-- ⊢ the queue after Close: Deliver refuses, nothing can be taken, and it stays that way. -/
theorem queue_closed_for_good (q : Queue) (hq : q.inCb = []) (ops : List QOp) :
    let q' := ops.foldl Queue.step q.close
    q'.closed = true ∧ q'.queue = [] ∧ (∀ m vec, (q'.deliver m vec).2 = false) ∧ (∀ r, q'.step (.take r) = q') :=
  Hub.queue_closed_for_good q hq ops

end P2PVerif.C12
