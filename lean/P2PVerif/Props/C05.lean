import P2PVerif.Model.KeWorld
import P2PVerif.Lemmas.KeChan
/-! # C05 — a channel talks only to an accepted key, and to the same key forever
Property theorems only. `Chan.run` applies any sequence of channel operations (incoming terms of any kind,
from any sender, in any order; Send; the rekey and handshake timers firing; expiry) to a fresh channel with an
arbitrary acceptance predicate. No assumption is made about where the incoming terms come from. -/
namespace P2PVerif.C05
open P2PVerif P2PVerif.P2PKE

/-- ⊢ in every reachable state: the established (current and previous) sessions are with the channel's remote
    key, and that key was accepted by the predicate — whichever side initiated. -/
theorem never_ready_with_rejected (key : KeyId) (accept : KeyId → Bool) (ra ka ht : Nat) (lt : IdLt) (ops : List COp) :
    let c := (Chan.fresh key accept ra ka ht).run lt ops
    (∀ k, c.remoteKey = some k → accept k = true) ∧
    (∀ e, c.cur = some e → e.sess.isReady = true ∧ e.sess.rKey = c.remoteKey ∧ c.remoteKey.isSome) ∧
    (∀ e, c.prev = some e → e.sess.rKey = c.remoteKey ∧ c.remoteKey.isSome) :=
  P2PKE.never_ready_with_rejected key accept ra ka ht lt ops

/-- ⊢ application data is only ever handed up from a session whose remote key is the accepted remote key of the
    channel. -/
theorem never_delivers_from_rejected (key : KeyId) (accept : KeyId → Bool) (ra ka ht : Nat) (lt : IdLt) (ops : List COp)
    (w : Wire) (eph now : Nat) (p : Bytes) :
    let c := (Chan.fresh key accept ra ka ht).run lt ops
    (c.step lt (.deliver w eph now)).2.app = some p →
    ∃ k, (c.step lt (.deliver w eph now)).1.remoteKey = some k ∧ accept k = true ∧
      ∃ e, ((c.step lt (.deliver w eph now)).1.cur = some e ∨ (c.step lt (.deliver w eph now)).1.prev = some e) ∧
        e.sess.rKey = some k ∧ (e.sess.deliver w now).2 ≠ .err :=
  P2PKE.never_delivers_from_rejected key accept ra ka ht lt ops w eph now p

/-- ⊢ application data is only ever encrypted by the current session, whose remote key is the accepted one. -/
theorem never_encrypts_to_rejected (key : KeyId) (accept : KeyId → Bool) (ra ka ht : Nat) (lt : IdLt) (ops : List COp)
    (p : Bytes) (now : Nat) (w : Wire) :
    let c := (Chan.fresh key accept ra ka ht).run lt ops
    (c.step lt (.send p now)).2.sent = [w] →
    ∃ e k, (c.expire now).cur = some e ∧ e.sess.rKey = some k ∧ accept k = true ∧ (e.sess.send p now).2 = some w :=
  P2PKE.never_encrypts_to_rejected key accept ra ka ht lt ops p now w

/-- ⊢ key continuity: once the channel has a remote key it keeps it through every later operation. -/
theorem key_continuity (key : KeyId) (accept : KeyId → Bool) (ra ka ht : Nat) (lt : IdLt) (ops : List COp) (op : COp) (k : KeyId) :
    let c := (Chan.fresh key accept ra ka ht).run lt ops
    c.remoteKey = some k → (c.step lt op).1.remoteKey = some k :=
  P2PKE.key_continuity key accept ra ka ht lt ops op k

/-- ⊢ a handshake presenting any other key is refused without disturbing the established session: an incoming
    term either leaves the current session in place (possibly advancing it), or replaces it by a session with
    the same remote key, moving the old one to the previous slot. -/
theorem foreign_handshake_leaves_current (key : KeyId) (accept : KeyId → Bool) (ra ka ht : Nat) (lt : IdLt) (ops : List COp)
    (w : Wire) (eph now : Nat) (e : Entry) :
    let c := (Chan.fresh key accept ra ka ht).run lt ops
    c.cur = some e →
    let c' := (c.step lt (.deliver w eph now)).1
    (∃ e', c'.cur = some e' ∧ e'.sess.eph = e.sess.eph) ∨
    (∃ e' p', c'.cur = some e' ∧ c'.prev = some p' ∧ p'.sess.eph = e.sess.eph ∧ e'.sess.rKey = c.remoteKey) :=
  P2PKE.foreign_handshake_leaves_current key accept ra ka ht lt ops w eph now e

end P2PVerif.C05
