import P2PVerif.Model.Checked
import P2PVerif.Model.Reasm
import P2PVerif.Lemmas.Checked
import P2PVerif.Props.C10
import P2PVerif.Lemmas.SrcKe
import P2PVerif.Lemmas.SrcIter
/-! # C08 — no bytes from the network can crash a node
Property theorems only. `Model/Checked.lean` re-writes the packet-facing entry points with Go's checked slice
and index expressions (`Except Fault`); the theorems say that for EVERY input — and, for the stateful
reassemblers, every history of inputs, including later packets that contradict the header fields of earlier
ones — the checked version does not fault and computes exactly what the total model (the one the other
properties are proved about and the correspondence streams compare with the code) computes. Parsers outside
the repository (encoding/asn1, protobuf, flynn/noise, quic-go, x/crypto/ssh) are not modelled: they are fuzzed
through the correspondence streams only. -/
namespace P2PVerif.C08
open P2PVerif P2PVerif.Checked P2PVerif.Src P2PVerif.Go P2PVerif.SrcKad P2PVerif.SrcFrag P2PVerif.SrcMbapp P2PVerif.SrcMux

/-- ⊢ the string and varint demultiplexers never fault, whatever the frame (including length fields ≥ 2^63). -/
theorem demux_no_fault (x : Bytes) :
    stringDemux x = .ok (Mux.demux .str x) ∧ varintDemux x = .ok (Mux.demux .varint x) :=
  Checked.demux_no_fault x

/-- ⊢ fragswarm: parsing never faults, and the aggregator's indexed write never faults for any part/total pair
    against any existing parts table (a later fragment may contradict the first one's part count). -/
theorem frag_no_fault (x : Bytes) (parts : List (Option Bytes)) (part total : Nat) (data : Bytes) :
    fragParse x = .ok (Frag.parse x) ∧ (∃ r, aggAddPart parts part total data = .ok r) :=
  Checked.frag_no_fault x parts part total data

/-- ⊢ fragswarm over histories: for every sequence of datagrams from any sources, every step of the receive path
    stays inside the total model, whose indexed writes are exactly the guarded ones. -/
theorem frag_history_no_fault (hist : List (Nat × Bytes)) :
    ∀ st : Frag.RState, ∃ st' outs, hist.foldl (fun (acc : Frag.RState × List (Option Bytes)) p =>
        let (s, o) := Frag.recv acc.1 p.1 p.2; (s, acc.2 ++ [o])) (st, []) = (st', outs) ∧ outs.length = hist.length :=
  Checked.frag_history_no_fault hist

/-- ⊢ mbapp: header parsing and all six header word reads never fault; the collector's buffer write and bitmap
    access never fault for any index, any body length and any collector state whose bitmap has one bit per part
    (which every collector the code creates satisfies, whatever counts and sizes the first packet announced). -/
theorem mbapp_no_fault (pkt : Bytes) (c : Mbapp.Col) (idx : Nat) (data : Bytes) (hc : c.bits.length = c.partCount) :
    mbDecode pkt = .ok (Mbapp.decode pkt) ∧ colAddPart c idx data = .ok (c.addPart idx data) ∧
    (c.addPart idx data).bits.length = (c.addPart idx data).partCount :=
  Checked.mbapp_no_fault pkt c idx data hc

/-- ⊢ the collector invariant holds for new collectors, so `mbapp_no_fault` applies along every history. -/
theorem mbapp_new_collector_ok (partCount totalSize : Nat) : (Mbapp.Col.new partCount totalSize).bits.length = partCount :=
  Checked.mbapp_new_collector_ok partCount totalSize

/-- ⊢ quicswarm frames and p2pke message / InitHello framing never fault. -/
theorem framing_no_fault (dstLen l : Nat) (x body : Bytes) :
    (∃ r, readFrameDst dstLen l = .ok r) ∧ (∃ r, keParse x = .ok r) ∧ (∃ r, keInitHelloPayload body = .ok r) :=
  Checked.framing_no_fault dstLen l x body

/-- ⊢ after any history, a valid message is processed as it would have been without the malformed ones that
    were rejected: a datagram the parser rejects leaves the fragswarm and mbapp reassembly state untouched. -/
theorem rejected_input_is_noop (st : Frag.RState) (src : Nat) (pkt : Bytes) (cfg : Nat) (mst : Mbapp.RState) :
    (Frag.parse pkt = none → Frag.recv st src pkt = (st, none)) ∧
    (Mbapp.decode pkt = none → Mbapp.recv cfg mst src pkt = (mst, none)) :=
  Checked.rejected_input_is_noop st src pkt cfg mst

-- non-vacuity: the inputs that crashed the unrepaired code
example : stringDemux ([255,255,255,255,255,255,255,255,255,1] ++ [7]) = .ok .err := by decide
example : (aggAddPart [none, none] 5 9 [1]) = .ok none := by decide

/-! ### about the definitions regenerated from the Go source (`Gen/Src.lean`): no input makes them fault -/

/-- ⊢ (source) the packet parsers of fragswarm, mbapp and p2pke return (a value or an error) on every byte string -/
theorem src_parsers_no_fault (x : Go.Bytes) :
    (∃ r, fragswarm.parseMessage x = .ok r) ∧ (∃ r, mbapp.ParseMessage x = .ok r) ∧ (∃ r, p2pke.ParseMessage x = .ok r) := by
  refine ⟨?_, ?_, ?_⟩
  · rw [parseMessage_eq]; cases parseK (nb x) with
    | none => exact ⟨_, rfl⟩
    | some r => obtain ⟨a, b, c, d⟩ := r; exact ⟨_, rfl⟩
  · unfold mbapp.ParseMessage
    by_cases h : Go.len x < 24
    · simp [h]
    · have h24 : 24 ≤ x.length := by simp only [Go.len] at h; omega
      simp only [decide_eq_true_eq, h, if_false]
      have e1 : Go.slice x 0 24 = .ok (x.take 24) := Go.slice_to x 24 h24
      have e2 : Go.slice x 24 (Go.len x) = .ok (x.drop 24) := Go.slice_from x 24 h24
      rw [e1, e2]
      exact ⟨_, rfl⟩
  · unfold p2pke.ParseMessage
    by_cases h : Go.len x < 4 <;> simp [h]

/-- ⊢ (source) the five demultiplexers return on every frame (string: frames shorter than 2^63 bytes, as every Go
    slice is) -/
theorem src_demux_no_fault (x : Go.Bytes) (hx : x.length < 2 ^ 63) :
    (∃ r, p2pmux.uint16DemuxFunc x = .ok r) ∧ (∃ r, p2pmux.uint32DemuxFunc x = .ok r) ∧
    (∃ r, p2pmux.uint64DemuxFunc x = .ok r) ∧ (∃ r, p2pmux.varintDemuxFunc x = .ok r) ∧
    (∃ r, p2pmux.stringDemuxFunc x = .ok r) := by
  refine ⟨?_, ?_, ?_, ?_, ?_⟩
  · match x with
    | [] => exact ⟨_, u16Demux_short _ (by simp)⟩
    | [_] => exact ⟨_, u16Demux_short _ (by simp)⟩
    | b0 :: b1 :: rest => exact ⟨_, u16Demux_ok b0 b1 rest⟩
  · match x with
    | [] => exact ⟨_, u32Demux_short _ (by simp)⟩
    | [_] => exact ⟨_, u32Demux_short _ (by simp)⟩
    | [_, _] => exact ⟨_, u32Demux_short _ (by simp)⟩
    | [_, _, _] => exact ⟨_, u32Demux_short _ (by simp)⟩
    | b0 :: b1 :: b2 :: b3 :: rest => exact ⟨_, u32Demux_ok b0 b1 b2 b3 rest⟩
  · match x with
    | [] => exact ⟨_, u64Demux_short _ (by simp)⟩
    | [_] => exact ⟨_, u64Demux_short _ (by simp)⟩
    | [_, _] => exact ⟨_, u64Demux_short _ (by simp)⟩
    | [_, _, _] => exact ⟨_, u64Demux_short _ (by simp)⟩
    | [_, _, _, _] => exact ⟨_, u64Demux_short _ (by simp)⟩
    | [_, _, _, _, _] => exact ⟨_, u64Demux_short _ (by simp)⟩
    | [_, _, _, _, _, _] => exact ⟨_, u64Demux_short _ (by simp)⟩
    | [_, _, _, _, _, _, _] => exact ⟨_, u64Demux_short _ (by simp)⟩
    | b0 :: b1 :: b2 :: b3 :: b4 :: b5 :: b6 :: b7 :: rest => exact ⟨_, u64Demux_ok b0 b1 b2 b3 b4 b5 b6 b7 rest⟩
  · rw [varintDemux_model]; cases Varint.get (nb x) <;> exact ⟨_, rfl⟩
  · rw [stringDemux_model x hx]
    cases Varint.get (nb x) with
    | ok l n => simp only; split <;> exact ⟨_, rfl⟩
    | short => exact ⟨_, rfl⟩
    | overflow i => exact ⟨_, rfl⟩

/-- ⊢ (source) the distance functions return on every triple of keys, of any lengths -/
theorem src_distance_no_fault (x a b : Go.Bytes) :
    (∃ r, kademlia.DistanceCmp x a b = .ok r) ∧ (∃ r, kademlia.DistanceLt x a b = .ok r) ∧
    (∃ r, kademlia.Distance a b = .ok r) ∧ (∃ r, kademlia.DistanceLz a b = .ok r) ∧
    (∃ r, kademlia.LeadingZeros x = .ok r) ∧ (∃ r, kademlia.Cache.bucketIndex x a = .ok r) :=
  ⟨⟨_, DistanceCmp_eq x a b⟩, ⟨_, DistanceLt_eq x a b⟩, ⟨_, Distance_eq a b⟩, ⟨_, DistanceLz_eq a b⟩,
   ⟨_, LeadingZeros_eq x⟩, ⟨_, bucketIndex_eq x a⟩⟩

/-- ⊢ (source) mbapp's collector never faults, whatever parts arrive in whatever order for whatever announced part
    count and total size (defect 4 of DESIGN.md section 7 was a fault here) -/
theorem src_collector_no_fault (pc ts : Nat) (ops : List (Nat × Go.Bytes)) :
    ∃ c, (mbapp.newCollector (pc : Int) (ts : Int) >>= fun c0 => C10.srcAddParts c0 ops) = .ok c :=
  let ⟨c, h, _⟩ := C10.src_collector_refines pc ts ops
  ⟨c, h⟩

/-- ⊢ (source) the message classifiers a channel routes every datagram by (`IsInitHello`, `IsRespHello`, `IsHello`,
    `IsPostHandshake`) and mbapp's `extractErrorCode` return on every input; a datagram is never both a hello and
    post-handshake data. -/
theorem src_classifiers_total (x : Go.Bytes) (n : Int) :
    (∃ b, p2pke.IsInitHello x = .ok b) ∧ (∃ b, p2pke.IsRespHello x = .ok b) ∧ (∃ b, p2pke.IsHello x = .ok b) ∧
    (∃ b, p2pke.IsPostHandshake x = .ok b) ∧ (∃ r, mbapp.extractErrorCode n = .ok r) ∧
    ¬ (p2pke.IsHello x = .ok true ∧ p2pke.IsPostHandshake x = .ok true) := by
  refine ⟨⟨_, (SrcKe.classify_eq x).1⟩, ⟨_, (SrcKe.classify_eq x).2.1⟩, ⟨_, SrcKe.isHello_eq x⟩,
    ⟨_, (SrcKe.classify_eq x).2.2⟩, ?_, ?_⟩
  · unfold mbapp.extractErrorCode; split <;> exact ⟨_, rfl⟩
  · rw [SrcKe.isHello_eq, (SrcKe.classify_eq x).2.2]
    intro ⟨h1, h2⟩
    simp only [Except.ok.injEq, decide_eq_true_eq] at h1 h2
    omega

/-- ⊢ regenerated, no fault in the iteration: whatever peers the contacted nodes return (the callback `g` is
    arbitrary: lists of any length, with any ids, repeated, cyclic), the regenerated `dhtIterate` with a candidate
    limit of at least 1 never hits an index, slice or other run-time panic: it ends, or exhausts the model's loop fuel
    of 2^64+1 rounds. -/
theorem src_iterate_no_fault {σ : Type} (key : Go.Bytes) (n : Int) (hn : 1 ≤ n)
    (g : σ → Src.kademlia.NodeInfoT → σ × List Src.kademlia.NodeInfoT × Bool)
    (nodes : List Src.kademlia.NodeInfoT) (st0 : σ) :
    Src.kademlia.dhtIterate nodes key n (fun s x => pure (g s x)) st0 = .error .fuel ∨
    ∃ st, Src.kademlia.dhtIterate nodes key n (fun s x => pure (g s x)) st0 = .ok st := by
  rcases Src.dhtIterate_inv key n g (fun _ => True) (fun _ _ => True)
      (fun _ _ _ _ _ _ => ⟨trivial, fun _ _ _ => trivial⟩) nodes (fun _ _ => trivial) st0 trivial with h | h | ⟨st, h, _⟩
  · exact .inl h
  · exact absurd h.2.1 (by omega)
  · exact .inr ⟨st, h⟩

end P2PVerif.C08
