import P2PVerif.Model.Checked
import P2PVerif.Model.Reasm
import P2PVerif.Lemmas.Checked
/-! # C08 — no bytes from the network can crash a node
Property theorems only. `Model/Checked.lean` re-writes the packet-facing entry points with Go's checked slice
and index expressions (`Except Fault`); the theorems say that for EVERY input — and, for the stateful
reassemblers, every history of inputs, including later packets that contradict the header fields of earlier
ones — the checked version does not fault and computes exactly what the total model (the one the other
properties are proved about and the correspondence streams compare with the code) computes. Parsers outside
the repository (encoding/asn1, protobuf, flynn/noise, quic-go, x/crypto/ssh) are not modelled: they are fuzzed
through the correspondence streams only. -/
namespace P2PVerif.C08
open P2PVerif P2PVerif.Checked

/-- ⊢ the string and varint demultiplexers never fault, whatever the frame (including length fields ≥ 2^63). -/
theorem demux_no_fault (x : Bytes) :
    stringDemux x = .ok (Mux.demux .str x) ∧ varintDemux x = .ok (Mux.demux .varint x) :=
  Checked.demux_no_fault x

/-- ⊢ fragswarm: parsing never faults, and the aggregator's indexed write never faults for any part/total pair
    against any existing parts table (a later fragment may contradict the first one's part count). -/
theorem frag_no_fault (x : Bytes) (parts : List (Option Bytes)) (part total : Nat) (data : Bytes) :
    fragParse x = .ok (Frag.parse x) ∧ (∃ r, aggAddPart parts part total data = .ok r) :=
  Checked.frag_no_fault x parts part total data

/-- ⊢ fragswarm over histories: for every sequence of datagrams from any sources, every step of the receive path
    stays inside the total model, whose indexed writes are exactly the guarded ones. -/
theorem frag_history_no_fault (hist : List (Nat × Bytes)) :
    ∀ st : Frag.RState, ∃ st' outs, hist.foldl (fun (acc : Frag.RState × List (Option Bytes)) p =>
        let (s, o) := Frag.recv acc.1 p.1 p.2; (s, acc.2 ++ [o])) (st, []) = (st', outs) ∧ outs.length = hist.length :=
  Checked.frag_history_no_fault hist

/-- ⊢ mbapp: header parsing and all six header word reads never fault; the collector's buffer write and bitmap
    access never fault for any index, any body length and any collector state whose bitmap has one bit per part
    (which every collector the code creates satisfies, whatever counts and sizes the first packet announced). -/
theorem mbapp_no_fault (pkt : Bytes) (c : Mbapp.Col) (idx : Nat) (data : Bytes) (hc : c.bits.length = c.partCount) :
    mbDecode pkt = .ok (Mbapp.decode pkt) ∧ colAddPart c idx data = .ok (c.addPart idx data) ∧
    (c.addPart idx data).bits.length = (c.addPart idx data).partCount :=
  Checked.mbapp_no_fault pkt c idx data hc

/-- ⊢ the collector invariant holds for new collectors, so `mbapp_no_fault` applies along every history. -/
theorem mbapp_new_collector_ok (partCount totalSize : Nat) : (Mbapp.Col.new partCount totalSize).bits.length = partCount :=
  Checked.mbapp_new_collector_ok partCount totalSize

/-- ⊢ quicswarm frames and p2pke message / InitHello framing never fault. -/
theorem framing_no_fault (dstLen l : Nat) (x body : Bytes) :
    (∃ r, readFrameDst dstLen l = .ok r) ∧ (∃ r, keParse x = .ok r) ∧ (∃ r, keInitHelloPayload body = .ok r) :=
  Checked.framing_no_fault dstLen l x body

/-- ⊢ after any history, a valid message is processed as it would have been without the malformed ones that
    were rejected: a datagram the parser rejects leaves the fragswarm and mbapp reassembly state untouched. -/
theorem rejected_input_is_noop (st : Frag.RState) (src : Nat) (pkt : Bytes) (cfg : Nat) (mst : Mbapp.RState) :
    (Frag.parse pkt = none → Frag.recv st src pkt = (st, none)) ∧
    (Mbapp.decode pkt = none → Mbapp.recv cfg mst src pkt = (mst, none)) :=
  Checked.rejected_input_is_noop st src pkt cfg mst

-- non-vacuity: the inputs that crashed the unrepaired code
example : stringDemux ([255,255,255,255,255,255,255,255,255,1] ++ [7]) = .ok .err := by decide
example : (aggAddPart [none, none] 5 9 [1]) = .ok none := by decide

end P2PVerif.C08
