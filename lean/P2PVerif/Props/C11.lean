import P2PVerif.Model.Hub
import P2PVerif.Model.Ask
import P2PVerif.Lemmas.Hub
import P2PVerif.Lemmas.Ask
import P2PVerif.Model.Asker
import P2PVerif.Lemmas.Asker
/-! # C11 — an Ask returns its own handler's answer or an error, never another's
Property theorems only: the AskHub rendezvous (shared by vswarm, p2pmux, mbapp's server side), the mbapp
request/reply matching, and the length-prefixed frames of quicswarm.
(Bound variables carry explicit types because `s.rs[i]?` alone does not let Lean infer them.) -/
namespace P2PVerif.C11
open P2PVerif P2PVerif.Hub

/-- ⊢ through the ask hub, a successful delivery returns exactly the value the handler produced for *that*
    request (the callback that was started with deliverer j finished with n), for any number of outstanding
    asks and any interleaving; a failed one was never seen by a handler. -/
theorem ask_returns_own_answer (ls : List Lbl) (s : St) (hr : run Skel.ask {} ls = some s) :
    (∀ (j : Nat) (d : D) (n : Nat), s.ds[j]? = some d → d.pc = .done .ok n → (j, n) ∈ s.finished) ∧
    (∀ j n n', (j, n) ∈ s.finished → (j, n') ∈ s.finished → n = n') ∧
    (∀ (j : Nat) (d : D) (r : Res) (n : Nat), s.ds[j]? = some d → d.pc = .done r n → r ≠ .ok → j ∉ s.started) :=
  Hub.ask_returns_own_answer ls s hr

/-- ⊢ a closed destination yields an error, never an empty success: on the current skeleton no deliverer
    finishes with a nil error on a closed hub. -/
theorem ask_closed_is_error (ls : List Lbl) (s : St) (hr : run Skel.ask {} ls = some s) :
    ∀ (j : Nat) (d : D) (n : Nat), s.ds[j]? = some d → d.pc ≠ .done .nilErr n :=
  Hub.ask_closed_is_error ls s hr

/-- ⊢ a response that does not fit the caller's buffer is an error, not a truncated success (mbapp `ask.complete`
    and sshswarm): the completion model returns the full response or `none`. -/
theorem ask_no_truncation (resp : Bytes) (bufLen : Nat) :
    (Ask.complete resp bufLen = some resp ↔ resp.length ≤ bufLen) ∧
    (∀ out, Ask.complete resp bufLen = some out → out = resp) :=
  Ask.ask_no_truncation resp bufLen

/-- ⊢ quicswarm frames: reading a written frame gives back the payload and leaves the rest of the stream. -/
theorem frame_roundtrip (payload rest : Bytes) (maxLen dstLen : Nat) (h : payload.length < 2 ^ 32) :
    Ask.readFrame maxLen dstLen (Ask.writeFrame payload ++ rest) =
      (if payload.length ≤ maxLen ∧ payload.length ≤ dstLen then some (payload, rest) else none) :=
  Ask.frame_roundtrip payload rest maxLen dstLen h

/-- ⊢ a negative handler result is never turned into a successful (possibly empty) answer: it travels as a
    non-zero error code, which `Ask` turns into an error. -/
theorem negative_result_is_error (n : Int) (h : n < 0) : (Ask.extractErrorCode n).1 ≠ 0 := by
  simp [Ask.extractErrorCode, Int.not_le.mpr h]

/-! ## mbapp: how a reply finds the ask it answers (`Model/Asker.lean`: asker.go, `Ask`, `handleAskReply`, `handleAskRequest`)

`Asker.run` applies any sequence of asks, incoming replies (any source, counter, origin time, code and body: the
network may delay, duplicate, reorder and replay, and other nodes may send what they like), context expiries and
cancellations to one `mbapp.Swarm`. -/
open P2PVerif.Mb in
/-- ⊢ an Ask that returns anything but its context's error was completed by a reply that came from the address the
    ask was sent to and carried exactly its counter and its origin time; what it returns is that reply's code and
    body judged against the caller's buffer. -/
theorem ask_completed_by_matching_reply (ops : List AOp) (tag : Nat) (r : AskRes)
    (hr : (tag, r) ∈ (({} : Asker).run ops).results) (hne : r ≠ .ctx) :
    ∃ id cap code body, (tag, id, cap) ∈ (({} : Asker).run ops).issued ∧
      AOp.reply id.addr id.counter id.origin code body ∈ ops ∧ r = completeCap cap code body :=
  Mb.ask_completed_by_matching_reply ops tag r hr hne

open P2PVerif.Mb in
/-- ⊢ the ids one swarm gives its asks are pairwise different (the counter only grows), so a reply matches at most
    one of them, and a reply is consumed: delivering it a second time completes nothing. -/
theorem ask_ids_distinct_and_replies_consumed (ops : List AOp) :
    (((({} : Asker).run ops).issued.map (·.2.1)).Nodup) ∧
    (((({} : Asker).run ops).inflight.map (·.id)).Nodup) ∧
    (∀ src c o code body code' body',
      let a := (({} : Asker).run ops).reply src c o code body
      (a.reply src c o code' body').results = a.results ∧ (a.reply src c o code' body').inflight = a.inflight) :=
  Mb.ask_ids_distinct_and_replies_consumed ops

open P2PVerif.Mb in
/-- ⊢ end to end: if every reply that reaches the asker was produced by the addressed node's handler for the request
    with that counter and origin time (responders are honest and the transport authenticates the source; replies may
    still be late, duplicated or meant for an earlier incarnation of the asker), and an id determines its request
    (`reqOf`: no two requests ever sent to one node share counter and origin time — across restarts this is what
    the origin time is for), then a successful Ask returns exactly the bytes the destination's handler produced for
    the request of that very ask, and they fit the caller's buffer. `h node request` is the handler's return value
    and what it wrote. -/
theorem ask_returns_own_handler_output (ops : List AOp) (reqOf : AskId → Bytes) (h : Nat → Bytes → Int × Bytes)
    (honest : ∀ src c o code body, AOp.reply src c o code body ∈ ops →
        (c, o, code, body) = respond c o (h src (reqOf ⟨c, o, src⟩)).1 (h src (reqOf ⟨c, o, src⟩)).2)
    (tag : Nat) (b : Bytes) (hr : (tag, AskRes.ok b) ∈ (({} : Asker).run ops).results) :
    ∃ id cap, (tag, id, cap) ∈ (({} : Asker).run ops).issued ∧
      0 ≤ (h id.addr (reqOf id)).1 ∧
      b = (h id.addr (reqOf id)).2.take (h id.addr (reqOf id)).1.toNat ∧ b.length ≤ cap :=
  Mb.ask_returns_own_handler_output ops reqOf h honest tag b hr

open P2PVerif.Mb in
/-- ⊢ a handler that signals failure never yields a success: its reply carries a non-zero code and the Ask that it
    completes returns an application error. -/
theorem failed_handler_is_an_error (cap c o : Nat) (n : Int) (out : Bytes) (hn : n < 0) :
    let r := respond c o n out
    r.2.2.1 > 0 ∧ ∀ b, completeCap cap r.2.2.1 r.2.2.2 ≠ .ok b :=
  Mb.failed_handler_is_an_error cap c o n out hn

end P2PVerif.C11
