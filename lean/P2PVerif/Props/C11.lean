import P2PVerif.Model.Hub
import P2PVerif.Model.Ask
import P2PVerif.Lemmas.Hub
import P2PVerif.Lemmas.Ask
/-! # C11 — an Ask returns its own handler's answer or an error, never another's
Property theorems only: the AskHub rendezvous (shared by vswarm, p2pmux, mbapp's server side), the mbapp
request/reply matching, and the length-prefixed frames of quicswarm.
(Bound variables carry explicit types because `s.rs[i]?` alone does not let Lean infer them.) -/
namespace P2PVerif.C11
open P2PVerif P2PVerif.Hub

/-- ⊢ through the ask hub, a successful delivery returns exactly the value the handler produced for *that*
    request (the callback that was started with deliverer j finished with n), for any number of outstanding
    asks and any interleaving; a failed one was never seen by a handler. -/
theorem ask_returns_own_answer (ls : List Lbl) (s : St) (hr : run Skel.ask {} ls = some s) :
    (∀ (j : Nat) (d : D) (n : Nat), s.ds[j]? = some d → d.pc = .done .ok n → (j, n) ∈ s.finished) ∧
    (∀ j n n', (j, n) ∈ s.finished → (j, n') ∈ s.finished → n = n') ∧
    (∀ (j : Nat) (d : D) (r : Res) (n : Nat), s.ds[j]? = some d → d.pc = .done r n → r ≠ .ok → j ∉ s.started) :=
  Hub.ask_returns_own_answer ls s hr

/-- ⊢ a closed destination yields an error, never an empty success: on the current skeleton no deliverer
    finishes with a nil error on a closed hub. -/
theorem ask_closed_is_error (ls : List Lbl) (s : St) (hr : run Skel.ask {} ls = some s) :
    ∀ (j : Nat) (d : D) (n : Nat), s.ds[j]? = some d → d.pc ≠ .done .nilErr n :=
  Hub.ask_closed_is_error ls s hr

/-- ⊢ a response that does not fit the caller's buffer is an error, not a truncated success (mbapp `ask.complete`
    and sshswarm): the completion model returns the full response or `none`. -/
theorem ask_no_truncation (resp : Bytes) (bufLen : Nat) :
    (Ask.complete resp bufLen = some resp ↔ resp.length ≤ bufLen) ∧
    (∀ out, Ask.complete resp bufLen = some out → out = resp) :=
  Ask.ask_no_truncation resp bufLen

/-- ⊢ quicswarm frames: reading a written frame gives back the payload and leaves the rest of the stream. -/
theorem frame_roundtrip (payload rest : Bytes) (maxLen dstLen : Nat) (h : payload.length < 2 ^ 32) :
    Ask.readFrame maxLen dstLen (Ask.writeFrame payload ++ rest) =
      (if payload.length ≤ maxLen ∧ payload.length ≤ dstLen then some (payload, rest) else none) :=
  Ask.frame_roundtrip payload rest maxLen dstLen h

/-- ⊢ a negative handler result is never turned into a successful (possibly empty) answer: it travels as a
    non-zero error code, which `Ask` turns into an error. -/
theorem negative_result_is_error (n : Int) (h : n < 0) : (Ask.extractErrorCode n).1 ≠ 0 := by
  simp [Ask.extractErrorCode, Int.not_le.mpr h]

end P2PVerif.C11
