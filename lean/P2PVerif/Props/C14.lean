import P2PVerif.Model.Hub
import P2PVerif.Lemmas.Hub
/-! # C14 — callbacks own their buffers (the part of C14 a model can carry)
Property theorems only. Data-race freedom in the sense of the Go memory model is NOT claimed here (no executable
model of this code represents happens-before); the check additionally runs a contention harness under `-race`
and reports it as exploration. What is proved: buffer ownership in the queue and the hubs. -/
namespace P2PVerif.C14
open P2PVerif P2PVerif.Hub

/-- ⊢ while a callback runs, the slot (buffer) it was given is in no other place: not on the free list, not in
    the queue, not with another callback — for every sequence of queue operations. -/
theorem callback_exclusive (cap mtu : Nat) (ops : List QOp) (r s : Nat) (m : QMsg) :
    let q := ops.foldl Queue.step (Queue.new cap mtu)
    (r, s, m) ∈ q.inCb → s ∉ q.free ∧ s ∉ q.queue.map (·.1) ∧ (∀ r' m', (r', s, m') ∈ q.inCb → r' = r ∧ m' = m) :=
  Hub.callback_exclusive cap mtu ops r s m

/-- ⊢ a recycled slot never exposes old contents: what a callback sees is exactly the message that was enqueued
    into that slot by the `Deliver` that took it from the free list. -/
theorem no_stale_exposure (q : Queue) (m : QMsg) (vec : Bool) (q1 : Queue) (h : q.deliver m vec = (q1, true))
    (hq : q.queue = []) (r : Nat) :
    ∃ q2, q1.take r = some (q2, m) :=
  Hub.no_stale_exposure q m vec q1 h hq r

/-- ⊢ in the hubs the message is lent for exactly the duration of the callback: the deliverer stays committed
    (its `Deliver` has not returned, so it does not touch the message) for as long as a receiver is in the
    callback with it. -/
theorem hub_message_lent (sk : Skel) (ls : List Lbl) (s : St) (hr : run sk {} ls = some s) (i j : Nat) (r : R)
    (hi : s.rs[i]? = some r) (hcb : r.pc = .inCb j) :
    ∃ d, s.ds[j]? = some d ∧ d.pc = .committed :=
  Hub.hub_message_lent sk ls s hr i j r hi hcb

end P2PVerif.C14
