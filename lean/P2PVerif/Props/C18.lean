import P2PVerif.Model.CacheOps
import P2PVerif.Lemmas.Cache
/-! # C18 — the Kademlia cache is a faithful bounded map that sheds the farthest first
Property theorems only. Every statement is about the model of `p/kademlia/cache.go` in `Model/Cache.lean`,
for every locus, capacity, per-bucket minimum, keys of any length, times and TTLs, and every operation
sequence (induction over the list of operations). -/
namespace P2PVerif.C18
open P2PVerif P2PVerif.Kad

/-- ⊢ count_exact + count_le_max + bucket discipline, in every reachable state. -/
theorem wf_reachable (locus : Bytes) (max minPer : Nat) (ops : List Op) :
    ((Cache.new locus max minPer).run ops).WF :=
  Kad.wf_run _ (Kad.wf_new locus max minPer) ops

/-- ⊢ the reported count is the number of entries held and never exceeds the capacity. -/
theorem count_exact_le_max (locus : Bytes) (max minPer : Nat) (ops : List Op) :
    let c := (Cache.new locus max minPer).run ops
    c.count = c.entries.length ∧ c.count ≤ max := by
  intro c
  have h := wf_reachable locus max minPer ops
  refine ⟨h.count_eq, ?_⟩
  have := h.count_le
  rwa [Kad.run_max] at this

/-- ⊢ refinement to a map, update step: afterwards a lookup returns the stored entry under its key, nothing
    under the reported victim's key, and what it returned before under every other key. -/
theorem get_update (c c' : Cache) (e : Entry) (v : Bytes) (ev : Option Entry) (added : Bool) (h : c.WF)
    (hu : c.update e v = .ok c' ev added) (hmax : c.max ≠ 0) (k : Bytes) :
    c'.get k = if (ev.map (·.key)) = some k then none else if k = e.key then some e else c.get k :=
  Kad.get_update c c' e v ev added h hu hmax k

/-- ⊢ refinement, delete step. -/
theorem get_delete (c : Cache) (key : Bytes) (h : c.WF) (k : Bytes) :
    (c.delete key).2 = c.get key ∧ (c.delete key).1.get k = if k = key then none else c.get k :=
  Kad.get_delete c key h k

/-- ⊢ refinement, expire step; and `expire_exact`: the output is exactly the entries past their time
    (no expired entry is skipped because of the per-bucket minimum-expiry shortcut), the rest stay. -/
theorem expire_exact (c : Cache) (now : Nat) (h : c.WF) :
    ((c.expire now).2).Perm (c.entries.filter (·.isExpired now)) ∧
    (c.expire now).1.entries = c.entries.filter (fun e => !e.isExpired now) ∧
    ∀ k, (c.expire now).1.get k = (c.get k).filter (fun e => !e.isExpired now) :=
  Kad.expire_exact c now h

/-- ⊢ the victim comes from the farthest bucket that holds more than the protected minimum and is one of
    its newest entries; if every bucket is within its minimum the entry just put is the one refused. No kept
    entry that lives in a bucket above its minimum is farther from the locus than the victim. -/
theorem victim_farthest_unprotected (c c' : Cache) (e : Entry) (vk : Bytes) (v : Entry) (added : Bool)
    (h : c.WF) (hu : c.update e vk = .ok c' (some v) added) :
    (∀ x ∈ c'.entries, ∀ b, c'.buckets[bucketIndex c.locus x.key]? = some b → b.entries.length > c.minPer →
        bucketIndex c.locus v.key ≤ bucketIndex c.locus x.key) ∧
    (v = e ∨ ∀ x ∈ c'.entries, bucketIndex c.locus x.key = bucketIndex c.locus v.key → x.created ≤ v.created) :=
  Kad.victim_farthest_unprotected c c' e vk v added h hu

/-- ⊢ an entry disappears only by being deleted, by expiring, or by being the reported victim of a Put. -/
theorem disappears_only_three_ways (c : Cache) (op : Op) (h : c.WF) (x : Entry) (hx : x ∈ c.entries)
    (hgone : ∀ y ∈ (c.apply op).entries, y.key ≠ x.key) :
    (∃ k, op = .delete k ∧ k = x.key) ∨ (∃ now, op = .expire now ∧ x.isExpired now) ∨
    (∃ e vk c' ev added, op = .update e vk ∧ c.update e vk = .ok c' ev added ∧ (ev.map (·.key)) = some x.key) :=
  Kad.disappears_only_three_ways c op h x hx hgone

-- non-vacuity: a reachable non-trivial state (two buckets, an eviction happened)
example : ((Cache.new [0] 1 0).run [.update ⟨[128], [1], 1, 0⟩ [], .update ⟨[64], [2], 2, 0⟩ [128]]).count = 1 := by
  decide

end P2PVerif.C18
