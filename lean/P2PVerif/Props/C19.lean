import P2PVerif.Model.CacheOps
import P2PVerif.Lemmas.Distance
import P2PVerif.Lemmas.ForEach
import P2PVerif.Lemmas.SrcKad
/-! # C19 — nearest-first queries really are nearest-first and complete
Property theorems only. `distanceCmp` is `DistanceCmp` of p/kademlia/distance.go as written (byte loop plus
length rules); `Cache.forEach` is `Cache.ForEach` run to completion. Bytes are `Nat`s; `validBytes` says they
are < 256 (true of everything that comes out of a Go `[]byte`). -/
namespace P2PVerif.C19
open P2PVerif P2PVerif.Kad P2PVerif.Src P2PVerif.Go P2PVerif.SrcKad

/-- ⊢ `DistanceCmp(x,a,b)` agrees with `bytes.Compare(Distance(x,a), Distance(x,b))`, for all lengths. -/
theorem cmp_is_compare_of_xor (x a b : Bytes) : distanceCmp x a b = lexCmp (distance x a) (distance x b) :=
  Kad.cmp_is_compare_of_xor x a b

/-- ⊢ the comparison is a total preorder: reflexive, the two directions are converse, and `≤` is transitive. -/
theorem cmp_total_preorder (x a b c : Bytes) :
    distanceCmp x a a = .eq ∧
    (distanceCmp x a b = .lt ↔ distanceCmp x b a = .gt) ∧
    (distanceCmp x a b = .eq ↔ distanceCmp x b a = .eq) ∧
    (distanceCmp x a b ≠ .gt → distanceCmp x b c ≠ .gt → distanceCmp x a c ≠ .gt) :=
  Kad.cmp_total_preorder x a b c

/-- ⊢ the distance is symmetric. -/
theorem distance_symm (a b : Bytes) : distance a b = distance b a := Kad.distance_symm a b

/-- ⊢ and zero exactly between equal keys (of equal length). -/
theorem distance_zero_iff_eq (a b : Bytes) (h : a.length = b.length) :
    (∀ d ∈ distance a b, d = 0) ↔ a = b := Kad.distance_zero_iff_eq a b h

-- Original statement, FALSE for the model as written (model bytes are arbitrary `Nat`s, not < 256):
--   theorem forEach_perm (c : Cache) (k : Bytes) : (c.forEach k).Perm c.entries
-- Counterexample: c = { locus := [256], minPer := 0, max := 10, count := 1, buckets := [{ entries := [⟨[0],[],1,0⟩] }] },
-- k = [0]: `distance = [256]`, `leadingZeros [256] = 0` but `bitOr1 [256] 0 = false`, so bucket 0 is in none of the
-- three segments of `visitOrder` and `c.forEach [0] = []` while `c.entries` has one element.
-- Repaired by the hypotheses that the locus and the query key are byte strings (as in the theorems below).
/-- ⊢ enumeration visits every entry exactly once … -/
theorem forEach_perm (c : Cache) (k : Bytes) (hl : validBytes c.locus) (hk : validBytes k) :
    (c.forEach k).Perm c.entries := Kad.forEach_perm c k hl hk

/-- ⊢ … in non-decreasing distance from the query key. Entry keys are at least as long as the locus (what the
    DHT's peer cache holds); the query key has any length, shorter or longer than the locus. -/
theorem forEach_sorted (c : Cache) (k : Bytes) (h : c.WF) (hl : validBytes c.locus) (hk : validBytes k)
    (he : ∀ e ∈ c.entries, validBytes e.key ∧ c.locus.length ≤ e.key.length) :
    (c.forEach k).Pairwise (fun a b => distanceCmp k a.key b.key ≠ .gt) :=
  Kad.forEach_sorted c k h hl hk he

/-- ⊢ so the closest-entry query returns a true minimum (and returns something whenever the cache is non-empty). -/
theorem closest_is_min (c : Cache) (k : Bytes) (h : c.WF) (hl : validBytes c.locus) (hk : validBytes k)
    (he : ∀ e ∈ c.entries, validBytes e.key ∧ c.locus.length ≤ e.key.length) :
    (c.entries ≠ [] → (c.closest k).isSome) ∧
    ∀ e, c.closest k = some e → e ∈ c.entries ∧ ∀ x ∈ c.entries, distanceCmp k e.key x.key ≠ .gt :=
  Kad.closest_is_min c k h hl hk he

/-- ⊢ and the closer-than-me query returns all and only the entries nearer to the key than the locus is. -/
theorem forEachCloser_exact (c : Cache) (x : Bytes) (h : c.WF) (hl : validBytes c.locus) (hx : validBytes x)
    (he : ∀ e ∈ c.entries, validBytes e.key ∧ c.locus.length ≤ e.key.length) (e : Entry) :
    e ∈ c.forEachCloser x ↔ e ∈ c.entries ∧ distanceLt x e.key c.locus = true :=
  Kad.forEachCloser_exact c x h hl hx he e

/-- ⊢ prefix enumeration (`ForEachMatching`): for a well-formed request — the prefix holds at least `nbits` bits — it
    does not fault and visits all and only the entries whose key has that prefix, each exactly once. (Before the
    repair c8db1e5 the byte length of the prefix was rounded from the wrong quantity and the call panicked for
    most whole-byte prefixes; the model follows the code, so this theorem was false for it.) -/
theorem forEachMatching_exact (c : Cache) (pfx : Bytes) (nbits : Nat) (hl : validBytes c.locus) (hp : validBytes pfx)
    (hn : nbits ≤ pfx.length * 8) :
    ∃ es, c.forEachMatching pfx nbits = some es ∧
      es.Perm (c.entries.filter (fun e => hasPrefix e.key pfx nbits)) := by
  have hlen : matchLen nbits ≤ pfx.length := by
    unfold matchLen
    by_cases h8 : nbits % 8 > 0
    · simp [h8]; omega
    · simp [h8]; omega
  have hk : validBytes (pfx.take (matchLen nbits)) := fun b hb => hp b (List.mem_of_mem_take hb)
  refine ⟨(c.forEach (pfx.take (matchLen nbits))).filter (fun e => hasPrefix e.key pfx nbits), ?_, ?_⟩
  · unfold Cache.forEachMatching
    have h1 : ¬ matchLen nbits > pfx.length := by omega
    have h2 : ¬ nbits > pfx.length * 8 := by omega
    simp [h1, h2]
  · exact (Kad.forEach_perm c _ hl hk).filter _

-- non-vacuity: the counterexample of the unrepaired code (locus 00, entries 40 and 20, query 80) is well-formed
-- and the repaired order puts 20 first
example : (((Cache.new [0] 10 0).run [.update ⟨[64], [], 1, 0⟩ [], .update ⟨[32], [], 1, 0⟩ []]).forEach [128]).map (·.key)
    = [[32], [64]] := by decide

/-! ### about the definitions regenerated from p/kademlia/distance.go and cache.go (`Gen/Src.lean`) -/

/-- ⊢ (source) `DistanceCmp` never faults and is `bytes.Compare(Distance(x,a), Distance(x,b))` on every input;
    the model's `distanceCmp` used in the theorems above is what the code computes. -/
theorem src_DistanceCmp (x a b : Go.Bytes) :
    kademlia.DistanceCmp x a b = .ok (ordInt (lexCmp (distance (nb x) (nb a)) (distance (nb x) (nb b)))) := by
  rw [DistanceCmp_eq, Kad.cmp_is_compare_of_xor]

/-- ⊢ (source) `DistanceLt`/`DistanceGt` are the strict sides of that comparison -/
theorem src_DistanceLt (x a b : Go.Bytes) :
    kademlia.DistanceLt x a b = .ok (distanceLt (nb x) (nb a) (nb b)) := DistanceLt_eq x a b

theorem src_DistanceGt_converse (x a b : Go.Bytes) :
    kademlia.DistanceGt x a b = kademlia.DistanceLt x b a := by
  rw [DistanceGt_eq, DistanceLt_eq]
  unfold distanceLt
  have := (Kad.cmp_total_preorder (nb x) (nb b) (nb a) (nb a)).2.1
  cases h1 : distanceCmp (nb x) (nb a) (nb b) <;> cases h2 : distanceCmp (nb x) (nb b) (nb a) <;> simp_all

/-- ⊢ (source) `Distance`, `LeadingZeros`, `DistanceLz` and `Cache.bucketIndex` compute the model's functions and
    never fault. -/
theorem src_Distance (a b : Go.Bytes) : (nb <$> kademlia.Distance a b) = .ok (distance (nb a) (nb b)) :=
  Distance_model a b
theorem src_LeadingZeros (x : Go.Bytes) : kademlia.LeadingZeros x = .ok (leadingZeros (nb x) : Int) :=
  LeadingZeros_eq x
theorem src_DistanceLz (a b : Go.Bytes) : kademlia.DistanceLz a b = .ok (distanceLz (nb a) (nb b) : Int) :=
  DistanceLz_eq a b
theorem src_bucketIndex (locus key : Go.Bytes) :
    kademlia.Cache.bucketIndex locus key = .ok (bucketIndex (nb locus) (nb key) : Int) := bucketIndex_eq locus key

/-- ⊢ (source) `HasPrefix` panics exactly when asked for more bits than the prefix has (the case
    `Cache.ForEachMatching` must exclude) and is the model's predicate otherwise. -/
theorem src_HasPrefix (x pfx : Go.Bytes) (nbits : Nat) :
    kademlia.HasPrefix x pfx nbits =
      if nbits > pfx.length * 8 then .error (Go.Fault.panic "nbits longer than prefix")
      else .ok (hasPrefix (nb x) (nb pfx) nbits) := HasPrefix_eq x pfx nbits

/-- every byte string that comes out of Go is a valid byte string of the model -/
theorem src_bytes_valid (x : Go.Bytes) : validBytes (nb x) := nb_lt x

end P2PVerif.C19
