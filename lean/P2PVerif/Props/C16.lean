import P2PVerif.Model.Addr
import P2PVerif.Lemmas.Addr
/-! # C16 — every address a swarm produces survives marshal and parse
Property theorems only, about `Model/Addr.lean`. `net/netip` and `fmt.Sscan` enter through `Env`; the laws
assumed of them (`EnvOK`) are stated below and are checked against the standard library by the harness on
every run (the canonical text of a parsed IP parses to itself and contains no newline or bracket; scanning
the decimal text of a 16-bit number yields it). -/
namespace P2PVerif.C16
open P2PVerif P2PVerif.Addr

/-- ⊢ marshal then parse with the same swarm yields an equal address, at every nesting. `Valid` is what the
    code can produce (any IP the standard library prints, any port, any 32-byte id, any fingerprint over the
    fingerprint alphabet, scheme names that are non-empty, newline-free and do not contain `://` after their
    first character); `Fits g a` says `a` is an address of the swarm stack `g`. -/
theorem parse_marshal (env : Env) (henv : EnvOK env) (g : Gram) (a : Addr.Addr) (hv : Valid env a) (hf : Fits g a) :
    parse env g (marshal a) = some a :=
  Addr.parse_marshal env henv g a hv hf

/-- ⊢ parsing arbitrary text either fails or yields an address of that swarm which is valid and marshals to
    text that parses back to the same address. -/
theorem parse_total_or_canonical (env : Env) (henv : EnvOK env) (g : Gram) (t : Str) (a : Addr.Addr)
    (h : parse env g t = some a) :
    Valid env a ∧ Fits g a ∧ parse env g (marshal a) = some a :=
  Addr.parse_total_or_canonical env henv g t a h

end P2PVerif.C16
