import P2PVerif.Model.Addr
import P2PVerif.Model.AddrSpec
import P2PVerif.Lemmas.Addr
/-! # C16 — every address a swarm produces survives marshal and parse
Property theorems only, about `Model/Addr.lean`. `net/netip` and `fmt.Sscan` enter through `Env`; the laws
assumed of them (`EnvOK`, in `Model/AddrSpec.lean`) are checked against the standard library by the harness on
every run (the canonical text of a parsed IP parses to itself, is non-empty and contains no newline or bracket;
scanning the decimal text of a 16-bit number yields it).

Two corrections were made to the statements as first written; both originals are refuted by machine-checked
counterexamples in `Lemmas/AddrCounterexample.lean`:
* `IPOK` (in `EnvOK` and `Valid`) now also says the canonical IP text is non-empty: sshswarm's regular expression
  requires a non-empty host, so with an `Env` whose canonical text may be empty `parse_marshal` was false.
* `parse_total_or_canonical` now assumes `GramOK g` (the continuation of a scheme table is a scheme table): the
  `Gram` type also contains `mcons name g ssh` and the like, for which `parse` returns a non-multiswarm address. -/
namespace P2PVerif.C16
open P2PVerif P2PVerif.Addr

/-- ⊢ marshal then parse with the same swarm yields an equal address, at every nesting. `Valid` is what the
    code can produce (any IP the standard library prints, any port, any 32-byte id, any fingerprint over the
    fingerprint alphabet, scheme names that are non-empty, newline-free and do not contain `://` after their
    first character); `Fits g a` says `a` is an address of the swarm stack `g`. -/
theorem parse_marshal (env : Env) (henv : EnvOK env) (g : Gram) (a : Addr.Addr) (hv : Valid env a) (hf : Fits g a) :
    parse env g (marshal a) = some a :=
  Addr.parse_marshal env henv g a hv hf

/-- ⊢ parsing arbitrary text with a well-formed swarm stack either fails or yields an address of that swarm
    which is valid and marshals to text that parses back to the same address.

    Original statement (false, see `Counterexample.original_parse_total_or_canonical_false`):
    `theorem parse_total_or_canonical (env : Env) (henv : EnvOK env) (g : Gram) (t : Str) (a : Addr.Addr)
        (h : parse env g t = some a) : Valid env a ∧ Fits g a ∧ parse env g (marshal a) = some a` -/
theorem parse_total_or_canonical (env : Env) (henv : EnvOK env) (g : Gram) (hg : GramOK g) (t : Str)
    (a : Addr.Addr) (h : parse env g t = some a) :
    Valid env a ∧ Fits g a ∧ parse env g (marshal a) = some a :=
  Addr.parse_total_or_canonical env henv g hg t a h

/-! ## non-vacuity: a concrete standard-library stand-in satisfying the laws, and concrete round trips -/

/-- three canonical IP texts (one needing brackets because of ':' and '%'), ports by `parseUint16` -/
def demoEnv : Env :=
  { ipParse := fun t =>
      if t = "1.2.3.4".toList ∨ t = "::1".toList ∨ t = "fe80::1%eth0".toList then some t else none
    scan16 := parseUint16 }

example : EnvOK demoEnv where
  ip_out := by
    intro t ip h
    simp only [demoEnv] at h
    split at h
    · rename_i hc
      simp only [Option.some.injEq] at h; subst h
      rcases hc with rfl | rfl | rfl <;> exact ⟨by decide, by decide, by decide, by decide, by decide⟩
    · simp at h
  scan_nat := parseUint16_natStr
  scan_lt := parseUint16_lt

def demoGram : Gram := .mcons "mem".toList .mem (.mcons "udp".toList (.idAt .udp) .mnil)

/-- `udp://<id>@1.2.3.4:80` -/
example : parse demoEnv demoGram
    (marshal (.scheme "udp".toList (.idAt (List.replicate 32 7) (.udp "1.2.3.4".toList 80)))) =
    some (.scheme "udp".toList (.idAt (List.replicate 32 7) (.udp "1.2.3.4".toList 80))) := by decide

/-- `udp://<id>@[fe80::1%eth0]:65535` (bracketed host) -/
example : parse demoEnv demoGram
    (marshal (.scheme "udp".toList (.idAt (List.replicate 32 255) (.udp "fe80::1%eth0".toList 65535)))) =
    some (.scheme "udp".toList (.idAt (List.replicate 32 255) (.udp "fe80::1%eth0".toList 65535))) := by decide

example : marshal (.udp "::1".toList 9) = "[::1]:9".toList := by decide

end P2PVerif.C16
