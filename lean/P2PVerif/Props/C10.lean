import P2PVerif.Model.Reasm
import P2PVerif.Lemmas.Reasm
/-! # C10 — reassembly never invents or mixes messages
Property theorems only. `Reasm.frun` / `Reasm.mrun` run an arbitrary schedule (any interleaving, duplication and
loss of genuine fragments of any number of messages from any number of sources, clean-up at any moment) against
the reassembly models of s/fragswarm and p/mbapp. The distinct-keys hypotheses are what the senders' counters
provide: a source never has two messages in flight under one (id) resp. (origin time, counter). -/
namespace P2PVerif.C10
open P2PVerif P2PVerif.Reasm

/-- ⊢ fragswarm: every delivered payload is exactly the payload of the message whose fragment triggered the
    delivery — never a mixture, truncation or concatenation — at every inner MTU. -/
theorem frag_delivers_only_originals (innerMTU cfgMTU : Nat) (msgs : List FMsg)
    (hg : ∀ m ∈ msgs, m.genuine innerMTU cfgMTU)
    (hk : msgs.Pairwise (fun a b => (a.src, a.id) ≠ (b.src, b.id)))
    (evs : List FEvent) :
    ∀ d ∈ (frun msgs evs [] []).2, ∃ m, msgs[d.1]? = some m ∧ d.2 = m.payload :=
  Reasm.frag_delivers_only_originals innerMTU cfgMTU msgs hg hk evs

/-- ⊢ fragswarm: a message is delivered only when every one of its fragments has arrived (since the last
    clean-up or delivery of that message): if some fragment index never occurs in the schedule, it is never delivered. -/
theorem frag_incomplete_never_delivered (innerMTU cfgMTU : Nat) (msgs : List FMsg)
    (hg : ∀ m ∈ msgs, m.genuine innerMTU cfgMTU)
    (hk : msgs.Pairwise (fun a b => (a.src, a.id) ≠ (b.src, b.id)))
    (evs : List FEvent) (mi : Nat) (m : FMsg) (hm : msgs[mi]? = some m) (j : Nat) (hj : j < m.frags.length)
    (hmiss : FEvent.recv mi j ∉ evs) :
    ∀ d ∈ (frun msgs evs [] []).2, d.1 ≠ mi :=
  Reasm.frag_incomplete_never_delivered innerMTU cfgMTU msgs hg hk evs mi m hm j hj hmiss

/-- ⊢ fragswarm: and it is complete — delivering each fragment once, in any order, with nothing else in
    between for that message, delivers the payload exactly once. -/
theorem frag_complete_delivers (innerMTU cfgMTU : Nat) (m : FMsg) (hg : m.genuine innerMTU cfgMTU)
    (order : List Nat) (hperm : order.Perm (List.range m.frags.length)) :
    (frun [m] (order.map (FEvent.recv 0)) [] []).2 = [(0, m.payload)] :=
  Reasm.frag_complete_delivers innerMTU cfgMTU m hg order hperm

/-- ⊢ mbapp: every payload handed up is the payload of the message whose fragment completed it, with that
    message's header fields. -/
theorem mbapp_delivers_only_originals (innerMTU cfgMTU : Nat) (msgs : List MMsg)
    (hg : ∀ m ∈ msgs, m.genuine innerMTU cfgMTU)
    (hk : msgs.Pairwise (fun a b => (a.src, a.hdr.originTime, a.hdr.counter) ≠ (b.src, b.hdr.originTime, b.hdr.counter)))
    (evs : List MEvent) :
    ∀ d ∈ (mrun cfgMTU msgs evs [] []).2, ∃ m, msgs[d.1]? = some m ∧ d.2.2 = m.payload ∧
      d.2.1.isAsk = m.hdr.isAsk ∧ d.2.1.isReply = m.hdr.isReply ∧ d.2.1.counter = m.hdr.counter :=
  Reasm.mbapp_delivers_only_originals innerMTU cfgMTU msgs hg hk evs

/-- ⊢ mbapp: a message with a fragment that never arrives is never delivered. -/
theorem mbapp_incomplete_never_delivered (innerMTU cfgMTU : Nat) (msgs : List MMsg)
    (hg : ∀ m ∈ msgs, m.genuine innerMTU cfgMTU)
    (hk : msgs.Pairwise (fun a b => (a.src, a.hdr.originTime, a.hdr.counter) ≠ (b.src, b.hdr.originTime, b.hdr.counter)))
    (evs : List MEvent) (mi : Nat) (m : MMsg) (hm : msgs[mi]? = some m) (j : Nat) (hj : j < m.frags.length)
    (hmiss : MEvent.recv mi j ∉ evs) :
    ∀ d ∈ (mrun cfgMTU msgs evs [] []).2, d.1 ≠ mi :=
  Reasm.mbapp_incomplete_never_delivered innerMTU cfgMTU msgs hg hk evs mi m hm j hj hmiss

/-- ⊢ mbapp: complete delivery in any order. -/
theorem mbapp_complete_delivers (innerMTU cfgMTU : Nat) (m : MMsg) (hg : m.genuine innerMTU cfgMTU)
    (order : List Nat) (hperm : order.Perm (List.range m.frags.length)) :
    ((mrun cfgMTU [m] (order.map (MEvent.recv 0)) [] []).2).map (fun d => (d.1, d.2.2)) = [(0, m.payload)] :=
  Reasm.mbapp_complete_delivers innerMTU cfgMTU m hg order hperm

-- non-vacuity: a genuine three-part message exists and its fragments delivered in reverse order give the payload
example : (Frag.tell 17 1000 7 [1, 2, 3, 4, 5]).map (·.length) = some 3 := by decide +kernel
example :
    let m : FMsg := ⟨0, 7, [1, 2, 3, 4, 5], (Frag.tell 17 1000 7 [1, 2, 3, 4, 5]).getD []⟩
    (frun [m] [.recv 0 2, .recv 0 0, .recv 0 1] [] []).2 = [(0, [1, 2, 3, 4, 5])] := by decide +kernel

-- non-vacuity, mbapp: likewise (inner MTU 26 = 24-byte header + 2-byte parts)
example : (Mbapp.send 26 1000 {} [1, 2, 3, 4, 5]).map (·.length) = some 3 := by decide +kernel
example :
    let m : MMsg := ⟨0, {}, [1, 2, 3, 4, 5], (Mbapp.send 26 1000 {} [1, 2, 3, 4, 5]).getD []⟩
    ((mrun 1000 [m] [.recv 0 2, .recv 0 0, .recv 0 1] [] []).2).map (fun d => (d.1, d.2.2)) = [(0, [1, 2, 3, 4, 5])] := by
  decide +kernel

end P2PVerif.C10
