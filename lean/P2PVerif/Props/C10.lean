import P2PVerif.Lemmas.SrcMbapp
import P2PVerif.Lemmas.SrcHdr
import P2PVerif.Lemmas.SrcAgg
import P2PVerif.Lemmas.SrcHdrSet
import P2PVerif.Model.Reasm
import P2PVerif.Lemmas.Reasm
/-! # C10 — reassembly never invents or mixes messages
Property theorems only. `Reasm.frun` / `Reasm.mrun` run an arbitrary schedule (any interleaving, duplication and
loss of genuine fragments of any number of messages from any number of sources, clean-up at any moment) against
the reassembly models of s/fragswarm and p/mbapp. The distinct-keys hypotheses are what the senders' counters
provide: a source never has two messages in flight under one (id) resp. (origin time, counter). -/
namespace P2PVerif.C10
open P2PVerif P2PVerif.Reasm P2PVerif.Src P2PVerif.Go P2PVerif.SrcKad P2PVerif.SrcFrag P2PVerif.SrcMbapp

/-- ⊢ fragswarm: every delivered payload is exactly the payload of the message whose fragment triggered the
    delivery — never a mixture, truncation or concatenation — at every inner MTU. -/
theorem frag_delivers_only_originals (innerMTU cfgMTU : Nat) (msgs : List FMsg)
    (hg : ∀ m ∈ msgs, m.genuine innerMTU cfgMTU)
    (hk : msgs.Pairwise (fun a b => (a.src, a.id) ≠ (b.src, b.id)))
    (evs : List FEvent) :
    ∀ d ∈ (frun msgs evs [] []).2, ∃ m, msgs[d.1]? = some m ∧ d.2 = m.payload :=
  Reasm.frag_delivers_only_originals innerMTU cfgMTU msgs hg hk evs

/-- ⊢ fragswarm: a message is delivered only when every one of its fragments has arrived (since the last
    clean-up or delivery of that message): if some fragment index never occurs in the schedule, it is never delivered. -/
theorem frag_incomplete_never_delivered (innerMTU cfgMTU : Nat) (msgs : List FMsg)
    (hg : ∀ m ∈ msgs, m.genuine innerMTU cfgMTU)
    (hk : msgs.Pairwise (fun a b => (a.src, a.id) ≠ (b.src, b.id)))
    (evs : List FEvent) (mi : Nat) (m : FMsg) (hm : msgs[mi]? = some m) (j : Nat) (hj : j < m.frags.length)
    (hmiss : FEvent.recv mi j ∉ evs) :
    ∀ d ∈ (frun msgs evs [] []).2, d.1 ≠ mi :=
  Reasm.frag_incomplete_never_delivered innerMTU cfgMTU msgs hg hk evs mi m hm j hj hmiss

/-- ⊢ fragswarm: and it is complete — delivering each fragment once, in any order, with nothing else in
    between for that message, delivers the payload exactly once. -/
theorem frag_complete_delivers (innerMTU cfgMTU : Nat) (m : FMsg) (hg : m.genuine innerMTU cfgMTU)
    (order : List Nat) (hperm : order.Perm (List.range m.frags.length)) :
    (frun [m] (order.map (FEvent.recv 0)) [] []).2 = [(0, m.payload)] :=
  Reasm.frag_complete_delivers innerMTU cfgMTU m hg order hperm

/-- ⊢ mbapp: every payload handed up is the payload of the message whose fragment completed it, with that
    message's header fields. -/
theorem mbapp_delivers_only_originals (innerMTU cfgMTU : Nat) (msgs : List MMsg)
    (hg : ∀ m ∈ msgs, m.genuine innerMTU cfgMTU)
    (hk : msgs.Pairwise (fun a b => (a.src, a.hdr.originTime, a.hdr.counter) ≠ (b.src, b.hdr.originTime, b.hdr.counter)))
    (evs : List MEvent) :
    ∀ d ∈ (mrun cfgMTU msgs evs [] []).2, ∃ m, msgs[d.1]? = some m ∧ d.2.2 = m.payload ∧
      d.2.1.isAsk = m.hdr.isAsk ∧ d.2.1.isReply = m.hdr.isReply ∧ d.2.1.counter = m.hdr.counter :=
  Reasm.mbapp_delivers_only_originals innerMTU cfgMTU msgs hg hk evs

/-- ⊢ mbapp: a message with a fragment that never arrives is never delivered. -/
theorem mbapp_incomplete_never_delivered (innerMTU cfgMTU : Nat) (msgs : List MMsg)
    (hg : ∀ m ∈ msgs, m.genuine innerMTU cfgMTU)
    (hk : msgs.Pairwise (fun a b => (a.src, a.hdr.originTime, a.hdr.counter) ≠ (b.src, b.hdr.originTime, b.hdr.counter)))
    (evs : List MEvent) (mi : Nat) (m : MMsg) (hm : msgs[mi]? = some m) (j : Nat) (hj : j < m.frags.length)
    (hmiss : MEvent.recv mi j ∉ evs) :
    ∀ d ∈ (mrun cfgMTU msgs evs [] []).2, d.1 ≠ mi :=
  Reasm.mbapp_incomplete_never_delivered innerMTU cfgMTU msgs hg hk evs mi m hm j hj hmiss

/-- ⊢ mbapp: complete delivery in any order. -/
theorem mbapp_complete_delivers (innerMTU cfgMTU : Nat) (m : MMsg) (hg : m.genuine innerMTU cfgMTU)
    (order : List Nat) (hperm : order.Perm (List.range m.frags.length)) :
    ((mrun cfgMTU [m] (order.map (MEvent.recv 0)) [] []).2).map (fun d => (d.1, d.2.2)) = [(0, m.payload)] :=
  Reasm.mbapp_complete_delivers innerMTU cfgMTU m hg order hperm

-- non-vacuity: a genuine three-part message exists and its fragments delivered in reverse order give the payload
example : (Frag.tell 17 1000 7 [1, 2, 3, 4, 5]).map (·.length) = some 3 := by decide +kernel
example :
    let m : FMsg := ⟨0, 7, [1, 2, 3, 4, 5], (Frag.tell 17 1000 7 [1, 2, 3, 4, 5]).getD []⟩
    (frun [m] [.recv 0 2, .recv 0 0, .recv 0 1] [] []).2 = [(0, [1, 2, 3, 4, 5])] := by decide +kernel

-- non-vacuity, mbapp: likewise (inner MTU 26 = 24-byte header + 2-byte parts)
example : (Mbapp.send 26 1000 {} [1, 2, 3, 4, 5]).map (·.length) = some 3 := by decide +kernel
example :
    let m : MMsg := ⟨0, {}, [1, 2, 3, 4, 5], (Mbapp.send 26 1000 {} [1, 2, 3, 4, 5]).getD []⟩
    ((mrun 1000 [m] [.recv 0 2, .recv 0 0, .recv 0 1] [] []).2).map (fun d => (d.1, d.2.2)) = [(0, [1, 2, 3, 4, 5])] := by
  decide +kernel

/-! ### about the definitions regenerated from the Go source (`Gen/Src.lean`) -/

/-- ⊢ (source) what fragswarm's `newMessage` frames, its `parseMessage` reads back exactly: every message id, every
    part < total, every payload. -/
theorem src_frag_header_roundtrip (id : UInt32) (part total : UInt8) (data : Go.Bytes) (h : part < total) :
    (fragswarm.newMessage id part total data >>= fun v => fragswarm.parseMessage v.flatten)
      = .ok (id, part, total, data, none) := parse_new id part total data h

/-- ⊢ (source) `parseMessage` IS the model's `Frag.parse` (the function the reassembly theorems above are about), on
    every byte string: same verdict, same fields, same payload. -/
theorem src_parseMessage_is_model (x : Go.Bytes) :
    (match Frag.parse (nb x) with
     | some (id, part, total, d) => ∃ data, fragswarm.parseMessage x
         = .ok (UInt32.ofNat id, UInt8.ofNat part, UInt8.ofNat total, data, none) ∧ nb data = d
     | none => ∃ e, fragswarm.parseMessage x = .ok (0, 0, 0, [], some e)) := by
  rw [parse_eq_parseK, parseMessage_eq]
  cases parseK (nb x) with
  | none => exact ⟨_, rfl⟩
  | some r =>
    obtain ⟨id, part, total, k⟩ := r
    exact ⟨_, rfl, nb_drop x k⟩

/-- the regenerated collector driven by a list of (part index, body) pairs -/
def srcAddParts (c : mbapp.collectorT) : List (Nat × Go.Bytes) → Go.M mbapp.collectorT
  | [] => pure c
  | (k, d) :: ops => do
    let (_, c') ← mbapp.collector.addPart c (k : Int) d
    srcAddParts c' ops

/-- ⊢ (source) mbapp's `collector` refines the model's `Col` over EVERY history of parts (any indices, any bodies,
    duplicates, contradictions): no step faults, the buffer and the bitmap stay those of the model, and `isComplete`
    answers "all parts seen" — so the model-level theorems above speak about the code as it is now. -/
theorem src_collector_refines (pc ts : Nat) (ops : List (Nat × Go.Bytes)) :
    ∃ c, (mbapp.newCollector (pc : Int) (ts : Int) >>= fun c0 => srcAddParts c0 ops) = .ok c ∧
      colRel c (ops.foldl (fun m op => m.addPart op.1 (nb op.2)) (Mbapp.Col.new pc ts)) ∧
      mbapp.collector.isComplete c
        = .ok ((ops.foldl (fun m op => m.addPart op.1 (nb op.2)) (Mbapp.Col.new pc ts)).bits.all id) := by
  obtain ⟨c0, h0, hok0, hrel0⟩ := newCollector_model pc ts
  rw [h0]
  simp only [bind_ok]
  have : ∀ (ops : List (Nat × Go.Bytes)) (c : mbapp.collectorT) (m : Mbapp.Col), colOK c → colRel c m →
      ∃ c', srcAddParts c ops = .ok c' ∧ colOK c' ∧ colRel c' (ops.foldl (fun m op => m.addPart op.1 (nb op.2)) m) := by
    intro ops
    induction ops with
    | nil => intro c m hok hrel; exact ⟨c, rfl, hok, hrel⟩
    | cons op ops ih =>
      intro c m hok hrel
      obtain ⟨k, d⟩ := op
      obtain ⟨e, c1, h1, hok1, hrel1⟩ := addPart_model c m hok hrel k d
      obtain ⟨c', h', hok', hrel'⟩ := ih c1 _ hok1 hrel1
      refine ⟨c', ?_, hok', hrel'⟩
      simp only [srcAddParts, h1, bind_ok]
      exact h'
  obtain ⟨c, hc, hok, hrel⟩ := this ops c0 _ hok0 hrel0
  refine ⟨c, hc, hrel, ?_⟩
  rw [isComplete_eq c hok, hrel.2.2]

/-- ⊢ (source) mbapp's receive path reads its header through `ParseMessage` and the getters of message.go; on every
    datagram of at least 24 bytes they return exactly the fields of the model's `Mbapp.decode` (mode bits, error code,
    origin time, counter, total size, part index, part count) and never fault: the (origin time, counter) key under
    which fragments are collected and the part index/count that place them are the model's. -/
theorem src_mbapp_header_is_decode (pkt : Go.Bytes) (hl : 24 ≤ pkt.length) :
    ∃ hdr body, Mbapp.decode (nb pkt) = some (hdr, body) ∧
      mbapp.ParseMessage pkt = .ok (pkt.take 24, pkt.drop 24, none) ∧ nb (pkt.drop 24) = body ∧
      mbapp.Header.IsAsk (pkt.take 24) = .ok hdr.isAsk ∧
      mbapp.Header.IsReply (pkt.take 24) = .ok hdr.isReply ∧
      mbapp.Header.GetErrorCode (pkt.take 24) = .ok (UInt8.ofNat hdr.errCode) ∧
      mbapp.Header.GetOriginTime (pkt.take 24) = .ok (UInt32.ofNat hdr.originTime) ∧
      mbapp.Header.GetCounter (pkt.take 24) = .ok (UInt32.ofNat hdr.counter) ∧
      mbapp.Header.GetTotalSize (pkt.take 24) = .ok (UInt32.ofNat hdr.totalSize) ∧
      mbapp.Header.GetPartIndex (pkt.take 24) = .ok (UInt16.ofNat hdr.partIndex) ∧
      mbapp.Header.GetPartCount (pkt.take 24) = .ok (UInt16.ofNat hdr.partCount) :=
  SrcHdr.getters_are_decode pkt hl

/-- ⊢ (source) the sender's `SetPartIndex`/`SetPartCount` and the receiver's `GetPartIndex`/`GetPartCount` agree on
    every 24-byte header and every pair of 16-bit values, and writing them disturbs no other field: the part
    coordinates a fragment is filed under are the ones it was sent with. -/
theorem src_mbapp_part_fields_roundtrip (h : Go.Bytes) (idx cnt : UInt16) (hl : h.length = 24) :
    ∃ h1 h2, mbapp.Header.SetPartIndex h idx = .ok h1 ∧ mbapp.Header.SetPartCount h1 cnt = .ok h2 ∧
      h2.length = 24 ∧
      mbapp.Header.GetPartIndex h2 = .ok idx ∧ mbapp.Header.GetPartCount h2 = .ok cnt ∧
      (∀ m, m < 4 ∨ m = 5 → SrcHdr.word h2 m = SrcHdr.word h m) :=
  SrcHdr.part_fields_roundtrip h idx cnt hl

/-- ⊢ (source) fragswarm's `aggregator` (a nil parts table / a nil part is `none`): one fragment through `addPart` is
    one step of the parts table in the model's `Frag.recv` — same refusal of a fragment that contradicts the table's
    part count, same slot written, "complete" exactly when every slot is filled — and `assemble` then returns the
    concatenation the model delivers. No fault for any part, total and table (defect 3 of section 7 was an index out of
    range here). -/
theorem src_aggregator_is_model (st : Option (List (Option Go.Bytes))) (part total : UInt8) (data : Go.Bytes) :
    let mp := match st with
      | none => List.replicate total.toNat none
      | some l => SrcAgg.mparts l
    ∃ b l', fragswarm.aggregator.addPart { parts := st } part total data = .ok (b, { parts := some l' }) ∧
      (if mp.length ≠ total.toNat ∨ part.toNat ≥ mp.length then b = false ∧ SrcAgg.mparts l' = mp
       else SrcAgg.mparts l' = mp.set part.toNat (some (nb data)) ∧
            b = (mp.set part.toNat (some (nb data))).all Option.isSome ∧
            (nb <$> fragswarm.aggregator.assemble { parts := some l' })
              = .ok ((mp.set part.toNat (some (nb data))).flatMap (fun p => p.getD []))) :=
  SrcAgg.addPart_model st part total data

end P2PVerif.C10
