import P2PVerif.Model.Reasm
import P2PVerif.Model.Mux
import P2PVerif.Lemmas.MTU
import P2PVerif.Lemmas.SrcVec
import P2PVerif.Lemmas.SrcMtu
/-! # C09 — MTU is honest: anything up to MTU is sendable intact, anything above is refused
Property theorems only; per layer (fragmenting swarm, message-box swarm, multiplexers, P2PKE framing). The
constants are regenerated from the source into `Gen.Facts` on every run. -/
namespace P2PVerif.C09
open P2PVerif

/-- facts obligations: the overhead constants the size arithmetic relies on -/
theorem facts_ok :
    9 ≤ Gen.Facts.fragOverhead ∧ Gen.Facts.mbappHeaderSize = 24 ∧ Gen.Facts.p2pkeOverhead = 4 + 16 ∧
    Gen.Facts.p2pkeswarmOverhead = Gen.Facts.p2pkeOverhead := by
  refine ⟨by decide, by decide, by decide, by decide⟩

/-- ⊢ fragswarm: a payload no longer than `MTU()` is accepted, every datagram it is split into fits the inner
    swarm's MTU, and the part count fits its 8-bit field (no wrap-around). -/
theorem frag_under_mtu_accepted (innerMTU cfgMTU id : Nat) (payload : Bytes) (hid : id < 2 ^ 32)
    (h : (payload.length : Int) ≤ Frag.mtu innerMTU cfgMTU) (hinner : 9 ≤ innerMTU) :
    ∃ ps, Frag.tell innerMTU cfgMTU id payload = some ps ∧ (∀ p ∈ ps, p.length ≤ innerMTU) ∧ 1 ≤ ps.length ∧ ps.length ≤ 255 :=
  MTU.frag_under_mtu_accepted innerMTU cfgMTU id payload hid h hinner

/-- ⊢ fragswarm: a longer payload is refused with the MTU error. -/
theorem frag_over_mtu_rejected (innerMTU cfgMTU id : Nat) (payload : Bytes)
    (h : (payload.length : Int) > Frag.mtu innerMTU cfgMTU) : Frag.tell innerMTU cfgMTU id payload = none :=
  MTU.frag_over_mtu_rejected innerMTU cfgMTU id payload h

/-- ⊢ mbapp: likewise, with the 16-bit part count. -/
theorem mbapp_under_mtu_accepted (innerMTU cfgMTU : Nat) (h : Mbapp.Hdr) (payload : Bytes)
    (hle : (payload.length : Int) ≤ Mbapp.mtu innerMTU cfgMTU) (hinner : 24 ≤ innerMTU) :
    ∃ ps, Mbapp.send innerMTU cfgMTU h payload = some ps ∧ (∀ p ∈ ps, p.length ≤ innerMTU) ∧ 1 ≤ ps.length ∧ ps.length ≤ 65535 :=
  MTU.mbapp_under_mtu_accepted innerMTU cfgMTU h payload hle hinner

theorem mbapp_over_mtu_rejected (innerMTU cfgMTU : Nat) (h : Mbapp.Hdr) (payload : Bytes)
    (hgt : (payload.length : Int) > Mbapp.mtu innerMTU cfgMTU) : Mbapp.send innerMTU cfgMTU h payload = none :=
  MTU.mbapp_over_mtu_rejected innerMTU cfgMTU h payload hgt

/-- ⊢ multiplexers: for every kind and channel id, a payload is accepted by the inner swarm exactly when it is
    no longer than the muxed swarm's `MTU()`. -/
theorem mux_mtu_exact (k : Mux.Kind) (c : Mux.Chan) (innerMTU : Nat) (x : Bytes) :
    (Mux.tell k c innerMTU x).isSome ↔ (x.length : Int) ≤ Mux.mtu k c innerMTU :=
  MTU.mux_mtu_exact k c innerMTU x

/-- ⊢ regenerated size: the `p2p.VecSize` every layer compares with its MTU, REGENERATED from swarm.go, is the
    number of bytes `p2p.VecBytes` gathers from the same vector — so the size that is checked is the size that
    is sent, for every vector (any number of segments, empty segments included), with no run-time fault. -/
theorem src_VecSize_is_gathered_length (v : List Go.Bytes) :
    Src.p2p.VecSize v = .ok (v.flatten.length : Int) ∧ Src.p2p.VecBytes [] v = .ok v.flatten :=
  ⟨Src.VecSize_eq v, by simpa using Src.VecBytes_eq [] v⟩

example : Src.p2p.VecSize [[1, 2], [], [3]] = .ok 3 := rfl

/-- ⊢ regenerated MTU(): the `MTU` methods of the message-box swarm and of the fragmenting swarm, REGENERATED from
    p/mbapp/swarm.go and s/fragswarm/fragswarm.go (the inner swarm's `MTU()` and the configured MTU are their inputs),
    are the models' `mtu` — the very quantity `…_under_mtu_accepted` and `…_over_mtu_rejected` above are stated with:
    the header sizes and the part-count limits (65535 and 255) in the source are the ones the theorems use. -/
theorem src_MTU_is_model (innerMTU cfgMTU : Nat) :
    Src.mbapp.Swarm.MTU (cfgMTU : Int) (innerMTU : Int) = .ok (Mbapp.mtu innerMTU cfgMTU) ∧
    Src.fragswarm.swarm.MTU (cfgMTU : Int) (innerMTU : Int) = .ok (Frag.mtu innerMTU cfgMTU) :=
  ⟨Src.mbapp_MTU_eq innerMTU cfgMTU, Src.frag_MTU_eq innerMTU cfgMTU⟩

example : Src.mbapp.Swarm.MTU 100000 25 = .ok 65535 ∧ Src.fragswarm.swarm.MTU 1000 16 = .ok 255 := ⟨rfl, rfl⟩

end P2PVerif.C09
