import P2PVerif.Model.Varint
/-! Runtime library for the definitions that `harness/cmd/go2lean` regenerates from /repo's Go source on every
    run (`P2PVerif/Gen/Src.lean`).  Core Lean only.

    The translation is shallow: a Go function becomes a Lean function into `M = Except Fault`; a run-time panic
    (index or slice out of range, integer division by zero, an explicit `panic`, a negative shift count or `make`
    length) is the value `.error _`.  Fixed-width unsigned integers are Lean's `UInt8/16/32/64` (wrap-around is
    theirs), Go's `int` is `Int` (64-bit overflow of `int` is NOT modelled), slices, arrays and strings are `List`s
    with value semantics (the translator refuses functions in which two names could alias memory that is written).
    Loops the translator can bound syntactically become `forRange`/`forEach`; every other loop runs on `fuel`. -/
namespace P2PVerif.Go

inductive Fault
  | index | slice | divzero | shift | makeLen | panic (msg : String) | fuel
deriving DecidableEq, Repr

abbrev M := Except Fault
abbrev Bytes := List UInt8
abbrev Err := Option String

@[simp] theorem bind_ok {α β} (a : α) (f : α → M β) : (Except.ok a >>= f) = f a := rfl
@[simp] theorem bind_error {α β} (e : Fault) (f : α → M β) : ((Except.error e : M α) >>= f) = Except.error e := rfl
@[simp] theorem pure_eq {α} (a : α) : (pure a : M α) = Except.ok a := rfl
@[simp] theorem throw_eq {α} (e : Fault) : (throw e : M α) = Except.error e := rfl
@[simp] theorem map_ok {α β} (f : α → β) (a : α) : (f <$> (Except.ok a : M α)) = Except.ok (f a) := rfl

/-- `true` when the computation ends without a run-time panic -/
def M.noFault {α} (x : M α) : Prop := ∃ a, x = .ok a

/-! ### control -/

/-- outcome of one loop iteration -/
inductive Ctl (σ ρ : Type)
  | next (s : σ) | brk (s : σ) | ret (r : ρ)

/-- outcome of a whole loop: ran to its end (or `break`) with state `s`, or the function returned `r` -/
inductive Out (σ ρ : Type)
  | done (s : σ) | ret (r : ρ)

/-- `n` iterations with the index running upwards from `i` -/
def loopN {σ ρ} : Nat → Int → σ → (Int → σ → M (Ctl σ ρ)) → M (Out σ ρ)
  | 0, _, s, _ => pure (.done s)
  | n + 1, i, s, f => do
    match ← f i s with
    | .next s' => loopN n (i + 1) s' f
    | .brk s' => pure (.done s')
    | .ret r => pure (.ret r)

/-- `for i := lo; i < hi; i++ { body }` where the body assigns neither `i` nor anything `hi` mentions -/
def forRange {σ ρ} (lo hi : Int) (s : σ) (f : Int → σ → M (Ctl σ ρ)) : M (Out σ ρ) :=
  loopN (hi - lo).toNat lo s f

/-- `for i, v := range xs { body }` (the range expression is evaluated once) -/
def forEach {α σ ρ} : List α → Int → σ → (Int → α → σ → M (Ctl σ ρ)) → M (Out σ ρ)
  | [], _, s, _ => pure (.done s)
  | x :: xs, i, s, f => do
    match ← f i x s with
    | .next s' => forEach xs (i + 1) s' f
    | .brk s' => pure (.done s')
    | .ret r => pure (.ret r)

/-- any other `for init; cond; post { body }`: `continue` runs `post`, `break` does not -/
def loop {σ ρ} : Nat → σ → (σ → M Bool) → (σ → M (Ctl σ ρ)) → (σ → M σ) → M (Out σ ρ)
  | 0, _, _, _, _ => throw .fuel
  | n + 1, s, cond, body, post => do
    if ← cond s then
      match ← body s with
      | .next s' => do loop n (← post s') cond body post
      | .brk s' => pure (.done s')
      | .ret r => pure (.ret r)
    else pure (.done s)

/-- iterations allowed to a loop that is not bounded syntactically -/
def fuel : Nat := 2 ^ 64 + 1

/-! ### slices -/

def len {α} (xs : List α) : Int := xs.length

def idx {α} (xs : List α) (i : Int) : M α :=
  if h : 0 ≤ i ∧ i.toNat < xs.length then pure (xs[i.toNat]'h.2) else throw .index

def setIdx {α} (xs : List α) (i : Int) (v : α) : M (List α) :=
  if 0 ≤ i ∧ i.toNat < xs.length then pure (xs.set i.toNat v) else throw .index

/-- `xs[lo:hi]`; the capacity of a slice is taken to be its length -/
def slice {α} (xs : List α) (lo hi : Int) : M (List α) :=
  if 0 ≤ lo ∧ lo ≤ hi ∧ hi ≤ xs.length then pure ((xs.drop lo.toNat).take (hi - lo).toNat) else throw .slice

/-- write `r` back over `xs[lo:lo+len r]` (the region a callee or library routine wrote through) -/
def splice {α} (xs : List α) (lo : Int) (r : List α) : List α :=
  xs.take lo.toNat ++ r ++ xs.drop (lo.toNat + r.length)

def makeList {α} (zero : α) (n : Int) : M (List α) :=
  if 0 ≤ n then pure (List.replicate n.toNat zero) else throw .makeLen

/-- `copy(dst, src)`: the new `dst` and the number of elements copied -/
def copy {α} (dst src : List α) : List α × Int :=
  let n := Nat.min dst.length src.length
  (src.take n ++ dst.drop n, n)

/-! ### maps and sorting -/

/-- a Go map with comparable keys, as an association list without duplicate keys (iteration order is NOT modelled:
    the translator refuses `range` over a map) -/
abbrev Map (κ ν : Type) := List (κ × ν)

/-- `v, ok := m[k]` -/
def mapGet {κ ν} [BEq κ] (m : Map κ ν) (k : κ) (zero : ν) : ν × Bool :=
  match m.lookup k with
  | some v => (v, true)
  | none => (zero, false)

/-- `m[k] = v` -/
def mapSet {κ ν} [BEq κ] (m : Map κ ν) (k : κ) (v : ν) : Map κ ν := (k, v) :: m.filter (fun p => !(p.1 == k))

/-- `delete(m, k)` -/
def mapDel {κ ν} [BEq κ] (m : Map κ ν) (k : κ) : Map κ ν := m.filter (fun p => !(p.1 == k))

/-- insertion of `x` before the first element it is less than -/
def insertBy {α} (less : α → α → M Bool) (x : α) : List α → M (List α)
  | [] => pure [x]
  | y :: ys => do
    if ← less x y then pure (x :: y :: ys)
    else do
      let r ← insertBy less x ys
      pure (y :: r)

/-- `slices.SortFunc(xs, less)`, modelled as the STABLE insertion sort. The library promises only some permutation
    sorted by `less`; where `less` is a strict total order on the elements present the result is unique and this
    is it (the `src` correspondence stream compares on such inputs). -/
def sortFunc {α} (xs : List α) (less : α → α → M Bool) : M (List α) :=
  xs.foldlM (fun acc x => insertBy less x acc) []

/-! ### integers -/

def idiv (a b : Int) : M Int := if b = 0 then throw .divzero else pure (Int.tdiv a b)
def imod (a b : Int) : M Int := if b = 0 then throw .divzero else pure (Int.tmod a b)

/-- a shift count of signed type must not be negative -/
def shiftCount (n : Int) : M Nat := if 0 ≤ n then pure n.toNat else throw .shift

def shl8 (x : UInt8) (n : Nat) : UInt8 := if n < 8 then x <<< n.toUInt8 else 0
def shl16 (x : UInt16) (n : Nat) : UInt16 := if n < 16 then x <<< n.toUInt16 else 0
def shl32 (x : UInt32) (n : Nat) : UInt32 := if n < 32 then x <<< n.toUInt32 else 0
def shl64 (x : UInt64) (n : Nat) : UInt64 := if n < 64 then x <<< n.toUInt64 else 0
def shr8 (x : UInt8) (n : Nat) : UInt8 := if n < 8 then x >>> n.toUInt8 else 0
def shr16 (x : UInt16) (n : Nat) : UInt16 := if n < 16 then x >>> n.toUInt16 else 0
def shr32 (x : UInt32) (n : Nat) : UInt32 := if n < 32 then x >>> n.toUInt32 else 0
def shr64 (x : UInt64) (n : Nat) : UInt64 := if n < 64 then x >>> n.toUInt64 else 0
def shlInt (x : Int) (n : Nat) : Int := x * 2 ^ n
def shrInt (x : Int) (n : Nat) : Int := x / 2 ^ n

/-- conversions `uintN(i)` of an `int`: two's complement truncation -/
def toU8 (i : Int) : UInt8 := UInt8.ofNat (i % 256).toNat
def toU16 (i : Int) : UInt16 := UInt16.ofNat (i % 65536).toNat
def toU32 (i : Int) : UInt32 := UInt32.ofNat (i % 4294967296).toNat
def toU64 (i : Int) : UInt64 := UInt64.ofNat (i % 18446744073709551616).toNat
/-- `int(u)` of a `uint64`/`uint`: values from 2^63 upwards come out negative -/
def intOfU64 (u : UInt64) : Int :=
  if u.toNat < 9223372036854775808 then (u.toNat : Int) else (u.toNat : Int) - 18446744073709551616

/-- `bits.LeadingZeros8` -/
def leadingZeros8 (b : UInt8) : Int :=
  if b ≥ 128 then 0 else if b ≥ 64 then 1 else if b ≥ 32 then 2 else if b ≥ 16 then 3
  else if b ≥ 8 then 4 else if b ≥ 4 then 5 else if b ≥ 2 then 6 else if b ≥ 1 then 7 else 8

/-! ### encoding/binary

The big-endian accessors are written arithmetically; `Uvarint`/`PutUvarint` are the hand-written model
`Model/Varint.lean`, which the `mux` correspondence stream compares with the real encoding/binary on every run. -/

def beU16 (b : Bytes) : M UInt16 :=
  match b with
  | b0 :: b1 :: _ => pure (UInt16.ofNat (b0.toNat * 256 + b1.toNat))
  | _ => throw .index

def beU32 (b : Bytes) : M UInt32 :=
  match b with
  | b0 :: b1 :: b2 :: b3 :: _ =>
    pure (UInt32.ofNat (((b0.toNat * 256 + b1.toNat) * 256 + b2.toNat) * 256 + b3.toNat))
  | _ => throw .index

def beU64 (b : Bytes) : M UInt64 :=
  match b with
  | b0 :: b1 :: b2 :: b3 :: b4 :: b5 :: b6 :: b7 :: _ =>
    pure (UInt64.ofNat (((((((b0.toNat * 256 + b1.toNat) * 256 + b2.toNat) * 256 + b3.toNat) * 256 + b4.toNat) * 256
      + b5.toNat) * 256 + b6.toNat) * 256 + b7.toNat))
  | _ => throw .index

def byteOf (n : Nat) : UInt8 := UInt8.ofNat (n % 256)

/-- `binary.BigEndian.PutUint16(b, v)`: the new contents of `b` -/
def bePutU16 (b : Bytes) (v : UInt16) : M Bytes :=
  if b.length < 2 then throw .index else pure (byteOf (v.toNat / 256) :: byteOf v.toNat :: b.drop 2)

def bePutU32 (b : Bytes) (v : UInt32) : M Bytes :=
  if b.length < 4 then throw .index
  else pure (byteOf (v.toNat / 16777216) :: byteOf (v.toNat / 65536) :: byteOf (v.toNat / 256) :: byteOf v.toNat :: b.drop 4)

def bePutU64 (b : Bytes) (v : UInt64) : M Bytes :=
  if b.length < 8 then throw .index
  else pure (byteOf (v.toNat / 72057594037927936) :: byteOf (v.toNat / 281474976710656) :: byteOf (v.toNat / 1099511627776) ::
             byteOf (v.toNat / 4294967296) :: byteOf (v.toNat / 16777216) :: byteOf (v.toNat / 65536) ::
             byteOf (v.toNat / 256) :: byteOf v.toNat :: b.drop 8)

def maxVarintLen64 : Int := 10

/-- `binary.Uvarint`: value and the number of bytes read (0: buffer too small, negative: overflow) -/
def uvarint (b : Bytes) : UInt64 × Int :=
  match Varint.get (b.map UInt8.toNat) with
  | .ok v n => (UInt64.ofNat v, (n : Int))
  | .short => (0, 0)
  | .overflow i => (0, -((i : Int) + 1))

/-- the bytes `binary.PutUvarint` writes -/
def uvarintBytes (x : UInt64) : Bytes := (Varint.put x.toNat).map byteOf

/-- `binary.PutUvarint(buf, x)`: the new contents of `buf` and the number of bytes written; index fault when
    `buf` is too short -/
def putUvarint (buf : Bytes) (x : UInt64) : M (Bytes × Int) :=
  let bs := uvarintBytes x
  if buf.length < bs.length then throw .index else pure (bs ++ buf.drop bs.length, bs.length)

end P2PVerif.Go
