import P2PVerif.Driver.Core
import P2PVerif.Model.Frag
import P2PVerif.Model.Mbapp
import P2PVerif.Model.Ask
import P2PVerif.Model.Distance
namespace P2PVerif.Driver
open P2PVerif

structure FragSt where
  inner : Nat := 0
  cfg : Nat := 0
  ids : List (Nat × Nat) := []          -- fragswarm: next message id per sender
  rst : Frag.RState := []
  counters : List (Nat × Nat) := []     -- mbapp: packets counter per sender
  mst : Mbapp.RState := []

def bytesLe (a b : Bytes) : Bool := Kad.lexCmp a b != .gt
def showPkts (ps : List Bytes) : String := "pkts " ++ ",".intercalate ((ps.mergeSort bytesLe).map toHex)

def fragStep (st : FragSt) (ops : List String) (impl : String) : FragSt × String :=
  match ops with
  | ["frag-new", inner, cfg] =>
    let st : FragSt := { inner := natArg inner, cfg := natArg cfg }
    (st, s!"mtu={Frag.mtu st.inner st.cfg}")
  | ["frag-tell", src, payload] =>
    let src := natArg src
    let id := (st.ids.lookup src).getD 0
    match Frag.tell st.inner st.cfg id (hexArg payload) with
    | none => (st, "err-mtu")
    | some ps => ({ st with ids := (src, (id + 1) % 2 ^ 32) :: st.ids.filter (·.1 != src) }, showPkts ps)
  | ["frag-tellfail", src, payload, k] =>
    -- the inner transport refuses fragment `k`: the message id is used up all the same
    let src := natArg src
    let id := (st.ids.lookup src).getD 0
    match Frag.tell st.inner st.cfg id (hexArg payload) with
    | none => (st, "err-mtu")
    | some ps =>
      let st' := { st with ids := (src, (id + 1) % 2 ^ 32) :: st.ids.filter (·.1 != src) }
      if natArg k < ps.length then (st', ("err " ++ showPkts (ps.eraseIdx (natArg k))).trimRight) else (st', showPkts ps)
  | ["frag-recv", src, pkt] =>
    let (rst, out) := Frag.recv st.rst (natArg src) (hexArg pkt)
    ({ st with rst }, match out with | some p => "deliver " ++ toHex p | none => "none")
  | ["frag-naggs"] => (st, toString st.rst.length)
  | ["mb-new", inner, cfg] =>
    let st : FragSt := { inner := natArg inner, cfg := natArg cfg }
    (st, s!"mtu={Mbapp.mtu st.inner st.cfg}")
  | ["mb-tell", src, payload] =>
    let src := natArg src
    let payload := hexArg payload
    if (payload.length : Int) > Mbapp.mtu st.inner st.cfg then (st, "err-mtu") else
    let ctr := (st.counters.lookup src).getD 0 + 1
    let st := { st with counters := (src, ctr % 2 ^ 32) :: st.counters.filter (·.1 != src) }
    -- origin time and timeout are wall-clock values: taken from the implementation's first packet
    let first : Bytes := match (impl.drop 5).toString.splitOn "," with
      | p :: _ => hexArg p
      | [] => []
    let (ot, to) := match Mbapp.decode first with
      | some (h, _) => (h.originTime, h.timeout)
      | none => (0, 0)
    match Mbapp.send st.inner st.cfg { originTime := ot, counter := ctr % 2 ^ 32, timeout := to } payload with
    | none => (st, "err-mtu")
    | some ps => (st, showPkts ps)
  | ["mb-recv", src, pkt] =>
    let (mst, out) := Mbapp.recv st.cfg st.mst (natArg src) (hexArg pkt)
    let st := { st with mst }
    match out with
    | none => (st, "none")
    | some (h, body) =>
      -- ask traffic needs a server and a live deadline; only its not crashing is compared here
      if h.isAsk then (st, if impl == "fault" then "no-fault" else impl)
      else (st, "tell " ++ toHex body)
  | ["mb-ncols"] => (st, toString st.mst.length)
  | ["mb-errcode", n] =>
    let v : Int := if n.startsWith "-" then -((n.drop 1).toString.toNat?.getD 0 : Int) else (n.toNat?.getD 0 : Int)
    let (c, l) := Ask.extractErrorCode v
    (st, s!"{c} {l}")
  | _ => (st, "bad-op")

def fragStream : Stream := { σ := FragSt, init := {}, step := fragStep }

/-! `fragt`: the same two layers under the fake clock, so that their clean-up loops (a ticker every minute; fragswarm
    drops aggregators older than ten seconds, mbapp — whose ttl is never set — every collector that is not brand new)
    run at known times. The models allow clean-up of any partial message at any time (`Frag.cleanup`, `RState.erase`);
    this driver applies exactly the ones the clock makes due and compares the table sizes. -/
structure FragTSt where
  base : FragSt := {}
  now : Nat := 0
  t0 : Nat := 0                                   -- creation time of the receiving swarm: the ticker's phase
  fborn : List ((Nat × Nat) × Nat) := []          -- creation time of each aggregator
  mborn : List ((Nat × Nat × Nat) × Nat) := []    -- … of each collector

def fragtStep (st : FragTSt) (ops : List String) (impl : String) : FragTSt × String :=
  match ops with
  | ["frag-tick", d] | ["mb-tick", d] =>
    let stop := st.now + natArg d
    -- ticker fire times in (now, stop]
    let fires := (List.range (stop / 60000 + 2)).filterMap (fun k =>
      let tau := st.t0 + 60000 * k
      if k > 0 ∧ st.now < tau ∧ tau ≤ stop then some tau else none)
    let isFrag := ops.head? == some "frag-tick"
    let st := fires.foldl (fun (st : FragTSt) tau =>
      if isFrag then
        let dead := st.fborn.filter (fun kb => kb.2 + 10000 < tau)
        { st with base := { st.base with rst := dead.foldl (fun r kb => Frag.cleanup r kb.1) st.base.rst },
                  fborn := st.fborn.filter (fun kb => !(kb.2 + 10000 < tau)) }
      else
        let dead := st.mborn.filter (fun kb => kb.2 < tau)
        { st with base := { st.base with mst := dead.foldl (fun r kb => r.erase kb.1) st.base.mst },
                  mborn := st.mborn.filter (fun kb => !(kb.2 < tau)) }) st
    let st := { st with now := stop }
    (st, s!"now={stop} n={if isFrag then st.base.rst.length else st.base.mst.length}")
  | _ =>
    let (b, out) := fragStep st.base ops impl
    let isNew := match ops with | ["frag-new", _, _] | ["mb-new", _, _] => true | _ => false
    -- aggregators / collectors that exist now and did not before were created at this instant
    let fborn := (st.fborn.filter (fun kb => b.rst.any (·.1 == kb.1))) ++
      ((b.rst.filter (fun e => !(st.base.rst.any (·.1 == e.1)))).map (fun e => (e.1, st.now)))
    let mborn := (st.mborn.filter (fun kb => b.mst.any (·.1 == kb.1))) ++
      ((b.mst.filter (fun e => !(st.base.mst.any (·.1 == e.1)))).map (fun e => (e.1, st.now)))
    -- (the harness lets mbapp's first clean-up pass finish: 3 ms)
    let settle := match ops with | ["mb-new", _, _] => 3 | _ => 0
    if isNew then ({ base := b, now := st.now + settle, t0 := st.now }, out)
    else ({ st with base := b, fborn, mborn }, out)

def fragtStream : Stream := { σ := FragTSt, init := {}, step := fragtStep }

end P2PVerif.Driver
