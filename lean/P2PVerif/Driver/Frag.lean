import P2PVerif.Driver.Core
import P2PVerif.Model.Frag
import P2PVerif.Model.Mbapp
import P2PVerif.Model.Ask
import P2PVerif.Model.Distance
namespace P2PVerif.Driver
open P2PVerif

structure FragSt where
  inner : Nat := 0
  cfg : Nat := 0
  ids : List (Nat × Nat) := []          -- fragswarm: next message id per sender
  rst : Frag.RState := []
  counters : List (Nat × Nat) := []     -- mbapp: packets counter per sender
  mst : Mbapp.RState := []

def bytesLe (a b : Bytes) : Bool := Kad.lexCmp a b != .gt
def showPkts (ps : List Bytes) : String := "pkts " ++ ",".intercalate ((ps.mergeSort bytesLe).map toHex)

def fragStep (st : FragSt) (ops : List String) (impl : String) : FragSt × String :=
  match ops with
  | ["frag-new", inner, cfg] =>
    let st : FragSt := { inner := natArg inner, cfg := natArg cfg }
    (st, s!"mtu={Frag.mtu st.inner st.cfg}")
  | ["frag-tell", src, payload] =>
    let src := natArg src
    let id := (st.ids.lookup src).getD 0
    match Frag.tell st.inner st.cfg id (hexArg payload) with
    | none => (st, "err-mtu")
    | some ps => ({ st with ids := (src, (id + 1) % 2 ^ 32) :: st.ids.filter (·.1 != src) }, showPkts ps)
  | ["frag-recv", src, pkt] =>
    let (rst, out) := Frag.recv st.rst (natArg src) (hexArg pkt)
    ({ st with rst }, match out with | some p => "deliver " ++ toHex p | none => "none")
  | ["frag-naggs"] => (st, toString st.rst.length)
  | ["mb-new", inner, cfg] =>
    let st : FragSt := { inner := natArg inner, cfg := natArg cfg }
    (st, s!"mtu={Mbapp.mtu st.inner st.cfg}")
  | ["mb-tell", src, payload] =>
    let src := natArg src
    let payload := hexArg payload
    if (payload.length : Int) > Mbapp.mtu st.inner st.cfg then (st, "err-mtu") else
    let ctr := (st.counters.lookup src).getD 0 + 1
    let st := { st with counters := (src, ctr % 2 ^ 32) :: st.counters.filter (·.1 != src) }
    -- origin time and timeout are wall-clock values: taken from the implementation's first packet
    let first : Bytes := match (impl.drop 5).toString.splitOn "," with
      | p :: _ => hexArg p
      | [] => []
    let (ot, to) := match Mbapp.decode first with
      | some (h, _) => (h.originTime, h.timeout)
      | none => (0, 0)
    match Mbapp.send st.inner st.cfg { originTime := ot, counter := ctr % 2 ^ 32, timeout := to } payload with
    | none => (st, "err-mtu")
    | some ps => (st, showPkts ps)
  | ["mb-recv", src, pkt] =>
    let (mst, out) := Mbapp.recv st.cfg st.mst (natArg src) (hexArg pkt)
    let st := { st with mst }
    match out with
    | none => (st, "none")
    | some (h, body) =>
      -- ask traffic needs a server and a live deadline; only its not crashing is compared here
      if h.isAsk then (st, if impl == "fault" then "no-fault" else impl)
      else (st, "tell " ++ toHex body)
  | ["mb-ncols"] => (st, toString st.mst.length)
  | ["mb-errcode", n] =>
    let v : Int := if n.startsWith "-" then -((n.drop 1).toString.toNat?.getD 0 : Int) else (n.toNat?.getD 0 : Int)
    let (c, l) := Ask.extractErrorCode v
    (st, s!"{c} {l}")
  | _ => (st, "bad-op")

def fragStream : Stream := { σ := FragSt, init := {}, step := fragStep }

end P2PVerif.Driver
