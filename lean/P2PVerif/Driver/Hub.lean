import P2PVerif.Driver.Core
import P2PVerif.Model.Hub
namespace P2PVerif.Driver
open P2PVerif P2PVerif.Hub

structure HubSt where
  sk : Skel := Skel.tell
  s : St := {}
  q : Queue := Queue.new 1 1
  qwait : List Nat := []        -- receivers blocked on an empty queue, oldest first

def resStr : Res → String | .ok => "ok" | .ctxErr => "ctx" | .closedErr => "closed" | .nilErr => "nil"

def rStr (r : R) : String :=
  match r.pc with
  | .start | .sel1 | .sel2 => "blocked"
  | .inCb d => s!"cb{d}"
  | .done x => resStr x

def dStr (k : Kind) (d : D) : String :=
  match d.pc with
  | .sel | .committed => "blocked"
  | .done .ok n => s!"ok{if k == .ask then n else 0}"
  | .done x _ => resStr x

def obsStr (k : Kind) (s : St) : String :=
  let rs := s.rs.zipIdx.map (fun (r, i) => s!"R{i}:{rStr r}")
  let ds := s.ds.zipIdx.map (fun (d, i) => s!"D{i}:{dStr k d}")
  if rs.isEmpty && ds.isEmpty then "-" else " ".intercalate (rs ++ ds)

/-- what the implementation reports for a participant, e.g. `R0:cb1` -/
def implOf (impl : String) (name : String) : String :=
  match (words impl).find? (fun w => w.startsWith (name ++ ":")) with
  | some w => (w.drop (name.length + 1)).toString
  | none => ""

def tryStep (sk : Skel) (s : St) (l : Lbl) : Option St := step sk s l

/-- run the participants' own transitions to quiescence. Forced moves (closed / cancelled wake-ups, rendezvous
    with a single candidate, the default branch) are taken by the model itself; where the model has a real
    choice (several parked receivers for one deliverer, closed vs. cancelled vs. rendezvous all ready) it follows
    the implementation's report and checks the move is enabled. -/
def settle (sk : Skel) (impl : String) : Nat → St → St
  | 0, s => s
  | fuel + 1, s =>
    let nR := s.rs.length
    let nD := s.ds.length
    let cands : List Lbl :=
      (List.range nR).flatMap (fun i =>
        let want := implOf impl s!"R{i}"
        [Lbl.rCheck i] ++
        (List.range nD).filterMap (fun j => if want == s!"cb{j}" then some (Lbl.rendezvous i j) else none) ++
        (if want == "ctx" then [Lbl.rSel2Ctx i] else []) ++
        (if want == "closed" || want == "nil" then [Lbl.rSel1Closed i, Lbl.rSel2Closed i] else []) ++
        -- forced even if the implementation disagrees
        [Lbl.rSel1Closed i, Lbl.rSel2Closed i, Lbl.rSel2Ctx i] ++
        (List.range nD).map (fun j => Lbl.rendezvous i j) ++
        [Lbl.rSel1Default i]) ++
      (List.range nD).flatMap (fun j =>
        let want := implOf impl s!"D{j}"
        (if want == "ctx" then [Lbl.dCtx j] else []) ++
        (if want == "closed" || want == "nil" then [Lbl.dClosed j] else []) ++
        [Lbl.dDone j, Lbl.dClosed j, Lbl.dCtx j])
    match cands.findSome? (fun l => tryStep sk s l) with
    | some s' => settle sk impl fuel s'
    | none => s

def hubApply (st : HubSt) (l : Lbl) (impl : String) : HubSt × String :=
  match step st.sk st.s l with
  | none => (st, "not-enabled")
  | some s' =>
    let s'' := settle st.sk impl 200 s'
    ({ st with s := s'' }, obsStr st.sk.kind s'')

def qObs (st : HubSt) : String :=
  s!"len={st.q.queue.length} free={st.q.free.length} cb={st.q.inCb.length} wait={st.qwait.length}"

def hubStep (st : HubSt) (ops : List String) (impl : String) : HubSt × String :=
  match ops with
  | ["hub-new", k] => ({ sk := if k == "ask" then Skel.ask else Skel.tell }, "ok")
  | ["recv"] => hubApply st .spawnR impl
  | ["deliver"] => hubApply st .spawnD impl
  | ["cancel-r", i] => hubApply st (.cancelR (natArg i)) impl
  | ["cancel-d", j] => hubApply st (.cancelD (natArg j)) impl
  | ["close"] => hubApply st .close impl
  | ["release", i, n] => hubApply st (.cbReturn (natArg i) (natArg n)) impl
  | ["q-new", cap, mtu] => ({ st with q := Queue.new (natArg cap) (natArg mtu), qwait := [] }, "ok")
  | ["q-deliver", src, len, vec] =>
    let m : QMsg := { src := natArg src, dst := 0, payload := List.replicate (natArg len) (natArg src % 256) }
    let (q, ok) := st.q.deliver m (vec != "1")
    -- a receiver parked on the empty queue takes it at once
    let (q, wait, got) := match ok, st.qwait with
      | true, r :: rest => (match q.take r with | some (q', m') => (q', rest, s!" got={r}:{m'.src}:{m'.payload.length}") | none => (q, st.qwait, ""))
      | _, _ => (q, st.qwait, "")
    let st := { st with q, qwait := wait }
    (st, s!"{if ok then 1 else 0}{got} {qObs st}")
  | ["q-recv", r] =>
    if st.q.closed then (st, s!"closed {qObs st}") else
    match st.q.take (natArg r) with
    | some (q, m) => let st := { st with q }; (st, s!"got={natArg r}:{m.src}:{m.payload.length} {qObs st}")
    | none => let st := { st with qwait := st.qwait ++ [natArg r] }; (st, s!"blocked {qObs st}")
  | ["q-late-deliver", src, len, vec] =>
    let m : QMsg := { src := natArg src, dst := 0, payload := List.replicate (natArg len) 0 }
    let (q, ok) := st.q.deliver m (vec != "1")
    ({ st with q }, s!"{ok} len={q.queue.length}")
  | ["q-late-recv", r] =>
    if st.q.closed then (st, s!"closed len={st.q.queue.length}") else
    match st.q.take (natArg r) with
    | some (q, m) => ({ st with q }, s!"nil got={m.src}:{m.payload.length} len={q.queue.length}")
    | none => (st, "blocks")
  | ["q-recv-done"] =>
    -- the select may take the context's case or the queue's: follow the implementation, but a message is never lost
    if impl.startsWith "nil " then
      match st.q.take 999999 with
      | some (q, m) =>
        let st := { st with q := q.cbReturn 999999 }
        (st, s!"nil got={m.src}:{m.payload.length} {qObs st}")
      | none => (st, s!"ctx {qObs st}")
    else (st, s!"ctx {qObs st}")
  | ["q-cancel", r] => let st := { st with qwait := st.qwait.filter (· != natArg r), q := st.q.step (.cancel (natArg r)) }; (st, s!"ctx {qObs st}")
  | ["q-release", r] => let st := { st with q := st.q.cbReturn (natArg r) }; (st, s!"ok {qObs st}")
  | ["q-purge"] => let (q, n) := st.q.purge; let st := { st with q }; (st, s!"{n} {qObs st}")
  | ["q-close"] =>
    let st := { st with q := st.q.step .close }
    let woken := if st.q.closed then st.qwait.length else 0
    let st := if st.q.closed then { st with qwait := [] } else st
    (st, s!"closed={if st.q.closed then 1 else 0} woken={woken} {qObs st}")
  | _ => (st, "bad-op")

def hubStream : Stream := { σ := HubSt, init := {}, step := hubStep }

end P2PVerif.Driver
