import P2PVerif.Driver.Core
import P2PVerif.Model.Mux
namespace P2PVerif.Driver
open P2PVerif P2PVerif.Mux

def parseKind : String → Option Kind
  | "str" => some .str | "varint" => some .varint | "u16" => some .u16 | "u32" => some .u32 | "u64" => some .u64
  | _ => none

def parseChan (k : Kind) (s : String) : Option Chan :=
  match k with
  | .str => (parseHex s).map .s
  | _ => s.toNat?.map .n

def showChan : Chan → String
  | .s c => toHex c
  | .n c => toString c

def muxStep (_ : Unit) (ops : List String) (_impl : String) : Unit × String :=
  match ops with
  | ["mux", k, c, p] =>
    match parseKind k, parseHex p with
    | some k, some p =>
      match parseChan k c with
      | some c => ((), toHex (mux k c p))
      | none => ((), "bad-op")
    | _, _ => ((), "bad-op")
  | ["demux", k, f] =>
    match parseKind k, parseHex f with
    | some k, some f =>
      match demux k f with
      | .ok c body => ((), s!"ok {showChan c} {toHex body}")
      | .err => ((), "err")
    | _, _ => ((), "bad-op")
  | ["mtu", k, c, inner] =>
    match parseKind k, inner.toNat? with
    | some k, some inner =>
      match parseChan k c with
      | some c => ((), toString (mtu k c inner))
      | none => ((), "bad-op")
    | _, _ => ((), "bad-op")
  | "dispatch" :: k :: inner :: c :: p :: opened =>
    match parseKind k, parseHex p, inner.toNat? with
    | some k, some p, some inner =>
      match parseChan k c, opened.mapM (parseChan k) with
      | some c, some opened =>
        match tell k c inner p with
        | none => ((), "tell-err")
        | some frame =>
          match dispatch k opened frame with
          | some (c', body) => ((), s!"got {showChan c'} {toHex body}")
          | none => ((), "none")
      | _, _ => ((), "bad-op")
    | _, _, _ => ((), "bad-op")
  | _ => ((), "bad-op")

def muxStream : Stream := { σ := Unit, init := (), step := muxStep }

end P2PVerif.Driver
