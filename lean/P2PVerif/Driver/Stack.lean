import P2PVerif.Driver.Core
import P2PVerif.Driver.Mux
import P2PVerif.Driver.Frag
import P2PVerif.Model.Stack
namespace P2PVerif.Driver
open P2PVerif P2PVerif.Stack

structure StackSt where
  s : Stack.Stack := []
  base : Nat := 0
  cs : Ctrs := []
  pending : List Bytes := []      -- datagrams of the last accepted tell, in emission order

/-- layers, outermost first, comma separated: `f<cfg>` | `m<kind>:<chan>` -/
def parseStackDesc (d : String) : Option Stack.Stack :=
  if d == "-" then some [] else
  (d.splitOn ",").mapM fun tok =>
    if tok.startsWith "f" then some (Layer.frag (natArg (tok.drop 1).toString))
    else if tok.startsWith "m" then
      match (tok.drop 1).toString.splitOn ":" with
      | [k, c] =>
        match parseKind k with
        | some k => (parseChan k c).map (Layer.mux k)
        | none => none
      | _ => none
    else none

def stackStep (st : StackSt) (ops : List String) (_impl : String) : StackSt × String :=
  match ops with
  | ["stack-new", desc, base] =>
    match parseStackDesc desc with
    | some s => ({ s, base := natArg base, cs := s.map (fun _ => 0) }, s!"mtu={mtu s (natArg base)}")
    | none => (st, "bad-op")
  | ["stack-tell", payload] =>
    match encode st.s st.base st.cs (hexArg payload) with
    | none => (st, "err-mtu")
    | some (ds, cs') => ({ st with cs := cs', pending := ds }, showPkts ds)
  | ["stack-deliver"] =>
    let (_, outs) := recvAll st.s (init st.s) 1 st.pending
    ({ st with pending := [] }, if outs.isEmpty then "none" else ",".intercalate (outs.map toHex))
  | _ => (st, "bad-op")

def stackStream : Stream := { σ := StackSt, init := {}, step := stackStep }

end P2PVerif.Driver
