import P2PVerif.Driver.Core
import P2PVerif.Model.Asker
/-! `ask` stream: mbapp's ask/reply matching (Model/Asker.lean). Responders are at addresses 1 and 2, the asker at 0;
    the handlers of the harness answer `[0xA0 + r] ++ request`, fail with code `last byte + 1` for requests that
    start with 0xFA, and append forty bytes for requests that start with 0xB1. -/
namespace P2PVerif.Driver
open P2PVerif P2PVerif.Mb

structure PktInfo where
  src : Nat
  dst : Nat
  isReply : Bool
  counter : Nat
  origin : Nat
  code : Nat
  body : Bytes
  /-- requests: the time at which the responder's context for it ends (origin time + the timeout it carries) -/
  deadline : Nat := 0

structure AskSt where
  cur : Asker := {}
  /-- asks of earlier incarnations: nothing reaches them any more, they end with their contexts -/
  orphans : List Pend := []
  done : List (Nat × AskRes) := []      -- every result, all incarnations
  tags : List Nat := []                 -- every ask ever started
  pkts : Array PktInfo := #[]
  now : Nat := 0
  /-- the 32-bit phase of the clock at time 0 (read from the implementation: the clock's epoch is not ours) -/
  org0 : Nat := 0

def fieldOfW (impl name : String) : String :=
  match (words impl).find? (·.startsWith (name ++ "=")) with
  | some w => (w.drop (name.length + 1)).toString
  | none => ""

def showRes : AskRes → String
  | .ok b => "ok:" ++ toHex b
  | .appErr c b => s!"app:{c}:{toHex b}"
  | .short => "short"
  | .ctx => "ctx"

def AskSt.results (st : AskSt) : List (Nat × AskRes) := st.cur.results ++ st.done

def AskSt.states (st : AskSt) : String :=
  let ts := st.tags.mergeSort (· ≤ ·)
  if ts.isEmpty then "-" else
  " ".intercalate (ts.map (fun t => match st.results.lookup t with
    | some r => s!"{t}:{showRes r}"
    | none => s!"{t}:pending"))

/-- contexts of earlier incarnations end too -/
def AskSt.expireAll (st : AskSt) : AskSt :=
  let dead := st.orphans.filter (fun p => !(st.org0 + st.now < p.deadline))
  { st with cur := st.cur.expire (st.org0 + st.now), orphans := st.orphans.filter (fun p => st.org0 + st.now < p.deadline),
            done := dead.map (fun p => (p.tag, AskRes.ctx)) ++ st.done }

def handlerOut (r : Nat) (req : Bytes) : Int × Bytes :=
  match req with
  | 0xFA :: _ => (-(Int.ofNat (req.getLast?.getD 0)) - 1, [])
  | 0xB1 :: _ => let out := [0xA0 + r] ++ req ++ List.range 40; (out.length, out)
  | _ => let out := [0xA0 + r] ++ req; (out.length, out)

def askStep (st : AskSt) (ops : List String) (impl : String) : AskSt × String :=
  match ops with
  | ["a-new"] => ({ org0 := natArg (fieldOfW impl "org0") }, impl)
  | ["a-tick", d] =>
    let st := { st with now := st.now + natArg d }.expireAll
    (st, s!"now={st.now} {st.states}")
  | ["a-restart"] =>
    let st := { st with orphans := st.orphans ++ st.cur.inflight, done := st.cur.results ++ st.done, cur := {} }
    (st, "ok " ++ st.states)
  | ["a-ask", tag, to, req, cap, timeout] =>
    let (a', id) := st.cur.ask (natArg tag) (natArg to + 1) (natArg cap) (st.org0 + st.now) (natArg timeout)
    -- (deadlines in the asker are kept on the same shifted clock)
    let info : PktInfo := { src := 0, dst := natArg to + 1, isReply := false, counter := id.counter, origin := id.origin, code := 0,
                            body := hexArg req, deadline := st.now + min (natArg timeout) maxAskWait }
    let st := { st with cur := a', tags := natArg tag :: st.tags, pkts := st.pkts.push info }
    let st := st.expireAll
    (st, s!"pkt={st.pkts.size - 1} ctr={id.counter} org={id.origin} now={st.now} {st.states}")
  | ["a-cancel", tag] =>
    let t := natArg tag
    let dead := st.orphans.filter (·.tag == t)
    let st := { st with cur := st.cur.cancel t, orphans := st.orphans.filter (·.tag != t),
                        done := dead.map (fun p => (p.tag, AskRes.ctx)) ++ st.done }
    (st, st.states)
  | ["a-serve", k] =>
    match st.pkts[natArg k]? with
    | some p =>
      -- the responder serves the request under a context that ends at origin time + timeout; past that the
      -- hand-off to the handler and the expired context race, so either outcome is admissible
      if st.now ≥ p.deadline ∧ impl == "pkts=0" then (st, impl) else
      let (n, out) := handlerOut (p.dst - 1) p.body
      let (c, o, code, body) := respond p.counter p.origin n out
      let info : PktInfo := { src := p.dst, dst := p.src, isReply := true, counter := c, origin := o, code, body }
      let st := { st with pkts := st.pkts.push info }
      (st, s!"pkt={st.pkts.size - 1} ctr={c} org={o} code={code} body={toHex body}")
    | none => (st, "bad-op")
  | ["a-deliver", k, variant] =>
    match st.pkts[natArg k]? with
    | some p =>
      let c := if variant == "ctr+1" then (p.counter + 1) % 2 ^ 32 else p.counter
      let o := if variant == "org+1" then (p.origin + 1) % 2 ^ 32
               else if variant == "org-1" then (p.origin + 2 ^ 32 - 1) % 2 ^ 32 else p.origin
      let src := if variant == "other-src" then (if p.src == 1 then 2 else 1) else p.src
      let st := { st with cur := st.cur.reply src c o p.code p.body }
      (st, st.states)
    | none => (st, "bad-op")
  | _ => (st, "bad-op")

def askStream : Stream := { σ := AskSt, init := {}, step := askStep }

end P2PVerif.Driver
