import P2PVerif.Driver.Core
import P2PVerif.Model.DHT
namespace P2PVerif.Driver
open P2PVerif P2PVerif.Kad P2PVerif.DHT

structure TabEntry where
  id : Bytes
  kind : Char
  peers : List Bytes

def parseIds (s : String) : List Bytes := if s == "-" || s == "" then [] else (s.splitOn ",").map hexArg

def parseTable (s : String) : List TabEntry :=
  if s == "-" then [] else
  (s.splitOn ";").filterMap fun ent =>
    match ent.splitOn "=" with
    | [id, rest] =>
      match rest.splitOn "/" with
      | [k, peers] => some { id := hexArg id, kind := k.toList.headD 'f', peers := parseIds peers }
      | _ => none
    | _ => none

def mkNode (id : Bytes) : NodeInfo := { id, info := id.take 2 }

def responder (tab : List TabEntry) : Responder := fun _ node =>
  match tab.find? (·.id == node.id) with
  | none => { ok := false }
  | some e =>
    if e.kind == 'f' then { ok := false }
    else { ok := true, nodes := e.peers.map mkNode, accepted := e.kind == 'a',
           value := if e.kind == 'a' then some (1 :: node.id.take 2) else if e.kind == 'v' then some (0 :: node.id.take 2) else none }

def showId (o : Option Bytes) : String := toHex (o.getD zeroID)
def showIds (l : List Bytes) : String := if l.isEmpty then "-" else ",".intercalate (l.map toHex)
def b01 (b : Bool) : String := if b then "1" else "0"

def dhtStep (_ : Unit) (ops : List String) (_impl : String) : Unit × String :=
  match ops with
  | ["dht", op, key, param, initial, table] =>
    let key := hexArg key
    let init := (parseIds initial).map mkNode
    let ask := responder (parseTable table)
    let fuel := 100000
    let res : String := match op with
      | "findnode" =>
        match findNode fuel init key (fun n => (n.id.getLast?.getD 0) % 4 != 3) ask with
        | none => "no-termination"
        | some st =>
          s!"asks={showIds st.asked.reverse} closest={showId (st.closest.map (·.id))} info={toHex ((st.closest.map (·.info)).getD [])} contacted={st.contacted} err={b01 ((st.closest.map (·.id)).getD zeroID != key)}"
      | "join" =>
        match join fuel init key ask with
        | none => "no-termination"
        | some st => s!"asks={showIds st.asked.reverse} added={st.added}"
      | "get" =>
        match get fuel init key (fun v => v.headD 0 != 0) ask with
        | none => "no-termination"
        | some st =>
          s!"asks={showIds st.asked.reverse} value={match st.value with | some v => toHex v | none => "-"} from={showId st.from_} closest={showId (st.closest.map (·.id))} contacted={st.contacted} responded={st.responded} err={b01 (getErr st)}"
      | "put" =>
        match put fuel init key ask with
        | none => "no-termination"
        | some st =>
          s!"asks={showIds st.asked.reverse} closest={showId (st.closest.map (·.id))} accepted={st.accepted} contacted={st.contacted} responded={st.responded} err={b01 (putErr (natArg param) st)}"
      | _ => "bad-op"
    ((), res)
  | ["findnodelimit", n] => ((), toString (findNodeLimit (natArg n)))
  | _ => ((), "bad-op")

def dhtStream : Stream := { σ := Unit, init := (), step := dhtStep }

end P2PVerif.Driver
