import P2PVerif.Driver.Core
import P2PVerif.Model.Base64
import P2PVerif.Model.DER
import P2PVerif.Model.Distance
namespace P2PVerif.Driver
open P2PVerif P2PVerif.B64 P2PVerif.DER

def ordStr : Ordering → String | .lt => "-1" | .eq => "0" | .gt => "1"

def parseArcs (s : String) : List Nat := if s == "-" then [] else (s.splitOn ".").map natArg
def showArcs (l : List Nat) : String := if l.isEmpty then "-" else ".".intercalate (l.map toString)

def textOf (bs : Bytes) : List Char := bs.map Char.ofNat
def bytesOf (cs : List Char) : Bytes := cs.map Char.toNat

def keyStep (_ : Unit) (ops : List String) (impl : String) : Unit × String :=
  match ops with
  | ["pid-marshal", id] => ((), toHex (bytesOf (marshalText alphabet (hexArg id))))
  | ["pid-unmarshal", t] =>
    match unmarshalText alphabet (textOf (hexArg t)) with
    | some id => ((), "ok " ++ toHex id)
    | none => ((), "err")
  | ["pid-cmp", a, b] =>
    let a := hexArg a; let b := hexArg b
    ((), s!"t={ordStr (cmpChars (marshalText alphabet a) (marshalText alphabet b))} b={ordStr (Kad.lexCmp a b)}")
  | ["key-marshal", arcs, data] => ((), toHex (marshalKey { alg := parseArcs arcs, data := hexArg data }))
  | ["key-parse", der] =>
    -- one-sided: whatever the strict model accepts, the implementation must accept with the same result
    match parseKey (hexArg der) with
    | some k => ((), s!"ok {showArcs k.alg} {toHex k.data}")
    | none => ((), if impl == "fault" then "err" else impl)
  | ["key-equal", a1, d1, a2, d2] =>
    let k1 : Key := { alg := parseArcs a1, data := hexArg d1 }
    let k2 : Key := { alg := parseArcs a2, data := hexArg d2 }
    ((), s!"eq={if equalKeys k1 k2 then 1 else 0} enc={if marshalKey k1 == marshalKey k2 then 1 else 0}")
  | _ => ((), "bad-op")

def keyStream : Stream := { σ := Unit, init := (), step := keyStep }

end P2PVerif.Driver
