import P2PVerif.Driver.Core
import P2PVerif.Driver.DHT
import P2PVerif.Gen.Src
/-! The `src` stream: evaluates the definitions REGENERATED from the Go source (`Gen/Src.lean`) on the inputs the
    harness ran the real functions on. This is the translator's own correspondence check. -/
namespace P2PVerif.Driver
open P2PVerif P2PVerif.Src

def toU8s (b : Bytes) : Go.Bytes := b.map (fun n => UInt8.ofNat n)
def ofU8s (b : Go.Bytes) : Bytes := b.map UInt8.toNat
def hexU (s : String) : Go.Bytes := toU8s (hexArg s)
def showU (b : Go.Bytes) : String := toHex (ofU8s b)
def b2s (b : Bool) : String := if b then "1" else "0"
def intArg (s : String) : Int := s.toInt?.getD 0

def showM {α} (x : Go.M α) (f : α → String) : String :=
  match x with
  | .ok a => f a
  | .error _ => "fault"

def srcMux (k c p : String) : String :=
  let v : List Go.Bytes := [hexU p]
  let out : Go.M (List Go.Bytes) :=
    match k with
    | "str" => p2pmux.stringMuxFunc (hexU c) v
    | "varint" => p2pmux.varintMuxFunc (UInt64.ofNat (natArg c)) v
    | "u16" => p2pmux.uint16MuxFunc (UInt16.ofNat (natArg c)) v
    | "u32" => p2pmux.uint32MuxFunc (UInt32.ofNat (natArg c)) v
    | _ => p2pmux.uint64MuxFunc (UInt64.ofNat (natArg c)) v
  showM out (fun segs => showU segs.flatten)

def srcDemux (k f : String) : String :=
  let x := hexU f
  let fin (c : String) (body : Go.Bytes) (e : Go.Err) : String :=
    if e.isSome then "err" else s!"ok {c} {showU body}"
  match k with
  | "str" => showM (p2pmux.stringDemuxFunc x) (fun r => fin (showU r.1) r.2.1 r.2.2)
  | "varint" => showM (p2pmux.varintDemuxFunc x) (fun r => fin (toString r.1.toNat) r.2.1 r.2.2)
  | "u16" => showM (p2pmux.uint16DemuxFunc x) (fun r => fin (toString r.1.toNat) r.2.1 r.2.2)
  | "u32" => showM (p2pmux.uint32DemuxFunc x) (fun r => fin (toString r.1.toNat) r.2.1 r.2.2)
  | _ => showM (p2pmux.uint64DemuxFunc x) (fun r => fin (toString r.1.toNat) r.2.1 r.2.2)

def rpRun (limit : UInt64) : replay.FilterT → List String → String → String
  | _, [], acc => acc
  | f, c :: cs, acc =>
    match replay.Filter.ValidateCounter f (UInt64.ofNat (natArg c)) limit with
    | .ok (ok, f') => rpRun limit f' cs (acc ++ b2s ok)
    | .error _ => acc ++ "fault"

def colRun (c : mbapp.collectorT) : List String → String → Go.M (mbapp.collectorT × String)
  | [], acc => pure (c, acc)
  | p :: ps, acc =>
    match p.splitOn ":" with
    | [k, d] => do
      let (e, c') ← mbapp.collector.addPart c (natArg k : Nat) (hexU d)
      colRun c' ps (acc ++ b2s e.isSome)
    | _ => pure (c, acc ++ "?")

def aggRun (a : fragswarm.aggregatorT) : List String → String → Go.M (fragswarm.aggregatorT × String)
  | [], acc => pure (a, acc)
  | p :: ps, acc =>
    match p.splitOn ":" with
    | [part, total, d] => do
      let (done, a') ← fragswarm.aggregator.addPart a (UInt8.ofNat (natArg part)) (UInt8.ofNat (natArg total)) (hexU d)
      aggRun a' ps (acc ++ b2s done)
    | _ => pure (a, acc ++ "?")

def setAll (h : Go.Bytes) (a : List String) : Go.M Go.Bytes :=
  match a with
  | [ask, reply, err, ot, ctr, size, idx, cnt, tmo] => do
    let h ← mbapp.Header.SetIsAsk h (ask == "1")
    let h ← mbapp.Header.SetIsReply h (reply == "1")
    let h ← mbapp.Header.SetErrorCode h (UInt8.ofNat (natArg err))
    let h ← mbapp.Header.SetOriginTime h (UInt32.ofNat (natArg ot))
    let h ← mbapp.Header.SetCounter h (UInt32.ofNat (natArg ctr))
    let h ← mbapp.Header.SetTotalSize h (UInt32.ofNat (natArg size))
    let h ← mbapp.Header.SetPartIndex h (UInt16.ofNat (natArg idx))
    let h ← mbapp.Header.SetPartCount h (UInt16.ofNat (natArg cnt))
    mbapp.Header.SetTimeout h (UInt32.ofNat (natArg tmo))
  | _ => pure h

def getAll (pkt : Go.Bytes) : Go.M String := do
  let (h, body, err) ← mbapp.ParseMessage pkt
  if err.isSome then return "err"
  let ask ← mbapp.Header.IsAsk h
  let reply ← mbapp.Header.IsReply h
  let code ← mbapp.Header.GetErrorCode h
  let ot ← mbapp.Header.GetOriginTime h
  let ctr ← mbapp.Header.GetCounter h
  let size ← mbapp.Header.GetTotalSize h
  let idx ← mbapp.Header.GetPartIndex h
  let cnt ← mbapp.Header.GetPartCount h
  return s!"{b2s ask}{b2s reply} {code.toNat} {ot.toNat} {ctr.toNat} {size.toNat} {idx.toNat} {cnt.toNat} {showU body}"

def iterPadID (b : Go.Bytes) : Go.Bytes := (b ++ List.replicate 32 0).take 32

def iterRef (t : String) : kademlia.NodeInfoT :=
  match t.splitOn "/" with
  | [i, f] => { ID := iterPadID (hexU i), Info := hexU f }
  | _ => default

def iterRefs (t : String) : List kademlia.NodeInfoT := if t == "-" then [] else (t.splitOn ";").map iterRef

def iterTable (t : String) : List (Go.Bytes × List kademlia.NodeInfoT × Bool) :=
  if t == "-" then [] else
  (t.splitOn "|").filterMap (fun ent =>
    match ent.splitOn "=" with
    | [k, vc] =>
      match vc.splitOn ":" with
      | [v, c] => some (iterPadID (hexU k), iterRefs v, c == "1")
      | _ => none
    | _ => none)

/-- the scripted network of the `kad iter` op: answers from the table, records whom it was called with -/
def iterFn (table : List (Go.Bytes × List kademlia.NodeInfoT × Bool)) (tr : List String) (ni : kademlia.NodeInfoT) :
    Go.M (List String × List kademlia.NodeInfoT × Bool) :=
  let tr' := tr ++ [showU (ni.ID.take 4) ++ "/" ++ showU ni.Info]
  match table.reverse.lookup ni.ID with
  | some (ns, c) => pure (tr', ns, c)
  | none => pure (tr', [], true)

/-! the four iterative DHT operations, regenerated, against the `dht` stream's simulated networks -/

def dNode (id : Bytes) : kademlia.NodeInfoT := { ID := toU8s id, Info := toU8s (id.take 2) }

def dFind (tab : List TabEntry) (n : kademlia.NodeInfoT) : Option TabEntry :=
  match tab.find? (fun e => e.id == ofU8s n.ID) with
  | some e => if e.kind == 'f' then none else some e
  | none => none

def dZero : Go.Bytes := List.replicate 32 0

def dopRun (op : String) (key : Bytes) (param : Nat) (init : List Bytes) (tab : List TabEntry) : Go.M String :=
  let initial := init.map dNode
  let unreachable : Go.Err := some "unreachable"
  match op with
  | "findnode" => do
    let (res, err) ← kademlia.DHTFindNode {
      Initial := initial, Target := (toU8s key ++ dZero).take 32,
      Validate := some (fun n => pure ((n.ID.getD 31 0).toNat % 4 != 3)),
      Ask := fun n _ => pure (match dFind tab n with
        | some e => ({ Nodes := e.peers.map dNode }, none)
        | none => ({ Nodes := [] }, unreachable)) }
    pure s!"closest={showU res.Closest} info={showU res.Info} contacted={res.Contacted} err={b2s err.isSome}"
  | "join" => do
    let added ← kademlia.DHTJoin {
      Initial := initial, Target := (toU8s key ++ dZero).take 32,
      AddPeer := fun _ _ => pure true,
      Ask := fun n _ => pure (match dFind tab n with
        | some e => ({ Nodes := e.peers.map dNode }, none)
        | none => ({ Nodes := [] }, unreachable)) }
    pure s!"added={added}"
  | "get" => do
    let (res, err) ← kademlia.DHTGet {
      Key := toU8s key, Initial := initial,
      Validate := some (fun v => pure (if param % 2 == 1 then decide (v.length ≤ 3) && (v.isEmpty || v.headD 0 != 0)
                                         else !v.isEmpty && v.headD 0 != 0)),
      Ask := fun n _ => pure (match dFind tab n with
        | some e => ({ Value := if e.kind == 'a' then some (1 :: n.ID.take 2) else if e.kind == 'v' then some (0 :: n.ID.take 2) else none,
                       ExpiresAt := default, Closer := e.peers.map dNode }, none)
        | none => ({ Value := none, ExpiresAt := default, Closer := [] }, unreachable)) }
    let v := if res.Value.isEmpty then "-" else showU res.Value
    pure s!"value={v} from={showU res.From} closest={showU res.Closest} contacted={res.NumContacted} responded={res.NumResponded} err={b2s err.isSome}"
  | "put" => do
    let (res, err) ← kademlia.DHTPut {
      Initial := initial, Key := toU8s key, Value := [118], TTL := 60000000000, MinAccepted := (param : Int),
      Ask := fun n _ => pure (match dFind tab n with
        | some e => ({ Accepted := e.kind == 'a', Closer := e.peers.map dNode }, none)
        | none => ({ Accepted := false, Closer := [] }, unreachable)) }
    pure s!"closest={showU res.Closest} accepted={res.Accepted} contacted={res.Contacted} responded={res.Responded} err={b2s err.isSome}"
  | _ => pure "bad-op"

def srcStep (_ : Unit) (ops : List String) (_impl : String) : Unit × String :=
  let r : String :=
    match ops with
    | ["mux", k, c, p] => srcMux k c p
    | ["demux", k, f] => srcDemux k f
    | ["oid", "rt", arcs] =>
      let xs : List Int := if arcs == "-" then [] else (arcs.splitOn ".").map intArg
      showM (do
        let o ← oids.New xs
        let n ← oids.OID.Len o
        let ats ← (List.range n.toNat).mapM (fun (i : Nat) => oids.OID.At o (Int.ofNat i))
        let asn ← oids.OID.ASN1 o
        let z ← oids.OID.IsZero o
        pure s!"len={n} at={".".intercalate (ats.map (fun u => toString u.toNat))} asn1={".".intercalate (asn.map toString)} zero={b2s z}") id
    | ["mtu", "mb", inner, cfg] => showM (mbapp.Swarm.MTU (intArg cfg) (intArg inner)) toString
    | ["mtu", "frag", inner, cfg] => showM (fragswarm.swarm.MTU (intArg cfg) (intArg inner)) toString
    | ["kad", "dop", op, key, param, init, tab] =>
      showM (dopRun op (hexArg key) (natArg param) (parseIds init) (parseTable tab)) id
    | ["kad", "iter", key, n, init, tab] =>
      showM (kademlia.dhtIterate (iterRefs init) (hexU key) (intArg n) (iterFn (iterTable tab)) [])
        (fun tr => "t=" ++ ",".intercalate tr)
    | ["kad", "lz", x] => showM (kademlia.LeadingZeros (hexU x)) toString
    | ["kad", "xor", d, a, b] => showM (kademlia.XORBytes (hexU d) (hexU a) (hexU b)) (fun r => s!"{r.1} {showU r.2}")
    | ["kad", "prefix", x, p, n] => showM (kademlia.HasPrefix (hexU x) (hexU p) (intArg n)) b2s
    | ["kad", "dist", a, b] => showM (kademlia.Distance (hexU a) (hexU b)) showU
    | ["kad", "cmp", x, a, b] => showM (kademlia.DistanceCmp (hexU x) (hexU a) (hexU b)) toString
    | ["kad", "lt", x, a, b] => showM (kademlia.DistanceLt (hexU x) (hexU a) (hexU b)) b2s
    | ["kad", "gt", x, a, b] => showM (kademlia.DistanceGt (hexU x) (hexU a) (hexU b)) b2s
    | ["kad", "dlz", a, b] => showM (kademlia.DistanceLz (hexU a) (hexU b)) toString
    | ["frag", "new", id, part, total, data] =>
      showM (fragswarm.newMessage (UInt32.ofNat (natArg id)) (UInt8.ofNat (natArg part)) (UInt8.ofNat (natArg total)) (hexU data))
        (fun segs => showU segs.flatten)
    | ["frag", "parse", x] =>
      showM (fragswarm.parseMessage (hexU x)) (fun r =>
        if r.2.2.2.2.isSome then "err" else s!"ok {r.1.toNat} {r.2.1.toNat} {r.2.2.1.toNat} {showU r.2.2.2.1}")
    | "frag" :: "agg" :: rest =>
      showM (do
        let frs := match rest with
          | [ps] => ps.splitOn ","
          | _ => []
        let (a, done) ← aggRun { parts := none } frs ""
        let asm ← fragswarm.aggregator.assemble a
        pure s!"d{done} {showU asm}") id
    | ["ke", "class", x] =>
      showM (do
        let a ← p2pke.IsInitHello (hexU x)
        let b ← p2pke.IsRespHello (hexU x)
        let c ← p2pke.IsHello (hexU x)
        let d ← p2pke.IsPostHandshake (hexU x)
        pure (b2s a ++ b2s b ++ b2s c ++ b2s d)) id
    | ["ke", "nonce", x] =>
      showM (do
        let (m, err) ← p2pke.ParseMessage (hexU x)
        if err.isSome then return "err"
        let n ← p2pke.Message.GetNonce m
        let h ← p2pke.Message.HeaderBytes m
        let b ← p2pke.Message.Body m
        return s!"{n.toNat} {showU h} {showU b}") id
    | ["ke", "gate", i, h] =>
      showM (do
        let a ← p2pke.Session.canSend (i == "1") (UInt8.ofNat (natArg h))
        let b ← p2pke.Session.canReceive (UInt8.ofNat (natArg h))
        let c ← p2pke.Session.IsReady (i == "1") (UInt8.ofNat (natArg h))
        pure (b2s a ++ b2s b ++ b2s c)) id
    | ["vec", "gather", o, segs] =>
      let v : List Go.Bytes := if segs == "-" then [] else (segs.splitOn ",").map hexU
      showM (do
        let n ← p2p.VecSize v
        let b ← p2p.VecBytes (hexU o) v
        pure s!"{n} {showU b}") id
    | ["rp", "run", lim, cs] =>
      rpRun (UInt64.ofNat (natArg lim)) { last := 0, ring := List.replicate 128 0 } (cs.splitOn ",") ""
    | ["mb", "errcode", n] => showM (mbapp.extractErrorCode (intArg n)) (fun r => s!"{r.1.toNat} {r.2}")
    | ["mb", "get", x] => showM (getAll (hexU x)) id
    | "mb" :: "set" :: h :: rest => showM (setAll (hexU h) rest) showU
    | "mb" :: "col" :: pc :: ts :: rest =>
      showM (do
        let c ← mbapp.newCollector (intArg pc) (intArg ts)
        let parts := match rest with
          | [ps] => ps.splitOn ","
          | _ => []
        let (c, errs) ← colRun c parts ""
        let done ← mbapp.collector.isComplete c
        pure s!"e{errs} {b2s done} {showU c.buf}") id
    | _ => "bad-op"
  ((), r)

def srcStream : Stream := { σ := Unit, init := (), step := srcStep }

end P2PVerif.Driver
