import P2PVerif.Driver.Ke
import P2PVerif.Model.KeTimed
/-! `ket` stream: channels with their timers under a clock (Model/KeTimed.lean). -/
namespace P2PVerif.Driver
open P2PVerif P2PVerif.P2PKE

structure KetSt where
  ke : KeSt := {}
  chans : List (Nat × TChan) := []     -- sorted by channel id
  now : Nat := 0
  eph : Nat := 1

def KetSt.put (st : KetSt) (cid : Nat) (t : TChan) : KetSt :=
  { st with chans := ((cid, t) :: st.chans.filter (·.1 != cid)).mergeSort (fun a b => a.1 ≤ b.1) }

def tObs (cid : Nat) (t : TChan) : String :=
  s!"{cid}[{chanObs t.chan} rk={if t.rekeyAt.isSome then 1 else 0} hk={if t.hsAt.isSome then 1 else 0} w={t.chan.waiting}]"

/-- fire what is due up to `st.now` on every channel, then render emissions (in time, channel, emission order)
    and the observation. `first` are the emissions of the operation itself (at the current time). -/
def KetSt.settle (st : KetSt) (first : List (Nat × Nat × Wire)) (tie : Nat) : KetSt × String :=
  let (chans, evs, eph) := st.chans.foldl (fun (acc : List (Nat × TChan) × List (Nat × Nat × Wire) × Nat) ct =>
    -- two base-3 digits of the code per channel
    let (t', ev, e') := ct.2.advance st.ke.idLt st.now ((tie / 9 ^ acc.1.length) % 9) 100000 acc.2.2
    (acc.1 ++ [(ct.1, t')], acc.2.1 ++ ev.map (fun (tm, w) => (tm, ct.1, w)), e')) ([], [], st.eph)
  let all := (first ++ evs).mergeSort (fun a b => a.1 < b.1 || (a.1 == b.1 && a.2.1 ≤ b.2.1))
  let (ke, strs) := all.foldl (fun (acc : KeSt × List String) e =>
    let (ke, i) := acc.1.intern e.2.2
    (ke, acc.2 ++ [s!"{e.1}:{e.2.1}:{i}"])) (st.ke, [])
  let st := { st with ke, chans, eph }
  let obs := " ".intercalate (st.chans.map (fun ct => tObs ct.1 ct.2))
  (st, s!"now={st.now} ev={if strs.isEmpty then "-" else ",".intercalate strs} {obs}")

def ketApply (st : KetSt) (ops : List String) (tie : Nat) : KetSt × String :=
  match ops with
  | ["t-reset"] => ({}, "ok")
  | ["x-hash", idx, h] => ({ st with ke := { st.ke with hashes := (natArg idx, hexArg h) :: st.ke.hashes } }, "ok")
  | ["t-new", cid, key, acc, ka, bo, ra, rj] =>
    let t := TChan.fresh (natArg key) (parseAccept acc) (natArg rj) (natArg ka) (natArg ra) (natArg bo)
    let (st, tail) := (st.put (natArg cid) t).settle [] tie
    (st, "ok " ++ tail)
  | ["t-send", cid, plain] =>
    match st.chans.lookup (natArg cid) with
    | some t =>
      let (t', r) := t.send (hexArg plain) st.now
      let st := st.put (natArg cid) t'
      let (res, first) : String × List (Nat × Nat × Wire) := match r with
        | none => ("blocked", [])
        | some none => ("err", [])
        | some (some w) => ("ok", [(st.now, natArg cid, w)])
      let (st, tail) := st.settle first tie
      (st, res ++ " " ++ tail)
    | none => (st, "bad-op")
  | ["t-pend", cid] =>
    match st.chans.lookup (natArg cid) with
    | some t =>
      let (st, tail) := (st.put (natArg cid) (t.pend st.now).1).settle [] tie
      (st, "ok " ++ tail)
    | none => (st, "bad-op")
  | ["t-unpend", cid] =>
    match st.chans.lookup (natArg cid) with
    | some t =>
      let (st, tail) := (st.put (natArg cid) t.unpend).settle [] tie
      (st, "ok " ++ tail)
    | none => (st, "bad-op")
  | ["t-deliver", cid, idx] =>
    match st.chans.lookup (natArg cid) with
    | some t =>
      let (t', r) := t.deliver st.ke.idLt (st.ke.term (natArg idx)) st.eph st.now
      let st := { st.put (natArg cid) t' with eph := st.eph + 1 }
      let first := match r.sent with | some w => [(st.now, natArg cid, w)] | none => []
      let (st, tail) := st.settle first tie
      (st, s!"app={match r.app with | some p => toHex p | none => "-"} {tail}")
    | none => (st, "bad-op")
  | ["t-advance", d] =>
    let (st, tail) := { st with now := st.now + natArg d }.settle [] tie
    (st, "ok " ++ tail)
  | _ => (st, "bad-op")

/-- the two timers of a channel may be due at the same instant; the runtime does not order them, so the model
    follows the implementation's order when the other one does not reproduce what it did -/
def ketStep (st : KetSt) (ops : List String) (impl : String) : KetSt × String :=
  let a := ketApply st ops 0
  let r := if a.2 == impl then a else
    match (List.range 81).find? (fun code => (ketApply st ops code).2 == impl) with
    | some code => ketApply st ops code
    | none => a
  -- the invariant proved in Props/C07 (`never_stranded`) is also monitored on every state the stream reaches
  if r.1.chans.all (fun ct => decide ct.2.NotStranded) then r else (r.1, r.2 ++ " MODEL-INVARIANT-VIOLATED:NotStranded")

def ketStream : Stream := { σ := KetSt, init := {}, step := ketStep }

end P2PVerif.Driver
