import P2PVerif.Driver.Core
import P2PVerif.Model.P2PKE
import P2PVerif.Model.Distance
namespace P2PVerif.Driver
open P2PVerif P2PVerif.P2PKE

structure KeSt where
  terms : Array Wire := #[]
  hashes : List (Nat × Bytes) := []
  sess : List (Nat × Sess) := []
  chans : List (Nat × Chan) := []

def KeSt.intern (st : KeSt) (w : Wire) : KeSt × Nat :=
  match st.terms.findIdx? (· == w) with
  | some i => (st, i)
  | none => ({ st with terms := st.terms.push w }, st.terms.size)

def KeSt.term (st : KeSt) (i : Nat) : Wire := st.terms.getD i .short

def KeSt.idLt (st : KeSt) : IdLt := fun a b =>
  match st.terms.findIdx? (· == a), st.terms.findIdx? (· == b) with
  | some i, some j => Kad.lexCmp ((st.hashes.lookup i).getD []) ((st.hashes.lookup j).getD []) == .lt
  | _, _ => false

def KeSt.putSess (st : KeSt) (id : Nat) (s : Sess) : KeSt := { st with sess := (id, s) :: st.sess.filter (·.1 != id) }
def KeSt.putChan (st : KeSt) (id : Nat) (c : Chan) : KeSt := { st with chans := (id, c) :: st.chans.filter (·.1 != id) }

def showMsg (st : KeSt) (w : Option Wire) : KeSt × String :=
  match w with
  | none => (st, "none")
  | some w => let (st, i) := st.intern w; (st, s!"msg {i}")

def showKey : Option KeyId → String | some k => toString k | none => "-"

def sessObs (s : Sess) : String :=
  s!"ready={if s.isReady then 1 else 0} rkey={showKey (if s.hs ≥ 1 then s.rKey else none)} hs={s.hs} nonce={s.nonce}"

def slotStr : Option Entry → String
  | none => "-"
  | some e => (if e.sess.isInit then "I" else "R") ++ toString e.sess.hs

def chanObs (c : Chan) : String :=
  s!"p={slotStr c.prev} c={slotStr c.cur} n={slotStr c.next} rkey={showKey c.remoteKey}"

def parseAccept (s : String) : KeyId → Bool :=
  if s == "all" then fun _ => true
  else if s == "none" then fun _ => false
  else match s.splitOn ":" with
    | ["only", k] => fun x => x == natArg k
    | _ => fun _ => false

def bigInterval : Nat := 10 ^ 15

def keStep (st : KeSt) (ops : List String) (_impl : String) : KeSt × String :=
  match ops with
  | ["s-new", sid, isInit, key, now] =>
    let s := Sess.new (isInit == "1") (natArg key) (natArg sid) (natArg now) bigInterval
    let st := st.putSess (natArg sid) s
    if isInit == "1" then showMsg st s.handshake else (st, "ok")
  | ["s-hs", sid] =>
    match st.sess.lookup (natArg sid) with
    | some s => showMsg st s.handshake
    | none => (st, "bad-op")
  | ["s-deliver", sid, idx, now] =>
    match st.sess.lookup (natArg sid) with
    | some s =>
      let (s', r) := s.deliver (st.term (natArg idx)) (natArg now)
      let st := st.putSess (natArg sid) s'
      let (st, rs) : KeSt × String := match r with
        | .err => (st, "err")
        | .hs out => let (st, m) := showMsg st out; (st, "hs " ++ m)
        | .app p => (st, "app " ++ toHex p)
        | .drop => (st, "drop")
      (st, rs ++ " " ++ sessObs s')
    | none => (st, "bad-op")
  | ["s-send", sid, plain, now] =>
    match st.sess.lookup (natArg sid) with
    | some s =>
      let (s', out) := s.send (hexArg plain) (natArg now)
      let st := st.putSess (natArg sid) s'
      match out with
      | some w => let (st, m) := showMsg st (some w); (st, m ++ " " ++ sessObs s')
      | none => (st, "err " ++ sessObs s')
    | none => (st, "bad-op")
  | ["x-hash", idx, h] => ({ st with hashes := (natArg idx, hexArg h) :: st.hashes }, "ok")
  | ["x-junk", _src, ctr, long] => showMsg st (some (.junk st.terms.size (natArg ctr) (long == "1")))
  | ["x-short"] => showMsg st (some .short)
  | ["x-eph", src, adv] =>
    match st.term (natArg src) with
    | .initHello _ h => showMsg st (some (.initHello (natArg adv) h))
    | _ => (st, "bad-op")
  | ["x-lie", a, k] =>
    match st.term (natArg a) with
    | .initHello e h => showMsg st (some (.initHello e { h with key := natArg k }))
    | _ => (st, "bad-op")
  | ["x-splice", a, b] =>
    match st.term (natArg a), st.term (natArg b) with
    | .initHello e _, .initHello _ h => showMsg st (some (.initHello e h))
    | _, _ => (st, "bad-op")
  | ["c-new", cid, key, acc] =>
    let c : Chan := { key := natArg key, accept := parseAccept acc, rejectAfter := bigInterval, keepAlive := bigInterval, hsTimeout := bigInterval }
    (st.putChan (natArg cid) c, "ok")
  | ["c-deliver", cid, idx, now, eph] =>
    match st.chans.lookup (natArg cid) with
    | some c =>
      let (c', r) := c.deliver st.idLt (st.term (natArg idx)) (natArg eph) (natArg now)
      let st := st.putChan (natArg cid) c'
      let (st, sent) := match r.sent with
        | some w => let (st, i) := st.intern w; (st, toString i)
        | none => (st, "-")
      (st, s!"app={match r.app with | some p => toHex p | none => "-"} sent={sent} {chanObs c'}")
    | none => (st, "bad-op")
  | ["c-send", cid, plain, now] =>
    match st.chans.lookup (natArg cid) with
    | some c =>
      let (c', r) := c.send (hexArg plain) (natArg now)
      let st := st.putChan (natArg cid) c'
      match r with
      | none => (st, "blocked " ++ chanObs c')
      | some none => (st, "err " ++ chanObs c')
      | some (some w) => let (st, i) := st.intern w; (st, s!"sent={i} {chanObs c'}")
    | none => (st, "bad-op")
  | ["c-rekey", cid, now, eph] =>
    match st.chans.lookup (natArg cid) with
    | some c =>
      let c' := c.onRekey st.idLt (natArg eph) (natArg now)
      let st := st.putChan (natArg cid) c'
      let m := "hello=-"
      (st, m ++ " " ++ chanObs c')
    | none => (st, "bad-op")
  | ["c-hs", cid, now] =>
    match st.chans.lookup (natArg cid) with
    | some c =>
      let (c', outs, _) := c.onHandshakeAt (natArg now)
      let st := st.putChan (natArg cid) c'
      let (st, is) := outs.foldl (fun (acc : KeSt × List String) w =>
        let (st, i) := acc.1.intern w; (st, acc.2 ++ [toString i])) (st, [])
      (st, s!"sent={if is.isEmpty then "-" else ",".intercalate is} {chanObs c'}")
    | none => (st, "bad-op")
  | ["reset"] => ({}, "ok")
  | _ => (st, "bad-op")

def keStream : Stream := { σ := KeSt, init := {}, step := keStep }

end P2PVerif.Driver

namespace P2PVerif.Driver
open P2PVerif

/-- `replay` stream: the wireguard replay filter alone -/
def replayStep (f : Replay.Filter) (ops : List String) (_impl : String) : Replay.Filter × String :=
  match ops with
  | ["rp-new"] => (Replay.Filter.empty, "ok")
  | ["rp", c, lim] =>
    let (f', ok) := Replay.validate f (natArg c) (natArg lim)
    (f', if ok then "1" else "0")
  | _ => (f, "bad-op")

def replayStream : Stream := { σ := Replay.Filter, init := Replay.Filter.empty, step := replayStep }

end P2PVerif.Driver
