import P2PVerif.Driver.Core
import P2PVerif.Model.Addr
namespace P2PVerif.Driver
open P2PVerif P2PVerif.Addr

def strOfHex (s : String) : Str := (hexArg s).map Char.ofNat
def hexOfStr (s : Str) : String := toHex (s.map Char.toNat)

/-- split at the first occurrence of `c` at bracket depth 0 -/
def splitTop (c : Char) (s : List Char) : List (List Char) :=
  let rec go (depth : Nat) (cur : List Char) (acc : List (List Char)) : List Char → List (List Char)
    | [] => (cur.reverse :: acc).reverse
    | x :: xs =>
      if x == '(' || x == '[' then go (depth + 1) (x :: cur) acc xs
      else if x == ')' || x == ']' then go (depth - 1) (x :: cur) acc xs
      else if x == c && depth == 0 then go depth [] (cur.reverse :: acc) xs
      else go depth (x :: cur) acc xs
  go 0 [] [] s

def parseIntTok (s : String) : Int :=
  if s.startsWith "-" then -((s.drop 1).toString.toNat?.getD 0 : Int) else (s.toNat?.getD 0 : Int)

/-- address terms: m:<int> | u:<iphex>:<port> | s:<fphex>:<iphex>:<port> | i:<idhex>(<addr>) | c:<schemehex>(<addr>) -/
partial def parseAddrTerm (s : List Char) : Option Addr.Addr :=
  match s with
  | 'm' :: ':' :: r => some (.mem (parseIntTok (String.ofList r)))
  | 'u' :: ':' :: r =>
    match splitTop ':' r with
    | [ip, port] => some (.udp (strOfHex (String.ofList ip)) (natArg (String.ofList port)))
    | _ => none
  | 's' :: ':' :: r =>
    match splitTop ':' r with
    | [fp, ip, port] => some (.ssh (strOfHex (String.ofList fp)) (strOfHex (String.ofList ip)) (natArg (String.ofList port)))
    | _ => none
  | k :: ':' :: r =>
    let head := r.takeWhile (· != '(')
    let body := (r.dropWhile (· != '(')).drop 1
    let body := body.dropLast
    match parseAddrTerm body with
    | some a =>
      if k == 'i' then some (.idAt (hexArg (String.ofList head)) a)
      else if k == 'c' then some (.scheme (strOfHex (String.ofList head)) a) else none
    | none => none
  | _ => none

def showAddrTerm : Addr.Addr → String
  | .mem n => s!"m:{n}"
  | .udp ip p => s!"u:{hexOfStr ip}:{p}"
  | .ssh fp ip p => s!"s:{hexOfStr fp}:{hexOfStr ip}:{p}"
  | .idAt id a => s!"i:{toHex id}({showAddrTerm a})"
  | .scheme sc a => s!"c:{hexOfStr sc}({showAddrTerm a})"

/-- grammar terms: m | u | s | i(<g>) | x[<namehex>=<g>,…] -/
partial def parseGramTerm (s : List Char) : Option Gram :=
  match s with
  | ['m'] => some .mem
  | ['u'] => some .udp
  | ['s'] => some .ssh
  | 'i' :: '(' :: r => (parseGramTerm r.dropLast).map .idAt
  | 'x' :: '[' :: r =>
    let items := splitTop ',' r.dropLast
    items.foldr (fun item acc =>
      match acc with
      | none => none
      | some rest =>
        if item.isEmpty then some rest else
        match splitTop '=' item with
        | name :: g =>
          match parseGramTerm (List.intercalate ['='] g) with
          | some g => some (.mcons (strOfHex (String.ofList name)) g rest)
          | none => none
        | _ => none) (some .mnil)
  | _ => none

def parseIpTable (s : String) : List (Str × Str) :=
  if s == "-" then [] else
  (s.splitOn ",").filterMap fun ent =>
    match ent.splitOn "=" with
    | [a, b] => some (strOfHex a, strOfHex b)
    | _ => none

def addrStep (_ : Unit) (ops : List String) (_impl : String) : Unit × String :=
  match ops with
  | ["addr-marshal", term] =>
    match parseAddrTerm term.toList with
    | some a => ((), hexOfStr (marshal a))
    | none => ((), "bad-op")
  | ["addr-parse", gram, text, ips, scan] =>
    match parseGramTerm gram.toList with
    | some g =>
      let tab := parseIpTable ips
      let env : Env := { ipParse := fun t => tab.lookup t, scan16 := fun _ => scan.toNat? }
      match parse env g (strOfHex text) with
      | some a => ((), "ok " ++ showAddrTerm a)
      | none => ((), "err")
    | none => ((), "bad-op")
  | _ => ((), "bad-op")

def addrStream : Stream := { σ := Unit, init := (), step := addrStep }

end P2PVerif.Driver
