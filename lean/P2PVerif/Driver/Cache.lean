import P2PVerif.Driver.Core
import P2PVerif.Model.Cache
namespace P2PVerif.Driver
open P2PVerif P2PVerif.Kad

def lexLe (a b : Bytes) : Bool := lexCmp a b != .gt

/-- canonical form of a visiting sequence: every maximal run of entries equidistant from `k` is sorted by key -/
def canonRuns (k : Bytes) (ks : List Bytes) : List Bytes :=
  let rec go (run : List Bytes) : List Bytes → List Bytes
    | [] => run.mergeSort lexLe
    | x :: xs =>
      match run with
      | [] => go [x] xs
      | r :: _ => if distanceCmp k r x == .eq then go (x :: run) xs else run.mergeSort lexLe ++ go [x] xs
  go [] ks

def showKeys (ks : List Bytes) : String := if ks.isEmpty then "-" else ",".intercalate (ks.map toHex)

def parseKeys (s : String) : List Bytes := if s == "-" then [] else (s.splitOn ",").map hexArg

def showEntry (e : Entry) : String := s!"{toHex e.key}:{toHex e.val}:{e.created}:{e.expires}"

def cmpSeq (k : Bytes) (model : List Bytes) (impl : String) (pfx : String) : String :=
  let implKeys := parseKeys ((impl.drop pfx.length).toString)
  if impl.startsWith pfx && canonRuns k implKeys == canonRuns k model then impl else pfx ++ showKeys model

def cacheStep (c : Cache) (ops : List String) (impl : String) : Cache × String :=
  match ops with
  | ["new", locus, max, minPer] =>
    let l := hexArg locus
    if Cache.newOk l (natArg max) (natArg minPer) then (Cache.new l (natArg max) (natArg minPer), "ok") else (c, "panic")
  | [op, key, val, now, exp] =>
    if op != "put" && op != "upd" then (c, "bad-op") else
    let key := hexArg key
    -- the implementation's reported victim, e.g. `evicted=x01 added=1 count=3`
    let victim := match (words impl).head? with
      | some w => if w.startsWith "evicted=" then hexArg (w.drop 8).toString else []
      | none => []
    let created := if op == "upd" then (match c.get key with | some old => old.created | none => natArg now) else natArg now
    let e : Entry := { key, val := hexArg val, created, expires := natArg exp }
    match c.update e victim with
    | .ok c' ev added =>
      let evs := match ev with | some v => toHex v.key | none => "-"
      (c', s!"evicted={evs} added={if added then 1 else 0} count={c'.count}")
    | .inadmissible => (c, "inadmissible-victim")
  | ["get", key] =>
    match c.get (hexArg key) with
    | some e => (c, toHex e.val ++ " c=111")
    | none => (c, "none c=000")
  | ["del", key] =>
    let (c', r) := c.delete (hexArg key)
    (c', s!"{match r with | some e => toHex e.key | none => "-"} count={c'.count}")
  | ["expire", now] =>
    let (c', out) := c.expire (natArg now)
    (c', s!"{showKeys ((out.map (·.key)).mergeSort lexLe)} count={c'.count}")
  | ["count"] => (c, toString c.count)
  | ["dump"] =>
    let es := c.entries.mergeSort (fun a b => lexLe a.key b.key)
    (c, if es.isEmpty then "-" else ",".intercalate (es.map showEntry))
  | ["foreach", k] => (c, cmpSeq (hexArg k) ((c.forEach (hexArg k)).map (·.key)) impl "")
  | ["closest", k] =>
    -- any entry equidistant with the model's head is an admissible answer
    let k := hexArg k
    match c.closest k with
    | none => (c, "none")
    | some e =>
      let ik := hexArg impl
      if impl != "none" && (c.get ik).isSome && distanceCmp k ik e.key == .eq then (c, impl) else (c, toHex e.key)
  | ["matching", pfx, nbits] =>
    match c.forEachMatching (hexArg pfx) (natArg nbits) with
    | none => (c, "fault")
    | some es => (c, cmpSeq ((hexArg pfx).take (matchLen (natArg nbits))) (es.map (·.key)) impl "")
  | ["closer", k] => (c, cmpSeq (hexArg k) ((c.forEachCloser (hexArg k)).map (·.key)) impl "")
  | _ => (c, "bad-op")

def cacheStream : Stream := { σ := Cache, init := Cache.new [] 0 0, step := cacheStep }

end P2PVerif.Driver
