import P2PVerif.Driver.Cache
import P2PVerif.Model.DHTNode
/-! `node` stream: kademlia.DHTNode handlers (Model/DHTNode.lean). -/
namespace P2PVerif.Driver
open P2PVerif P2PVerif.Kad P2PVerif.DHT

structure NodeSt where
  n : Node := Node.new [] 0 0 0 0
  now : Nat := 0

def showInfos (ns : List NodeInfo) : String :=
  if ns.isEmpty then "-" else ",".intercalate (ns.map (fun x => toHex x.id ++ ":" ++ toHex x.info))

def parseInfos (s : String) : List (Bytes × Bytes) :=
  if s == "-" || s == "" then [] else (s.splitOn ",").map (fun e =>
    match e.splitOn ":" with
    | [a, b] => (hexArg a, hexArg b)
    | _ => ([], []))

/-- peers equidistant from the key (keys shorter than the ids cannot tell them apart) come in map order: accept the
    implementation's order when it differs from the model's only inside such runs -/
def cmpInfos (k : Bytes) (model : List NodeInfo) (impl : String) : String :=
  let ip := parseInfos impl
  let lePair (a b : Bytes × Bytes) : Bool := lexLe a.1 b.1
  if canonRuns k (ip.map (·.1)) == canonRuns k (model.map (·.id)) &&
     ip.mergeSort lePair == (model.map (fun x => (x.id, x.info))).mergeSort lePair then impl
  else showInfos model

def fieldOf (impl name : String) : String :=
  match (words impl).find? (·.startsWith (name ++ "=")) with
  | some w => (w.drop (name.length + 1)).toString
  | none => ""

def nodeStep (st : NodeSt) (ops : List String) (impl : String) : NodeSt × String :=
  match ops with
  | ["n-new", id, ps, ds, pt, dt] =>
    ({ st with n := Node.new (hexArg id) (natArg ps) (natArg ds) (natArg pt) (natArg dt) }, "ok")
  | ["n-tick", d] => let st := { st with now := st.now + natArg d }; (st, s!"now={st.now}")
  | ["n-addpeer", id, info] =>
    let (n', added) := st.n.addPeer (hexArg id) (hexArg info) st.now
    ({ st with n := n' }, s!"{if added then 1 else 0} now={st.now}")
  | ["n-rmpeer", id] =>
    let (n', r) := st.n.removePeer (hexArg id)
    ({ st with n := n' }, if r then "1" else "0")
  | ["n-getpeer", id] => (st, match st.n.getPeer (hexArg id) with | some v => toHex v | none => "none")
  | ["n-put", key, val, ttl] =>
    let (n', acc, closer) := st.n.handlePut (hexArg key) (hexArg val) (natArg ttl) st.now
    ({ st with n := n' },
      s!"accepted={if acc then 1 else 0} count={n'.data.count} now={st.now} closer={cmpInfos (hexArg key) closer (fieldOf impl "closer")}")
  | ["n-localput", key, val, ttl] =>
    let (n', added) := st.n.put (hexArg key) (hexArg val) (natArg ttl) st.now
    ({ st with n := n' }, s!"{if added then 1 else 0} count={n'.data.count} now={st.now}")
  | ["n-get", key] =>
    let (v, closer) := st.n.handleGet (hexArg key)
    (st, s!"value={match v with | some b => toHex b | none => "none"} closer={cmpInfos (hexArg key) closer (fieldOf impl "closer")}")
  | ["n-find", target, limit] =>
    let l : Int := if limit.startsWith "-" then -(Int.ofNat (natArg (limit.drop 1).toString)) else Int.ofNat (natArg limit)
    (st, showInfos (st.n.handleFindNode (hexArg target) l))
  | _ => (st, "bad-op")

def nodeStream : Stream := { σ := NodeSt, init := {}, step := nodeStep }

end P2PVerif.Driver
