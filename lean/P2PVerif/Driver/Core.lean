import P2PVerif.Model.Util
/-! Line-protocol runner: each stream is a model state and a step that maps an operation (plus the
    implementation's observed result, for admissibility checks of nondeterministic choices) to the
    model's expected result text. -/
namespace P2PVerif.Driver
open P2PVerif

structure Stream where
  σ : Type
  init : σ
  step : σ → List String → String → σ × String

partial def loop (s : Stream) (h : IO.FS.Stream) (st : s.σ) (n bad : Nat) : IO (Nat × Nat) := do
  let line ← h.getLine
  if line.isEmpty then return (n, bad)
  let (ops, impl) := splitLine line
  if ops.isEmpty then loop s h st n bad else
  let (st', model) := s.step st ops impl
  if model == impl then loop s h st' (n + 1) bad
  else
    if bad < 50 then
      IO.println s!"MISMATCH line={n + 1} op={" ".intercalate ops} model={model} impl={impl}"
    loop s h st' (n + 1) (bad + 1)

def run (s : Stream) : IO UInt32 := do
  let (n, bad) ← loop s (← IO.getStdin) s.init 0 0
  IO.println s!"done lines={n} mismatches={bad}"
  return (if bad == 0 then 0 else 1)

def natArg (s : String) : Nat := s.toNat?.getD 0
def hexArg (s : String) : Bytes := (parseHex s).getD []

end P2PVerif.Driver
