import P2PVerif.Model.Mux
import P2PVerif.Lemmas.Chunks
/-! C09: the size arithmetic of the three `MTU()`/`Tell` pairs. -/
namespace P2PVerif.MTU
open P2PVerif

/-- under the fragswarm MTU guard a non-empty payload has a positive part size and at most 255 parts -/
theorem frag_guard (innerMTU cfgMTU : Nat) (payload : Bytes)
    (h : (payload.length : Int) ≤ Frag.mtu innerMTU cfgMTU) (hpos : 0 < payload.length) :
    1 ≤ innerMTU - Frag.overhead ∧ payload.length ≤ (innerMTU - Frag.overhead) * 255 ∧
    payload.length ≤ cfgMTU := by
  have hm : (Frag.maxParts : Int) = 255 := rfl
  simp only [Frag.mtu] at h
  split at h <;> simp only [hm] at * <;> omega

theorem frag_under_mtu_accepted (innerMTU cfgMTU id : Nat) (payload : Bytes) (hid : id < 2 ^ 32)
    (h : (payload.length : Int) ≤ Frag.mtu innerMTU cfgMTU) (hinner : 9 ≤ innerMTU) :
    ∃ ps, Frag.tell innerMTU cfgMTU id payload = some ps ∧ (∀ p ∈ ps, p.length ≤ innerMTU) ∧ 1 ≤ ps.length ∧ ps.length ≤ 255 := by
  have hov := Frag.nine_le_overhead
  have hnot : ¬ ((payload.length : Int) > Frag.mtu innerMTU cfgMTU) := by omega
  unfold Frag.tell
  rw [if_neg hnot]
  by_cases h0 : payload.length = 0
  · rw [if_pos h0]
    refine ⟨_, rfl, ?_, by simp, by simp⟩
    intro p hp
    simp only [List.mem_singleton] at hp
    subst hp
    have := Frag.header_length_le id 0 1 hid (by decide) (by decide)
    omega
  · rw [if_neg h0]
    obtain ⟨hn, hle, _⟩ := frag_guard innerMTU cfgMTU payload h (by omega)
    have hlen255 := Frag.chunks_length_le _ hn payload 255 hle
    have hlen1 := Frag.chunks_length_pos _ hn payload (by omega)
    simp only
    by_cases h1 : (Frag.chunks (innerMTU - Frag.overhead) payload).length = 1
    · rw [if_pos h1]
      refine ⟨_, rfl, ?_, by simp, by simp⟩
      intro p hp
      simp only [List.mem_singleton] at hp
      subst hp
      have hh := Frag.header_length_le id 0 1 hid (by decide) (by decide)
      have : ¬ (1 * (innerMTU - Frag.overhead) < payload.length) := by
        rw [← Frag.lt_chunks_length _ hn]; omega
      simp only [List.length_append]; omega
    · rw [if_neg h1]
      refine ⟨_, rfl, ?_, by simpa using hlen1, by simpa using hlen255⟩
      intro p hp
      rw [List.mem_mapIdx] at hp
      obtain ⟨i, hi, rfl⟩ := hp
      have hh := Frag.header_length_le id (i % 256) ((Frag.chunks (innerMTU - Frag.overhead) payload).length % 256)
        hid (Nat.mod_lt _ (by decide)) (Nat.mod_lt _ (by decide))
      have hc := Frag.chunk_length_le _ hn payload i _ (List.getElem?_eq_getElem hi)
      simp only [List.length_append]; omega

theorem frag_over_mtu_rejected (innerMTU cfgMTU id : Nat) (payload : Bytes)
    (h : (payload.length : Int) > Frag.mtu innerMTU cfgMTU) : Frag.tell innerMTU cfgMTU id payload = none := by
  unfold Frag.tell
  rw [if_pos h]

/-- under the mbapp MTU guard a non-empty payload has a positive part size and at most 65535 parts -/
theorem mbapp_guard (innerMTU cfgMTU : Nat) (payload : Bytes)
    (h : (payload.length : Int) ≤ Mbapp.mtu innerMTU cfgMTU) (hpos : 0 < payload.length) :
    1 ≤ innerMTU - Mbapp.headerSize ∧ payload.length ≤ (innerMTU - Mbapp.headerSize) * 65535 ∧
    payload.length ≤ cfgMTU := by
  have hm : (Mbapp.maxParts : Int) = 65535 := rfl
  simp only [Mbapp.mtu] at h
  split at h <;> simp only [hm] at * <;> omega

theorem mbapp_le_cfg (innerMTU cfgMTU : Nat) (payload : Bytes)
    (h : (payload.length : Int) ≤ Mbapp.mtu innerMTU cfgMTU) : payload.length ≤ cfgMTU := by
  have hm : (Mbapp.maxParts : Int) = 65535 := rfl
  simp only [Mbapp.mtu] at h
  split at h <;> simp only [hm] at * <;> omega

theorem mbapp_under_mtu_accepted (innerMTU cfgMTU : Nat) (h : Mbapp.Hdr) (payload : Bytes)
    (hle : (payload.length : Int) ≤ Mbapp.mtu innerMTU cfgMTU) (hinner : 24 ≤ innerMTU) :
    ∃ ps, Mbapp.send innerMTU cfgMTU h payload = some ps ∧ (∀ p ∈ ps, p.length ≤ innerMTU) ∧ 1 ≤ ps.length ∧ ps.length ≤ 65535 := by
  have hhs := Mbapp.headerSize_eq
  have hnot : ¬ ((payload.length : Int) > Mbapp.mtu innerMTU cfgMTU) := by omega
  unfold Mbapp.send
  rw [if_neg hnot]
  simp only
  by_cases h0 : payload.length = 0
  · rw [if_pos h0]
    refine ⟨_, rfl, ?_, by simp, by simp⟩
    intro p hp
    simp only [List.mem_singleton] at hp
    subst hp
    rw [Mbapp.encode_length]; omega
  · rw [if_neg h0]
    obtain ⟨hn, hle', _⟩ := mbapp_guard innerMTU cfgMTU payload hle (by omega)
    have hg : ¬ ((innerMTU : Int) - Mbapp.headerSize < 1 ∨
        payload.length > (innerMTU - Mbapp.headerSize) * Mbapp.maxParts) := by
      simp only [Mbapp.maxParts]; omega
    rw [if_neg hg, Mbapp.chunks_eq_frag]
    have hlenmax := Frag.chunks_length_le _ hn payload 65535 hle'
    have hlen1 := Frag.chunks_length_pos _ hn payload (by omega)
    by_cases h1 : (Frag.chunks (innerMTU - Mbapp.headerSize) payload).length < 2
    · rw [if_pos h1]
      refine ⟨_, rfl, ?_, by simp, by simp⟩
      intro p hp
      simp only [List.mem_singleton] at hp
      subst hp
      have : ¬ (1 * (innerMTU - Mbapp.headerSize) < payload.length) := by
        rw [← Frag.lt_chunks_length _ hn]; omega
      rw [List.length_append, Mbapp.encode_length]; omega
    · rw [if_neg h1]
      refine ⟨_, rfl, ?_, by simpa using hlen1, by simpa using hlenmax⟩
      intro p hp
      rw [List.mem_mapIdx] at hp
      obtain ⟨i, hi, rfl⟩ := hp
      have hc := Frag.chunk_length_le _ hn payload i _ (List.getElem?_eq_getElem hi)
      rw [List.length_append, Mbapp.encode_length]; omega

theorem mbapp_over_mtu_rejected (innerMTU cfgMTU : Nat) (h : Mbapp.Hdr) (payload : Bytes)
    (hgt : (payload.length : Int) > Mbapp.mtu innerMTU cfgMTU) : Mbapp.send innerMTU cfgMTU h payload = none := by
  unfold Mbapp.send
  rw [if_pos hgt]

theorem mux_mtu_exact (k : Mux.Kind) (c : Mux.Chan) (innerMTU : Nat) (x : Bytes) :
    (Mux.tell k c innerMTU x).isSome ↔ (x.length : Int) ≤ Mux.mtu k c innerMTU := by
  unfold Mux.tell Mux.mtu Mux.mux
  by_cases h : (Mux.header k c ++ x).length ≤ innerMTU
  · rw [if_pos h]; simp only [List.length_append] at h; simp only [Option.isSome_some, true_iff]; omega
  · rw [if_neg h]; simp only [List.length_append] at h; simp; omega

end P2PVerif.MTU
