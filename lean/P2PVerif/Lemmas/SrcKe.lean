import P2PVerif.Gen.Src
import P2PVerif.Lemmas.SrcMux
/-! p/p2pke/messages.go: the 4-byte counter header of every P2PKE message, as regenerated from the Go source. -/
namespace P2PVerif.SrcKe
open P2PVerif P2PVerif.Src P2PVerif.Go P2PVerif.SrcKad P2PVerif.SrcMux

theorem newMessage_eq (n : UInt32) : p2pke.newMessage n = .ok (hdr32 n) := by
  unfold p2pke.newMessage p2pke.Message.SetNonce hdr32
  simp [Go.makeList, Go.slice, Go.bePutU32, Go.splice]

theorem be32_hdr32 (n : UInt32) (rest : Go.Bytes) : Go.beU32 (hdr32 n ++ rest) = .ok n := by
  simp only [hdr32, Go.beU32, List.cons_append, byteOf_toNat, pure_eq]
  congr 1
  have := n.toNat_lt
  have e : ((n.toNat / 16777216 % 256 * 256 + n.toNat / 65536 % 256) * 256 + n.toNat / 256 % 256) * 256 + n.toNat % 256 = n.toNat := by omega
  rw [e]; simp

/-- the header counter written by `newMessage` is the one `GetNonce` reads, whatever body follows -/
theorem getNonce_new (n : UInt32) (body : Go.Bytes) : p2pke.Message.GetNonce (hdr32 n ++ body) = .ok n := by
  unfold p2pke.Message.GetNonce
  have h4 : (4 : Nat) ≤ (hdr32 n ++ body).length := by simp [hdr32]
  have e1 : Go.slice (hdr32 n ++ body) 0 4 = .ok ((hdr32 n ++ body).take 4) := Go.slice_to _ 4 h4
  rw [e1]
  simp only [bind_ok]
  have : (hdr32 n ++ body).take 4 = hdr32 n ++ [] := by simp [hdr32]
  rw [this, be32_hdr32]

theorem body_new (n : UInt32) (body : Go.Bytes) : p2pke.Message.Body (hdr32 n ++ body) = .ok body := by
  unfold p2pke.Message.Body
  have h4 : (4 : Nat) ≤ (hdr32 n ++ body).length := by simp [hdr32]
  have e1 : Go.slice (hdr32 n ++ body) 4 (Go.len (hdr32 n ++ body)) = .ok ((hdr32 n ++ body).drop 4) := Go.slice_from _ 4 h4
  rw [e1]
  simp [hdr32]

theorem parseMessage_eq (x : Go.Bytes) :
    p2pke.ParseMessage x = if x.length < 4 then .ok ([], some "p2pke: too short to be message") else .ok (x, none) := by
  unfold p2pke.ParseMessage
  have e : (Go.len x < 4) ↔ x.length < 4 := by simp only [Go.len]; omega
  simp only [decide_eq_true_eq, e]
  split <;> rfl

/-- `GetNonce`, `HeaderBytes` and `Body` are safe on everything `ParseMessage` lets through -/
theorem accessors_no_fault (x : Go.Bytes) (h : 4 ≤ x.length) :
    (∃ n, p2pke.Message.GetNonce x = .ok n) ∧ p2pke.Message.HeaderBytes x = .ok (x.take 4) ∧
    p2pke.Message.Body x = .ok (x.drop 4) := by
  have e1 : Go.slice x 0 4 = .ok (x.take 4) := Go.slice_to _ 4 h
  have e2 : Go.slice x 4 (Go.len x) = .ok (x.drop 4) := Go.slice_from _ 4 h
  refine ⟨?_, ?_, ?_⟩
  · unfold p2pke.Message.GetNonce
    rw [e1]
    match x, h with
    | b0 :: b1 :: b2 :: b3 :: rest, _ => exact ⟨_, rfl⟩
  · unfold p2pke.Message.HeaderBytes; rw [e1]
  · unfold p2pke.Message.Body; rw [e2]

/-- the header counter of a message of at least four bytes -/
def counterOf (x : Go.Bytes) : Nat :=
  match x with
  | b0 :: b1 :: b2 :: b3 :: _ => ((b0.toNat * 256 + b1.toNat) * 256 + b2.toNat) * 256 + b3.toNat
  | _ => 0

theorem counterOf_lt (x : Go.Bytes) : counterOf x < 2 ^ 32 := by
  unfold counterOf
  split
  · rename_i b0 b1 b2 b3 _
    have := b0.toNat_lt; have := b1.toNat_lt; have := b2.toNat_lt; have := b3.toNat_lt
    omega
  · decide

theorem getNonce_eq (x : Go.Bytes) (h : 4 ≤ x.length) :
    p2pke.Message.GetNonce x = .ok (UInt32.ofNat (counterOf x)) := by
  unfold p2pke.Message.GetNonce
  have e1 : Go.slice x 0 4 = .ok (x.take 4) := Go.slice_to _ 4 h
  rw [e1]
  match x, h with
  | b0 :: b1 :: b2 :: b3 :: rest, _ => rfl

/-- the three classifiers of p2pke.go on every byte string: no faults, and what they answer -/
theorem classify_eq (x : Go.Bytes) :
    p2pke.IsInitHello x = .ok (decide (4 ≤ x.length ∧ counterOf x = 0)) ∧
    p2pke.IsRespHello x = .ok (decide (4 ≤ x.length ∧ counterOf x = 1)) ∧
    p2pke.IsPostHandshake x = .ok (decide (4 ≤ x.length ∧ 16 ≤ counterOf x)) := by
  have hc := counterOf_lt x
  have hnat : (UInt32.ofNat (counterOf x)).toNat = counterOf x := by
    simp only [UInt32.toNat_ofNat']; omega
  unfold p2pke.IsInitHello p2pke.IsRespHello p2pke.IsPostHandshake
  rw [parseMessage_eq]
  by_cases h : x.length < 4
  · have : ¬ 4 ≤ x.length := by omega
    simp [h, this]
  · have h4 : 4 ≤ x.length := by omega
    simp only [h, if_false, bind_ok, Option.isNone_none, if_true, getNonce_eq x h4, pure_eq, h4, true_and]
    refine ⟨?_, ?_, ?_⟩
    · congr 1; apply decide_eq_decide.mpr
      rw [← UInt32.toNat_inj, hnat]; rfl
    · congr 1; apply decide_eq_decide.mpr
      rw [← UInt32.toNat_inj, hnat]; rfl
    · congr 1; apply decide_eq_decide.mpr
      rw [ge_iff_le, UInt32.le_iff_toNat_le, hnat]; rfl

theorem isHello_eq (x : Go.Bytes) :
    p2pke.IsHello x = .ok (decide (4 ≤ x.length ∧ (counterOf x = 0 ∨ counterOf x = 1))) := by
  unfold p2pke.IsHello
  rw [(classify_eq x).1]
  simp only [bind_ok]
  by_cases h0 : 4 ≤ x.length ∧ counterOf x = 0
  · simp [h0]
  · simp only [h0, decide_false, Bool.not_false, if_true, (classify_eq x).2.1, bind_ok, pure_eq]
    congr 1; apply decide_eq_decide.mpr
    constructor
    · intro h; exact ⟨h.1, Or.inr h.2⟩
    · intro h; rcases h.2 with e | e
      · exact absurd ⟨h.1, e⟩ h0
      · exact ⟨h.1, e⟩

end P2PVerif.SrcKe
