import P2PVerif.Lemmas.SrcHdr
import P2PVerif.Lemmas.SrcMux
/-! p/mbapp/message.go, the setters: each one rewrites exactly one 32-bit word of the header; what a setter writes the
    matching getter reads back, and the other fields keep their values. -/
namespace P2PVerif.SrcHdr
open P2PVerif P2PVerif.Src P2PVerif.Go P2PVerif.SrcKad P2PVerif.SrcMux

/-- the header with word `n` replaced -/
def putWord (h : Go.Bytes) (n : Nat) (v : UInt32) : Go.Bytes := h.take (4 * n) ++ hdr32 v ++ h.drop (4 * n + 4)

theorem putWord_length (h : Go.Bytes) (n : Nat) (v : UInt32) (hn : 4 * n + 4 ≤ h.length) :
    (putWord h n v).length = h.length := by
  simp [putWord, hdr32]; omega

theorem setUint32_eq (h : Go.Bytes) (n : Nat) (v : UInt32) (hn : 4 * n + 4 ≤ h.length) :
    mbapp.Header.setUint32 h (n : Int) v = .ok (putWord h n v) := by
  unfold mbapp.Header.setUint32
  have e1 : ((n : Int) * 4) = ((4 * n : Nat) : Int) := by omega
  have e2 : (((n : Int) + 1) * 4) = ((4 * n + 4 : Nat) : Int) := by omega
  rw [e1, e2, Go.slice_ok _ _ _ (by omega) (by omega) (by omega)]
  simp only [bind_ok, Int.toNat_natCast]
  have e3 : (((4 * n + 4 : Nat) : Int) - ((4 * n : Nat) : Int)).toNat = 4 := by omega
  rw [e3]
  have hl : ((h.drop (4 * n)).take 4).length = 4 := by simp; omega
  have hb : Go.bePutU32 ((h.drop (4 * n)).take 4) v = .ok (hdr32 v) := by
    unfold Go.bePutU32
    have : ¬ ((h.drop (4 * n)).take 4).length < 4 := by omega
    rw [if_neg this]
    have : ((h.drop (4 * n)).take 4).drop 4 = [] := List.drop_eq_nil_of_le (by omega)
    simp [hdr32, this]
  rw [hb]
  simp only [bind_ok, pure_eq, Go.splice, Int.toNat_natCast, putWord, hdr32, List.length_cons, List.length_nil]

theorem word_putWord (h : Go.Bytes) (n m : Nat) (v : UInt32) (hn : 4 * n + 4 ≤ h.length) (hm : 4 * m + 4 ≤ h.length) :
    word (putWord h n v) m = if m = n then v.toNat else word h m := by
  unfold word putWord
  have hpre : (h.take (4 * n)).length = 4 * n := by rw [List.length_take]; omega
  have hh : (hdr32 v).length = 4 := by simp [hdr32]
  by_cases e : m = n
  · subst e
    rw [if_pos rfl]
    have : ((h.take (4 * m) ++ hdr32 v ++ h.drop (4 * m + 4)).drop (4 * m)).take 4 = hdr32 v := by
      rw [List.append_assoc, List.drop_append_of_le_length (by omega)]
      have : (h.take (4 * m)).drop (4 * m) = [] := List.drop_eq_nil_of_le (by omega)
      rw [this, List.nil_append, List.take_append_of_le_length (by omega)]
      exact List.take_of_length_le (by omega)
    rw [this, nb_hdr32]
    simp only [Mux.be4, Mbapp.val32]
    have := v.toNat_lt
    omega
  · rw [if_neg e]
    congr 2
    by_cases hlt : m < n
    · rw [List.append_assoc, List.drop_append_of_le_length (by omega), List.take_append_of_le_length (by
        rw [List.length_drop]; omega)]
      rw [List.drop_take, List.take_take]
      congr 1; omega
    · have hgt : n < m := by omega
      have hlen : (h.take (4 * n) ++ hdr32 v).length = 4 * n + 4 := by rw [List.length_append]; omega
      rw [List.drop_append, hlen, List.drop_eq_nil_of_le (by omega : (h.take (4 * n) ++ hdr32 v).length ≤ 4 * m),
        List.nil_append, List.drop_drop]
      congr 2; omega

theorem updateUint32_eq (h : Go.Bytes) (n : Nat) (fn : UInt32 → Go.M UInt32) (g : UInt32 → UInt32)
    (hfn : ∀ x, fn x = .ok (g x)) (hn : 4 * n + 4 ≤ h.length) :
    mbapp.Header.updateUint32 h (n : Int) fn = .ok (putWord h n (g (UInt32.ofNat (word h n)))) := by
  unfold mbapp.Header.updateUint32
  rw [getUint32_eq h n hn]
  simp only [bind_ok, hfn, setUint32_eq h n _ hn, pure_eq]

/-! ### bit arithmetic of the part word -/

theorem and_hi16 (x : Nat) (hx : x < 2 ^ 32) : x &&& 4294901760 = x / 65536 * 65536 := by
  apply Nat.eq_of_testBit_eq
  intro i
  have hm : (4294901760 : Nat) = (2 ^ 16 - 1) <<< 16 := by decide
  rw [Nat.testBit_and, hm, Nat.testBit_shiftLeft, Nat.testBit_two_pow_sub_one]
  have hd : x / 65536 * 65536 = (x >>> 16) <<< 16 := by
    rw [Nat.shiftRight_eq_div_pow, Nat.shiftLeft_eq]
  rw [hd, Nat.testBit_shiftLeft, Nat.testBit_shiftRight]
  by_cases h16 : 16 ≤ i
  · have e : 16 + (i - 16) = i := by omega
    simp only [h16, decide_true, Bool.true_and, e, ge_iff_le]
    by_cases h32 : i - 16 < 16
    · simp [h32]
    · have : x.testBit i = false := Nat.testBit_lt_two_pow (Nat.lt_of_lt_of_le hx (Nat.pow_le_pow_right (by decide) (by omega)))
      simp [h32, this]
  · simp [h16]

theorem or_lo_hi (lo hi : Nat) (hlo : lo < 65536) : lo ||| (hi <<< 16) = hi * 65536 + lo := by
  rw [Nat.or_comm, ← Nat.shiftLeft_add_eq_or_of_lt (by simpa using hlo), Nat.shiftLeft_eq]

theorem shl16_toNat (v : UInt16) : (Go.shl32 v.toUInt32 16).toNat = v.toNat <<< 16 := by
  simp only [Go.shl32, show (16 : Nat) < 32 by decide, if_true, UInt32.toNat_shiftLeft, UInt16.toNat_toUInt32]
  have : (Nat.toUInt32 16).toNat % 32 = 16 := by decide
  rw [this]
  have := v.toNat_lt
  apply Nat.mod_eq_of_lt
  rw [Nat.shiftLeft_eq]
  omega

/-- `SetPartIndex` -/
theorem SetPartIndex_eq (h : Go.Bytes) (v : UInt16) (hl : 20 ≤ h.length) :
    ∃ w : UInt32, mbapp.Header.SetPartIndex h v = .ok (putWord h 4 w) ∧ w.toNat = v.toNat * 65536 + word h 4 % 65536 := by
  unfold mbapp.Header.SetPartIndex
  have := updateUint32_eq h 4 (fun (x : UInt32) => (do
      pure ((x &&& (65535 : UInt32)) ||| (Go.shl32 (v).toUInt32 16)) : Go.M UInt32))
      (fun x => (x &&& 65535) ||| Go.shl32 v.toUInt32 16) (fun _ => rfl) (by omega)
  rw [show ((4 : Nat) : Int) = 4 from rfl] at this
  rw [this]
  refine ⟨_, rfl, ?_⟩
  rw [UInt32.toNat_or, and65535, shl16_toNat, u32_ofNat_toNat _ (word_lt h 4),
    or_lo_hi _ _ (Nat.mod_lt _ (by decide))]

/-- `SetPartCount` -/
theorem SetPartCount_eq (h : Go.Bytes) (v : UInt16) (hl : 20 ≤ h.length) :
    ∃ w : UInt32, mbapp.Header.SetPartCount h v = .ok (putWord h 4 w) ∧ w.toNat = word h 4 / 65536 * 65536 + v.toNat := by
  unfold mbapp.Header.SetPartCount
  have := updateUint32_eq h 4 (fun (x : UInt32) => (do
      pure ((x &&& (4294901760 : UInt32)) ||| (v).toUInt32) : Go.M UInt32))
      (fun x => (x &&& 4294901760) ||| v.toUInt32) (fun _ => rfl) (by omega)
  rw [show ((4 : Nat) : Int) = 4 from rfl] at this
  rw [this]
  refine ⟨_, rfl, ?_⟩
  rw [UInt32.toNat_or, UInt32.toNat_and, u32_ofNat_toNat _ (word_lt h 4), UInt16.toNat_toUInt32]
  have e : (4294901760 : UInt32).toNat = 4294901760 := rfl
  rw [e, and_hi16 _ (word_lt h 4)]
  have hv := v.toNat_lt
  have : word h 4 / 65536 * 65536 = (word h 4 / 65536) <<< 16 := by rw [Nat.shiftLeft_eq]
  rw [this, ← Nat.shiftLeft_add_eq_or_of_lt (by simpa using hv)]

/-- what the sender writes, the receiver reads: part index and part count share a word and do not disturb each
    other; every other field keeps its value -/
theorem part_fields_roundtrip (h : Go.Bytes) (idx cnt : UInt16) (hl : h.length = 24) :
    ∃ h1 h2, mbapp.Header.SetPartIndex h idx = .ok h1 ∧ mbapp.Header.SetPartCount h1 cnt = .ok h2 ∧
      h2.length = 24 ∧
      mbapp.Header.GetPartIndex h2 = .ok idx ∧ mbapp.Header.GetPartCount h2 = .ok cnt ∧
      (∀ m, m < 4 ∨ m = 5 → word h2 m = word h m) := by
  obtain ⟨w1, e1, hw1⟩ := SetPartIndex_eq h idx (by omega)
  have l1 : (putWord h 4 w1).length = 24 := by rw [putWord_length _ _ _ (by omega), hl]
  obtain ⟨w2, e2, hw2⟩ := SetPartCount_eq (putWord h 4 w1) cnt (by omega)
  have l2 : (putWord (putWord h 4 w1) 4 w2).length = 24 := by rw [putWord_length _ _ _ (by omega), l1]
  have hw1' : word (putWord h 4 w1) 4 = w1.toNat := by rw [word_putWord _ _ _ _ (by omega) (by omega)]; simp
  have hw2' : word (putWord (putWord h 4 w1) 4 w2) 4 = w2.toNat := by
    rw [word_putWord _ _ _ _ (by omega) (by omega)]; simp
  have hi := idx.toNat_lt
  have hc := cnt.toNat_lt
  refine ⟨_, _, e1, e2, l2, ?_, ?_, ?_⟩
  · rw [GetPartIndex_eq _ (by omega), hw2', hw2, hw1', hw1]
    congr 1
    apply UInt16.toNat_inj.mp
    rw [UInt16.toNat_ofNat']
    omega
  · rw [GetPartCount_eq _ (by omega), hw2', hw2]
    congr 1
    apply UInt16.toNat_inj.mp
    rw [UInt16.toNat_ofNat']
    omega
  · intro m hm
    rw [word_putWord _ _ _ _ (by omega) (by omega), word_putWord _ _ _ _ (by omega) (by omega)]
    have : ¬ m = 4 := by omega
    simp [this]

end P2PVerif.SrcHdr
