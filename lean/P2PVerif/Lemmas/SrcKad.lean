import P2PVerif.Gen.Src
import P2PVerif.Model.Cache
import P2PVerif.Lemmas.SrcLoops
/-! The functions of p/kademlia/distance.go (and `Cache.bucketIndex`) as regenerated from the Go source by
    `go2lean` (`Gen/Src.lean`) compute what the hand-written model `Model/Distance.lean` says, on every input, and
    never fault (HasPrefix: except for the documented panic). -/
namespace P2PVerif.SrcKad
open P2PVerif P2PVerif.Src P2PVerif.Go

/-- the Nat-valued bytes the hand-written models work on -/
def nb (x : Go.Bytes) : P2PVerif.Bytes := x.map UInt8.toNat

@[simp] theorem nb_nil : nb [] = [] := rfl
@[simp] theorem nb_cons (b : UInt8) (x : Go.Bytes) : nb (b :: x) = b.toNat :: nb x := rfl
@[simp] theorem nb_length (x : Go.Bytes) : (nb x).length = x.length := by simp [nb]
theorem nb_lt (x : Go.Bytes) : ∀ b ∈ nb x, b < 256 := by
  intro b hb
  simp only [nb, List.mem_map] at hb
  obtain ⟨u, _, rfl⟩ := hb
  exact u.toNat_lt

theorem lz8_eq (b : UInt8) : Go.leadingZeros8 b = (Kad.lz8 b.toNat : Int) := by
  unfold Go.leadingZeros8 Kad.lz8
  simp only [ge_iff_le, UInt8.le_iff_toNat_le]
  have e128 : (128 : UInt8).toNat = 128 := rfl
  have e64 : (64 : UInt8).toNat = 64 := rfl
  have e32 : (32 : UInt8).toNat = 32 := rfl
  have e16 : (16 : UInt8).toNat = 16 := rfl
  have e8 : (8 : UInt8).toNat = 8 := rfl
  have e4 : (4 : UInt8).toNat = 4 := rfl
  have e2 : (2 : UInt8).toNat = 2 := rfl
  have e1 : (1 : UInt8).toNat = 1 := rfl
  simp only [e128, e64, e32, e16, e8, e4, e2, e1]
  repeat' split
  all_goals simp

theorem idx_getD (x : Go.Bytes) (j : Int) (h0 : 0 ≤ j) (h1 : j < Go.len x) :
    Go.idx x j = .ok (x.getD j.toNat 0) := by
  unfold Go.len at h1
  have : j.toNat < x.length := by omega
  rw [Go.idx_ok x j h0 this]
  simp [List.getD_eq_getElem?_getD, this]

/-! ### min -/

def minStep (j : Int) (x : Int) (s : Int) : Go.Ctl Int Int := .next (if j = 0 ∨ x < s then x else s)

theorem min_cons (x : Int) (xs : List Int) :
    kademlia.min (x :: xs) = .ok (xs.foldl (fun r x => if x < r then x else r) x) := by
  unfold kademlia.min
  simp only [bind_ok]
  rw [Go.forEach_eq_pure _ minStep]
  · simp only [Go.pureForEach, minStep, true_or, if_true]
    have : ∀ (xs : List Int) (i : Int) (s : Int), 0 < i →
        Go.pureForEach (ρ := Int) xs i s minStep = .done (xs.foldl (fun r x => if x < r then x else r) s) := by
      intro xs
      induction xs with
      | nil => intros; rfl
      | cons y ys ih =>
        intro i s hi
        have : ¬ i = 0 := by omega
        simp only [Go.pureForEach, minStep, this, false_or, List.foldl_cons]
        exact ih _ _ (by omega)
    rw [this _ _ _ (by omega)]
    rfl
  · intro j x s _
    simp only [minStep]
    by_cases h : j = 0 ∨ x < s
    · rcases h with h | h <;> simp [h]
    · have h1 : ¬ j = 0 := fun e => h (Or.inl e)
      have h2 : ¬ x < s := fun e => h (Or.inr e)
      simp [h1, h2]

theorem min2 (a b : Int) : kademlia.min [a, b] = .ok (min a b) := by
  rw [min_cons]; simp only [List.foldl]; congr 1; omega

theorem min3 (a b c : Int) : kademlia.min [a, b, c] = .ok (min a (min b c)) := by
  rw [min_cons]; simp only [List.foldl]; congr 1; omega

/-! ### LeadingZeros -/

theorem lz8_le (b : Nat) : Kad.lz8 b ≤ 8 := by
  unfold Kad.lz8; repeat' split
  all_goals omega

def lzStep (x : Go.Bytes) (j : Int) (total : Int) : Go.Ctl Int Int :=
  let lz := Go.leadingZeros8 (x.getD j.toNat 0)
  if lz < 8 then .brk (total + lz) else .next (total + lz)

theorem lz_loop (x : Go.Bytes) : ∀ (n k : Nat) (total : Int), n + k = x.length →
    Go.pureLoopN (ρ := Int) n (k : Int) total (lzStep x) = .done (total + Kad.leadingZeros (nb (x.drop k))) := by
  intro n
  induction n with
  | zero =>
    intro k total h
    have : x.drop k = [] := List.drop_eq_nil_of_le (by omega)
    simp [Go.pureLoopN, this, Kad.leadingZeros]
  | succ n ih =>
    intro k total h
    have hk : k < x.length := by omega
    have hd : x.drop k = x[k] :: x.drop (k + 1) := (List.drop_eq_getElem_cons hk)
    have hg : x.getD (k : Int).toNat 0 = x[k] := by simp [List.getD_eq_getElem?_getD, hk]
    simp only [Go.pureLoopN, lzStep, hg, hd, nb_cons, Kad.leadingZeros, lz8_eq]
    by_cases h8 : Kad.lz8 x[k].toNat < 8
    · have : ((Kad.lz8 x[k].toNat : Nat) : Int) < 8 := by omega
      simp [h8, this]
    · have : ¬ ((Kad.lz8 x[k].toNat : Nat) : Int) < 8 := by omega
      simp only [h8, this, if_false]
      have := ih (k + 1) (total + (Kad.lz8 x[k].toNat : Int)) (by omega)
      simp only [Int.natCast_add, Int.cast_ofNat_Int] at this
      rw [this]
      congr 1
      have := lz8_le x[k].toNat
      omega

theorem LeadingZeros_eq (x : Go.Bytes) : kademlia.LeadingZeros x = .ok (Kad.leadingZeros (nb x) : Int) := by
  unfold kademlia.LeadingZeros
  simp only [bind_ok]
  rw [Go.forRange_eq_pure (fun _ => True) _ (lzStep x) 0 (Go.len x) 0 trivial]
  · have := lz_loop x x.length 0 0 (by omega)
    simp only [Go.len, Int.sub_zero, Int.toNat_natCast]
    simp only [Int.natCast_zero] at this
    rw [this]
    simp
  · intro j s h0 h1 _
    refine ⟨?_, fun _ _ => trivial⟩
    simp only [idx_getD x j h0 h1, bind_ok, lzStep, pure_eq, decide_eq_true_eq]
    split <;> rfl

/-! ### XORBytes -/

def xorStep (a b : Go.Bytes) (j : Int) (dst : Go.Bytes) : Go.Ctl Go.Bytes (Int × Go.Bytes) :=
  .next (dst.set j.toNat (a.getD j.toNat 0 ^^^ b.getD j.toNat 0))

/-- what `XORBytes` leaves in `dst` -/
def xorInto (dst a b : Go.Bytes) : Go.Bytes :=
  (List.zipWith (· ^^^ ·) a b).take dst.length ++ dst.drop (min a.length b.length)

theorem xor_loop (a b : Go.Bytes) : ∀ (n k : Nat) (s : Go.Bytes),
    ∃ s', Go.pureLoopN (ρ := Int × Go.Bytes) n (k : Int) s (xorStep a b) = .done s' ∧ s'.length = s.length ∧
      ∀ i, s'[i]? = if k ≤ i ∧ i < k + n ∧ i < s.length then some (a.getD i 0 ^^^ b.getD i 0) else s[i]? := by
  intro n
  induction n with
  | zero => intro k s; exact ⟨s, rfl, rfl, fun i => by simp; omega⟩
  | succ n ih =>
    intro k s
    obtain ⟨s', h1, h2, h3⟩ := ih (k + 1) (s.set k (a.getD k 0 ^^^ b.getD k 0))
    refine ⟨s', ?_, by simpa using h2, ?_⟩
    · simp only [Go.pureLoopN, xorStep, Int.toNat_natCast]
      exact h1
    · intro i
      rw [h3 i]
      simp only [List.length_set, List.getElem?_set]
      by_cases hik : k = i
      · subst hik
        by_cases hl : k < s.length
        · simp [hl]
        · have : s[k]? = none := by simp; omega
          simp [hl, this]
      · by_cases hc : k + 1 ≤ i ∧ i < k + 1 + n ∧ i < s.length
        · have : k ≤ i ∧ i < k + (n + 1) ∧ i < s.length := by omega
          simp [hc, this]
        · have : ¬ (k ≤ i ∧ i < k + (n + 1) ∧ i < s.length) := by omega
          simp [hc, this, hik]

theorem XORBytes_eq (dst a b : Go.Bytes) :
    kademlia.XORBytes dst a b = .ok (min (Go.len dst) (min (Go.len a) (Go.len b)), xorInto dst a b) := by
  unfold kademlia.XORBytes
  simp only [min3, bind_ok]
  have hl : (min (Go.len dst) (min (Go.len a) (Go.len b))) = ((min dst.length (min a.length b.length) : Nat) : Int) := by
    simp only [Go.len]; omega
  rw [Go.forRange_eq_pure (fun s => s.length = dst.length) _ (xorStep a b) _ _ dst rfl]
  · rw [hl]
    simp only [Int.sub_zero, Int.toNat_natCast]
    obtain ⟨s', h1, h2, h3⟩ := xor_loop a b (min dst.length (min a.length b.length)) 0 dst
    simp only [Int.natCast_zero] at h1
    simp only [h1, bind_ok, pure_eq]
    congr 2
    apply List.ext_getElem?
    intro i
    rw [h3 i]
    unfold xorInto
    have hlen : ((List.zipWith (· ^^^ ·) a b).take dst.length).length = min dst.length (min a.length b.length) := by
      simp
    by_cases hi : i < min dst.length (min a.length b.length)
    · have h4 : 0 ≤ i ∧ i < 0 + min dst.length (min a.length b.length) ∧ i < dst.length := by omega
      have hia : i < a.length := by omega
      have hib : i < b.length := by omega
      have hid : i < dst.length := by omega
      rw [if_pos h4, List.getElem?_append_left (by omega)]
      simp [List.getElem?_take, hid, List.getElem?_zipWith, hia, hib, List.getD_eq_getElem?_getD]
    · have h4 : ¬ (0 ≤ i ∧ i < 0 + min dst.length (min a.length b.length) ∧ i < dst.length) := by omega
      rw [if_neg h4, List.getElem?_append_right (by omega), hlen, List.getElem?_drop]
      by_cases hd : i < dst.length
      · congr 1; omega
      · rw [List.getElem?_eq_none (by omega), List.getElem?_eq_none (by omega)]
  · intro j s h0 h1 hs
    have hj : j < Go.len a ∧ j < Go.len b ∧ j.toNat < s.length := by
      simp only [Go.len] at *; omega
    refine ⟨?_, ?_⟩
    · simp only [idx_getD a j h0 hj.1, idx_getD b j h0 hj.2.1, bind_ok, Go.setIdx_ok s j _ h0 hj.2.2, xorStep, pure_eq]
    · intro s' he
      simp only [xorStep, Go.Ctl.next.injEq] at he
      subst he
      simpa using hs

theorem nb_zipWith_xor (a b : Go.Bytes) : nb (List.zipWith (· ^^^ ·) a b) = Kad.distance (nb a) (nb b) := by
  induction a generalizing b with
  | nil => simp [Kad.distance]
  | cons x xs ih =>
    cases b with
    | nil => simp [Kad.distance]
    | cons y ys =>
      have := ih ys
      simp only [Kad.distance] at this
      simp [Kad.distance, this]

theorem xorInto_zero (n : Nat) (a b : Go.Bytes) :
    xorInto (List.replicate n 0) a b
      = (List.zipWith (· ^^^ ·) a b).take n ++ List.replicate (n - min a.length b.length) 0 := by
  simp [xorInto]

/-! ### Distance -/

theorem Distance_eq (a b : Go.Bytes) : kademlia.Distance a b = .ok (List.zipWith (· ^^^ ·) a b) := by
  unfold kademlia.Distance
  have h0 : (0 : Int) ≤ min (Go.len a) (Go.len b) := by simp only [Go.len]; omega
  simp only [min2, bind_ok, Go.makeList_ok _ _ h0, XORBytes_eq, pure_eq]
  congr 1
  have : (min (Go.len a) (Go.len b)).toNat = min a.length b.length := by simp only [Go.len]; omega
  rw [this, xorInto_zero]
  simp
  exact List.take_of_length_le (by simp)

theorem Distance_model (a b : Go.Bytes) : (nb <$> kademlia.Distance a b) = .ok (Kad.distance (nb a) (nb b)) := by
  rw [Distance_eq]; simp [nb_zipWith_xor]

/-! ### DistanceCmp -/

def ordInt : Ordering → Int
  | .lt => -1
  | .eq => 0
  | .gt => 1

def cmpStep (x a b : Go.Bytes) (j : Int) (_ : Unit) : Go.Ctl Unit Int :=
  let xa := x.getD j.toNat 0 ^^^ a.getD j.toNat 0
  let xb := x.getD j.toNat 0 ^^^ b.getD j.toNat 0
  if xa < xb then .ret (-1) else if xb < xa then .ret 1 else .next ()

def cmpPost (x a b : Go.Bytes) (l : Nat) : Int :=
  if x.length = l then 0 else if a.length < b.length then -1 else if b.length < a.length then 1 else 0

theorem cmp_loop (x a b : Go.Bytes) (l : Nat) (hl : l = min x.length (min a.length b.length)) :
    ∀ (n k : Nat), n + k = l →
      (match Go.pureLoopN n (k : Int) () (cmpStep x a b) with
        | .ret v => v
        | .done _ => cmpPost x a b l)
      = ordInt (Kad.distanceCmp (nb (x.drop k)) (nb (a.drop k)) (nb (b.drop k))) := by
  intro n
  induction n with
  | zero =>
    intro k hk
    simp only [Go.pureLoopN]
    have hk' : k = l := by omega
    subst hk'
    unfold cmpPost
    cases hx : x.drop k with
    | nil =>
      have : x.length = k := by
        have := congrArg List.length hx
        simp at this; omega
      simp [this, Kad.distanceCmp, ordInt]
    | cons x0 xs =>
      have hxl : k < x.length := by
        have := congrArg List.length hx
        simp at this; omega
      have hne : ¬ x.length = k := by omega
      -- one of a, b ends at k
      have hab : a.drop k = [] ∨ b.drop k = [] := by
        have : a.length = k ∨ b.length = k := by omega
        rcases this with h | h
        · left; exact List.drop_eq_nil_of_le (by omega)
        · right; exact List.drop_eq_nil_of_le (by omega)
      have key : Kad.distanceCmp (nb (x0 :: xs)) (nb (a.drop k)) (nb (b.drop k))
          = if (a.drop k).length < (b.drop k).length then .lt
            else if (b.drop k).length < (a.drop k).length then .gt else .eq := by
        rcases hab with h | h
        · rw [h]; cases hb : b.drop k <;> simp [Kad.distanceCmp]
        · rw [h]; cases ha : a.drop k <;> simp [Kad.distanceCmp]
      rw [key]
      simp only [hne, if_false, List.length_drop]
      have hka : k ≤ a.length := by omega
      have hkb : k ≤ b.length := by omega
      by_cases h1 : a.length < b.length
      · have : a.length - k < b.length - k := by omega
        simp [h1, this, ordInt]
      · have h1' : ¬ a.length - k < b.length - k := by omega
        by_cases h2 : b.length < a.length
        · have : b.length - k < a.length - k := by omega
          simp [h1, h1', h2, this, ordInt]
        · have : ¬ b.length - k < a.length - k := by omega
          simp [h1, h1', h2, this, ordInt]
  | succ n ih =>
    intro k hk
    have hkx : k < x.length := by omega
    have hka : k < a.length := by omega
    have hkb : k < b.length := by omega
    rw [List.drop_eq_getElem_cons hkx, List.drop_eq_getElem_cons hka, List.drop_eq_getElem_cons hkb]
    have gx : x.getD (k : Int).toNat 0 = x[k] := by simp [List.getD_eq_getElem?_getD, hkx]
    have ga : a.getD (k : Int).toNat 0 = a[k] := by simp [List.getD_eq_getElem?_getD, hka]
    have gb : b.getD (k : Int).toNat 0 = b[k] := by simp [List.getD_eq_getElem?_getD, hkb]
    simp only [Go.pureLoopN, cmpStep, gx, ga, gb, nb_cons, Kad.distanceCmp]
    have e1 : (x[k] ^^^ a[k] < x[k] ^^^ b[k]) ↔ (x[k].toNat ^^^ a[k].toNat < x[k].toNat ^^^ b[k].toNat) := by
      rw [UInt8.lt_iff_toNat_lt, UInt8.toNat_xor, UInt8.toNat_xor]
    have e2 : (x[k] ^^^ b[k] < x[k] ^^^ a[k]) ↔ (x[k].toNat ^^^ b[k].toNat < x[k].toNat ^^^ a[k].toNat) := by
      rw [UInt8.lt_iff_toNat_lt, UInt8.toNat_xor, UInt8.toNat_xor]
    by_cases h1 : x[k].toNat ^^^ a[k].toNat < x[k].toNat ^^^ b[k].toNat
    · simp [e1, h1, ordInt]
    · by_cases h2 : x[k].toNat ^^^ b[k].toNat < x[k].toNat ^^^ a[k].toNat
      · simp [e1, e2, h1, h2, ordInt]
      · simp only [e1, e2, h1, h2, if_false]
        have := ih (k + 1) (by omega)
        simpa using this

theorem DistanceCmp_eq (x a b : Go.Bytes) :
    kademlia.DistanceCmp x a b = .ok (ordInt (Kad.distanceCmp (nb x) (nb a) (nb b))) := by
  unfold kademlia.DistanceCmp
  simp only [min3, bind_ok]
  have hl : (min (Go.len x) (min (Go.len a) (Go.len b))) = ((min x.length (min a.length b.length) : Nat) : Int) := by
    simp only [Go.len]; omega
  rw [Go.forRange_eq_pure (fun _ => True) _ (cmpStep x a b) _ _ () trivial]
  · rw [hl]
    simp only [Int.sub_zero, Int.toNat_natCast]
    have := cmp_loop x a b _ rfl (min x.length (min a.length b.length)) 0 (by omega)
    simp only [Int.natCast_zero, List.drop_zero] at this
    rw [← this]
    cases Go.pureLoopN (min x.length (min a.length b.length)) 0 () (cmpStep x a b) with
    | ret v => rfl
    | done s =>
      simp only [bind_ok, cmpPost, Go.len, pure_eq, decide_eq_true_eq]
      have e : ((x.length : Int) = ((min x.length (min a.length b.length) : Nat) : Int)) ↔ x.length = min x.length (min a.length b.length) := by omega
      have e1 : ((a.length : Int) < (b.length : Int)) ↔ a.length < b.length := by omega
      have e2 : ((b.length : Int) < (a.length : Int)) ↔ b.length < a.length := by omega
      simp only [e, e1, e2, decide_eq_true_eq]
      repeat' split
      all_goals first | rfl | contradiction
  · intro j s h0 h1 _
    have hj : j < Go.len x ∧ j < Go.len a ∧ j < Go.len b := by
      simp only [Go.len] at *; omega
    refine ⟨?_, fun _ _ => trivial⟩
    simp only [idx_getD x j h0 hj.1, idx_getD a j h0 hj.2.1, idx_getD b j h0 hj.2.2, bind_ok, cmpStep, pure_eq,
      decide_eq_true_eq]
    repeat' split
    all_goals rfl

theorem DistanceLt_eq (x a b : Go.Bytes) :
    kademlia.DistanceLt x a b = .ok (Kad.distanceLt (nb x) (nb a) (nb b)) := by
  unfold kademlia.DistanceLt Kad.distanceLt
  simp only [DistanceCmp_eq, bind_ok, pure_eq]
  cases Kad.distanceCmp (nb x) (nb a) (nb b) <;> simp [ordInt]

theorem DistanceGt_eq (x a b : Go.Bytes) :
    kademlia.DistanceGt x a b = .ok (Kad.distanceCmp (nb x) (nb a) (nb b) == .gt) := by
  unfold kademlia.DistanceGt
  simp only [DistanceCmp_eq, bind_ok, pure_eq]
  cases Kad.distanceCmp (nb x) (nb a) (nb b) <;> simp [ordInt]

/-! ### DistanceLz, bucketIndex, HasPrefix -/

theorem DistanceLz_eq (a b : Go.Bytes) :
    kademlia.DistanceLz a b = .ok (Kad.distanceLz (nb a) (nb b) : Int) := by
  unfold kademlia.DistanceLz
  simp only [min2, bind_ok]
  have hl : (min (Go.len a) (Go.len b)) = ((min a.length b.length : Nat) : Int) := by
    simp only [Go.len]; omega
  rw [Go.forRange_eq_pure (fun _ => True) _ (lzStep (List.zipWith (· ^^^ ·) a b)) _ _ 0 trivial]
  · rw [hl]
    simp only [Int.sub_zero, Int.toNat_natCast]
    have := lz_loop (List.zipWith (· ^^^ ·) a b) (min a.length b.length) 0 0 (by simp)
    simp only [Int.natCast_zero] at this
    rw [this]
    simp [Kad.distanceLz, nb_zipWith_xor]
  · intro j s h0 h1 _
    have hj : j < Go.len a ∧ j < Go.len b := by simp only [Go.len] at *; omega
    refine ⟨?_, fun _ _ => trivial⟩
    have hja : j.toNat < a.length := by simp only [Go.len] at hj; omega
    have hjb : j.toNat < b.length := by simp only [Go.len] at hj; omega
    have hz : (List.zipWith (· ^^^ ·) a b).getD j.toNat 0 = a.getD j.toNat 0 ^^^ b.getD j.toNat 0 := by
      simp [List.getD_eq_getElem?_getD, List.getElem?_zipWith, hja, hjb]
    simp only [idx_getD a j h0 hj.1, idx_getD b j h0 hj.2, bind_ok, lzStep, hz, pure_eq, decide_eq_true_eq]
    split <;> rfl

theorem bucketIndex_eq (locus key : Go.Bytes) :
    kademlia.Cache.bucketIndex locus key = .ok (Kad.bucketIndex (nb locus) (nb key) : Int) := by
  unfold kademlia.Cache.bucketIndex Kad.bucketIndex
  have h0 : (0 : Int) ≤ Go.len locus := by simp [Go.len]
  simp only [Go.makeList_ok _ _ h0, bind_ok, XORBytes_eq, LeadingZeros_eq, pure_eq]
  have : (Go.len locus).toNat = locus.length := by simp [Go.len]
  rw [this, xorInto_zero]
  congr 3
  have ht : (List.zipWith (· ^^^ ·) locus key).take locus.length = List.zipWith (· ^^^ ·) locus key :=
    List.take_of_length_le (by simp; omega)
  rw [ht]
  simp only [nb, List.map_append, List.map_replicate]
  have := nb_zipWith_xor locus key
  simp only [nb] at this
  rw [this]
  congr 2
  · simp; omega

/-- `HasPrefix` panics exactly when asked for more bits than the prefix has; otherwise it is the model's predicate -/
theorem HasPrefix_eq (x pfx : Go.Bytes) (nbits : Nat) :
    kademlia.HasPrefix x pfx nbits =
      if nbits > pfx.length * 8 then .error (Go.Fault.panic "nbits longer than prefix")
      else .ok (Kad.hasPrefix (nb x) (nb pfx) nbits) := by
  unfold kademlia.HasPrefix Kad.hasPrefix
  simp only [Go.len, decide_eq_true_eq, gt_iff_lt]
  have e1 : ((pfx.length : Int) * 8 < (nbits : Int)) ↔ pfx.length * 8 < nbits := by omega
  have e2 : ((x.length : Int) * 8 < (nbits : Int)) ↔ x.length * 8 < nbits := by omega
  simp only [e1, e2]
  by_cases h1 : pfx.length * 8 < nbits
  · simp [h1]
  · simp only [h1, if_false]
    by_cases h2 : x.length * 8 < nbits
    · have : ¬ nbits ≤ x.length * 8 := by omega
      simp [h2, this]
    · have h2' : nbits ≤ x.length * 8 := by omega
      have h0 : (0 : Int) ≤ (x.length : Int) := by omega
      have hx8 : decide (nbits ≤ (nb x).length * 8) = true := by simp [h2']
      rw [hx8, Bool.true_and]
      simp only [h2, if_false, Go.makeList_ok _ _ h0, bind_ok, XORBytes_eq, LeadingZeros_eq, pure_eq, Int.toNat_natCast,
        xorInto_zero]
      have ht : (List.zipWith (· ^^^ ·) x pfx).take x.length = List.zipWith (· ^^^ ·) x pfx :=
        List.take_of_length_le (by simp; omega)
      have hn : nb (List.zipWith (· ^^^ ·) x pfx ++ List.replicate (x.length - min x.length pfx.length) 0)
          = Kad.distance (nb x) (nb pfx) ++ List.replicate ((nb x).length - (nb pfx).length) 0 := by
        have : x.length - min x.length pfx.length = x.length - pfx.length := by omega
        rw [this]
        simp only [nb, List.map_append, List.map_replicate, List.length_map]
        have hz := nb_zipWith_xor x pfx
        simp only [nb] at hz
        rw [hz]
        rfl
      rw [ht, hn]
      simp

end P2PVerif.SrcKad
