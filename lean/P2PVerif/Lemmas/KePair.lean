import P2PVerif.Lemmas.KePairStep
/-! C06: one honest session pair under an arbitrary schedule of its own genuine messages. -/
set_option linter.unusedSimpArgs false
set_option linter.unusedVariables false
namespace P2PVerif.P2PKE
open P2PVerif

/-- invariant of the pair: each side's invariant, the reachable combinations of handshake indices, the replay
    filters only know counters the peer has used, and the pool only holds genuine messages -/
structure PInv (kI kR tI : Nat) (P : Pair) : Prop where
  i : IOk kI kR tI P.i
  r : ROk kI kR tI P.r
  c1 : 2 ≤ P.i.hs → 1 ≤ P.r.hs
  c2 : 3 ≤ P.r.hs → 2 ≤ P.i.hs
  c3 : 4 ≤ P.i.hs → 3 ≤ P.r.hs
  c4 : P.r.hs = 8 → 4 ≤ P.i.hs
  li : P.i.rp.last < P.r.nonce ∨ P.i.rp.last = 0
  lr : P.r.rp.last < P.i.nonce ∨ P.r.rp.last = 0
  pool : ∀ w ∈ P.pool, Gen kI kR tI P.i.hs P.i.nonce P.r.hs P.r.nonce w

variable {kI kR tI : Nat}

theorem Pair.add_i (P : Pair) (o : Option Wire) : (P.add o).i = P.i := by cases o <;> rfl
theorem Pair.add_r (P : Pair) (o : Option Wire) : (P.add o).r = P.r := by cases o <;> rfl

theorem step_toI (P : Pair) (k now : Nat) : P.step (.toI k now) =
    match P.pool[k]? with
    | none => P
    | some w => ({ P with i := (P.i.deliver w now).1 }).add
        (match (P.i.deliver w now).2 with | .hs o => o | _ => none) := rfl

theorem step_toR (P : Pair) (k now : Nat) : P.step (.toR k now) =
    match P.pool[k]? with
    | none => P
    | some w => ({ P with r := (P.r.deliver w now).1 }).add
        (match (P.r.deliver w now).2 with | .hs o => o | _ => none) := rfl

theorem step_hsI (P : Pair) : P.step .hsI = P.add P.i.handshake := rfl
theorem step_hsR (P : Pair) : P.step .hsR = P.add P.r.handshake := rfl

theorem step_sendI (P : Pair) (p : Bytes) (now : Nat) : P.step (.sendI p now) =
    ({ P with i := (P.i.send p now).1 }).add (P.i.send p now).2 := rfl

theorem step_sendR (P : Pair) (p : Bytes) (now : Nat) : P.step (.sendR p now) =
    ({ P with r := (P.r.send p now).1 }).add (P.r.send p now).2 := rfl

theorem PInv.iStep {P : Pair} (h : PInv kI kR tI P) (w : Wire) (hw : w ∈ P.pool) (now : Nat) :
    IStep kI kR tI P.r.hs P.r.nonce P.i (P.i.deliver w now).1 (P.i.deliver w now).2 :=
  I_step now h.i (h.pool w hw) h.li h.c1 h.c3 (fun hn => h.r.hs_of_nonce hn)

theorem PInv.rStep {P : Pair} (h : PInv kI kR tI P) (w : Wire) (hw : w ∈ P.pool) (now : Nat) :
    RStep kI kR tI P.i.hs P.i.nonce P.r (P.r.deliver w now).1 (P.r.deliver w now).2 :=
  R_step now h.r (h.pool w hw) h.lr h.c2 h.c4 (fun hn => h.i.hs_of_nonce hn)

theorem PInv.setI {P : Pair} (h : PInv kI kR tI P) {s' : Sess} {r : Res}
    (st : IStep kI kR tI P.r.hs P.r.nonce P.i s' r) : PInv kI kR tI { P with i := s' } :=
  { i := st.ok, r := h.r, c1 := st.c1, c2 := fun h3 => Nat.le_trans (h.c2 h3) st.hs, c3 := st.c3,
    c4 := fun h8 => Nat.le_trans (h.c4 h8) st.hs, li := st.last,
    lr := by
      show P.r.rp.last < s'.nonce ∨ P.r.rp.last = 0
      have := st.non
      rcases h.lr with h | h
      · left; omega
      · right; exact h,
    pool := fun w hw => (h.pool w hw).mono st.hs st.non (Nat.le_refl _) (Nat.le_refl _) }

theorem PInv.setR {P : Pair} (h : PInv kI kR tI P) {s' : Sess} {r : Res}
    (st : RStep kI kR tI P.i.hs P.i.nonce P.r s' r) : PInv kI kR tI { P with r := s' } :=
  { i := h.i, r := st.ok, c1 := fun h2 => Nat.le_trans (h.c1 h2) st.hs, c2 := st.c2,
    c3 := fun h4 => Nat.le_trans (h.c3 h4) st.hs, c4 := st.c4,
    li := by
      show P.i.rp.last < s'.nonce ∨ P.i.rp.last = 0
      have := st.non
      rcases h.li with h | h
      · left; omega
      · right; exact h,
    lr := st.last,
    pool := fun w hw => (h.pool w hw).mono (Nat.le_refl _) (Nat.le_refl _) st.hs st.non }

theorem PInv.add {P : Pair} (h : PInv kI kR tI P) (o : Option Wire)
    (ho : ∀ w, o = some w → Gen kI kR tI P.i.hs P.i.nonce P.r.hs P.r.nonce w) : PInv kI kR tI (P.add o) := by
  cases o with
  | none => exact h
  | some w =>
    exact { i := h.i, r := h.r, c1 := h.c1, c2 := h.c2, c3 := h.c3, c4 := h.c4, li := h.li, lr := h.lr,
            pool := fun x hx => by
              have hx : x ∈ P.pool ++ [w] := hx
              rcases List.mem_append.mp hx with hx | hx
              · exact h.pool x hx
              · have : x = w := by simpa using hx
                rw [this]; exact ho w rfl }

theorem PInv.init (kI kR tI tR ra : Nat) : PInv kI kR tI (Pair.init kI kR tI tR ra) := by
  have hh : (Sess.new true kI 0 tI ra).handshake = some (mIH kI tI) := rfl
  exact
  { i := { isInit := rfl, key := rfl, eph := rfl, hello := rfl, wedged := rfl, hs := Or.inl rfl,
           n0 := fun _ => rfl, n2 := fun h => (by cases h), n4 := fun h => (by simp [Pair.init, Sess.new] at h),
           peer := fun h => (by simp [Pair.init, Sess.new] at h), fresh := Replay.empty_fresh },
    r := { isInit := rfl, key := rfl, eph := rfl, wedged := rfl, hs := Or.inl rfl,
           n0 := fun _ => rfl, n3 := fun h => (by simp [Pair.init, Sess.new] at h),
           peer := fun h => (by simp [Pair.init, Sess.new] at h), fresh := Replay.empty_fresh },
    c1 := fun h => (by simp [Pair.init, Sess.new] at h), c2 := fun h => (by simp [Pair.init, Sess.new] at h),
    c3 := fun h => (by simp [Pair.init, Sess.new] at h), c4 := fun h => (by simp [Pair.init, Sess.new] at h),
    li := Or.inr rfl, lr := Or.inr rfl,
    pool := fun w hw => by
      have hw : w ∈ (Sess.new true kI 0 tI ra).handshake.toList := hw
      rw [hh] at hw
      have : w = mIH kI tI := by simpa using hw
      rw [this]; exact .ih }

theorem PInv.sendI {P : Pair} (h : PInv kI kR tI P) (p : Bytes) (now : Nat) :
    PInv kI kR tI (({ P with i := (P.i.send p now).1 }).add (P.i.send p now).2) := by
  rw [I_send h.i]
  split
  · exact h
  · rename_i hc
    have h4 : 4 ≤ P.i.hs := by omega
    have h16 := h.i.n4 h4
    apply PInv.add
    · exact { i := h.i.inc h4, r := h.r, c1 := h.c1, c2 := h.c2, c3 := h.c3, c4 := h.c4, li := h.li,
              lr := by
                show P.r.rp.last < P.i.nonce + 1 ∨ P.r.rp.last = 0
                rcases h.lr with h | h
                · left; omega
                · right; exact h,
              pool := fun w hw => (h.pool w hw).mono (Nat.le_refl _) (Nat.le_succ _) (Nat.le_refl _) (Nat.le_refl _) }
    · intro w hw
      cases hw
      exact .di _ _ h16 (Nat.lt_succ_self _)

theorem PInv.sendR {P : Pair} (h : PInv kI kR tI P) (p : Bytes) (now : Nat) :
    PInv kI kR tI (({ P with r := (P.r.send p now).1 }).add (P.r.send p now).2) := by
  rw [R_send h.r]
  split
  · exact h
  · rename_i hc
    have h3 : 3 ≤ P.r.hs := by omega
    have h16 := h.r.n3 h3
    apply PInv.add
    · exact { i := h.i, r := h.r.inc h3, c1 := h.c1, c2 := h.c2, c3 := h.c3, c4 := h.c4, lr := h.lr,
              li := by
                show P.i.rp.last < P.r.nonce + 1 ∨ P.i.rp.last = 0
                rcases h.li with h | h
                · left; omega
                · right; exact h,
              pool := fun w hw => (h.pool w hw).mono (Nat.le_refl _) (Nat.le_refl _) (Nat.le_refl _) (Nat.le_succ _) }
    · intro w hw
      cases hw
      exact .dr _ _ h16 (Nat.lt_succ_self _)

theorem PInv.step {P : Pair} (h : PInv kI kR tI P) (a : PAct) : PInv kI kR tI (P.step a) := by
  cases a with
  | toI k now =>
    rw [step_toI]
    split
    · exact h
    · rename_i w hk
      have hw : w ∈ P.pool := List.mem_of_getElem? hk
      have st := h.iStep w hw now
      apply PInv.add (h.setI st)
      intro o ho
      apply st.out
      revert ho
      cases (P.i.deliver w now).2 <;> intro ho <;> cases ho <;> rfl
  | toR k now =>
    rw [step_toR]
    split
    · exact h
    · rename_i w hk
      have hw : w ∈ P.pool := List.mem_of_getElem? hk
      have st := h.rStep w hw now
      apply PInv.add (h.setR st)
      intro o ho
      apply st.out
      revert ho
      cases (P.r.deliver w now).2 <;> intro ho <;> cases ho <;> rfl
  | hsI => exact h.add _ (fun w hw => I_hs_gen h.i _ _ w hw)
  | hsR => exact h.add _ (fun w hw => R_hs_gen h.r _ _ w hw)
  | sendI p now => rw [step_sendI]; exact h.sendI p now
  | sendR p now => rw [step_sendR]; exact h.sendR p now

theorem PInv.run {P : Pair} (h : PInv kI kR tI P) (acts : List PAct) : PInv kI kR tI (P.run acts) := by
  induction acts generalizing P with
  | nil => exact h
  | cons a as ih => exact ih (h.step a)

theorem PInv.reach (kI kR tI tR ra : Nat) (acts : List PAct) :
    PInv kI kR tI ((Pair.init kI kR tI tR ra).run acts) := (PInv.init kI kR tI tR ra).run acts

/-! ### the C06 properties -/

theorem failed_deliver_is_noop (kI kR tI tR ra : Nat) (acts : List PAct) (k now : Nat) (w : Wire) :
    let P := (Pair.init kI kR tI tR ra).run acts
    P.pool[k]? = some w →
    ((P.i.deliver w now).2 = .err → (P.i.deliver w now).1 = P.i) ∧
    ((P.r.deliver w now).2 = .err → (P.r.deliver w now).1 = P.r) := by
  intro P hk
  have h : PInv kI kR tI P := PInv.reach kI kR tI tR ra acts
  have hw := List.mem_of_getElem? hk
  exact ⟨(h.iStep w hw now).err, (h.rStep w hw now).err⟩

theorem no_fault (kI kR tI tR ra : Nat) (acts : List PAct) :
    let P := (Pair.init kI kR tI tR ra).run acts
    (P.i.hs < 4 → (P.i.hs = 0 ∨ P.i.hs = 2) → P.i.handshake.isSome) ∧
    (P.r.hs < 4 → (P.r.hs = 1 ∨ P.r.hs = 3) → P.r.handshake.isSome) := by
  intro P
  have h : PInv kI kR tI P := PInv.reach kI kR tI tR ra acts
  refine ⟨fun _ h02 => ?_, fun _ h13 => ?_⟩
  · rw [I_handshake h.i]
    rcases h02 with h0 | h0 <;> simp [h0]
  · rw [R_handshake h.r]
    rcases h13 with h0 | h0 <;> simp [h0]

/-- holds for any pair, reachable or not -/
theorem step_handshake_idempotent (P : Pair) (a : PAct) :
    ((P.step a).i.hs = P.i.hs → (P.step a).i.handshake = P.i.handshake) ∧
    ((P.step a).r.hs = P.r.hs → (P.step a).r.handshake = P.r.handshake) := by
  cases a with
  | toI k now =>
    rw [step_toI]
    split
    · exact ⟨fun _ => rfl, fun _ => rfl⟩
    · rw [Pair.add_i, Pair.add_r]
      exact ⟨fun h => deliver_handshake_of_hs_eq _ _ _ h, fun _ => rfl⟩
  | toR k now =>
    rw [step_toR]
    split
    · exact ⟨fun _ => rfl, fun _ => rfl⟩
    · rw [Pair.add_i, Pair.add_r]
      exact ⟨fun _ => rfl, fun h => deliver_handshake_of_hs_eq _ _ _ h⟩
  | hsI => rw [step_hsI, Pair.add_i, Pair.add_r]; exact ⟨fun _ => rfl, fun _ => rfl⟩
  | hsR => rw [step_hsR, Pair.add_i, Pair.add_r]; exact ⟨fun _ => rfl, fun _ => rfl⟩
  | sendI p now =>
    rw [step_sendI, Pair.add_i, Pair.add_r]
    exact ⟨fun _ => send_handshake _ _ _, fun _ => rfl⟩
  | sendR p now =>
    rw [step_sendR, Pair.add_i, Pair.add_r]
    exact ⟨fun _ => rfl, fun _ => send_handshake _ _ _⟩

theorem handshake_idempotent (kI kR tI tR ra : Nat) (acts : List PAct) (a : PAct) :
    let P := (Pair.init kI kR tI tR ra).run acts
    let P' := P.step a
    (P'.i.hs = P.i.hs → P'.i.handshake = P.i.handshake) ∧ (P'.r.hs = P.r.hs → P'.r.handshake = P.r.handshake) :=
  step_handshake_idempotent _ a

/-! ### completion -/

/-- neither session is expired at `now` and both are below the message limit -/
def Live (P : Pair) (now : Nat) : Prop :=
  now ≤ P.i.expiresAt ∧ now ≤ P.r.expiresAt ∧ P.i.nonce + 1 < maxNonce ∧ P.r.nonce + 1 < maxNonce

theorem not_expired {s : Sess} {now : Nat} (h1 : now ≤ s.expiresAt) (h2 : s.nonce + 1 < maxNonce) :
    s.expired now = false := by
  simp [Sess.expired]; omega

/-- the initiator's current handshake message is handed to the responder -/
def Pair.halfR (P : Pair) (now : Nat) : Pair :=
  match P.i.handshake with
  | some w => { P with r := (P.r.deliver w now).1 }
  | none => P

/-- the responder's current handshake message is handed to the initiator -/
def Pair.halfI (P : Pair) (now : Nat) : Pair :=
  match P.r.handshake with
  | some w => { P with i := (P.i.deliver w now).1 }
  | none => P

theorem exchange_eq (P : Pair) (now : Nat) :
    P.exchange now = (((P.halfR now).halfI now).halfR now).halfI now := rfl

theorem deliverR_spec {P : Pair} {now : Nat} {w : Wire} (h : PInv kI kR tI P) (hl : Live P now)
    (hg : Gen kI kR tI P.i.hs P.i.nonce P.r.hs P.r.nonce w) :
    PInv kI kR tI { P with r := (P.r.deliver w now).1 } ∧ Live { P with r := (P.r.deliver w now).1 } now ∧
    P.r.hs ≤ (P.r.deliver w now).1.hs := by
  have st := R_step now h.r hg h.lr h.c2 h.c4 (fun hn => h.i.hs_of_nonce hn)
  refine ⟨h.setR st, ⟨hl.1, ?_, hl.2.2.1, ?_⟩, st.hs⟩
  · show now ≤ (P.r.deliver w now).1.expiresAt
    rw [st.exp]; exact hl.2.1
  · show (P.r.deliver w now).1.nonce + 1 < maxNonce
    have := maxNonce_gt
    rcases st.non' with h | h <;> rw [h]
    · exact hl.2.2.2
    · omega

theorem deliverI_spec {P : Pair} {now : Nat} {w : Wire} (h : PInv kI kR tI P) (hl : Live P now)
    (hg : Gen kI kR tI P.i.hs P.i.nonce P.r.hs P.r.nonce w) :
    PInv kI kR tI { P with i := (P.i.deliver w now).1 } ∧ Live { P with i := (P.i.deliver w now).1 } now ∧
    P.i.hs ≤ (P.i.deliver w now).1.hs := by
  have st := I_step now h.i hg h.li h.c1 h.c3 (fun hn => h.r.hs_of_nonce hn)
  refine ⟨h.setI st, ⟨?_, hl.2.1, ?_, hl.2.2.2⟩, st.hs⟩
  · show now ≤ (P.i.deliver w now).1.expiresAt
    rw [st.exp]; exact hl.1
  · show (P.i.deliver w now).1.nonce + 1 < maxNonce
    have := maxNonce_gt
    rcases st.non' with h | h <;> rw [h]
    · exact hl.2.2.1
    · omega

theorem halfR_spec {P : Pair} {now : Nat} (h : PInv kI kR tI P) (hl : Live P now) :
    PInv kI kR tI (P.halfR now) ∧ Live (P.halfR now) now ∧ (P.halfR now).i = P.i ∧
    P.r.hs ≤ (P.halfR now).r.hs ∧
    (P.i.hs = 0 → 1 ≤ (P.halfR now).r.hs) ∧ (P.i.hs = 2 → 3 ≤ (P.halfR now).r.hs) := by
  have hx : P.r.expired now = false := not_expired hl.2.1 hl.2.2.2
  unfold Pair.halfR
  rw [I_handshake h.i]
  by_cases h0 : P.i.hs = 0
  · rw [if_pos h0]
    dsimp only
    obtain ⟨a, b, c⟩ := deliverR_spec h hl (.ih : Gen kI kR tI P.i.hs P.i.nonce P.r.hs P.r.nonce _)
    refine ⟨a, b, rfl, c, fun _ => ?_, fun h2 => by omega⟩
    rw [R_mIH h.r, hx]
    simp only [Bool.false_eq_true, if_false]
    split
    · exact Nat.le_refl _
    · show 1 ≤ P.r.hs; omega
  · rw [if_neg h0]
    by_cases h2 : P.i.hs = 2
    · rw [if_pos h2]
      dsimp only
      obtain ⟨a, b, c⟩ := deliverR_spec h hl (.id (by omega) : Gen kI kR tI P.i.hs P.i.nonce P.r.hs P.r.nonce _)
      refine ⟨a, b, rfl, c, fun _ => by omega, fun _ => ?_⟩
      rw [R_mID h.r, hx]
      simp only [Bool.false_eq_true, if_false]
      split
      · exact Nat.le_refl _
      · show 3 ≤ P.r.hs
        have := h.c1 (by omega)
        rcases h.r.hs with h' | h' | h' | h' <;> omega
    · rw [if_neg h2]
      exact ⟨h, hl, rfl, Nat.le_refl _, fun _ => by omega, fun _ => by omega⟩

theorem halfI_spec {P : Pair} {now : Nat} (h : PInv kI kR tI P) (hl : Live P now) :
    PInv kI kR tI (P.halfI now) ∧ Live (P.halfI now) now ∧ (P.halfI now).r = P.r ∧
    P.i.hs ≤ (P.halfI now).i.hs ∧
    (P.r.hs = 1 → 2 ≤ (P.halfI now).i.hs) ∧ (P.r.hs = 3 → 4 ≤ (P.halfI now).i.hs) := by
  have hx : P.i.expired now = false := not_expired hl.1 hl.2.2.1
  unfold Pair.halfI
  rw [R_handshake h.r]
  by_cases h1 : P.r.hs = 1
  · rw [if_pos h1]
    dsimp only
    obtain ⟨a, b, c⟩ := deliverI_spec h hl (.rh (by omega) : Gen kI kR tI P.i.hs P.i.nonce P.r.hs P.r.nonce _)
    refine ⟨a, b, rfl, c, fun _ => ?_, fun h2 => by omega⟩
    rw [I_mRH h.i, hx]
    simp only [Bool.false_eq_true, if_false]
    split
    · exact Nat.le_refl _
    · show 2 ≤ P.i.hs
      rcases h.i.hs with h' | h' | h' | h' <;> omega
  · rw [if_neg h1]
    by_cases h3 : P.r.hs = 3
    · rw [if_pos h3]
      dsimp only
      obtain ⟨a, b, c⟩ := deliverI_spec h hl (.rd (by omega) : Gen kI kR tI P.i.hs P.i.nonce P.r.hs P.r.nonce _)
      refine ⟨a, b, rfl, c, fun _ => by omega, fun _ => ?_⟩
      rw [I_mRD h.i, hx]
      simp only [Bool.false_eq_true, if_false]
      split
      · exact Nat.le_refl _
      · show 4 ≤ P.i.hs
        have := h.c2 (by omega)
        rcases h.i.hs with h' | h' | h' | h' <;> omega
    · rw [if_neg h3]
      exact ⟨h, hl, rfl, Nat.le_refl _, fun _ => by omega, fun _ => by omega⟩

/-- one round of the exchange: the initiator advances by one handshake step (unless it is done) -/
theorem round_spec {P : Pair} {now : Nat} (h : PInv kI kR tI P) (hl : Live P now) :
    PInv kI kR tI ((P.halfR now).halfI now) ∧ Live ((P.halfR now).halfI now) now ∧
    P.i.hs ≤ ((P.halfR now).halfI now).i.hs ∧
    (P.i.hs = 0 → 2 ≤ ((P.halfR now).halfI now).i.hs) ∧ (P.i.hs = 2 → 4 ≤ ((P.halfR now).halfI now).i.hs) := by
  obtain ⟨a1, b1, e1, m1, p1, q1⟩ := halfR_spec h hl
  obtain ⟨a2, b2, e2, m2, p2, q2⟩ := halfI_spec a1 b1
  rw [e1] at m2
  refine ⟨a2, b2, m2, fun h0 => ?_, fun h2 => ?_⟩
  · have := p1 h0
    have c2 := a2.c2
    rw [e2] at c2
    rcases a1.r.hs with h' | h' | h' | h' <;> omega
  · have := q1 h2
    have c4 := a2.c4
    rw [e2] at c4
    rcases a1.r.hs with h' | h' | h' | h' <;> omega

theorem exchange_spec {P : Pair} {now : Nat} (h : PInv kI kR tI P) (hl : Live P now) :
    PInv kI kR tI (P.exchange now) ∧ Live (P.exchange now) now ∧ 4 ≤ (P.exchange now).i.hs ∧
    3 ≤ (P.exchange now).r.hs := by
  rw [exchange_eq]
  obtain ⟨a1, b1, m1, p1, q1⟩ := round_spec h hl
  obtain ⟨a2, b2, m2, p2, q2⟩ := round_spec a1 b1
  have h4 : 4 ≤ ((((P.halfR now).halfI now).halfR now).halfI now).i.hs := by
    rcases h.i.hs with h' | h' | h' | h' <;> rcases a1.i.hs with h'' | h'' | h'' | h'' <;> omega
  exact ⟨a2, b2, h4, a2.c3 h4⟩

theorem completion (kI kR tI tR ra : Nat) (acts : List PAct) (now : Nat) (p q : Bytes)
    (hlive : let P := (Pair.init kI kR tI tR ra).run acts
             now ≤ P.i.expiresAt ∧ now ≤ P.r.expiresAt ∧ P.i.nonce + 1 < maxNonce ∧ P.r.nonce + 1 < maxNonce) :
    let P := ((Pair.init kI kR tI tR ra).run acts).exchange now
    P.i.isReady = true ∧ P.r.isReady = true ∧
    (∃ w sI, P.i.send p now = (sI, some w) ∧ (P.r.deliver w now).2 = .app p) ∧
    (∃ w sR, P.r.send q now = (sR, some w) ∧ (P.i.deliver w now).2 = .app q) := by
  intro P
  obtain ⟨h, hl, h4, h3⟩ := exchange_spec (PInv.reach kI kR tI tR ra acts) hlive
  have h : PInv kI kR tI P := h
  have hl : Live P now := hl
  have h4 : 4 ≤ P.i.hs := h4
  have h3 : 3 ≤ P.r.hs := h3
  have hxi : P.i.expired now = false := not_expired hl.1 hl.2.2.1
  have hxr : P.r.expired now = false := not_expired hl.2.1 hl.2.2.2
  have ni := h.i.n4 h4
  have nr := h.r.n3 h3
  refine ⟨?_, ?_, ?_, ?_⟩
  · simp [Sess.isReady, Sess.canSend, Sess.canReceive, h.i.isInit]; omega
  · simp [Sess.isReady, Sess.canSend, Sess.canReceive, h.r.isInit]; omega
  · refine ⟨mDat kI tI .i2r P.i.nonce p, { P.i with nonce := P.i.nonce + 1 }, ?_, ?_⟩
    · rw [I_send h.i, hxi, if_neg (by simp; omega)]
    · have hv : (Replay.validate P.r.rp P.i.nonce maxNonce).2 = true :=
        Replay.validate_accepts _ _ _ h.r.fresh (by rcases h.lr with h' | h' <;> omega) (by have := hl.2.2.1; omega)
      rw [R_dat h.r _ _ _ ni, hxr, if_neg (by simp), if_neg (by omega), hv]
      rfl
  · refine ⟨mDat kI tI .r2i P.r.nonce q, { P.r with nonce := P.r.nonce + 1 }, ?_, ?_⟩
    · rw [R_send h.r, hxr, if_neg (by simp; omega)]
    · have hv : (Replay.validate P.i.rp P.r.nonce maxNonce).2 = true :=
        Replay.validate_accepts _ _ _ h.i.fresh (by rcases h.li with h' | h' <;> omega) (by have := hl.2.2.2; omega)
      rw [I_dat h.i _ _ _ nr, hxi, if_neg (by simp), if_neg (by omega), hv]
      rfl

end P2PVerif.P2PKE
