import P2PVerif.Gen.Src
import P2PVerif.Model.Replay
import P2PVerif.Lemmas.SrcLoops
import P2PVerif.Lemmas.Replay
/-! golang.zx2c4.com/wireguard/replay (`Filter.ValidateCounter`, the replay window of every P2PKE session), as
    regenerated from the Go source of the module the repository builds against, is the model `Replay.validate`. -/
namespace P2PVerif.SrcReplay
open P2PVerif P2PVerif.Src P2PVerif.Go

theorem shr6 (c : UInt64) : (Go.shr64 c 6).toNat = c.toNat / 64 := by
  simp only [Go.shr64, show (6 : Nat) < 64 by decide, if_true, UInt64.toNat_shiftRight]
  have : (Nat.toUInt64 6).toNat % 64 = 6 := by decide
  rw [this, Nat.shiftRight_eq_div_pow]

theorem and127 (x : UInt64) : (x &&& 127).toNat = x.toNat % 128 := by
  rw [UInt64.toNat_and]
  exact Nat.and_two_pow_sub_one_eq_mod x.toNat 7

theorem and63 (x : UInt64) : (x &&& 63).toNat = x.toNat % 64 := by
  rw [UInt64.toNat_and]
  exact Nat.and_two_pow_sub_one_eq_mod x.toNat 6

theorem shl1 (b : Nat) (h : b < 64) : (Go.shl64 1 b).toNat = 1 <<< b := by
  simp only [Go.shl64, h, if_true, UInt64.toNat_shiftLeft]
  have hb : (Nat.toUInt64 b).toNat % 64 = b := by
    simp only [Nat.toUInt64, UInt64.toNat_ofNat']
    omega
  rw [hb]
  have : (1 : UInt64).toNat = 1 := rfl
  rw [this]
  simp only [Nat.shiftLeft_eq, Nat.one_mul]
  exact Nat.mod_eq_of_lt (Nat.pow_lt_pow_right (by decide) h)

/-- the ring after clearing blocks `start+1 .. start+n` -/
def clearU (ring : List UInt64) (start : Nat) : Nat → List UInt64
  | 0 => ring
  | n + 1 => (clearU ring start n).set ((start + (n + 1)) % 128) 0

theorem clearU_length (ring : List UInt64) (s n : Nat) : (clearU ring s n).length = ring.length := by
  induction n with
  | zero => rfl
  | succ n ih => simp [clearU, ih]

abbrev St := replay.FilterT × UInt64

/-- the clearing loop: `for i := current + 1; i <= current+diff; i++ { f.ring[i&blockMask] = 0 }` -/
theorem loop_clear (f : replay.FilterT) (hlen : f.ring.length = 128) (current diff : UInt64)
    (hno : current.toNat + diff.toNat + 1 < 2 ^ 64)
    (cond : St → Go.M Bool) (body : St → Go.M (Go.Ctl St (Bool × replay.FilterT))) (post : St → Go.M St)
    (hc : ∀ g i, cond (g, i) = .ok (decide (i ≤ current + diff)))
    (hb : ∀ (g : replay.FilterT) i, g.ring.length = 128 →
      body (g, i) = .ok (.next ({ g with ring := g.ring.set (i.toNat % 128) 0 }, i)))
    (hp : ∀ g i, post (g, i) = .ok (g, i + 1)) :
    ∀ (r j fuel : Nat), j + r = diff.toNat → r < fuel →
      Go.loop fuel ({ f with ring := clearU f.ring current.toNat j }, current + 1 + UInt64.ofNat j) cond body post
        = .ok (.done ({ f with ring := clearU f.ring current.toNat diff.toNat },
                       current + 1 + UInt64.ofNat diff.toNat)) := by
  intro r
  induction r with
  | zero =>
    intro j fuel hj hf
    obtain ⟨fuel, rfl⟩ : ∃ k, fuel = k + 1 := ⟨fuel - 1, by omega⟩
    have hjd : j = diff.toNat := by omega
    subst hjd
    have e : UInt64.ofNat diff.toNat = diff := UInt64.ofNat_toNat
    rw [e]
    have : ¬ (current + 1 + diff ≤ current + diff) := by
      rw [UInt64.le_iff_toNat_le]
      simp only [UInt64.toNat_add]
      have h1 : (1 : UInt64).toNat = 1 := rfl
      rw [h1]
      have := diff.toNat_lt
      omega
    simp only [Go.loop, hc, this, decide_false, bind_ok, Bool.false_eq_true, if_false, pure_eq]
  | succ r ih =>
    intro j fuel hj hf
    obtain ⟨fuel, rfl⟩ : ∃ k, fuel = k + 1 := ⟨fuel - 1, by omega⟩
    have hi : (current + 1 + UInt64.ofNat j).toNat = current.toNat + 1 + j := by
      simp only [UInt64.toNat_add, UInt64.toNat_ofNat']
      have h1 : (1 : UInt64).toNat = 1 := rfl
      rw [h1]
      omega
    have hle : current + 1 + UInt64.ofNat j ≤ current + diff := by
      rw [UInt64.le_iff_toNat_le, hi]
      simp only [UInt64.toNat_add]
      omega
    have hlen' : (clearU f.ring current.toNat j).length = 128 := by rw [clearU_length, hlen]
    have hnext : current + 1 + UInt64.ofNat j + 1 = current + 1 + UInt64.ofNat (j + 1) := by
      apply UInt64.toNat_inj.mp
      simp only [UInt64.toNat_add, UInt64.toNat_ofNat']
      have h1 : (1 : UInt64).toNat = 1 := rfl
      rw [h1]
      omega
    have hset : (clearU f.ring current.toNat j).set ((current + 1 + UInt64.ofNat j).toNat % 128) 0
        = clearU f.ring current.toNat (j + 1) := by
      rw [hi]; simp only [clearU]; congr 2; omega
    have hb' := hb { f with ring := clearU f.ring current.toNat j } (current + 1 + UInt64.ofNat j) hlen'
    simp only [Go.loop, hc, hle, decide_true, bind_ok, if_true, hb', hp]
    simp only [hset, hnext]
    exact ih (j + 1) fuel (by omega) (by omega)

/-! ### the model -/

/-- the regenerated filter and the model's filter are in the same state -/
def frel (f : replay.FilterT) (m : Replay.Filter) : Prop :=
  m.last = f.last.toNat ∧ m.ring.toList = f.ring.map UInt64.toNat ∧ f.ring.length = 128

theorem clearU_model (ring : List UInt64) (a : Array Nat) (h : a.toList = ring.map UInt64.toNat) (s n : Nat) :
    (Replay.clear a s n).toList = (clearU ring s n).map UInt64.toNat := by
  induction n with
  | zero => exact h
  | succ n ih =>
    simp only [Replay.clear, clearU, Array.toList_setIfInBounds, ih, List.map_set]
    rfl

theorem u64_ne_decide (a b : UInt64) : decide (a ≠ b) = (a.toNat != b.toNat) := by
  by_cases h : a = b
  · subst h; simp
  · have : a.toNat ≠ b.toNat := fun e => h (UInt64.toNat_inj.mp e)
    simp [h, this]

/-- "check and set bit" -/
def stepU (counter : UInt64) (f : replay.FilterT) : Bool × replay.FilterT :=
  let ib := counter.toNat / 64 % 128
  let old := f.ring.getD ib 0
  let new := old ||| Go.shl64 1 (counter.toNat % 64)
  (decide (old ≠ new), { f with ring := f.ring.set ib new })

theorem stepU_model (counter : UInt64) (f : replay.FilterT) (m : Replay.Filter) (h : frel f m) :
    let r := stepU counter f
    let ib := counter.toNat / 64 % 128
    let old := m.ring.getD ib 0
    let new := old ||| (1 <<< (counter.toNat % 64))
    frel r.2 { m with ring := m.ring.setIfInBounds ib new } ∧ r.1 = (old != new) := by
  obtain ⟨hl, hr, hlen⟩ := h
  have hib : counter.toNat / 64 % 128 < f.ring.length := by rw [hlen]; omega
  have hold : m.ring.getD (counter.toNat / 64 % 128) 0 = (f.ring.getD (counter.toNat / 64 % 128) 0).toNat := by
    have : m.ring.getD (counter.toNat / 64 % 128) 0 = m.ring.toList.getD (counter.toNat / 64 % 128) 0 := by
      simp [Array.getD_eq_getD_getElem?, List.getD_eq_getElem?_getD]
    rw [this, hr]
    simp [List.getD_eq_getElem?_getD, hib]
  have hnew : (f.ring.getD (counter.toNat / 64 % 128) 0 ||| Go.shl64 1 (counter.toNat % 64)).toNat
      = (f.ring.getD (counter.toNat / 64 % 128) 0).toNat ||| (1 <<< (counter.toNat % 64)) := by
    rw [UInt64.toNat_or, shl1 _ (by omega)]
  simp only [stepU]
  refine ⟨⟨hl, ?_, by simpa using hlen⟩, ?_⟩
  · simp only [Array.toList_setIfInBounds, hr, List.map_set, hold, hnew]
  · rw [hold, ← hnew]
    exact u64_ne_decide _ _

/-- the tail of `ValidateCounter` ("check and set bit") on a ring of 128 blocks -/
theorem k1_eq (counter : UInt64) (g : replay.FilterT) (hlen : g.ring.length = 128) :
    (do
      let indexBlock := ((Go.shr64 counter 6) &&& (127 : UInt64))
      let indexBit := (counter &&& (63 : UInt64))
      let t_2 ← Go.idx g.ring ((indexBlock).toNat : Int)
      let old := t_2
      let new := (old ||| (Go.shl64 (1 : UInt64) (indexBit).toNat))
      let t_3 ← Go.setIdx g.ring ((indexBlock).toNat : Int) new
      let f := { g with ring := t_3 }
      pure ((decide (old ≠ new)), f) : Go.M (Bool × replay.FilterT)) = .ok (stepU counter g) := by
  have e1 : ((Go.shr64 counter 6) &&& (127 : UInt64)).toNat = counter.toNat / 64 % 128 := by rw [and127, shr6]
  have e2 : (counter &&& (63 : UInt64)).toNat = counter.toNat % 64 := and63 counter
  have hib : counter.toNat / 64 % 128 < g.ring.length := by rw [hlen]; omega
  simp only [e1, e2]
  rw [Go.idx_ofNat _ _ hib]
  simp only [bind_ok]
  have e3 : (((counter.toNat / 64 % 128 : Nat) : Int)).toNat = counter.toNat / 64 % 128 := by omega
  rw [Go.setIdx_ok _ _ _ (by omega) (by rw [e3]; exact hib)]
  simp only [bind_ok, pure_eq, e3, stepU, List.getD_eq_getElem?_getD, List.getElem?_eq_getElem hib, Option.getD_some]

abbrev rCond (current d : UInt64) : St → Go.M Bool := fun st => do
  let (f, i) := st
  pure (decide (i ≤ (current + d)))
abbrev rBody : St → Go.M (Go.Ctl St (Bool × replay.FilterT)) := fun st => do
  let (f, i) := st
  let t_6 ← Go.setIdx f.ring (((i &&& (127 : UInt64))).toNat : Int) (0 : UInt64)
  let f := { f with ring := t_6 }
  pure (Go.Ctl.next (f, i))
abbrev rPost : St → Go.M St := fun st => do
  let (f, i) := st
  let i := (i + (1 : UInt64))
  pure (f, i)

/-- the window-forward loop of `ValidateCounter` with its three closures as the translator emits them -/
theorem clear_loop_eq (f : replay.FilterT) (hlen : f.ring.length = 128) (current d : UInt64)
    (hcur : current.toNat < 2 ^ 58) (hd : d.toNat ≤ 128) :
    Go.loop Go.fuel (f, current + (1 : UInt64)) (rCond current d) rBody rPost
      = .ok (.done ({ f with ring := clearU f.ring current.toNat d.toNat }, current + 1 + d)) := by
  have := loop_clear f hlen current d (by omega) (rCond current d) rBody rPost
    (fun g i => rfl)
    (fun g i hg => by
      have e : (((i &&& (127 : UInt64)).toNat : Nat) : Int).toNat = i.toNat % 128 := by rw [and127]; omega
      show (do
        let t_6 ← Go.setIdx g.ring (((i &&& (127 : UInt64))).toNat : Int) (0 : UInt64)
        pure (Go.Ctl.next ({ g with ring := t_6 }, i))) = _
      rw [Go.setIdx_ok _ _ _ (by omega) (by rw [e, hg]; omega)]
      simp only [bind_ok, pure_eq, e])
    (fun g i => rfl)
    d.toNat 0 Go.fuel (by omega) (by have := d.toNat_lt; simp only [Go.fuel]; omega)
  simp only [clearU, UInt64.ofNat_toNat] at this
  have e0 : current + 1 + UInt64.ofNat 0 = current + 1 := by simp
  rw [e0] at this
  exact this

theorem ValidateCounter_model (f : replay.FilterT) (m : Replay.Filter) (h : frel f m) (counter limit : UInt64) :
    ∃ ok f', replay.Filter.ValidateCounter f counter limit = .ok (ok, f') ∧
      frel f' (Replay.validate m counter.toNat limit.toNat).1 ∧ ok = (Replay.validate m counter.toNat limit.toNat).2 := by
  obtain ⟨hl, hr, hlen⟩ := h
  unfold replay.Filter.ValidateCounter Replay.validate
  by_cases h1 : counter ≥ limit
  · have h1' : counter.toNat ≥ limit.toNat := UInt64.le_iff_toNat_le.mp h1
    simp only [h1, decide_true, if_true, h1']
    exact ⟨_, _, rfl, ⟨hl, hr, hlen⟩, rfl⟩
  · have h1' : ¬ counter.toNat ≥ limit.toNat := fun e => h1 (UInt64.le_iff_toNat_le.mpr e)
    simp only [h1, decide_false, Bool.false_eq_true, if_false, h1']
    by_cases h2 : counter > f.last
    · have h2' : counter.toNat > m.last := by rw [hl]; exact UInt64.lt_iff_toNat_lt.mp h2
      simp only [h2, decide_true, if_true, h2']
      have hcur : (Go.shr64 f.last 6).toNat = f.last.toNat / 64 := shr6 _
      have hibk : (Go.shr64 counter 6).toNat = counter.toNat / 64 := shr6 _
      have hlt : f.last.toNat < counter.toNat := UInt64.lt_iff_toNat_lt.mp h2
      have hle : Go.shr64 f.last 6 ≤ Go.shr64 counter 6 := by
        rw [UInt64.le_iff_toNat_le, hcur, hibk]; omega
      have hdiff : (Go.shr64 counter 6 - Go.shr64 f.last 6).toNat = counter.toNat / 64 - f.last.toNat / 64 := by
        rw [UInt64.toNat_sub_of_le _ _ hle, hcur, hibk]
      have hcurlt : (Go.shr64 f.last 6).toNat < 2 ^ 58 := by rw [hcur]; have := f.last.toNat_lt; omega
      -- the continuation after the (capped) difference is known
      have key : ∀ d : UInt64, d.toNat ≤ 128 → d.toNat = min (counter.toNat / 64 - m.last / 64) 128 →
          ∃ ok f', (do
              let i := (Go.shr64 f.last 6 + (1 : UInt64))
              let r_5 ← Go.loop Go.fuel (f, i) (rCond (Go.shr64 f.last 6) d) rBody rPost
              match r_5 with
              | .ret v_7 => pure v_7
              | .done st_8 =>
                let (f, i) := st_8
                let f := { f with last := counter }
                (do
                  let indexBlock := ((Go.shr64 counter 6) &&& (127 : UInt64))
                  let indexBit := (counter &&& (63 : UInt64))
                  let t_2 ← Go.idx f.ring ((indexBlock).toNat : Int)
                  let old := t_2
                  let new := (old ||| (Go.shl64 (1 : UInt64) (indexBit).toNat))
                  let t_3 ← Go.setIdx f.ring ((indexBlock).toNat : Int) new
                  let f := { f with ring := t_3 }
                  pure ((decide (old ≠ new)), f) : Go.M (Bool × replay.FilterT))) = .ok (ok, f') ∧
            frel f' (let ib := counter.toNat / 64 % 128
                     let ring := Replay.clear m.ring (m.last / 64) (min (counter.toNat / 64 - m.last / 64) 128)
                     ({ last := counter.toNat, ring := ring.setIfInBounds ib (ring.getD ib 0 ||| (1 <<< (counter.toNat % 64))) } : Replay.Filter)) ∧
            ok = (let ib := counter.toNat / 64 % 128
                  let ring := Replay.clear m.ring (m.last / 64) (min (counter.toNat / 64 - m.last / 64) 128)
                  (ring.getD ib 0 != (ring.getD ib 0 ||| (1 <<< (counter.toNat % 64))))) := by
        intro d hd hdm
        dsimp only
        rw [clear_loop_eq f hlen _ d hcurlt hd]
        simp only [bind_ok]
        have hlen2 : (clearU f.ring (Go.shr64 f.last 6).toNat d.toNat).length = 128 := by rw [clearU_length, hlen]
        have := k1_eq counter { last := counter, ring := clearU f.ring (Go.shr64 f.last 6).toNat d.toNat } hlen2
        rw [this]
        have hrel : frel { last := counter, ring := clearU f.ring (Go.shr64 f.last 6).toNat d.toNat }
            { last := counter.toNat, ring := Replay.clear m.ring (m.last / 64) (min (counter.toNat / 64 - m.last / 64) 128) } := by
          refine ⟨rfl, ?_, hlen2⟩
          rw [clearU_model f.ring m.ring hr, hcur, hl, hdm, hl]
        have hm := stepU_model counter _ _ hrel
        exact ⟨_, _, rfl, hm.1, hm.2⟩
      by_cases h3 : Go.shr64 counter 6 - Go.shr64 f.last 6 > (128 : UInt64)
      · have h3n : counter.toNat / 64 - m.last / 64 > 128 := by
          have := UInt64.lt_iff_toNat_lt.mp h3
          rw [hdiff] at this; rw [hl]; exact this
        simp only [h3, decide_true, if_true]
        obtain ⟨ok, f', e, hf, hok⟩ := key 128 (by decide) (by
          have : (128 : UInt64).toNat = 128 := rfl
          rw [this]; omega)
        exact ⟨ok, f', e, hf, hok⟩
      · have h3n : ¬ counter.toNat / 64 - m.last / 64 > 128 := by
          intro e; apply h3; apply UInt64.lt_iff_toNat_lt.mpr
          rw [hdiff, ← hl]; exact e
        simp only [h3, decide_false, Bool.false_eq_true, if_false]
        obtain ⟨ok, f', e, hf, hok⟩ := key (Go.shr64 counter 6 - Go.shr64 f.last 6) (by rw [hdiff, ← hl]; omega) (by
          rw [hdiff, ← hl]; omega)
        exact ⟨ok, f', e, hf, hok⟩
    · have h2' : ¬ counter.toNat > m.last := by
        rw [hl]; exact fun e => h2 (UInt64.lt_iff_toNat_lt.mpr e)
      simp only [h2, decide_false, Bool.false_eq_true, if_false, h2']
      have hsub : (f.last - counter).toNat = f.last.toNat - counter.toNat := by
        have : counter.toNat ≤ f.last.toNat := by
          have := UInt64.lt_iff_toNat_lt (a := f.last) (b := counter)
          exact Nat.le_of_not_lt (fun e => h2 (UInt64.lt_iff_toNat_lt.mpr e))
        rw [UInt64.toNat_sub_of_le _ _ (UInt64.le_iff_toNat_le.mpr this)]
      by_cases h3 : (f.last - counter) > (8128 : UInt64)
      · have h3' : m.last - counter.toNat > Replay.windowSize := by
          have := UInt64.lt_iff_toNat_lt.mp h3
          rw [hsub] at this
          rw [hl]; exact this
        simp only [h3, decide_true, if_true, h3']
        exact ⟨_, _, rfl, ⟨hl, hr, hlen⟩, rfl⟩
      · have h3' : ¬ m.last - counter.toNat > Replay.windowSize := by
          intro e
          apply h3
          apply UInt64.lt_iff_toNat_lt.mpr
          rw [hsub, ← hl]; exact e
        simp only [h3, decide_false, Bool.false_eq_true, if_false, h3']
        rw [k1_eq counter f hlen]
        have := stepU_model counter f m ⟨hl, hr, hlen⟩
        exact ⟨_, _, rfl, this.1, this.2⟩

/-- the zero value `replay.Filter{}` -/
def zeroFilter : replay.FilterT := { last := 0, ring := List.replicate 128 0 }

theorem zero_rel : frel zeroFilter Replay.Filter.empty := by
  refine ⟨rfl, ?_, by simp [zeroFilter]⟩
  simp [Replay.Filter.empty, zeroFilter]

/-- a session's filter fed a sequence of header counters: the counters it accepts -/
def srcRun (f : replay.FilterT) (limit : UInt64) : List UInt64 → Go.M (replay.FilterT × List UInt64)
  | [] => pure (f, [])
  | c :: cs => do
    let (ok, f') ← replay.Filter.ValidateCounter f c limit
    let (f'', acc) ← srcRun f' limit cs
    pure (f'', if ok then c :: acc else acc)

theorem srcRun_model (limit : UInt64) : ∀ (cs : List UInt64) (f : replay.FilterT) (m : Replay.Filter), frel f m →
    ∃ f' acc, srcRun f limit cs = .ok (f', acc) ∧
      acc.map UInt64.toNat = (Replay.run m limit.toNat (cs.map UInt64.toNat)).2 ∧
      frel f' (Replay.run m limit.toNat (cs.map UInt64.toNat)).1 := by
  intro cs
  induction cs with
  | nil => intro f m h; exact ⟨f, [], rfl, rfl, h⟩
  | cons c cs ih =>
    intro f m h
    obtain ⟨ok, f1, e1, hrel1, hok⟩ := ValidateCounter_model f m h c limit
    obtain ⟨f2, acc, e2, hacc, hrel2⟩ := ih f1 _ hrel1
    refine ⟨f2, if ok then c :: acc else acc, ?_, ?_, ?_⟩
    · simp only [srcRun, e1, bind_ok, e2, pure_eq]
    · simp only [List.map_cons, Replay.run]
      rw [← hok]
      cases ok <;> simp [hacc]
    · simp only [List.map_cons, Replay.run]
      exact hrel2

/-- the real filter accepts no counter twice, whatever the sequence of counters and the limit -/
theorem src_accepts_at_most_once (limit : UInt64) (cs : List UInt64) :
    ∃ f' acc, srcRun zeroFilter limit cs = .ok (f', acc) ∧ acc.Nodup := by
  obtain ⟨f', acc, e, hacc, _⟩ := srcRun_model limit cs zeroFilter _ zero_rel
  refine ⟨f', acc, e, ?_⟩
  have := Replay.accepted_at_most_once limit.toNat (cs.map UInt64.toNat)
  rw [← hacc] at this
  exact List.Pairwise.of_map UInt64.toNat (fun a b hab e => hab (by rw [e])) this

end P2PVerif.SrcReplay
