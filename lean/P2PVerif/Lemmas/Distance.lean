import P2PVerif.Model.CacheOps
/-! Lemmas about p/kademlia/distance.go: `DistanceCmp` is `bytes.Compare` of the two XOR distances,
    hence a total preorder; the distance is symmetric and zero only between equal keys. -/
namespace P2PVerif.Kad
open P2PVerif

/-! ## `lexCmp` (bytes.Compare) is a total order on byte strings -/

theorem lexCmp_refl (a : Bytes) : lexCmp a a = .eq := by
  induction a with
  | nil => rfl
  | cons x a ih => simp [lexCmp, ih]

theorem lexCmp_swap : ∀ (a b : Bytes), lexCmp b a = (lexCmp a b).swap := by
  intro a
  induction a with
  | nil => intro b; cases b <;> simp [lexCmp, Ordering.swap]
  | cons x a ih =>
    intro b
    cases b with
    | nil => simp [lexCmp, Ordering.swap]
    | cons y b =>
      simp only [lexCmp]
      by_cases h1 : x < y
      · have h2 : ¬ y < x := by omega
        simp [h1, h2, Ordering.swap]
      · by_cases h2 : y < x
        · simp [h1, h2, Ordering.swap]
        · simp [h1, h2, ih]

theorem lexCmp_trans : ∀ (a b c : Bytes), lexCmp a b ≠ .gt → lexCmp b c ≠ .gt → lexCmp a c ≠ .gt := by
  intro a
  induction a with
  | nil => intro b c _ _; cases c <;> simp [lexCmp]
  | cons x a ih =>
    intro b c hab hbc
    cases b with
    | nil => simp [lexCmp] at hab
    | cons y b =>
      cases c with
      | nil => simp [lexCmp] at hbc
      | cons w c =>
        simp only [lexCmp] at hab hbc ⊢
        by_cases h1 : x < y
        · by_cases h2 : y < w
          · have : x < w := by omega
            simp [this]
          · by_cases h3 : w < y
            · simp [h2, h3] at hbc
            · have : x < w := by omega
              simp [this]
        · by_cases h1' : y < x
          · simp [h1, h1'] at hab
          · have hxy : x = y := by omega
            subst hxy
            simp only [h1, if_false] at hab
            by_cases h2 : x < w
            · simp [h2]
            · by_cases h3 : w < x
              · simp [h2, h3] at hbc
              · simp only [h2, h3, if_false] at hbc ⊢
                exact ih b c hab hbc

/-! ## `distanceCmp` -/

theorem cmp_is_compare_of_xor : ∀ (x a b : Bytes), distanceCmp x a b = lexCmp (distance x a) (distance x b) := by
  intro x
  induction x with
  | nil => intro a b; simp [distanceCmp, distance, lexCmp]
  | cons xi xs ih =>
    intro a b
    cases a with
    | nil =>
      cases b with
      | nil => simp [distanceCmp, distance, lexCmp]
      | cons bi bs => simp [distanceCmp, distance, lexCmp]
    | cons ai as =>
      cases b with
      | nil => simp [distanceCmp, distance, lexCmp]
      | cons bi bs =>
        simp only [distanceCmp, distance, List.zipWith_cons_cons, lexCmp]
        rw [ih as bs]
        rfl

theorem distanceCmp_refl (x a : Bytes) : distanceCmp x a a = .eq := by
  rw [cmp_is_compare_of_xor]; exact lexCmp_refl _

theorem distanceCmp_swap (x a b : Bytes) : distanceCmp x b a = (distanceCmp x a b).swap := by
  rw [cmp_is_compare_of_xor, cmp_is_compare_of_xor]; exact lexCmp_swap _ _

theorem distanceCmp_trans (x a b c : Bytes) :
    distanceCmp x a b ≠ .gt → distanceCmp x b c ≠ .gt → distanceCmp x a c ≠ .gt := by
  rw [cmp_is_compare_of_xor, cmp_is_compare_of_xor, cmp_is_compare_of_xor]; exact lexCmp_trans _ _ _

theorem cmp_total_preorder (x a b c : Bytes) :
    distanceCmp x a a = .eq ∧
    (distanceCmp x a b = .lt ↔ distanceCmp x b a = .gt) ∧
    (distanceCmp x a b = .eq ↔ distanceCmp x b a = .eq) ∧
    (distanceCmp x a b ≠ .gt → distanceCmp x b c ≠ .gt → distanceCmp x a c ≠ .gt) := by
  refine ⟨distanceCmp_refl x a, ?_, ?_, distanceCmp_trans x a b c⟩
  · rw [distanceCmp_swap x a b]; cases distanceCmp x a b <;> simp [Ordering.swap]
  · rw [distanceCmp_swap x a b]; cases distanceCmp x a b <;> simp [Ordering.swap]

/-- `a ≤ b` and `b < c` give `a < c` -/
theorem distanceCmp_lt_of_le_of_lt (x a b c : Bytes)
    (h1 : distanceCmp x a b ≠ .gt) (h2 : distanceCmp x b c = .lt) : distanceCmp x a c = .lt := by
  -- otherwise `c ≤ a ≤ b`, so `c ≤ b`, contradicting `b < c`
  have hs := distanceCmp_swap x a c
  have hs' := distanceCmp_swap x b c
  have ht := distanceCmp_trans x c a b
  cases hac : distanceCmp x a c with
  | lt => rfl
  | eq =>
    rw [hac] at hs
    have := ht (by rw [hs]; simp [Ordering.swap]) h1
    rw [hs', h2] at this; simp [Ordering.swap] at this
  | gt =>
    rw [hac] at hs
    have := ht (by rw [hs]; simp [Ordering.swap]) h1
    rw [hs', h2] at this; simp [Ordering.swap] at this

/-! ## `distance` -/

theorem distance_symm : ∀ (a b : Bytes), distance a b = distance b a := by
  intro a
  induction a with
  | nil => intro b; cases b <;> simp [distance]
  | cons x a ih =>
    intro b
    cases b with
    | nil => simp [distance]
    | cons y b =>
      have := ih b
      simp only [distance] at this ⊢
      simp [this, Nat.xor_comm x y]

theorem xor_eq_zero_iff (a b : Nat) : a ^^^ b = 0 ↔ a = b := by
  constructor
  · intro h
    have : a ^^^ (a ^^^ b) = a := by rw [h]; simp
    rw [← Nat.xor_assoc, Nat.xor_self, Nat.zero_xor] at this
    exact this.symm
  · intro h; subst h; exact Nat.xor_self a

theorem distance_zero_iff_eq : ∀ (a b : Bytes), a.length = b.length →
    ((∀ d ∈ distance a b, d = 0) ↔ a = b) := by
  intro a
  induction a with
  | nil => intro b h; cases b <;> simp_all [distance]
  | cons x a ih =>
    intro b h
    cases b with
    | nil => simp at h
    | cons y b =>
      have hl : a.length = b.length := by simpa using h
      have := ih b hl
      simp only [distance] at this ⊢
      simp only [List.zipWith_cons_cons, List.mem_cons, forall_eq_or_imp, List.cons.injEq]
      rw [this, xor_eq_zero_iff]

theorem distance_length (a b : Bytes) : (distance a b).length = min a.length b.length := by
  simp [distance]

theorem validBytes_distance (a b : Bytes) (ha : validBytes a) (hb : validBytes b) :
    validBytes (distance a b) := by
  induction a generalizing b with
  | nil => intro d hd; simp [distance] at hd
  | cons x a ih =>
    cases b with
    | nil => intro d hd; simp [distance] at hd
    | cons y b =>
      intro d hd
      simp only [distance, List.zipWith_cons_cons, List.mem_cons] at hd
      rcases hd with rfl | hd
      · exact Nat.xor_lt_two_pow (n := 8) (ha x (by simp)) (hb y (by simp))
      · exact ih b (fun z hz => ha z (by simp [hz])) (fun z hz => hb z (by simp [hz])) d hd

end P2PVerif.Kad
