import P2PVerif.Model.Asker
/-! Lemmas about the mbapp request/reply matching table (`Model/Asker.lean`): an inductive invariant over
    `Asker.run`, and the four statements used by `Props/C11.lean`. -/
namespace P2PVerif.Mb
open P2PVerif

/-- the invariant of the table after the operations `ops` -/
structure AInv (ops : List AOp) (a : Asker) : Prop where
  /-- every in-flight entry was issued -/
  issuedIn : ∀ p ∈ a.inflight, (p.tag, p.id, p.cap) ∈ a.issued
  /-- no issued id has a counter above the current one -/
  ctrLe : ∀ x ∈ a.issued, x.2.1.counter ≤ a.counter
  issuedNodup : (a.issued.map (·.2.1)).Nodup
  inflightNodup : (a.inflight.map (·.id)).Nodup
  /-- every result other than a context error stems from a matching reply -/
  resOk : ∀ tag r, (tag, r) ∈ a.results → r ≠ .ctx →
    ∃ id cap code body, (tag, id, cap) ∈ a.issued ∧
      AOp.reply id.addr id.counter id.origin code body ∈ ops ∧ r = completeCap cap code body

theorem AInv.init : AInv [] ({} : Asker) where
  issuedIn := by intro p hp; cases hp
  ctrLe := by intro x hx; cases hx
  issuedNodup := List.Pairwise.nil
  inflightNodup := List.Pairwise.nil
  resOk := by intro tag r hr; cases hr

theorem inflight_filter_nodup (l : List Pend) (f : Pend → Bool) (h : (l.map (·.id)).Nodup) :
    ((l.filter f).map (·.id)).Nodup := by
  unfold List.Nodup at *
  rw [List.pairwise_map] at *
  exact h.filter f

theorem AInv.ask {ops : List AOp} {a : Asker} (inv : AInv ops a) (tag addr cap now timeout : Nat) :
    AInv (ops ++ [.ask tag addr cap now timeout]) (a.ask tag addr cap now timeout).1 where
  issuedIn := by
    intro p hp
    simp only [Asker.ask, List.mem_append, List.mem_filter, List.mem_singleton] at hp
    simp only [Asker.ask, List.mem_cons]
    rcases hp with hp | hp
    · exact Or.inr (inv.issuedIn p hp.1)
    · subst hp; exact Or.inl rfl
  ctrLe := by
    intro x hx
    simp only [Asker.ask, List.mem_cons] at hx ⊢
    rcases hx with hx | hx
    · subst hx; exact Nat.le_refl _
    · exact Nat.le_succ_of_le (inv.ctrLe x hx)
  issuedNodup := by
    simp only [Asker.ask, List.map_cons]
    refine List.nodup_cons.mpr ⟨?_, inv.issuedNodup⟩
    intro hm
    rcases List.mem_map.mp hm with ⟨x, hx, hxe⟩
    have := inv.ctrLe x hx
    rw [hxe] at this
    simp at this
    omega
  inflightNodup := by
    simp only [Asker.ask, List.map_append, List.map_cons, List.map_nil]
    refine List.nodup_append.mpr ⟨inflight_filter_nodup _ _ inv.inflightNodup, ?_, ?_⟩
    · exact List.nodup_cons.mpr ⟨by simp, List.Pairwise.nil⟩
    · intro i hi j hj
      rcases List.mem_map.mp hi with ⟨p, hp, rfl⟩
      have hp2 := (List.mem_filter.mp hp).2
      rw [List.mem_singleton] at hj
      subst hj
      simpa using hp2
  resOk := by
    intro t r hr hne
    obtain ⟨id, cap', code, body, h1, h2, h3⟩ := inv.resOk t r hr hne
    exact ⟨id, cap', code, body, List.mem_cons_of_mem _ h1, List.mem_append_left _ h2, h3⟩

theorem AInv.reply {ops : List AOp} {a : Asker} (inv : AInv ops a) (src c o code : Nat) (body : Bytes) :
    AInv (ops ++ [.reply src c o code body]) (a.reply src c o code body) := by
  unfold Asker.reply
  split
  · exact { inv with
      resOk := by
        intro t r hr hne
        obtain ⟨id, cap', code', body', h1, h2, h3⟩ := inv.resOk t r hr hne
        exact ⟨id, cap', code', body', h1, List.mem_append_left _ h2, h3⟩ }
  · next p hfind =>
    have hpm : p ∈ a.inflight := List.mem_of_find?_eq_some hfind
    have hpid : p.id = ⟨c, o, src⟩ := by
      have := List.find?_some hfind
      simpa using this
    exact {
      issuedIn := by
        intro q hq
        exact inv.issuedIn q (List.mem_filter.mp hq).1
      ctrLe := inv.ctrLe
      issuedNodup := inv.issuedNodup
      inflightNodup := inflight_filter_nodup _ _ inv.inflightNodup
      resOk := by
        intro t r hr hne
        rcases List.mem_cons.mp hr with hr | hr
        · refine ⟨p.id, p.cap, code, body, ?_, ?_, ?_⟩
          · have := inv.issuedIn p hpm
            have ht : t = p.tag := congrArg Prod.fst hr
            rw [ht]; exact this
          · rw [hpid]; exact List.mem_append_right _ (List.mem_singleton.mpr rfl)
          · exact congrArg Prod.snd hr
        · obtain ⟨id, cap', code', body', h1, h2, h3⟩ := inv.resOk t r hr hne
          exact ⟨id, cap', code', body', h1, List.mem_append_left _ h2, h3⟩ }

theorem AInv.ctxStep {ops : List AOp} {a : Asker} (inv : AInv ops a) (op : AOp) (f g : Pend → Bool) :
    AInv (ops ++ [op]) { a with inflight := a.inflight.filter f,
                                results := ((a.inflight.filter g).map (fun p => (p.tag, AskRes.ctx))) ++ a.results } where
  issuedIn := by
    intro q hq
    exact inv.issuedIn q (List.mem_filter.mp hq).1
  ctrLe := inv.ctrLe
  issuedNodup := inv.issuedNodup
  inflightNodup := inflight_filter_nodup _ _ inv.inflightNodup
  resOk := by
    intro t r hr hne
    rcases List.mem_append.mp hr with hr | hr
    · rcases List.mem_map.mp hr with ⟨p, _, hp⟩
      exact absurd (congrArg Prod.snd hp).symm hne
    · obtain ⟨id, cap', code', body', h1, h2, h3⟩ := inv.resOk t r hr hne
      exact ⟨id, cap', code', body', h1, List.mem_append_left _ h2, h3⟩

theorem AInv.step {ops : List AOp} {a : Asker} (inv : AInv ops a) (op : AOp) :
    AInv (ops ++ [op]) (a.step op) := by
  cases op with
  | ask tag addr cap now timeout => exact inv.ask tag addr cap now timeout
  | reply src c o code body => exact inv.reply src c o code body
  | expire now => exact inv.ctxStep _ _ _
  | cancel tag => exact inv.ctxStep _ _ _

theorem AInv.run {pre : List AOp} {a : Asker} (inv : AInv pre a) (ops : List AOp) :
    AInv (pre ++ ops) (a.run ops) := by
  induction ops generalizing pre a with
  | nil => simpa [Asker.run] using inv
  | cons op ops ih =>
    have := ih (inv.step op)
    simpa [Asker.run, List.append_assoc] using this

theorem ainv_run (ops : List AOp) : AInv ops (({} : Asker).run ops) := by
  simpa using AInv.init.run ops

theorem ask_completed_by_matching_reply (ops : List AOp) (tag : Nat) (r : AskRes)
    (hr : (tag, r) ∈ (({} : Asker).run ops).results) (hne : r ≠ .ctx) :
    ∃ id cap code body, (tag, id, cap) ∈ (({} : Asker).run ops).issued ∧
      AOp.reply id.addr id.counter id.origin code body ∈ ops ∧ r = completeCap cap code body :=
  (ainv_run ops).resOk tag r hr hne

/-- a reply is consumed: the same `(src, counter, origin)` finds nothing a second time -/
theorem reply_reply (a0 : Asker) (src c o code : Nat) (body : Bytes) (code' : Nat) (body' : Bytes) :
    (a0.reply src c o code body).reply src c o code' body' = a0.reply src c o code body := by
  cases hfind : a0.inflight.find? (fun p => p.id == ⟨c, o, src⟩) with
  | none =>
    have h1 : a0.reply src c o code body = a0 := by simp [Asker.reply, hfind]
    rw [h1]
    simp [Asker.reply, hfind]
  | some p =>
    have hpid : p.id = ⟨c, o, src⟩ := by
      have := List.find?_some hfind
      simpa using this
    have h1 : a0.reply src c o code body =
        { a0 with inflight := a0.inflight.filter (·.id != p.id),
                  results := (p.tag, complete p code body) :: a0.results } := by
      simp [Asker.reply, hfind]
    rw [h1]
    have h2 : (a0.inflight.filter (·.id != p.id)).find? (fun p => p.id == ⟨c, o, src⟩) = none := by
      rw [List.find?_eq_none]
      intro q hq hqe
      have hq2 := (List.mem_filter.mp hq).2
      have : q.id = ⟨c, o, src⟩ := by simpa using hqe
      rw [this, hpid] at hq2
      simp at hq2
    simp [Asker.reply, h2]

theorem ask_ids_distinct_and_replies_consumed (ops : List AOp) :
    (((({} : Asker).run ops).issued.map (·.2.1)).Nodup) ∧
    (((({} : Asker).run ops).inflight.map (·.id)).Nodup) ∧
    (∀ src c o code body code' body',
      let a := (({} : Asker).run ops).reply src c o code body
      (a.reply src c o code' body').results = a.results ∧ (a.reply src c o code' body').inflight = a.inflight) := by
  refine ⟨(ainv_run ops).issuedNodup, (ainv_run ops).inflightNodup, ?_⟩
  intro src c o code body code' body'
  simp only
  rw [reply_reply]
  exact ⟨rfl, rfl⟩

theorem ask_returns_own_handler_output (ops : List AOp) (reqOf : AskId → Bytes) (h : Nat → Bytes → Int × Bytes)
    (honest : ∀ src c o code body, AOp.reply src c o code body ∈ ops →
        (c, o, code, body) = respond c o (h src (reqOf ⟨c, o, src⟩)).1 (h src (reqOf ⟨c, o, src⟩)).2)
    (tag : Nat) (b : Bytes) (hr : (tag, AskRes.ok b) ∈ (({} : Asker).run ops).results) :
    ∃ id cap, (tag, id, cap) ∈ (({} : Asker).run ops).issued ∧
      0 ≤ (h id.addr (reqOf id)).1 ∧
      b = (h id.addr (reqOf id)).2.take (h id.addr (reqOf id)).1.toNat ∧ b.length ≤ cap := by
  obtain ⟨id, cap, code, body, h1, h2, h3⟩ :=
    ask_completed_by_matching_reply ops tag (.ok b) hr (by intro hc; cases hc)
  refine ⟨id, cap, h1, ?_⟩
  have hh := honest _ _ _ _ _ h2
  have hid : (⟨id.counter, id.origin, id.addr⟩ : AskId) = id := rfl
  rw [hid] at hh
  generalize h id.addr (reqOf id) = res at hh ⊢
  obtain ⟨n, out⟩ := res
  simp only [respond, Ask.extractErrorCode] at hh
  simp only
  by_cases hn : n ≥ 0
  · simp only [hn, if_true] at hh
    have hcode : code = 0 := by
      have := congrArg (fun x => x.2.2.1) hh
      simpa using this
    have hbody : body = out.take n.toNat := by
      have := congrArg (fun x => x.2.2.2) hh
      simpa using this
    subst hcode
    simp only [completeCap, Nat.lt_irrefl, gt_iff_lt, if_false] at h3
    split at h3
    · cases h3
    · next hlen =>
      have hb : b = body := by injection h3
      refine ⟨hn, ?_, ?_⟩
      · rw [hb, hbody]
      · rw [hb]; omega
  · simp only [hn, if_false] at hh
    have hcode : code = 255 := by
      have := congrArg (fun x => x.2.2.1) hh
      simpa using this
    subst hcode
    simp [completeCap] at h3

theorem failed_handler_is_an_error (cap c o : Nat) (n : Int) (out : Bytes) (hn : n < 0) :
    let r := respond c o n out
    r.2.2.1 > 0 ∧ ∀ b, completeCap cap r.2.2.1 r.2.2.2 ≠ .ok b := by
  have hn' : ¬ (n ≥ 0) := by omega
  simp [respond, Ask.extractErrorCode, hn', completeCap]

end P2PVerif.Mb
