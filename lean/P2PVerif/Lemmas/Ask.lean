import P2PVerif.Model.Ask
/-! C11, the plumbing around the ask hub: completion into the caller's buffer and quicswarm frames. -/
namespace P2PVerif.Ask
open P2PVerif

theorem be32_length (n : Nat) : (Mbapp.be32 n).length = 4 := rfl

theorem val32_be32 (n : Nat) (h : n < 2 ^ 32) : Mbapp.val32 (Mbapp.be32 n) = n := by
  simp only [Mbapp.be32, Mbapp.val32]
  omega

theorem ask_no_truncation (resp : Bytes) (bufLen : Nat) :
    (complete resp bufLen = some resp ↔ resp.length ≤ bufLen) ∧
    (∀ out, complete resp bufLen = some out → out = resp) := by
  unfold complete
  constructor
  · by_cases h : resp.length ≤ bufLen <;> simp [h]
  · intro out ho
    by_cases h : resp.length ≤ bufLen
    · simp [h] at ho; exact ho.symm
    · simp [h] at ho

theorem frame_roundtrip (payload rest : Bytes) (maxLen dstLen : Nat) (h : payload.length < 2 ^ 32) :
    readFrame maxLen dstLen (writeFrame payload ++ rest) =
      (if payload.length ≤ maxLen ∧ payload.length ≤ dstLen then some (payload, rest) else none) := by
  have hlen : (Mbapp.be32 payload.length).length = 4 := be32_length _
  have htake : (writeFrame payload ++ rest).take 4 = Mbapp.be32 payload.length := by
    unfold writeFrame
    rw [List.append_assoc, List.take_append_of_le_length (by omega), List.take_of_length_le (by omega)]
  have hdrop : (writeFrame payload ++ rest).drop 4 = payload ++ rest := by
    unfold writeFrame
    rw [List.append_assoc, List.drop_append_of_le_length (by omega), List.drop_of_length_le (by omega)]
    rfl
  have hl4 : ¬ (writeFrame payload ++ rest).length < 4 := by
    unfold writeFrame; simp only [List.length_append]; omega
  unfold readFrame
  simp only [hl4, if_false, htake, hdrop, val32_be32 _ h]
  by_cases h1 : payload.length ≤ maxLen
  · by_cases h2 : payload.length ≤ dstLen
    · have h1' : ¬ payload.length > maxLen := by omega
      have h2' : ¬ dstLen < payload.length := by omega
      simp [h1, h2, h1', h2']
    · have h1' : ¬ payload.length > maxLen := by omega
      have h2' : dstLen < payload.length := by omega
      simp [h1, h2, h1', h2']
  · have h1' : payload.length > maxLen := by omega
    simp [h1, h1']

end P2PVerif.Ask
