import P2PVerif.Model.Varint
namespace P2PVerif.Varint

theorem put_ne_nil (x : Nat) : put x ≠ [] := by
  rw [put]; split <;> simp

theorem put_length_pos (x : Nat) : 1 ≤ (put x).length := by
  rw [put]; split <;> simp

theorem put_length_le (x : Nat) (k : Nat) (h : x < 2 ^ (7 * (k + 1))) : (put x).length ≤ k + 1 := by
  induction k generalizing x with
  | zero =>
    have : x < 128 := by simpa using h
    rw [put]; simp [this]
  | succ k ih =>
    rw [put]
    split
    · simp
    · have hx : x / 128 < 2 ^ (7 * (k + 1)) := by
        rw [Nat.div_lt_iff_lt_mul (by decide)]
        calc x < 2 ^ (7 * (k + 1 + 1)) := h
          _ = 2 ^ (7 * (k + 1)) * 128 := by rw [show 7 * (k + 1 + 1) = 7 * (k + 1) + 7 by omega, Nat.pow_add]
      have := ih (x / 128) hx
      simp; omega

theorem put_length_le_10 (x : Nat) (hx : x < 2 ^ 64) : (put x).length ≤ 10 :=
  put_length_le x 9 (Nat.lt_of_lt_of_le hx (Nat.pow_le_pow_right (by decide) (by decide)))

/-- every byte PutUvarint writes is a byte -/
theorem put_bytes_lt (x : Nat) : ∀ b ∈ put x, b < 256 := by
  induction x using Nat.strongRecOn with
  | _ x ih =>
    intro b hb
    rw [put] at hb
    by_cases hx : x < 128
    · simp [hx] at hb; omega
    · simp only [hx, dite_false, List.mem_cons] at hb
      rcases hb with h | h
      · omega
      · exact ih (x / 128) (by omega) b h

/-- the general round-trip step: decoding `put x ++ rest` from accumulator state `(acc, s, i)` -/
theorem getAux_put (x : Nat) : ∀ (acc s i : Nat) (rest : List Nat),
    i + (put x).length ≤ 10 → (i + (put x).length = 10 → x < 2 ^ (7 * (put x).length - 6)) →
    acc + x * 2 ^ s < 2 ^ 64 →
    getAux acc s i (put x ++ rest) = .ok (acc + x * 2 ^ s) (i + (put x).length) := by
  induction x using Nat.strongRecOn with
  | _ x ih =>
    intro acc s i rest hlen hlast hfit
    rw [put] at hlen hlast ⊢
    by_cases hx : x < 128
    · simp only [hx, dite_true, List.length_singleton, List.singleton_append] at hlen hlast ⊢
      have hi : i ≠ 10 := by omega
      simp only [getAux, hi, if_false, hx, if_true]
      have h9 : ¬ (i = 9 ∧ x > 1) := by
        intro ⟨h9, hx1⟩
        have := hlast (by omega)
        simp at this; omega
      simp [h9, Nat.mod_eq_of_lt hfit]
    · simp only [hx, dite_false, List.length_cons, List.cons_append] at hlen hlast ⊢
      have hi : i ≠ 10 := by omega
      have hb : ¬ (x % 128 + 128 < 128) := by omega
      simp only [getAux, hi, if_false, hb]
      have hmod : (x % 128 + 128) % 128 = x % 128 := by omega
      rw [hmod]
      have hdiv : x / 128 < x := by omega
      have key : acc + x % 128 * 2 ^ s + x / 128 * 2 ^ (s + 7) = acc + x * 2 ^ s := by
        rw [Nat.pow_add, show (2:Nat)^7 = 128 by decide]
        have := Nat.div_add_mod x 128
        calc acc + x % 128 * 2 ^ s + x / 128 * (2 ^ s * 128)
            = acc + (128 * (x / 128) + x % 128) * 2 ^ s := by
              rw [Nat.add_mul, Nat.mul_comm (2 ^ s) 128, ← Nat.mul_assoc, Nat.mul_comm (x / 128) 128]; omega
          _ = acc + x * 2 ^ s := by rw [this]
      have := ih (x / 128) hdiv (acc + x % 128 * 2 ^ s) (s + 7) (i + 1) rest (by omega)
        (by
          intro h10
          have hl := hlast (by omega)
          have hn : 1 ≤ (put (x / 128)).length := put_length_pos _
          rw [Nat.div_lt_iff_lt_mul (by decide)]
          calc x < 2 ^ (7 * ((put (x / 128)).length + 1) - 6) := hl
            _ = 2 ^ (7 * (put (x / 128)).length - 6) * 128 := by
              rw [show 7 * ((put (x / 128)).length + 1) - 6 = (7 * (put (x / 128)).length - 6) + 7 by omega, Nat.pow_add])
        (by rw [key]; exact hfit)
      rw [this, key]
      congr 1; omega

/-- Uvarint inverts PutUvarint for every 64-bit value, whatever follows. -/
theorem get_put (x : Nat) (hx : x < 2 ^ 64) (rest : List Nat) :
    get (put x ++ rest) = .ok x (put x).length := by
  have hlen : (put x).length ≤ 10 := put_length_le_10 x hx
  have := getAux_put x 0 0 0 rest (by omega)
    (by intro h10; simp only [Nat.zero_add] at h10; rw [h10]; exact hx) (by simpa using hx)
  simpa [get] using this

end P2PVerif.Varint
