import P2PVerif.Model.CacheOps
/-! Lemmas about the Kademlia cache model (`Model/Cache.lean`, `Model/CacheOps.lean`) used by `Props/C18.lean`. -/
namespace P2PVerif.Kad
open P2PVerif

/-! ## association-list helpers (`find?` by key) -/

theorem any_eq_find_isSome {α} (p : α → Bool) (l : List α) : l.any p = (l.find? p).isSome := by
  induction l with
  | nil => rfl
  | cons a as ih => by_cases h : p a <;> simp [List.find?, h, ih]

theorem find_key_some {l : List Entry} {k : Bytes} {e : Entry} (h : l.find? (·.key == k) = some e) :
    e ∈ l ∧ e.key = k := by
  refine ⟨List.mem_of_find?_eq_some h, ?_⟩
  have := List.find?_some h
  simpa using this

theorem find_key_none {l : List Entry} {k : Bytes} (h : l.find? (·.key == k) = none) :
    ∀ e ∈ l, e.key ≠ k := by
  intro e he
  have := List.find?_eq_none.mp h e he
  simpa using this

theorem find_filter_self (l : List Entry) (k : Bytes) :
    (l.filter (·.key != k)).find? (·.key == k) = none := by
  rw [List.find?_eq_none]
  intro x hx
  have := (List.mem_filter.mp hx).2
  simpa using this

theorem find_filter_ne (l : List Entry) {k k' : Bytes} (h : k ≠ k') :
    (l.filter (·.key != k')).find? (·.key == k) = l.find? (·.key == k) := by
  induction l with
  | nil => rfl
  | cons a as ih =>
    by_cases h1 : a.key = k'
    · have h2 : (a.key == k) = false := by
        simp only [beq_eq_false_iff_ne, ne_eq]; intro h2; exact h (h2.symm.trans h1)
      have h1' : (a.key != k') = false := by simp [h1]
      simp only [List.filter_cons, List.find?_cons, h1', h2, Bool.false_eq_true, if_false]
      exact ih
    · have h1' : (a.key != k') = true := by simp [h1]
      by_cases h2 : (a.key == k) = true
      · simp only [List.filter_cons, List.find?_cons, h1', h2, if_true]
      · have h2 : (a.key == k) = false := by simpa using h2
        simp only [List.filter_cons, List.find?_cons, h1', h2, if_true]
        exact ih

theorem find_filter_nodup (p : Entry → Bool) (l : List Entry) (k : Bytes) (hn : (l.map (·.key)).Nodup) :
    (l.filter p).find? (·.key == k) = (l.find? (·.key == k)).filter p := by
  induction l with
  | nil => rfl
  | cons a as ih =>
    simp only [List.map_cons, List.nodup_cons] at hn
    have ih := ih hn.2
    by_cases h2 : (a.key == k) = true
    · by_cases h1 : p a = true
      · simp [h1, h2, Option.filter]
      · have : (as.filter p).find? (·.key == k) = none := by
          rw [List.find?_eq_none]
          intro x hx hk
          have hx' := (List.mem_filter.mp hx).1
          apply hn.1
          have h2' : a.key = k := by simpa using h2
          have : x.key = a.key := by simpa [h2'] using hk
          rw [← this]
          exact List.mem_map_of_mem hx'
        have h1 : p a = false := by simpa using h1
        simp only [List.filter_cons, List.find?_cons, h1, h2, Bool.false_eq_true, if_false, this]
        simp [Option.filter, h1]
    · have h2 : (a.key == k) = false := by simpa using h2
      by_cases h1 : p a = true
      · simp only [List.filter_cons, List.find?_cons, h1, h2, if_true]
        exact ih
      · have h1 : p a = false := by simpa using h1
        simp only [List.filter_cons, List.find?_cons, h1, h2, Bool.false_eq_true, if_false]
        exact ih

theorem find_mem_self {l : List Entry} {x : Entry} (hn : (l.map (·.key)).Nodup) (hx : x ∈ l) :
    l.find? (·.key == x.key) = some x := by
  induction l with
  | nil => simp at hx
  | cons a as ih =>
    simp only [List.map_cons, List.nodup_cons] at hn
    rcases List.mem_cons.mp hx with rfl | hx'
    · simp [List.find?]
    · have : (a.key == x.key) = false := by
        simp only [beq_eq_false_iff_ne, ne_eq]
        intro h; apply hn.1; rw [h]; exact List.mem_map_of_mem hx'
      simp only [List.find?_cons, this]
      exact ih hn.2 hx'

theorem filter_key_length {l : List Entry} {k : Bytes} {e : Entry} (hn : (l.map (·.key)).Nodup)
    (h : l.find? (·.key == k) = some e) : (l.filter (·.key != k)).length + 1 = l.length := by
  induction l with
  | nil => simp at h
  | cons a as ih =>
    simp only [List.map_cons, List.nodup_cons] at hn
    by_cases h1 : a.key = k
    · have : as.filter (·.key != k) = as := by
        rw [List.filter_eq_self]
        intro x hx
        have : x.key ≠ k := by
          intro h2; apply hn.1; rw [h1, ← h2]; exact List.mem_map_of_mem hx
        simpa using this
      have h1' : (a.key != k) = false := by simp [h1]
      simp only [List.filter_cons, h1', this, Bool.false_eq_true, if_false]
      simp
    · have hb : (a.key == k) = false := by simpa using h1
      have h1' : (a.key != k) = true := by simp [h1]
      simp only [List.find?_cons, hb] at h
      have := ih hn.2 h
      simp only [List.filter_cons, h1', if_true, List.length_cons]
      omega

theorem nodup_filter_keys (p : Entry → Bool) {l : List Entry} (hn : (l.map (·.key)).Nodup) :
    ((l.filter p).map (·.key)).Nodup :=
  List.Nodup.sublist (List.Sublist.map _ List.filter_sublist) hn

/-! ## `updMin`, `maxCreated` -/

theorem updMin_eq_zero {m x : Nat} : updMin m x = 0 ↔ m = 0 ∧ x = 0 := by
  unfold updMin; split <;> try split
  all_goals omega

theorem updMin_le_left {m x : Nat} (h : m ≠ 0) : updMin m x ≤ m := by
  unfold updMin; split <;> try split
  all_goals omega

theorem updMin_le_right {m x : Nat} (h : x ≠ 0) : updMin m x ≤ x := by
  unfold updMin; split <;> try split
  all_goals omega

theorem foldl_updMin (es : List Entry) (m0 : Nat) :
    let r := es.foldl (fun m x => updMin m x.expires) m0
    (r = 0 → m0 = 0 ∧ ∀ e ∈ es, e.expires = 0) ∧ (m0 ≠ 0 → r ≤ m0) ∧
    (∀ e ∈ es, e.expires ≠ 0 → r ≤ e.expires) := by
  induction es generalizing m0 with
  | nil => simp
  | cons x xs ih =>
    intro r
    have ih := ih (updMin m0 x.expires)
    obtain ⟨h1, h2, h3⟩ := ih
    refine ⟨?_, ?_, ?_⟩
    · intro hr
      obtain ⟨a, b⟩ := h1 hr
      obtain ⟨a1, a2⟩ := updMin_eq_zero.mp a
      refine ⟨a1, ?_⟩
      intro e he
      rcases List.mem_cons.mp he with rfl | he
      · exact a2
      · exact b e he
    · intro hm
      have : updMin m0 x.expires ≠ 0 := by
        intro h; exact hm (updMin_eq_zero.mp h).1
      exact Nat.le_trans (h2 this) (updMin_le_left hm)
    · intro e he hne
      rcases List.mem_cons.mp he with rfl | he
      · have : updMin m0 e.expires ≠ 0 := by
          intro h; exact hne (updMin_eq_zero.mp h).2
        exact Nat.le_trans (h2 this) (updMin_le_right hne)
      · exact h3 e he hne

theorem foldl_max_created (es : List Entry) (m0 : Nat) :
    m0 ≤ es.foldl (fun m e => Nat.max m e.created) m0 ∧
    ∀ e ∈ es, e.created ≤ es.foldl (fun m e => Nat.max m e.created) m0 := by
  induction es generalizing m0 with
  | nil => simp
  | cons x xs ih =>
    obtain ⟨h1, h2⟩ := ih (Nat.max m0 x.created)
    simp only [List.foldl_cons]
    refine ⟨Nat.le_trans (Nat.le_max_left _ _) h1, ?_⟩
    intro e he
    rcases List.mem_cons.mp he with rfl | he
    · exact Nat.le_trans (Nat.le_max_right _ _) h1
    · exact h2 e he

theorem le_maxCreated {es : List Entry} {e : Entry} (h : e ∈ es) : e.created ≤ maxCreated es :=
  (foldl_max_created es 0).2 e h

/-! ## single buckets -/

theorem Bucket.WF_empty (locus : Bytes) (i : Nat) : ({} : Bucket).WF locus i := by
  simp [Bucket.WF]

theorem Bucket.WF_filter {locus : Bytes} {i : Nat} {b : Bucket} (p : Entry → Bool) (h : b.WF locus i) :
    ({ b with entries := b.entries.filter p } : Bucket).WF locus i := by
  obtain ⟨h1, h2, h3, h4⟩ := h
  refine ⟨nodup_filter_keys p h1, ?_, ?_, ?_⟩
  · intro e he; exact h2 e (List.mem_filter.mp he).1
  · rcases h3 with h3 | h3
    · exact Or.inl h3
    · exact Or.inr (fun e he => h3 e (List.mem_filter.mp he).1)
  · intro hm e he; exact h4 hm e (List.mem_filter.mp he).1

theorem Bucket.put_entries_mem {b : Bucket} {e x : Entry} (hx : x ∈ (b.put e).entries) :
    x = e ∨ x ∈ b.entries := by
  unfold Bucket.put at hx
  simp only at hx
  split at hx
  · obtain ⟨y, hy, rfl⟩ := List.mem_map.mp hx
    split
    · exact Or.inl rfl
    · exact Or.inr hy
  · rcases List.mem_append.mp hx with h | h
    · exact Or.inr h
    · exact Or.inl (by simpa using h)

theorem Bucket.put_keys (b : Bucket) (e : Entry) :
    (b.entries.map (fun x => if x.key == e.key then e else x)).map (·.key) = b.entries.map (·.key) := by
  rw [List.map_map]
  apply List.map_congr_left
  intro x _
  simp only [Function.comp]
  split
  · rename_i hk; exact (by simpa using hk : x.key = e.key).symm
  · rfl

theorem Bucket.put_WF {locus : Bytes} {i : Nat} {b : Bucket} {e : Entry} (h : b.WF locus i)
    (he : bucketIndex locus e.key = i) : (b.put e).WF locus i := by
  obtain ⟨h1, h2, h3, h4⟩ := h
  have hmem : ∀ x ∈ (b.put e).entries, x = e ∨ x ∈ b.entries := fun x hx => Bucket.put_entries_mem hx
  refine ⟨?_, ?_, ?_, ?_⟩
  · unfold Bucket.put
    simp only
    split
    · rename_i hany
      rw [Bucket.put_keys b e]; exact h1
    · rename_i hany
      rw [List.map_append, List.nodup_append]
      refine ⟨h1, by simp, ?_⟩
      intro a ha b' hb'
      simp only [List.map_cons, List.map_nil, List.mem_singleton] at hb'
      subst hb'
      obtain ⟨y, hy, rfl⟩ := List.mem_map.mp ha
      intro hk
      apply hany
      rw [List.any_eq_true]
      exact ⟨y, hy, by simpa using hk⟩
  · intro x hx
    rcases hmem x hx with rfl | hx
    · exact he
    · exact h2 x hx
  · right
    intro x hx hne
    show updMin b.minExp e.expires ≤ x.expires
    rcases hmem x hx with rfl | hx
    · exact updMin_le_right hne
    · by_cases hm : b.minExp = 0
      · exact absurd (h4 hm x hx) hne
      · rcases h3 with h3 | h3
        · exact absurd h3 hm
        · exact Nat.le_trans (updMin_le_left hm) (h3 x hx hne)
  · intro hm x hx
    have hm : updMin b.minExp e.expires = 0 := hm
    obtain ⟨hm1, hm2⟩ := updMin_eq_zero.mp hm
    rcases hmem x hx with rfl | hx
    · exact hm2
    · exact h4 hm1 x hx

theorem Bucket.get_put_self (b : Bucket) (e : Entry) : (b.put e).get e.key = some e := by
  unfold Bucket.get Bucket.put
  simp only
  split
  · rename_i hany
    rw [List.any_eq_true] at hany
    obtain ⟨y, hy, hk⟩ := hany
    generalize b.entries = l at hy
    induction l with
    | nil => simp at hy
    | cons a as ih =>
      by_cases ha : (a.key == e.key) = true
      · simp only [List.map_cons, ha, if_true, List.find?_cons, beq_self_eq_true]
      · have ha : (a.key == e.key) = false := by simpa using ha
        rcases List.mem_cons.mp hy with rfl | hy
        · rw [ha] at hk; cases hk
        · simp only [List.map_cons, List.find?_cons, ha, Bool.false_eq_true, if_false]
          exact ih hy
  · rename_i hany
    rw [List.find?_append]
    have : b.entries.find? (·.key == e.key) = none := by
      rw [List.find?_eq_none]
      intro x hx hk
      apply hany
      rw [List.any_eq_true]
      exact ⟨x, hx, hk⟩
    rw [this]
    simp

theorem Bucket.get_put_ne (b : Bucket) (e : Entry) {k : Bytes} (hk : k ≠ e.key) :
    (b.put e).get k = b.get k := by
  have hek : (e.key == k) = false := by simp [Ne.symm hk]
  unfold Bucket.get Bucket.put
  simp only
  split
  · generalize b.entries = l
    induction l with
    | nil => rfl
    | cons a as ih =>
      by_cases ha : (a.key == e.key) = true
      · have hak : (a.key == k) = false := by
          have : a.key = e.key := by simpa using ha
          rw [this]; exact hek
        simp only [List.map_cons, List.find?_cons, ha, if_true, hek, hak]
        exact ih
      · have ha : (a.key == e.key) = false := by simpa using ha
        simp only [List.map_cons, List.find?_cons, ha, Bool.false_eq_true, if_false]
        rw [ih]
  · rw [List.find?_append]
    simp [hek]

theorem Bucket.put_length (b : Bucket) (e : Entry) :
    (b.put e).entries.length = if (b.get e.key).isSome then b.entries.length else b.entries.length + 1 := by
  unfold Bucket.get
  rw [← any_eq_find_isSome]
  unfold Bucket.put
  simp only
  split <;> simp

/-! ## bucket lists -/

/-- all entries of a bucket list (`Cache.entries` on the list) -/
def ents (bs : List Bucket) : List Entry := (bs.map (·.entries)).flatten

theorem Cache.entries_eq (c : Cache) : c.entries = ents c.buckets := rfl

theorem ents_nil : ents [] = [] := rfl
theorem ents_cons (b : Bucket) (bs : List Bucket) : ents (b :: bs) = b.entries ++ ents bs := by
  simp [ents]

theorem mem_ents {bs : List Bucket} {x : Entry} :
    x ∈ ents bs ↔ ∃ (i : Nat) (b : Bucket), bs[i]? = some b ∧ x ∈ b.entries := by
  constructor
  · intro h
    simp only [ents, List.mem_flatten, List.mem_map] at h
    obtain ⟨l, ⟨b, hb, rfl⟩, hx⟩ := h
    obtain ⟨i, hi⟩ := List.mem_iff_getElem?.mp hb
    exact ⟨i, b, hi, hx⟩
  · rintro ⟨i, b, hi, hx⟩
    simp only [ents, List.mem_flatten, List.mem_map]
    exact ⟨b.entries, ⟨b, List.mem_iff_getElem?.mpr ⟨i, hi⟩, rfl⟩, hx⟩

theorem ents_pad (bs : List Bucket) (n : Nat) : ents (bs ++ List.replicate n ({} : Bucket)) = ents bs := by
  induction n with
  | zero => simp
  | succ n ih =>
    rw [List.replicate_succ', ← List.append_assoc]
    simp only [ents, List.map_append, List.flatten_append] at ih ⊢
    rw [ih]; simp

theorem ents_set_length (bs : List Bucket) (i : Nat) (b b' : Bucket) (h : bs[i]? = some b) :
    (ents (bs.set i b')).length + b.entries.length = (ents bs).length + b'.entries.length := by
  induction bs generalizing i with
  | nil => simp at h
  | cons a as ih =>
    cases i with
    | zero =>
      simp only [List.getElem?_cons_zero, Option.some.injEq] at h
      subst h
      simp only [List.set_cons_zero, ents_cons, List.length_append]
      omega
    | succ i =>
      simp only [List.getElem?_cons_succ] at h
      have := ih i h
      simp only [List.set_cons_succ, ents_cons, List.length_append]
      omega

/-- every bucket of the list is well formed at its index -/
abbrev BWF (locus : Bytes) (bs : List Bucket) : Prop := ∀ (i : Nat) (b : Bucket), bs[i]? = some b → b.WF locus i

theorem BWF_pad {locus : Bytes} {bs : List Bucket} (h : BWF locus bs) (n : Nat) :
    BWF locus (bs ++ List.replicate n ({} : Bucket)) := by
  intro i b hb
  rw [List.getElem?_append] at hb
  split at hb
  · exact h i b hb
  · rw [List.getElem?_replicate] at hb
    split at hb
    · cases hb; exact Bucket.WF_empty _ _
    · cases hb

theorem BWF_set {locus : Bytes} {bs : List Bucket} (h : BWF locus bs) {i : Nat} {b' : Bucket}
    (hb' : b'.WF locus i) : BWF locus (bs.set i b') := by
  intro j b hb
  rw [List.getElem?_set] at hb
  split at hb
  · rename_i hij
    subst hij
    split at hb
    · cases hb; exact hb'
    · cases hb
  · exact h j b hb

/-- `Cache.get` on the bucket list -/
def getB (locus : Bytes) (bs : List Bucket) (k : Bytes) : Option Entry :=
  match bs[bucketIndex locus k]? with
  | some b => b.get k
  | none => none

theorem Cache.get_eq (c : Cache) (k : Bytes) : c.get k = getB c.locus c.buckets k := rfl

theorem Bucket.get_empty (k : Bytes) : ({} : Bucket).get k = none := rfl

theorem getB_pad (locus : Bytes) (bs : List Bucket) (n : Nat) (k : Bytes) :
    getB locus (bs ++ List.replicate n ({} : Bucket)) k = getB locus bs k := by
  unfold getB
  rw [List.getElem?_append]
  by_cases hlt : bucketIndex locus k < bs.length
  · rw [if_pos hlt]
  · rw [if_neg hlt, List.getElem?_replicate]
    have : bs[bucketIndex locus k]? = none := by
      rw [List.getElem?_eq_none_iff]; omega
    rw [this]
    by_cases hn : bucketIndex locus k - bs.length < n
    · rw [if_pos hn]; rfl
    · rw [if_neg hn]

theorem getB_set (locus : Bytes) (bs : List Bucket) {i : Nat} (hi : i < bs.length) (b' : Bucket) (k : Bytes) :
    getB locus (bs.set i b') k = if bucketIndex locus k = i then b'.get k else getB locus bs k := by
  unfold getB
  rw [List.getElem?_set]
  by_cases h : bucketIndex locus k = i
  · simp [h, hi]
  · have h' : ¬ i = bucketIndex locus k := fun h' => h h'.symm
    simp [h, h']

theorem getB_some {locus : Bytes} {bs : List Bucket} {k : Bytes} {y : Entry} (h : getB locus bs k = some y) :
    y ∈ ents bs ∧ y.key = k := by
  unfold getB at h
  split at h
  · rename_i b hb
    obtain ⟨h1, h2⟩ := find_key_some h
    exact ⟨mem_ents.mpr ⟨_, b, hb, h1⟩, h2⟩
  · cases h

theorem getB_of_mem {locus : Bytes} {bs : List Bucket} (h : BWF locus bs) {x : Entry} (hx : x ∈ ents bs) :
    getB locus bs x.key = some x := by
  obtain ⟨i, b, hb, hxb⟩ := mem_ents.mp hx
  obtain ⟨h1, h2, _⟩ := h i b hb
  unfold getB
  rw [h2 x hxb, hb]
  exact find_mem_self h1 hxb

theorem BWF_index {locus : Bytes} {bs : List Bucket} (h : BWF locus bs) {i : Nat} {b : Bucket}
    (hb : bs[i]? = some b) {x : Entry} (hx : x ∈ b.entries) : bucketIndex locus x.key = i :=
  (h i b hb).2.1 x hx

/-! ## `firstOver` -/

theorem firstOver_some {m : Nat} {bs : List Bucket} {i n : Nat} (h : firstOver m bs i = some n) :
    i ≤ n ∧ ∀ (j : Nat) (b : Bucket), bs[j]? = some b → b.entries.length > m → n ≤ i + j := by
  induction bs generalizing i with
  | nil => simp [firstOver] at h
  | cons a as ih =>
    simp only [firstOver] at h
    split at h
    · cases h
      exact ⟨Nat.le_refl _, fun j _ _ _ => Nat.le_add_right _ _⟩
    · rename_i hle
      obtain ⟨h1, h2⟩ := ih h
      refine ⟨by omega, ?_⟩
      intro j b hb hlen
      cases j with
      | zero =>
        simp only [List.getElem?_cons_zero, Option.some.injEq] at hb
        subst hb; exact absurd hlen hle
      | succ j =>
        simp only [List.getElem?_cons_succ] at hb
        have := h2 j b hb hlen
        omega

theorem firstOver_none {m : Nat} {bs : List Bucket} {i : Nat} (h : firstOver m bs i = none) :
    ∀ (j : Nat) (b : Bucket), bs[j]? = some b → b.entries.length ≤ m := by
  induction bs generalizing i with
  | nil => intro j b hb; simp at hb
  | cons a as ih =>
    simp only [firstOver] at h
    split at h
    · cases h
    · rename_i hle
      intro j b hb
      cases j with
      | zero =>
        simp only [List.getElem?_cons_zero, Option.some.injEq] at hb
        subst hb; omega
      | succ j =>
        simp only [List.getElem?_cons_succ] at hb
        exact ih h j b hb

/-! ## removing one key from one bucket (`Cache.evict`, `Cache.Delete`) -/

/-- a bucket without the entry under `k` -/
def dropKey (b : Bucket) (k : Bytes) : Bucket := { b with entries := b.entries.filter (·.key != k) }

/-- bucket `n` with the entry under `vk` removed -/
def evictAt (bs : List Bucket) (n : Nat) (vk : Bytes) : List Bucket :=
  bs.set n { (bs[n]?.getD ({} : Bucket)) with entries := (bs[n]?.getD ({} : Bucket)).entries.filter (·.key != vk) }

theorem evictAt_facts {locus : Bytes} {bs : List Bucket} (h : BWF locus bs) {n : Nat} {vk : Bytes} {v : Entry}
    (hv : (bs[n]?.getD ({} : Bucket)).get vk = some v) :
    n < bs.length ∧ bs[n]? = some (bs[n]?.getD ({} : Bucket)) ∧ v ∈ (bs[n]?.getD ({} : Bucket)).entries ∧ v.key = vk ∧
    bucketIndex locus vk = n ∧
    BWF locus (evictAt bs n vk) ∧ (ents (evictAt bs n vk)).length + 1 = (ents bs).length ∧
    ∀ k, getB locus (evictAt bs n vk) k = if k = vk then none else getB locus bs k := by
  have hn : n < bs.length := by
    apply Classical.byContradiction
    intro hn
    have : bs[n]? = none := by rw [List.getElem?_eq_none_iff]; omega
    rw [this] at hv
    cases hv
  have hb : bs[n]? = some (bs[n]?.getD ({} : Bucket)) := by
    rw [List.getElem?_eq_getElem hn]; rfl
  generalize bs[n]?.getD ({} : Bucket) = vb at hv hb
  have hvb : evictAt bs n vk = bs.set n { vb with entries := vb.entries.filter (·.key != vk) } := by
    unfold evictAt; rw [hb]; rfl
  obtain ⟨hv1, hv2⟩ := find_key_some hv
  have hwf := h n vb hb
  have hidx : bucketIndex locus vk = n := by rw [← hv2]; exact hwf.2.1 v hv1
  refine ⟨hn, hb, hv1, hv2, hidx, ?_, ?_, ?_⟩
  · rw [hvb]; exact BWF_set h (Bucket.WF_filter _ hwf)
  · rw [hvb]
    have h1 := ents_set_length bs n vb { vb with entries := vb.entries.filter (·.key != vk) } hb
    have h2 := filter_key_length hwf.1 hv
    simp only at h1
    omega
  · intro k
    rw [hvb, getB_set locus bs hn]
    by_cases hk : k = vk
    · subst hk
      simp only [hidx, if_true]
      exact find_filter_self _ _
    · simp only [hk, if_false]
      split
      · rename_i hik
        unfold getB
        rw [hik, hb]
        exact find_filter_ne _ hk
      · rfl

/-! ## `Cache.update` -/

/-- the bucket list grown to include the bucket of `e.key` -/
def pad (c : Cache) (e : Entry) : List Bucket :=
  c.buckets ++ List.replicate (bucketIndex c.locus e.key + 1 - c.buckets.length) ({} : Bucket)

/-- the bucket `e.key` belongs to, before the put -/
def oldB (c : Cache) (e : Entry) : Bucket := (pad c e)[bucketIndex c.locus e.key]?.getD ({} : Bucket)

/-- the bucket list after the put, before any eviction -/
def updBs (c : Cache) (e : Entry) : List Bucket :=
  (pad c e).set (bucketIndex c.locus e.key) ((oldB c e).put e)

/-- the count after the put, before any eviction -/
def updCount (c : Cache) (e : Entry) : Nat :=
  if ((oldB c e).get e.key).isSome then c.count else c.count + 1

theorem update_max0 (c : Cache) (e : Entry) (vk : Bytes) (h : c.max = 0) :
    c.update e vk = .ok c none false := by
  unfold Cache.update; rw [if_pos h]

theorem update_eq (c : Cache) (e : Entry) (vk : Bytes) (hmax : c.max ≠ 0) :
    c.update e vk =
      if updCount c e > c.max then
        match firstOver c.minPer (updBs c e) 0 with
        | some n =>
          match ((updBs c e)[n]?.getD ({} : Bucket)).get vk with
          | some v =>
            if v.created = maxCreated ((updBs c e)[n]?.getD ({} : Bucket)).entries then
              .ok { c with buckets := evictAt (updBs c e) n vk, count := updCount c e - 1 } (some v) (e.key != v.key)
            else .inadmissible
          | none => .inadmissible
        | none =>
          .ok { c with buckets := (updBs c e).set (bucketIndex c.locus e.key) (dropKey ((oldB c e).put e) e.key),
                       count := updCount c e - 1 } (some e) false
      else .ok { c with buckets := updBs c e, count := updCount c e } none (!((oldB c e).get e.key).isSome) := by
  unfold Cache.update
  rw [if_neg hmax]
  rfl

theorem update_cases (c : Cache) (e : Entry) (vk : Bytes) (hmax : c.max ≠ 0) :
    (updCount c e ≤ c.max ∧
      c.update e vk = .ok { c with buckets := updBs c e, count := updCount c e } none
        (!((oldB c e).get e.key).isSome)) ∨
    (c.max < updCount c e ∧ ∃ n, firstOver c.minPer (updBs c e) 0 = some n ∧
      ((∃ v, ((updBs c e)[n]?.getD ({} : Bucket)).get vk = some v ∧
          v.created = maxCreated ((updBs c e)[n]?.getD ({} : Bucket)).entries ∧
          c.update e vk = .ok { c with buckets := evictAt (updBs c e) n vk, count := updCount c e - 1 }
            (some v) (e.key != v.key)) ∨
        c.update e vk = .inadmissible)) ∨
    (c.max < updCount c e ∧ firstOver c.minPer (updBs c e) 0 = none ∧
      c.update e vk = .ok
        { c with buckets := (updBs c e).set (bucketIndex c.locus e.key) (dropKey ((oldB c e).put e) e.key),
                 count := updCount c e - 1 } (some e) false) := by
  rw [update_eq c e vk hmax]
  by_cases hc : updCount c e > c.max
  · right
    rw [if_pos hc]
    cases hf : firstOver c.minPer (updBs c e) 0 with
    | none => right; exact ⟨hc, rfl, rfl⟩
    | some n =>
      left
      refine ⟨hc, n, rfl, ?_⟩
      simp only
      cases hv : ((updBs c e)[n]?.getD ({} : Bucket)).get vk with
      | none => right; rfl
      | some v =>
        simp only
        by_cases hcr : v.created = maxCreated ((updBs c e)[n]?.getD ({} : Bucket)).entries
        · left
          refine ⟨v, rfl, hcr, ?_⟩
          rw [if_pos hcr]
        · right
          rw [if_neg hcr]
  · left
    rw [if_neg hc]
    exact ⟨by omega, rfl⟩

theorem pad_lt (c : Cache) (e : Entry) : bucketIndex c.locus e.key < (pad c e).length := by
  simp only [pad, List.length_append, List.length_replicate]; omega

theorem pad_get (c : Cache) (e : Entry) : (pad c e)[bucketIndex c.locus e.key]? = some (oldB c e) := by
  unfold oldB
  rw [List.getElem?_eq_getElem (pad_lt c e)]; rfl

theorem updBs_lt (c : Cache) (e : Entry) : bucketIndex c.locus e.key < (updBs c e).length := by
  unfold updBs; rw [List.length_set]; exact pad_lt c e

theorem updBs_get (c : Cache) (e : Entry) :
    (updBs c e)[bucketIndex c.locus e.key]? = some ((oldB c e).put e) := by
  unfold updBs
  rw [List.getElem?_set_self (pad_lt c e)]

theorem getB_pad' (c : Cache) (e : Entry) (k : Bytes) : getB c.locus (pad c e) k = c.get k :=
  getB_pad _ _ _ _

theorem oldB_get (c : Cache) (e : Entry) {k : Bytes} (hk : bucketIndex c.locus k = bucketIndex c.locus e.key) :
    (oldB c e).get k = c.get k := by
  rw [← getB_pad' c e k]
  unfold getB
  rw [hk, pad_get]

theorem pad_BWF {c : Cache} (h : BWF c.locus c.buckets) (e : Entry) : BWF c.locus (pad c e) :=
  BWF_pad h _

theorem oldB_WF {c : Cache} (h : BWF c.locus c.buckets) (e : Entry) :
    (oldB c e).WF c.locus (bucketIndex c.locus e.key) :=
  pad_BWF h e _ _ (pad_get c e)

theorem updBs_BWF {c : Cache} (h : BWF c.locus c.buckets) (e : Entry) : BWF c.locus (updBs c e) :=
  BWF_set (pad_BWF h e) (Bucket.put_WF (oldB_WF h e) rfl)

theorem updBs_ents_length (c : Cache) (e : Entry) (h : c.count = (ents c.buckets).length) :
    (ents (updBs c e)).length = updCount c e := by
  have h1 := ents_set_length (pad c e) (bucketIndex c.locus e.key) (oldB c e) ((oldB c e).put e) (pad_get c e)
  have h2 : ents (pad c e) = ents c.buckets := ents_pad _ _
  have h3 := Bucket.put_length (oldB c e) e
  rw [h2] at h1
  unfold updCount
  change (ents (updBs c e)).length + _ = _ at h1
  split <;> rename_i hs <;> simp only [hs, if_true, Bool.false_eq_true, if_false] at h3 <;> omega

theorem updBs_getB (c : Cache) (e : Entry) (k : Bytes) :
    getB c.locus (updBs c e) k = if k = e.key then some e else c.get k := by
  unfold updBs
  rw [getB_set _ _ (pad_lt c e)]
  by_cases hk : k = e.key
  · subst hk
    simp only [if_true]
    exact Bucket.get_put_self _ _
  · simp only [hk, if_false]
    split
    · rename_i hi
      rw [Bucket.get_put_ne _ _ hk]
      exact oldB_get c e hi
    · exact getB_pad' c e k

theorem updBs_evict_self (c : Cache) (e : Entry) :
    (updBs c e).set (bucketIndex c.locus e.key) (dropKey ((oldB c e).put e) e.key) =
      evictAt (updBs c e) (bucketIndex c.locus e.key) e.key := by
  unfold evictAt
  rw [updBs_get]
  rfl

theorem updBs_get_self (c : Cache) (e : Entry) :
    ((updBs c e)[bucketIndex c.locus e.key]?.getD ({} : Bucket)).get e.key = some e := by
  rw [updBs_get]
  exact Bucket.get_put_self _ _

theorem updCount_le (c : Cache) (e : Entry) : updCount c e ≤ c.count + 1 := by
  unfold updCount; split <;> omega

/-- the three successful outcomes of `update` when `max ≠ 0`, in the common shape used below -/
theorem update_ok_cases {c c' : Cache} {e : Entry} {vk : Bytes} {ev : Option Entry} {added : Bool}
    (hmax : c.max ≠ 0) (hu : c.update e vk = .ok c' ev added) :
    (updCount c e ≤ c.max ∧ ev = none ∧ c' = { c with buckets := updBs c e, count := updCount c e }) ∨
    (c.max < updCount c e ∧ ∃ n v, firstOver c.minPer (updBs c e) 0 = some n ∧
      ((updBs c e)[n]?.getD ({} : Bucket)).get vk = some v ∧
      v.created = maxCreated ((updBs c e)[n]?.getD ({} : Bucket)).entries ∧ ev = some v ∧
      c' = { c with buckets := evictAt (updBs c e) n vk, count := updCount c e - 1 }) ∨
    (c.max < updCount c e ∧ firstOver c.minPer (updBs c e) 0 = none ∧ ev = some e ∧
      c' = { c with buckets := evictAt (updBs c e) (bucketIndex c.locus e.key) e.key,
                    count := updCount c e - 1 }) := by
  rcases update_cases c e vk hmax with ⟨h1, h2⟩ | ⟨h1, n, hf, ⟨v, hv, hcr, h2⟩ | h2⟩ | ⟨h1, hf, h2⟩
  · rw [h2] at hu
    injection hu with a b d
    exact Or.inl ⟨h1, b.symm, a.symm⟩
  · rw [h2] at hu
    injection hu with a b d
    exact Or.inr (Or.inl ⟨h1, n, v, hf, hv, hcr, b.symm, a.symm⟩)
  · rw [h2] at hu; cases hu
  · rw [h2, updBs_evict_self] at hu
    injection hu with a b d
    exact Or.inr (Or.inr ⟨h1, hf, b.symm, a.symm⟩)

/-! ## well-formedness is preserved -/

theorem wf_new (locus : Bytes) (max minPer : Nat) : (Cache.new locus max minPer).WF :=
  ⟨rfl, Nat.zero_le _, by intro i b hb; simp [Cache.new] at hb⟩

theorem wf_evict {c : Cache} {bs : List Bucket} {n : Nat} {vk : Bytes} {v : Entry} {cnt : Nat}
    (hb : BWF c.locus bs) (hcnt : (ents bs).length = cnt) (hle : cnt ≤ c.max + 1)
    (hv : (bs[n]?.getD ({} : Bucket)).get vk = some v) :
    ({ c with buckets := evictAt bs n vk, count := cnt - 1 } : Cache).WF := by
  obtain ⟨_, _, _, _, _, h6, h7, _⟩ := evictAt_facts hb hv
  refine ⟨?_, ?_, h6⟩
  · show cnt - 1 = (ents (evictAt bs n vk)).length
    omega
  · show cnt - 1 ≤ c.max
    omega

theorem wf_update {c c' : Cache} {e : Entry} {vk : Bytes} {ev : Option Entry} {added : Bool} (h : c.WF)
    (hu : c.update e vk = .ok c' ev added) : c'.WF := by
  by_cases hmax : c.max = 0
  · rw [update_max0 c e vk hmax] at hu
    injection hu with a; rw [← a]; exact h
  · have hb : BWF c.locus c.buckets := h.buckets
    have hlen := updBs_ents_length c e h.count_eq
    have hle : updCount c e ≤ c.max + 1 := Nat.le_trans (updCount_le c e) (Nat.succ_le_succ h.count_le)
    rcases update_ok_cases hmax hu with ⟨h1, _, rfl⟩ | ⟨h1, n, v, _, hv, _, _, rfl⟩ | ⟨h1, _, _, rfl⟩
    · exact ⟨hlen.symm, h1, updBs_BWF hb e⟩
    · exact wf_evict (updBs_BWF hb e) hlen hle hv
    · exact wf_evict (updBs_BWF hb e) hlen hle (updBs_get_self c e)

/-! ## `Cache.delete` -/

/-- the bucket `Bucket.delete` leaves behind when the key is present -/
def delB (b : Bucket) (key : Bytes) : Bucket :=
  { entries := b.entries.filter (·.key != key),
    minExp := (b.entries.filter (·.key != key)).foldl (fun m x => updMin m x.expires) 0 }

theorem delB_WF {locus : Bytes} {i : Nat} {b : Bucket} (h : b.WF locus i) (key : Bytes) :
    (delB b key).WF locus i := by
  obtain ⟨h1, h2, _, _⟩ := h
  obtain ⟨f1, _, f3⟩ := foldl_updMin (b.entries.filter (·.key != key)) 0
  refine ⟨nodup_filter_keys _ h1, ?_, Or.inr f3, fun hm => (f1 hm).2⟩
  intro e he; exact h2 e (List.mem_filter.mp he).1

theorem delete_cases (c : Cache) (key : Bytes) :
    (c.get key = none ∧ c.delete key = (c, none)) ∨
    (∃ b e, c.buckets[bucketIndex c.locus key]? = some b ∧ b.get key = some e ∧ c.get key = some e ∧
      c.delete key = ({ c with buckets := c.buckets.set (bucketIndex c.locus key) (delB b key),
                               count := c.count - 1 }, some e)) := by
  unfold Cache.delete Cache.get
  simp only
  cases hb : c.buckets[bucketIndex c.locus key]? with
  | none => left; exact ⟨rfl, rfl⟩
  | some b =>
    simp only
    unfold Bucket.delete
    cases hg : b.get key with
    | none => left; exact ⟨rfl, rfl⟩
    | some e => right; exact ⟨b, e, rfl, hg, rfl, rfl⟩

theorem wf_delete {c : Cache} (h : c.WF) (key : Bytes) : (c.delete key).1.WF := by
  rcases delete_cases c key with ⟨_, h2⟩ | ⟨b, e, hb, hg, _, h2⟩
  · rw [h2]; exact h
  · rw [h2]
    have hwf := h.buckets _ b hb
    refine ⟨?_, ?_, BWF_set h.buckets (delB_WF hwf key)⟩
    · show c.count - 1 = (ents (c.buckets.set _ (delB b key))).length
      have h1 := ents_set_length c.buckets _ b (delB b key) hb
      have h3 := filter_key_length hwf.1 hg
      have h4 : c.count = (ents c.buckets).length := h.count_eq
      change _ + _ = _ + (b.entries.filter (·.key != key)).length at h1
      omega
    · show c.count - 1 ≤ c.max
      have := h.count_le
      omega

theorem delB_get (b : Bucket) (key k : Bytes) : (delB b key).get k = if k = key then none else b.get k := by
  unfold delB Bucket.get
  simp only
  by_cases hk : k = key
  · subst hk; rw [if_pos rfl]; exact find_filter_self _ _
  · rw [if_neg hk]; exact find_filter_ne _ hk

theorem get_delete (c : Cache) (key : Bytes) (_h : c.WF) (k : Bytes) :
    (c.delete key).2 = c.get key ∧ (c.delete key).1.get k = if k = key then none else c.get k := by
  rcases delete_cases c key with ⟨h1, h2⟩ | ⟨b, e, hb, hg, h1, h2⟩
  · rw [h2, h1]
    refine ⟨rfl, ?_⟩
    by_cases hk : k = key
    · rw [if_pos hk, hk]; exact h1
    · rw [if_neg hk]
  · rw [h2, h1]
    refine ⟨rfl, ?_⟩
    have hi : bucketIndex c.locus key < c.buckets.length := by
      apply Classical.byContradiction
      intro hn
      have : c.buckets[bucketIndex c.locus key]? = none := by rw [List.getElem?_eq_none_iff]; omega
      rw [this] at hb; cases hb
    show getB c.locus (c.buckets.set _ (delB b key)) k = _
    rw [getB_set _ _ hi, delB_get]
    by_cases hk : k = key
    · subst hk; simp
    · simp only [hk, if_false]
      split
      · rename_i hik
        rw [Cache.get_eq]; unfold getB; rw [hik, hb]
      · rfl

/-! ## `Cache.expire` -/

/-- the per-bucket step of `Cache.expire` -/
def expB (now : Nat) (b : Bucket) : Bucket × List Entry :=
  if b.minExp < now then b.expire now else (b, [])

theorem expire_buckets (c : Cache) (now : Nat) :
    (c.expire now).1.buckets = c.buckets.map (fun b => (expB now b).1) := by
  unfold Cache.expire
  simp only [List.map_map]
  rfl

theorem expire_out (c : Cache) (now : Nat) :
    (c.expire now).2 = (c.buckets.map (fun b => (expB now b).2)).flatten := by
  unfold Cache.expire
  simp only [List.map_map]
  rfl

theorem not_expired_of_skip {b : Bucket} {now : Nat}
    (h : b.minExp = 0 ∨ ∀ e ∈ b.entries, e.expires ≠ 0 → b.minExp ≤ e.expires) (hs : ¬ b.minExp < now) :
    ∀ e ∈ b.entries, e.isExpired now = false := by
  intro e he
  unfold Entry.isExpired
  by_cases h0 : e.expires = 0
  · simp [h0]
  · have : ¬ e.expires < now := by
      rcases h with h | h
      · omega
      · have := h e he h0; omega
    simp [this]

theorem expB_entries {b : Bucket} {now : Nat}
    (h : b.minExp = 0 ∨ ∀ e ∈ b.entries, e.expires ≠ 0 → b.minExp ≤ e.expires) :
    (expB now b).1.entries = b.entries.filter (fun e => !e.isExpired now) ∧
    (expB now b).2 = b.entries.filter (·.isExpired now) := by
  unfold expB
  by_cases hs : b.minExp < now
  · rw [if_pos hs]; exact ⟨rfl, rfl⟩
  · rw [if_neg hs]
    have hne := not_expired_of_skip h hs
    constructor
    · symm; rw [List.filter_eq_self]
      intro e he; simp [hne e he]
    · symm; rw [List.filter_eq_nil_iff]
      intro e he; simp [hne e he]

theorem expire_ents (now : Nat) (bs : List Bucket)
    (h : ∀ b ∈ bs, b.minExp = 0 ∨ ∀ e ∈ b.entries, e.expires ≠ 0 → b.minExp ≤ e.expires) :
    ents (bs.map (fun b => (expB now b).1)) = (ents bs).filter (fun e => !e.isExpired now) ∧
    (bs.map (fun b => (expB now b).2)).flatten = (ents bs).filter (·.isExpired now) := by
  induction bs with
  | nil => exact ⟨rfl, rfl⟩
  | cons a as ih =>
    obtain ⟨i1, i2⟩ := ih (fun b hb => h b (List.mem_cons_of_mem _ hb))
    obtain ⟨a1, a2⟩ := expB_entries (now := now) (h a List.mem_cons_self)
    constructor
    · rw [List.map_cons, ents_cons, ents_cons, List.filter_append, i1, a1]
    · rw [List.map_cons, List.flatten_cons, ents_cons, List.filter_append, i2, a2]

theorem filter_length_split {α} (p : α → Bool) (l : List α) :
    (l.filter p).length + (l.filter (fun x => !p x)).length = l.length := by
  induction l with
  | nil => rfl
  | cons a as ih =>
    by_cases h : p a = true
    · simp only [List.filter_cons, h, if_true, Bool.not_true, Bool.false_eq_true, if_false, List.length_cons]
      omega
    · have h : p a = false := by simpa using h
      simp only [List.filter_cons, h, if_true, Bool.not_false, Bool.false_eq_true, if_false, List.length_cons]
      omega

theorem wf_minExp_mem {c : Cache} (h : c.WF) :
    ∀ b ∈ c.buckets, b.minExp = 0 ∨ ∀ e ∈ b.entries, e.expires ≠ 0 → b.minExp ≤ e.expires := by
  intro b hb
  obtain ⟨i, hi⟩ := List.mem_iff_getElem?.mp hb
  exact (h.buckets i b hi).2.2.1

theorem expB_WF {locus : Bytes} {i : Nat} {b : Bucket} (now : Nat) (h : b.WF locus i) :
    (expB now b).1.WF locus i := by
  unfold expB
  split
  · exact Bucket.WF_filter _ h
  · exact h

theorem wf_expire {c : Cache} (h : c.WF) (now : Nat) : (c.expire now).1.WF := by
  obtain ⟨e1, e2⟩ := expire_ents now c.buckets (wf_minExp_mem h)
  refine ⟨?_, ?_, ?_⟩
  · show c.count - (c.expire now).2.length = (ents (c.expire now).1.buckets).length
    rw [expire_buckets, expire_out, e1, e2]
    have := filter_length_split (·.isExpired now) (ents c.buckets)
    have h4 : c.count = (ents c.buckets).length := h.count_eq
    omega
  · show c.count - (c.expire now).2.length ≤ c.max
    have := h.count_le
    omega
  · intro i b hb
    rw [expire_buckets, List.getElem?_map] at hb
    cases hb' : c.buckets[i]? with
    | none => rw [hb'] at hb; cases hb
    | some b0 =>
      rw [hb'] at hb
      simp only [Option.map_some, Option.some.injEq] at hb
      subst hb
      exact expB_WF now (h.buckets i b0 hb')

theorem expB_get {locus : Bytes} {i : Nat} {b : Bucket} (now : Nat) (h : b.WF locus i) (k : Bytes) :
    (expB now b).1.get k = (b.get k).filter (fun e => !e.isExpired now) := by
  unfold expB
  by_cases hs : b.minExp < now
  · rw [if_pos hs]
    exact find_filter_nodup _ _ _ h.1
  · rw [if_neg hs]
    show b.get k = _
    cases hg : b.get k with
    | none => rfl
    | some y =>
      have hy := (find_key_some hg).1
      have := not_expired_of_skip h.2.2.1 hs y hy
      simp [Option.filter, this]

theorem expire_exact (c : Cache) (now : Nat) (h : c.WF) :
    ((c.expire now).2).Perm (c.entries.filter (·.isExpired now)) ∧
    (c.expire now).1.entries = c.entries.filter (fun e => !e.isExpired now) ∧
    ∀ k, (c.expire now).1.get k = (c.get k).filter (fun e => !e.isExpired now) := by
  obtain ⟨e1, e2⟩ := expire_ents now c.buckets (wf_minExp_mem h)
  refine ⟨?_, ?_, ?_⟩
  · rw [expire_out, e2]; exact List.Perm.refl _
  · show ents (c.expire now).1.buckets = _
    rw [expire_buckets, e1]; rfl
  · intro k
    show getB c.locus (c.expire now).1.buckets k = Option.filter _ (getB c.locus c.buckets k)
    rw [expire_buckets]
    unfold getB
    rw [List.getElem?_map]
    cases hb : c.buckets[bucketIndex c.locus k]? with
    | none => rfl
    | some b => exact expB_get now (h.buckets _ b hb) k

/-! ## runs -/

theorem wf_apply {c : Cache} (h : c.WF) (op : Op) : (c.apply op).WF := by
  cases op with
  | update e v =>
    show (match c.update e v with | .ok c' _ _ => c' | .inadmissible => c).WF
    cases hu : c.update e v with
    | ok c' ev added => exact wf_update h hu
    | inadmissible => exact h
  | delete k => exact wf_delete h k
  | expire now => exact wf_expire h now

theorem wf_run (c : Cache) (h : c.WF) (ops : List Op) : (c.run ops).WF := by
  induction ops generalizing c with
  | nil => exact h
  | cons op ops ih => exact ih (c.apply op) (wf_apply h op)

theorem update_max {c c' : Cache} {e : Entry} {vk : Bytes} {ev : Option Entry} {added : Bool}
    (hu : c.update e vk = .ok c' ev added) : c'.max = c.max ∧ c'.locus = c.locus ∧ c'.minPer = c.minPer := by
  by_cases hmax : c.max = 0
  · rw [update_max0 c e vk hmax] at hu
    injection hu with a; rw [← a]; exact ⟨rfl, rfl, rfl⟩
  · rcases update_ok_cases hmax hu with ⟨_, _, rfl⟩ | ⟨_, n, v, _, _, _, _, rfl⟩ | ⟨_, _, _, rfl⟩ <;>
      exact ⟨rfl, rfl, rfl⟩

theorem apply_max (c : Cache) (op : Op) : (c.apply op).max = c.max := by
  cases op with
  | update e v =>
    show (match c.update e v with | .ok c' _ _ => c' | .inadmissible => c).max = _
    cases hu : c.update e v with
    | ok c' ev added => exact (update_max hu).1
    | inadmissible => rfl
  | delete k =>
    show (c.delete k).1.max = _
    rcases delete_cases c k with ⟨_, h2⟩ | ⟨b, e, _, _, _, h2⟩ <;> rw [h2]
  | expire now => rfl

theorem run_max {c : Cache} {ops : List Op} : (c.run ops).max = c.max := by
  induction ops generalizing c with
  | nil => rfl
  | cons op ops ih =>
    show ((c.apply op).run ops).max = _
    rw [ih, apply_max]

/-! ## refinement to a map: update -/

theorem get_update (c c' : Cache) (e : Entry) (v : Bytes) (ev : Option Entry) (added : Bool) (h : c.WF)
    (hu : c.update e v = .ok c' ev added) (hmax : c.max ≠ 0) (k : Bytes) :
    c'.get k = if (ev.map (·.key)) = some k then none else if k = e.key then some e else c.get k := by
  have hb : BWF c.locus c.buckets := h.buckets
  rcases update_ok_cases hmax hu with ⟨_, rfl, rfl⟩ | ⟨_, n, w, _, hv, _, rfl, rfl⟩ | ⟨_, _, rfl, rfl⟩
  · show getB c.locus (updBs c e) k = _
    rw [updBs_getB]
    simp
  · obtain ⟨_, _, _, hk, _, _, _, hg⟩ := evictAt_facts (updBs_BWF hb e) hv
    show getB c.locus (evictAt (updBs c e) n v) k = _
    rw [hg, updBs_getB]
    simp only [Option.map_some, Option.some.injEq, hk]
    by_cases hkv : k = v
    · subst hkv; simp
    · have hkv' : ¬ v = k := fun h => hkv h.symm
      simp only [hkv, hkv', if_false]
  · obtain ⟨_, _, _, _, _, _, _, hg⟩ := evictAt_facts (updBs_BWF hb e) (updBs_get_self c e)
    show getB c.locus (evictAt (updBs c e) _ e.key) k = _
    rw [hg, updBs_getB]
    simp only [Option.map_some, Option.some.injEq]
    by_cases hkv : k = e.key
    · subst hkv; simp
    · have hkv' : ¬ e.key = k := fun h => hkv h.symm
      simp only [hkv, hkv', if_false]

/-! ## the eviction victim -/

theorem evictAt_get_ne (bs : List Bucket) {n j : Nat} (vk : Bytes) (h : j ≠ n) :
    (evictAt bs n vk)[j]? = bs[j]? := by
  unfold evictAt
  rw [List.getElem?_set_ne (fun h' => h h'.symm)]

theorem evictAt_get_self {bs : List Bucket} {n : Nat} (vk : Bytes) (hn : n < bs.length) :
    (evictAt bs n vk)[n]? = some (dropKey (bs[n]?.getD ({} : Bucket)) vk) := by
  unfold evictAt
  rw [List.getElem?_set_self hn]
  rfl

theorem dropKey_length_le (b : Bucket) (k : Bytes) : (dropKey b k).entries.length ≤ b.entries.length :=
  List.length_filter_le _ _

theorem victim_farthest_unprotected (c c' : Cache) (e : Entry) (vk : Bytes) (v : Entry) (added : Bool)
    (h : c.WF) (hu : c.update e vk = .ok c' (some v) added) :
    (∀ x ∈ c'.entries, ∀ b, c'.buckets[bucketIndex c.locus x.key]? = some b → b.entries.length > c.minPer →
        bucketIndex c.locus v.key ≤ bucketIndex c.locus x.key) ∧
    (v = e ∨ ∀ x ∈ c'.entries, bucketIndex c.locus x.key = bucketIndex c.locus v.key → x.created ≤ v.created) := by
  have hb : BWF c.locus c.buckets := h.buckets
  by_cases hmax : c.max = 0
  · rw [update_max0 c e vk hmax] at hu
    injection hu with _ a; cases a
  rcases update_ok_cases hmax hu with ⟨_, a, _⟩ | ⟨_, n, w, hf, hv, hcr, a, rfl⟩ | ⟨_, hf, a, rfl⟩
  · cases a
  · cases a
    obtain ⟨hn, hbn, hvmem, hk, hidx, hwf', _, _⟩ := evictAt_facts (updBs_BWF hb e) hv
    have hvidx : bucketIndex c.locus v.key = n := by rw [hk]; exact hidx
    constructor
    · intro x _ b hbx hlen
      rw [hvidx]
      by_cases hj : bucketIndex c.locus x.key = n
      · omega
      · have hbx : (evictAt (updBs c e) n vk)[bucketIndex c.locus x.key]? = some b := hbx
        rw [evictAt_get_ne _ _ hj] at hbx
        have := (firstOver_some hf).2 _ b hbx hlen
        omega
    · right
      intro x hx hxi
      have hx : x ∈ ents (evictAt (updBs c e) n vk) := hx
      obtain ⟨j, b, hbj, hxb⟩ := mem_ents.mp hx
      have hj : j = n := by
        rw [← BWF_index hwf' hbj hxb, hxi, hvidx]
      subst hj
      rw [evictAt_get_self vk hn] at hbj
      injection hbj with hbj
      subst hbj
      have hxv : x ∈ ((updBs c e)[j]?.getD ({} : Bucket)).entries := (List.mem_filter.mp hxb).1
      rw [hcr]
      exact le_maxCreated hxv
  · cases a
    refine ⟨?_, Or.inl rfl⟩
    intro x _ b hbx hlen
    exfalso
    have hbx : (evictAt (updBs c e) (bucketIndex c.locus e.key) e.key)[bucketIndex c.locus x.key]? = some b := hbx
    by_cases hj : bucketIndex c.locus x.key = bucketIndex c.locus e.key
    · rw [hj, evictAt_get_self _ (updBs_lt c e), updBs_get] at hbx
      simp only [Option.getD_some] at hbx
      injection hbx with hbx
      subst hbx
      have h1 := dropKey_length_le ((oldB c e).put e) e.key
      have h2 := firstOver_none hf _ _ (updBs_get c e)
      omega
    · rw [evictAt_get_ne _ _ hj] at hbx
      have := firstOver_none hf _ b hbx
      omega

/-! ## entries disappear only by delete, expiry or eviction -/

theorem get_of_mem {c : Cache} (h : c.WF) {x : Entry} (hx : x ∈ c.entries) : c.get x.key = some x :=
  getB_of_mem h.buckets hx

theorem mem_of_get {c : Cache} {k : Bytes} {y : Entry} (h : c.get k = some y) : y ∈ c.entries ∧ y.key = k :=
  getB_some h

theorem disappears_only_three_ways (c : Cache) (op : Op) (h : c.WF) (x : Entry) (hx : x ∈ c.entries)
    (hgone : ∀ y ∈ (c.apply op).entries, y.key ≠ x.key) :
    (∃ k, op = .delete k ∧ k = x.key) ∨ (∃ now, op = .expire now ∧ x.isExpired now) ∨
    (∃ e vk c' ev added, op = .update e vk ∧ c.update e vk = .ok c' ev added ∧ (ev.map (·.key)) = some x.key) := by
  have hget := get_of_mem h hx
  -- a lookup hit under `x.key` afterwards contradicts `hgone`
  have hnone : ∀ y, (c.apply op).get x.key ≠ some y := by
    intro y hy
    obtain ⟨h1, h2⟩ := mem_of_get hy
    exact hgone y h1 h2
  cases op with
  | delete k =>
    left
    refine ⟨k, rfl, ?_⟩
    apply Classical.byContradiction
    intro hk
    have := (get_delete c k h x.key).2
    rw [if_neg (fun h' => hk h'.symm), hget] at this
    exact hnone x this
  | expire now =>
    right; left
    refine ⟨now, rfl, ?_⟩
    apply Classical.byContradiction
    intro hne
    have := (expire_exact c now h).2.2 x.key
    rw [hget] at this
    have hne : x.isExpired now = false := by simpa using hne
    simp only [Option.filter, hne, Bool.not_false, if_true] at this
    exact hnone x this
  | update e vk =>
    right; right
    cases hu : c.update e vk with
    | inadmissible =>
      exfalso
      have : c.apply (.update e vk) = c := by
        show (match c.update e vk with | .ok c' _ _ => c' | .inadmissible => c) = c
        rw [hu]
      rw [this] at hnone
      exact hnone x hget
    | ok c' ev added =>
      have happ : c.apply (.update e vk) = c' := by
        show (match c.update e vk with | .ok c' _ _ => c' | .inadmissible => c) = c'
        rw [hu]
      rw [happ] at hnone
      refine ⟨e, vk, c', ev, added, rfl, hu, ?_⟩
      apply Classical.byContradiction
      intro hev
      by_cases hmax : c.max = 0
      · rw [update_max0 c e vk hmax] at hu
        injection hu with a
        rw [← a] at hnone
        exact hnone x hget
      · have := get_update c c' e vk ev added h hu hmax x.key
        rw [if_neg hev, hget] at this
        split at this
        · exact hnone e this
        · exact hnone x this

end P2PVerif.Kad
