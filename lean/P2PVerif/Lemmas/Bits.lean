import P2PVerif.Lemmas.Distance
/-! Bit-level view of byte strings (MSB first) and the core ordering fact behind `Cache.ForEach`:
    the bucket an entry lives in fixes a prefix of its distance to any query key. -/
namespace P2PVerif.Kad
open P2PVerif

abbrev Bits := List Bool

def xorB : Bits → Bits → Bits
  | a :: as, b :: bs => (a ^^ b) :: xorB as bs
  | _, _ => []

/-- number of leading `false` bits -/
def lz : Bits → Nat
  | [] => 0
  | true :: _ => 0
  | false :: r => 1 + lz r

/-- lexicographic comparison, false < true, a proper prefix is smaller (= bytes.Compare on bit lists) -/
def cmpB : Bits → Bits → Ordering
  | [], [] => .eq
  | [], _ :: _ => .lt
  | _ :: _, [] => .gt
  | a :: as, b :: bs => if a = b then cmpB as bs else if a = false then .lt else .gt

/-- the visiting rule of `Cache.ForEach` as a relation on bucket indices; bits beyond the end count as set -/
def beforeB (d : Bits) (i j : Nat) : Prop :=
  (i < j ∧ d.getD i true = true) ∨ (j < i ∧ d.getD j true = false)

/-! ## the core: visiting order is distance order -/

theorem lz_xorB_ne (x y : Bool) (s t : Bits) (h : x ≠ y) : lz (xorB (x :: s) (y :: t)) = 0 := by
  cases x <;> cases y <;> first | exact absurd rfl h | rfl

/-- If bucket `i = lz (l ⊕ a)` is visited before bucket `j = lz (l ⊕ b)` by the rule read off `l ⊕ k`, then `a` is
    at least as close to `k` as `b` is. Entries are at least as long as the locus `l`; `k` has any length. -/
theorem before_closer : ∀ (l k a b : Bits), l.length ≤ a.length → l.length ≤ b.length →
    beforeB (xorB l k) (lz (xorB l a)) (lz (xorB l b)) → cmpB (xorB k a) (xorB k b) ≠ .gt := by
  intro l
  induction l with
  | nil =>
    intro k a b _ _ h
    simp [xorB, lz, beforeB] at h
  | cons lb l ih =>
    intro k a b ha hb h
    cases a with
    | nil => simp at ha
    | cons ab a =>
      cases b with
      | nil => simp at hb
      | cons bb b =>
        cases k with
        | nil => simp [xorB, cmpB]
        | cons kb k =>
          simp only [List.length_cons, Nat.add_le_add_iff_right] at ha hb
          by_cases h1 : lb = ab
          · by_cases h2 : lb = bb
            · subst h1; subst h2
              have h' : beforeB (xorB l k) (lz (xorB l a)) (lz (xorB l b)) := by
                simp only [xorB, Bool.xor_self, lz, beforeB] at h
                rcases h with ⟨hlt, hbit⟩ | ⟨hlt, hbit⟩
                · left; refine ⟨by omega, ?_⟩
                  rw [Nat.add_comm] at hbit; simpa using hbit
                · right; refine ⟨by omega, ?_⟩
                  rw [Nat.add_comm] at hbit; simpa using hbit
              simp only [xorB, cmpB, if_true]
              exact ih k a b ha hb h'
            · subst h1
              have hj : lz (xorB (lb :: l) (bb :: b)) = 0 := lz_xorB_ne _ _ _ _ h2
              have hi : lz (xorB (lb :: l) (lb :: a)) = 1 + lz (xorB l a) := by
                simp [xorB, lz]
              rw [hi, hj] at h
              simp only [beforeB, xorB] at h
              rcases h with ⟨hlt, _⟩ | ⟨_, hbit⟩
              · omega
              · simp only [List.getD_cons_zero] at hbit
                clear ih
                cases lb <;> cases bb <;> cases kb <;> simp_all [xorB, cmpB]
          · by_cases h2 : lb = bb
            · subst h2
              have hi : lz (xorB (lb :: l) (ab :: a)) = 0 := lz_xorB_ne _ _ _ _ h1
              have hj : lz (xorB (lb :: l) (lb :: b)) = 1 + lz (xorB l b) := by
                simp [xorB, lz]
              rw [hi, hj] at h
              simp only [beforeB, xorB] at h
              rcases h with ⟨_, hbit⟩ | ⟨hlt, _⟩
              · simp only [List.getD_cons_zero] at hbit
                clear ih
                cases lb <;> cases ab <;> cases kb <;> simp_all [xorB, cmpB]
              · omega
            · have hi : lz (xorB (lb :: l) (ab :: a)) = 0 := lz_xorB_ne _ _ _ _ h1
              have hj : lz (xorB (lb :: l) (bb :: b)) = 0 := lz_xorB_ne _ _ _ _ h2
              rw [hi, hj] at h
              simp [beforeB] at h

/-! ## facts about `lz` -/

theorem lz_le_length : ∀ (x : Bits), lz x ≤ x.length := by
  intro x; induction x with
  | nil => simp [lz]
  | cons c x ih => cases c <;> simp [lz] <;> omega

/-- bits before the first set bit are clear -/
theorem getD_lt_lz : ∀ (d : Bits) (i : Nat), i < lz d → d.getD i true = false := by
  intro d; induction d with
  | nil => intro i h; simp [lz] at h
  | cons c d ih =>
    intro i h
    cases c with
    | true => simp [lz] at h
    | false =>
      cases i with
      | zero => simp
      | succ i => simp only [lz] at h; simpa using ih i (by omega)

/-- the bit at the leading-zero count is set (or beyond the end) -/
theorem getD_lz : ∀ (d : Bits), d.getD (lz d) true = true := by
  intro d; induction d with
  | nil => simp [lz]
  | cons c d ih =>
    cases c with
    | true => simp [lz]
    | false => simp only [lz]; rw [Nat.add_comm]; simpa using ih

theorem lz_append : ∀ (x y : Bits), lz (x ++ y) = if lz x < x.length then lz x else x.length + lz y := by
  intro x; induction x with
  | nil => intro y; simp [lz]
  | cons c x ih =>
    intro y
    cases c with
    | true => simp [lz]
    | false =>
      simp only [List.cons_append, lz, List.length_cons, ih y]
      by_cases h : lz x < x.length
      · have h' : 1 + lz x < x.length + 1 := by omega
        simp [h, h']
      · have h' : ¬ 1 + lz x < x.length + 1 := by omega
        simp only [h, h', if_false]; omega

theorem xorB_append : ∀ (x y s t : Bits), x.length = y.length →
    xorB (x ++ s) (y ++ t) = xorB x y ++ xorB s t := by
  intro x; induction x with
  | nil => intro y s t h; cases y <;> simp_all [xorB]
  | cons c x ih =>
    intro y s t h
    cases y with
    | nil => simp at h
    | cons e y => simp only [List.cons_append, xorB, ih y s t (by simpa using h)]

theorem cmpB_append_left : ∀ (x s t : Bits), cmpB (x ++ s) (x ++ t) = cmpB s t := by
  intro x; induction x with
  | nil => intro s t; rfl
  | cons c x ih => intro s t; simp [cmpB, ih]

/-! ## bytes as bits -/

/-- the low `n` bits of `b`, most significant first -/
def bitsN : Nat → Nat → Bits
  | 0, _ => []
  | n + 1, b => b.testBit n :: bitsN n b

def bits8 (b : Nat) : Bits := bitsN 8 b

def toBits : Bytes → Bits
  | [] => []
  | b :: bs => bits8 b ++ toBits bs

theorem bitsN_length (n b : Nat) : (bitsN n b).length = n := by
  induction n with
  | zero => rfl
  | succ n ih => simp [bitsN, ih]

theorem bits8_length (b : Nat) : (bits8 b).length = 8 := bitsN_length 8 b

theorem toBits_length (bs : Bytes) : (toBits bs).length = 8 * bs.length := by
  induction bs with
  | nil => rfl
  | cons b bs ih => simp [toBits, bits8_length, ih]; omega

theorem bitsN_xor (n a b : Nat) : bitsN n (a ^^^ b) = xorB (bitsN n a) (bitsN n b) := by
  induction n with
  | zero => rfl
  | succ n ih => simp [bitsN, xorB, ih, Nat.testBit_xor]

theorem toBits_distance : ∀ (a b : Bytes), toBits (distance a b) = xorB (toBits a) (toBits b) := by
  intro a; induction a with
  | nil => intro b; simp [distance, toBits, xorB]
  | cons x a ih =>
    intro b
    cases b with
    | nil =>
      simp only [distance, List.zipWith_nil_right, toBits]
      cases h : bits8 x ++ toBits a <;> simp [xorB]
    | cons y b =>
      have := ih b
      simp only [distance] at this
      simp only [distance, List.zipWith_cons_cons, toBits, this]
      rw [xorB_append _ _ _ _ (by simp [bits8_length])]
      simp [bits8, bitsN_xor]

theorem bitsN_mod (n a : Nat) : bitsN n (a % 2 ^ n) = bitsN n a := by
  suffices h : ∀ m, m ≤ n → bitsN m (a % 2 ^ n) = bitsN m a from h n (Nat.le_refl n)
  intro m
  induction m with
  | zero => intro _; rfl
  | succ m ih =>
    intro hm
    simp only [bitsN, ih (by omega), Nat.testBit_mod_two_pow]
    have : m < n := by omega
    simp [this]

theorem testBit_top (p n a : Nat) (hp : p = 2 ^ n) (ha : a < 2 * p) : a.testBit n = decide (p ≤ a) := by
  subst hp
  by_cases h : 2 ^ n ≤ a
  · simp only [h, decide_true]
    have : a = 2 ^ n + (a - 2 ^ n) := by omega
    rw [this, Nat.testBit_two_pow_add_eq]
    rw [Nat.testBit_lt_two_pow (by omega)]; rfl
  · simp only [h, decide_false]
    exact Nat.testBit_lt_two_pow (by omega)

theorem mod_top (p a : Nat) (ha : a < 2 * p) : a % p = if p ≤ a then a - p else a := by
  split
  · rw [Nat.mod_eq_sub_mod (by assumption), Nat.mod_eq_of_lt (by omega)]
  · exact Nat.mod_eq_of_lt (by omega)

/-- comparing one `n`-bit number bitwise (followed by anything) is comparing the numbers -/
theorem cmpB_bitsN : ∀ (n a b : Nat) (s t : Bits), a < 2 ^ n → b < 2 ^ n →
    cmpB (bitsN n a ++ s) (bitsN n b ++ t) = if a < b then .lt else if b < a then .gt else cmpB s t := by
  intro n
  induction n with
  | zero =>
    intro a b s t ha hb
    have : a = 0 := by simpa using ha
    have : b = 0 := by simpa using hb
    subst_vars; simp [bitsN]
  | succ n ih =>
    intro a b s t ha hb
    have ha' : a < 2 * 2 ^ n := by rw [Nat.pow_succ] at ha; omega
    have hb' : b < 2 * 2 ^ n := by rw [Nat.pow_succ] at hb; omega
    have hpos : 0 < 2 ^ n := Nat.two_pow_pos n
    have hma := mod_top (2 ^ n) a ha'
    have hmb := mod_top (2 ^ n) b hb'
    have hih := ih (a % 2 ^ n) (b % 2 ^ n) s t (Nat.mod_lt _ hpos) (Nat.mod_lt _ hpos)
    rw [bitsN_mod, bitsN_mod] at hih
    simp only [bitsN, List.cons_append, cmpB, testBit_top (2 ^ n) n a rfl ha', testBit_top (2 ^ n) n b rfl hb']
    generalize 2 ^ n = p at *
    by_cases h1 : p ≤ a <;> by_cases h2 : p ≤ b
    · simp only [h1, h2, if_true] at hma hmb ⊢
      rw [hih, hma, hmb]
      split <;> split <;> (try split) <;> (try split) <;> first | rfl | omega
    · have : b < a := by omega
      have : ¬ a < b := by omega
      simp [*]
    · have : a < b := by omega
      simp [*]
    · simp only [h1, h2, if_false] at hma hmb ⊢
      rw [hih, hma, hmb]
      simp

theorem lexCmp_eq_cmpB : ∀ (a b : Bytes), validBytes a → validBytes b →
    lexCmp a b = cmpB (toBits a) (toBits b) := by
  intro a; induction a with
  | nil =>
    intro b _ _
    cases b with
    | nil => rfl
    | cons y b =>
      have : bits8 y = y.testBit 7 :: bitsN 7 y := rfl
      simp [lexCmp, toBits, this, cmpB]
  | cons x a ih =>
    intro b ha hb
    cases b with
    | nil =>
      have : bits8 x = x.testBit 7 :: bitsN 7 x := rfl
      simp [lexCmp, toBits, this, cmpB]
    | cons y b =>
      have hx : x < 2 ^ 8 := ha x (by simp)
      have hy : y < 2 ^ 8 := hb y (by simp)
      simp only [lexCmp, toBits, bits8]
      rw [cmpB_bitsN 8 x y _ _ hx hy,
        ih b (fun z hz => ha z (by simp [hz])) (fun z hz => hb z (by simp [hz]))]

theorem lz_bits8 : ∀ b, b < 256 → lz (bits8 b) = lz8 b := by decide +kernel

theorem leadingZeros_eq_lz : ∀ (d : Bytes), validBytes d → leadingZeros d = lz (toBits d) := by
  intro d; induction d with
  | nil => intro _; rfl
  | cons b d ih =>
    intro h
    simp only [leadingZeros, toBits, lz_append, bits8_length, lz_bits8 b (h b (by simp)),
      ih (fun z hz => h z (by simp [hz]))]

theorem getElem?_bits8 (b r : Nat) (hr : r < 8) : (bits8 b)[r]? = some (b.testBit (7 - r)) := by
  have : r = 0 ∨ r = 1 ∨ r = 2 ∨ r = 3 ∨ r = 4 ∨ r = 5 ∨ r = 6 ∨ r = 7 := by omega
  rcases this with rfl | rfl | rfl | rfl | rfl | rfl | rfl | rfl <;> rfl

theorem bitOr1_eq : ∀ (d : Bytes) (i : Nat), bitOr1 d i = (toBits d).getD i true := by
  intro d; induction d with
  | nil => intro i; simp [bitOr1, toBits]
  | cons b d ih =>
    intro i
    by_cases hi : i < 8
    · have h0 : i / 8 = 0 := by omega
      have hm : i % 8 = i := by omega
      simp only [bitOr1, h0, hm, List.getElem?_cons_zero, toBits, List.getD_eq_getElem?_getD]
      rw [List.getElem?_append_left (by simp [bits8_length, hi]), getElem?_bits8 b i hi]
      simp only [Nat.testBit_eq_decide_div_mod_eq, Option.getD_some]
      rw [Bool.eq_iff_iff]; simp
    · have h0 : i / 8 = (i - 8) / 8 + 1 := by omega
      have hm : i % 8 = (i - 8) % 8 := by omega
      have := ih (i - 8)
      simp only [bitOr1, List.getD_eq_getElem?_getD] at this
      simp only [bitOr1, h0, hm, List.getElem?_cons_succ, toBits, List.getD_eq_getElem?_getD]
      rw [List.getElem?_append_right (by simp [bits8_length]; omega), bits8_length]
      exact this

theorem bucketIndex_eq (l key : Bytes) (hl : validBytes l) (hk : validBytes key) (hlen : l.length ≤ key.length) :
    bucketIndex l key = lz (xorB (toBits l) (toBits key)) := by
  have : l.length - key.length = 0 := by omega
  simp only [bucketIndex, this, List.replicate_zero, List.append_nil]
  rw [leadingZeros_eq_lz _ (validBytes_distance l key hl hk), toBits_distance]

end P2PVerif.Kad
