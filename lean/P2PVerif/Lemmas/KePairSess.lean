import P2PVerif.Lemmas.KeSess
/-! The two sessions of one honest pair: their invariants and what each genuine message does to them. -/
set_option linter.unusedSimpArgs false
namespace P2PVerif.P2PKE
open P2PVerif

/-- the initiator's claim -/
def hI (kI tI : Nat) : Hello := ⟨kI, tI, .ts kI tI⟩
/-- the responder's channel-binding signature over the first transcript -/
def sg1 (kI kR tI : Nat) : CSig := .cb1 kR 0 (hI kI tI)
/-- the four handshake messages of the pair -/
def mIH (kI tI : Nat) : Wire := .initHello 0 (hI kI tI)
def mRH (kI kR tI : Nat) : Wire := .respHello 2 0 (hI kI tI) kR (sg1 kI kR tI)
def mID (kI kR tI : Nat) : Wire := .initDone 0 2 (hI kI tI) (.cb2 kI 0 2 (hI kI tI) kR (sg1 kI kR tI))
def mRD (kI tI : Nat) : Wire := .respDone 0 2 (hI kI tI)
def mDat (kI tI : Nat) (d : Dir) (n : Nat) (p : Bytes) : Wire := .data 0 2 (hI kI tI) d n p

/-- invariant of the initiator session -/
structure IOk (kI kR tI : Nat) (s : Sess) : Prop where
  isInit : s.isInit = true
  key : s.key = kI
  eph : s.eph = 0
  hello : s.hello = some (hI kI tI)
  wedged : s.wedged = false
  hs : s.hs = 0 ∨ s.hs = 2 ∨ s.hs = 4 ∨ s.hs = 8
  n0 : s.hs = 0 → s.nonce = 0
  n2 : s.hs = 2 → s.nonce = 16
  n4 : 4 ≤ s.hs → 16 ≤ s.nonce
  peer : 2 ≤ s.hs → s.rEph = some 2 ∧ s.rKey = some kR ∧ s.rSig = some (sg1 kI kR tI)
  fresh : Replay.Fresh s.rp

/-- invariant of the responder session -/
structure ROk (kI kR tI : Nat) (s : Sess) : Prop where
  isInit : s.isInit = false
  key : s.key = kR
  eph : s.eph = 2
  wedged : s.wedged = false
  hs : s.hs = 0 ∨ s.hs = 1 ∨ s.hs = 3 ∨ s.hs = 8
  n0 : s.hs ≤ 1 → s.nonce = 0
  n3 : 3 ≤ s.hs → 16 ≤ s.nonce
  peer : 1 ≤ s.hs → s.hello = some (hI kI tI) ∧ s.rEph = some 0 ∧ s.rKey = some kI ∧ s.rSig = some (sg1 kI kR tI)
  fresh : Replay.Fresh s.rp

variable {kI kR tI : Nat}

/-! ### initiator -/

theorem I_handshake {s : Sess} (h : IOk kI kR tI s) :
    s.handshake = if s.hs = 0 then some (mIH kI tI) else if s.hs = 2 then some (mID kI kR tI) else none := by
  rcases h.hs with h0 | h0 | h0 | h0
  · simp [Sess.handshake, mIH, h.isInit, h.eph, h.hello, h0]
  · obtain ⟨p1, p2, p3⟩ := h.peer (by omega)
    simp [Sess.handshake, mID, h.isInit, h.eph, h.hello, h.key, h0, p1, p2, p3]
  · simp [Sess.handshake, h0]
  · simp [Sess.handshake, h0]

theorem I_mIH {s : Sess} (h : IOk kI kR tI s) (now : Nat) : s.deliver (mIH kI tI) now = (s, .err) := by
  by_cases hx : s.expired now
  · simp [Sess.deliver, hx]
  rcases h.hs with h0 | h0 | h0 | h0 <;>
    simp [Sess.deliver, hx, mIH, Wire.counter, Sess.readHandshake, Sess.afterFailedRead, h.isInit, h0]

theorem I_mRH {s : Sess} (h : IOk kI kR tI s) (now : Nat) : s.deliver (mRH kI kR tI) now =
    if s.expired now then (s, .err) else
    if s.hs = 0 then ({ s with hs := 2, nonce := 16, rEph := some 2, rKey := some kR, rSig := some (sg1 kI kR tI) },
      .hs (some (mID kI kR tI)))
    else (s, .hs s.handshake) := by
  by_cases hx : s.expired now
  · simp [Sess.deliver, hx]
  rcases h.hs with h0 | h0 | h0 | h0 <;>
    simp [Sess.deliver, hx, mRH, mID, Wire.counter, Sess.readHandshake, Sess.afterFailedRead, Sess.handshake, sg1,
      noncePostHandshake, h.isInit, h.eph, h.hello, h.wedged, h.key, h0]

theorem I_mID {s : Sess} (h : IOk kI kR tI s) (now : Nat) : s.deliver (mID kI kR tI) now = (s, .err) := by
  by_cases hx : s.expired now
  · simp [Sess.deliver, hx]
  rcases h.hs with h0 | h0 | h0 | h0 <;>
    simp [Sess.deliver, hx, mID, Wire.counter, Sess.readHandshake, Sess.afterFailedRead, h.isInit, h0]

theorem I_mRD {s : Sess} (h : IOk kI kR tI s) (now : Nat) : s.deliver (mRD kI tI) now =
    if s.expired now then (s, .err) else
    if s.hs = 2 then ({ s with hs := 4, nonce := 16 }, .hs none)
    else (s, .hs s.handshake) := by
  by_cases hx : s.expired now
  · simp [Sess.deliver, hx]
  rcases h.hs with h0 | h0 | h0 | h0
  · simp [Sess.deliver, hx, mRD, Wire.counter, Sess.readHandshake, h.isInit, h0]
  · obtain ⟨p1, p2, p3⟩ := h.peer (by omega)
    simp [Sess.deliver, hx, mRD, Wire.counter, Sess.readHandshake, Sess.handshake, noncePostHandshake,
      h.isInit, h.eph, h.hello, h0, p1]
  · simp [Sess.deliver, hx, mRD, Wire.counter, Sess.readHandshake, h.isInit, h0]
  · simp [Sess.deliver, hx, mRD, Wire.counter, Sess.readHandshake, h.isInit, h0]

/-- a reflected data message -/
theorem I_dat_own {s : Sess} (h : IOk kI kR tI s) (n : Nat) (p : Bytes) (now : Nat) (hn : 16 ≤ n) :
    s.deliver (mDat kI tI .i2r n p) now = (s, .err) := by
  have hc : ¬ n < 4 := by omega
  by_cases hx : s.expired now
  · simp [Sess.deliver, hx]
  by_cases hr : s.canReceive
  · simp [Sess.deliver, hx, mDat, Wire.counter, hc, hr, Sess.inDir, h.isInit]
  · simp [Sess.deliver, hx, mDat, Wire.counter, hc, hr]

theorem I_dat {s : Sess} (h : IOk kI kR tI s) (n : Nat) (p : Bytes) (now : Nat) (hn : 16 ≤ n) :
    s.deliver (mDat kI tI .r2i n p) now =
    if s.expired now then (s, .err) else
    if s.hs < 2 then (s, .err) else
    if (Replay.validate s.rp n maxNonce).2 then
      ({ s with rp := (Replay.validate s.rp n maxNonce).1, hs := 8 }, .app p)
    else ({ s with rp := (Replay.validate s.rp n maxNonce).1 }, .drop) := by
  have hc : ¬ n < 4 := by omega
  by_cases hx : s.expired now
  · simp [Sess.deliver, hx]
  by_cases hr : s.hs < 2
  · have : s.canReceive = false := by simp [Sess.canReceive]; omega
    simp [Sess.deliver, hx, mDat, Wire.counter, hc, hr, this]
  · have : s.canReceive = true := by simp [Sess.canReceive]; omega
    obtain ⟨p1, p2, p3⟩ := h.peer (by omega)
    simp only [Sess.deliver, hx, mDat, Wire.counter, hc, hr, this, Sess.inDir, Sess.eI, Sess.eR, Sess.tr,
      h.isInit, h.eph, h.hello, p1]
    simp

theorem I_send {s : Sess} (h : IOk kI kR tI s) (p : Bytes) (now : Nat) :
    s.send p now = if s.expired now ∨ s.hs < 4 then (s, none)
      else ({ s with nonce := s.nonce + 1 }, some (mDat kI tI .i2r s.nonce p)) := by
  by_cases hx : s.expired now
  · simp [Sess.send, hx]
  by_cases hr : s.hs < 4
  · have : s.canSend = false := by
      rcases h.hs with h0 | h0 | h0 | h0 <;> simp [Sess.canSend, h.isInit, h0] <;> omega
    simp [Sess.send, hx, hr, this]
  · have : s.canSend = true := by simp [Sess.canSend, h.isInit]; omega
    obtain ⟨p1, p2, p3⟩ := h.peer (by omega)
    have hlt : s.nonce < maxNonce := by
      simp [Sess.expired] at hx; omega
    have hmod : s.nonce % 2 ^ 32 = s.nonce := Nat.mod_eq_of_lt (Nat.lt_trans hlt maxNonce_lt)
    have hge : ¬ s.nonce ≥ maxNonce := by omega
    simp only [Sess.send, hx, hr, this, hge, hmod, mDat, Sess.eI, Sess.eR, Sess.tr, Sess.outDir, h.isInit, h.eph,
      h.hello, p1]
    simp

/-! ### responder -/

theorem R_handshake {s : Sess} (h : ROk kI kR tI s) :
    s.handshake = if s.hs = 1 then some (mRH kI kR tI) else if s.hs = 3 then some (mRD kI tI) else none := by
  rcases h.hs with h0 | h0 | h0 | h0
  · simp [Sess.handshake, h.isInit, h0]
  · obtain ⟨p0, p1, p2, p3⟩ := h.peer (by omega)
    simp [Sess.handshake, mRH, h.isInit, h.eph, h.key, h0, p0, p1, p2, p3]
  · obtain ⟨p0, p1, p2, p3⟩ := h.peer (by omega)
    simp [Sess.handshake, mRD, h.isInit, h.eph, h.key, h0, p0, p1, p2, p3]
  · simp [Sess.handshake, h0]

theorem R_mIH {s : Sess} (h : ROk kI kR tI s) (now : Nat) : s.deliver (mIH kI tI) now =
    if s.expired now then (s, .err) else
    if s.hs = 0 then
      ({ s with hs := 1, hello := some (hI kI tI), rEph := some 0, rKey := some kI, helloTime := tI,
                rSig := some (sg1 kI kR tI) }, .hs (some (mRH kI kR tI)))
    else (s, .hs s.handshake) := by
  by_cases hx : s.expired now
  · simp [Sess.deliver, hx]
  rcases h.hs with h0 | h0 | h0 | h0 <;>
    simp [Sess.deliver, hx, mIH, mRH, hI, sg1, Wire.counter, Sess.readHandshake, Sess.handshake,
      h.isInit, h.eph, h.wedged, h.key, h0]

theorem R_mRH {s : Sess} (h : ROk kI kR tI s) (now : Nat) : s.deliver (mRH kI kR tI) now = (s, .err) := by
  by_cases hx : s.expired now
  · simp [Sess.deliver, hx]
  rcases h.hs with h0 | h0 | h0 | h0 <;>
    simp [Sess.deliver, hx, mRH, Wire.counter, Sess.readHandshake, Sess.afterFailedRead, h.isInit, h0]

theorem R_mID {s : Sess} (h : ROk kI kR tI s) (now : Nat) : s.deliver (mID kI kR tI) now =
    if s.expired now then (s, .err) else
    if s.hs = 1 then ({ s with hs := 3, nonce := 16 }, .hs (some (mRD kI tI)))
    else (s, .hs s.handshake) := by
  by_cases hx : s.expired now
  · simp [Sess.deliver, hx]
  rcases h.hs with h0 | h0 | h0 | h0
  · simp [Sess.deliver, hx, mID, Wire.counter, Sess.readHandshake, h.isInit, h0]
  · obtain ⟨p0, p1, p2, p3⟩ := h.peer (by omega)
    simp [Sess.deliver, hx, mID, mRD, sg1, Wire.counter, Sess.readHandshake, Sess.handshake, noncePostHandshake,
      h.isInit, h.eph, h.key, h0, p0, p1, p2, p3]
  · obtain ⟨p0, p1, p2, p3⟩ := h.peer (by omega)
    simp [Sess.deliver, hx, mID, mRD, sg1, Wire.counter, Sess.readHandshake, Sess.handshake, noncePostHandshake,
      h.isInit, h.eph, h.key, h0, p0, p1, p2, p3]
  · simp [Sess.deliver, hx, mID, Wire.counter, Sess.readHandshake, h.isInit, h0]

theorem R_mRD {s : Sess} (h : ROk kI kR tI s) (now : Nat) : s.deliver (mRD kI tI) now = (s, .err) := by
  by_cases hx : s.expired now
  · simp [Sess.deliver, hx]
  rcases h.hs with h0 | h0 | h0 | h0 <;>
    simp [Sess.deliver, hx, mRD, Wire.counter, Sess.readHandshake, Sess.afterFailedRead, h.isInit, h0]

theorem R_dat_own {s : Sess} (h : ROk kI kR tI s) (n : Nat) (p : Bytes) (now : Nat) (hn : 16 ≤ n) :
    s.deliver (mDat kI tI .r2i n p) now = (s, .err) := by
  have hc : ¬ n < 4 := by omega
  by_cases hx : s.expired now
  · simp [Sess.deliver, hx]
  by_cases hr : s.canReceive
  · simp [Sess.deliver, hx, mDat, Wire.counter, hc, hr, Sess.inDir, h.isInit]
  · simp [Sess.deliver, hx, mDat, Wire.counter, hc, hr]

theorem R_dat {s : Sess} (h : ROk kI kR tI s) (n : Nat) (p : Bytes) (now : Nat) (hn : 16 ≤ n) :
    s.deliver (mDat kI tI .i2r n p) now =
    if s.expired now then (s, .err) else
    if s.hs < 2 then (s, .err) else
    if (Replay.validate s.rp n maxNonce).2 then
      ({ s with rp := (Replay.validate s.rp n maxNonce).1, hs := 8 }, .app p)
    else ({ s with rp := (Replay.validate s.rp n maxNonce).1 }, .drop) := by
  have hc : ¬ n < 4 := by omega
  by_cases hx : s.expired now
  · simp [Sess.deliver, hx]
  by_cases hr : s.hs < 2
  · have : s.canReceive = false := by simp [Sess.canReceive]; omega
    simp [Sess.deliver, hx, mDat, Wire.counter, hc, hr, this]
  · have : s.canReceive = true := by simp [Sess.canReceive]; omega
    obtain ⟨p0, p1, p2, p3⟩ := h.peer (by omega)
    simp only [Sess.deliver, hx, mDat, Wire.counter, hc, hr, this, Sess.inDir, Sess.eI, Sess.eR, Sess.tr,
      h.isInit, h.eph, p0, p1]
    simp

theorem R_send {s : Sess} (h : ROk kI kR tI s) (p : Bytes) (now : Nat) :
    s.send p now = if s.expired now ∨ s.hs < 3 then (s, none)
      else ({ s with nonce := s.nonce + 1 }, some (mDat kI tI .r2i s.nonce p)) := by
  by_cases hx : s.expired now
  · simp [Sess.send, hx]
  by_cases hr : s.hs < 3
  · have : s.canSend = false := by
      rcases h.hs with h0 | h0 | h0 | h0 <;> simp [Sess.canSend, h.isInit, h0] <;> omega
    simp [Sess.send, hx, hr, this]
  · have : s.canSend = true := by simp [Sess.canSend, h.isInit]; omega
    obtain ⟨p0, p1, p2, p3⟩ := h.peer (by omega)
    have hlt : s.nonce < maxNonce := by
      simp [Sess.expired] at hx; omega
    have hmod : s.nonce % 2 ^ 32 = s.nonce := Nat.mod_eq_of_lt (Nat.lt_trans hlt maxNonce_lt)
    have hge : ¬ s.nonce ≥ maxNonce := by omega
    simp only [Sess.send, hx, hr, this, hge, hmod, mDat, Sess.eI, Sess.eR, Sess.tr, Sess.outDir, h.isInit, h.eph,
      p0, p1]
    simp

end P2PVerif.P2PKE
