import P2PVerif.Model.KeWorld
import P2PVerif.Lemmas.ReplayFresh
/-! Facts about a single P2PKE session that hold for ANY incoming term. -/
namespace P2PVerif.P2PKE
open P2PVerif

theorem maxNonce_lt : maxNonce < 2 ^ 32 := by decide
theorem maxNonce_gt : 17 < maxNonce := by decide

/-- what a successful `readHandshake` can do to the handshake index -/
theorem readHandshake_cases (s s' : Sess) (w : Wire) (h : s.readHandshake w = some s') :
    s' = s ∨ (s.hs = 0 ∧ (s'.hs = 1 ∨ s'.hs = 2)) ∨ (s.hs = 1 ∧ s'.hs = 3) ∨ (s.hs = 2 ∧ s'.hs = 4) := by
  unfold Sess.readHandshake at h
  simp only at h
  repeat' split at h
  all_goals first
    | contradiction
    | (injection h with h; subst h; first | (left; rfl) | (right; simp_all))

theorem afterFailedRead_hs (s : Sess) (w : Wire) : (s.afterFailedRead w).hs = s.hs := by
  unfold Sess.afterFailedRead
  repeat' split
  all_goals rfl

theorem afterFailedRead_handshake (s : Sess) (w : Wire) : (s.afterFailedRead w).handshake = s.handshake := by
  unfold Sess.afterFailedRead
  repeat' split
  all_goals rfl

/-- the handshake indices the code uses -/
def HsOk (n : Nat) : Prop := n = 0 ∨ n = 1 ∨ n = 2 ∨ n = 3 ∨ n = 4 ∨ n = 8

theorem HsOk.le {n : Nat} (h : HsOk n) : n ≤ 8 := by unfold HsOk at h; omega

theorem new_hsOk (isInit : Bool) (key eph now ra : Nat) : HsOk (Sess.new isInit key eph now ra).hs :=
  Or.inl rfl

/-- the handshake index after `deliver`: unchanged, one of the handshake transitions, or 8 (data) -/
theorem deliver_hs_cases (s : Sess) (w : Wire) (now : Nat) :
    (s.deliver w now).1.hs = s.hs ∨ (s.hs = 0 ∧ ((s.deliver w now).1.hs = 1 ∨ (s.deliver w now).1.hs = 2)) ∨
    (s.hs = 1 ∧ (s.deliver w now).1.hs = 3) ∨ (s.hs = 2 ∧ (s.deliver w now).1.hs = 4) ∨
    (2 ≤ s.hs ∧ (s.deliver w now).1.hs = 8) := by
  unfold Sess.deliver
  split
  · left; rfl
  split
  · left; rfl
  simp only
  split
  · split
    · rename_i s' h
      rcases readHandshake_cases s s' w h with h | h | h | h
      · left; rw [h]
      · right; left; exact h
      · right; right; left; exact h
      · right; right; right; left; exact h
    · left; exact afterFailedRead_hs s w
  · split
    · left; rfl
    · rename_i hcr
      have hcr : 2 ≤ s.hs := by simpa [Sess.canReceive] using hcr
      split
      · split
        · split
          · right; right; right; right; exact ⟨hcr, rfl⟩
          · left; rfl
        · left; rfl
      · left; rfl

/-- C06 hs_monotone (for every session whose index is one the code can produce, see `deliver_hsOk`) -/
theorem hs_monotone (s : Sess) (w : Wire) (now : Nat) (h8 : s.hs ≤ 8) : s.hs ≤ (s.deliver w now).1.hs := by
  rcases deliver_hs_cases s w now with h | h | h | h | h <;> omega

theorem deliver_hsOk (s : Sess) (w : Wire) (now : Nat) (h : HsOk s.hs) : HsOk (s.deliver w now).1.hs := by
  unfold HsOk at *
  rcases deliver_hs_cases s w now with h | h | h | h | h <;> omega

theorem send_hs (s : Sess) (p : Bytes) (now : Nat) : (s.send p now).1.hs = s.hs := by
  unfold Sess.send
  repeat' split
  all_goals rfl

theorem send_hsOk (s : Sess) (p : Bytes) (now : Nat) (h : HsOk s.hs) : HsOk (s.send p now).1.hs := by
  rw [send_hs]; exact h

theorem send_handshake (s : Sess) (p : Bytes) (now : Nat) : (s.send p now).1.handshake = s.handshake := by
  unfold Sess.send
  repeat' split
  all_goals rfl

/-- the shapes of the session after `deliver` -/
theorem deliver_shape (s : Sess) (w : Wire) (now : Nat) :
    (s.deliver w now).1 = s ∨ (∃ s', s.readHandshake w = some s' ∧ (s.deliver w now).1 = s') ∨
    (s.deliver w now).1 = s.afterFailedRead w ∨
    (∃ rp, 2 ≤ s.hs ∧ (s.deliver w now).1 = { s with rp := rp, hs := 8 }) ∨
    (∃ rp, (s.deliver w now).1 = { s with rp := rp }) := by
  unfold Sess.deliver
  split
  · left; rfl
  split
  · left; rfl
  simp only
  split
  · split
    · rename_i s' h
      right; left; exact ⟨s', h, rfl⟩
    · right; right; left; rfl
  · split
    · left; rfl
    · rename_i hcr
      have hcr : 2 ≤ s.hs := by simpa [Sess.canReceive] using hcr
      split
      · split
        · split
          · right; right; right; left; exact ⟨_, hcr, rfl⟩
          · right; right; right; right; exact ⟨_, rfl⟩
        · left; rfl
      · left; rfl

/-- the handshake message is a function of the handshake state: any delivery that leaves the index alone
    leaves the message alone -/
theorem deliver_handshake_of_hs_eq (s : Sess) (w : Wire) (now : Nat) (h : (s.deliver w now).1.hs = s.hs) :
    (s.deliver w now).1.handshake = s.handshake := by
  rcases deliver_shape s w now with h' | ⟨s', hr, h'⟩ | h' | ⟨rp, _, h'⟩ | ⟨rp, h'⟩
  · rw [h']
  · rw [h'] at h ⊢
    rcases readHandshake_cases s s' w hr with h' | h' | h' | h'
    · rw [h']
    all_goals omega
  · rw [h']; exact afterFailedRead_handshake s w
  · rw [h'] at h ⊢
    have h : 8 = s.hs := h
    simp [Sess.handshake, ← h]
  · rw [h']; rfl

end P2PVerif.P2PKE
