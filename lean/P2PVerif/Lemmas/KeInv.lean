import P2PVerif.Lemmas.KeSessAuth
/-! The world invariant of the P2PKE adversary model: provenance of every term on the wire, authentication of
    every session that got far enough, and agreement of the `sends`/`apps` logs with the session states.
    This file: definitions, monotonicity, and the generic "one session moved forward" lemma. -/
namespace P2PVerif.P2PKE
open P2PVerif

/-- the honest responder standing behind initiator `i` (state `s`) that reports key `k` -/
def IPeer (W : World) (i : Nat) (s : Sess) (k : KeyId) : Prop :=
  ∃ j sR, W.sess[j]? = some sR ∧ sR.isInit = false ∧ sR.key = k ∧ s.rEph = some (2 * j) ∧
    sR.rEph = some (2 * i) ∧ sR.hello = s.hello ∧ 1 ≤ sR.hs ∧ sR.rKey = some s.key

/-- the honest initiator standing behind responder `i` (state `s`) that reports key `k` -/
def RPeer (W : World) (i : Nat) (s : Sess) (k : KeyId) : Prop :=
  ∃ j sI, W.sess[j]? = some sI ∧ sI.isInit = true ∧ sI.key = k ∧ s.rEph = some (2 * j) ∧
    sI.rEph = some (2 * i) ∧ sI.hello = s.hello ∧ 2 ≤ sI.hs ∧ sI.rKey = some s.key

/-- provenance of a term on the wire: the honest session that emitted it, in a state that matches -/
def Backed (W : World) : Wire → Prop
  | .initHello _ _ => True
  | .respHello eR tw seen k sg =>
    ∃ j sR, eR = 2 * j ∧ W.sess[j]? = some sR ∧ sR.isInit = false ∧ sR.key = k ∧ 1 ≤ sR.hs ∧
      sR.hello = some seen ∧ sR.rEph = some tw ∧ sR.rKey = some (seen.key) ∧ sg = .cb1 k tw seen
  | .initDone eI eR tr sg =>
    ∃ j sI, eI = 2 * j ∧ W.sess[j]? = some sI ∧ sI.isInit = true ∧ 2 ≤ sI.hs ∧ sI.hello = some tr ∧
      sI.rEph = some eR ∧ ∃ rk rs, sI.rKey = some rk ∧ sI.rSig = some rs ∧ sg = .cb2 sI.key (2 * j) eR tr rk rs
  | .respDone _ _ _ => True
  | .data eI eR tr dir c p =>
    ∃ j s, W.sess[j]? = some s ∧ (j, Wire.data eI eR tr dir c p, p) ∈ W.sends ∧ s.canSend = true ∧
      eI = s.eI ∧ eR = s.eR ∧ tr = s.tr ∧ dir = s.outDir
  | .junk _ _ _ => False
  | .short => False

/-- a `sends` entry: its session can send, the counter is below the session's nonce and in range -/
def SendOK (W : World) (a : Nat × Wire × Bytes) : Prop :=
  ∃ s, W.sess[a.1]? = some s ∧ s.canSend = true ∧ noncePostHandshake ≤ a.2.1.counter ∧
    a.2.1.counter < s.nonce ∧ a.2.1.counter < maxNonce

/-- an `apps` entry: a data term under the receiving session's own keys and direction; either an honest
    emission or one the adversary built with an ephemeral of its own -/
def AppOK (W : World) (a : Nat × Wire × Bytes) : Prop :=
  ∃ s c, W.sess[a.1]? = some s ∧ s.canReceive = true ∧ a.2.1 = .data s.eI s.eR s.tr s.inDir c a.2.2 ∧
    (a.2.1 ∈ W.wire ∨ advEph s.eI = true ∨ advEph s.eR = true)

structure WorldLe (W W' : World) : Prop where
  sess : ∀ (j : Nat) (s : Sess), W.sess[j]? = some s → ∃ s', W'.sess[j]? = some s' ∧ SessLe s s'
  wire : ∀ w ∈ W.wire, w ∈ W'.wire
  sends : ∀ a ∈ W.sends, a ∈ W'.sends
  apps : ∀ a ∈ W.apps, a ∈ W'.apps

theorem IPeer.mono {W W' : World} (hle : WorldLe W W') {i : Nat} {s s' : Sess} {k : KeyId} (h : IPeer W i s k)
    (e1 : s.rEph = s'.rEph) (e2 : s.hello = s'.hello) (e3 : s.key = s'.key) : IPeer W' i s' k := by
  obtain ⟨j, sR, hj, a1, a2, a3, a4, a5, a6, a7⟩ := h
  obtain ⟨sR', hj', le⟩ := hle.sess j sR hj
  obtain ⟨f1, f2, f3, _⟩ := le.fixed a6
  refine ⟨j, sR', hj', ?_, ?_, ?_, ?_, ?_, Nat.le_trans a6 le.hs, ?_⟩
  · rw [← le.isInit]; exact a1
  · rw [← le.key]; exact a2
  · rw [← e1]; exact a3
  · rw [← f2]; exact a4
  · rw [← f1, a5, e2]
  · rw [← f3, a7, e3]

theorem RPeer.mono {W W' : World} (hle : WorldLe W W') {i : Nat} {s s' : Sess} {k : KeyId} (h : RPeer W i s k)
    (e1 : s.rEph = s'.rEph) (e2 : s.hello = s'.hello) (e3 : s.key = s'.key) : RPeer W' i s' k := by
  obtain ⟨j, sI, hj, a1, a2, a3, a4, a5, a6, a7⟩ := h
  obtain ⟨sI', hj', le⟩ := hle.sess j sI hj
  obtain ⟨f1, f2, f3, _⟩ := le.fixed (by omega)
  refine ⟨j, sI', hj', ?_, ?_, ?_, ?_, ?_, Nat.le_trans a6 le.hs, ?_⟩
  · rw [← le.isInit]; exact a1
  · rw [← le.key]; exact a2
  · rw [← e1]; exact a3
  · rw [← f2]; exact a4
  · rw [← f1, a5, e2]
  · rw [← f3, a7, e3]

theorem Backed.mono {W W' : World} (hle : WorldLe W W') {w : Wire} (h : Backed W w) : Backed W' w := by
  cases w with
  | initHello => trivial
  | respDone => trivial
  | junk => exact h
  | short => exact h
  | respHello eR tw seen k sg =>
    obtain ⟨j, sR, he, hj, a1, a2, a3, a4, a5, a6, a7⟩ := h
    obtain ⟨sR', hj', le⟩ := hle.sess j sR hj
    obtain ⟨f1, f2, f3, _⟩ := le.fixed a3
    refine ⟨j, sR', he, hj', ?_, ?_, Nat.le_trans a3 le.hs, ?_, ?_, ?_, a7⟩
    · rw [← le.isInit]; exact a1
    · rw [← le.key]; exact a2
    · rw [← f1]; exact a4
    · rw [← f2]; exact a5
    · rw [← f3]; exact a6
  | initDone eI eR tr sg =>
    obtain ⟨j, sI, he, hj, a1, a2, a3, a4, rk, rs, a5, a6, a7⟩ := h
    obtain ⟨sI', hj', le⟩ := hle.sess j sI hj
    obtain ⟨f1, f2, f3, f4⟩ := le.fixed (by omega)
    refine ⟨j, sI', he, hj', ?_, Nat.le_trans a2 le.hs, ?_, ?_, rk, rs, ?_, ?_, ?_⟩
    · rw [← le.isInit]; exact a1
    · rw [← f1]; exact a3
    · rw [← f2]; exact a4
    · rw [← f3]; exact a5
    · rw [← f4]; exact a6
    · rw [← le.key]; exact a7
  | data eI eR tr dir c p =>
    obtain ⟨j, s, hj, hm, a1, a2, a3, a4, a5⟩ := h
    obtain ⟨s', hj', le⟩ := hle.sess j s hj
    have h1 : 1 ≤ s.hs := by have := canSend_hs a1; omega
    refine ⟨j, s', hj', hle.sends _ hm, le.canSend a1, ?_, ?_, ?_, ?_⟩
    · rw [← le.eI h1]; exact a2
    · rw [← le.eR h1]; exact a3
    · rw [← le.tr h1]; exact a4
    · rw [← le.outDir]; exact a5

theorem SendOK.mono {W W' : World} (hle : WorldLe W W') {a : Nat × Wire × Bytes} (h : SendOK W a) : SendOK W' a := by
  obtain ⟨s, hj, a1, a2, a3, a4⟩ := h
  obtain ⟨s', hj', le⟩ := hle.sess _ s hj
  exact ⟨s', hj', le.canSend a1, a2, Nat.lt_of_lt_of_le a3 (le.nonce a1), a4⟩

theorem AppOK.mono {W W' : World} (hle : WorldLe W W') {a : Nat × Wire × Bytes} (h : AppOK W a) : AppOK W' a := by
  obtain ⟨s, c, hj, a1, a2, a3⟩ := h
  obtain ⟨s', hj', le⟩ := hle.sess _ s hj
  have h1 : 1 ≤ s.hs := by have := canReceive_hs.mp a1; omega
  refine ⟨s', c, hj', le.canReceive a1, ?_, ?_⟩
  · rw [← le.eI h1, ← le.eR h1, ← le.tr h1, ← le.inDir]; exact a2
  · rw [← le.eI h1, ← le.eR h1]
    rcases a3 with a3 | a3
    · exact Or.inl (hle.wire _ a3)
    · exact Or.inr a3

/-- the monotone part of the world invariant -/
structure Core (hk : KeyId → Bool) (W : World) : Prop where
  sinv : ∀ (i : Nat) (s : Sess), W.sess[i]? = some s → SInv i s
  wire : ∀ w ∈ W.wire, Backed W w
  iauth : ∀ (i : Nat) (s : Sess) (k : KeyId), W.sess[i]? = some s → s.isInit = true → 2 ≤ s.hs →
    s.rKey = some k → hk k = true → IPeer W i s k
  rauth : ∀ (i : Nat) (s : Sess) (k : KeyId), W.sess[i]? = some s → s.isInit = false → 3 ≤ s.hs →
    s.rKey = some k → hk k = true → RPeer W i s k
  sends : ∀ a ∈ W.sends, SendOK W a
  apps : ∀ a ∈ W.apps, AppOK W a

/-- the world grew; every new wire term / log entry is justified in the new world; every session that is
    past its authentication threshold either was so before or is justified in the new world -/
theorem core_mono {hk : KeyId → Bool} {W W' : World} (hW : Core hk W) (hle : WorldLe W W')
    (hsinv : ∀ (j : Nat) (s' : Sess), W'.sess[j]? = some s' → SInv j s')
    (hwire : ∀ w ∈ W'.wire, w ∈ W.wire ∨ Backed W' w)
    (hsends : ∀ a ∈ W'.sends, a ∈ W.sends ∨ SendOK W' a)
    (happs : ∀ a ∈ W'.apps, a ∈ W.apps ∨ AppOK W' a)
    (hia : ∀ (j : Nat) (s' : Sess) (k : KeyId), W'.sess[j]? = some s' → s'.isInit = true → 2 ≤ s'.hs →
      s'.rKey = some k → hk k = true → (∃ s, W.sess[j]? = some s ∧ 2 ≤ s.hs) ∨ IPeer W' j s' k)
    (hra : ∀ (j : Nat) (s' : Sess) (k : KeyId), W'.sess[j]? = some s' → s'.isInit = false → 3 ≤ s'.hs →
      s'.rKey = some k → hk k = true → (∃ s, W.sess[j]? = some s ∧ 3 ≤ s.hs) ∨ RPeer W' j s' k) :
    Core hk W' := by
  refine ⟨hsinv, ?_, ?_, ?_, ?_, ?_⟩
  · intro w hw
    rcases hwire w hw with h | h
    · exact (hW.wire w h).mono hle
    · exact h
  · intro j s' k hj hi h2 hrk hon
    rcases hia j s' k hj hi h2 hrk hon with ⟨s, hs, h2s⟩ | h
    · obtain ⟨s'', hj', le⟩ := hle.sess j s hs
      rw [hj] at hj'; cases hj'
      obtain ⟨f1, f2, f3, _⟩ := le.fixed (by omega)
      exact (hW.iauth j s k hs (by rw [le.isInit]; exact hi) h2s (by rw [f3]; exact hrk) hon).mono hle f2 f1 le.key
    · exact h
  · intro j s' k hj hi h3 hrk hon
    rcases hra j s' k hj hi h3 hrk hon with ⟨s, hs, h3s⟩ | h
    · obtain ⟨s'', hj', le⟩ := hle.sess j s hs
      rw [hj] at hj'; cases hj'
      obtain ⟨f1, f2, f3, _⟩ := le.fixed (by omega)
      exact (hW.rauth j s k hs (by rw [le.isInit]; exact hi) h3s (by rw [f3]; exact hrk) hon).mono hle f2 f1 le.key
    · exact h
  · intro a ha
    rcases hsends a ha with h | h
    · exact (hW.sends a h).mono hle
    · exact h
  · intro a ha
    rcases happs a ha with h | h
    · exact (hW.apps a h).mono hle
    · exact h

/-! ## one session moves forward -/

theorem lt_of_sess {l : List Sess} {i : Nat} {s : Sess} (hs : l[i]? = some s) : i < l.length := by
  rcases List.getElem?_eq_some_iff.mp hs with ⟨h, _⟩; exact h

theorem sess_set {l : List Sess} {i : Nat} {s : Sess} (hs : l[i]? = some s) (s' : Sess) (j : Nat) :
    (l.set i s')[j]? = if i = j then some s' else l[j]? := by
  rw [List.getElem?_set]
  by_cases h : i = j
  · subst h; simp [lt_of_sess hs]
  · simp [h]

theorem worldLe_set {W W' : World} {i : Nat} {s s' : Sess} (hs : W.sess[i]? = some s) (hle : SessLe s s')
    (hsess : W'.sess = W.sess.set i s') (hw : ∀ w ∈ W.wire, w ∈ W'.wire) (hsd : ∀ a ∈ W.sends, a ∈ W'.sends)
    (hap : ∀ a ∈ W.apps, a ∈ W'.apps) : WorldLe W W' := by
  refine ⟨?_, hw, hsd, hap⟩
  intro j t ht
  rw [hsess, sess_set hs]
  by_cases hij : i = j
  · subst hij
    rw [hs] at ht; cases ht
    exact ⟨s', by simp, hle⟩
  · exact ⟨t, by simp [hij, ht], SessLe.refl t⟩

/-- session `i` moves from `s` to a later state `s'`; new wire terms and log entries are justified in the new
    world; if the step takes the session past its authentication threshold, its peer is exhibited -/
theorem core_step {hk : KeyId → Bool} {W W' : World} {i : Nat} {s s' : Sess} (hW : Core hk W)
    (hs : W.sess[i]? = some s) (hle : SessLe s s') (hsi : SInv i s')
    (hsess : W'.sess = W.sess.set i s')
    (hwsub : ∀ w ∈ W.wire, w ∈ W'.wire) (hssub : ∀ a ∈ W.sends, a ∈ W'.sends) (hasub : ∀ a ∈ W.apps, a ∈ W'.apps)
    (hwire : ∀ w ∈ W'.wire, w ∈ W.wire ∨ Backed W' w)
    (hsends : ∀ a ∈ W'.sends, a ∈ W.sends ∨ SendOK W' a)
    (happs : ∀ a ∈ W'.apps, a ∈ W.apps ∨ AppOK W' a)
    (hia : s'.isInit = true → s.hs < 2 → 2 ≤ s'.hs → ∀ k, s'.rKey = some k → hk k = true → IPeer W' i s' k)
    (hra : s'.isInit = false → s.hs < 3 → 3 ≤ s'.hs → ∀ k, s'.rKey = some k → hk k = true → RPeer W' i s' k) :
    Core hk W' := by
  have hWle := worldLe_set hs hle hsess hwsub hssub hasub
  refine core_mono hW hWle ?_ hwire hsends happs ?_ ?_
  · intro j t ht
    rw [hsess, sess_set hs] at ht
    by_cases hij : i = j
    · subst hij; simp at ht; subst ht; exact hsi
    · simp [hij] at ht; exact hW.sinv j t ht
  · intro j t k ht hi h2 hrk hon
    rw [hsess, sess_set hs] at ht
    by_cases hij : i = j
    · subst hij; simp at ht; subst ht
      by_cases hlt : s.hs < 2
      · exact Or.inr (hia hi hlt h2 k hrk hon)
      · exact Or.inl ⟨s, hs, by omega⟩
    · simp [hij] at ht
      exact Or.inl ⟨t, ht, h2⟩
  · intro j t k ht hi h3 hrk hon
    rw [hsess, sess_set hs] at ht
    by_cases hij : i = j
    · subst hij; simp at ht; subst ht
      by_cases hlt : s.hs < 3
      · exact Or.inr (hra hi hlt h3 k hrk hon)
      · exact Or.inl ⟨s, hs, by omega⟩
    · simp [hij] at ht
      exact Or.inl ⟨t, ht, h3⟩

end P2PVerif.P2PKE
