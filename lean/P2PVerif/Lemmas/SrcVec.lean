import P2PVerif.Gen.Src
import P2PVerif.Lemmas.SrcLoops
import P2PVerif.Lemmas.SrcKad
import P2PVerif.Model.P2PKE
/-! The regenerated `p2p.VecSize`/`p2p.VecBytes` (IOVec helpers used by every layer that gathers a vector) and the
    regenerated `Session.canSend/canReceive/IsReady` are the model's. -/
namespace P2PVerif.Src
open P2PVerif P2PVerif.Go

def vsStep (v : List Go.Bytes) (j : Int) (t : Int) : Go.Ctl Int Int := .next (t + ((v.getD j.toNat []).length : Int))

theorem vs_loop (v : List Go.Bytes) : ∀ (n k : Nat) (t : Int), k + n ≤ v.length →
    Go.pureLoopN (ρ := Int) n (k : Int) t (vsStep v) = .done (t + (((v.drop k).take n).flatten.length : Int)) := by
  intro n
  induction n with
  | zero => intro k t _; simp [Go.pureLoopN]
  | succ n ih =>
    intro k t h
    simp only [Go.pureLoopN, vsStep]
    have := ih (k + 1) (t + ((v.getD k []).length : Int)) (by omega)
    simp only [Int.toNat_natCast]
    rw [show ((k : Int) + 1) = ((k + 1 : Nat) : Int) by omega, this]
    congr 1
    have hk : k < v.length := by omega
    rw [List.drop_eq_getElem_cons hk, List.take_succ_cons, List.flatten_cons, List.length_append]
    simp only [List.getD_eq_getElem?_getD, List.getElem?_eq_getElem hk, Option.getD_some]
    omega

theorem VecSize_eq (v : List Go.Bytes) : p2p.VecSize v = .ok (v.flatten.length : Int) := by
  unfold p2p.VecSize
  simp only [bind_ok]
  rw [Go.forRange_eq_pure (fun _ => True) _ (vsStep v) 0 (Go.len v) 0 trivial]
  · have := vs_loop v v.length 0 0 (by omega)
    simp only [Go.len, Int.sub_zero, Int.toNat_natCast]
    simp only [Int.natCast_zero] at this
    rw [this]
    simp
  · intro j s h0 h1 _
    refine ⟨?_, fun _ _ => trivial⟩
    have h1' : j.toNat < v.length := by simp only [Go.len] at h1; omega
    simp only [Go.idx_ok v j h0 h1', bind_ok, vsStep, pure_eq, Go.len, List.getD_eq_getElem?_getD,
      List.getElem?_eq_getElem h1', Option.getD_some]

def vbStep (v : List Go.Bytes) (j : Int) (o : Go.Bytes) : Go.Ctl Go.Bytes Go.Bytes := .next (o ++ v.getD j.toNat [])

theorem vb_loop (v : List Go.Bytes) : ∀ (n k : Nat) (o : Go.Bytes), k + n ≤ v.length →
    Go.pureLoopN (ρ := Go.Bytes) n (k : Int) o (vbStep v) = .done (o ++ ((v.drop k).take n).flatten) := by
  intro n
  induction n with
  | zero => intro k o _; simp [Go.pureLoopN]
  | succ n ih =>
    intro k o h
    simp only [Go.pureLoopN, vbStep]
    have := ih (k + 1) (o ++ v.getD k []) (by omega)
    simp only [Int.toNat_natCast]
    rw [show ((k : Int) + 1) = ((k + 1 : Nat) : Int) by omega, this]
    congr 1
    have hk : k < v.length := by omega
    rw [List.drop_eq_getElem_cons hk, List.take_succ_cons, List.flatten_cons]
    simp only [List.getD_eq_getElem?_getD, List.getElem?_eq_getElem hk, Option.getD_some, List.append_assoc]

theorem VecBytes_eq (out : Go.Bytes) (v : List Go.Bytes) : p2p.VecBytes out v = .ok (out ++ v.flatten) := by
  unfold p2p.VecBytes
  simp only [bind_ok]
  rw [Go.forRange_eq_pure (fun _ => True) _ (vbStep v) 0 (Go.len v) out trivial]
  · have := vb_loop v v.length 0 out (by omega)
    simp only [Go.len, Int.sub_zero, Int.toNat_natCast]
    simp only [Int.natCast_zero] at this
    rw [this]
    simp
  · intro j s h0 h1 _
    refine ⟨?_, fun _ _ => trivial⟩
    have h1' : j.toNat < v.length := by simp only [Go.len] at h1; omega
    simp only [Go.idx_ok v j h0 h1', bind_ok, vbStep, pure_eq, List.getD_eq_getElem?_getD,
      List.getElem?_eq_getElem h1', Option.getD_some]

/-- `VecSize` is the length of what `VecBytes` gathers -/
theorem VecSize_VecBytes (v : List Go.Bytes) :
    ∃ n b, p2p.VecSize v = .ok n ∧ p2p.VecBytes [] v = .ok b ∧ n = (b.length : Int) :=
  ⟨_, _, VecSize_eq v, VecBytes_eq [] v, by simp⟩

/-! ### Session.canSend / canReceive / IsReady -/

theorem u8_ge (n k : Nat) (hn : n < 256) (hk : k < 256) : (UInt8.ofNat n ≥ UInt8.ofNat k) ↔ n ≥ k := by
  simp only [ge_iff_le, UInt8.le_iff_toNat_le, UInt8.toNat_ofNat']
  rw [Nat.mod_eq_of_lt hn, Nat.mod_eq_of_lt hk]

theorem canSend_eq (s : P2PKE.Sess) (h : s.hs < 256) :
    p2pke.Session.canSend s.isInit (UInt8.ofNat s.hs) = .ok s.canSend := by
  unfold p2pke.Session.canSend P2PKE.Sess.canSend
  have h3 := u8_ge s.hs 3 h (by omega)
  have h2 := u8_ge s.hs 2 h (by omega)
  simp only [pure_eq]
  congr 1
  simp only [show (3 : UInt8) = UInt8.ofNat 3 from rfl, show (2 : UInt8) = UInt8.ofNat 2 from rfl, h3, h2]

theorem canReceive_eq (s : P2PKE.Sess) (h : s.hs < 256) :
    p2pke.Session.canReceive (UInt8.ofNat s.hs) = .ok s.canReceive := by
  unfold p2pke.Session.canReceive P2PKE.Sess.canReceive
  have h2 := u8_ge s.hs 2 h (by omega)
  simp only [pure_eq]
  congr 1
  simp only [show (2 : UInt8) = UInt8.ofNat 2 from rfl, h2]

theorem IsReady_eq (s : P2PKE.Sess) (h : s.hs < 256) :
    p2pke.Session.IsReady s.isInit (UInt8.ofNat s.hs) = .ok s.isReady := by
  unfold p2pke.Session.IsReady P2PKE.Sess.isReady
  simp only [canSend_eq s h, canReceive_eq s h, bind_ok, pure_eq]
  cases s.canSend <;> simp

end P2PVerif.Src
