import P2PVerif.Model.DHT
import P2PVerif.Model.CacheOps
import P2PVerif.Lemmas.DistanceLt
import P2PVerif.Lemmas.Iterate
import P2PVerif.Lemmas.Pigeon
/-! Proofs of the C20 properties of the iterative DHT operations. Core Lean only. -/
namespace P2PVerif.DHT
open P2PVerif P2PVerif.Kad

/-- all four operations have the shape `if initial.isEmpty then some {} else iterate …` -/
theorem run_inv (key : Bytes) (n : Nat) (fn : St → NodeInfo → St × List NodeInfo × Bool)
    (P : NodeInfo → Prop) (R : List Bytes → St → Prop)
    (hstep : ∀ seen st node, R seen st → P node → node.id ∉ seen →
      R (node.id :: seen) (fn st node).1 ∧ ∀ x ∈ (fn st node).2.1, P x)
    (h0 : R [] {}) (fuel : Nat) (initial : List NodeInfo) (hP : ∀ x ∈ initial, P x) (st : St)
    (h : (if initial.isEmpty then some {} else iterate key n fn fuel initial [] {}) = some st) :
    ∃ seen, R seen st := by
  split at h
  · cases h; exact ⟨[], h0⟩
  · exact iterate_inv key n fn P R hstep fuel initial [] {} st hP h0 h

/-! ## what the four callbacks have in common -/

/-- the callback records the node as visited, passes it to `Ask` at most once, and only returns peers that the
    responder listed in this very answer -/
def GoodFn (ask : Responder) (fn : St → NodeInfo → St × List NodeInfo × Bool) : Prop :=
  ∀ st node,
    (fn st node).1.visited = node.id :: st.visited ∧
    ((fn st node).1.asked = st.asked ∨ (fn st node).1.asked = node.id :: st.asked) ∧
    ∀ x ∈ (fn st node).2.1, x ∈ (ask st.calls node).nodes

theorem findNodeFn_good (target : Bytes) (validate : NodeInfo → Bool) (ask : Responder) :
    GoodFn ask (findNodeFn target validate ask) := by
  intro st node
  unfold findNodeFn
  dsimp only
  repeat' split
  all_goals simp_all

theorem joinFn_good (ask : Responder) : GoodFn ask (joinFn ask) := by
  intro st node
  unfold joinFn
  dsimp only
  repeat' split
  all_goals simp_all

theorem getFn_good (key : Bytes) (validate : Bytes → Bool) (ask : Responder) : GoodFn ask (getFn key validate ask) := by
  intro st node
  unfold getFn
  dsimp only
  repeat' split
  all_goals simp_all

theorem putFn_good (key : Bytes) (ask : Responder) : GoodFn ask (putFn key ask) := by
  intro st node
  unfold putFn
  dsimp only
  repeat' split
  all_goals simp_all

/-- the iteration an operation runs: key, queue bound and callback -/
def Oper.spec (o : Oper) (initial : List NodeInfo) (ask : Responder) :
    Bytes × Nat × (St → NodeInfo → St × List NodeInfo × Bool) :=
  match o with
  | .findNode t v => (t, 10, findNodeFn t v ask)
  | .join t => (t, initial.length, joinFn ask)
  | .get k v => (k, 3, getFn k v ask)
  | .put k => (k, initial.length * 3 / 2, putFn k ask)

theorem Oper.run_eq (o : Oper) (fuel : Nat) (initial : List NodeInfo) (ask : Responder) :
    o.run fuel initial ask =
      if initial.isEmpty then some {}
      else iterate (o.spec initial ask).1 (o.spec initial ask).2.1 (o.spec initial ask).2.2 fuel initial [] {} := by
  cases o <;> rfl

theorem Oper.spec_good (o : Oper) (initial : List NodeInfo) (ask : Responder) : GoodFn ask (o.spec initial ask).2.2 := by
  cases o
  · exact findNodeFn_good _ _ _
  · exact joinFn_good _
  · exact getFn_good _ _ _
  · exact putFn_good _ _

/-! ## contacts_nodup -/

def RNodup (seen : List Bytes) (st : St) : Prop :=
  st.visited = seen ∧ seen.Nodup ∧ st.asked.Sublist st.visited

theorem GoodFn.RNodup_step {ask : Responder} {fn : St → NodeInfo → St × List NodeInfo × Bool} (hg : GoodFn ask fn)
    {seen : List Bytes} {st : St} {node : NodeInfo} (h : RNodup seen st) (hx : node.id ∉ seen) :
    RNodup (node.id :: seen) (fn st node).1 := by
  obtain ⟨h1, h2, h3⟩ := h
  obtain ⟨hv, ha, _⟩ := hg st node
  refine ⟨by rw [hv, h1], List.nodup_cons.2 ⟨hx, h2⟩, ?_⟩
  rw [hv]
  rcases ha with ha | ha <;> rw [ha]
  · exact h3.cons _
  · exact h3.cons_cons _

theorem run_RNodup (o : Oper) (fuel : Nat) (initial : List NodeInfo) (ask : Responder) (st : St)
    (h : o.run fuel initial ask = some st) : ∃ seen, RNodup seen st := by
  rw [Oper.run_eq] at h
  refine run_inv _ _ _ (fun _ => True) RNodup ?_ ⟨rfl, List.nodup_nil, List.Sublist.refl _⟩ fuel initial
    (fun _ _ => trivial) st h
  intro seen st node hR _ hx
  exact ⟨(o.spec_good initial ask).RNodup_step hR hx, fun _ _ => trivial⟩

theorem contacts_nodup (o : Oper) (fuel : Nat) (initial : List NodeInfo) (ask : Responder) (st : St)
    (h : o.run fuel initial ask = some st) : st.visited.Nodup ∧ st.asked.Nodup ∧ ∀ a ∈ st.asked, a ∈ st.visited := by
  obtain ⟨seen, h1, h2, h3⟩ := run_RNodup o fuel initial ask st h
  rw [← h1] at h2
  exact ⟨h2, h3.nodup h2, fun a ha => h3.subset ha⟩

/-! ## contacts_subset_mentioned -/

theorem contacts_subset_mentioned (o : Oper) (fuel : Nat) (initial : List NodeInfo) (ask : Responder) (st : St)
    (h : o.run fuel initial ask = some st) :
    ∀ v ∈ st.visited, (∃ n ∈ initial, n.id = v) ∨ (∃ i n, ∃ m ∈ (ask i n).nodes, m.id = v) := by
  rw [Oper.run_eq] at h
  let M : Bytes → Prop := fun v => (∃ n ∈ initial, n.id = v) ∨ (∃ i n, ∃ m ∈ (ask i n).nodes, m.id = v)
  have := run_inv _ _ _ (fun x => M x.id) (fun _ st => ∀ v ∈ st.visited, M v) ?_ (by simp) fuel initial
    (fun x hx => Or.inl ⟨x, hx, rfl⟩) st h
  · exact this.elim fun _ h => h
  · intro seen st node hR hP _
    obtain ⟨hv, _, hn⟩ := o.spec_good initial ask st node
    refine ⟨?_, fun x hx => Or.inr ⟨_, _, x, hn x hx, rfl⟩⟩
    rw [hv]
    intro v hv'
    rcases List.mem_cons.1 hv' with rfl | hv'
    · exact hP
    · exact hR v hv'

/-! ## terminates -/

set_option linter.unusedVariables false in
theorem terminates (o : Oper) (initial : List NodeInfo) (ask : Responder)
    (hk : 32 ≤ o.key.length ∧ validBytes o.key)
    (hi : ∀ n ∈ initial, n.id.length = 32 ∧ validBytes n.id)
    (ha : ∀ i n, ∀ m ∈ (ask i n).nodes, m.id.length = 32 ∧ validBytes m.id) :
    ∃ fuel, (o.run fuel initial ask).isSome := by
  by_cases he : initial.isEmpty
  · exact ⟨0, by rw [Oper.run_eq, if_pos he]; rfl⟩
  · have ⟨f, hf⟩ := iterate_terminates (o.spec initial ask).1 (o.spec initial ask).2.1 (o.spec initial ask).2.2
      (fun x => x.length = 32 ∧ validBytes x) (256 ^ 32) (nodup_bytes_length_le 32)
      (fun st node x hx => ha _ _ x ((o.spec_good initial ask st node).2.2 x hx))
      (256 ^ 32 + 1) [] (by simp) List.nodup_nil (by simp) initial.length initial {} (Nat.le_refl _) hi
    exact ⟨f, by rw [Oper.run_eq, if_neg he]; exact hf⟩

/-! ## tracking the nearest element -/

/-- `c` is a nearest element of `l` (and is absent only if `l` is empty) -/
def IsMin (key : Bytes) (l : List Bytes) (c : Option NodeInfo) : Prop :=
  (l ≠ [] → c.isSome = true) ∧ ∀ c', c = some c' → c'.id ∈ l ∧ ∀ v ∈ l, distanceLt key v c'.id = false

theorem IsMin_nil (key : Bytes) : IsMin key [] none := by simp [IsMin]

/-- the update all three operations perform: replace when forced (`b`, only ever true on an empty list) or when
    strictly nearer -/
theorem IsMin_update (key : Bytes) (l : List Bytes) (c : Option NodeInfo) (node : NodeInfo) (b : Bool)
    (hb : b = true → l = []) (h : IsMin key l c) :
    IsMin key (node.id :: l) (if (b || nearer key node c) = true then some node else c) := by
  obtain ⟨h1, h2⟩ := h
  have hnew : (∀ v ∈ l, distanceLt key v node.id = false) →
      IsMin key (node.id :: l) (some node) := by
    intro hv
    refine ⟨fun _ => rfl, ?_⟩
    intro c' hc'
    cases hc'
    refine ⟨by simp, ?_⟩
    intro v hv'
    rcases List.mem_cons.1 hv' with rfl | hv'
    · exact distanceLt_irrefl _ _
    · exact hv v hv'
  cases hbb : b with
  | true =>
    have := hb hbb
    subst this
    simpa using hnew (by simp)
  | false =>
    cases c with
    | none =>
      have hl : l = [] := by
        cases l with
        | nil => rfl
        | cons x xs => simp at h1
      subst hl
      simpa [nearer] using hnew (by simp)
    | some c0 =>
      have ⟨hc0, hmin⟩ := h2 c0 rfl
      simp only [Bool.false_or, nearer]
      cases hlt : distanceLt key node.id c0.id with
      | true =>
        simp only [if_true]
        apply hnew
        intro v hv
        cases hvn : distanceLt key v node.id with
        | false => rfl
        | true =>
          have := distanceLt_trans key v node.id c0.id hvn hlt
          rw [hmin v hv] at this
          cases this
      | false =>
        simp only [Bool.false_eq_true, if_false]
        refine ⟨fun _ => rfl, ?_⟩
        intro c' hc'
        cases hc'
        refine ⟨by simp [hc0], ?_⟩
        intro v hv'
        rcases List.mem_cons.1 hv' with rfl | hv'
        · exact hlt
        · exact hmin v hv'

/-! ## findnode_closest_is_min_of_visited -/

theorem findNodeFn_closest (target : Bytes) (validate : NodeInfo → Bool) (ask : Responder) (st : St) (node : NodeInfo) :
    (findNodeFn target validate ask st node).1.closest =
      (if (false || nearer target node st.closest) = true then some node else st.closest) := by
  unfold findNodeFn
  dsimp only
  repeat' split
  all_goals simp_all

theorem findnode_closest_is_min_of_visited (fuel : Nat) (initial : List NodeInfo) (target : Bytes)
    (validate : NodeInfo → Bool) (ask : Responder) (st : St)
    (h : findNode fuel initial target validate ask = some st) :
    (st.visited ≠ [] → st.closest.isSome) ∧
    ∀ c, st.closest = some c → c.id ∈ st.visited ∧ ∀ v ∈ st.visited, distanceLt target v c.id = false := by
  unfold findNode at h
  have := run_inv _ _ _ (fun _ => True) (fun _ st => IsMin target st.visited st.closest) ?_ (IsMin_nil _) fuel initial
    (fun _ _ => trivial) st h
  · exact this.elim fun _ h => h
  · intro seen st node hR _ _
    refine ⟨?_, fun _ _ => trivial⟩
    rw [(findNodeFn_good target validate ask st node).1, findNodeFn_closest]
    exact IsMin_update _ _ _ _ _ (by simp) hR

/-! ## findnode_only_validated -/

/-- the peers the find-node callback hands back were listed in this very answer and passed `validate` -/
theorem findNodeFn_new_validated (target : Bytes) (validate : NodeInfo → Bool) (ask : Responder) (st : St)
    (node : NodeInfo) :
    ∀ x ∈ (findNodeFn target validate ask st node).2.1, x ∈ (ask st.calls node).nodes ∧ validate x = true := by
  unfold findNodeFn
  dsimp only
  repeat' split
  all_goals simp_all

theorem findnode_only_validated (fuel : Nat) (initial : List NodeInfo) (target : Bytes)
    (validate : NodeInfo → Bool) (ask : Responder) (st : St)
    (h : findNode fuel initial target validate ask = some st) :
    (∀ v ∈ st.visited, (∃ n ∈ initial, n.id = v) ∨ (∃ i n, ∃ m ∈ (ask i n).nodes, validate m = true ∧ m.id = v)) ∧
    (∀ c, st.closest = some c → (c ∈ initial) ∨ (∃ i n, c ∈ (ask i n).nodes ∧ validate c = true)) := by
  unfold findNode at h
  let P : NodeInfo → Prop := fun c => c ∈ initial ∨ (∃ i n, c ∈ (ask i n).nodes ∧ validate c = true)
  let M : Bytes → Prop := fun v =>
    (∃ n ∈ initial, n.id = v) ∨ (∃ i n, ∃ m ∈ (ask i n).nodes, validate m = true ∧ m.id = v)
  have hPM : ∀ x, P x → M x.id := by
    intro x hx
    rcases hx with hx | ⟨i, n, hx, hv⟩
    · exact Or.inl ⟨x, hx, rfl⟩
    · exact Or.inr ⟨i, n, x, hx, hv, rfl⟩
  have := run_inv _ _ _ P (fun _ st => (∀ v ∈ st.visited, M v) ∧ ∀ c, st.closest = some c → P c) ?_
    ⟨by simp, by simp⟩ fuel initial (fun x hx => Or.inl hx) st h
  · exact this.elim fun _ h => h
  · intro seen st node hR hP _
    refine ⟨⟨?_, ?_⟩, fun x hx => ?_⟩
    · rw [(findNodeFn_good target validate ask st node).1]
      intro v hv
      rcases List.mem_cons.1 hv with rfl | hv
      · exact hPM _ hP
      · exact hR.1 v hv
    · rw [findNodeFn_closest]
      intro c hc
      split at hc
      · cases hc; exact hP
      · exact hR.2 c hc
    · have ⟨h1, h2⟩ := findNodeFn_new_validated target validate ask st node x hx
      exact Or.inr ⟨_, _, h1, h2⟩

/-! ## get_truthful -/

theorem getFn_spec (key : Bytes) (validate : Bytes → Bool) (ask : Responder) (st : St) (node : NodeInfo) :
    ((getFn key validate ask st node).1.responders = st.responders ∧
      (getFn key validate ask st node).1.responded = st.responded ∧
      (getFn key validate ask st node).1.closest = st.closest ∧
      (getFn key validate ask st node).1.value = st.value ∧
      (getFn key validate ask st node).1.from_ = st.from_ ∧
      ((getFn key validate ask st node).1.asked = st.asked ∨
        (getFn key validate ask st node).1.asked = node.id :: st.asked)) ∨
    ((ask st.calls node).ok = true ∧
      (getFn key validate ask st node).1.asked = node.id :: st.asked ∧
      (getFn key validate ask st node).1.responders = node.id :: st.responders ∧
      (getFn key validate ask st node).1.responded = st.responded + 1 ∧
      (getFn key validate ask st node).1.closest =
        (if (decide (st.responded = 0) || nearer key node st.closest) = true then some node else st.closest) ∧
      (((getFn key validate ask st node).1.value = st.value ∧ (getFn key validate ask st node).1.from_ = st.from_) ∨
        ∃ v, (ask st.calls node).value = some v ∧ validate v = true ∧
          (getFn key validate ask st node).1.value = some v ∧
          (getFn key validate ask st node).1.from_ = some node.id)) := by
  unfold getFn
  dsimp only
  repeat' split
  all_goals simp_all

def RGet (key : Bytes) (validate : Bytes → Bool) (ask : Responder) (st : St) : Prop :=
  (∀ v, st.value = some v → validate v = true ∧
      ∃ f, st.from_ = some f ∧ f ∈ st.asked ∧ ∃ i n, n.id = f ∧ (ask i n).ok = true ∧ (ask i n).value = some v) ∧
  st.responded = st.responders.length ∧ IsMin key st.responders st.closest ∧ (∀ r ∈ st.responders, r ∈ st.asked)

theorem getFn_RGet (key : Bytes) (validate : Bytes → Bool) (ask : Responder) (st : St) (node : NodeInfo)
    (h : RGet key validate ask st) : RGet key validate ask (getFn key validate ask st node).1 := by
  obtain ⟨h1, h2, h3, h4⟩ := h
  rcases getFn_spec key validate ask st node with ⟨e1, e2, e3, e4, e5, e6⟩ | ⟨hok, e1, e2, e3, e4, e5⟩
  · unfold RGet
    rw [e1, e2, e3, e4, e5]
    refine ⟨?_, h2, h3, ?_⟩
    · intro v hv
      obtain ⟨hv1, f, hf1, hf2, hf3⟩ := h1 v hv
      refine ⟨hv1, f, hf1, ?_, hf3⟩
      rcases e6 with e6 | e6 <;> rw [e6] <;> simp [hf2]
    · intro r hr
      have := h4 r hr
      rcases e6 with e6 | e6 <;> rw [e6] <;> simp [this]
  · unfold RGet
    rw [e1, e2, e3, e4]
    refine ⟨?_, by simp [h2], ?_, ?_⟩
    · intro v hv
      rcases e5 with ⟨e5, e6⟩ | ⟨v', hv1, hv2, e5, e6⟩
      · rw [e5] at hv
        obtain ⟨hv1, f, hf1, hf2, hf3⟩ := h1 v hv
        exact ⟨hv1, f, by rw [e6, hf1], by simp [hf2], hf3⟩
      · rw [e5] at hv
        cases hv
        exact ⟨hv2, node.id, e6, by simp, _, node, rfl, hok, hv1⟩
    · refine IsMin_update _ _ _ _ _ ?_ h3
      intro hb
      have : st.responded = 0 := by simpa using hb
      rw [h2] at this
      exact List.eq_nil_of_length_eq_zero this
    · intro r hr
      rcases List.mem_cons.1 hr with rfl | hr
      · simp
      · simp [h4 r hr]

theorem get_truthful (fuel : Nat) (initial : List NodeInfo) (key : Bytes) (validate : Bytes → Bool)
    (ask : Responder) (st : St) (h : get fuel initial key validate ask = some st) :
    (∀ v, st.value = some v → validate v = true ∧
        ∃ f, st.from_ = some f ∧ f ∈ st.asked ∧ ∃ i n, n.id = f ∧ (ask i n).ok = true ∧ (ask i n).value = some v) ∧
    (st.responders ≠ [] → st.closest.isSome) ∧
    (∀ c, st.closest = some c → c.id ∈ st.responders ∧ ∀ r ∈ st.responders, distanceLt key r c.id = false) ∧
    (∀ r ∈ st.responders, r ∈ st.asked) := by
  unfold get at h
  have := run_inv _ _ _ (fun _ => True) (fun _ st => RGet key validate ask st) ?_
    ⟨by simp, rfl, IsMin_nil _, by simp⟩ fuel initial (fun _ _ => trivial) st h
  · obtain ⟨_, h1, _, h3, h4⟩ := this
    exact ⟨h1, h3.1, h3.2, h4⟩
  · intro seen st node hR _ _
    exact ⟨getFn_RGet key validate ask st node hR, fun _ _ => trivial⟩

/-! ## put_truthful -/

theorem putFn_spec (key : Bytes) (ask : Responder) (st : St) (node : NodeInfo) :
    (putFn key ask st node).1.asked = node.id :: st.asked ∧
    (((putFn key ask st node).1.acceptors = st.acceptors ∧
      (putFn key ask st node).1.accepted = st.accepted ∧
      (putFn key ask st node).1.closest = st.closest) ∨
    ((ask st.calls node).ok = true ∧ (ask st.calls node).accepted = true ∧
      (putFn key ask st node).1.acceptors = node.id :: st.acceptors ∧
      (putFn key ask st node).1.accepted = st.accepted + 1 ∧
      (putFn key ask st node).1.closest =
        (if (decide (st.accepted = 0) || nearer key node st.closest) = true then some node else st.closest))) := by
  unfold putFn
  dsimp only
  repeat' split
  all_goals simp_all

def RPut (key : Bytes) (ask : Responder) (st : St) : Prop :=
  st.accepted = st.acceptors.length ∧ st.acceptors.Sublist st.asked ∧
  (∀ a ∈ st.acceptors, ∃ i n, n.id = a ∧ (ask i n).ok = true ∧ (ask i n).accepted = true) ∧
  IsMin key st.acceptors st.closest

theorem putFn_RPut (key : Bytes) (ask : Responder) (st : St) (node : NodeInfo)
    (h : RPut key ask st) : RPut key ask (putFn key ask st node).1 := by
  obtain ⟨h1, h2, h3, h4⟩ := h
  obtain ⟨ea, hs⟩ := putFn_spec key ask st node
  rcases hs with ⟨e1, e2, e3⟩ | ⟨hok, hacc, e1, e2, e3⟩
  · unfold RPut
    rw [ea, e1, e2, e3]
    exact ⟨h1, h2.cons _, h3, h4⟩
  · unfold RPut
    rw [ea, e1, e2, e3]
    refine ⟨by simp [h1], h2.cons_cons _, ?_, ?_⟩
    · intro a ha
      rcases List.mem_cons.1 ha with rfl | ha
      · exact ⟨_, node, rfl, hok, hacc⟩
      · exact h3 a ha
    · refine IsMin_update _ _ _ _ _ ?_ h4
      intro hb
      have : st.accepted = 0 := by simpa using hb
      rw [h1] at this
      exact List.eq_nil_of_length_eq_zero this

theorem put_truthful (fuel : Nat) (initial : List NodeInfo) (key : Bytes) (ask : Responder) (st : St)
    (minAccepted : Nat) (h : put fuel initial key ask = some st) :
    st.accepted = st.acceptors.length ∧ st.acceptors.Nodup ∧ (∀ a ∈ st.acceptors, a ∈ st.asked) ∧
    (∀ a ∈ st.acceptors, ∃ i n, n.id = a ∧ (ask i n).ok = true ∧ (ask i n).accepted = true) ∧
    (putErr minAccepted st = true ↔ st.acceptors.length < (if minAccepted < 1 then 2 else minAccepted)) ∧
    (st.acceptors ≠ [] → st.closest.isSome) ∧
    (∀ c, st.closest = some c → c.id ∈ st.acceptors ∧ ∀ a ∈ st.acceptors, distanceLt key a c.id = false) := by
  have hnd := (contacts_nodup (.put key) fuel initial ask st h).2.1
  unfold put at h
  have := run_inv _ _ _ (fun _ => True) (fun _ st => RPut key ask st) ?_
    ⟨rfl, List.Sublist.refl _, by simp, IsMin_nil _⟩ fuel initial (fun _ _ => trivial) st h
  · obtain ⟨_, h1, h2, h3, h4⟩ := this
    refine ⟨h1, h2.nodup hnd, fun a ha => h2.subset ha, h3, ?_, h4.1, h4.2⟩
    simp [putErr, h1]
  · intro seen st node hR _ _
    exact ⟨putFn_RPut key ask st node hR, fun _ _ => trivial⟩

end P2PVerif.DHT
