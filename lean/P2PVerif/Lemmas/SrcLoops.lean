import P2PVerif.Src.Rt
/-! Generic facts about the loop combinators of `Src/Rt.lean`: a loop whose body, on the indices and states it
    meets, is a fault-free pure step is the corresponding pure loop. -/
namespace P2PVerif.Go

/-- pure counterpart of `loopN` -/
def pureLoopN {σ ρ} : Nat → Int → σ → (Int → σ → Ctl σ ρ) → Out σ ρ
  | 0, _, s, _ => .done s
  | n + 1, i, s, g =>
    match g i s with
    | .next s' => pureLoopN n (i + 1) s' g
    | .brk s' => .done s'
    | .ret r => .ret r

theorem loopN_eq_pure {σ ρ} (Inv : σ → Prop) (f : Int → σ → M (Ctl σ ρ)) (g : Int → σ → Ctl σ ρ) :
    ∀ (n : Nat) (i : Int) (s : σ), Inv s →
      (∀ j s, i ≤ j → j < i + n → Inv s → f j s = .ok (g j s) ∧ (∀ s', g j s = .next s' → Inv s')) →
      loopN n i s f = .ok (pureLoopN n i s g) := by
  intro n
  induction n with
  | zero => intro i s _ _; rfl
  | succ n ih =>
    intro i s hs h
    have h1 := h i s (Int.le_refl _) (by omega) hs
    simp only [loopN, pureLoopN, h1.1, bind_ok]
    cases hg : g i s with
    | next s' =>
      simp only []
      exact ih (i + 1) s' (h1.2 s' hg) (fun j s hj hj' hs => h j s (by omega) (by omega) hs)
    | brk s' => rfl
    | ret r => rfl

theorem forRange_eq_pure {σ ρ} (Inv : σ → Prop) (f : Int → σ → M (Ctl σ ρ)) (g : Int → σ → Ctl σ ρ)
    (lo hi : Int) (s : σ) (hs : Inv s)
    (h : ∀ j s, lo ≤ j → j < hi → Inv s → f j s = .ok (g j s) ∧ (∀ s', g j s = .next s' → Inv s')) :
    forRange lo hi s f = .ok (pureLoopN (hi - lo).toNat lo s g) := by
  unfold forRange
  exact loopN_eq_pure Inv f g _ lo s hs (fun j s hj hj' hs => h j s hj (by omega) hs)

/-- pure counterpart of `forEach` -/
def pureForEach {α σ ρ} : List α → Int → σ → (Int → α → σ → Ctl σ ρ) → Out σ ρ
  | [], _, s, _ => .done s
  | x :: xs, i, s, g =>
    match g i x s with
    | .next s' => pureForEach xs (i + 1) s' g
    | .brk s' => .done s'
    | .ret r => .ret r

theorem forEach_eq_pure {α σ ρ} (f : Int → α → σ → M (Ctl σ ρ)) (g : Int → α → σ → Ctl σ ρ) :
    ∀ (xs : List α) (i : Int) (s : σ), (∀ j x s, i ≤ j → f j x s = .ok (g j x s)) →
      forEach xs i s f = .ok (pureForEach xs i s g) := by
  intro xs
  induction xs with
  | nil => intro i s _; rfl
  | cons x xs ih =>
    intro i s h
    simp only [forEach, pureForEach, h i x s (Int.le_refl _), bind_ok]
    cases hg : g i x s with
    | next s' => exact ih (i + 1) s' (fun j x s hj => h j x s (by omega))
    | brk s' => rfl
    | ret r => rfl

/-! `idx`, `setIdx`, `slice` in range -/

theorem idx_ok {α} (xs : List α) (i : Int) (h0 : 0 ≤ i) (h1 : i.toNat < xs.length) :
    idx xs i = .ok (xs[i.toNat]'h1) := by
  unfold idx; simp [h0, h1]

theorem idx_ofNat {α} (xs : List α) (k : Nat) (h1 : k < xs.length) :
    idx xs (k : Int) = .ok (xs[k]'h1) := by
  unfold idx; simp [h1]

theorem setIdx_ok {α} (xs : List α) (i : Int) (v : α) (h0 : 0 ≤ i) (h1 : i.toNat < xs.length) :
    setIdx xs i v = .ok (xs.set i.toNat v) := by
  unfold setIdx; simp [h0, h1]

theorem slice_ok {α} (xs : List α) (lo hi : Int) (h0 : 0 ≤ lo) (h1 : lo ≤ hi) (h2 : hi ≤ xs.length) :
    slice xs lo hi = .ok ((xs.drop lo.toNat).take (hi - lo).toNat) := by
  unfold slice; simp [h0, h1, h2]

theorem slice_from {α} (xs : List α) (k : Nat) (h : k ≤ xs.length) :
    slice xs (k : Int) (len xs) = .ok (xs.drop k) := by
  unfold slice len
  have : ((k : Int) ≤ (xs.length : Int)) := by omega
  simp [this]
  exact List.take_of_length_le (by simp)

theorem slice_to {α} (xs : List α) (k : Nat) (h : k ≤ xs.length) :
    slice xs 0 (k : Int) = .ok (xs.take k) := by
  unfold slice
  have : ((k : Int) ≤ (xs.length : Int)) := by omega
  simp [this]

theorem makeList_ok {α} (z : α) (n : Int) (h : 0 ≤ n) : makeList z n = .ok (List.replicate n.toNat z) := by
  unfold makeList; simp [h]

end P2PVerif.Go
