import P2PVerif.Model.KeWorld
/-! Small facts about `Sess.deliver` / `Sess.send` needed by the channel invariants. -/
namespace P2PVerif.P2PKE
open P2PVerif

theorem Sess.isReady_iff (s : Sess) :
    s.isReady = true ↔ (s.isInit = true ∧ 3 ≤ s.hs) ∨ (s.isInit = false ∧ 2 ≤ s.hs) := by
  unfold Sess.isReady Sess.canSend Sess.canReceive
  cases h : s.isInit <;> simp <;> omega

theorem Sess.isReady_false_iff (s : Sess) :
    s.isReady = false ↔ (s.isInit = true ∧ s.hs < 3) ∨ (s.isInit = false ∧ s.hs < 2) := by
  unfold Sess.isReady Sess.canSend Sess.canReceive
  cases h : s.isInit <;> simp <;> omega

/-- what `readHandshake` may change: everything else is kept; a ready session is not changed at all -/
theorem Sess.readHandshake_fixed (s s' : Sess) (w : Wire) (hr : s.readHandshake w = some s') :
    s'.isInit = s.isInit ∧ s'.key = s.key ∧ s'.eph = s.eph ∧ s'.expiresAt = s.expiresAt ∧ s.hs ≤ s'.hs ∧
    (s.isReady = true → s' = s) ∧ (s.isInit = false → s.hs = 0 → s'.hs ≤ 1) := by
  have hrd := Sess.isReady_iff s
  unfold Sess.readHandshake at hr
  simp only [] at hr
  by_cases h1 : (¬s.isInit = true ∧ s.hs = 0 ∧ w.counter = 0)
  · rw [if_pos h1] at hr
    split at hr
    · cases hr
    · split at hr
      · split at hr
        · cases hr; simp [hrd]; and_intros <;> grind
        · cases hr
      · cases hr
  rw [if_neg h1] at hr
  by_cases h2 : (s.isInit = true ∧ s.hs = 0 ∧ w.counter = 1)
  · rw [if_pos h2] at hr
    split at hr
    · cases hr
    · split at hr
      · split at hr
        · cases hr; simp [hrd]; and_intros <;> grind
        · cases hr
      · cases hr
  rw [if_neg h2] at hr
  by_cases h3 : (¬s.isInit = true ∧ s.hs = 1 ∧ w.counter = 2)
  · rw [if_pos h3] at hr
    split at hr
    · split at hr
      · cases hr; simp [hrd]; and_intros <;> grind
      · cases hr
    · cases hr
  rw [if_neg h3] at hr
  by_cases h4 : (s.isInit = true ∧ s.hs = 2 ∧ w.counter = 3)
  · rw [if_pos h4] at hr
    split at hr
    · split at hr
      · cases hr; simp [hrd]; and_intros <;> grind
      · cases hr
    · cases hr
  rw [if_neg h4] at hr
  by_cases h5 : (¬s.isInit = true ∧ s.hs = 3 ∧ w.counter = 2)
  · rw [if_pos h5] at hr
    split at hr
    · split at hr
      · cases hr; simp; omega
      · cases hr
    · cases hr
  rw [if_neg h5] at hr
  split at hr
  · cases hr; simp [hrd]; omega
  · cases hr

theorem Sess.readHandshake_ready (s s' : Sess) (w : Wire) (h : s.isReady = true)
    (hr : s.readHandshake w = some s') : s' = s :=
  (Sess.readHandshake_fixed s s' w hr).2.2.2.2.2.1 h

theorem Sess.afterFailedRead_eq (s : Sess) (w : Wire) :
    ∃ b, s.afterFailedRead w = { s with wedged := b } := by
  unfold Sess.afterFailedRead
  split
  · split
    · exact ⟨true, rfl⟩
    · exact ⟨true, rfl⟩
    · exact ⟨s.wedged, rfl⟩
  split
  · split
    · split
      · exact ⟨true, rfl⟩
      · exact ⟨s.wedged, rfl⟩
    · exact ⟨s.wedged, rfl⟩
  · exact ⟨s.wedged, rfl⟩

/-- the four possible outcomes of `Session.Deliver` -/
theorem Sess.deliver_cases (s : Sess) (w : Wire) (now : Nat) :
    (∃ b, s.deliver w now = ({ s with wedged := b }, .err)) ∨
    (∃ s', w ≠ .short ∧ w.counter < 4 ∧ s.expired now = false ∧ s.readHandshake w = some s' ∧
      s.deliver w now = (s', .hs s'.handshake)) ∨
    (∃ eI eR tr dir ctr p, w = .data eI eR tr dir ctr p ∧ 4 ≤ ctr ∧ s.expired now = false ∧ s.canReceive = true ∧
      (eI = s.eI ∧ eR = s.eR ∧ tr = s.tr ∧ dir = s.inDir) ∧ (Replay.validate s.rp ctr maxNonce).2 = true ∧
      s.deliver w now = ({ s with rp := (Replay.validate s.rp ctr maxNonce).1, hs := 8 }, .app p)) ∨
    (∃ eI eR tr dir ctr p, w = .data eI eR tr dir ctr p ∧ 4 ≤ ctr ∧ s.expired now = false ∧ s.canReceive = true ∧
      (eI = s.eI ∧ eR = s.eR ∧ tr = s.tr ∧ dir = s.inDir) ∧ (Replay.validate s.rp ctr maxNonce).2 = false ∧
      s.deliver w now = ({ s with rp := (Replay.validate s.rp ctr maxNonce).1 }, .drop)) := by
  unfold Sess.deliver
  by_cases h0 : s.expired now = true
  · rw [if_pos h0]; exact .inl ⟨s.wedged, rfl⟩
  rw [if_neg h0]
  by_cases h1 : w = .short
  · rw [if_pos h1]; exact .inl ⟨s.wedged, rfl⟩
  rw [if_neg h1]
  simp only []
  by_cases h2 : w.counter < 4
  · rw [if_pos h2]
    cases hr : s.readHandshake w with
    | none =>
      obtain ⟨b, hb⟩ := Sess.afterFailedRead_eq s w
      exact .inl ⟨b, by simp [hb]⟩
    | some s' => exact .inr (.inl ⟨s', h1, h2, by simpa using h0, rfl, rfl⟩)
  rw [if_neg h2]
  by_cases h3 : (!s.canReceive) = true
  · rw [if_pos h3]; exact .inl ⟨s.wedged, rfl⟩
  rw [if_neg h3]
  split
  · rename_i eI eR tr dir ctr p
    by_cases h4 : eI = s.eI ∧ eR = s.eR ∧ tr = s.tr ∧ dir = s.inDir
    · rw [if_pos h4]
      by_cases h5 : (Replay.validate s.rp ctr maxNonce).2 = true
      · rw [if_pos h5]
        refine .inr (.inr (.inl ⟨eI, eR, tr, dir, ctr, p, rfl, ?_, by simpa using h0, by simpa using h3, h4, h5, rfl⟩))
        simpa [Wire.counter] using h2
      · rw [if_neg h5]
        refine .inr (.inr (.inr ⟨eI, eR, tr, dir, ctr, p, rfl, ?_, by simpa using h0, by simpa using h3, h4, by simpa using h5, rfl⟩))
        simpa [Wire.counter] using h2
    · rw [if_neg h4]; exact .inl ⟨s.wedged, rfl⟩
  · exact .inl ⟨s.wedged, rfl⟩

theorem Sess.isReady_wedged (s : Sess) (b : Bool) : ({ s with wedged := b } : Sess).isReady = s.isReady := rfl

theorem Sess.deliver_fixed (s : Sess) (w : Wire) (now : Nat) :
    (s.deliver w now).1.isInit = s.isInit ∧ (s.deliver w now).1.key = s.key ∧
    (s.deliver w now).1.eph = s.eph ∧ (s.deliver w now).1.expiresAt = s.expiresAt := by
  rcases Sess.deliver_cases s w now with ⟨b, h⟩ | ⟨s', -, -, -, hr, h⟩ | ⟨eI, eR, tr, dir, ctr, p, -, -, -, -, -, -, h⟩ |
      ⟨eI, eR, tr, dir, ctr, p, -, -, -, -, -, -, h⟩
  · rw [h]; simp
  · rw [h]; have := Sess.readHandshake_fixed s s' w hr; simp [this]
  · rw [h]; simp
  · rw [h]; simp

theorem Sess.deliver_eph (s : Sess) (w : Wire) (now : Nat) : (s.deliver w now).1.eph = s.eph :=
  (Sess.deliver_fixed s w now).2.2.1

/-- on an error the session changes at most by wedging -/
theorem Sess.deliver_err (s : Sess) (w : Wire) (now : Nat) (he : (s.deliver w now).2 = .err) :
    ∃ b, (s.deliver w now).1 = { s with wedged := b } := by
  rcases Sess.deliver_cases s w now with ⟨b, h⟩ | ⟨s', -, -, -, hr, h⟩ | ⟨eI, eR, tr, dir, ctr, p, -, -, -, -, -, -, h⟩ |
      ⟨eI, eR, tr, dir, ctr, p, -, -, -, -, -, -, h⟩
  · exact ⟨b, by rw [h]⟩
  · rw [h] at he; cases he
  · rw [h] at he; cases he
  · rw [h] at he; cases he

theorem Sess.deliver_err_ready (s : Sess) (w : Wire) (now : Nat) (he : (s.deliver w now).2 = .err) :
    (s.deliver w now).1.isReady = s.isReady ∧ (s.deliver w now).1.rKey = s.rKey := by
  obtain ⟨b, hb⟩ := Sess.deliver_err s w now he
  rw [hb]; exact ⟨rfl, rfl⟩

/-- a ready session stays ready and keeps its remote key -/
theorem Sess.deliver_ready (s : Sess) (w : Wire) (now : Nat) (hr : s.isReady = true) :
    (s.deliver w now).1.isReady = true ∧ (s.deliver w now).1.rKey = s.rKey := by
  rcases Sess.deliver_cases s w now with ⟨b, h⟩ | ⟨s', -, -, -, hr', h⟩ | ⟨eI, eR, tr, dir, ctr, p, -, -, -, -, -, -, h⟩ |
      ⟨eI, eR, tr, dir, ctr, p, -, -, -, -, -, -, h⟩
  · rw [h]; exact ⟨hr, rfl⟩
  · rw [h]; have := Sess.readHandshake_ready s s' w hr hr'; subst this; exact ⟨hr, rfl⟩
  · rw [h]; refine ⟨?_, rfl⟩
    rw [Sess.isReady_iff]; simp
  · rw [h]; exact ⟨hr, rfl⟩

/-- application data is only returned for a data term, by a session that could receive; it leaves the session ready,
    and the same term offered again is recognised (and dropped or accepted), never an error -/
theorem Sess.deliver_app (s : Sess) (w : Wire) (now : Nat) (p : Bytes) (ha : (s.deliver w now).2 = .app p) :
    w.isInitHello = false ∧ s.canReceive = true ∧ (s.deliver w now).1.isReady = true ∧
    (s.deliver w now).1.rKey = s.rKey ∧ ((s.deliver w now).1.deliver w now).2 ≠ .err := by
  rcases Sess.deliver_cases s w now with ⟨b, h⟩ | ⟨s', -, -, -, hr', h⟩ |
      ⟨eI, eR, tr, dir, ctr, p', hw, hc, hx, hcr, hm, hv, h⟩ | ⟨eI, eR, tr, dir, ctr, p, -, -, -, -, -, -, h⟩
  · rw [h] at ha; cases ha
  · rw [h] at ha; cases ha
  · rw [h]
    refine ⟨?_, hcr, ?_, rfl, ?_⟩
    · subst hw; simp [Wire.isInitHello, Wire.counter]; omega
    · rw [Sess.isReady_iff]; simp
    · subst hw
      have hx' : Sess.expired { s with rp := (Replay.validate s.rp ctr maxNonce).1, hs := 8 } now = false := hx
      have hm' : eI = Sess.eI { s with rp := (Replay.validate s.rp ctr maxNonce).1, hs := 8 } ∧
          eR = Sess.eR { s with rp := (Replay.validate s.rp ctr maxNonce).1, hs := 8 } ∧
          tr = Sess.tr { s with rp := (Replay.validate s.rp ctr maxNonce).1, hs := 8 } ∧
          dir = Sess.inDir { s with rp := (Replay.validate s.rp ctr maxNonce).1, hs := 8 } := hm
      have hnc : ¬ (ctr < 4) := by omega
      simp only [Sess.deliver, hx', Wire.counter, hnc, if_false, Bool.false_eq_true, reduceCtorEq]
      simp only [Sess.canReceive]
      simp only [hm']
      simp
      split <;> simp
  · rw [h] at ha; cases ha

/-- a responder that has not seen a hello cannot become ready in one step -/
theorem Sess.deliver_resp0 (s : Sess) (w : Wire) (now : Nat) (hi : s.isInit = false) (h0 : s.hs = 0) :
    (s.deliver w now).1.isReady = false := by
  have hcr : s.canReceive = false := by simp [Sess.canReceive, h0]
  rcases Sess.deliver_cases s w now with ⟨b, h⟩ | ⟨s', -, -, -, hr', h⟩ |
      ⟨eI, eR, tr, dir, ctr, p', hw, hc, hx, hcr', hm, hv, h⟩ | ⟨eI, eR, tr, dir, ctr, p, -, -, -, hcr', -, -, h⟩
  · rw [h]; rw [Sess.isReady_false_iff]; right; exact ⟨hi, by simp [h0]⟩
  · rw [h]
    have := Sess.readHandshake_fixed s s' w hr'
    rw [Sess.isReady_false_iff]; right
    exact ⟨by simp [this, hi], by have := this.2.2.2.2.2.2 hi h0; show s'.hs < 2; omega⟩
  · rw [hcr] at hcr'; cases hcr'
  · rw [hcr] at hcr'; cases hcr'

theorem Sess.new_not_ready (isInit : Bool) (key : KeyId) (eph now ra : Nat) :
    (Sess.new isInit key eph now ra).isReady = false := by
  rw [Sess.isReady_false_iff]; cases isInit <;> simp [Sess.new]

theorem Sess.send_fixed (s : Sess) (p : Bytes) (now : Nat) :
    (s.send p now).1.isReady = s.isReady ∧ (s.send p now).1.rKey = s.rKey ∧ (s.send p now).1.eph = s.eph := by
  unfold Sess.send
  split
  · exact ⟨rfl, rfl, rfl⟩
  split
  · exact ⟨rfl, rfl, rfl⟩
  split
  · exact ⟨rfl, rfl, rfl⟩
  · exact ⟨rfl, rfl, rfl⟩

end P2PVerif.P2PKE
