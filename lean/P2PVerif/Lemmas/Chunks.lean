import P2PVerif.Model.Frag
import P2PVerif.Model.Mbapp
import P2PVerif.Lemmas.Varint
/-! Leaf lemmas shared by C09 and C10: the sender's `chunks`, header sizes, and the header round trips
    `Frag.parse (Frag.header ..)` and `Mbapp.decode (Hdr.encode ..)`. -/
namespace P2PVerif

/-! ## chunks -/
namespace Frag

/-- the `j`-th chunk is the `n`-wide window at `j * n`, and exists exactly while that offset is inside `xs` -/
theorem chunks_getElem? (n : Nat) (hn : 1 ≤ n) (xs : Bytes) (j : Nat) :
    (chunks n xs)[j]? = if j * n < xs.length then some ((xs.drop (j * n)).take n) else none := by
  induction hl : xs.length using Nat.strongRecOn generalizing xs j with
  | _ l ih =>
    subst hl
    rw [chunks]
    by_cases hxs : xs = []
    · subst hxs; simp
    · have hpos : 0 < xs.length := List.length_pos_iff.mpr hxs
      have hc : ¬ (n = 0 ∨ xs = []) := by intro h; rcases h with h | h; omega; exact hxs h
      simp only [hc, dite_false]
      cases j with
      | zero => simp [hpos]
      | succ j =>
        rw [List.getElem?_cons_succ, ih (xs.drop n).length (by simp; omega) (xs.drop n) j rfl]
        have e : (j + 1) * n = n + j * n := by rw [Nat.succ_mul]; omega
        rw [e, List.drop_drop, List.length_drop]
        by_cases h : j * n < xs.length - n
        · have h' : n + j * n < xs.length := by omega
          simp [h, h']
        · have h' : ¬ n + j * n < xs.length := by omega
          simp [h, h']

theorem chunks_flatten (n : Nat) (hn : 1 ≤ n) (xs : Bytes) : (chunks n xs).flatten = xs := by
  induction hl : xs.length using Nat.strongRecOn generalizing xs with
  | _ l ih =>
    subst hl
    rw [chunks]
    by_cases hxs : xs = []
    · subst hxs; simp
    · have hpos : 0 < xs.length := List.length_pos_iff.mpr hxs
      have hc : ¬ (n = 0 ∨ xs = []) := by intro h; rcases h with h | h; omega; exact hxs h
      simp only [hc, dite_false, List.flatten_cons]
      rw [ih (xs.drop n).length (by simp; omega) (xs.drop n) rfl, List.take_append_drop]

theorem lt_chunks_length (n : Nat) (hn : 1 ≤ n) (xs : Bytes) (j : Nat) :
    j < (chunks n xs).length ↔ j * n < xs.length := by
  have := chunks_getElem? n hn xs j
  by_cases h : j * n < xs.length
  · simp only [h, if_true] at this
    have := (List.getElem?_eq_some_iff.mp this).1
    simp [h, this]
  · simp only [h, if_false] at this
    have := List.getElem?_eq_none_iff.mp this
    simp only [h, iff_false]; omega

theorem chunks_length_le (n : Nat) (hn : 1 ≤ n) (xs : Bytes) (k : Nat) (h : xs.length ≤ n * k) :
    (chunks n xs).length ≤ k := by
  apply Nat.le_of_not_lt
  intro hlt
  have := (lt_chunks_length n hn xs k).mp hlt
  rw [Nat.mul_comm] at this; omega

theorem chunks_length_pos (n : Nat) (hn : 1 ≤ n) (xs : Bytes) (h : 0 < xs.length) :
    1 ≤ (chunks n xs).length :=
  (lt_chunks_length n hn xs 0).mpr (by simpa using h)

/-- a chunk is a window of the payload: its length and its elements -/
theorem chunk_eq (n : Nat) (hn : 1 ≤ n) (xs : Bytes) (j : Nat) (p : Bytes) (h : (chunks n xs)[j]? = some p) :
    j * n < xs.length ∧ p = (xs.drop (j * n)).take n := by
  rw [chunks_getElem? n hn] at h
  by_cases hlt : j * n < xs.length
  · simp only [hlt, if_true, Option.some.injEq] at h; exact ⟨hlt, h.symm⟩
  · simp [hlt] at h

theorem chunk_length_le (n : Nat) (hn : 1 ≤ n) (xs : Bytes) (j : Nat) (p : Bytes) (h : (chunks n xs)[j]? = some p) :
    p.length ≤ n := by
  obtain ⟨_, rfl⟩ := chunk_eq n hn xs j p h
  simp [List.length_take]; omega

end Frag

namespace Mbapp

theorem chunks_eq_frag (n : Nat) (xs : Bytes) : chunks n xs = Frag.chunks n xs := by
  induction hl : xs.length using Nat.strongRecOn generalizing xs with
  | _ l ih =>
    subst hl
    rw [chunks, Frag.chunks]
    by_cases hc : n = 0 ∨ xs = []
    · simp [hc]
    · simp only [hc, dite_false]
      have hpos : 0 < xs.length := List.length_pos_iff.mpr (fun e => hc (Or.inr e))
      rw [ih (xs.drop n).length (by simp; omega) (xs.drop n) rfl]

end Mbapp

/-! ## fragswarm header -/
namespace Frag

theorem nine_le_overhead : 9 ≤ overhead := by decide

theorem header_length_le (id part total : Nat) (hid : id < 2 ^ 32) (hp : part < 256) (ht : total < 256) :
    (header id part total).length ≤ 9 := by
  have h1 := Varint.put_length_le id 4 (Nat.lt_of_lt_of_le hid (by decide))
  have h2 := Varint.put_length_le part 1 (Nat.lt_of_lt_of_le hp (by decide))
  have h3 := Varint.put_length_le total 1 (Nat.lt_of_lt_of_le ht (by decide))
  simp only [header, List.length_append]; omega

theorem parse_header (id part total : Nat) (data : Bytes) (hid : id < 2 ^ 32) (hpt : part < total)
    (ht : total ≤ 255) : parse (header id part total ++ data) = some (id, part, total, data) := by
  have hid' : id < 2 ^ 64 := Nat.lt_of_lt_of_le hid (by decide)
  have hp' : part < 2 ^ 64 := by
    have : (255 : Nat) < 2 ^ 64 := by decide
    omega
  have ht' : total < 2 ^ 64 := by
    have : (255 : Nat) < 2 ^ 64 := by decide
    omega
  have e0 : header id part total ++ data = Varint.put id ++ (Varint.put part ++ (Varint.put total ++ data)) := by
    simp [header, List.append_assoc]
  have d0 : (header id part total ++ data).drop (Varint.put id).length
      = Varint.put part ++ (Varint.put total ++ data) := by
    rw [e0, List.drop_left]
  have d1 : (header id part total ++ data).drop ((Varint.put id).length + (Varint.put part).length)
      = Varint.put total ++ data := by
    rw [← List.drop_drop, d0, List.drop_left]
  have d2 : (header id part total ++ data).drop
      ((Varint.put id).length + (Varint.put part).length + (Varint.put total).length) = data := by
    rw [← List.drop_drop, d1, List.drop_left]
  unfold parse
  rw [show Varint.get (header id part total ++ data) = .ok id (Varint.put id).length from by
    rw [e0]; exact Varint.get_put id hid' _]
  simp only
  rw [d0, Varint.get_put part hp' _]
  simp only
  rw [d1, Varint.get_put total ht' _]
  simp only
  rw [d2, Nat.mod_eq_of_lt hid, Nat.mod_eq_of_lt (show part < 256 by omega),
    Nat.mod_eq_of_lt (show total < 256 by omega)]
  have : ¬ part ≥ total := by omega
  simp [this]

end Frag

/-! ## mbapp header -/
namespace Mbapp

theorem headerSize_eq : headerSize = 24 := by decide

theorem encode_length (h : Hdr) : h.encode.length = 24 := by
  simp [Hdr.encode, be32]

private theorem be32_val (v : Nat) (hv : v < 2 ^ 32) :
    ((v / 16777216 % 256 * 256 + v / 65536 % 256) * 256 + v / 256 % 256) * 256 + v % 256 = v := by
  omega

/-- `ParseMessage` inverts the encoder on every header whose fields fit their wire widths -/
theorem decode_encode (h : Hdr) (body : Bytes) (he : h.errCode < 256) (ho : h.originTime < 2 ^ 32)
    (hc : h.counter < 2 ^ 32) (hs : h.totalSize < 2 ^ 32) (hi : h.partIndex < 65536)
    (hn : h.partCount < 65536) (ht : h.timeout < 2 ^ 32) :
    decode (h.encode ++ body) = some (h, body) := by
  obtain ⟨isAsk, isReply, errCode, originTime, counter, totalSize, partIndex, partCount, timeout⟩ := h
  simp only at he ho hc hs hi hn ht
  have hlen : ¬ ((Hdr.encode ⟨isAsk, isReply, errCode, originTime, counter, totalSize, partIndex, partCount, timeout⟩
      ++ body).length < headerSize) := by
    rw [List.length_append, encode_length, headerSize_eq]; omega
  unfold decode
  rw [if_neg hlen]
  simp only [Hdr.encode, be32, headerSize_eq, List.cons_append, List.nil_append, List.drop_succ_cons,
    List.drop_zero, List.take_succ_cons, List.take_zero, val32, Nat.mul_zero, Nat.mul_one,
    Nat.reduceMul, Option.some.injEq, Prod.mk.injEq, Hdr.mk.injEq, and_true]
  rw [Nat.mod_eq_of_lt he, Nat.mod_eq_of_lt hi, Nat.mod_eq_of_lt hn]
  refine ⟨?_, ?_, ?_, be32_val _ ho, be32_val _ hc, be32_val _ hs, ?_, ?_, be32_val _ ht⟩
  · rw [be32_val _ (by cases isAsk <;> cases isReply <;> simp <;> omega)]
    cases isAsk <;> cases isReply <;> simp <;> omega
  · rw [be32_val _ (by cases isAsk <;> cases isReply <;> simp <;> omega)]
    cases isAsk <;> cases isReply <;> simp <;> omega
  · rw [be32_val _ (by cases isAsk <;> cases isReply <;> simp <;> omega)]
    cases isAsk <;> cases isReply <;> simp <;> omega
  · rw [be32_val _ (by omega)]; omega
  · rw [be32_val _ (by omega)]; omega

end Mbapp
end P2PVerif
