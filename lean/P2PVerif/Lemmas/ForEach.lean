import P2PVerif.Lemmas.Bits
/-! `Cache.ForEach` enumerates every entry once, in non-decreasing distance from the query key; consequences for
    `Closest` and `ForEachCloser`. -/
namespace P2PVerif.Kad
open P2PVerif

/-! ## the per-bucket sort -/

theorem insertBy_perm (k : Bytes) (e : Entry) : ∀ (l : List Entry), (insertBy k e l).Perm (e :: l) := by
  intro l
  induction l with
  | nil => exact .refl _
  | cons x xs ih =>
    simp only [insertBy]
    split
    · exact .refl _
    · exact (ih.cons x).trans (List.Perm.swap e x xs)

theorem sortBy_perm (k : Bytes) (es : List Entry) : (sortBy k es).Perm es := by
  induction es with
  | nil => exact .refl _
  | cons e es ih =>
    simp only [sortBy, List.foldr_cons] at ih ⊢
    exact (insertBy_perm k e _).trans (ih.cons e)

/-- "no farther from `k` than" -/
abbrev leK (k : Bytes) (a b : Entry) : Prop := distanceCmp k a.key b.key ≠ .gt

theorem insertBy_sorted (k : Bytes) (e : Entry) : ∀ (l : List Entry),
    l.Pairwise (leK k) → (insertBy k e l).Pairwise (leK k) := by
  intro l
  induction l with
  | nil => intro _; simp [insertBy]
  | cons x xs ih =>
    intro h
    have hx := List.pairwise_cons.1 h
    simp only [insertBy]
    split
    · rename_i hgt
      have hgt' : distanceCmp k x.key e.key = .gt := by simpa using hgt
      have hex : leK k e x := by
        show distanceCmp k e.key x.key ≠ .gt
        rw [distanceCmp_swap k x.key e.key, hgt']; simp [Ordering.swap]
      refine List.pairwise_cons.2 ⟨?_, h⟩
      intro y hy
      rcases List.mem_cons.1 hy with rfl | hy
      · exact hex
      · exact distanceCmp_trans k _ _ _ hex (hx.1 y hy)
    · rename_i hgt
      have hxe : leK k x e := by
        show distanceCmp k x.key e.key ≠ .gt
        intro hc; exact hgt (by simp [hc])
      refine List.pairwise_cons.2 ⟨?_, ih hx.2⟩
      intro y hy
      rcases List.mem_cons.1 ((insertBy_perm k e xs).mem_iff.1 hy) with rfl | hy
      · exact hxe
      · exact hx.1 y hy

theorem sortBy_sorted (k : Bytes) (es : List Entry) : (sortBy k es).Pairwise (leK k) := by
  induction es with
  | nil => simp [sortBy]
  | cons e es ih =>
    simp only [sortBy, List.foldr_cons] at ih ⊢
    exact insertBy_sorted k e _ ih

/-! ## the visiting order is a permutation of the bucket indices -/

theorem filter3_perm {α : Type} (p1 p2 p3 : α → Bool) : ∀ (l : List α),
    (∀ a ∈ l, (p1 a = true ∧ p2 a = false ∧ p3 a = false) ∨ (p1 a = false ∧ p2 a = true ∧ p3 a = false) ∨
      (p1 a = false ∧ p2 a = false ∧ p3 a = true)) →
    (l.filter p1 ++ l.filter p2 ++ l.filter p3).Perm l := by
  intro l
  induction l with
  | nil => intro _; exact .refl _
  | cons a l ih =>
    intro h
    have ih' := ih (fun b hb => h b (List.mem_cons_of_mem a hb))
    rcases h a (by simp) with ⟨h1, h2, h3⟩ | ⟨h1, h2, h3⟩ | ⟨h1, h2, h3⟩
    · simp only [List.filter_cons, h1, h2, h3, if_true, Bool.false_eq_true, if_false, List.cons_append]
      exact ih'.cons a
    · simp only [List.filter_cons, h1, h2, h3, if_true, Bool.false_eq_true, if_false, List.cons_append,
        List.append_assoc]
      refine List.perm_middle.trans ?_
      rw [← List.append_assoc]
      exact ih'.cons a
    · simp only [List.filter_cons, h1, h2, h3, if_true, Bool.false_eq_true, if_false]
      refine List.perm_middle.trans ?_
      exact ih'.cons a

theorem visitOrder_perm (d : Bytes) (z n : Nat) (hz : bitOr1 d z = true) :
    (visitOrder d z n).Perm (List.range n) := by
  unfold visitOrder
  have hrev : ∀ (p : Nat → Bool), ((List.range n).reverse.filter p).Perm ((List.range n).filter p) :=
    fun p => (List.reverse_perm _).filter p
  refine (((List.Perm.refl _).append (hrev _)).append (hrev _)).trans ?_
  apply filter3_perm
  intro i _
  by_cases h1 : i < z
  · right; right
    have : ¬ z ≤ i := by omega
    have : ¬ z < i := by omega
    simp [*]
  · by_cases h2 : i = z
    · subst h2
      left; simp [hz]
    · have h3 : z < i := by omega
      have h4 : z ≤ i := by omega
      cases hb : bitOr1 d i
      · right; left; simp [*]
      · left; simp [*]

theorem flatMap_perm_congr {α β : Type} (f g : α → List β) : ∀ (l : List α), (∀ a ∈ l, (f a).Perm (g a)) →
    (l.flatMap f).Perm (l.flatMap g) := by
  intro l
  induction l with
  | nil => intro _; exact .refl _
  | cons a l ih =>
    intro h
    simp only [List.flatMap_cons]
    exact (h a (by simp)).append (ih (fun b hb => h b (List.mem_cons_of_mem a hb)))

theorem range_map_getD (bs : List Bucket) : (List.range bs.length).map (fun i => bs[i]?.getD {}) = bs := by
  apply List.ext_getElem
  · simp
  · intro i h1 h2
    simp [h2]

theorem bitOr1_leadingZeros (d : Bytes) (hd : validBytes d) : bitOr1 d (leadingZeros d) = true := by
  rw [bitOr1_eq, leadingZeros_eq_lz d hd]; exact getD_lz _

theorem bitOr1_lt_leadingZeros (d : Bytes) (hd : validBytes d) (i : Nat) (hi : i < leadingZeros d) :
    bitOr1 d i = false := by
  rw [bitOr1_eq]; rw [leadingZeros_eq_lz d hd] at hi; exact getD_lt_lz _ i hi

-- Original statement (false for the model as written, because model bytes are arbitrary `Nat`s):
--   theorem forEach_perm (c : Cache) (k : Bytes) : (c.forEach k).Perm c.entries
-- Counterexample: locus [256], k [0], one bucket holding one entry: `distance = [256]`, `leadingZeros = 0` but
-- `bitOr1 [256] 0 = false`, so bucket 0 is in none of the three segments and `forEach` returns [].
-- Go `[]byte`s cannot hold 256; the hypotheses `validBytes c.locus`, `validBytes k` restore the statement.
theorem forEach_perm (c : Cache) (k : Bytes) (hl : validBytes c.locus) (hk : validBytes k) :
    (c.forEach k).Perm c.entries := by
  have hd := validBytes_distance c.locus k hl hk
  unfold Cache.forEach Cache.entries
  refine ((visitOrder_perm _ _ c.buckets.length (bitOr1_leadingZeros _ hd)).flatMap_right _).trans ?_
  refine (flatMap_perm_congr _ (fun i => Bucket.entries (c.buckets[i]?.getD {})) _ (fun i _ => sortBy_perm k _)).trans ?_
  have : (List.range c.buckets.length).flatMap (fun i => (c.buckets[i]?.getD {}).entries)
      = (c.buckets.map (·.entries)).flatten := by
    conv => rhs; rw [← range_map_getD c.buckets]
    rw [List.flatMap_def, List.map_map]; rfl
  rw [this]

/-! ## the visiting order is distance order -/

/-- the visiting rule on bucket indices, read off `d = Distance(locus, k)` -/
def beforeN (d : Bytes) (i j : Nat) : Prop :=
  (i < j ∧ bitOr1 d i = true) ∨ (j < i ∧ bitOr1 d j = false)

theorem visitOrder_pairwise (d : Bytes) (z n : Nat) (hlt : ∀ i, i < z → bitOr1 d i = false) :
    (visitOrder d z n).Pairwise (beforeN d) := by
  unfold visitOrder
  have hasc : (List.range n).Pairwise (· < ·) := List.pairwise_lt_range
  have hdesc : (List.range n).reverse.Pairwise (fun a b => b < a) := List.pairwise_reverse.2 hasc
  rw [List.pairwise_append, List.pairwise_append]
  refine ⟨⟨?_, ?_, ?_⟩, ?_, ?_⟩
  · refine (hasc.filter _).imp_of_mem ?_
    intro a b ha _ hab
    have := (List.mem_filter.1 ha).2
    simp only [decide_eq_true_eq] at this
    exact Or.inl ⟨hab, this.2⟩
  · refine (hdesc.filter _).imp_of_mem ?_
    intro a b _ hb hab
    have := (List.mem_filter.1 hb).2
    simp only [decide_eq_true_eq, Bool.not_eq_true'] at this
    exact Or.inr ⟨hab, this.2⟩
  · intro a ha b hb
    have h1 := (List.mem_filter.1 ha).2
    have h2 := (List.mem_filter.1 hb).2
    simp only [decide_eq_true_eq, Bool.not_eq_true'] at h1 h2
    by_cases hab : a < b
    · exact Or.inl ⟨hab, h1.2⟩
    · have : a ≠ b := by
        intro e; subst e; rw [h1.2] at h2; exact absurd h2.2 (by simp)
      exact Or.inr ⟨by omega, h2.2⟩
  · refine (hdesc.filter _).imp_of_mem ?_
    intro a b _ hb hab
    have := (List.mem_filter.1 hb).2
    simp only [decide_eq_true_eq] at this
    exact Or.inr ⟨hab, hlt b this⟩
  · intro a ha b hb
    have h2 := (List.mem_filter.1 hb).2
    simp only [decide_eq_true_eq] at h2
    have hza : z ≤ a := by
      rcases List.mem_append.1 ha with ha | ha
      · have := (List.mem_filter.1 ha).2
        simp only [decide_eq_true_eq] at this
        exact this.1
      · have := (List.mem_filter.1 ha).2
        simp only [decide_eq_true_eq] at this
        omega
    exact Or.inr ⟨by omega, hlt b h2⟩

/-- entries of the bucket with index `i` really have bucket index `i`, and are entries of the cache -/
theorem mem_bucket (c : Cache) (h : c.WF) (i : Nat) (x : Entry) (hx : x ∈ (c.buckets[i]?.getD {}).entries) :
    bucketIndex c.locus x.key = i ∧ x ∈ c.entries := by
  cases hb : c.buckets[i]? with
  | none => rw [hb] at hx; simp at hx
  | some b =>
    rw [hb] at hx
    simp only [Option.getD_some] at hx
    refine ⟨(h.buckets i b hb).2.1 x hx, ?_⟩
    unfold Cache.entries
    rw [List.mem_flatten]
    exact ⟨b.entries, List.mem_map.2 ⟨b, List.mem_of_getElem? hb, rfl⟩, hx⟩

/-- entries of a bucket visited earlier are no farther from `k` than entries of a bucket visited later -/
theorem before_le (L k a b : Bytes) (hL : validBytes L) (hk : validBytes k) (ha : validBytes a) (hb : validBytes b)
    (hla : L.length ≤ a.length) (hlb : L.length ≤ b.length)
    (h : beforeN (distance L k) (bucketIndex L a) (bucketIndex L b)) : distanceCmp k a b ≠ .gt := by
  rw [cmp_is_compare_of_xor, lexCmp_eq_cmpB _ _ (validBytes_distance k a hk ha) (validBytes_distance k b hk hb),
    toBits_distance, toBits_distance]
  apply before_closer (toBits L) (toBits k) (toBits a) (toBits b)
  · rw [toBits_length, toBits_length]; omega
  · rw [toBits_length, toBits_length]; omega
  · rw [← bucketIndex_eq L a hL ha hla, ← bucketIndex_eq L b hL hb hlb, ← toBits_distance]
    unfold beforeN at h
    unfold beforeB
    rw [← bitOr1_eq, ← bitOr1_eq]
    exact h

theorem forEach_sorted (c : Cache) (k : Bytes) (h : c.WF) (hl : validBytes c.locus) (hk : validBytes k)
    (he : ∀ e ∈ c.entries, validBytes e.key ∧ c.locus.length ≤ e.key.length) :
    (c.forEach k).Pairwise (fun a b => distanceCmp k a.key b.key ≠ .gt) := by
  have hd := validBytes_distance c.locus k hl hk
  unfold Cache.forEach
  refine List.pairwise_flatMap.2 ⟨fun i _ => sortBy_sorted k _, ?_⟩
  refine (visitOrder_pairwise _ _ c.buckets.length (bitOr1_lt_leadingZeros _ hd)).imp ?_
  intro i j hij x hx y hy
  obtain ⟨hxi, hxe⟩ := mem_bucket c h i x ((sortBy_perm k _).mem_iff.1 hx)
  obtain ⟨hyj, hye⟩ := mem_bucket c h j y ((sortBy_perm k _).mem_iff.1 hy)
  apply before_le c.locus k x.key y.key hl hk (he x hxe).1 (he y hye).1 (he x hxe).2 (he y hye).2
  rw [hxi, hyj]; exact hij

/-! ## corollaries -/

theorem closest_is_min (c : Cache) (k : Bytes) (h : c.WF) (hl : validBytes c.locus) (hk : validBytes k)
    (he : ∀ e ∈ c.entries, validBytes e.key ∧ c.locus.length ≤ e.key.length) :
    (c.entries ≠ [] → (c.closest k).isSome) ∧
    ∀ e, c.closest k = some e → e ∈ c.entries ∧ ∀ x ∈ c.entries, distanceCmp k e.key x.key ≠ .gt := by
  have hp := forEach_perm c k hl hk
  have hs := forEach_sorted c k h hl hk he
  unfold Cache.closest
  constructor
  · intro hne
    cases hf : c.forEach k with
    | nil =>
      rw [hf] at hp
      exact absurd hp.symm.eq_nil hne
    | cons a l => simp
  · intro e hc
    cases hf : c.forEach k with
    | nil => rw [hf] at hc; simp at hc
    | cons a l =>
      rw [hf] at hc hp hs
      simp only [List.head?_cons, Option.some.injEq] at hc
      subst hc
      refine ⟨hp.mem_iff.1 (by simp), ?_⟩
      intro x hx
      rcases List.mem_cons.1 (hp.mem_iff.2 hx) with rfl | hx
      · rw [distanceCmp_refl]; simp
      · exact (List.pairwise_cons.1 hs).1 x hx

theorem takeWhile_eq_filter_of_sorted {α : Type} (R : α → α → Prop) (p : α → Bool)
    (hdown : ∀ a b, R a b → p b = true → p a = true) : ∀ (l : List α), l.Pairwise R →
    l.takeWhile p = l.filter p := by
  intro l
  induction l with
  | nil => intro _; rfl
  | cons a l ih =>
    intro h
    have h' := List.pairwise_cons.1 h
    cases hp : p a
    · simp only [List.takeWhile_cons, hp, List.filter_cons, Bool.false_eq_true, if_false]
      symm
      rw [List.filter_eq_nil_iff]
      intro b hb hpb
      have := hdown a b (h'.1 b hb) hpb
      rw [hp] at this; exact absurd this (by simp)
    · simp only [List.takeWhile_cons, hp, List.filter_cons, if_true, ih h'.2]

theorem forEachCloser_exact (c : Cache) (x : Bytes) (h : c.WF) (hl : validBytes c.locus) (hx : validBytes x)
    (he : ∀ e ∈ c.entries, validBytes e.key ∧ c.locus.length ≤ e.key.length) (e : Entry) :
    e ∈ c.forEachCloser x ↔ e ∈ c.entries ∧ distanceLt x e.key c.locus = true := by
  have hp := forEach_perm c x hl hx
  have hs := forEach_sorted c x h hl hx he
  unfold Cache.forEachCloser
  rw [takeWhile_eq_filter_of_sorted (fun a b : Entry => distanceCmp x a.key b.key ≠ .gt) _ ?_ _ hs]
  · rw [List.mem_filter, hp.mem_iff]
  · intro a b hab hb
    simp only [distanceLt, beq_iff_eq] at hb ⊢
    exact distanceCmp_lt_of_le_of_lt x _ _ _ hab hb

end P2PVerif.Kad
