import P2PVerif.Model.DHTNode
import P2PVerif.Lemmas.Cache
import P2PVerif.Lemmas.ForEach
/-! Lemmas about the DHT node model (`Model/DHTNode.lean`) used by the section "the node that answers" of
    `Props/C20.lean`. -/
namespace P2PVerif.DHT
open P2PVerif P2PVerif.Kad

/-! ## what `ForEach` hands out are entries of the cache -/

theorem forEach_mem_entries (c : Cache) (k : Bytes) {x : Entry} (hx : x ∈ c.forEach k) : x ∈ c.entries := by
  unfold Cache.forEach at hx
  simp only [List.mem_flatMap] at hx
  obtain ⟨i, _, hxi⟩ := hx
  have hxi := (sortBy_perm k _).mem_iff.1 hxi
  cases hb : c.buckets[i]? with
  | none => rw [hb] at hxi; simp at hxi
  | some b =>
    rw [hb] at hxi
    exact mem_ents.mpr ⟨i, b, hb, hxi⟩

theorem mem_takeWhile_pred {α : Type} {p : α → Bool} {l : List α} {x : α} (h : x ∈ l.takeWhile p) :
    p x = true := by
  induction l with
  | nil => simp at h
  | cons a as ih =>
    rw [List.takeWhile_cons] at h
    split at h
    · rcases List.mem_cons.1 h with rfl | h
      · assumption
      · exact ih h
    · simp at h

theorem handleFindNode_eq (n : Node) (target : Bytes) (limit : Int) :
    n.handleFindNode target limit =
      ((n.peers.forEach target).take (if limit > 10 then 10 else limit).toNat).map toInfo := rfl

theorem findnode_answer (n : Node) (target : Bytes) (limit : Int) :
    (n.handleFindNode target limit).length ≤ 10 ∧
    ((n.handleFindNode target limit).length : Int) ≤ max limit 0 ∧
    (∃ k, n.handleFindNode target limit = ((n.peers.forEach target).take k).map toInfo) ∧
    (∀ x ∈ n.handleFindNode target limit, ∃ e ∈ n.peers.entries, e.key = x.id ∧ e.val = x.info) := by
  rw [handleFindNode_eq]
  refine ⟨?_, ?_, ⟨_, rfl⟩, ?_⟩
  · rw [List.length_map, List.length_take]; split <;> omega
  · rw [List.length_map, List.length_take]; split <;> omega
  · intro x hx
    obtain ⟨e, he, rfl⟩ := List.mem_map.1 hx
    exact ⟨e, forEach_mem_entries _ _ (List.mem_of_mem_take he), rfl, rfl⟩

theorem closer_list_strict (n : Node) (key : Bytes) :
    ∀ x ∈ n.closerNodes key,
      distanceLt key x.id n.peers.locus = true ∧ ∃ e ∈ n.peers.entries, e.key = x.id ∧ e.val = x.info := by
  intro x hx
  unfold Node.closerNodes Cache.forEachCloser at hx
  obtain ⟨e, he, rfl⟩ := List.mem_map.1 hx
  exact ⟨mem_takeWhile_pred (p := fun (e : Entry) => distanceLt key e.key n.peers.locus) he, e,
    forEach_mem_entries _ _ ((List.takeWhile_sublist _).subset he), rfl, rfl⟩

/-! ## the victim the model computes is always admissible -/

theorem victimKey_eq (c : Cache) (e : Entry) : victimKey c e =
    match firstOver c.minPer (updBs c e) 0 with
    | some n =>
      match ((updBs c e)[n]?.getD ({} : Bucket)).entries.find?
          (fun x => x.created == maxCreated ((updBs c e)[n]?.getD ({} : Bucket)).entries) with
      | some v => v.key
      | none => []
    | none => [] := rfl

theorem firstOver_some_get {m : Nat} {bs : List Bucket} {i n : Nat} (h : firstOver m bs i = some n) :
    ∃ b, bs[n - i]? = some b ∧ b.entries.length > m := by
  induction bs generalizing i with
  | nil => simp [firstOver] at h
  | cons a as ih =>
    have hle := (firstOver_some h).1
    simp only [firstOver] at h
    split at h
    · rename_i hlen
      cases h
      exact ⟨a, by simp, hlen⟩
    · obtain ⟨b, hb, hlen⟩ := ih h
      have hle' := (firstOver_some h).1
      refine ⟨b, ?_, hlen⟩
      have : n - i = (n - (i + 1)) + 1 := by omega
      rw [this, List.getElem?_cons_succ]
      exact hb

theorem foldl_max_attained (es : List Entry) (m0 : Nat) :
    es.foldl (fun m e => Nat.max m e.created) m0 = m0 ∨
    ∃ v ∈ es, v.created = es.foldl (fun m e => Nat.max m e.created) m0 := by
  induction es generalizing m0 with
  | nil => exact Or.inl rfl
  | cons x xs ih =>
    simp only [List.foldl_cons]
    have hm : Nat.max m0 x.created = m0 ∨ Nat.max m0 x.created = x.created := by
      show max m0 x.created = m0 ∨ max m0 x.created = x.created
      omega
    rcases ih (Nat.max m0 x.created) with h | ⟨v, hv, h⟩
    · rcases hm with hm | hm
      · left; rw [h, hm]
      · right; exact ⟨x, List.mem_cons_self, by rw [h, hm]⟩
    · right; exact ⟨v, List.mem_cons_of_mem _ hv, h⟩

theorem maxCreated_attained {es : List Entry} (hne : es ≠ []) : ∃ v ∈ es, v.created = maxCreated es := by
  rcases foldl_max_attained es 0 with h | h
  · cases es with
    | nil => exact absurd rfl hne
    | cons x xs =>
      refine ⟨x, List.mem_cons_self, ?_⟩
      have := le_maxCreated (es := x :: xs) (e := x) List.mem_cons_self
      have h : maxCreated (x :: xs) = 0 := h
      omega
  · exact h

theorem find_newest {es : List Entry} (hne : es ≠ []) :
    ∃ v, es.find? (fun x => x.created == maxCreated es) = some v ∧ v ∈ es ∧ v.created = maxCreated es := by
  obtain ⟨w, hw, hwc⟩ := maxCreated_attained hne
  cases hf : es.find? (fun x => x.created == maxCreated es) with
  | none =>
    have := List.find?_eq_none.mp hf w hw
    simp [hwc] at this
  | some v =>
    refine ⟨v, rfl, List.mem_of_find?_eq_some hf, ?_⟩
    have := List.find?_some hf
    simpa using this

/-- `Cache.update` with the computed victim never takes the `.inadmissible` branch on a well-formed cache -/
theorem update_victim_ok {c : Cache} (h : c.WF) (e : Entry) :
    ∃ c' ev added, c.update e (victimKey c e) = .ok c' ev added := by
  by_cases hmax : c.max = 0
  · exact ⟨_, _, _, update_max0 c e _ hmax⟩
  rcases update_cases c e (victimKey c e) hmax with ⟨_, h2⟩ | ⟨hgt, n, hf, ⟨v, _, _, h2⟩ | h2⟩ | ⟨_, _, h2⟩
  · exact ⟨_, _, _, h2⟩
  · exact ⟨_, _, _, h2⟩
  · exfalso
    obtain ⟨b, hb, hlen⟩ := firstOver_some_get hf
    rw [Nat.sub_zero] at hb
    have hvb : (updBs c e)[n]?.getD ({} : Bucket) = b := by rw [hb]; rfl
    have hne : b.entries ≠ [] := by
      intro h0; rw [h0] at hlen; simp at hlen
    obtain ⟨v, hfind, hv, hcr⟩ := find_newest hne
    have hvk : victimKey c e = v.key := by
      rw [victimKey_eq, hf]
      simp only [hvb, hfind]
    have hwf := updBs_BWF h.buckets e n b hb
    have hget : b.get v.key = some v := find_mem_self hwf.1 hv
    rw [update_eq c e _ hmax, hvk, if_pos hgt, hf] at h2
    simp only [hvb, hget, hcr, if_true] at h2
    cases h2
  · exact ⟨_, _, _, h2⟩

theorem cacheUpdate_eq {c : Cache} (h : c.WF) (e : Entry) :
    ∃ c' ev added, c.update e (victimKey c e) = .ok c' ev added ∧ cacheUpdate c e = (c', ev, added) := by
  obtain ⟨c', ev, added, hu⟩ := update_victim_ok h e
  refine ⟨c', ev, added, hu, ?_⟩
  unfold cacheUpdate
  rw [hu]

theorem cacheUpdate_wf {c : Cache} (h : c.WF) (e : Entry) :
    (cacheUpdate c e).1.WF ∧ (cacheUpdate c e).1.max = c.max := by
  obtain ⟨c', ev, added, hu, heq⟩ := cacheUpdate_eq h e
  rw [heq]
  exact ⟨wf_update h hu, (update_max hu).1⟩

/-- a key that is absent and is not the one being put stays absent -/
theorem cacheUpdate_get_none {c : Cache} (h : c.WF) (e : Entry) {k : Bytes} (hk : k ≠ e.key)
    (hn : c.get k = none) : (cacheUpdate c e).1.get k = none := by
  obtain ⟨c', ev, added, hu, heq⟩ := cacheUpdate_eq h e
  rw [heq]
  show c'.get k = none
  by_cases hmax : c.max = 0
  · rw [update_max0 c e _ hmax] at hu
    injection hu with a
    rw [← a]; exact hn
  · rw [get_update c c' e _ ev added h hu hmax k, if_neg hk, hn]
    split <;> rfl

theorem update_added_false {c c' : Cache} {e v : Entry} {vk : Bytes} {added : Bool}
    (hu : c.update e vk = .ok c' (some v) added) (hk : v.key = e.key) : added = false := by
  by_cases hmax : c.max = 0
  · rw [update_max0 c e vk hmax] at hu
    injection hu with _ a; cases a
  rcases update_cases c e vk hmax with ⟨_, h2⟩ | ⟨_, n, hf, ⟨w, _, _, h2⟩ | h2⟩ | ⟨_, _, h2⟩
  · rw [h2] at hu; injection hu with _ a; cases a
  · rw [h2] at hu
    injection hu with _ a d
    cases a
    rw [← d, hk]; simp
  · rw [h2] at hu; cases hu
  · rw [h2] at hu
    injection hu with _ _ d
    exact d.symm

/-- the put key can be read back exactly when `wasAccepted` says so -/
theorem cacheUpdate_truthful {c : Cache} (h : c.WF) (hmax : c.max ≠ 0) (e : Entry) :
    (cacheUpdate c e).1.get e.key =
      if wasAccepted e.key (cacheUpdate c e).2.1 (cacheUpdate c e).2.2 = true then some e else none := by
  obtain ⟨c', ev, added, hu, heq⟩ := cacheUpdate_eq h e
  rw [heq]
  show c'.get e.key = if wasAccepted e.key ev added = true then some e else none
  rw [get_update c c' e _ ev added h hu hmax e.key]
  cases ev with
  | none => simp [wasAccepted]
  | some v =>
    by_cases hk : v.key = e.key
    · have := update_added_false hu hk
      subst this
      simp [wasAccepted, hk]
    · simp [wasAccepted, hk]

/-! ## the node invariant -/

structure NodeInv (localID : Bytes) (ps ds : Nat) (n : Node) : Prop where
  id : n.localID = localID
  pwf : n.peers.WF
  pmax : n.peers.max = ps
  dwf : n.data.WF
  dmax : n.data.max = ds
  dsize : n.dataCacheSize = ds
  noself : n.peers.get localID = none

theorem new_get (locus : Bytes) (max minPer : Nat) (k : Bytes) : (Cache.new locus max minPer).get k = none := by
  simp [Cache.get, Cache.new]

theorem inv_new (localID : Bytes) (ps ds pt dt : Nat) : NodeInv localID ps ds (Node.new localID ps ds pt dt) := by
  refine ⟨rfl, wf_new _ _ _, rfl, ?_, ?_, rfl, new_get _ _ _ _⟩
  · show (if ds > 0 then Cache.new _ ds 0 else Cache.new [] 0 0).WF
    split <;> exact wf_new _ _ _
  · show (if ds > 0 then Cache.new _ ds 0 else Cache.new [] 0 0).max = ds
    split
    · rfl
    · show 0 = ds; omega

theorem addPeer_fst (n : Node) (id info : Bytes) (now : Nat) :
    (n.addPeer id info now).1 = if id == n.localID then n else
      { n with peers := (cacheUpdate n.peers
          { key := id, val := info,
            created := (match n.peers.get id with | some old => old.created | none => now),
            expires := now + n.maxPeerTTL }).1 } := by
  unfold Node.addPeer
  split <;> rfl

theorem removePeer_fst (n : Node) (id : Bytes) :
    (n.removePeer id).1 = { n with peers := (n.peers.delete id).1 } := rfl

theorem put_fst (n : Node) (key value : Bytes) (ttl now : Nat) :
    (n.put key value ttl now).1 =
      { n with data := (cacheUpdate n.data { key, val := value, created := now, expires := now + ttl }).1 } := rfl

/-- the entry `HandlePut` stores -/
def putEntry (n : Node) (key value : Bytes) (ttl now : Nat) : Entry :=
  { key, val := value, created := now, expires := now + (if ttl > n.maxDataTTL then n.maxDataTTL else ttl) }

theorem handlePut_fst (n : Node) (key value : Bytes) (ttl now : Nat) :
    (n.handlePut key value ttl now).1 = { n with data := (cacheUpdate n.data (putEntry n key value ttl now)).1 } := rfl

theorem handlePut_accepted (n : Node) (key value : Bytes) (ttl now : Nat) :
    (n.handlePut key value ttl now).2.1 =
      (decide (n.dataCacheSize > 0) &&
        wasAccepted key (cacheUpdate n.data (putEntry n key value ttl now)).2.1
          (cacheUpdate n.data (putEntry n key value ttl now)).2.2) := rfl

theorem delete_max (c : Cache) (k : Bytes) : (c.delete k).1.max = c.max := apply_max c (.delete k)

theorem inv_data {localID : Bytes} {ps ds : Nat} {n : Node} (h : NodeInv localID ps ds n) (e : Entry) :
    NodeInv localID ps ds { n with data := (cacheUpdate n.data e).1 } := by
  obtain ⟨w, m⟩ := cacheUpdate_wf h.dwf e
  exact ⟨h.id, h.pwf, h.pmax, w, m.trans h.dmax, h.dsize, h.noself⟩

theorem inv_step {localID : Bytes} {ps ds : Nat} {n : Node} (h : NodeInv localID ps ds n) (op : NOp) :
    NodeInv localID ps ds (n.step op) := by
  cases op with
  | addPeer id info now =>
    show NodeInv localID ps ds (n.addPeer id info now).1
    rw [addPeer_fst]
    split
    · exact h
    · rename_i hid
      have hid : localID ≠ id := by
        intro h'; apply hid; rw [h.id, h']; simp
      obtain ⟨w, m⟩ := cacheUpdate_wf h.pwf
        { key := id, val := info,
          created := (match n.peers.get id with | some old => old.created | none => now),
          expires := now + n.maxPeerTTL }
      exact ⟨h.id, w, m.trans h.pmax, h.dwf, h.dmax, h.dsize, cacheUpdate_get_none h.pwf _ hid h.noself⟩
  | removePeer id =>
    show NodeInv localID ps ds (n.removePeer id).1
    rw [removePeer_fst]
    refine ⟨h.id, wf_delete h.pwf id, (delete_max _ _).trans h.pmax, h.dwf, h.dmax, h.dsize, ?_⟩
    show (n.peers.delete id).1.get localID = none
    rw [(get_delete n.peers id h.pwf localID).2, h.noself]
    split <;> rfl
  | put k v ttl now =>
    show NodeInv localID ps ds (n.put k v ttl now).1
    rw [put_fst]; exact inv_data h _
  | handlePut k v ttl now =>
    show NodeInv localID ps ds (n.handlePut k v ttl now).1
    rw [handlePut_fst]; exact inv_data h _

theorem inv_run {localID : Bytes} {ps ds : Nat} {n : Node} (h : NodeInv localID ps ds n) (ops : List NOp) :
    NodeInv localID ps ds (n.run ops) := by
  induction ops generalizing n with
  | nil => exact h
  | cons op ops ih => exact ih (inv_step h op)

theorem inv_reachable (localID : Bytes) (ps ds pt dt : Nat) (ops : List NOp) :
    NodeInv localID ps ds ((Node.new localID ps ds pt dt).run ops) :=
  inv_run (inv_new localID ps ds pt dt) ops

/-! ## the property theorems -/

theorem never_lists_self (localID : Bytes) (ps ds pt dt : Nat) (ops : List NOp) (key : Bytes) (limit : Int) :
    let n := (Node.new localID ps ds pt dt).run ops
    (∀ e ∈ n.peers.entries, e.key ≠ localID) ∧
    (∀ x ∈ n.handleFindNode key limit, x.id ≠ localID) ∧ (∀ x ∈ n.closerNodes key, x.id ≠ localID) := by
  intro n
  have hinv : NodeInv localID ps ds n := inv_reachable localID ps ds pt dt ops
  have h1 : ∀ e ∈ n.peers.entries, e.key ≠ localID := by
    intro e he hk
    have := get_of_mem hinv.pwf he
    rw [hk, hinv.noself] at this
    cases this
  refine ⟨h1, ?_, ?_⟩
  · intro x hx
    obtain ⟨e, he, hk, _⟩ := (findnode_answer n key limit).2.2.2 x hx
    rw [← hk]; exact h1 e he
  · intro x hx
    obtain ⟨_, e, he, hk, _⟩ := closer_list_strict n key x hx
    rw [← hk]; exact h1 e he

theorem accepted_is_truthful (localID : Bytes) (ps ds pt dt : Nat) (ops : List NOp) (key value : Bytes)
    (ttl now : Nat) :
    let n := (Node.new localID ps ds pt dt).run ops
    let r := n.handlePut key value ttl now
    (r.2.1 = true → r.1.get key = some value) ∧
    (r.2.1 = false → r.1.get key = none) ∧
    (ds = 0 → r.2.1 = false) := by
  intro n r
  have hinv : NodeInv localID ps ds n := inv_reachable localID ps ds pt dt ops
  have hget : r.1.get key = ((cacheUpdate n.data (putEntry n key value ttl now)).1.get key).map (·.val) := rfl
  have hacc : r.2.1 = (decide (n.dataCacheSize > 0) &&
      wasAccepted key (cacheUpdate n.data (putEntry n key value ttl now)).2.1
        (cacheUpdate n.data (putEntry n key value ttl now)).2.2) := rfl
  rw [hget, hacc, hinv.dsize]
  by_cases hds : ds = 0
  · -- no data cache: nothing is stored, nothing accepted
    have hmax : n.data.max = 0 := hinv.dmax.trans hds
    obtain ⟨c', ev, added, hu, heq⟩ := cacheUpdate_eq hinv.dwf (putEntry n key value ttl now)
    rw [update_max0 _ _ _ hmax] at hu
    injection hu with a b d
    have hnone : n.data.get key = none := by
      cases hg : n.data.get key with
      | none => rfl
      | some y =>
        have hy := (mem_of_get hg).1
        have h1 := hinv.dwf.count_eq
        have h2 := hinv.dwf.count_le
        have : n.data.entries.length = 0 := by omega
        rw [List.length_eq_zero_iff] at this
        rw [this] at hy; cases hy
    rw [heq, ← a, hnone, hds]
    simp
  · have hmax : n.data.max ≠ 0 := by rw [hinv.dmax]; exact hds
    have ht := cacheUpdate_truthful hinv.dwf hmax (putEntry n key value ttl now)
    have hk : (putEntry n key value ttl now).key = key := rfl
    rw [hk] at ht
    rw [ht]
    have hpos : decide (ds > 0) = true := by simp; omega
    rw [hpos, Bool.true_and]
    refine ⟨?_, ?_, fun h => absurd h hds⟩
    · intro hw; rw [if_pos hw]; rfl
    · intro hw; rw [if_neg (by rw [hw]; simp)]; rfl

theorem node_caches_bounded (localID : Bytes) (ps ds pt dt : Nat) (ops : List NOp) :
    let n := (Node.new localID ps ds pt dt).run ops
    n.data.entries.length ≤ ds ∧ n.peers.entries.length ≤ ps := by
  intro n
  have hinv : NodeInv localID ps ds n := inv_reachable localID ps ds pt dt ops
  have h1 := hinv.dwf.count_eq
  have h2 := hinv.dwf.count_le
  have h3 := hinv.pwf.count_eq
  have h4 := hinv.pwf.count_le
  have h5 := hinv.dmax
  have h6 := hinv.pmax
  constructor <;> omega

end P2PVerif.DHT
