import P2PVerif.Lemmas.StackRecv
import P2PVerif.Lemmas.StackFrag
import P2PVerif.Lemmas.Varint
/-! C01: any nesting of fragmenting and multiplexing layers (the lemmas behind `Props/C01.lean`). -/
namespace P2PVerif.Stack
open P2PVerif

/-! ## `encodeAll` -/

theorem encodeAll_cons_some {enc : Ctrs → Bytes → Option (List Bytes × Ctrs)} {cs : Ctrs} {p : Bytes}
    {ps : List Bytes} {out : List Bytes} {cs'' : Ctrs} (h : encodeAll enc cs (p :: ps) = some (out, cs'')) :
    ∃ o cs' os, enc cs p = some (o, cs') ∧ encodeAll enc cs' ps = some (os, cs'') ∧ out = o ++ os := by
  unfold encodeAll at h
  cases h1 : enc cs p with
  | none => rw [h1] at h; cases h
  | some r =>
    obtain ⟨o, cs'⟩ := r
    rw [h1] at h
    simp only at h
    cases h2 : encodeAll enc cs' ps with
    | none => rw [h2] at h; cases h
    | some r2 =>
      obtain ⟨os, cs3⟩ := r2
      rw [h2] at h
      simp only [Option.some.injEq, Prod.mk.injEq] at h
      obtain ⟨rfl, rfl⟩ := h
      exact ⟨o, cs', os, rfl, h2, rfl⟩

theorem encodeAll_ok (enc : Ctrs → Bytes → Option (List Bytes × Ctrs)) (pieces : List Bytes)
    (h : ∀ p ∈ pieces, ∀ cs, ∃ ds cs', enc cs p = some (ds, cs')) :
    ∀ cs, ∃ out cs', encodeAll enc cs pieces = some (out, cs') := by
  induction pieces with
  | nil => intro cs; exact ⟨[], cs, rfl⟩
  | cons p ps ih =>
    intro cs
    obtain ⟨o, cs1, h1⟩ := h p List.mem_cons_self cs
    obtain ⟨os, cs2, h2⟩ := ih (fun q hq => h q (List.mem_cons_of_mem _ hq)) cs1
    refine ⟨o ++ os, cs2, ?_⟩
    unfold encodeAll
    rw [h1]; simp only; rw [h2]

/-- what is required of the lower part of the stack: the datagrams of one told payload, fed in order to
    the fresh receiving stack, deliver exactly that payload with the last datagram, leave the stack fresh
    again, and all fit the base swarm -/
def Good (s : Stack) (base src : Nat) : Prop :=
  ∀ cs x ds cs', encode s base cs x = some (ds, cs') →
    recvAll s (init s) src ds = (init s, [x]) ∧
    (∀ k, k < ds.length → (recvAll s (init s) src (ds.take k)).2 = []) ∧
    (∀ d ∈ ds, d.length ≤ base)

theorem encodeAll_recv (rest : Stack) (base src : Nat) (hg : Good rest base src) (pieces : List Bytes) :
    ∀ cs out cs', encodeAll (encode rest base) cs pieces = some (out, cs') →
      recvAll rest (init rest) src out = (init rest, pieces) ∧ (∀ d ∈ out, d.length ≤ base) := by
  induction pieces with
  | nil =>
    intro cs out cs' h
    simp only [encodeAll, Option.some.injEq, Prod.mk.injEq] at h
    obtain ⟨rfl, _⟩ := h
    exact ⟨rfl, by simp⟩
  | cons p ps ih =>
    intro cs out cs' h
    obtain ⟨o, cs1, os, h1, h2, rfl⟩ := encodeAll_cons_some h
    obtain ⟨g1, _, g3⟩ := hg cs p o cs1 h1
    obtain ⟨i1, i2⟩ := ih cs1 os cs' h2
    refine ⟨?_, ?_⟩
    · rw [recvAll_append, g1]; simp only; rw [i1]; rfl
    · intro d hd
      rcases List.mem_append.mp hd with hd | hd
      · exact g3 d hd
      · exact i2 d hd

theorem encodeAll_prefix (rest : Stack) (base src : Nat) (hg : Good rest base src) (pieces : List Bytes) :
    ∀ cs out cs', encodeAll (encode rest base) cs pieces = some (out, cs') → ∀ k, k < out.length →
      ∃ j, j < pieces.length ∧ (recvAll rest (init rest) src (out.take k)).2 = pieces.take j := by
  induction pieces with
  | nil =>
    intro cs out cs' h k hk
    simp only [encodeAll, Option.some.injEq, Prod.mk.injEq] at h
    obtain ⟨rfl, _⟩ := h
    simp at hk
  | cons p ps ih =>
    intro cs out cs' h k hk
    obtain ⟨o, cs1, os, h1, h2, rfl⟩ := encodeAll_cons_some h
    obtain ⟨g1, g2, _⟩ := hg cs p o cs1 h1
    by_cases hko : k < o.length
    · refine ⟨0, by simp, ?_⟩
      rw [List.take_append_of_le_length (by omega), g2 k hko]; rfl
    · have hk' : k - o.length < os.length := by simp only [List.length_append] at hk; omega
      obtain ⟨j, hj, hr⟩ := ih cs1 os cs' h2 (k - o.length) hk'
      refine ⟨j + 1, by simp; omega, ?_⟩
      rw [List.take_append, List.take_of_length_le (by omega), recvAll_append, g1]
      simp only
      rw [hr]; rfl

/-! ## the Tell is accepted up to the stack's `MTU()` and refused beyond it -/

theorem stack_accepted (s : Stack) (base : Nat) : ∀ (cs : Ctrs) (x : Bytes), (x.length : Int) ≤ mtu s base →
    ∃ ds cs', encode s base cs x = some (ds, cs') := by
  induction s with
  | nil =>
    intro cs x h
    simp only [mtu] at h
    exact ⟨[x], cs, by simp only [encode]; rw [if_pos (by omega)]⟩
  | cons l rest ih =>
    intro cs x h
    cases l with
    | frag cfg =>
      simp only [mtu] at h
      obtain ⟨pieces, ht, hfit⟩ := fragTell_accepted (mtu rest base) cfg (cs.headD 0 % 2 ^ 32) x
        (Nat.mod_lt _ (by decide)) h
      obtain ⟨out, cs', he⟩ := encodeAll_ok (encode rest base) pieces (fun p hp cs => ih cs p (hfit p hp)) cs.tail
      refine ⟨out, (cs.headD 0 + 1) :: cs', ?_⟩
      simp only [encode]
      rw [ht]; simp only; rw [he]
    | mux k c =>
      simp only [mtu] at h
      obtain ⟨out, cs', he⟩ := ih cs.tail (Mux.mux k c x) (by simp only [Mux.mux, List.length_append]; omega)
      refine ⟨out, cs.headD 0 :: cs', ?_⟩
      simp only [encode]
      rw [he]

theorem stack_over_mtu_rejected (s : Stack) (base : Nat) : ∀ (cs : Ctrs) (x : Bytes),
    (x.length : Int) > mtu s base → encode s base cs x = none := by
  induction s with
  | nil =>
    intro cs x h
    simp only [mtu] at h
    simp only [encode]
    rw [if_neg (by omega)]
  | cons l rest ih =>
    intro cs x h
    cases l with
    | frag cfg =>
      simp only [mtu] at h
      simp only [encode]
      rw [fragTell_rejected (mtu rest base) cfg _ x h]
    | mux k c =>
      simp only [mtu] at h
      simp only [encode]
      rw [ih cs.tail (Mux.mux k c x) (by simp only [Mux.mux, List.length_append]; omega)]

/-! ## the receiving stack -/

theorem muxFilter_mux (k : Mux.Kind) (c : Mux.Chan) (x : Bytes) (h : c.WF k) :
    muxFilter k c [Mux.mux k c x] = [x] := by
  have hd : Mux.demux k (Mux.mux k c x) = .ok c x := by
    cases k <;> cases c <;> simp only [Mux.Chan.WF] at h
    case str.s c =>
      simp only [Mux.mux, Mux.header, Mux.demux, List.append_assoc]
      rw [Varint.get_put _ h]
      simp
    case varint.n c =>
      simp only [Mux.mux, Mux.header, Mux.demux]
      rw [Varint.get_put _ h]
      simp
    case u16.n c =>
      simp only [Mux.mux, Mux.header, Mux.demux, Mux.be2, List.cons_append, List.nil_append]
      congr 2; omega
    case u32.n c =>
      simp only [Mux.mux, Mux.header, Mux.demux, Mux.be4, List.cons_append, List.nil_append]
      congr 2; omega
    case u64.n c =>
      simp only [Mux.mux, Mux.header, Mux.demux, Mux.be8, List.cons_append, List.nil_append]
      congr 2; omega
  simp [muxFilter, hd]

theorem good_nil (base src : Nat) : Good [] base src := by
  intro cs x ds cs' he
  simp only [encode] at he
  split at he
  · rename_i hx
    simp only [Option.some.injEq, Prod.mk.injEq] at he
    obtain ⟨rfl, _⟩ := he
    refine ⟨by rw [recvAll_base], ?_, by simpa using hx⟩
    intro k hk
    have : k = 0 := by simpa using hk
    subst this
    rfl
  · cases he

theorem good_mux (k : Mux.Kind) (c : Mux.Chan) (rest : Stack) (base src : Nat) (hc : c.WF k)
    (hg : Good rest base src) : Good (.mux k c :: rest) base src := by
  intro cs x ds cs' he
  simp only [encode] at he
  cases h1 : encode rest base cs.tail (Mux.mux k c x) with
  | none => rw [h1] at he; cases he
  | some r =>
    obtain ⟨out, cs1⟩ := r
    rw [h1] at he
    simp only [Option.some.injEq, Prod.mk.injEq] at he
    obtain ⟨rfl, _⟩ := he
    obtain ⟨g1, g2, g3⟩ := hg _ _ _ _ h1
    have hi : init (.mux k c :: rest) = [] :: init rest := rfl
    refine ⟨?_, ?_, g3⟩
    · rw [hi, recvAll_mux, g1, muxFilter_mux k c x hc]
    · intro j hj
      rw [hi, recvAll_mux, g2 j hj]; rfl

theorem good_frag (cfg : Nat) (rest : Stack) (base src : Nat)
    (hg : Good rest base src) : Good (.frag cfg :: rest) base src := by
  intro cs x ds cs' he
  simp only [encode] at he
  have hid : cs.headD 0 % 2 ^ 32 < 2 ^ 32 := Nat.mod_lt _ (by decide)
  cases h1 : fragTell (mtu rest base) cfg (cs.headD 0 % 2 ^ 32) x with
  | none => rw [h1] at he; cases he
  | some pieces =>
    rw [h1] at he
    simp only at he
    cases h2 : encodeAll (encode rest base) cs.tail pieces with
    | none => rw [h2] at he; cases he
    | some r =>
      obtain ⟨out, cs1⟩ := r
      rw [h2] at he
      simp only [Option.some.injEq, Prod.mk.injEq] at he
      obtain ⟨rfl, _⟩ := he
      obtain ⟨e1, e2⟩ := encodeAll_recv rest base src hg pieces _ _ _ h2
      have hi : init (.frag cfg :: rest) = [] :: init rest := rfl
      refine ⟨?_, ?_, e2⟩
      · rw [hi, recvAll_frag, e1]
        simp only
        rw [fragTell_feed_all _ cfg _ src x pieces hid h1]
      · intro j hj
        obtain ⟨i, hi', hr⟩ := encodeAll_prefix rest base src hg pieces _ _ _ h2 j hj
        rw [hi, recvAll_frag, hr]
        exact fragTell_feed_take _ cfg _ src x pieces hid h1 i hi'

theorem good (s : Stack) (hs : WF s) (base src : Nat) : Good s base src := by
  induction s with
  | nil => exact good_nil base src
  | cons l rest ih =>
    cases l with
    | frag cfg => exact good_frag cfg rest base src (ih hs)
    | mux k c => exact good_mux k c rest base src hs.1 (ih hs.2)

/-! ## the statements of `Props/C01.lean` -/

theorem stack_roundtrip (s : Stack) (hs : WF s) (base : Nat) (cs : Ctrs) (x : Bytes) (src : Nat)
    (hfit : (x.length : Int) ≤ mtu s base) :
    ∃ ds cs', encode s base cs x = some (ds, cs') ∧ (∀ d ∈ ds, d.length ≤ base) ∧
      (recvAll s (init s) src ds).2 = [x] := by
  obtain ⟨ds, cs', he⟩ := stack_accepted s base cs x hfit
  obtain ⟨g1, _, g3⟩ := good s hs base src cs x ds cs' he
  exact ⟨ds, cs', he, g3, by rw [g1]⟩

theorem stack_prefix_silent (s : Stack) (hs : WF s) (base : Nat) (cs : Ctrs) (x : Bytes) (src : Nat)
    (ds : List Bytes) (cs' : Ctrs) (he : encode s base cs x = some (ds, cs')) (k : Nat) (hk : k < ds.length) :
    (recvAll s (init s) src (ds.take k)).2 = [] :=
  (good s hs base src cs x ds cs' he).2.1 k hk

end P2PVerif.Stack
