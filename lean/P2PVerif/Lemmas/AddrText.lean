import P2PVerif.Model.Addr
import P2PVerif.Model.AddrSpec
/-! Leaf lemmas for the address text forms: decimal texts, `atoi`, `lastIndexOf`, `net.JoinHostPort` /
    `net.SplitHostPort`, and the scheme separator search. Core Lean only. -/
namespace P2PVerif.Addr
open P2PVerif

/-! ## decimal text -/
theorem natStr_eq (n : Nat) : natStr n = Nat.toDigits 10 n := by simp [natStr]

theorem natStr_ne_nil (n : Nat) : natStr n ≠ [] := by simp [natStr_eq]

theorem natStr_isDigit (n : Nat) : ∀ c ∈ natStr n, c.isDigit = true := by
  intro c hc
  rw [natStr_eq] at hc
  exact Nat.isDigit_of_mem_toDigits (by decide) (by decide) hc

theorem natStr_not_mem (n : Nat) (c : Char) (h : c.isDigit = false) : c ∉ natStr n := by
  intro hc
  have := natStr_isDigit n c hc
  simp [h] at this

theorem foldl_eq_ofDigitChars (s : Str) (init : Nat) :
    s.foldl (fun acc c => acc * 10 + (c.toNat - '0'.toNat)) init = Nat.ofDigitChars 10 s init := by
  rw [Nat.ofDigitChars_eq_foldl]
  congr 1
  funext acc c
  rw [Nat.mul_comm]

theorem parseDigits_natStr (n : Nat) : parseDigits (natStr n) = some n := by
  unfold parseDigits
  have h1 : (natStr n).isEmpty = false := by
    have := natStr_ne_nil n
    cases h : natStr n <;> simp_all
  have h2 : (natStr n).all Char.isDigit = true := by
    rw [List.all_eq_true]; exact natStr_isDigit n
  rw [h1, h2, foldl_eq_ofDigitChars, natStr_eq]
  simp

theorem intStr_eq (n : Int) :
    intStr n = if 0 ≤ n then natStr n.toNat else '-' :: natStr (-n).toNat := by
  unfold intStr natStr
  rw [Int.toString_eq_repr, Int.repr_eq_if]
  split <;> simp

/-! ## `strconv.Atoi` -/
theorem atoi_of_head_digit (s : Str) (h : ∀ c ∈ s.head?, c.isDigit = true) :
    atoi s = (parseDigits s).bind (fun n => if n < 2 ^ 63 then some (n : Int) else none) := by
  unfold atoi
  split
  · exact absurd (h '-' (by simp)) (by decide)
  · exact absurd (h '+' (by simp)) (by decide)
  · rfl

theorem atoi_intStr (n : Int) (h1 : -(2 ^ 63 : Int) ≤ n) (h2 : n < 2 ^ 63) : atoi (intStr n) = some n := by
  rw [intStr_eq]
  split
  · rename_i h0
    rw [atoi_of_head_digit, parseDigits_natStr]
    · simp only [Option.bind_some]
      rw [if_pos (by omega)]
      simp; omega
    · intro c hc
      exact natStr_isDigit _ c (List.mem_of_mem_head? hc)
  · rename_i h0
    simp only [atoi, parseDigits_natStr, Option.bind_some]
    rw [if_pos (by omega)]
    simp; omega

theorem atoi_range (s : Str) (n : Int) (h : atoi s = some n) : -(2 ^ 63 : Int) ≤ n ∧ n < 2 ^ 63 := by
  unfold atoi at h
  split at h <;>
  · simp only [Option.bind_eq_some_iff] at h
    obtain ⟨k, _, hk⟩ := h
    split at hk
    · simp only [Option.some.injEq] at hk; omega
    · simp at hk

/-! ## `lastIndexOf`, ports, `net.SplitHostPort ∘ net.JoinHostPort` -/
theorem lastIndexOf_append (c : Char) (l r : Str) (h : c ∉ r) : lastIndexOf c (l ++ c :: r) = some l.length := by
  unfold lastIndexOf
  have hr : (l ++ c :: r).reverse.idxOf c = r.length := by
    rw [List.reverse_append, List.reverse_cons, List.append_assoc, List.idxOf_append]
    simp [h]
  simp only [hr, List.length_append, List.length_cons]
  rw [if_pos (by omega)]
  congr 1; omega

theorem parseUint16_natStr (n : Nat) (h : n < 65536) : parseUint16 (natStr n) = some n := by
  simp [parseUint16, parseDigits_natStr, h]

theorem parseUint16_lt (s : Str) (n : Nat) (h : parseUint16 s = some n) : n < 65536 := by
  unfold parseUint16 at h
  simp only [Option.bind_eq_some_iff] at h
  obtain ⟨k, _, hk⟩ := h
  split at hk
  · simp only [Option.some.injEq] at hk; omega
  · simp at hk

theorem splitHostPort_joinHostPort (ip : Str) (n : Nat) (h1 : '[' ∉ ip) (h2 : ']' ∉ ip) :
    splitHostPort (joinHostPort ip (natStr n)) = some (ip, natStr n) := by
  have hc : ':' ∉ natStr n := natStr_not_mem n _ (by decide)
  have hb1 : '[' ∉ natStr n := natStr_not_mem n _ (by decide)
  have hb2 : ']' ∉ natStr n := natStr_not_mem n _ (by decide)
  unfold joinHostPort
  split
  · -- bracketed
    have e : '[' :: ip ++ [']', ':'] ++ natStr n = ('[' :: ip ++ [']']) ++ ':' :: natStr n := by simp
    unfold splitHostPort
    rw [e, lastIndexOf_append _ _ _ hc]
    simp only [List.cons_append]
    have hidx : ('[' :: (ip ++ [']'] ++ ':' :: natStr n)).idxOf ']' = ip.length + 1 := by
      rw [List.idxOf_cons, List.append_assoc, List.idxOf_append]
      simp [h2]
    simp only [hidx]
    simp [h1, hb1, hb2]
  · rename_i hcond
    have hcol : ':' ∉ ip := by
      intro hm; apply hcond; simp [hm]
    have e : ip ++ [':'] ++ natStr n = ip ++ ':' :: natStr n := by simp
    unfold splitHostPort
    rw [e, lastIndexOf_append _ _ _ hc]
    cases ip with
    | nil => simp [hb1, hb2]
    | cons c ip' =>
      have hne : c ≠ '[' := by intro h; subst h; simp at h1
      simp only [List.cons_append]
      split
      · rename_i heq; simp at heq; exact absurd heq.1 hne
      · simp_all

/-! ## the lazy scheme separator search -/
theorem findSchemeSep_cons (c : Char) (t : Str) (i : Nat) :
    findSchemeSep (c :: t) i =
      if 3 ≤ t.length ∧ 1 ≤ i ∧ (c :: t).take 3 = [':', '/', '/'] then some i else findSchemeSep t (i + 1) := by
  match t with
  | [] => simp [findSchemeSep]
  | [_] => simp [findSchemeSep]
  | [_, _] => simp [findSchemeSep]
  | c1 :: c2 :: c3 :: rest =>
    rw [findSchemeSep]
    simp

/-- the separator found is the first one: it is at an index ≥ 1, followed by at least one character, and no
    earlier index ≥ 1 carries `://`. -/
theorem findSchemeSep_some (t : Str) (k i : Nat) (h : findSchemeSep t k = some i) :
    ∃ j, i = k + j ∧ 1 ≤ i ∧ (t.drop j).take 3 = [':', '/', '/'] ∧ j + 3 < t.length ∧
      ∀ j', j' < j → 1 ≤ k + j' → (t.drop j').take 3 ≠ [':', '/', '/'] := by
  induction t generalizing k with
  | nil => simp [findSchemeSep] at h
  | cons c t ih =>
    rw [findSchemeSep_cons] at h
    split at h
    · rename_i hc
      simp only [Option.some.injEq] at h
      subst h
      refine ⟨0, by simp, hc.2.1, by simpa using hc.2.2, by simp; omega, by simp⟩
    · rename_i hc
      obtain ⟨j, rfl, h1, h2, h3, h4⟩ := ih (k + 1) h
      refine ⟨j + 1, by omega, by omega, by simpa using h2, by simp; omega, ?_⟩
      intro j' hj' hk
      cases j' with
      | zero =>
        intro heq
        apply hc
        refine ⟨by omega, by omega, by simpa using heq⟩
      | succ j'' =>
        simpa using h4 j'' (by omega) (by omega)

theorem findSchemeSep_append (s rest : Str) (k : Nat) (hk : k = 0 → s ≠ [])
    (hs : ∀ j, 1 ≤ k + j → (s.drop j).take 3 ≠ [':', '/', '/']) (hr : rest ≠ []) :
    findSchemeSep (s ++ [':', '/', '/'] ++ rest) k = some (k + s.length) := by
  induction s generalizing k with
  | nil =>
    have : 1 ≤ k := by
      rcases Nat.eq_zero_or_pos k with h | h
      · exact absurd rfl (hk h)
      · exact h
    cases rest with
    | nil => exact absurd rfl hr
    | cons c3 rest => simp [findSchemeSep, this]
  | cons c s ih =>
    simp only [List.cons_append]
    rw [findSchemeSep_cons, if_neg, ih (k + 1)]
    · simp; omega
    · simp
    · intro j hj
      have := hs (j + 1) (by omega)
      simpa using this
    · rintro ⟨_, h1, h2⟩
      have h0 := hs 0 (by omega)
      match s, h0, h2 with
      | [], _, h2 => simp at h2
      | [d], _, h2 => simp at h2
      | d :: e :: s', h0, h2 => simp at h0 h2; exact h0 h2.1 h2.2.1 h2.2.2

end P2PVerif.Addr
