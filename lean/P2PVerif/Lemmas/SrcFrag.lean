import P2PVerif.Gen.Src
import P2PVerif.Model.Frag
import P2PVerif.Lemmas.SrcMux
import P2PVerif.Lemmas.Chunks
/-! s/fragswarm: `parseMessage`, `newMessage`, `appendUvarint` as regenerated from the Go source are the model's
    `Frag.parse` / `Frag.header`, on every input, without faults. -/
namespace P2PVerif.SrcFrag
open P2PVerif P2PVerif.Src P2PVerif.Go P2PVerif.SrcKad P2PVerif.SrcMux

theorem nb_drop (x : Go.Bytes) (k : Nat) : nb (x.drop k) = (nb x).drop k := by simp [nb, List.map_drop]

/-- one step of the field loop: read a uvarint at offset `k` -/
theorem uvarint_at (x : Go.Bytes) (k : Nat) (hk : k ≤ x.length) :
    Go.slice x (k : Int) (Go.len x) = .ok (x.drop k) ∧
    Go.uvarint (x.drop k) = match Varint.get ((nb x).drop k) with
      | .ok v n => (UInt64.ofNat v, (n : Int))
      | .short => (0, 0)
      | .overflow i => (0, -((i : Int) + 1)) := by
  refine ⟨Go.slice_from x k hk, ?_⟩
  simp only [uvarint_model, nb_drop]
  cases Varint.get (List.drop k (nb x)) <;> rfl

theorem splice_full {α} (buf r : List α) (h : r.length = buf.length) : Go.splice buf 0 r = r := by
  unfold Go.splice
  have : List.drop ((0 : Int).toNat + r.length) buf = [] := List.drop_eq_nil_of_le (by simp; omega)
  rw [this]
  simp

theorem appendUvarint_eq (b : List Go.Bytes) (v : UInt64) :
    fragswarm.appendUvarint b v = .ok (b ++ [Go.uvarintBytes v]) := by
  unfold fragswarm.appendUvarint
  have hl := uvarintBytes_len v
  dsimp only
  rw [putUvarint_ok _ _ (by simp)]
  simp only [bind_ok]
  rw [splice_full _ _ (by simp; omega), Go.slice_to _ _ (by simp)]
  simp

theorem newMessage_eq (id : UInt32) (part total : UInt8) (data : Go.Bytes) :
    fragswarm.newMessage id part total data
      = .ok [Go.uvarintBytes id.toUInt64, Go.uvarintBytes part.toUInt64, Go.uvarintBytes total.toUInt64, data] := by
  unfold fragswarm.newMessage
  simp [appendUvarint_eq]

theorem newMessage_model (id : UInt32) (part total : UInt8) (data : Go.Bytes) :
    (fun v => nb v.flatten) <$> fragswarm.newMessage id part total data
      = .ok (Frag.header id.toNat part.toNat total.toNat ++ nb data) := by
  rw [newMessage_eq]
  simp only [map_ok, List.flatten_cons, List.flatten_nil, List.append_nil, Frag.header]
  have h1 := nb_uvarintBytes id.toUInt64
  have h2 := nb_uvarintBytes part.toUInt64
  have h3 := nb_uvarintBytes total.toUInt64
  simp only [nb, UInt32.toNat_toUInt64, UInt8.toNat_toUInt64] at h1 h2 h3
  simp only [nb, List.map_append, h1, h2, h3, List.append_assoc]

/-! ### parseMessage -/

abbrev PMRet := Go.Err × List UInt64 × Int × UInt32 × UInt8 × UInt8

def pmStep (x : Go.Bytes) (j : Int) (st : List UInt64 × Int) : Go.Ctl (List UInt64 × Int) PMRet :=
  match Varint.get ((nb x).drop st.2.toNat) with
  | .ok v m => .next (st.1.set j.toNat (UInt64.ofNat v), st.2 + m)
  | _ => .ret (some "invalid message", st.1, st.2, 0, 0, 0)

def pmInv (x : Go.Bytes) (st : List UInt64 × Int) : Prop := st.1.length = 3 ∧ 0 ≤ st.2 ∧ st.2.toNat ≤ x.length

theorem pm_body (x : Go.Bytes) (j : Int) (st : List UInt64 × Int) (h0 : 0 ≤ j) (h3 : j < 3) (hi : pmInv x st) :
    (do
      let (fields, n) := st
      let t_10 ← Go.slice x n (Go.len x)
      let (t_8, t_9) := Go.uvarint t_10
      let field := t_8
      let n2 := t_9
      if (decide (n2 < (1 : Int))) then
        pure (Go.Ctl.ret ((some "invalid message" : Go.Err), fields, n, (0 : UInt32), (0 : UInt8), (0 : UInt8)))
      else
        let t_11 ← Go.setIdx fields j field
        let fields := t_11
        let n := (n + n2)
        pure (Go.Ctl.next (fields, n)) : Go.M (Go.Ctl (List UInt64 × Int) PMRet))
      = .ok (pmStep x j st) ∧ ∀ s', pmStep x j st = .next s' → pmInv x s' := by
  obtain ⟨fields, n⟩ := st
  obtain ⟨hf, hn0, hn⟩ := hi
  simp only at hf hn0 hn
  have hnn : n = ((n.toNat : Nat) : Int) := by omega
  have ua := uvarint_at x n.toNat hn
  rw [← hnn] at ua
  simp only [ua.1, bind_ok, ua.2, pmStep]
  cases hg : Varint.get ((nb x).drop n.toNat) with
  | short => simp [pmInv]
  | overflow i =>
    have : (-((i : Int) + 1)) < 1 := by omega
    simp [this, pmInv]
  | ok v m =>
    have hb := get_bounds _ _ _ hg
    simp only [List.length_drop, nb_length] at hb
    have h1 : ¬ ((m : Int) < 1) := by omega
    simp only [decide_eq_true_eq, h1, if_false]
    rw [Go.setIdx_ok _ _ _ h0 (by omega)]
    refine ⟨rfl, ?_⟩
    intro s' hs
    injection hs with hs
    subst hs
    simp only [pmInv, List.length_set]
    omega

theorem u64_toU8 (f : Nat) : (UInt64.ofNat f).toUInt8 = UInt8.ofNat (f % 256) := by
  apply UInt8.toNat_inj.mp
  simp only [UInt64.toNat_toUInt8, UInt64.toNat_ofNat', UInt8.toNat_ofNat']
  omega

theorem u64_toU32 (f : Nat) : (UInt64.ofNat f).toUInt32 = UInt32.ofNat (f % 2 ^ 32) := by
  apply UInt32.toNat_inj.mp
  simp only [UInt64.toNat_toUInt32, UInt64.toNat_ofNat', UInt32.toNat_ofNat']
  omega

theorem u8_ofNat_le (a b : Nat) (ha : a < 256) (hb : b < 256) : (UInt8.ofNat a ≤ UInt8.ofNat b) ↔ a ≤ b := by
  rw [UInt8.le_iff_toNat_le, UInt8.toNat_ofNat', UInt8.toNat_ofNat', Nat.mod_eq_of_lt ha, Nat.mod_eq_of_lt hb]

/-- `Frag.parse` with the offset of the payload instead of the payload -/
def parseK (x : Bytes) : Option (Nat × Nat × Nat × Nat) :=
  match Varint.get x with
  | .ok f0 n0 =>
    match Varint.get (x.drop n0) with
    | .ok f1 n1 =>
      match Varint.get (x.drop (n0 + n1)) with
      | .ok f2 n2 =>
        if f1 % 256 ≥ f2 % 256 then none else some (f0 % 2 ^ 32, f1 % 256, f2 % 256, n0 + n1 + n2)
      | _ => none
    | _ => none
  | _ => none

theorem parse_eq_parseK (x : Bytes) :
    Frag.parse x = (parseK x).map (fun r => (r.1, r.2.1, r.2.2.1, x.drop r.2.2.2)) := by
  unfold Frag.parse parseK
  cases h0 : Varint.get x with
  | ok f0 n0 =>
    simp only
    cases h1 : Varint.get (x.drop n0) with
    | ok f1 n1 =>
      simp only
      cases h2 : Varint.get (x.drop (n0 + n1)) with
      | ok f2 n2 =>
        simp only
        by_cases hc : f1 % 256 ≥ f2 % 256 <;> simp [hc]
      | short => rfl
      | overflow i => rfl
    | short => rfl
    | overflow i => rfl
  | short => rfl
  | overflow i => rfl

/-- `parseMessage` on every input: never a fault; the model's verdict, fields and payload offset -/
theorem parseMessage_eq (x : Go.Bytes) :
    fragswarm.parseMessage x = match parseK (nb x) with
      | some (id, part, total, k) => .ok (UInt32.ofNat id, UInt8.ofNat part, UInt8.ofNat total, x.drop k, none)
      | none =>
        .ok (0, 0, 0, [], some (match Varint.get (nb x) with
          | .ok _ n0 => match Varint.get ((nb x).drop n0) with
            | .ok _ n1 => match Varint.get ((nb x).drop (n0 + n1)) with
              | .ok _ _ => "part >= total"
              | _ => "invalid message"
            | _ => "invalid message"
          | _ => "invalid message")) := by
  unfold fragswarm.parseMessage
  dsimp only
  rw [Go.forRange_eq_pure (pmInv x) _ (pmStep x) 0 _ _ (by simp [pmInv])
    (fun j st h0 h1 hi => pm_body x j st h0 (by simpa [Go.len] using h1) hi)]
  simp only [Go.len, List.length_replicate, Int.sub_zero, Int.toNat_natCast, bind_ok]
  unfold parseK
  simp only [Go.pureLoopN, pmStep, Int.toNat_zero, List.drop_zero]
  cases h0 : Varint.get (nb x) with
  | short => simp
  | overflow i => simp
  | ok f0 n0 =>
    have b0 := get_bounds _ _ _ h0
    simp only [Int.zero_add, Int.toNat_natCast]
    cases h1 : Varint.get ((nb x).drop n0) with
    | short => simp
    | overflow i => simp
    | ok f1 n1 =>
      have b1 := get_bounds _ _ _ h1
      have e1 : ((n0 : Int) + (n1 : Int)).toNat = n0 + n1 := by omega
      simp only [e1]
      cases h2 : Varint.get ((nb x).drop (n0 + n1)) with
      | short => simp
      | overflow i => simp
      | ok f2 n2 =>
        have b2 := get_bounds _ _ _ h2
        simp only [List.length_drop, nb_length] at b0 b1 b2
        have hset : (((List.replicate 3 (0 : UInt64)).set 0 (UInt64.ofNat f0)).set (Int.toNat 1) (UInt64.ofNat f1)).set
            ((1 : Int) + 1).toNat (UInt64.ofNat f2) = [UInt64.ofNat f0, UInt64.ofNat f1, UInt64.ofNat f2] := rfl
        have i0 : Go.idx [UInt64.ofNat f0, UInt64.ofNat f1, UInt64.ofNat f2] 0 = .ok (UInt64.ofNat f0) := rfl
        have i1 : Go.idx [UInt64.ofNat f0, UInt64.ofNat f1, UInt64.ofNat f2] 1 = .ok (UInt64.ofNat f1) := rfl
        have i2 : Go.idx [UInt64.ofNat f0, UInt64.ofNat f1, UInt64.ofNat f2] 2 = .ok (UInt64.ofNat f2) := rfl
        simp only [hset, i0, i1, i2, bind_ok, u64_toU8, u64_toU32, ge_iff_le, decide_eq_true_eq,
          u8_ofNat_le _ _ (Nat.mod_lt _ (by decide : 0 < 256)) (Nat.mod_lt _ (by decide : 0 < 256))]
        by_cases hc : f2 % 256 ≤ f1 % 256
        · simp [hc]
        · have hk : ((n0 : Int) + n1 + n2) = ((n0 + n1 + n2 : Nat) : Int) := by omega
          simp only [hc, if_false, pure_eq, bind_ok, Option.isSome_none, Bool.false_eq_true, hk]
          have hle : n0 + n1 + n2 ≤ x.length := by omega
          have := Go.slice_from x (n0 + n1 + n2) hle
          simp only [Go.len] at this
          rw [this]
          rfl

theorem nb_inj (a b : Go.Bytes) (h : nb a = nb b) : a = b := by
  induction a generalizing b with
  | nil => cases b <;> simp_all [nb]
  | cons x xs ih =>
    cases b with
    | nil => simp [nb] at h
    | cons y ys =>
      simp only [nb_cons, List.cons.injEq] at h
      rw [UInt8.toNat_inj.mp h.1, ih ys h.2]

/-- what `newMessage` frames, `parseMessage` reads back: every id, every part < total, every payload -/
theorem parse_new (id : UInt32) (part total : UInt8) (data : Go.Bytes) (h : part < total) :
    (fragswarm.newMessage id part total data >>= fun v => fragswarm.parseMessage v.flatten)
      = .ok (id, part, total, data, none) := by
  rw [newMessage_eq]
  simp only [bind_ok]
  rw [parseMessage_eq]
  have hm := newMessage_model id part total data
  rw [newMessage_eq] at hm
  simp only [map_ok, Except.ok.injEq] at hm
  have hp := Frag.parse_header id.toNat part.toNat total.toNat (nb data) id.toNat_lt
    (UInt8.lt_iff_toNat_lt.mp h) (by have := total.toNat_lt; omega)
  rw [← hm, parse_eq_parseK] at hp
  cases hk : parseK (nb [Go.uvarintBytes id.toUInt64, Go.uvarintBytes part.toUInt64, Go.uvarintBytes total.toUInt64, data].flatten) with
  | none => rw [hk] at hp; cases hp
  | some r =>
    obtain ⟨i, p, t, k⟩ := r
    rw [hk] at hp
    simp only [Option.map_some, Option.some.injEq, Prod.mk.injEq] at hp
    obtain ⟨rfl, rfl, rfl, hd⟩ := hp
    rw [← nb_drop] at hd
    simp only [nb_inj _ _ hd]
    simp

end P2PVerif.SrcFrag
