import P2PVerif.Model.KeTimed
import P2PVerif.Lemmas.KeChan
import P2PVerif.Lemmas.KeConv
/-! The channel with its timers (`Model/KeTimed.lean`): a channel with waiting callers always has a timer armed
    that acts for them (C07 `never_stranded`), what the two timer callbacks leave behind, and one run through
    the timers from fresh channels. -/
namespace P2PVerif.P2PKE
open P2PVerif

/-! ## sessions: a stored session that is not ready has a handshake message to retransmit -/

/-- the handshake state of a session that can be stored in a channel: an initiator holds its claim, and past the
    first message it holds what the RespHello carried; a responder has read an InitHello -/
def Sess.Wf (s : Sess) : Prop :=
  (s.isInit = true → s.hello.isSome = true ∧
    (s.hs = 0 ∨ 3 ≤ s.hs ∨ (s.hs = 2 ∧ s.rEph.isSome = true ∧ s.rKey.isSome = true ∧ s.rSig.isSome = true))) ∧
  (s.isInit = false →
    2 ≤ s.hs ∨ (s.hs = 1 ∧ s.hello.isSome = true ∧ s.rEph.isSome = true ∧ s.rSig.isSome = true))

theorem Sess.Wf.handshake {s : Sess} (h : s.Wf) (hr : s.isReady = false) : s.handshake.isSome = true := by
  rw [Sess.isReady_false_iff] at hr
  rcases hr with ⟨hi, hlt⟩ | ⟨hi, hlt⟩
  · obtain ⟨hh, hc⟩ := h.1 hi
    rcases hc with h0 | h3 | ⟨h2, hE, hK, hS⟩
    · simp [Sess.handshake, hi, h0, hh]
    · omega
    · cases hh' : s.hello with
      | none => rw [hh'] at hh; cases hh
      | some x =>
      cases hE' : s.rEph with
      | none => rw [hE'] at hE; cases hE
      | some e =>
      cases hK' : s.rKey with
      | none => rw [hK'] at hK; cases hK
      | some k =>
      cases hS' : s.rSig with
      | none => rw [hS'] at hS; cases hS
      | some sg => simp [Sess.handshake, hi, h2, hh', hE', hK', hS']
  · rcases h.2 hi with h2 | ⟨h1, hh, hE, hS⟩
    · omega
    · cases hh' : s.hello with
      | none => rw [hh'] at hh; cases hh
      | some x =>
      cases hE' : s.rEph with
      | none => rw [hE'] at hE; cases hE
      | some e =>
      cases hS' : s.rSig with
      | none => rw [hS'] at hS; cases hS
      | some sg => simp [Sess.handshake, hi, h1, hh', hE', hS']

theorem Sess.Wf.wedged {s : Sess} (h : s.Wf) (b : Bool) : Sess.Wf { s with wedged := b } := h

theorem Sess.new_init_wf (key : KeyId) (eph now ra : Nat) : (Sess.new true key eph now ra).Wf := by
  constructor
  · intro _; simp [Sess.new]
  · intro h; simp [Sess.new] at h

theorem Sess.new_init_handshake (key : KeyId) (eph now ra : Nat) :
    (Sess.new true key eph now ra).handshake = some (.initHello eph ⟨key, now, .ts key now⟩) := by
  simp [Sess.handshake, Sess.new]

theorem Sess.readHandshake_wf (s s' : Sess) (w : Wire) (hr : s.readHandshake w = some s') (h : s.Wf) : s'.Wf := by
  unfold Sess.readHandshake at hr
  simp only [] at hr
  by_cases h1 : (¬s.isInit = true ∧ s.hs = 0 ∧ w.counter = 0)
  · rw [if_pos h1] at hr
    split at hr
    · cases hr
    · split at hr
      · split at hr
        · cases hr
          constructor
          · intro hi; exact absurd hi h1.1
          · intro _; right; simp
        · cases hr
      · cases hr
  rw [if_neg h1] at hr
  by_cases h2 : (s.isInit = true ∧ s.hs = 0 ∧ w.counter = 1)
  · rw [if_pos h2] at hr
    split at hr
    · cases hr
    · split at hr
      · split at hr
        · cases hr
          constructor
          · intro _
            refine ⟨(h.1 h2.1).1, ?_⟩
            right; right; simp
          · intro hi
            have : s.isInit = false := hi
            rw [h2.1] at this; cases this
        · cases hr
      · cases hr
  rw [if_neg h2] at hr
  by_cases h3 : (¬s.isInit = true ∧ s.hs = 1 ∧ w.counter = 2)
  · rw [if_pos h3] at hr
    split at hr
    · split at hr
      · cases hr
        constructor
        · intro hi; exact absurd hi h3.1
        · intro _; left; simp
      · cases hr
    · cases hr
  rw [if_neg h3] at hr
  by_cases h4 : (s.isInit = true ∧ s.hs = 2 ∧ w.counter = 3)
  · rw [if_pos h4] at hr
    split at hr
    · split at hr
      · cases hr
        constructor
        · intro _
          refine ⟨(h.1 h4.1).1, ?_⟩
          right; left; simp
        · intro hi
          have : s.isInit = false := hi
          rw [h4.1] at this; cases this
      · cases hr
    · cases hr
  rw [if_neg h4] at hr
  by_cases h5 : (¬s.isInit = true ∧ s.hs = 3 ∧ w.counter = 2)
  · rw [if_pos h5] at hr
    split at hr
    · split at hr
      · cases hr; exact h
      · cases hr
    · cases hr
  rw [if_neg h5] at hr
  split at hr
  · cases hr; exact h
  · cases hr

theorem Sess.deliver_wf (s : Sess) (w : Wire) (now : Nat) (h : s.Wf) : (s.deliver w now).1.Wf := by
  rcases Sess.deliver_cases s w now with ⟨b, hd⟩ | ⟨s', -, -, -, hr, hd⟩ |
      ⟨eI, eR, tr, dir, ctr, p, -, -, -, hcr, -, -, hd⟩ | ⟨eI, eR, tr, dir, ctr, p, -, -, -, -, -, -, hd⟩
  · rw [hd]; exact h
  · rw [hd]; exact Sess.readHandshake_wf s s' w hr h
  · rw [hd]
    constructor
    · intro hi
      exact ⟨(h.1 hi).1, .inr (.inl (by simp))⟩
    · intro _; left; simp
  · rw [hd]; exact h

/-- the responder `newResp` creates from an InitHello it accepted -/
theorem Sess.new_resp_wf (key : KeyId) (eph now ra : Nat) (eI : Eph) (hl : Hello) (o : Option Wire)
    (hd : ((Sess.new false key eph now ra).deliver (.initHello eI hl) now).2 = .hs o) :
    ((Sess.new false key eph now ra).deliver (.initHello eI hl) now).1.Wf := by
  rcases Sess.deliver_cases (Sess.new false key eph now ra) (.initHello eI hl) now with ⟨b, h⟩ | ⟨s', -, -, -, hr, h⟩ |
      ⟨eI', eR, tr, dir, ctr, p, hw, -, -, -, -, -, h⟩ | ⟨eI', eR, tr, dir, ctr, p, hw, -, -, -, -, -, h⟩
  · rw [h] at hd; cases hd
  · rw [h]
    simp only [Sess.readHandshake, Sess.new, Wire.counter] at hr
    simp at hr
    obtain ⟨-, hr⟩ := hr
    subst hr
    constructor
    · intro hi; simp at hi
    · intro _; right; simp
  · cases hw
  · cases hw

/-! ## channel: what `expire` touches -/

theorem Chan.expire1_same (c : Chan) (now : Nat) :
    (c.expire1 now).next = c.next ∧ (c.expire1 now).cur = c.cur ∧ (c.expire1 now).rejectAfter = c.rejectAfter ∧
    (c.expire1 now).hsTimeout = c.hsTimeout ∧ (c.expire1 now).waiting = c.waiting ∧ (c.expire1 now).key = c.key := by
  unfold Chan.expire1
  split
  · split <;> exact ⟨rfl, rfl, rfl, rfl, rfl, rfl⟩
  · exact ⟨rfl, rfl, rfl, rfl, rfl, rfl⟩

theorem Chan.expire2_same (c : Chan) (now : Nat) :
    (c.expire2 now).next = c.next ∧ (c.cur = none → (c.expire2 now).cur = none) ∧
    (c.expire2 now).rejectAfter = c.rejectAfter ∧
    (c.expire2 now).hsTimeout = c.hsTimeout ∧ (c.expire2 now).waiting = c.waiting ∧ (c.expire2 now).key = c.key := by
  unfold Chan.expire2
  split
  · split
    · exact ⟨rfl, fun _ => rfl, rfl, rfl, rfl, rfl⟩
    · exact ⟨rfl, fun h => h, rfl, rfl, rfl, rfl⟩
  · exact ⟨rfl, fun h => h, rfl, rfl, rfl, rfl⟩

theorem Chan.expire3_same (c : Chan) (now : Nat) :
    (c.expire3 now).cur = c.cur ∧ (c.expire3 now).rejectAfter = c.rejectAfter ∧
    (c.expire3 now).hsTimeout = c.hsTimeout ∧ (c.expire3 now).waiting = c.waiting ∧ (c.expire3 now).key = c.key := by
  unfold Chan.expire3
  split
  · split <;> exact ⟨rfl, rfl, rfl, rfl, rfl⟩
  · exact ⟨rfl, rfl, rfl, rfl, rfl⟩

/-- the prospective session after `expire`: dropped when past its reject time or older than the time-out -/
def Chan.nextAfter (c : Chan) (now : Nat) : Option Entry :=
  match c.next with
  | some e =>
    if e.sess.expiresAt < now ∨ now - (e.sess.expiresAt - c.rejectAfter) > c.hsTimeout then none else some e
  | none => none

structure ExpFacts (c : Chan) (now : Nat) (c' : Chan) : Prop where
  waiting : c'.waiting = c.waiting
  key : c'.key = c.key
  rejectAfter : c'.rejectAfter = c.rejectAfter
  hsTimeout : c'.hsTimeout = c.hsTimeout
  cur : c.cur = none → c'.cur = none
  next : c'.next = c.nextAfter now

theorem Chan.expire_facts (c : Chan) (now : Nat) : ExpFacts c now (c.expire now) := by
  rw [Chan.expire_eq]
  obtain ⟨a1, a2, a3, a4, a5, a6⟩ := Chan.expire1_same c now
  obtain ⟨b1, b2, b3, b4, b5, b6⟩ := Chan.expire2_same (c.expire1 now) now
  obtain ⟨d1, d2, d3, d4, d5⟩ := Chan.expire3_same ((c.expire1 now).expire2 now) now
  refine ⟨by rw [d4, b5, a5], by rw [d5, b6, a6], by rw [d2, b3, a3], by rw [d3, b4, a4], ?_, ?_⟩
  · intro h
    rw [d1]; exact b2 (by rw [a2]; exact h)
  · unfold Chan.expire3 Chan.nextAfter
    rw [b1, a1, b3, a3, b4, a4]
    cases hn : c.next with
    | none =>
      show ((c.expire1 now).expire2 now).next = none
      rw [b1, a1, hn]
    | some e =>
      simp only []
      split
      · rfl
      · exact (b1.trans a1).trans hn

theorem Chan.nextAfter_some {c : Chan} {now : Nat} {e : Entry} (h : c.nextAfter now = some e) :
    c.next = some e ∧ now ≤ e.sess.expiresAt ∧ now - (e.sess.expiresAt - c.rejectAfter) ≤ c.hsTimeout := by
  unfold Chan.nextAfter at h
  cases hn : c.next with
  | none => rw [hn] at h; cases h
  | some e' =>
    rw [hn] at h
    simp only [] at h
    split at h
    · cases h
    · cases h
      refine ⟨rfl, ?_, ?_⟩ <;> omega

theorem Chan.nextAfter_old {c : Chan} {now : Nat} {e : Entry} (hn : c.next = some e)
    (h : now - (e.sess.expiresAt - c.rejectAfter) > c.hsTimeout) : c.nextAfter now = none := by
  unfold Chan.nextAfter
  rw [hn]
  simp only []
  rw [if_pos (.inr h)]

theorem Chan.nextAfter_none {c : Chan} {now : Nat} (hn : c.next = none) : c.nextAfter now = none := by
  unfold Chan.nextAfter
  rw [hn]

theorem Chan.nextAfter_sub (c : Chan) (now : Nat) : c.nextAfter now = c.next ∨ c.nextAfter now = none := by
  unfold Chan.nextAfter
  cases c.next with
  | none => exact .inl rfl
  | some e =>
    simp only []
    split
    · exact .inr rfl
    · exact .inl rfl

/-! ## the handshake callback -/

theorem TChan.fireHs_chan (t : TChan) (now : Nat) : (t.fireHs now).1.chan = (t.chan.expire now).onHandshake.1 := rfl

theorem TChan.fireHs_next (t : TChan) (now : Nat) : (t.fireHs now).1.chan.next = t.chan.nextAfter now :=
  (Chan.expire_facts t.chan now).next

theorem Chan.restart_eq (c : Chan) (now : Nat) :
    (c.onHandshakeAt now).2.2 =
    match c.next, (c.expire now).next with
    | some n, none => n.sess.isInit || ((c.expire now).cur.isNone && decide (c.waiting > 0))
    | _, _ => false := rfl

theorem TChan.fireHs_rekeyAt (t : TChan) (now : Nat) :
    (t.fireHs now).1.rekeyAt = if (t.chan.onHandshakeAt now).2.2 then some now else t.rekeyAt := rfl

theorem TChan.fireHs_hsAt (t : TChan) (now : Nat) :
    (t.fireHs now).1.hsAt = if (t.chan.expire now).onHandshake.2.isEmpty then none else some (now + t.backoff) := rfl

theorem prospective_is_live (t : TChan) (now : Nat) (e : Entry) :
    (t.fireHs now).1.chan.next = some e →
    now ≤ e.sess.expiresAt ∧ now - (e.sess.expiresAt - t.chan.rejectAfter) ≤ t.chan.hsTimeout := by
  intro h
  rw [TChan.fireHs_next] at h
  exact (Chan.nextAfter_some h).2

theorem abandon_restarts (t : TChan) (now : Nat) (e : Entry) :
    t.chan.next = some e → (t.fireHs now).1.chan.next = none →
    (e.sess.isInit = true ∨ (t.chan.waiting > 0 ∧ (t.chan.expire now).cur = none)) →
    (t.fireHs now).1.rekeyAt = some now := by
  intro hn hgone hc
  rw [TChan.fireHs_next, ← (Chan.expire_facts t.chan now).next] at hgone
  rw [TChan.fireHs_rekeyAt, Chan.restart_eq, hn, hgone]
  simp only []
  rcases hc with hi | ⟨hw, hcur⟩
  · simp [hi]
  · simp [hw, hcur]

theorem stuck_handshake_is_given_up (t : TChan) (e : Entry) (now : Nat)
    (hcur : t.chan.cur = none) (hnext : t.chan.next = some e) (hw : t.chan.waiting > 0)
    (hage : now - (e.sess.expiresAt - t.chan.rejectAfter) > t.chan.hsTimeout) :
    (t.fireHs now).1.chan.next = none ∧ (t.fireHs now).1.rekeyAt = some now := by
  have h1 : (t.fireHs now).1.chan.next = none := by
    rw [TChan.fireHs_next]; exact Chan.nextAfter_old hnext hage
  exact ⟨h1, abandon_restarts t now e hnext h1 (.inr ⟨hw, (Chan.expire_facts t.chan now).cur hcur⟩)⟩

/-! ## the rekey callback -/

theorem Chan.onRekey_next (c : Chan) (lt : IdLt) (eph now : Nat) :
    ((c.expire now).next.isSome = true → (c.onRekey lt eph now).next = (c.expire now).next) ∧
    ((c.expire now).next = none →
      (c.onRekey lt eph now).next =
        some ⟨.initHello eph ⟨c.key, now, .ts c.key now⟩, Sess.new true c.key eph now c.rejectAfter⟩) := by
  have hf := Chan.expire_facts c now
  unfold Chan.onRekey
  simp only []
  constructor
  · intro h
    cases hn : (c.expire now).next with
    | none => rw [hn] at h; cases h
    | some e => simp only []
  · intro hn
    simp only [hn, hf.key, hf.rejectAfter, Sess.new_init_handshake, Chan.propose]

theorem Chan.onRekey_next_isSome (c : Chan) (lt : IdLt) (eph now : Nat) : (c.onRekey lt eph now).next.isSome = true := by
  cases h : (c.expire now).next with
  | none => rw [(Chan.onRekey_next c lt eph now).2 h]; rfl
  | some e => rw [(Chan.onRekey_next c lt eph now).1 (by rw [h]; rfl), h]; rfl

theorem TChan.fireRekey_chan (t : TChan) (lt : IdLt) (eph now : Nat) :
    (t.fireRekey lt eph now).chan = t.chan.onRekey lt eph now := by
  unfold TChan.fireRekey
  simp only []
  split <;> rfl

theorem TChan.fireRekey_hsAt (t : TChan) (lt : IdLt) (eph now : Nat) : (t.fireRekey lt eph now).hsAt.isSome = true := by
  unfold TChan.fireRekey
  simp only []
  split
  · cases t.hsAt <;> rfl
  · rfl

theorem TChan.fireRekey_spec (t : TChan) (lt : IdLt) (eph now : Nat) :
    (t.fireRekey lt eph now).chan.next.isSome = true ∧ (t.fireRekey lt eph now).hsAt.isSome = true :=
  ⟨by rw [TChan.fireRekey_chan]; exact Chan.onRekey_next_isSome _ lt eph now, TChan.fireRekey_hsAt t lt eph now⟩

theorem rekey_leaves_driven_session (key : KeyId) (accept : KeyId → Bool) (rj ka ra bo : Nat) (lt : IdLt) (ops : List TOp)
    (eph now : Nat) :
    let t := ((TSt.mk (TChan.fresh key accept rj ka ra bo) 0).run lt ops).t
    (t.fireRekey lt eph now).chan.next.isSome ∧ (t.fireRekey lt eph now).hsAt.isSome := by
  intro t
  have := TChan.fireRekey_spec t lt eph now
  exact ⟨this.1, this.2⟩

/-! ## a caller starts waiting -/

theorem Chan.pend_of_cur_none (c : Chan) (now : Nat) (h : c.cur = none) :
    c.pend now = ({ c.expire now with waiting := (c.expire now).waiting + 1 }, true) := by
  have := (Chan.expire_facts c now).cur h
  unfold Chan.pend
  simp only [this]
  rfl

theorem TChan.fireRekey_hsAt_of_none (t : TChan) (lt : IdLt) (eph now : Nat) (h : (t.chan.expire now).next = none) :
    (t.fireRekey lt eph now).hsAt = some now := by
  unfold TChan.fireRekey
  simp only [h]
  rfl

theorem stale_prospective_does_not_block (t : TChan) (lt : IdLt) (e : Entry) (t1 eph : Nat)
    (hcur : t.chan.cur = none) (hnext : t.chan.next = some e)
    (hold : t1 - (e.sess.expiresAt - t.chan.rejectAfter) > t.chan.hsTimeout) :
    let a := (t.pend t1).1
    let c := a.fireRekey lt eph t1
    a.chan.waiting = t.chan.waiting + 1 ∧ a.chan.next = none ∧ a.rekeyAt = some t1 ∧
    (∃ e', c.chan.next = some e' ∧ e'.sess.isInit = true ∧ e'.sess.eph = eph) ∧ c.hsAt = some t1 := by
  intro a c
  have hf := Chan.expire_facts t.chan t1
  have hp := Chan.pend_of_cur_none t.chan t1 hcur
  have hnx : (t.chan.expire t1).next = none := by rw [hf.next]; exact Chan.nextAfter_old hnext hold
  have ha : a = { t with chan := { t.chan.expire t1 with waiting := (t.chan.expire t1).waiting + 1 }, rekeyAt := some t1 } := by
    show (t.pend t1).1 = _
    simp only [TChan.pend, hp, TChan.arm, hnx, Option.isNone_none, if_true]
  have han : a.chan.next = none := by rw [ha]; exact hnx
  have hn2 : (a.chan.expire t1).next = none := by
    rw [(Chan.expire_facts a.chan t1).next]; exact Chan.nextAfter_none han
  refine ⟨by rw [ha]; show (t.chan.expire t1).waiting + 1 = _; rw [hf.waiting], han, by rw [ha], ?_, ?_⟩
  · refine ⟨⟨.initHello eph ⟨a.chan.key, t1, .ts a.chan.key t1⟩, Sess.new true a.chan.key eph t1 a.chan.rejectAfter⟩,
      ?_, rfl, rfl⟩
    show (a.fireRekey lt eph t1).chan.next = _
    rw [TChan.fireRekey_chan, (Chan.onRekey_next a.chan lt eph t1).2 hn2]
  · exact TChan.fireRekey_hsAt_of_none a lt eph t1 hn2

/-! ## the invariant behind `never_stranded`: channel part -/

/-- the prospective session, when there is one, is in a state `writeHandshake` has a message for -/
def NWf (c : Chan) : Prop := ∀ e, c.next = some e → e.sess.Wf

/-- `waiting` is unchanged and no current session appears -/
def Quiet (c c' : Chan) : Prop := c'.waiting = c.waiting ∧ (c.cur = none → c'.cur = none)

/-- either quiet, or every waiting caller has returned -/
def DT (c c' : Chan) : Prop := Quiet c c' ∨ c'.waiting = 0

theorem Quiet.refl (c : Chan) : Quiet c c := ⟨rfl, id⟩

theorem Quiet.trans {a b c : Chan} (h1 : Quiet a b) (h2 : Quiet b c) : Quiet a c :=
  ⟨h2.1.trans h1.1, fun h => h2.2 (h1.2 h)⟩

theorem DT.refl (c : Chan) : DT c c := .inl (Quiet.refl c)

theorem DT.trans {a b c : Chan} (h1 : DT a b) (h2 : DT b c) : DT a c := by
  rcases h2 with h2 | h2
  · rcases h1 with h1 | h1
    · exact .inl (h1.trans h2)
    · exact .inr (h2.1.trans h1)
  · exact .inr h2

theorem NWf.of_sub {c c' : Chan} (h : NWf c) (hs : c'.next = c.next ∨ c'.next = none) : NWf c' := by
  intro e he
  rcases hs with hs | hs
  · rw [hs] at he; exact h e he
  · rw [hs] at he; cases he

theorem track_of_same {c c' c'' : Chan} (h : NWf c' ∧ DT c c')
    (hs : c''.next = c'.next ∧ c''.cur = c'.cur ∧ c''.waiting = c'.waiting) : NWf c'' ∧ DT c c'' :=
  ⟨h.1.of_sub (.inl hs.1), h.2.trans (.inl ⟨hs.2.2, fun hc => hs.2.1.trans hc⟩)⟩

theorem Chan.onReady_track (c : Chan) (now : Nat) (hn : NWf c) : NWf (c.onReady now).1 ∧ DT c (c.onReady now).1 := by
  unfold Chan.onReady
  split
  · exact ⟨hn, DT.refl c⟩
  · split
    · exact ⟨fun e h => (by cases h), .inl ⟨rfl, id⟩⟩
    · split
      · exact ⟨fun e h => (by cases h), .inl ⟨rfl, id⟩⟩
      · exact ⟨fun e h => (by cases h), .inr rfl⟩

theorem Chan.finish_same (c : Chan) (se : Entry) (s' : Sess) (r : Res) (now : Nat) :
    (c.finish se s' r now).1.next = c.next ∧ (c.finish se s' r now).1.cur = c.cur ∧
    (c.finish se s' r now).1.waiting = c.waiting := by
  unfold Chan.finish
  split
  · simp only []
    split
    · split <;> exact ⟨rfl, rfl, rfl⟩
    · exact ⟨rfl, rfl, rfl⟩
  · exact ⟨rfl, rfl, rfl⟩
  · exact ⟨rfl, rfl, rfl⟩

theorem Chan.setSlot_track {c : Chan} {slot : Nat} {se : Entry} (s' : Sess) (hg : c.getSlot slot = some se)
    (hn : NWf c) (hs : 2 ≤ slot → s'.Wf) :
    NWf (c.setSlot slot ⟨se.id, s'⟩) ∧ Quiet c (c.setSlot slot ⟨se.id, s'⟩) := by
  rcases slot with _ | _ | n
  · exact ⟨hn, rfl, id⟩
  · refine ⟨hn, rfl, fun h => ?_⟩
    have : c.cur = some se := hg
    rw [this] at h; cases h
  · refine ⟨fun e he => ?_, rfl, id⟩
    simp only [Chan.setSlot, Option.some.injEq] at he
    subst he
    exact hs (by omega)

theorem Chan.deliverSlot_track (c : Chan) (slot : Nat) (w : Wire) (now : Nat) (hn : NWf c) :
    NWf (c.deliverSlot slot w now).1 ∧ DT c (c.deliverSlot slot w now).1 := by
  rw [Chan.deliverSlot_eq]
  cases hg : c.getSlot slot with
  | none => exact ⟨hn, DT.refl c⟩
  | some se =>
    simp only []
    by_cases hskip : w.isInitHello = true ∧ se.id ≠ w
    · rw [if_pos hskip]; exact ⟨hn, DT.refl c⟩
    rw [if_neg hskip]
    have h1 := Chan.setSlot_track (c := c) (slot := slot) (se := se) (se.sess.deliver w now).1 hg hn (fun h2 => by
      have : c.next = some se := by
        rcases slot with _ | _ | n
        · omega
        · omega
        · exact hg
      exact Sess.deliver_wf _ w now (hn se this))
    have h1' : NWf (c.setSlot slot ⟨se.id, (se.sess.deliver w now).1⟩) ∧ DT c (c.setSlot slot ⟨se.id, (se.sess.deliver w now).1⟩) :=
      ⟨h1.1, .inl h1.2⟩
    by_cases herr : (se.sess.deliver w now).2 = .err
    · rw [if_pos herr]; exact h1'
    rw [if_neg herr]
    by_cases hp : (!se.sess.isReady && (se.sess.deliver w now).1.isReady) = true
    · rw [if_pos hp]
      have h2 := Chan.onReady_track (c.setSlot slot ⟨se.id, (se.sess.deliver w now).1⟩) now h1.1
      have h2' : NWf ((c.setSlot slot ⟨se.id, (se.sess.deliver w now).1⟩).onReady now).1 ∧
          DT c ((c.setSlot slot ⟨se.id, (se.sess.deliver w now).1⟩).onReady now).1 := ⟨h2.1, h1'.2.trans h2.2⟩
      by_cases hok : (!((c.setSlot slot ⟨se.id, (se.sess.deliver w now).1⟩).onReady now).2) = true
      · rw [if_pos hok]; exact h2'
      · rw [if_neg hok]
        exact track_of_same h2' (Chan.finish_same _ _ _ _ _)
    · rw [if_neg hp]
      simp only [Bool.not_true, Bool.false_eq_true, if_false]
      exact track_of_same h1' (Chan.finish_same _ _ _ _ _)

theorem Chan.propose_track (c : Chan) (lt : IdLt) (e : Entry) (hn : NWf c) (he : e.sess.Wf) :
    NWf (c.propose lt e).1 ∧ Quiet c (c.propose lt e).1 := by
  unfold Chan.propose
  have hnew : NWf { c with next := some e, rekeyPending := c.rekeyPending || e.sess.isInit } :=
    fun e' h => by simp only [Option.some.injEq] at h; subst h; exact he
  split
  · simp only []
    split <;> (try split) <;> first | exact ⟨hn, rfl, id⟩ | exact ⟨hnew, rfl, id⟩
  · exact ⟨hnew, rfl, id⟩

theorem Chan.newResp_track (c : Chan) (lt : IdLt) (w : Wire) (eph now : Nat) (hn : NWf c) :
    NWf (c.newResp lt w eph now).1 ∧ Quiet c (c.newResp lt w eph now).1 := by
  have triv : NWf (c, ({} : DRes)).1 ∧ Quiet c (c, ({} : DRes)).1 := ⟨hn, Quiet.refl c⟩
  unfold Chan.newResp
  split
  · split
    · exact triv
    split
    · exact triv
    split
    · exact triv
    split
    · exact triv
    simp only []
    split
    · rename_i eI h _ _ _ _ _ _ o heq
      have hwf := Sess.new_resp_wf c.key eph now c.rejectAfter eI h o heq
      exact Chan.propose_track c lt ⟨.initHello eI h, _⟩ hn hwf
    · exact triv
  · exact triv

theorem Chan.deliver_track (c : Chan) (lt : IdLt) (w : Wire) (eph now : Nat) (hn : NWf c) :
    NWf (c.deliver lt w eph now).1 ∧ DT c (c.deliver lt w eph now).1 := by
  unfold Chan.deliver
  have p0 := Chan.deliverSlot_track c 0 w now hn
  rcases h0 : c.deliverSlot 0 w now with ⟨c0, _ | r0⟩
  · rw [h0] at p0
    simp only []
    have p1 := Chan.deliverSlot_track c0 1 w now p0.1
    rcases h1 : c0.deliverSlot 1 w now with ⟨c1, _ | r1⟩
    · rw [h1] at p1
      simp only []
      have p2 := Chan.deliverSlot_track c1 2 w now p1.1
      rcases h2 : c1.deliverSlot 2 w now with ⟨c2, _ | r2⟩
      · rw [h2] at p2
        simp only []
        have pn := Chan.newResp_track c2 lt w eph now p2.1
        exact ⟨pn.1, (p0.2.trans p1.2).trans (p2.2.trans (.inl pn.2))⟩
      · rw [h2] at p2
        simp only []
        exact ⟨p2.1, (p0.2.trans p1.2).trans p2.2⟩
    · rw [h1] at p1
      simp only []
      exact ⟨p1.1, p0.2.trans p1.2⟩
  · rw [h0] at p0
    simp only []
    exact p0

theorem Chan.onHandshake_outs (c : Chan) (e : Entry) (hn : c.next = some e) (hr : e.sess.isReady = false)
    (hh : e.sess.handshake.isSome = true) : c.onHandshake.2.isEmpty = false := by
  obtain ⟨w, hw⟩ := Option.isSome_iff_exists.1 hh
  have : ∀ l : List Wire, (l ++ [w]).isEmpty = false := by
    intro l; cases l <;> rfl
  unfold Chan.onHandshake
  simp only [hn]
  have h3 : ([c.prev, c.cur, some e] : List (Option Entry)) = [c.prev, c.cur] ++ [some e] := rfl
  rw [h3, List.filterMap_append]
  simp only [List.filterMap_cons, List.filterMap_nil, hr, hw, Bool.not_false, if_true]
  exact this _

theorem Chan.propose_waiting (c : Chan) (lt : IdLt) (e : Entry) : (c.propose lt e).1.waiting = c.waiting := by
  unfold Chan.propose
  split
  · simp only []
    split <;> (try split) <;> rfl
  · rfl

theorem Chan.onRekey_waiting (c : Chan) (lt : IdLt) (eph now : Nat) : (c.onRekey lt eph now).waiting = c.waiting := by
  have hf := Chan.expire_facts c now
  unfold Chan.onRekey
  simp only []
  split
  · exact hf.waiting
  · split
    · show (Chan.propose _ lt _).1.waiting = _
      rw [Chan.propose_waiting]
      exact hf.waiting
    · exact hf.waiting

theorem Chan.send_cases (c : Chan) (p : Bytes) (now : Nat) :
    ((c.expire now).cur = none ∧
      c.send p now = ({ c.expire now with rekeyPending := (c.expire now).rekeyPending || (c.expire now).next.isNone }, none)) ∨
    (∃ e, (c.expire now).cur = some e ∧
      c.send p now = ({ c.expire now with cur := some { e with sess := (e.sess.send p now).1 } }, some (e.sess.send p now).2)) := by
  unfold Chan.send
  simp only []
  cases h : (c.expire now).cur with
  | none => exact .inl ⟨rfl, rfl⟩
  | some e => exact .inr ⟨e, rfl, rfl⟩

theorem Chan.pend_cases (c : Chan) (now : Nat) :
    ((c.expire now).cur = none ∧ c.pend now = ({ c.expire now with waiting := (c.expire now).waiting + 1 }, true)) ∨
    ((c.expire now).cur.isSome = true ∧ c.pend now = (c.expire now, false)) := by
  unfold Chan.pend
  simp only []
  cases h : (c.expire now).cur with
  | none => exact .inl ⟨rfl, rfl⟩
  | some e => exact .inr ⟨rfl, rfl⟩

/-! ## the invariant behind `never_stranded`: the channel with its timers -/

structure TInv (t : TChan) : Prop where
  inv : CInv t.chan
  wf : NWf t.chan
  k : t.chan.waiting > 0 → t.chan.cur = none
  j : t.NotStranded

theorem TInv.fresh (key : KeyId) (accept : KeyId → Bool) (rj ka ra bo : Nat) : TInv (TChan.fresh key accept rj ka ra bo) := by
  refine ⟨CInv.fresh _ _ _ _ _, fun e h => (by cases h), fun h => ?_, fun h => ?_⟩
  · exact absurd h (by simp [TChan.fresh, Chan.fresh])
  · exact absurd h (by simp [TChan.fresh, Chan.fresh])

theorem TChan.arm_inv (t : TChan) (c' : Chan) (now : Nat) (hinv : CInv c') (hwf : NWf c') (hcur : c'.cur = none) :
    TInv (t.arm c' now) := by
  unfold TChan.arm
  split
  · exact ⟨hinv, hwf, fun _ => hcur, fun _ => ⟨hcur, .inl rfl⟩⟩
  · rename_i hnn
    have hs : c'.next.isSome = true := by
      cases h : c'.next with
      | none => rw [h] at hnn; exact absurd rfl hnn
      | some e => rfl
    split
    · exact ⟨hinv, hwf, fun _ => hcur, fun _ => ⟨hcur, .inr ⟨hs, rfl⟩⟩⟩
    · rename_i hh
      refine ⟨hinv, hwf, fun _ => hcur, fun _ => ⟨hcur, .inr ⟨hs, ?_⟩⟩⟩
      show t.hsAt.isSome = true
      cases h : t.hsAt with
      | none => rw [h] at hh; exact absurd rfl hh
      | some e => rfl

/-- an operation that leaves the timers alone and the channel without waiting callers -/
theorem TInv.of_idle {t : TChan} (c' : Chan) (hinv : CInv c') (hwf : NWf c') (hw : c'.waiting = 0) :
    TInv { t with chan := c' } :=
  ⟨hinv, hwf, fun h => absurd h (by show ¬ c'.waiting > 0; omega),
    fun h => absurd h (by show ¬ c'.waiting > 0; omega)⟩

theorem TChan.send_inv (t : TChan) (p : Bytes) (now : Nat) (h : TInv t) : TInv (t.send p now).1 := by
  have hk := (Chan.send_keeps t.chan p now h.inv).1.inv
  have hf := Chan.expire_facts t.chan now
  have hsub := Chan.nextAfter_sub t.chan now
  rw [← hf.next] at hsub
  rcases Chan.send_cases t.chan p now with ⟨hcur, hs⟩ | ⟨e, hcur, hs⟩
  · have : (t.send p now).1 = t.arm (t.chan.send p now).1 now := by
      simp only [TChan.send, hs]
    rw [this]
    rw [hs] at hk ⊢
    exact TChan.arm_inv t _ now hk (h.wf.of_sub hsub) hcur
  · have : (t.send p now).1 = { t with chan := (t.chan.send p now).1 } := by
      simp only [TChan.send, hs]
    rw [this]
    rw [hs] at hk ⊢
    refine TInv.of_idle _ hk (h.wf.of_sub hsub) ?_
    show (t.chan.expire now).waiting = 0
    rw [hf.waiting]
    cases hw : t.chan.waiting with
    | zero => rfl
    | succ n =>
      have := hf.cur (h.k (by omega))
      rw [this] at hcur; cases hcur

theorem TChan.pend_inv (t : TChan) (now : Nat) (h : TInv t) : TInv (t.pend now).1 := by
  have hk := (Chan.pend_keeps t.chan now h.inv).1.inv
  have hf := Chan.expire_facts t.chan now
  have hsub := Chan.nextAfter_sub t.chan now
  rw [← hf.next] at hsub
  rcases Chan.pend_cases t.chan now with ⟨hcur, hs⟩ | ⟨hcur, hs⟩
  · have : (t.pend now).1 = t.arm (t.chan.pend now).1 now := by
      simp only [TChan.pend, hs]
    rw [this]
    rw [hs] at hk ⊢
    exact TChan.arm_inv t _ now hk (h.wf.of_sub hsub) hcur
  · have : (t.pend now).1 = { t with chan := (t.chan.pend now).1 } := by
      simp only [TChan.pend, hs]
    rw [this]
    rw [hs] at hk ⊢
    refine TInv.of_idle _ hk (h.wf.of_sub hsub) ?_
    rw [hf.waiting]
    cases hw : t.chan.waiting with
    | zero => rfl
    | succ n =>
      have := hf.cur (h.k (by omega))
      rw [this] at hcur; cases hcur

theorem TChan.unpend_inv (t : TChan) (h : TInv t) : TInv t.unpend := by
  refine ⟨Chan.unpend_keeps t.chan h.inv |>.inv, h.wf, fun hw => ?_, fun hw => ?_⟩
  · have hw' : t.chan.waiting - 1 > 0 := hw
    exact h.k (by omega)
  · have hw' : t.chan.waiting - 1 > 0 := hw
    exact h.j (by omega)

theorem sameId_none_right (a : Option Entry) : sameId a none = false := by
  cases a <;> rfl

theorem TChan.deliver_chan (t : TChan) (lt : IdLt) (w : Wire) (eph now : Nat) :
    (t.deliver lt w eph now).1.chan = (t.chan.deliver lt w eph now).1 := rfl

theorem TChan.deliver_hsAt (t : TChan) (lt : IdLt) (w : Wire) (eph now : Nat) :
    (t.deliver lt w eph now).1.hsAt = t.hsAt := rfl

theorem TChan.deliver_rekeyAt (t : TChan) (lt : IdLt) (w : Wire) (eph now : Nat) :
    (t.deliver lt w eph now).1.rekeyAt =
    if (sameId t.chan.next (t.chan.deliver lt w eph now).1.cur && !sameId t.chan.next t.chan.cur) = true then
      (if (t.chan.next.map (·.sess.isInit)).getD false = true then some (now + t.rekeyAfter) else t.rekeyAt)
    else if (t.chan.next.isSome && (t.chan.deliver lt w eph now).1.next.isNone && decide (t.chan.waiting > 0)) = true
      then some (now + t.backoff)
    else t.rekeyAt := rfl

theorem TChan.deliver_inv (t : TChan) (lt : IdLt) (w : Wire) (eph now : Nat) (h : TInv t) :
    TInv (t.deliver lt w eph now).1 := by
  have hp := Chan.deliver_post t.chan lt w eph now h.inv
  have ht := Chan.deliver_track t.chan lt w eph now h.wf
  have hq : (t.chan.deliver lt w eph now).1.waiting > 0 →
      t.chan.waiting > 0 ∧ (t.chan.deliver lt w eph now).1.cur = none := by
    intro hw
    rcases ht.2 with hq | h0
    · have hw' : t.chan.waiting > 0 := by rw [← hq.1]; exact hw
      exact ⟨hw', hq.2 (h.k hw')⟩
    · omega
  refine ⟨hp.inv, ht.1, fun hw => (hq hw).2, fun hw => ?_⟩
  rw [TChan.deliver_chan] at hw ⊢
  obtain ⟨hw', hcur'⟩ := hq hw
  refine ⟨hcur', ?_⟩
  rw [TChan.deliver_hsAt, TChan.deliver_rekeyAt, hcur']
  simp only [sameId_none_right, Bool.false_and, Bool.false_eq_true, if_false]
  rcases (h.j hw').2 with hr | ⟨hn, hh⟩
  · left
    split
    · rfl
    · exact hr
  · cases hn' : (t.chan.deliver lt w eph now).1.next with
    | none =>
      left
      simp [hn, hw']
    | some e => exact .inr ⟨rfl, hh⟩

theorem TChan.fireRekey_inv (t : TChan) (lt : IdLt) (eph now : Nat) (h : TInv t) : TInv (t.fireRekey lt eph now) := by
  have hk := Chan.onRekey_keeps t.chan lt eph now h.inv
  have hf := Chan.expire_facts t.chan now
  have hnx := Chan.onRekey_next t.chan lt eph now
  have hsp := TChan.fireRekey_spec t lt eph now
  have hc := TChan.fireRekey_chan t lt eph now
  have hcur : (t.fireRekey lt eph now).chan.waiting > 0 → (t.fireRekey lt eph now).chan.cur = none := by
    intro hw
    rw [hc] at hw ⊢
    rw [Chan.onRekey_waiting] at hw
    rw [hk.2]
    exact hf.cur (h.k hw)
  refine ⟨by rw [hc]; exact hk.1.inv, ?_, hcur, fun hw => ⟨hcur hw, .inr hsp⟩⟩
  rw [hc]
  cases hn : (t.chan.expire now).next with
  | none =>
    intro e he
    rw [hnx.2 hn] at he
    cases he
    exact Sess.new_init_wf _ _ _ _
  | some e0 =>
    have hsub := Chan.nextAfter_sub t.chan now
    rw [← hf.next] at hsub
    refine h.wf.of_sub ?_
    rw [hnx.1 (by rw [hn]; rfl)]
    exact hsub

theorem TChan.fireHs_inv (t : TChan) (now : Nat) (h : TInv t) : TInv (t.fireHs now).1 := by
  have hf := Chan.expire_facts t.chan now
  have he := Chan.expire_keeps t.chan now h.inv
  have hsub := Chan.nextAfter_sub t.chan now
  rw [← hf.next] at hsub
  have hwfe : NWf (t.chan.expire now) := h.wf.of_sub hsub
  have hcur : (t.fireHs now).1.chan.waiting > 0 → (t.fireHs now).1.chan.cur = none := by
    intro hw
    have hw' : t.chan.waiting > 0 := by rw [← hf.waiting]; exact hw
    exact hf.cur (h.k hw')
  refine ⟨(Chan.onHandshake_keeps _ he.inv).1.inv, hwfe, hcur, fun hw => ⟨hcur hw, ?_⟩⟩
  have hw' : t.chan.waiting > 0 := by rw [← hf.waiting]; exact hw
  cases hn' : (t.chan.expire now).next with
  | some e =>
    right
    refine ⟨by show (t.chan.expire now).next.isSome = true; rw [hn']; rfl, ?_⟩
    rw [TChan.fireHs_hsAt, Chan.onHandshake_outs _ e hn' (he.inv.next e hn') ((hwfe e hn').handshake (he.inv.next e hn'))]
    rfl
  | none =>
    left
    cases hn : t.chan.next with
    | some n =>
      rw [abandon_restarts t now n hn hn' (.inr ⟨hw', hf.cur (h.k hw')⟩)]
      rfl
    | none =>
      rw [TChan.fireHs_rekeyAt, Chan.restart_eq, hn]
      simp only [Bool.false_eq_true, if_false]
      rcases (h.j hw').2 with hr | ⟨hx, -⟩
      · exact hr
      · rw [hn] at hx; cases hx

/-! ## runs -/

theorem TSt.step_inv (s : TSt) (lt : IdLt) (op : TOp) (h : TInv s.t) : TInv (s.step lt op).t := by
  unfold TSt.step
  split
  · exact h
  · cases op with
    | send p => exact TChan.send_inv s.t p s.now h
    | pend => exact TChan.pend_inv s.t s.now h
    | unpend => exact TChan.unpend_inv s.t h
    | deliver w eph => exact TChan.deliver_inv s.t lt w eph s.now h
    | tick d => exact h
    | fireRekey eph => exact TChan.fireRekey_inv s.t lt eph s.now h
    | fireHs => exact TChan.fireHs_inv s.t s.now h

theorem TSt.run_inv (s : TSt) (lt : IdLt) (ops : List TOp) (h : TInv s.t) : TInv (s.run lt ops).t := by
  induction ops generalizing s with
  | nil => exact h
  | cons op ops ih => exact ih (s.step lt op) (TSt.step_inv s lt op h)

theorem never_stranded (key : KeyId) (accept : KeyId → Bool) (rj ka ra bo : Nat) (lt : IdLt) (ops : List TOp) :
    ((TSt.mk (TChan.fresh key accept rj ka ra bo) 0).run lt ops).t.NotStranded :=
  (TSt.run_inv _ lt ops (TInv.fresh key accept rj ka ra bo)).j

/-! ## through the timers, from fresh channels -/

/-- the initiating channel with `w` waiting callers -/
def chanW (kA : KeyId) (accA : KeyId → Bool) (rj ka ht w : Nat) (nx : Option Entry) (rp hp : Bool) : Chan :=
  { key := kA, accept := accA, rejectAfter := rj, keepAlive := ka, hsTimeout := ht, next := nx, rekeyPending := rp,
    hsPending := hp, waiting := w }

def helloA (kA : KeyId) (t0 : Nat) : Wire := .initHello 100 (helloOf kA t0)

theorem pf_pend (kA : KeyId) (accA : KeyId → Bool) (rj ka ra bo t0 : Nat) :
    ((TChan.fresh kA accA rj ka ra bo).pend t0).1 =
    { chan := chanW kA accA rj ka (Gen.Facts.p2pkeHandshakeAttempts * bo) 1 none false false, rekeyAfter := ra, backoff := bo,
      rekeyAt := some t0 } := rfl

theorem pf_rekey (kA : KeyId) (accA : KeyId → Bool) (rj ka ra bo ht t0 : Nat) (lt : IdLt) (rk : Option Nat) :
    TChan.fireRekey
      { chan := chanW kA accA rj ka ht 1 none false false, rekeyAfter := ra, backoff := bo, rekeyAt := rk } lt 100 t0 =
    { chan := chanW kA accA rj ka ht 1 (some ⟨helloA kA t0, Sess.new true kA 100 t0 rj⟩) true true,
      rekeyAfter := ra, backoff := bo, rekeyAt := some (t0 + ra), hsAt := some t0 } := rfl

theorem TChan.advance_R (t : TChan) (lt : IdLt) (limit tie fuel eph a : Nat)
    (hr : t.rekeyAt.filter (· ≤ limit) = some a) (hh : t.hsAt.filter (· ≤ limit) = none) :
    t.advance lt limit tie (fuel + 1) eph = (t.fireRekey lt eph a).advance lt limit tie fuel (eph + 1) := by
  rw [TChan.advance]
  simp only [hr, hh]

theorem TChan.advance_H (t : TChan) (lt : IdLt) (limit tie fuel eph b : Nat)
    (hr : t.rekeyAt.filter (· ≤ limit) = none) (hh : t.hsAt.filter (· ≤ limit) = some b) :
    t.advance lt limit tie (fuel + 1) eph =
    (((t.fireHs b).1.advance lt limit tie fuel eph).1,
     (t.fireHs b).2.map (fun w => (b, w)) ++ ((t.fireHs b).1.advance lt limit tie fuel eph).2.1,
     ((t.fireHs b).1.advance lt limit tie fuel eph).2.2) := by
  rw [TChan.advance]
  simp only [hr, hh]

theorem TChan.advance_stop (t : TChan) (lt : IdLt) (limit tie fuel eph : Nat)
    (hr : t.rekeyAt.filter (· ≤ limit) = none) (hh : t.hsAt.filter (· ≤ limit) = none) :
    t.advance lt limit tie (fuel + 1) eph = (t, [], eph) := by
  rw [TChan.advance]
  simp only [hr, hh]

/-- coinciding deadlines with tie digit 0: the rekey callback runs first -/
theorem TChan.advance_tie0 (t : TChan) (lt : IdLt) (limit fuel eph a : Nat)
    (hr : t.rekeyAt.filter (· ≤ limit) = some a) (hh : t.hsAt.filter (· ≤ limit) = some a) :
    t.advance lt limit 0 (fuel + 1) eph = (t.fireRekey lt eph a).advance lt limit 0 fuel (eph + 1) := by
  rw [TChan.advance]
  simp only [hr, hh]
  simp

theorem Chan.expire_young (c : Chan) (now : Nat) (e : Entry) (hp : c.prev = none) (hc : c.cur = none)
    (hn : c.next = some e) (h1 : now ≤ e.sess.expiresAt) (h2 : now - (e.sess.expiresAt - c.rejectAfter) ≤ c.hsTimeout) :
    c.expire now = c := by
  unfold Chan.expire
  simp only [hp, hc, hn]
  rw [if_neg (by omega)]

theorem chanW_expire (kA : KeyId) (accA : KeyId → Bool) (rj ka ht w t0 : Nat) (rp hp : Bool) :
    (chanW kA accA rj ka ht w (some ⟨helloA kA t0, Sess.new true kA 100 t0 rj⟩) rp hp).expire t0 =
    chanW kA accA rj ka ht w (some ⟨helloA kA t0, Sess.new true kA 100 t0 rj⟩) rp hp :=
  Chan.expire_young _ t0 ⟨helloA kA t0, Sess.new true kA 100 t0 rj⟩ rfl rfl rfl
    (by show t0 ≤ t0 + rj; omega) (by show t0 - (t0 + rj - rj) ≤ ht; omega)

theorem pf_hs (kA : KeyId) (accA : KeyId → Bool) (rj ka ra bo ht t0 : Nat) (rp : Bool) (rk hk : Option Nat) :
    TChan.fireHs
      { chan := chanW kA accA rj ka ht 1 (some ⟨helloA kA t0, Sess.new true kA 100 t0 rj⟩) rp true,
        rekeyAfter := ra, backoff := bo, rekeyAt := rk, hsAt := hk } t0 =
    ({ chan := chanW kA accA rj ka ht 1 (some ⟨helloA kA t0, Sess.new true kA 100 t0 rj⟩) rp true,
       rekeyAfter := ra, backoff := bo, rekeyAt := rk, hsAt := some (t0 + bo) }, [helloA kA t0]) := by
  simp only [TChan.fireHs, Chan.onHandshakeAt, chanW_expire]
  rfl

theorem pf_rekey2 (kA : KeyId) (accA : KeyId → Bool) (rj ka ra bo ht t0 eph : Nat) (lt : IdLt) (rk : Option Nat) (b : Nat) :
    TChan.fireRekey
      { chan := chanW kA accA rj ka ht 1 (some ⟨helloA kA t0, Sess.new true kA 100 t0 rj⟩) true true,
        rekeyAfter := ra, backoff := bo, rekeyAt := rk, hsAt := some b } lt eph t0 =
    { chan := chanW kA accA rj ka ht 1 (some ⟨helloA kA t0, Sess.new true kA 100 t0 rj⟩) false true,
      rekeyAfter := ra, backoff := bo, rekeyAt := none, hsAt := some b } := by
  simp only [TChan.fireRekey, Chan.onRekey, chanW_expire]
  rfl

/-- A after the timers ran -/
def tA3 (kA : KeyId) (accA : KeyId → Bool) (rj ka ra bo ht t0 : Nat) (rp : Bool) (rk : Option Nat) : TChan :=
  { chan := chanW kA accA rj ka ht 1 (some ⟨helloA kA t0, Sess.new true kA 100 t0 rj⟩) rp true,
    rekeyAfter := ra, backoff := bo, rekeyAt := rk, hsAt := some (t0 + bo) }

theorem filter_le_self (a : Nat) : (some a : Option Nat).filter (· ≤ a) = some a := by simp [Option.filter]
theorem filter_le_lt (a b : Nat) (h : b < a) : (some a : Option Nat).filter (· ≤ b) = none := by
  simp [Option.filter]; omega

theorem pf_advance (kA : KeyId) (accA : KeyId → Bool) (rj ka ra bo ht t0 : Nat) (lt : IdLt) (hbo : 0 < bo) :
    ∃ rp rk e,
    TChan.advance
      { chan := chanW kA accA rj ka ht 1 none false false, rekeyAfter := ra, backoff := bo, rekeyAt := some t0 }
      lt t0 0 4 100 = (tA3 kA accA rj ka ra bo ht t0 rp rk, [(t0, helloA kA t0)], e) := by
  by_cases hra : ra = 0
  · subst hra
    refine ⟨false, none, 102, ?_⟩
    refine (TChan.advance_R _ lt t0 0 3 100 t0 (filter_le_self t0) rfl).trans ?_
    rw [pf_rekey]
    refine (TChan.advance_tie0 _ lt t0 2 101 t0 (filter_le_self t0) (filter_le_self t0)).trans ?_
    rw [pf_rekey2]
    refine (TChan.advance_H _ lt t0 0 1 102 t0 rfl (filter_le_self t0)).trans ?_
    rw [pf_hs]
    rw [TChan.advance_stop _ lt t0 0 0 102 rfl (filter_le_lt _ _ (by omega))]
    rfl
  · refine ⟨true, some (t0 + ra), 101, ?_⟩
    refine (TChan.advance_R _ lt t0 0 3 100 t0 (filter_le_self t0) rfl).trans ?_
    rw [pf_rekey]
    refine (TChan.advance_H _ lt t0 0 2 101 t0 (filter_le_lt _ _ (by omega)) (filter_le_self t0)).trans ?_
    rw [pf_hs]
    rw [TChan.advance_stop _ lt t0 0 1 101 (filter_le_lt _ _ (by omega)) (filter_le_lt _ _ (by omega))]
    rfl

theorem TChan.deliver_res (t : TChan) (lt : IdLt) (w : Wire) (eph now : Nat) :
    (t.deliver lt w eph now).2 = (t.chan.deliver lt w eph now).2 := rfl

def wRespHello (kA kB : KeyId) (t0 : Nat) : Wire := .respHello 200 100 (helloOf kA t0) kB (.cb1 kB 100 (helloOf kA t0))
def wInitDone (kA kB : KeyId) (t0 : Nat) : Wire :=
  .initDone 100 200 (helloOf kA t0) (.cb2 kA 100 200 (helloOf kA t0) kB (.cb1 kB 100 (helloOf kA t0)))
def wRespDone (kA : KeyId) (t0 : Nat) : Wire := .respDone 100 200 (helloOf kA t0)

/-- A after the RespHello -/
def tA4 (kA kB : KeyId) (accA : KeyId → Bool) (rj ka ra bo ht t0 : Nat) (rp : Bool) (rk : Option Nat) : TChan :=
  { chan := chanW kA accA rj ka ht 1 (some ⟨helloA kA t0, initS2 kA 100 t0 rj 200 kB⟩) rp true,
    rekeyAfter := ra, backoff := bo, rekeyAt := rk, hsAt := some (t0 + bo) }

theorem pf_A1 (kA kB : KeyId) (accA : KeyId → Bool) (rj ka ra bo ht t0 : Nat) (lt : IdLt) (rp : Bool) (rk : Option Nat) :
    (tA3 kA accA rj ka ra bo ht t0 rp rk).deliver lt (wRespHello kA kB t0) 300 t0 =
    (tA4 kA kB accA rj ka ra bo ht t0 rp rk, { sent := some (wInitDone kA kB t0) }) := by
  have hc := Chan.deliver_next_hs
    (chanW kA accA rj ka ht 1 (some ⟨helloA kA t0, Sess.new true kA 100 t0 rj⟩) rp true) lt (wRespHello kA kB t0) 300 t0
    (helloA kA t0) (Sess.new true kA 100 t0 rj) (initS2 kA 100 t0 rj 200 kB) (wInitDone kA kB t0)
    (Transp.none _ _) (Transp.none _ _) rfl rfl (Sess.init_deliver_respHello kA 100 t0 rj 200 kB t0 (by omega)) rfl
  simp only [TChan.deliver, tA3, hc]
  rfl

theorem pf_A2 (kA kB : KeyId) (accA : KeyId → Bool) (rj ka ra bo ht t0 : Nat) (lt : IdLt) (rp : Bool) (rk : Option Nat)
    (hacc : accA kB = true) :
    let A4 := ((tA4 kA kB accA rj ka ra bo ht t0 rp rk).deliver lt (wRespDone kA t0) 500 t0).1
    A4.chan.cur.isSome = true ∧ A4.chan.waiting = 0 ∧ A4.rekeyAt = some (t0 + ra) := by
  have hc := Chan.deliver_next_promote
    (chanW kA accA rj ka ht 1 (some ⟨helloA kA t0, initS2 kA 100 t0 rj 200 kB⟩) rp true) lt (wRespDone kA t0) 500 t0
    (helloA kA t0) (initS2 kA 100 t0 rj 200 kB) (initS4 kA 100 t0 rj 200 kB) none kB
    (Transp.none _ _) (Transp.none _ _) rfl rfl (Sess.init_deliver_respDone kA 100 t0 rj 200 kB t0 (by omega)) rfl rfl rfl
    hacc
  intro A4
  have h1 : A4.chan = _ := (TChan.deliver_chan _ lt _ 500 t0).trans (congrArg Prod.fst hc)
  refine ⟨by rw [h1]; rfl, by rw [h1], ?_⟩
  show ((tA4 kA kB accA rj ka ra bo ht t0 rp rk).deliver lt (wRespDone kA t0) 500 t0).1.rekeyAt = _
  rw [TChan.deliver_rekeyAt]
  have h2 : ((tA4 kA kB accA rj ka ra bo ht t0 rp rk).chan.deliver lt (wRespDone kA t0) 500 t0).1 = _ := congrArg Prod.fst hc
  rw [h2]
  simp [tA4, chanW, sameId, initS2]

theorem pf_B (kA kB : KeyId) (rj ka ra bo t0 : Nat) (lt : IdLt) :
    let B0 := TChan.fresh kB (fun k => k == kA) rj ka ra bo
    (B0.deliver lt (helloA kA t0) 200 t0).2.sent = some (wRespHello kA kB t0) ∧
    ((B0.deliver lt (helloA kA t0) 200 t0).1.deliver lt (wInitDone kA kB t0) 400 t0).2.sent = some (wRespDone kA t0) ∧
    ((B0.deliver lt (helloA kA t0) 200 t0).1.deliver lt (wInitDone kA kB t0) 400 t0).1.chan.cur.isSome = true := by
  intro B0
  have hB := RespPre.fresh kA kB rj ka (Gen.Facts.p2pkeHandshakeAttempts * bo) 100 t0
  have hs1 := resp_step1 _ lt kA 100 t0 200 t0 hB
  have hs2 := resp_step2 _ lt kA 100 t0 200 (t0 + rj) 400 t0 hB (by omega)
  have e0 := (TChan.deliver_res B0 lt (helloA kA t0) 200 t0).trans (congrArg Prod.snd hs1)
  have e1 := (TChan.deliver_chan B0 lt (helloA kA t0) 200 t0).trans (congrArg Prod.fst hs1)
  have e2 : ((B0.deliver lt (helloA kA t0) 200 t0).1.deliver lt (wInitDone kA kB t0) 400 t0).2.sent =
      some (wRespDone kA t0) := by
    rw [TChan.deliver_res, e1]; exact congrArg (fun r => r.2.sent) hs2
  have e3 : ((B0.deliver lt (helloA kA t0) 200 t0).1.deliver lt (wInitDone kA kB t0) 400 t0).1.chan.cur.isSome = true := by
    rw [TChan.deliver_chan, e1]; exact congrArg (fun r => r.1.cur.isSome) hs2
  exact ⟨by rw [e0]; rfl, e2, e3⟩

theorem pending_send_completes_fresh (kA kB : KeyId) (rj ka ra bo : Nat) (lt : IdLt) (t0 : Nat) (hbo : 0 < bo) :
    let A0 := TChan.fresh kA (fun k => k == kB) rj ka ra bo
    let B0 := TChan.fresh kB (fun k => k == kA) rj ka ra bo
    let A1 := (A0.pend t0).1
    let adv := A1.advance lt t0 0 4 100
    A1.chan.waiting = 1 ∧
    ∃ hello, adv.2.1 = [(t0, hello)] ∧
      ∃ rh, (B0.deliver lt hello 200 t0).2.sent = some rh ∧
        ∃ idn, (adv.1.deliver lt rh 300 t0).2.sent = some idn ∧
          ∃ rd, ((B0.deliver lt hello 200 t0).1.deliver lt idn 400 t0).2.sent = some rd ∧
            let A4 := ((adv.1.deliver lt rh 300 t0).1.deliver lt rd 500 t0).1
            let B2 := ((B0.deliver lt hello 200 t0).1.deliver lt idn 400 t0).1
            A4.chan.cur.isSome ∧ A4.chan.waiting = 0 ∧ A4.rekeyAt = some (t0 + ra) ∧ B2.chan.cur.isSome := by
  intro A0 B0 A1 adv
  obtain ⟨rp, rk, e, hadv⟩ := pf_advance kA (fun k => k == kB) rj ka ra bo (Gen.Facts.p2pkeHandshakeAttempts * bo) t0 lt hbo
  have hadv' : adv = (tA3 kA (fun k => k == kB) rj ka ra bo (Gen.Facts.p2pkeHandshakeAttempts * bo) t0 rp rk,
      [(t0, helloA kA t0)], e) := hadv
  clear_value adv
  subst hadv'
  obtain ⟨b1, b2, b3⟩ := pf_B kA kB rj ka ra bo t0 lt
  have a1 := pf_A1 kA kB (fun k => k == kB) rj ka ra bo (Gen.Facts.p2pkeHandshakeAttempts * bo) t0 lt rp rk
  have a2 := pf_A2 kA kB (fun k => k == kB) rj ka ra bo (Gen.Facts.p2pkeHandshakeAttempts * bo) t0 lt rp rk (by simp)
  refine ⟨rfl, helloA kA t0, rfl, wRespHello kA kB t0, b1, wInitDone kA kB t0, ?_, wRespDone kA t0, b2, ?_⟩
  · show ((tA3 _ _ _ _ _ _ _ _ _ _).deliver lt _ 300 t0).2.sent = _
    rw [a1]
  · show (((tA3 _ _ _ _ _ _ _ _ _ _).deliver lt _ 300 t0).1.deliver lt _ 500 t0).1.chan.cur.isSome = true ∧ _
    rw [a1]
    exact ⟨a2.1, a2.2.1, a2.2.2, b3⟩

end P2PVerif.P2PKE
