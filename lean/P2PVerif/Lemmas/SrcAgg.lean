import P2PVerif.Gen.Src
import P2PVerif.Model.Frag
import P2PVerif.Lemmas.SrcFrag
/-! s/fragswarm: the reassembly `aggregator` (addPart, assemble) as regenerated from the Go source is the parts table of
    the model's `Frag.recv`. A nil parts table / a nil part is `none`. -/
namespace P2PVerif.SrcAgg
open P2PVerif P2PVerif.Src P2PVerif.Go P2PVerif.SrcKad

/-- the model's view of a parts table -/
def mparts (l : List (Option Go.Bytes)) : List (Option Bytes) := l.map (Option.map nb)

def allStep (a : fragswarm.aggregatorT) (l : List (Option Go.Bytes)) (i : Int) (_ : Unit) :
    Go.Ctl Unit (Bool × fragswarm.aggregatorT) :=
  if (l.getD i.toNat none).isNone then .ret (false, a) else .next ()

theorem all_loop (a : fragswarm.aggregatorT) (l : List (Option Go.Bytes)) : ∀ (m k : Nat), m + k = l.length →
    Go.pureLoopN m (k : Int) () (allStep a l) =
      if (l.drop k).all Option.isSome then .done () else .ret (false, a) := by
  intro m
  induction m with
  | zero =>
    intro k hk
    have : l.drop k = [] := List.drop_eq_nil_of_le (by omega)
    simp [Go.pureLoopN, this]
  | succ m ih =>
    intro k hk
    have hk' : k < l.length := by omega
    rw [List.drop_eq_getElem_cons hk']
    simp only [Go.pureLoopN, allStep, Int.toNat_natCast, List.getD_eq_getElem?_getD, List.getElem?_eq_getElem hk',
      Option.getD_some, List.all_cons]
    cases h : l[k] with
    | none => simp
    | some v =>
      simp only [Option.isNone_some, Bool.false_eq_true, if_false, Option.isSome_some, Bool.true_and]
      have := ih (k + 1) (by omega)
      simpa using this

/-- `addPart` on a parts table that exists -/
theorem addPart_some (l : List (Option Go.Bytes)) (part total : UInt8) (data : Go.Bytes) :
    fragswarm.aggregator.addPart { parts := some l } part total data =
      if l.length ≠ total.toNat ∨ part.toNat ≥ l.length then .ok (false, { parts := some l })
      else .ok ((l.set part.toNat (some data)).all Option.isSome, { parts := some (l.set part.toNat (some data)) }) := by
  unfold fragswarm.aggregator.addPart
  simp only [Option.isNone_some, Bool.false_eq_true, if_false, Option.getD_some, Go.len]
  have e1 : ((l.length : Int) ≠ (total.toNat : Int)) ↔ l.length ≠ total.toNat := by omega
  have e2 : ((part.toNat : Int) ≥ (l.length : Int)) ↔ part.toNat ≥ l.length := by omega
  simp only [Bool.or_eq_true, decide_eq_true_eq, e1, e2]
  by_cases hc : l.length ≠ total.toNat ∨ part.toNat ≥ l.length
  · simp [hc]
  · rw [if_neg hc, if_neg hc]
    have hp : part.toNat < l.length := by omega
    rw [Go.setIdx_ok _ _ _ (by omega) (by simpa using hp)]
    simp only [bind_ok, Int.toNat_natCast, List.nil_append, Option.getD_some]
    rw [Go.forRange_eq_pure (fun _ => True) _
      (allStep { parts := some (l.set part.toNat (some data)) } (l.set part.toNat (some data))) 0 _ () trivial]
    · have := all_loop { parts := some (l.set part.toNat (some data)) } (l.set part.toNat (some data))
        (l.set part.toNat (some data)).length 0 (by omega)
      simp only [Int.sub_zero, Int.toNat_natCast, bind_ok]
      simp only [Int.natCast_zero, List.drop_zero] at this
      rw [this]
      by_cases hall : (l.set part.toNat (some data)).all Option.isSome = true
      · simp [hall]
      · simp [hall]
    · intro j s h0 h1 _
      refine ⟨?_, fun _ _ => trivial⟩
      have hj : j.toNat < (l.set part.toNat (some data)).length := by omega
      rw [Go.idx_ok _ _ h0 hj]
      simp only [bind_ok, allStep, List.getD_eq_getElem?_getD, List.getElem?_eq_getElem hj, Option.getD_some, pure_eq]
      split <;> rfl

/-- the first `addPart` creates the table (`make([][]byte, total)`) and continues -/
theorem addPart_none (part total : UInt8) (data : Go.Bytes) :
    fragswarm.aggregator.addPart { parts := none } part total data =
      fragswarm.aggregator.addPart { parts := some (List.replicate total.toNat none) } part total data := by
  unfold fragswarm.aggregator.addPart
  simp only [Option.isNone_none, Option.isNone_some, if_true, Bool.false_eq_true, if_false]
  rw [Go.makeList_ok _ _ (by omega)]
  simp only [bind_ok, Int.toNat_natCast]

def asmStep (_ : Int) (part : Option Go.Bytes) (st : Go.Bytes) : Go.Ctl Go.Bytes Go.Bytes := .next (st ++ part.getD [])

theorem asm_loop : ∀ (l : List (Option Go.Bytes)) (i : Int) (buf : Go.Bytes),
    Go.pureForEach l i buf asmStep = .done (buf ++ l.flatMap (fun p => p.getD [])) := by
  intro l
  induction l with
  | nil => intro i buf; simp [Go.pureForEach]
  | cons p ps ih =>
    intro i buf
    simp only [Go.pureForEach, asmStep, List.flatMap_cons]
    rw [ih]
    simp

theorem assemble_eq (a : fragswarm.aggregatorT) :
    fragswarm.aggregator.assemble a = .ok ((a.parts.getD []).flatMap (fun p => p.getD [])) := by
  unfold fragswarm.aggregator.assemble
  cases h : a.parts with
  | none => simp
  | some l =>
    simp only [Option.isNone_some, Bool.false_eq_true, if_false, Option.getD_some]
    have e := Go.forEach_eq_pure (ρ := Go.Bytes) (fun (_ : Int) (part : Option Go.Bytes) (st : Go.Bytes) =>
      (pure (Go.Ctl.next (st ++ part.getD [])) : Go.M (Go.Ctl Go.Bytes Go.Bytes))) asmStep l 0 [] (fun _ _ _ _ => rfl)
    rw [e, asm_loop]
    simp

theorem mparts_set (l : List (Option Go.Bytes)) (k : Nat) (d : Go.Bytes) :
    mparts (l.set k (some d)) = (mparts l).set k (some (nb d)) := by
  simp [mparts, List.map_set]

theorem mparts_all (l : List (Option Go.Bytes)) : (mparts l).all Option.isSome = l.all Option.isSome := by
  simp only [mparts, List.all_map]
  congr 1
  funext p
  cases p <;> rfl

theorem mparts_flat (l : List (Option Go.Bytes)) :
    nb (l.flatMap (fun p => p.getD [])) = (mparts l).flatMap (fun p => p.getD []) := by
  induction l with
  | nil => rfl
  | cons p ps ih =>
    simp only [List.flatMap_cons, mparts, List.map_cons] at ih ⊢
    simp only [nb, List.map_append] at ih ⊢
    rw [ih]
    cases p <;> rfl

/-- one fragment through the regenerated aggregator is one step of the parts table in the model's `Frag.recv`:
    `st` is the table before (`none`: the aggregator was just created), the model's table is `mp` -/
theorem addPart_model (st : Option (List (Option Go.Bytes))) (part total : UInt8) (data : Go.Bytes) :
    let mp := match st with
      | none => List.replicate total.toNat none
      | some l => mparts l
    ∃ b l', fragswarm.aggregator.addPart { parts := st } part total data = .ok (b, { parts := some l' }) ∧
      (if mp.length ≠ total.toNat ∨ part.toNat ≥ mp.length then b = false ∧ mparts l' = mp
       else mparts l' = mp.set part.toNat (some (nb data)) ∧
            b = (mp.set part.toNat (some (nb data))).all Option.isSome ∧
            (nb <$> fragswarm.aggregator.assemble { parts := some l' })
              = .ok ((mp.set part.toNat (some (nb data))).flatMap (fun p => p.getD []))) := by
  have key : ∀ l : List (Option Go.Bytes),
      ∃ b l', fragswarm.aggregator.addPart { parts := some l } part total data = .ok (b, { parts := some l' }) ∧
        (if (mparts l).length ≠ total.toNat ∨ part.toNat ≥ (mparts l).length then b = false ∧ mparts l' = mparts l
         else mparts l' = (mparts l).set part.toNat (some (nb data)) ∧
              b = ((mparts l).set part.toNat (some (nb data))).all Option.isSome ∧
              (nb <$> fragswarm.aggregator.assemble { parts := some l' })
                = .ok (((mparts l).set part.toNat (some (nb data))).flatMap (fun p => p.getD []))) := by
    intro l
    rw [addPart_some]
    have hlen : (mparts l).length = l.length := by simp [mparts]
    rw [hlen]
    by_cases hc : l.length ≠ total.toNat ∨ part.toNat ≥ l.length
    · rw [if_pos hc]
      refine ⟨_, _, rfl, ?_⟩
      rw [if_pos hc]
      exact ⟨rfl, rfl⟩
    · rw [if_neg hc]
      refine ⟨_, _, rfl, ?_⟩
      rw [if_neg hc]
      refine ⟨mparts_set _ _ _, ?_, ?_⟩
      · rw [← mparts_set, mparts_all]
      · rw [assemble_eq]
        simp only [Option.getD_some, map_ok]
        rw [mparts_flat, mparts_set]
  cases st with
  | none =>
    simp only
    rw [addPart_none]
    have := key (List.replicate total.toNat none)
    have e : mparts (List.replicate total.toNat (none : Option Go.Bytes)) = List.replicate total.toNat none := by
      simp [mparts]
    rw [e] at this
    exact this
  | some l => exact key l

end P2PVerif.SrcAgg
