import P2PVerif.Model.DER
/-! Lemmas about the DER model (`Model/DER.lean`): the strict parser inverts the marshaller. -/
namespace P2PVerif.DER
open P2PVerif

/-! ## lengths -/
theorem be256_zero : be256 0 = [] := by rw [be256]; simp
theorem be256_pos {n : Nat} (h : n ≠ 0) : be256 n = be256 (n / 256) ++ [n % 256] := by rw [be256]; simp [h]

theorem be256_foldl (n : Nat) : (be256 n).foldl (fun acc d => acc * 256 + d) 0 = n := by
  induction n using be256.induct with
  | case1 => simp [be256_zero]
  | case2 x hx ih => rw [be256_pos hx, List.foldl_append, ih]; simp; omega

theorem be256_head {n : Nat} (h : n ≠ 0) : ∃ d ds, be256 n = d :: ds ∧ d ≠ 0 := by
  induction n using be256.induct with
  | case1 => exact absurd rfl h
  | case2 x hx ih =>
    rw [be256_pos hx]
    by_cases h0 : x / 256 = 0
    · rw [h0, be256_zero]
      exact ⟨x % 256, [], rfl, by omega⟩
    · obtain ⟨d, ds, e, hd⟩ := ih h0
      exact ⟨d, ds ++ [x % 256], by rw [e]; rfl, hd⟩

theorem parseLen_derLen (n : Nat) (rest : Bytes) : parseLen (derLen n ++ rest) = some (n, rest) := by
  unfold derLen
  by_cases h : n < 128
  · simp [h, parseLen]
  · have hn : n ≠ 0 := by omega
    obtain ⟨d, ds, e, hd⟩ := be256_head hn
    have hlen : (be256 n).length ≠ 0 := by rw [e]; simp
    rw [if_neg h]
    simp only [List.cons_append, parseLen]
    rw [if_neg (by omega)]
    simp only [Nat.add_sub_cancel_left]
    rw [if_neg (by simp [hlen])]
    simp only [List.take_left' rfl, List.drop_left' rfl, be256_foldl]
    rw [if_neg (by rw [e]; simp [hd]; omega)]

theorem parseTLV_tlv (tag : Nat) (c rest : Bytes) : parseTLV tag (tlv tag c ++ rest) = some (c, rest) := by
  unfold tlv
  simp only [List.cons_append, List.append_assoc, parseTLV]
  simp only [ne_eq, not_true_eq_false, if_false, parseLen_derLen]
  rw [if_neg (by simp)]
  simp

theorem parseTLV_tlv' (tag : Nat) (c : Bytes) : parseTLV tag (tlv tag c) = some (c, []) := by
  have := parseTLV_tlv tag c []
  simpa using this

/-! ## base-128 integers -/
theorem digits128_zero : digits128 0 = [] := by rw [digits128]; simp
theorem digits128_pos {n : Nat} (h : n ≠ 0) : digits128 n = digits128 (n / 128) ++ [n % 128] := by
  rw [digits128]; simp [h]

theorem digits128_lt (n : Nat) : ∀ d ∈ digits128 n, d < 128 := by
  induction n using digits128.induct with
  | case1 => simp [digits128_zero]
  | case2 x hx ih =>
    rw [digits128_pos hx]
    intro d hd
    simp only [List.mem_append, List.mem_singleton] at hd
    rcases hd with hd | rfl
    · exact ih d hd
    · omega

theorem digits128_foldl (n : Nat) : (digits128 n).foldl (fun acc d => acc * 128 + d) 0 = n := by
  induction n using digits128.induct with
  | case1 => simp [digits128_zero]
  | case2 x hx ih => rw [digits128_pos hx, List.foldl_append, ih]; simp; omega

theorem digits128_head (n : Nat) : (digits128 n).head? ≠ some 0 := by
  induction n using digits128.induct with
  | case1 => simp [digits128_zero]
  | case2 x hx ih =>
    rw [digits128_pos hx, List.head?_append]
    by_cases h0 : x / 128 = 0
    · rw [h0, digits128_zero]; simp; omega
    · cases hh : (digits128 (x / 128)).head? with
      | none =>
        rw [digits128_pos h0] at hh
        simp [List.head?_append] at hh
      | some d => rw [hh] at ih; simpa using ih

theorem base128_eq (n : Nat) : base128 n = (digits128 (n / 128)).map (· + 128) ++ [n % 128] := by
  unfold base128
  by_cases h : n = 0
  · subst h; simp [digits128_zero]
  · rw [if_neg h]
    simp only [digits128_pos h, List.dropLast_concat, List.getLastD_concat]

theorem foldl128_le (ds : List Nat) (acc : Nat) : acc ≤ ds.foldl (fun acc d => acc * 128 + d) acc := by
  induction ds generalizing acc with
  | nil => simp
  | cons d ds ih => simp only [List.foldl_cons]; have := ih (acc * 128 + d); omega

theorem go_digits (ds : List Nat) (d acc : Nat) (first : Bool) (rest : Bytes)
    (hds : ∀ x ∈ ds, x < 128) (hd : d < 128)
    (hfirst : first = true → ds.head? ≠ some 0)
    (hv : (ds ++ [d]).foldl (fun acc d => acc * 128 + d) acc < 2 ^ 31) :
    parseBase128s.go acc first (ds.map (· + 128) ++ [d] ++ rest)
      = some ((ds ++ [d]).foldl (fun acc d => acc * 128 + d) acc, rest) := by
  induction ds generalizing acc first with
  | nil =>
    simp only [List.nil_append, List.foldl_cons, List.foldl_nil] at hv
    simp only [List.map_nil, List.nil_append, List.cons_append, parseBase128s.go, List.foldl_cons, List.foldl_nil]
    rw [if_neg (by omega), if_pos hd, if_pos hv]
  | cons x xs ih =>
    have hx := hds x (by simp)
    simp only [List.cons_append, List.foldl_cons] at hv
    have hle := foldl128_le (xs ++ [d]) (acc * 128 + x)
    simp only [List.map_cons, List.cons_append, parseBase128s.go, List.foldl_cons]
    rw [if_neg (by
      intro ⟨hf, hb⟩
      have := hfirst hf
      simp at this
      omega), if_neg (by omega)]
    simp only [Nat.add_sub_cancel]
    rw [if_pos (by omega)]
    have := ih (acc * 128 + x) false (fun y hy => hds y (by simp [hy])) (by simp) hv
    simpa using this

theorem go_base128 (n : Nat) (hn : n < 2 ^ 31) (rest : Bytes) :
    parseBase128s.go 0 true (base128 n ++ rest) = some (n, rest) := by
  have hval : (digits128 (n / 128) ++ [n % 128]).foldl (fun acc d => acc * 128 + d) 0 = n := by
    rw [List.foldl_append, digits128_foldl]; simp; omega
  rw [base128_eq, go_digits _ _ _ _ _ (digits128_lt _) (by omega) (fun _ => digits128_head _) (by rw [hval]; exact hn), hval]

theorem base128_cons (n : Nat) : ∃ x xs, base128 n = x :: xs := by
  rw [base128_eq]
  cases digits128 (n / 128) with
  | nil => exact ⟨_, _, rfl⟩
  | cons y ys => exact ⟨_, _, rfl⟩

theorem parseBase128s_flatMap (arcs : List Nat) (h : ∀ a ∈ arcs, a < 2 ^ 31) (fuel : Nat) (hf : arcs.length < fuel) :
    parseBase128s fuel (arcs.flatMap base128) = some arcs := by
  induction arcs generalizing fuel with
  | nil =>
    cases fuel with
    | zero => simp at hf
    | succ f => simp [parseBase128s]
  | cons a as ih =>
    cases fuel with
    | zero => simp at hf
    | succ f =>
      have ih := ih (fun x hx => h x (by simp [hx])) f (by simpa using hf)
      obtain ⟨x, xs, e⟩ := base128_cons a
      have hgo := go_base128 a (h a (by simp)) (as.flatMap base128)
      simp only [List.flatMap_cons]
      rw [e] at hgo ⊢
      simp only [List.cons_append] at hgo ⊢
      simp only [parseBase128s, hgo, ih]

theorem flatMap_base128_length (arcs : List Nat) : arcs.length ≤ (arcs.flatMap base128).length := by
  induction arcs with
  | nil => simp
  | cons a as ih =>
    obtain ⟨x, xs, e⟩ := base128_cons a
    simp only [List.flatMap_cons, List.length_append, List.length_cons, e]
    omega

/-! ## keys -/
theorem validOID_marshalOK {alg : List Nat} (h : validOID alg = true) : marshalOK alg = true := by
  match alg, h with
  | a :: b :: rest, h =>
    simp only [validOID, Bool.and_eq_true] at h
    simp only [marshalOK, Bool.and_eq_true]
    exact h.1.1

theorem parse_oidContent {alg : List Nat} (h : validOID alg = true) :
    ∃ ints, parseBase128s ((oidContent alg).length + 1) (oidContent alg) = some ints ∧ oidOfInts ints = some alg := by
  match alg, h with
  | a :: b :: rest, h =>
    simp only [validOID, Bool.and_eq_true, decide_eq_true_eq, Bool.or_eq_true, List.all_eq_true] at h
    obtain ⟨⟨⟨ha, hab⟩, hv⟩, hrest⟩ := h
    refine ⟨(40 * a + b) :: rest, ?_, ?_⟩
    · have e : oidContent (a :: b :: rest) = ((40 * a + b) :: rest).flatMap base128 := by
        simp [oidContent]
      rw [e]
      apply parseBase128s_flatMap
      · intro x hx
        simp only [List.mem_cons] at hx
        rcases hx with rfl | hx
        · exact hv
        · exact hrest x hx
      · have := flatMap_base128_length ((40 * a + b) :: rest)
        omega
    · simp only [oidOfInts, Option.some.injEq]
      by_cases h80 : 40 * a + b < 80
      · rw [if_pos h80]
        have : a = (40 * a + b) / 40 ∧ b = (40 * a + b) % 40 := by omega
        simp only [List.cons_append, List.nil_append, List.cons.injEq, and_true]
        omega
      · rw [if_neg h80]
        simp only [List.cons_append, List.nil_append, List.cons.injEq, and_true]
        omega

theorem parse_marshal_key (k : Key) (h : validOID k.alg = true) (_hd : ∀ b ∈ k.data, b < 256) :
    parseKey (marshalKey k) = some k := by
  obtain ⟨ints, h1, h2⟩ := parse_oidContent h
  unfold marshalKey
  rw [if_pos (validOID_marshalOK h)]
  unfold parseKey
  simp only [parseTLV_tlv', parseTLV_tlv, h1, h2]

theorem equal_iff_encoding (a b : Key) (ha : validOID a.alg = true) (hb : validOID b.alg = true)
    (hda : ∀ x ∈ a.data, x < 256) (hdb : ∀ x ∈ b.data, x < 256) :
    equalKeys a b = true ↔ marshalKey a = marshalKey b := by
  constructor
  · intro h
    simp only [equalKeys, Bool.and_eq_true, beq_iff_eq] at h
    have : a = b := by
      cases a; cases b; simp only [Key.mk.injEq]; exact h
    rw [this]
  · intro h
    have h1 := parse_marshal_key a ha hda
    have h2 := parse_marshal_key b hb hdb
    rw [h, h2] at h1
    simp only [Option.some.injEq] at h1
    subst h1
    simp [equalKeys]

end P2PVerif.DER
