import P2PVerif.Model.KeWorld
import P2PVerif.Lemmas.Replay
/-! Per-session facts about the P2PKE model: case analysis of `readHandshake` / `deliver` / `send`,
    the monotone evolution order `SessLe`, and the per-session invariant `SInv`. -/
namespace P2PVerif.P2PKE
open P2PVerif

/-! ## case analysis -/

/-- a step that changes nothing but `wedged` and the replay filter (the latter only by recording nothing) -/
def Quiet (s s' : Sess) : Prop :=
  ∃ wd rp, s' = { s with wedged := wd, rp := rp } ∧ ∀ S, Replay.Inv s.rp S → Replay.Inv rp S

theorem Quiet.refl (s : Sess) : Quiet s s := ⟨s.wedged, s.rp, rfl, fun _ h => h⟩

theorem afterFailedRead_quiet (s : Sess) (w : Wire) : Quiet s (s.afterFailedRead w) := by
  have hw : Quiet s { s with wedged := true } := ⟨true, s.rp, rfl, fun _ h => h⟩
  unfold Sess.afterFailedRead
  split
  · split
    · exact hw
    · exact hw
    · exact Quiet.refl s
  · split
    · split
      · split
        · exact hw
        · exact Quiet.refl s
      · exact Quiet.refl s
    · exact Quiet.refl s

/-- the successful outcomes of `readHandshake` -/
inductive ReadCase (s : Sess) (w : Wire) : Sess → Prop
  | same : ReadCase s w s
  | resp01 (eI : Eph) (h : Hello) : s.isInit = false → s.hs = 0 → w = .initHello eI h → h.sig = .ts h.key h.t →
      ReadCase s w { s with hs := 1, hello := some h, rEph := some eI, rKey := some (h.key), helloTime := h.t,
                            rSig := some (.cb1 s.key eI h) }
  | init02 (eR : Eph) (rk : KeyId) (h : Hello) : s.isInit = true → s.hs = 0 → s.hello = some h →
      w = .respHello eR s.eph h rk (.cb1 rk s.eph h) →
      ReadCase s w { s with hs := 2, nonce := noncePostHandshake, rEph := some eR, rKey := some rk,
                            rSig := some (.cb1 rk s.eph h) }
  | resp13 (h : Hello) (e : Eph) (rk : KeyId) (own : CSig) : s.isInit = false → s.hs = 1 → s.hello = some h →
      s.rEph = some e → s.rKey = some rk → s.rSig = some own →
      w = .initDone e s.eph h (.cb2 rk e s.eph h s.key own) →
      ReadCase s w { s with hs := 3, nonce := noncePostHandshake }
  | init24 : s.isInit = true → s.hs = 2 → ReadCase s w { s with hs := 4, nonce := noncePostHandshake }

theorem readHandshake_case (s s' : Sess) (w : Wire) (h : s.readHandshake w = some s') : ReadCase s w s' := by
  unfold Sess.readHandshake at h
  simp only at h
  split at h
  · rename_i hc
    split at h
    · exact absurd h (by simp)
    · split at h
      · split at h
        · rename_i _ _ eI hh hsig
          cases h
          exact ReadCase.resp01 eI hh (by simpa using hc.1) hc.2.1 rfl hsig
        · exact absurd h (by simp)
      · exact absurd h (by simp)
  · split at h
    · rename_i hc
      split at h
      · exact absurd h (by simp)
      · split at h
        · rename_i _ _ _ eR toward seen rk rs hh hhello _
          split at h
          · rename_i hcond
            obtain ⟨h1, h2, h3⟩ := hcond
            subst h1 h2 h3
            cases h
            exact ReadCase.init02 eR rk seen hc.1 hc.2.1 hhello rfl
          · exact absurd h (by simp)
        · exact absurd h (by simp)
    · split at h
      · rename_i hc
        split at h
        · rename_i _ _ _ _ _ eI eR tr sg hh e rk own h1 h2 h3 h4 _ _
          split at h
          · rename_i hcond
            obtain ⟨c1, c2, c3, c4⟩ := hcond
            subst c1 c2 c3 c4
            cases h
            exact ReadCase.resp13 tr eI rk own (by simpa using hc.1) hc.2.1 h1 h2 h3 h4 rfl
          · exact absurd h (by simp)
        · exact absurd h (by simp)
      · split at h
        · rename_i hc
          split at h
          · split at h
            · cases h
              exact ReadCase.init24 hc.1 hc.2.1
            · exact absurd h (by simp)
          · exact absurd h (by simp)
        · split at h
          · split at h
            · split at h
              · cases h; exact ReadCase.same
              · exact absurd h (by simp)
            · exact absurd h (by simp)
          · split at h
            · cases h; exact ReadCase.same
            · exact absurd h (by simp)

/-- the outcomes of `Session.Deliver` -/
inductive DeliverCase (s : Sess) (w : Wire) : Sess × Res → Prop
  | quiet (s' : Sess) (r : Res) : Quiet s s' → (r = .err ∨ r = .drop) → DeliverCase s w (s', r)
  | hs (s' : Sess) : s.readHandshake w = some s' → DeliverCase s w (s', .hs s'.handshake)
  | app (ctr : Nat) (p : Bytes) (rp : Replay.Filter) : w = .data s.eI s.eR s.tr s.inDir ctr p →
      s.canReceive = true → Replay.validate s.rp ctr maxNonce = (rp, true) →
      DeliverCase s w ({ s with rp := rp, hs := 8 }, .app p)

theorem deliver_case (s : Sess) (w : Wire) (now : Nat) : DeliverCase s w (s.deliver w now) := by
  unfold Sess.deliver
  split
  · exact .quiet _ _ (Quiet.refl s) (Or.inl rfl)
  · split
    · exact .quiet _ _ (Quiet.refl s) (Or.inl rfl)
    · simp only
      split
      · split
        · rename_i s' hr
          exact .hs s' hr
        · exact .quiet _ _ (afterFailedRead_quiet s w) (Or.inl rfl)
      · split
        · exact .quiet _ _ (Quiet.refl s) (Or.inl rfl)
        · rename_i hcr
          split
          · split
            · rename_i _ eI eR tr dir ctr p _ _ hcond
              obtain ⟨c1, c2, c3, c4⟩ := hcond
              subst c1 c2 c3 c4
              cases hv : (Replay.validate s.rp ctr maxNonce).snd
              · simp only [Bool.false_eq_true, if_false]
                refine .quiet _ _ ⟨s.wedged, _, rfl, fun S hS => ?_⟩ (Or.inr rfl)
                have := (Replay.validate_spec s.rp S ctr maxNonce hS).1
                rw [hv] at this
                simpa using this
              · simp only [if_true]
                exact .app ctr p _ rfl (by simpa using hcr) (by rw [← hv])
            · exact .quiet _ _ (Quiet.refl s) (Or.inl rfl)
          · exact .quiet _ _ (Quiet.refl s) (Or.inl rfl)

/-- the outcomes of `Session.Send` -/
inductive SendCase (s : Sess) (p : Bytes) : Sess × Option Wire → Prop
  | none : SendCase s p (s, none)
  | some : s.canSend = true → s.nonce < maxNonce →
      SendCase s p ({ s with nonce := s.nonce + 1 }, some (.data s.eI s.eR s.tr s.outDir s.nonce p))

theorem maxNonce_lt : maxNonce < 2 ^ 32 := by decide

theorem send_case (s : Sess) (p : Bytes) (now : Nat) : SendCase s p (s.send p now) := by
  unfold Sess.send
  split
  · exact .none
  · split
    · exact .none
    · rename_i hcs
      split
      · exact .none
      · rename_i hn
        have hlt : s.nonce < maxNonce := by omega
        have : s.nonce % 2 ^ 32 = s.nonce := Nat.mod_eq_of_lt (by have := maxNonce_lt; omega)
        rw [this]
        exact .some (by simpa using hcs) hlt

theorem gates (s : Sess) (w : Wire) (now : Nat) (p : Bytes) :
    ((s.deliver w now).2 = .app p → s.canReceive = true) ∧
    (∀ out, (s.send p now).2 = some out → s.canSend = true) := by
  constructor
  · intro h
    have hc := deliver_case s w now
    generalize s.deliver w now = x at h hc
    cases hc with
    | quiet s' r _ hr => rcases hr with rfl | rfl <;> simp at h
    | hs s' _ => simp at h
    | app ctr p' rp _ hcr _ => exact hcr
  · intro out h
    have hc := send_case s p now
    generalize s.send p now = x at h hc
    cases hc with
    | none => simp at h
    | some hcs _ => exact hcs

/-! ## monotone evolution of a session -/

/-- `b` is a later state of the session `a`: identity fixed, `hs` grows, the handshake fields are set once,
    and once the session can send its nonce only grows -/
structure SessLe (a b : Sess) : Prop where
  isInit : a.isInit = b.isInit
  key : a.key = b.key
  eph : a.eph = b.eph
  hs : a.hs ≤ b.hs
  ihello : a.isInit = true → a.hello = b.hello
  fixed : 1 ≤ a.hs → a.hello = b.hello ∧ a.rEph = b.rEph ∧ a.rKey = b.rKey ∧ a.rSig = b.rSig
  nonce : a.canSend = true → a.nonce ≤ b.nonce

theorem SessLe.refl (a : Sess) : SessLe a a :=
  ⟨rfl, rfl, rfl, Nat.le_refl _, fun _ => rfl, fun _ => ⟨rfl, rfl, rfl, rfl⟩, fun _ => Nat.le_refl _⟩

theorem canSend_hs {s : Sess} (h : s.canSend = true) : 2 ≤ s.hs := by
  unfold Sess.canSend at h
  cases hi : s.isInit <;> simp [hi] at h <;> omega

theorem canReceive_hs {s : Sess} : s.canReceive = true ↔ 2 ≤ s.hs := by
  unfold Sess.canReceive; simp

theorem SessLe.canSend {a b : Sess} (h : SessLe a b) (hc : a.canSend = true) : b.canSend = true := by
  have := h.hs; have := h.isInit
  unfold Sess.canSend at hc ⊢
  cases hi : a.isInit <;> simp_all <;> omega

theorem SessLe.canReceive {a b : Sess} (h : SessLe a b) (hc : a.canReceive = true) : b.canReceive = true := by
  have := h.hs
  rw [canReceive_hs] at hc ⊢; omega

theorem SessLe.eI {a b : Sess} (h : SessLe a b) (h1 : 1 ≤ a.hs) : a.eI = b.eI := by
  unfold Sess.eI; rw [h.isInit, h.eph, (h.fixed h1).2.1]

theorem SessLe.eR {a b : Sess} (h : SessLe a b) (h1 : 1 ≤ a.hs) : a.eR = b.eR := by
  unfold Sess.eR; rw [h.isInit, h.eph, (h.fixed h1).2.1]

theorem SessLe.tr {a b : Sess} (h : SessLe a b) (h1 : 1 ≤ a.hs) : a.tr = b.tr := by
  unfold Sess.tr; rw [(h.fixed h1).1]

theorem SessLe.inDir {a b : Sess} (h : SessLe a b) : a.inDir = b.inDir := by
  unfold Sess.inDir; rw [h.isInit]

theorem SessLe.outDir {a b : Sess} (h : SessLe a b) : a.outDir = b.outDir := by
  unfold Sess.outDir; rw [h.isInit]

/-! ## per-session invariant -/

/-- what holds of honest session number `i` in every reachable world -/
structure SInv (i : Nat) (s : Sess) : Prop where
  eph : s.eph = 2 * i
  ihello : s.isInit = true → ∃ t, s.hello = some ⟨s.key, t, .ts s.key t⟩
  rhs : s.isInit = false → s.hs ≠ 2
  hsle : s.hs ≤ 8
  nonce16 : 2 ≤ s.hs → noncePostHandshake ≤ s.nonce
  r1 : s.isInit = false → 1 ≤ s.hs →
    ∃ h e, s.hello = some h ∧ s.rEph = some e ∧ s.rKey = some (h.key) ∧ s.rSig = some (.cb1 s.key e h)

theorem sinv_new (i : Nat) (isInit : Bool) (key now ra : Nat) : SInv i (Sess.new isInit key (2 * i) now ra) := by
  refine ⟨rfl, ?_, ?_, ?_, ?_, ?_⟩
  · intro h; simp only [Sess.new] at h ⊢; subst h; exact ⟨now, rfl⟩
  · intro _; simp [Sess.new]
  · simp [Sess.new]
  · simp [Sess.new]
  · simp [Sess.new]

theorem Quiet.le {s s' : Sess} (h : Quiet s s') : SessLe s s' := by
  obtain ⟨wd, rp, rfl, _⟩ := h
  exact ⟨rfl, rfl, rfl, Nat.le_refl _, fun _ => rfl, fun _ => ⟨rfl, rfl, rfl, rfl⟩, fun _ => Nat.le_refl _⟩

theorem Quiet.sinv {s s' : Sess} {i : Nat} (h : Quiet s s') (hi : SInv i s) : SInv i s' := by
  obtain ⟨wd, rp, rfl, _⟩ := h
  exact ⟨hi.eph, hi.ihello, hi.rhs, hi.hsle, hi.nonce16, hi.r1⟩

theorem ReadCase.le {s s' : Sess} {w : Wire} (h : ReadCase s w s') : SessLe s s' := by
  cases h with
  | same => exact SessLe.refl s
  | resp01 eI hh hr h0 _ _ =>
    refine ⟨rfl, rfl, rfl, by simp [h0], ?_, ?_, ?_⟩
    · intro h; simp [hr] at h
    · intro h; omega
    · intro h; have := canSend_hs h; omega
  | init02 eR rk hh hi h0 _ _ =>
    refine ⟨rfl, rfl, rfl, by simp [h0], fun _ => rfl, ?_, ?_⟩
    · intro h; omega
    · intro h; have := canSend_hs h; omega
  | resp13 hh e rk own hr h1 _ _ _ _ _ =>
    refine ⟨rfl, rfl, rfl, by simp [h1], fun _ => rfl, fun _ => ⟨rfl, rfl, rfl, rfl⟩, ?_⟩
    intro h; have := canSend_hs h; omega
  | init24 hi h2 =>
    refine ⟨rfl, rfl, rfl, by simp [h2], fun _ => rfl, fun _ => ⟨rfl, rfl, rfl, rfl⟩, ?_⟩
    intro h; unfold Sess.canSend at h; simp [hi, h2] at h

theorem ReadCase.sinv {s s' : Sess} {w : Wire} {i : Nat} (h : ReadCase s w s') (hi : SInv i s) : SInv i s' := by
  cases h with
  | same => exact hi
  | resp01 eI hh hr h0 _ _ =>
    refine ⟨hi.eph, ?_, ?_, ?_, ?_, ?_⟩
    · intro h; simp [hr] at h
    · intro _; simp
    · simp
    · intro h; simp at h
    · intro _ _; exact ⟨hh, eI, rfl, rfl, rfl, rfl⟩
  | init02 eR rk hh hini h0 _ _ =>
    refine ⟨hi.eph, hi.ihello, ?_, ?_, ?_, ?_⟩
    · intro h; simp [hini] at h
    · simp
    · intro _; exact Nat.le_refl _
    · intro h; simp [hini] at h
  | resp13 hh e rk own hr h1 _ _ _ _ _ =>
    refine ⟨hi.eph, hi.ihello, ?_, ?_, ?_, ?_⟩
    · intro _; simp
    · simp
    · intro _; exact Nat.le_refl _
    · intro h _; exact hi.r1 h (by omega)
  | init24 hini h2 =>
    refine ⟨hi.eph, hi.ihello, ?_, ?_, ?_, ?_⟩
    · intro h; simp [hini] at h
    · simp
    · intro _; exact Nat.le_refl _
    · intro h; simp [hini] at h

theorem app_le {s : Sess} {i : Nat} (hi : SInv i s) (rp : Replay.Filter) : SessLe s { s with rp := rp, hs := 8 } :=
  ⟨rfl, rfl, rfl, hi.hsle, fun _ => rfl, fun _ => ⟨rfl, rfl, rfl, rfl⟩, fun _ => Nat.le_refl _⟩

theorem app_sinv {s : Sess} {i : Nat} (hi : SInv i s) (hc : s.canReceive = true) (rp : Replay.Filter) :
    SInv i { s with rp := rp, hs := 8 } := by
  rw [canReceive_hs] at hc
  refine ⟨hi.eph, hi.ihello, fun _ => by simp, by simp, fun _ => hi.nonce16 hc, fun h _ => hi.r1 h (by omega)⟩

theorem send_le (s : Sess) : SessLe s { s with nonce := s.nonce + 1 } :=
  ⟨rfl, rfl, rfl, Nat.le_refl _, fun _ => rfl, fun _ => ⟨rfl, rfl, rfl, rfl⟩, fun _ => Nat.le_succ _⟩

theorem send_sinv {s : Sess} {i : Nat} (hi : SInv i s) : SInv i { s with nonce := s.nonce + 1 } :=
  ⟨hi.eph, hi.ihello, hi.rhs, hi.hsle, fun h => Nat.le_succ_of_le (hi.nonce16 h), hi.r1⟩

end P2PVerif.P2PKE
