import P2PVerif.Lemmas.ReasmFrag
import P2PVerif.Lemmas.ReasmMbapp
/-! C10: schedules against the two reassembly models (the lemmas behind `Props/C10.lean`). -/
namespace P2PVerif.Reasm
open P2PVerif

/-! ## fragswarm -/

theorem frag_delivers_only_originals (innerMTU cfgMTU : Nat) (msgs : List FMsg)
    (hg : ∀ m ∈ msgs, m.genuine innerMTU cfgMTU)
    (hk : msgs.Pairwise (fun a b => (a.src, a.id) ≠ (b.src, b.id)))
    (evs : List FEvent) :
    ∀ d ∈ (frun msgs evs [] []).2, ∃ m, msgs[d.1]? = some m ∧ d.2 = m.payload := by
  intro d hd
  obtain ⟨m, h1, h2, _⟩ := frun_inv innerMTU cfgMTU msgs hg hk evs _ _ (FInv.nil innerMTU msgs) d hd
  exact ⟨m, h1, h2⟩

theorem frag_incomplete_never_delivered (innerMTU cfgMTU : Nat) (msgs : List FMsg)
    (hg : ∀ m ∈ msgs, m.genuine innerMTU cfgMTU)
    (hk : msgs.Pairwise (fun a b => (a.src, a.id) ≠ (b.src, b.id)))
    (evs : List FEvent) (mi : Nat) (m : FMsg) (hm : msgs[mi]? = some m) (j : Nat) (hj : j < m.frags.length)
    (hmiss : FEvent.recv mi j ∉ evs) :
    ∀ d ∈ (frun msgs evs [] []).2, d.1 ≠ mi := by
  intro d hd hmi
  obtain ⟨m', h1, _, h3⟩ := frun_inv innerMTU cfgMTU msgs hg hk evs _ _ (FInv.nil innerMTU msgs) d hd
  rw [hmi, hm] at h1
  cases h1
  rcases h3 j hj with h | h
  · exact h
  · rw [hmi] at h; exact hmiss h

theorem frag_complete_delivers (innerMTU cfgMTU : Nat) (m : FMsg) (hg : m.genuine innerMTU cfgMTU)
    (order : List Nat) (hperm : order.Perm (List.range m.frags.length)) :
    (frun [m] (order.map (FEvent.recv 0)) [] []).2 = [(0, m.payload)] := by
  rcases frag_cases innerMTU cfgMTU m hg with ⟨pkt0, hfr, hparse⟩ | ⟨hlen, h2, _, hflat, hpk⟩
  · rw [hfr] at hperm
    have : order = [0] := by simpa using hperm
    subst this
    have hr : Frag.recv [] m.src pkt0 = ([], some m.payload) := by
      unfold Frag.recv; rw [hparse]; simp
    rw [List.map_cons, frun_cons_snd, fstep_recv0 m 0 pkt0 (by rw [hfr]; rfl), hr]
    simp [frun]
  · rw [hlen] at hperm
    apply fcomplete_aux m (fps innerMTU m) hlen h2 hflat hpk order [] []
    · intro h; subst h
      have := hperm.length_eq
      simp at this; omega
    · simpa using hperm
    · exact aggOK_mono (aggOK_fresh _ (fun _ => False)) (fun _ h => h.elim)
    · intro j hj; cases hj


/-! ## mbapp -/

theorem mbapp_delivers_only_originals (innerMTU cfgMTU : Nat) (msgs : List MMsg)
    (hg : ∀ m ∈ msgs, m.genuine innerMTU cfgMTU)
    (hk : msgs.Pairwise (fun a b => (a.src, a.hdr.originTime, a.hdr.counter) ≠ (b.src, b.hdr.originTime, b.hdr.counter)))
    (evs : List MEvent) :
    ∀ d ∈ (mrun cfgMTU msgs evs [] []).2, ∃ m, msgs[d.1]? = some m ∧ d.2.2 = m.payload ∧
      d.2.1.isAsk = m.hdr.isAsk ∧ d.2.1.isReply = m.hdr.isReply ∧ d.2.1.counter = m.hdr.counter := by
  intro d hd
  obtain ⟨m, h1, _⟩ := mrun_inv innerMTU cfgMTU msgs hg hk evs _ _ (MInv.nil innerMTU msgs) d hd
  exact ⟨m, h1⟩

theorem mbapp_incomplete_never_delivered (innerMTU cfgMTU : Nat) (msgs : List MMsg)
    (hg : ∀ m ∈ msgs, m.genuine innerMTU cfgMTU)
    (hk : msgs.Pairwise (fun a b => (a.src, a.hdr.originTime, a.hdr.counter) ≠ (b.src, b.hdr.originTime, b.hdr.counter)))
    (evs : List MEvent) (mi : Nat) (m : MMsg) (hm : msgs[mi]? = some m) (j : Nat) (hj : j < m.frags.length)
    (hmiss : MEvent.recv mi j ∉ evs) :
    ∀ d ∈ (mrun cfgMTU msgs evs [] []).2, d.1 ≠ mi := by
  intro d hd hmi
  obtain ⟨m', ⟨h1, _⟩, h3⟩ := mrun_inv innerMTU cfgMTU msgs hg hk evs _ _ (MInv.nil innerMTU msgs) d hd
  rw [hmi, hm] at h1
  cases h1
  rcases h3 j hj with h | h
  · exact h
  · rw [hmi] at h; exact hmiss h

theorem mbapp_complete_delivers (innerMTU cfgMTU : Nat) (m : MMsg) (hg : m.genuine innerMTU cfgMTU)
    (order : List Nat) (hperm : order.Perm (List.range m.frags.length)) :
    ((mrun cfgMTU [m] (order.map (MEvent.recv 0)) [] []).2).map (fun d => (d.1, d.2.2)) = [(0, m.payload)] := by
  obtain ⟨hcfg, hcases⟩ := mbapp_cases innerMTU cfgMTU m hg
  rcases hcases with ⟨pkt0, h, hfr, hdec, htot, hcnt, _, _, _⟩ | ⟨hn, hlen, h2, hpk⟩
  · rw [hfr] at hperm
    have : order = [0] := by simpa using hperm
    subst this
    have hr : Mbapp.recv cfgMTU [] m.src pkt0 = ([], some (h, m.payload)) := by
      unfold Mbapp.recv; rw [hdec]; simp only
      rw [if_neg (by omega), if_pos hcnt]
    rw [List.map_cons, mrun_cons_snd, mstep_recv0 cfgMTU m 0 pkt0 (by rw [hfr]; rfl), hr]
    simp [mrun]
  · rw [hlen] at hperm
    unfold mps at hlen h2 hpk hperm
    apply mcomplete_aux cfgMTU m (innerMTU - Mbapp.headerSize) hn hlen h2 hcfg hpk order [] []
    · intro h; subst h
      have := hperm.length_eq
      simp only [List.length_nil, List.length_range] at this
      omega
    · simpa using hperm
    · exact colOK_mono (colOK_new _ _ (fun _ => False)) (fun _ h => h.elim)
    · intro j hj; cases hj

end P2PVerif.Reasm
