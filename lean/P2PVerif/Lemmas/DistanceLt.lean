import P2PVerif.Model.Distance
/-! `DistanceCmp x` is the lexicographic comparison of the XOR distances, hence `DistanceLt x` is a strict
    weak order (irreflexive, transitive). Core Lean only. -/
namespace P2PVerif.Kad
open P2PVerif

theorem distanceCmp_eq_lexCmp (x a b : Bytes) : distanceCmp x a b = lexCmp (distance x a) (distance x b) := by
  induction x generalizing a b with
  | nil => simp [distanceCmp, distance, lexCmp]
  | cons xi xs ih =>
    cases a with
    | nil => cases b <;> simp [distanceCmp, distance, lexCmp]
    | cons ai as =>
      cases b with
      | nil => simp [distanceCmp, distance, lexCmp]
      | cons bi bs =>
        have := ih as bs
        simp only [distance] at this
        simp [distanceCmp, distance, lexCmp, this]

theorem lexCmp_self (a : Bytes) : lexCmp a a = .eq := by
  induction a with
  | nil => simp [lexCmp]
  | cons a as ih => simp [lexCmp, ih]

theorem lexCmp_lt_trans (a b c : Bytes) (h1 : lexCmp a b = .lt) (h2 : lexCmp b c = .lt) : lexCmp a c = .lt := by
  induction a generalizing b c with
  | nil =>
    cases b with
    | nil => simp [lexCmp] at h1
    | cons b bs => cases c with
      | nil => simp [lexCmp] at h2
      | cons c cs => simp [lexCmp]
  | cons a as ih =>
    cases b with
    | nil => simp [lexCmp] at h1
    | cons b bs =>
      cases c with
      | nil => simp [lexCmp] at h2
      | cons c cs =>
        simp only [lexCmp] at h1 h2 ⊢
        split at h1
        · split at h2
          · rw [if_pos (by omega)]
          · split at h2
            · cases h2
            · rw [if_pos (by omega)]
        · split at h1
          · cases h1
          · split at h2
            · rw [if_pos (by omega)]
            · split at h2
              · cases h2
              · rw [if_neg (by omega), if_neg (by omega)]
                exact ih _ _ h1 h2

theorem distanceLt_irrefl (x a : Bytes) : distanceLt x a a = false := by
  simp [distanceLt, distanceCmp_eq_lexCmp, lexCmp_self]

theorem distanceLt_trans (x a b c : Bytes) (h1 : distanceLt x a b = true) (h2 : distanceLt x b c = true) :
    distanceLt x a c = true := by
  simp only [distanceLt, distanceCmp_eq_lexCmp, beq_iff_eq] at *
  exact lexCmp_lt_trans _ _ _ h1 h2

end P2PVerif.Kad
