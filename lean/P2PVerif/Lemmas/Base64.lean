import P2PVerif.Model.Base64
import P2PVerif.Model.Distance
/-! Lemmas about the PeerID text encoding (`Model/Base64.lean`): round trip, strictness, order preservation.
    Everything known about the alphabet comes from the three `decide` facts below, re-checked whenever
    `Gen/Facts.lean` is regenerated. -/
namespace P2PVerif.B64
open P2PVerif

/-! ## facts about the generated alphabet -/
theorem alphabet_length : alphabet.length = 64 := by decide
theorem alphabet_sorted : alphabet.Pairwise (· < ·) := by decide
theorem index_char : ∀ s, s < 64 → indexOf? alphabet (charOf alphabet s) = some s := by decide
theorem peerIDSize_eq : Gen.Facts.peerIDSize = 32 := by decide

/-! ## sextets -/
theorem decode_encode (bs : Bytes) (hv : ∀ b ∈ bs, b < 256) : decodeSextets (encodeSextets bs) = some bs := by
  fun_induction encodeSextets bs with
  | case1 a b c rest ih =>
    have ha := hv a (by simp); have hb := hv b (by simp); have hc := hv c (by simp)
    have ih := ih (fun x hx => hv x (by simp [hx]))
    simp only [List.cons_append, List.nil_append, decodeSextets, ih]
    simp only [Option.some.injEq, List.cons.injEq, and_true]
    refine ⟨by omega, by omega, by omega⟩
  | case2 a b =>
    have ha := hv a (by simp); have hb := hv b (by simp)
    simp only [decodeSextets]
    rw [if_pos (by omega)]
    simp only [Option.some.injEq, List.cons.injEq, and_true]
    refine ⟨by omega, by omega⟩
  | case3 a =>
    have ha := hv a (by simp)
    simp only [decodeSextets]
    rw [if_pos (by omega)]
    simp only [Option.some.injEq, List.cons.injEq, and_true]
    omega
  | case4 => simp [decodeSextets]

theorem encode_lt (bs : Bytes) (hv : ∀ b ∈ bs, b < 256) : ∀ s ∈ encodeSextets bs, s < 64 := by
  fun_induction encodeSextets bs with
  | case1 a b c rest ih =>
    have ha := hv a (by simp); have hb := hv b (by simp); have hc := hv c (by simp)
    have ih := ih (fun x hx => hv x (by simp [hx]))
    intro s hs
    simp only [List.cons_append, List.nil_append, List.mem_cons] at hs
    rcases hs with rfl | rfl | rfl | rfl | hs
    · omega
    · omega
    · omega
    · omega
    · exact ih s hs
  | case2 a b =>
    have ha := hv a (by simp); have hb := hv b (by simp)
    intro s hs
    simp only [List.mem_cons, List.not_mem_nil, or_false] at hs
    rcases hs with rfl | rfl | rfl <;> omega
  | case3 a =>
    have ha := hv a (by simp)
    intro s hs
    simp only [List.mem_cons, List.not_mem_nil, or_false] at hs
    rcases hs with rfl | rfl <;> omega
  | case4 => simp

theorem encode_length (bs : Bytes) : (encodeSextets bs).length = (bs.length * 4 + 2) / 3 := by
  fun_induction encodeSextets bs with
  | case1 a b c rest ih => simp only [List.cons_append, List.nil_append, List.length_cons, ih]; omega
  | case2 a b => simp
  | case3 a => simp
  | case4 => simp

/-- strict decoding is injective: whatever decodes is the canonical encoding of valid bytes -/
theorem encode_decode (ss : List Nat) (bs : Bytes) (h : decodeSextets ss = some bs) (hs : ∀ s ∈ ss, s < 64) :
    encodeSextets bs = ss ∧ ∀ b ∈ bs, b < 256 := by
  fun_induction decodeSextets ss generalizing bs with
  | case1 s0 s1 s2 s3 rest r hr ih =>
    have h0 := hs s0 (by simp); have h1 := hs s1 (by simp); have h2 := hs s2 (by simp); have h3 := hs s3 (by simp)
    obtain ⟨ih1, ih2⟩ := ih r hr (fun x hx => hs x (by simp [hx]))
    simp only [Option.some.injEq] at h
    subst h
    simp only [List.cons_append, List.nil_append, encodeSextets, ih1, List.cons.injEq, and_true]
    refine ⟨⟨by omega, by omega, by omega, by omega⟩, ?_⟩
    intro b hb
    simp only [List.mem_cons] at hb
    rcases hb with rfl | rfl | rfl | hb
    · omega
    · omega
    · omega
    · exact ih2 b hb
  | case2 s0 s1 s2 s3 rest hr ih => simp at h
  | case3 s0 s1 s2 h4 =>
    have h0 := hs s0 (by simp); have h1 := hs s1 (by simp); have h2 := hs s2 (by simp)
    simp only [Option.some.injEq] at h
    subst h
    simp only [encodeSextets, List.cons.injEq, and_true]
    refine ⟨⟨by omega, by omega, by omega⟩, ?_⟩
    intro b hb
    simp only [List.mem_cons, List.not_mem_nil, or_false] at hb
    rcases hb with rfl | rfl <;> omega
  | case4 s0 s1 s2 h4 => simp at h
  | case5 s0 s1 h4 =>
    have h0 := hs s0 (by simp); have h1 := hs s1 (by simp)
    simp only [Option.some.injEq] at h
    subst h
    simp only [encodeSextets, List.cons.injEq, and_true]
    refine ⟨⟨by omega, by omega⟩, ?_⟩
    intro b hb
    simp only [List.mem_cons, List.not_mem_nil, or_false] at hb
    subst hb; omega
  | case6 s0 s1 h4 => simp at h
  | case7 s => simp at h
  | case8 =>
    simp only [Option.some.injEq] at h
    subst h; simp [encodeSextets]

/-! ## characters -/
theorem mapM_map_some {α β : Type} (f : α → β) (g : β → Option α) (l : List α) (h : ∀ x ∈ l, g (f x) = some x) :
    (l.map f).mapM g = some l := by
  induction l with
  | nil => simp
  | cons x xs ih =>
    have hx := h x (by simp)
    have ih := ih (fun y hy => h y (by simp [hy]))
    simp [List.mapM_cons, hx, ih]

theorem indexOf?_some {alpha : List Char} {c : Char} {i : Nat} (h : indexOf? alpha c = some i) :
    i < alpha.length ∧ charOf alpha i = c ∧ c ∈ alpha := by
  unfold indexOf? at h
  simp only at h
  split at h
  · rename_i hlt
    simp only [Option.some.injEq] at h
    subst h
    refine ⟨hlt, ?_, List.idxOf_lt_length_iff.1 hlt⟩
    simp [charOf, List.getD_eq_getElem?_getD, List.getElem?_eq_getElem hlt]
  · simp at h

theorem mapM_indexOf?_some {alpha : List Char} (t : List Char) (ss : List Nat) (h : t.mapM (indexOf? alpha) = some ss) :
    ss.map (charOf alpha) = t ∧ (∀ s ∈ ss, s < alpha.length) ∧ (∀ c ∈ t, c ∈ alpha) ∧ ss.length = t.length := by
  induction t generalizing ss with
  | nil => simp at h; subst h; simp
  | cons c cs ih =>
    simp only [List.mapM_cons] at h
    cases hc : indexOf? alpha c with
    | none => simp [hc] at h
    | some i =>
      cases hcs : cs.mapM (indexOf? alpha) with
      | none => simp [hc, hcs] at h
      | some is =>
        simp [hc, hcs] at h
        subst h
        obtain ⟨h1, h2, h3⟩ := indexOf?_some hc
        obtain ⟨i1, i2, i3, i4⟩ := ih is hcs
        refine ⟨by simp [h2, i1], ?_, ?_, by simp [i4]⟩
        · intro s hs; simp only [List.mem_cons] at hs; rcases hs with rfl | hs; exact h1; exact i2 s hs
        · intro s hs; simp only [List.mem_cons] at hs; rcases hs with rfl | hs; exact h3; exact i3 s hs

theorem peerid_roundtrip (id : Bytes) (hl : id.length = 32) (hv : ∀ b ∈ id, b < 256) :
    unmarshalText alphabet (marshalText alphabet id) = some id := by
  have hlen : (marshalText alphabet id).length = 43 := by
    simp [marshalText, encode_length, hl]
  have hm : (marshalText alphabet id).mapM (indexOf? alphabet) = some (encodeSextets id) :=
    mapM_map_some _ _ _ (fun s hs => index_char s (encode_lt id hv s hs))
  unfold unmarshalText
  rw [if_neg (by simp [hlen])]
  simp only [hm, decode_encode id hv, hl, peerIDSize_eq, if_true]

theorem peerid_rejects_invalid (t : List Char) (id : Bytes) (h : unmarshalText alphabet t = some id) :
    t.length = 43 ∧ (∀ c ∈ t, c ∈ alphabet) ∧ id.length = 32 ∧ (∀ b ∈ id, b < 256) ∧ marshalText alphabet id = t := by
  unfold unmarshalText at h
  split at h
  · simp at h
  · rename_i hlen
    split at h
    · simp at h
    · rename_i ss hss
      split at h
      · rename_i bs hbs
        split at h
        · rename_i hl
          simp only [Option.some.injEq] at h
          subst h
          obtain ⟨m1, m2, m3, m4⟩ := mapM_indexOf?_some t ss hss
          obtain ⟨e1, e2⟩ := encode_decode ss bs hbs (fun s hs => alphabet_length ▸ m2 s hs)
          refine ⟨by simpa using hlen, m3, by rw [hl, peerIDSize_eq], e2, ?_⟩
          simp [marshalText, e1, m1]
        · simp at h
      · simp at h

/-! ## order -/
theorem lexCmp_cons (x y : Nat) (xs ys : List Nat) :
    Kad.lexCmp (x :: xs) (y :: ys) = if x < y then .lt else if y < x then .gt else Kad.lexCmp xs ys := rfl
theorem lexCmp_nil : Kad.lexCmp [] [] = .eq := rfl
theorem enc3 (a b c : Nat) (rest : Bytes) : encodeSextets (a :: b :: c :: rest) =
  (a / 4) :: ((a % 4) * 16 + b / 16) :: ((b % 16) * 4 + c / 64) :: (c % 64) :: encodeSextets rest := rfl
theorem enc2 (a b : Nat) : encodeSextets [a, b] = [a / 4, (a % 4) * 16 + b / 16, (b % 16) * 4] := rfl
theorem enc1 (a : Nat) : encodeSextets [a] = [a / 4, (a % 4) * 16] := rfl

theorem lexCmp_group3 (a0 a1 a2 b0 b1 b2 : Nat) (r r' : Bytes) (o : Ordering)
    (ha1 : a1 < 256) (ha2 : a2 < 256) (hb1 : b1 < 256) (hb2 : b2 < 256)
    (ih : Kad.lexCmp (encodeSextets r) (encodeSextets r') = o) :
    Kad.lexCmp (encodeSextets (a0 :: a1 :: a2 :: r)) (encodeSextets (b0 :: b1 :: b2 :: r')) =
      if a0 < b0 then .lt else if b0 < a0 then .gt else if a1 < b1 then .lt else if b1 < a1 then .gt else
      if a2 < b2 then .lt else if b2 < a2 then .gt else o := by
  rw [enc3, enc3]
  simp only [lexCmp_cons, ih]
  repeat' split
  all_goals first | rfl | omega

theorem lexCmp_group2 (a0 a1 b0 b1 : Nat) (ha1 : a1 < 256) (hb1 : b1 < 256) :
    Kad.lexCmp (encodeSextets [a0, a1]) (encodeSextets [b0, b1]) = Kad.lexCmp [a0, a1] [b0, b1] := by
  rw [enc2, enc2]
  simp only [lexCmp_cons, lexCmp_nil]
  repeat' split
  all_goals first | rfl | omega

theorem lexCmp_group1 (a0 b0 : Nat) :
    Kad.lexCmp (encodeSextets [a0]) (encodeSextets [b0]) = Kad.lexCmp [a0] [b0] := by
  rw [enc1, enc1]
  simp only [lexCmp_cons, lexCmp_nil]
  repeat' split
  all_goals first | rfl | omega

theorem lexCmp_encode (a b : Bytes) (hl : a.length = b.length) (hva : ∀ x ∈ a, x < 256) (hvb : ∀ x ∈ b, x < 256) :
    Kad.lexCmp (encodeSextets a) (encodeSextets b) = Kad.lexCmp a b := by
  fun_induction encodeSextets a generalizing b with
  | case1 a0 a1 a2 rest ih =>
    match b, hl with
    | b0 :: b1 :: b2 :: rest', hl =>
      have ih := ih rest' (by simpa using hl) (fun x hx => hva x (by simp [hx])) (fun x hx => hvb x (by simp [hx]))
      change Kad.lexCmp (encodeSextets (a0 :: a1 :: a2 :: rest)) _ = _
      rw [lexCmp_group3 _ _ _ _ _ _ _ _ _ (hva a1 (by simp)) (hva a2 (by simp))
        (hvb b1 (by simp)) (hvb b2 (by simp)) ih]
      simp only [lexCmp_cons]
  | case2 a0 a1 =>
    match b, hl with
    | [b0, b1], hl =>
      change Kad.lexCmp (encodeSextets [a0, a1]) _ = _
      exact lexCmp_group2 _ _ _ _ (hva a1 (by simp)) (hvb b1 (by simp))
  | case3 a0 =>
    match b, hl with
    | [b0], hl =>
      change Kad.lexCmp (encodeSextets [a0]) _ = _
      exact lexCmp_group1 _ _
  | case4 =>
    match b, hl with
    | [], _ => rfl

theorem charOf_lt {s s' : Nat} (h : s < s') (h' : s' < 64) : charOf alphabet s < charOf alphabet s' := by
  have hs' : s' < alphabet.length := by rw [alphabet_length]; exact h'
  have hs : s < alphabet.length := by omega
  have := List.pairwise_iff_getElem.1 alphabet_sorted s s' hs hs' h
  simpa [charOf, List.getD_eq_getElem?_getD, List.getElem?_eq_getElem hs, List.getElem?_eq_getElem hs'] using this

theorem cmpChars_map (xs ys : List Nat) (hx : ∀ s ∈ xs, s < 64) (hy : ∀ s ∈ ys, s < 64) :
    cmpChars (xs.map (charOf alphabet)) (ys.map (charOf alphabet)) = Kad.lexCmp xs ys := by
  induction xs generalizing ys with
  | nil => cases ys <;> rfl
  | cons x xs ih =>
    cases ys with
    | nil => rfl
    | cons y ys =>
      have hx0 := hx x (by simp); have hy0 := hy y (by simp)
      have ih := ih ys (fun s hs => hx s (by simp [hs])) (fun s hs => hy s (by simp [hs]))
      simp only [List.map_cons, cmpChars, lexCmp_cons, ih]
      rcases Nat.lt_trichotomy x y with h | h | h
      · have := charOf_lt h hy0
        simp [h, this]
      · subst h
        simp [Char.lt_irrefl]
      · have := charOf_lt h hx0
        have h2 : ¬ x < y := by omega
        have h3 : ¬ charOf alphabet x < charOf alphabet y := fun h4 => Char.lt_irrefl _ (Char.lt_trans h4 this)
        simp [h, this, h2, h3]

theorem peerid_order (a b : Bytes) (hla : a.length = 32) (hlb : b.length = 32)
    (hva : ∀ x ∈ a, x < 256) (hvb : ∀ x ∈ b, x < 256) :
    cmpChars (marshalText alphabet a) (marshalText alphabet b) = Kad.lexCmp a b := by
  unfold marshalText
  rw [cmpChars_map _ _ (encode_lt a hva) (encode_lt b hvb), lexCmp_encode a b (by omega) hva hvb]

end P2PVerif.B64
