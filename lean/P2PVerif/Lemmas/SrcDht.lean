import P2PVerif.Lemmas.SrcIter
/-! The regenerated `DHTGet` (p/kademlia/dht.go): what it returns is what a contacted node answered and the caller's
    validator accepted. Proved with the invariant rule for the regenerated `dhtIterate`. -/
namespace P2PVerif.Src
open P2PVerif P2PVerif.Go P2PVerif.SrcKad

/-- the invariant rule for callbacks given as total monadic functions -/
theorem dhtIterate_inv_total {σ : Type} (key : Go.Bytes) (n : Int)
    (fn : σ → kademlia.NodeInfoT → Go.M (σ × List kademlia.NodeInfoT × Bool))
    (htot : ∀ s x, ∃ r, fn s x = .ok r)
    (P : kademlia.NodeInfoT → Prop) (R : List Go.Bytes → σ → Prop)
    (hstep : ∀ seen st node r, fn st node = .ok r → R seen st → P node → node.ID ∉ seen →
      R (node.ID :: seen) r.1 ∧ ∀ x ∈ r.2.1, P x)
    (nodes : List kademlia.NodeInfoT) (hP : ∀ x ∈ nodes, P x) (st0 : σ) (h0 : R [] st0) :
    kademlia.dhtIterate nodes key n fn st0 = .error .fuel ∨
    (nodes ≠ [] ∧ n < 1 ∧ kademlia.dhtIterate nodes key n fn st0 = .error (.panic "panic")) ∨
    ∃ st, kademlia.dhtIterate nodes key n fn st0 = .ok st ∧ ∃ seen, R seen st := by
  let g : σ → kademlia.NodeInfoT → σ × List kademlia.NodeInfoT × Bool := fun s x => (htot s x).choose
  have hg : fn = fun s x => pure (g s x) := by
    funext s x
    exact (htot s x).choose_spec
  rw [hg]
  refine dhtIterate_inv key n g P R ?_ nodes hP st0 h0
  intro seen st node hR hPn hnot
  exact hstep seen st node (g st node) (by rw [hg]; rfl) hR hPn hnot

/-- the same rule, from a run that ended normally -/
theorem dhtIterate_ok_inv {σ : Type} {key : Go.Bytes} {n : Int}
    {fn : σ → kademlia.NodeInfoT → Go.M (σ × List kademlia.NodeInfoT × Bool)}
    {nodes : List kademlia.NodeInfoT} {st0 st : σ}
    (h : kademlia.dhtIterate nodes key n fn st0 = .ok st)
    (htot : ∀ s x, ∃ r, fn s x = .ok r)
    (P : kademlia.NodeInfoT → Prop) (R : List Go.Bytes → σ → Prop)
    (hstep : ∀ seen st node r, fn st node = .ok r → R seen st → P node → node.ID ∉ seen →
      R (node.ID :: seen) r.1 ∧ ∀ x ∈ r.2.1, P x)
    (hP : ∀ x ∈ nodes, P x) (h0 : R [] st0) : ∃ seen, R seen st := by
  rcases dhtIterate_inv_total key n fn htot P R hstep nodes hP st0 h0 with hf | hp | ⟨st', hst', hs⟩
  · rw [h] at hf; cases hf
  · rw [h] at hp; cases hp.2.2
  · rw [h] at hst'; cases hst'; exact hs

theorem bind_ok_inv {α β : Type} {x : Go.M α} {k : α → Go.M β} {b : β} (h : (x >>= k) = .ok b) :
    ∃ a, x = .ok a ∧ k a = .ok b := by
  cases x with
  | error e => cases h
  | ok a => exact ⟨a, rfl, h⟩

def zero32 : Go.Bytes := List.replicate 32 (0 : UInt8)

/-- the validator `DHTGet` uses: the caller's, or accept-all when the caller passed none -/
def getValidate (params : kademlia.DHTGetParamsT) : Go.Bytes → Go.M Bool :=
  params.Validate.getD (fun _ => pure true)

/-- what `DHTGet` guarantees about the value it reports -/
def GetGood (params : kademlia.DHTGetParamsT) (res : kademlia.DHTGetResultT) : Prop :=
  (res.Value = [] ∧ res.From = zero32) ∨
  ∃ node resp, node.ID = res.From ∧ params.Ask node { Key := params.Key } = .ok (resp, none) ∧
    resp.Value = some res.Value ∧ getValidate params res.Value = .ok true

/-- with no validator the translation installs the accept-all one: same run -/
theorem DHTGet_default_validator (params : kademlia.DHTGetParamsT) (h : params.Validate = none) :
    kademlia.DHTGet params = kademlia.DHTGet { params with Validate := some (fun _ => pure true) } := by
  unfold kademlia.DHTGet
  simp [h]

theorem ite_ok {α : Type} (c : Prop) [Decidable c] (a b : α) :
    (if c then (Except.ok a : Go.M α) else Except.ok b) = Except.ok (if c then a else b) := by
  split <;> rfl

/-- the rule for an invariant of the callback's state alone -/
theorem dhtIterate_ok_inv' {σ : Type} {key : Go.Bytes} {n : Int}
    {fn : σ → kademlia.NodeInfoT → Go.M (σ × List kademlia.NodeInfoT × Bool)}
    {nodes : List kademlia.NodeInfoT} {st0 st : σ}
    (h : kademlia.dhtIterate nodes key n fn st0 = .ok st) (R : σ → Prop)
    (hspec : ∀ s x, ∃ r, fn s x = .ok r ∧ (R s → R r.1)) (h0 : R st0) : R st := by
  obtain ⟨_, hR⟩ := dhtIterate_ok_inv h (fun s x => ⟨_, (hspec s x).choose_spec.1⟩) (fun _ => True) (fun _ s => R s)
    (by
      intro seen st node r hr hRs _ _
      obtain ⟨r', hr', himp⟩ := hspec st node
      rw [hr] at hr'
      cases hr'
      exact ⟨himp hRs, fun _ _ => trivial⟩)
    (fun _ _ => trivial) h0
  exact hR

set_option maxHeartbeats 1000000 in
theorem DHTGet_good_some (params : kademlia.DHTGetParamsT) (v : Go.Bytes → Go.M Bool) (hv : params.Validate = some v)
    (hAsk : ∀ n r, ∃ a, params.Ask n r = .ok a) (hVal : ∀ x, ∃ b, v x = .ok b)
    (res : kademlia.DHTGetResultT) (err : Go.Err) (h : kademlia.DHTGet params = .ok (res, err)) :
    GetGood params res ∧ (err.isSome ↔ res.From = zero32) := by
  unfold kademlia.DHTGet at h
  simp only [hv, Option.isNone_some, Bool.false_eq_true, if_false] at h
  obtain ⟨st, hit, hrest⟩ := bind_ok_inv h
  have hgood : GetGood params st := by
    refine dhtIterate_ok_inv' hit (GetGood params) ?_ (.inl ⟨rfl, rfl⟩)
    intro s x
    obtain ⟨⟨resp, e⟩, ha⟩ := hAsk x { Key := params.Key }
    obtain ⟨b, hb⟩ := hVal (resp.Value.getD [])
    simp only [p2p.PeerID.IsZero, pure_eq, bind_ok, DistanceLt_eq, Option.getD_some, ite_ok, ha, hb]
    refine ⟨_, rfl, ?_⟩
    intro hG
    -- the state's Value/From either stay, or become this node's accepted answer
    have hcase : ∀ r : kademlia.DHTGetResultT,
        ((r.Value = s.Value ∧ r.From = s.From) ∨
         (((if resp.Value.isSome = true then b else false) = true) ∧ ¬ (e.isSome = true) ∧
           r.Value = resp.Value.getD [] ∧ r.From = x.ID)) → GetGood params r := by
      intro r hr
      rcases hr with ⟨h1, h2⟩ | ⟨hacc, he, hrv, hrf⟩
      · rcases hG with ⟨g1, g2⟩ | ⟨node, rs, g1, g2, g3, g4⟩
        · exact .inl ⟨h1.trans g1, h2.trans g2⟩
        · exact .inr ⟨node, rs, g1.trans h2.symm, g2, h1 ▸ g3, h1 ▸ g4⟩
      · right
        have hsome : resp.Value.isSome = true := by
          by_cases hs : resp.Value.isSome = true
          · exact hs
          · simp [hs] at hacc
        have hbt : b = true := by simpa [hsome] using hacc
        refine ⟨x, resp, hrf.symm, ?_, ?_, ?_⟩
        · rw [ha]
          cases e with
          | none => rfl
          | some _ => exact absurd rfl he
        · rw [hrv]
          cases hval : resp.Value with
          | none => simp [hval] at hsome
          | some w => simp
        · rw [hrv]; unfold getValidate; rw [hv]; simp only [Option.getD_some]; rw [hb, hbt]
    apply hcase
    repeat' split
    all_goals first
      | exact .inl ⟨rfl, rfl⟩
      | (refine .inr ⟨?_, ?_, rfl, rfl⟩ <;> assumption)
  simp only [p2p.PeerID.IsZero, pure_eq, bind_ok] at hrest
  by_cases hz : st.From = List.replicate 32 (0 : UInt8)
  · simp only [hz, decide_true, if_true] at hrest
    cases hrest
    exact ⟨hgood, ⟨fun _ => hz, fun _ => rfl⟩⟩
  · simp only [hz, decide_false, Bool.false_eq_true, if_false] at hrest
    cases hrest
    exact ⟨hgood, ⟨fun h => (by cases h), fun h => absurd h hz⟩⟩

/-- ⊢ what the regenerated `DHTGet` reports: for every network (`Ask` is any total function of the contacted node and
    the request), every validator (total; none = accept all), every key and initial peers: the reported value is
    absent (with `From` the zero id), or it is the value a node with id `From` answered — without an error — and the
    validator accepted exactly that value; an error is reported iff `From` is the zero id. -/
theorem DHTGet_good (params : kademlia.DHTGetParamsT)
    (hAsk : ∀ n r, ∃ a, params.Ask n r = .ok a) (hVal : ∀ x, ∃ b, getValidate params x = .ok b)
    (res : kademlia.DHTGetResultT) (err : Go.Err) (h : kademlia.DHTGet params = .ok (res, err)) :
    GetGood params res ∧ (err.isSome ↔ res.From = zero32) := by
  cases hv : params.Validate with
  | some v =>
    refine DHTGet_good_some params v hv hAsk ?_ res err h
    intro x
    have := hVal x
    unfold getValidate at this
    rwa [hv] at this
  | none =>
    rw [DHTGet_default_validator params hv] at h
    have := DHTGet_good_some { params with Validate := some (fun _ => pure true) } (fun _ => pure true) rfl hAsk
      (fun _ => ⟨true, rfl⟩) res err h
    refine ⟨?_, this.2⟩
    rcases this.1 with g | ⟨node, rs, g1, g2, g3, g4⟩
    · exact .inl g
    · refine .inr ⟨node, rs, g1, g2, g3, ?_⟩
      unfold getValidate
      rw [hv]
      rfl

end P2PVerif.Src
