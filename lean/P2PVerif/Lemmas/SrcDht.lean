import P2PVerif.Lemmas.SrcIter
import P2PVerif.Lemmas.DistanceLt
/-! The regenerated `DHTGet` (p/kademlia/dht.go): what it returns is what a contacted node answered and the caller's
    validator accepted. Proved with the invariant rule for the regenerated `dhtIterate`. -/
namespace P2PVerif.Src
open P2PVerif P2PVerif.Go P2PVerif.SrcKad

/-- the invariant rule for callbacks given as total monadic functions -/
theorem dhtIterate_inv_total {σ : Type} (key : Go.Bytes) (n : Int)
    (fn : σ → kademlia.NodeInfoT → Go.M (σ × List kademlia.NodeInfoT × Bool))
    (htot : ∀ s x, ∃ r, fn s x = .ok r)
    (P : kademlia.NodeInfoT → Prop) (R : List Go.Bytes → σ → Prop)
    (hstep : ∀ seen st node r, fn st node = .ok r → R seen st → P node → node.ID ∉ seen →
      R (node.ID :: seen) r.1 ∧ ∀ x ∈ r.2.1, P x)
    (nodes : List kademlia.NodeInfoT) (hP : ∀ x ∈ nodes, P x) (st0 : σ) (h0 : R [] st0) :
    kademlia.dhtIterate nodes key n fn st0 = .error .fuel ∨
    (nodes ≠ [] ∧ n < 1 ∧ kademlia.dhtIterate nodes key n fn st0 = .error (.panic "panic")) ∨
    ∃ st, kademlia.dhtIterate nodes key n fn st0 = .ok st ∧ ∃ seen, R seen st := by
  let g : σ → kademlia.NodeInfoT → σ × List kademlia.NodeInfoT × Bool := fun s x => (htot s x).choose
  have hg : fn = fun s x => pure (g s x) := by
    funext s x
    exact (htot s x).choose_spec
  rw [hg]
  refine dhtIterate_inv key n g P R ?_ nodes hP st0 h0
  intro seen st node hR hPn hnot
  have := hstep seen st node (g st node) (by rw [hg]; rfl) hR hPn hnot
  exact ⟨this.1, fun x hx _ => this.2 x hx⟩

/-- the same rule, from a run that ended normally -/
theorem dhtIterate_ok_inv {σ : Type} {key : Go.Bytes} {n : Int}
    {fn : σ → kademlia.NodeInfoT → Go.M (σ × List kademlia.NodeInfoT × Bool)}
    {nodes : List kademlia.NodeInfoT} {st0 st : σ}
    (h : kademlia.dhtIterate nodes key n fn st0 = .ok st)
    (htot : ∀ s x, ∃ r, fn s x = .ok r)
    (P : kademlia.NodeInfoT → Prop) (R : List Go.Bytes → σ → Prop)
    (hstep : ∀ seen st node r, fn st node = .ok r → R seen st → P node → node.ID ∉ seen →
      R (node.ID :: seen) r.1 ∧ ∀ x ∈ r.2.1, P x)
    (hP : ∀ x ∈ nodes, P x) (h0 : R [] st0) : ∃ seen, R seen st := by
  rcases dhtIterate_inv_total key n fn htot P R hstep nodes hP st0 h0 with hf | hp | ⟨st', hst', hs⟩
  · rw [h] at hf; cases hf
  · rw [h] at hp; cases hp.2.2
  · rw [h] at hst'; cases hst'; exact hs

theorem bind_ok_inv {α β : Type} {x : Go.M α} {k : α → Go.M β} {b : β} (h : (x >>= k) = .ok b) :
    ∃ a, x = .ok a ∧ k a = .ok b := by
  cases x with
  | error e => cases h
  | ok a => exact ⟨a, rfl, h⟩

def zero32 : Go.Bytes := List.replicate 32 (0 : UInt8)

/-- the validator `DHTGet` uses: the caller's, or accept-all when the caller passed none -/
def getValidate (params : kademlia.DHTGetParamsT) : Go.Bytes → Go.M Bool :=
  params.Validate.getD (fun _ => pure true)

/-- what `DHTGet` guarantees about the value it reports -/
def GetGood (params : kademlia.DHTGetParamsT) (res : kademlia.DHTGetResultT) : Prop :=
  (res.Value = [] ∧ res.From = zero32) ∨
  ∃ node resp, node.ID = res.From ∧ params.Ask node { Key := params.Key } = .ok (resp, none) ∧
    resp.Value = some res.Value ∧ getValidate params res.Value = .ok true

/-- with no validator the translation installs the accept-all one: same run -/
theorem DHTGet_default_validator (params : kademlia.DHTGetParamsT) (h : params.Validate = none) :
    kademlia.DHTGet params = kademlia.DHTGet { params with Validate := some (fun _ => pure true) } := by
  unfold kademlia.DHTGet
  simp [h]

theorem ite_ok {α : Type} (c : Prop) [Decidable c] (a b : α) :
    (if c then (Except.ok a : Go.M α) else Except.ok b) = Except.ok (if c then a else b) := by
  split <;> rfl

/-- the rule for an invariant of the callback's state alone -/
theorem dhtIterate_ok_inv' {σ : Type} {key : Go.Bytes} {n : Int}
    {fn : σ → kademlia.NodeInfoT → Go.M (σ × List kademlia.NodeInfoT × Bool)}
    {nodes : List kademlia.NodeInfoT} {st0 st : σ}
    (h : kademlia.dhtIterate nodes key n fn st0 = .ok st) (R : σ → Prop)
    (hspec : ∀ s x, ∃ r, fn s x = .ok r ∧ (R s → R r.1)) (h0 : R st0) : R st := by
  obtain ⟨_, hR⟩ := dhtIterate_ok_inv h (fun s x => ⟨_, (hspec s x).choose_spec.1⟩) (fun _ => True) (fun _ s => R s)
    (by
      intro seen st node r hr hRs _ _
      obtain ⟨r', hr', himp⟩ := hspec st node
      rw [hr] at hr'
      cases hr'
      exact ⟨himp hRs, fun _ _ => trivial⟩)
    (fun _ _ => trivial) h0
  exact hR

set_option maxHeartbeats 1000000 in
theorem DHTGet_good_some (params : kademlia.DHTGetParamsT) (v : Go.Bytes → Go.M Bool) (hv : params.Validate = some v)
    (hAsk : ∀ n r, ∃ a, params.Ask n r = .ok a) (hVal : ∀ x, ∃ b, v x = .ok b)
    (res : kademlia.DHTGetResultT) (err : Go.Err) (h : kademlia.DHTGet params = .ok (res, err)) :
    GetGood params res ∧ (err.isSome ↔ res.From = zero32) := by
  unfold kademlia.DHTGet at h
  simp only [hv, Option.isNone_some, Bool.false_eq_true, if_false] at h
  obtain ⟨st, hit, hrest⟩ := bind_ok_inv h
  have hgood : GetGood params st := by
    refine dhtIterate_ok_inv' hit (GetGood params) ?_ (.inl ⟨rfl, rfl⟩)
    intro s x
    obtain ⟨⟨resp, e⟩, ha⟩ := hAsk x { Key := params.Key }
    obtain ⟨b, hb⟩ := hVal (resp.Value.getD [])
    simp only [p2p.PeerID.IsZero, pure_eq, bind_ok, DistanceLt_eq, Option.getD_some, ite_ok, ha, hb]
    refine ⟨_, rfl, ?_⟩
    intro hG
    -- the state's Value/From either stay, or become this node's accepted answer
    have hcase : ∀ r : kademlia.DHTGetResultT,
        ((r.Value = s.Value ∧ r.From = s.From) ∨
         (((if resp.Value.isSome = true then b else false) = true) ∧ ¬ (e.isSome = true) ∧
           r.Value = resp.Value.getD [] ∧ r.From = x.ID)) → GetGood params r := by
      intro r hr
      rcases hr with ⟨h1, h2⟩ | ⟨hacc, he, hrv, hrf⟩
      · rcases hG with ⟨g1, g2⟩ | ⟨node, rs, g1, g2, g3, g4⟩
        · exact .inl ⟨h1.trans g1, h2.trans g2⟩
        · exact .inr ⟨node, rs, g1.trans h2.symm, g2, h1 ▸ g3, h1 ▸ g4⟩
      · right
        have hsome : resp.Value.isSome = true := by
          by_cases hs : resp.Value.isSome = true
          · exact hs
          · simp [hs] at hacc
        have hbt : b = true := by simpa [hsome] using hacc
        refine ⟨x, resp, hrf.symm, ?_, ?_, ?_⟩
        · rw [ha]
          cases e with
          | none => rfl
          | some _ => exact absurd rfl he
        · rw [hrv]
          cases hval : resp.Value with
          | none => simp [hval] at hsome
          | some w => simp
        · rw [hrv]; unfold getValidate; rw [hv]; simp only [Option.getD_some]; rw [hb, hbt]
    apply hcase
    repeat' split
    all_goals first
      | exact .inl ⟨rfl, rfl⟩
      | (refine .inr ⟨?_, ?_, rfl, rfl⟩ <;> assumption)
  simp only [p2p.PeerID.IsZero, pure_eq, bind_ok] at hrest
  by_cases hz : st.From = List.replicate 32 (0 : UInt8)
  · simp only [hz, decide_true, if_true] at hrest
    cases hrest
    exact ⟨hgood, ⟨fun _ => hz, fun _ => rfl⟩⟩
  · simp only [hz, decide_false, Bool.false_eq_true, if_false] at hrest
    cases hrest
    exact ⟨hgood, ⟨fun h => (by cases h), fun h => absurd h hz⟩⟩

/-- ⊢ what the regenerated `DHTGet` reports: for every network (`Ask` is any total function of the contacted node and
    the request), every validator (total; none = accept all), every key and initial peers: the reported value is
    absent (with `From` the zero id), or it is the value a node with id `From` answered — without an error — and the
    validator accepted exactly that value; an error is reported iff `From` is the zero id. -/
theorem DHTGet_good (params : kademlia.DHTGetParamsT)
    (hAsk : ∀ n r, ∃ a, params.Ask n r = .ok a) (hVal : ∀ x, ∃ b, getValidate params x = .ok b)
    (res : kademlia.DHTGetResultT) (err : Go.Err) (h : kademlia.DHTGet params = .ok (res, err)) :
    GetGood params res ∧ (err.isSome ↔ res.From = zero32) := by
  cases hv : params.Validate with
  | some v =>
    refine DHTGet_good_some params v hv hAsk ?_ res err h
    intro x
    have := hVal x
    unfold getValidate at this
    rwa [hv] at this
  | none =>
    rw [DHTGet_default_validator params hv] at h
    have := DHTGet_good_some { params with Validate := some (fun _ => pure true) } (fun _ => pure true) rfl hAsk
      (fun _ => ⟨true, rfl⟩) res err h
    refine ⟨?_, this.2⟩
    rcases this.1 with g | ⟨node, rs, g1, g2, g3, g4⟩
    · exact .inl g
    · refine .inr ⟨node, rs, g1, g2, g3, ?_⟩
      unfold getValidate
      rw [hv]
      rfl

/-! ### DHTPut -/

/-- the request `DHTPut` sends to every node it contacts -/
def putReq (params : kademlia.DHTPutParamsT) : kademlia.PutReqT :=
  { Key := params.Key, Value := params.Value, TTLms := Go.toU64 (Int.tdiv params.TTL 1000000) }

/-- node `n` answers the put without an error -/
def putResponds (params : kademlia.DHTPutParamsT) (n : kademlia.NodeInfoT) : Bool :=
  match params.Ask n (putReq params) with
  | .ok (_, none) => true
  | _ => false

/-- node `n` answers the put without an error and accepts -/
def putAccepts (params : kademlia.DHTPutParamsT) (n : kademlia.NodeInfoT) : Bool :=
  match params.Ask n (putReq params) with
  | .ok (resp, none) => resp.Accepted
  | _ => false

/-- what `DHTPut` guarantees about its counters: they count the nodes it contacted, each with a different id -/
def PutGood (params : kademlia.DHTPutParamsT) (res : kademlia.DHTPutResultT) : Prop :=
  ∃ contacted : List kademlia.NodeInfoT, (contacted.map (·.ID)).Nodup ∧
    res.Contacted = (contacted.length : Int) ∧
    res.Responded = ((contacted.filter (putResponds params)).length : Int) ∧
    res.Accepted = ((contacted.filter (putAccepts params)).length : Int)

theorem exists_fn {σ : Type} {key : Go.Bytes} {n : Int}
    {fn : σ → kademlia.NodeInfoT → Go.M (σ × List kademlia.NodeInfoT × Bool)}
    {nodes : List kademlia.NodeInfoT} {st0 st : σ} (h : kademlia.dhtIterate nodes key n fn st0 = .ok st) :
    ∃ f, f = fn ∧ kademlia.dhtIterate nodes key n f st0 = .ok st := ⟨fn, rfl, h⟩

set_option maxHeartbeats 1000000 in
theorem DHTPut_good_min (params : kademlia.DHTPutParamsT) (hmin : ¬ params.MinAccepted < 1)
    (hAsk : ∀ n r, ∃ a, params.Ask n r = .ok a)
    (res : kademlia.DHTPutResultT) (err : Go.Err) (h : kademlia.DHTPut params = .ok (res, err)) :
    PutGood params res ∧ (err.isSome ↔ res.Accepted < params.MinAccepted) := by
  unfold kademlia.DHTPut at h
  simp only [hmin, decide_false, Bool.false_eq_true, if_false] at h
  obtain ⟨st, hit, hrest⟩ := bind_ok_inv h
  obtain ⟨fn, hfn, hit⟩ := exists_fn hit
  have hgood : ∃ seen, seen.Nodup ∧ ∃ ns : List kademlia.NodeInfoT, ns.map (·.ID) = seen ∧
      st.Contacted = (ns.length : Int) ∧ st.Responded = ((ns.filter (putResponds params)).length : Int) ∧
      st.Accepted = ((ns.filter (putAccepts params)).length : Int) := by
    have hspec : ∀ (s : kademlia.DHTPutResultT) (x : kademlia.NodeInfoT), ∃ r, fn s x = Except.ok r ∧
        r.1.Contacted = s.Contacted + 1 ∧
        r.1.Responded = s.Responded + (if putResponds params x then 1 else 0) ∧
        r.1.Accepted = s.Accepted + (if putAccepts params x then 1 else 0) := by
      intro s x
      rw [hfn]
      obtain ⟨⟨resp, e⟩, ha⟩ := hAsk x (putReq params)
      have ha' := ha
      unfold putReq at ha'
      simp only [pure_eq, bind_ok, DistanceLt_eq, ite_ok, ha']
      refine ⟨_, rfl, ?_⟩
      have hr : putResponds params x = e.isNone := by
        unfold putResponds; rw [ha]; cases e <;> rfl
      have hacc : putAccepts params x = (e.isNone && resp.Accepted) := by
        unfold putAccepts; rw [ha]; cases e <;> simp
      rw [hr, hacc]
      cases e with
      | some m => simp
      | none =>
        cases hra : resp.Accepted with
        | false => simp [hra]
        | true =>
          simp only [Option.isSome_none, Bool.false_eq_true, if_false, hra, if_true, Option.isNone_none, Bool.and_self]
          repeat' split
          all_goals simp
    obtain ⟨seen, hR⟩ := dhtIterate_ok_inv hit (fun s x => ⟨_, (hspec s x).choose_spec.1⟩) (fun _ => True)
      (fun seen st => seen.Nodup ∧ ∃ ns : List kademlia.NodeInfoT, ns.map (·.ID) = seen ∧
        st.Contacted = (ns.length : Int) ∧ st.Responded = ((ns.filter (putResponds params)).length : Int) ∧
        st.Accepted = ((ns.filter (putAccepts params)).length : Int))
      (by
        intro seen s node r hr hRs _ hnot
        obtain ⟨r', hr', h1, h2, h3⟩ := hspec s node
        rw [hr] at hr'
        cases hr'
        obtain ⟨hnd, ns, hns, c1, c2, c3⟩ := hRs
        refine ⟨⟨List.nodup_cons.2 ⟨hnot, hnd⟩, node :: ns, by simp [hns], ?_, ?_, ?_⟩, fun _ _ => trivial⟩
        · rw [h1, c1]; simp
        · rw [h2, c2]; simp only [List.filter_cons]; split <;> simp
        · rw [h3, c3]; simp only [List.filter_cons]; split <;> simp)
      (fun _ _ => trivial) ⟨List.nodup_nil, [], rfl, rfl, rfl, rfl⟩
    exact ⟨seen, hR⟩
  have hPG : PutGood params st := by
    obtain ⟨seen, hnd, ns, hns, c1, c2, c3⟩ := hgood
    exact ⟨ns, hns ▸ hnd, c1, c2, c3⟩
  simp only [pure_eq] at hrest
  by_cases hlt : st.Accepted < params.MinAccepted
  · simp only [hlt, decide_true, if_true] at hrest
    cases hrest
    exact ⟨hPG, ⟨fun _ => hlt, fun _ => rfl⟩⟩
  · simp only [hlt, decide_false, Bool.false_eq_true, if_false] at hrest
    cases hrest
    exact ⟨hPG, ⟨fun h => (by cases h), fun h => absurd h hlt⟩⟩

/-- ⊢ what the regenerated `DHTPut` reports, for every network, key, value and list of initial peers: its counters
    count the nodes it contacted — pairwise different ids —, those that answered, and those that answered "accepted";
    the error is raised exactly when the accepted count is below the required minimum (2 when the caller asks for
    less than 1). -/
theorem DHTPut_good (params : kademlia.DHTPutParamsT) (hAsk : ∀ n r, ∃ a, params.Ask n r = .ok a)
    (res : kademlia.DHTPutResultT) (err : Go.Err) (h : kademlia.DHTPut params = .ok (res, err)) :
    PutGood params res ∧
    (err.isSome ↔ res.Accepted < (if params.MinAccepted < 1 then 2 else params.MinAccepted)) := by
  by_cases hmin : params.MinAccepted < 1
  · have h2 : kademlia.DHTPut params = kademlia.DHTPut { params with MinAccepted := 2 } := by
      unfold kademlia.DHTPut
      simp [hmin]
    rw [h2] at h
    have := DHTPut_good_min { params with MinAccepted := 2 } (by simp) hAsk res err h
    simp only [hmin, if_true]
    exact this
  · simp only [hmin, if_false]
    exact DHTPut_good_min params hmin hAsk res err h


/-! ### DHTFindNode -/

theorem slice_zero {α : Type} (xs : List α) : Go.slice xs 0 0 = .ok [] := by
  simp [Go.slice]

/-- the validation loop of `DHTFindNode`'s callback always ends (the validator is total) -/
theorem find_tail {α : Type} (v : kademlia.NodeInfoT → Go.M Bool) (hVal : ∀ x, ∃ b, v x = .ok b)
    (nodes init : List kademlia.NodeInfoT) (k : List kademlia.NodeInfoT → α) :
    ∃ q, (do
        let r_8 ← Go.forEach nodes 0 init (fun (_ : Int) (node2 : kademlia.NodeInfoT) (st : List kademlia.NodeInfoT) => do
            let t_9 ← v node2
            (Except.ok (if t_9 = true then Go.Ctl.next (st ++ [node2]) else Go.Ctl.next st) : Go.M (Go.Ctl (List kademlia.NodeInfoT) α)))
        match r_8 with
          | Go.Out.ret v_11 => (Except.ok v_11 : Go.M α)
          | Go.Out.done st_12 => Except.ok (k st_12)) = Except.ok (k q) := by
  obtain ⟨q, hq, _⟩ := Go.forEach_inv (ρ := α) (fun _ : List kademlia.NodeInfoT => True)
    (fun (_ : Int) (node2 : kademlia.NodeInfoT) (st : List kademlia.NodeInfoT) => do
            let t_9 ← v node2
            (Except.ok (if t_9 = true then Go.Ctl.next (st ++ [node2]) else Go.Ctl.next st) : Go.M (Go.Ctl (List kademlia.NodeInfoT) α)))
    nodes 0 init trivial (by
      intro j x s _ _
      obtain ⟨b, hb⟩ := hVal x
      simp only [hb, bind_ok]
      cases b
      · exact ⟨s, rfl, trivial⟩
      · exact ⟨s ++ [x], rfl, trivial⟩)
  exact ⟨q, by rw [hq]; rfl⟩

theorem find_tail_k {α : Type} (v : kademlia.NodeInfoT → Go.M Bool) (hVal : ∀ x, ∃ b, v x = .ok b)
    (nodes init : List kademlia.NodeInfoT) (hinit : ∀ x ∈ init, v x = .ok true)
    (kk : Go.Out (List kademlia.NodeInfoT) α → Go.M α) (Φ : α → Prop)
    (h : ∀ q, (∀ x ∈ q, v x = .ok true) → ∃ r, kk (.done q) = .ok r ∧ Φ r) :
    ∃ r, (Go.forEach nodes 0 init (fun (_ : Int) (node2 : kademlia.NodeInfoT) (st : List kademlia.NodeInfoT) => do
            let t_9 ← v node2
            (Except.ok (if t_9 = true then Go.Ctl.next (st ++ [node2]) else Go.Ctl.next st) : Go.M (Go.Ctl (List kademlia.NodeInfoT) α)))
          >>= kk) = Except.ok r ∧ Φ r := by
  obtain ⟨q, hq, hqv⟩ := Go.forEach_inv (ρ := α) (fun q : List kademlia.NodeInfoT => ∀ x ∈ q, v x = .ok true)
    (fun (_ : Int) (node2 : kademlia.NodeInfoT) (st : List kademlia.NodeInfoT) => do
            let t_9 ← v node2
            (Except.ok (if t_9 = true then Go.Ctl.next (st ++ [node2]) else Go.Ctl.next st) : Go.M (Go.Ctl (List kademlia.NodeInfoT) α)))
    nodes 0 init hinit (by
      intro j x s _ hs
      obtain ⟨b, hb⟩ := hVal x
      simp only [hb, bind_ok]
      cases b
      · exact ⟨s, rfl, hs⟩
      · refine ⟨s ++ [x], rfl, ?_⟩
        intro y hy
        rcases List.mem_append.1 hy with hy | hy
        · exact hs y hy
        · rw [List.mem_singleton.1 hy]; exact hb)
  rw [hq]
  exact h q hqv

/-- what `DHTFindNode` guarantees about the node it reports as closest: it was passed to the callback (visited), and
    no visited node is nearer to the target -/
def FindGood (params : kademlia.DHTFindNodeParamsT) (have_ : Bool) (res : kademlia.DHTFindNodeResultT)
    (visited : List Go.Bytes) : Prop :=
  (have_ = false ∧ visited = [] ∧ res.Closest = zero32) ∨
  (have_ = true ∧ res.Closest ∈ visited ∧
    ∀ c ∈ visited, Kad.distanceLt (nb params.Target) (nb c) (nb res.Closest) = false)

set_option maxHeartbeats 1000000 in
theorem DHTFindNode_good_some (params : kademlia.DHTFindNodeParamsT) (v : kademlia.NodeInfoT → Go.M Bool)
    (hv : params.Validate = some v)
    (hAsk : ∀ n r, ∃ a, params.Ask n r = .ok a) (hVal : ∀ x, ∃ b, v x = .ok b)
    (res : kademlia.DHTFindNodeResultT) (err : Go.Err) (h : kademlia.DHTFindNode params = .ok (res, err)) :
    (∃ hv' visited, FindGood params hv' res visited ∧
      ∀ id ∈ visited, ∃ x : kademlia.NodeInfoT, x.ID = id ∧ (x ∈ params.Initial ∨ v x = .ok true)) ∧
    (err.isSome ↔ res.Closest ≠ params.Target) := by
  unfold kademlia.DHTFindNode at h
  simp only [hv, Option.isNone_some, Bool.false_eq_true, if_false] at h
  obtain ⟨st, hit, hrest⟩ := bind_ok_inv h
  obtain ⟨fn, hfn, hit⟩ := exists_fn hit
  have hspec : ∀ (s : Bool × kademlia.DHTFindNodeResultT) (x : kademlia.NodeInfoT), ∃ r, fn s x = Except.ok r ∧
      ((s.1 = false ∨ Kad.distanceLt (nb params.Target) (nb x.ID) (nb s.2.Closest) = true) →
        r.1.1 = true ∧ r.1.2.Closest = x.ID) ∧
      (¬ (s.1 = false ∨ Kad.distanceLt (nb params.Target) (nb x.ID) (nb s.2.Closest) = true) →
        r.1.1 = s.1 ∧ r.1.2.Closest = s.2.Closest) ∧
      (∀ y ∈ r.2.1, v y = .ok true) := by
    intro s x
    rw [hfn]
    obtain ⟨hc, rs⟩ := s
    obtain ⟨⟨resp, e⟩, ha⟩ := hAsk x { Target := params.Target, Limit := 3 }
    simp only [pure_eq, bind_ok, DistanceLt_eq, ite_ok, Option.getD_some, ha, slice_zero]
    cases hc <;> cases hlt : Kad.distanceLt (nb params.Target) (nb x.ID) (nb rs.Closest) <;>
      simp only [Bool.not_true, Bool.not_false, Bool.false_eq_true, if_false, if_true, true_or, or_true, or_false, false_or,
        not_true_eq_false, not_false_eq_true, forall_const, false_implies, implies_true, and_true, true_and, reduceCtorEq] <;>
      (repeat' split) <;>
      first
        | exact ⟨_, rfl, ⟨rfl, rfl⟩, by simp⟩
        | (apply find_tail_k v hVal _ _ (by simp); intro q hq; exact ⟨_, rfl, ⟨rfl, rfl⟩, hq⟩)
  have hinv : ∃ seen, FindGood params st.1 st.2 seen ∧
      ∀ id ∈ seen, ∃ x : kademlia.NodeInfoT, x.ID = id ∧ (x ∈ params.Initial ∨ v x = .ok true) := by
    refine dhtIterate_ok_inv hit (fun s x => ⟨_, (hspec s x).choose_spec.1⟩)
      (fun x => x ∈ params.Initial ∨ v x = .ok true)
      (fun seen s => FindGood params s.1 s.2 seen ∧
        ∀ id ∈ seen, ∃ x : kademlia.NodeInfoT, x.ID = id ∧ (x ∈ params.Initial ∨ v x = .ok true)) ?_
      (fun x hx => .inl hx) ⟨.inl ⟨rfl, rfl, rfl⟩, by intro id hid; cases hid⟩
    intro seen s node r hr hRs0 hPnode _
    obtain ⟨hRs, hseenP⟩ := hRs0
    obtain ⟨r', hr', h1, h2, h3⟩ := hspec s node
    rw [hr] at hr'
    cases hr'
    refine ⟨⟨?_, ?_⟩, fun y hy => .inr (h3 y hy)⟩
    rotate_left
    · intro id hid
      rcases List.mem_cons.1 hid with hid | hid
      · exact ⟨node, hid.symm, hPnode⟩
      · exact hseenP id hid
    by_cases hcond : s.1 = false ∨ Kad.distanceLt (nb params.Target) (nb node.ID) (nb s.2.Closest) = true
    · obtain ⟨e1, e2⟩ := h1 hcond
      right
      refine ⟨e1, by rw [e2]; simp, ?_⟩
      intro c hc
      rw [e2]
      rcases List.mem_cons.1 hc with hc | hc
      · rw [hc]; exact Kad.distanceLt_irrefl _ _
      · rcases hRs with ⟨_, hnil, _⟩ | ⟨hs1, _, hall⟩
        · rw [hnil] at hc; cases hc
        · rcases hcond with hf | hlt
          · rw [hs1] at hf; cases hf
          · cases hcn : Kad.distanceLt (nb params.Target) (nb c) (nb node.ID) with
            | false => rfl
            | true =>
              have := Kad.distanceLt_trans _ _ _ _ hcn hlt
              rw [hall c hc] at this
              cases this
    · obtain ⟨e1, e2⟩ := h2 hcond
      have hs1 : s.1 = true := by
        cases hs : s.1 with
        | true => rfl
        | false => exact absurd (.inl hs) hcond
      have hnlt : Kad.distanceLt (nb params.Target) (nb node.ID) (nb s.2.Closest) = false := by
        cases hl : Kad.distanceLt (nb params.Target) (nb node.ID) (nb s.2.Closest) with
        | false => rfl
        | true => exact absurd (.inr hl) hcond
      rcases hRs with ⟨hf, _, _⟩ | ⟨_, hmem, hall⟩
      · rw [hs1] at hf; cases hf
      · right
        refine ⟨e1.trans hs1, by rw [e2]; exact List.mem_cons_of_mem _ hmem, ?_⟩
        intro c hc
        rw [e2]
        rcases List.mem_cons.1 hc with hc | hc
        · rw [hc]; exact hnlt
        · exact hall c hc
  obtain ⟨seen, hG, hVis⟩ := hinv
  simp only [pure_eq] at hrest
  by_cases hne : st.2.Closest = params.Target
  · simp only [hne, ne_eq, not_true_eq_false, decide_false, Bool.false_eq_true, if_false] at hrest
    cases hrest
    exact ⟨⟨_, _, hG, hVis⟩, ⟨fun h => (by cases h), fun h => absurd hne h⟩⟩
  · simp only [ne_eq, hne, not_false_eq_true, decide_true, if_true] at hrest
    cases hrest
    exact ⟨⟨_, _, hG, hVis⟩, ⟨fun _ => hne, fun _ => rfl⟩⟩


/-- with no validator the translation installs the accept-all one: same run -/
theorem DHTFindNode_default_validator (params : kademlia.DHTFindNodeParamsT) (h : params.Validate = none) :
    kademlia.DHTFindNode params = kademlia.DHTFindNode { params with Validate := some (fun _ => pure true) } := by
  unfold kademlia.DHTFindNode
  simp [h]

/-- ⊢ what the regenerated `DHTFindNode` reports: the closest node it reports was passed to its callback and no
    node passed to the callback is nearer to the target; the error is raised exactly when that node is not the target -/
theorem DHTFindNode_good (params : kademlia.DHTFindNodeParamsT)
    (hAsk : ∀ n r, ∃ a, params.Ask n r = .ok a)
    (hVal : ∀ x, ∃ b, (params.Validate.getD (fun _ => pure true)) x = .ok b)
    (res : kademlia.DHTFindNodeResultT) (err : Go.Err) (h : kademlia.DHTFindNode params = .ok (res, err)) :
    (∃ hv' visited, FindGood params hv' res visited ∧
      ∀ id ∈ visited, ∃ x : kademlia.NodeInfoT, x.ID = id ∧
        (x ∈ params.Initial ∨ (params.Validate.getD (fun _ => pure true)) x = .ok true)) ∧
    (err.isSome ↔ res.Closest ≠ params.Target) := by
  cases hv : params.Validate with
  | some v =>
    refine DHTFindNode_good_some params v hv hAsk ?_ res err h
    intro x
    have := hVal x
    rwa [hv] at this
  | none =>
    rw [DHTFindNode_default_validator params hv] at h
    exact DHTFindNode_good_some { params with Validate := some (fun _ => pure true) } (fun _ => pure true) rfl hAsk
      (fun _ => ⟨true, rfl⟩) res err h

/-! ### DHTJoin -/

/-- `AddPeer` says "added" for node `n` -/
def joinAdds (params : kademlia.DHTJoinParamsT) (n : kademlia.NodeInfoT) : Bool :=
  match params.AddPeer n.ID n.Info with
  | .ok b => b
  | _ => false

/-- ⊢ what the regenerated `DHTJoin` returns: the number of contacted nodes — pairwise different ids — for which
    `AddPeer` answered true -/
theorem DHTJoin_good (params : kademlia.DHTJoinParamsT)
    (hAsk : ∀ n r, ∃ a, params.Ask n r = .ok a) (hAdd : ∀ i f, ∃ b, params.AddPeer i f = .ok b)
    (added : Int) (h : kademlia.DHTJoin params = .ok added) :
    ∃ contacted : List kademlia.NodeInfoT, (contacted.map (·.ID)).Nodup ∧
      added = ((contacted.filter (joinAdds params)).length : Int) := by
  unfold kademlia.DHTJoin at h
  obtain ⟨st, hit, hrest⟩ := bind_ok_inv h
  obtain ⟨fn, hfn, hit⟩ := exists_fn hit
  have hspec : ∀ (s : Int) (x : kademlia.NodeInfoT), ∃ r, fn s x = Except.ok r ∧
      r.1 = s + (if joinAdds params x then 1 else 0) := by
    intro s x
    rw [hfn]
    obtain ⟨b, hb⟩ := hAdd x.ID x.Info
    obtain ⟨⟨resp, e⟩, ha⟩ := hAsk x { Target := params.Target, Limit := 10 }
    have hj : joinAdds params x = b := by unfold joinAdds; rw [hb]
    simp only [pure_eq, bind_ok, hb, ha, hj]
    cases b <;> cases e <;> exact ⟨_, rfl, by simp⟩
  obtain ⟨seen, hnd, ns, hns, hc⟩ := dhtIterate_ok_inv hit (fun s x => ⟨_, (hspec s x).choose_spec.1⟩) (fun _ => True)
    (fun seen st => seen.Nodup ∧ ∃ ns : List kademlia.NodeInfoT, ns.map (·.ID) = seen ∧
      st = ((ns.filter (joinAdds params)).length : Int))
    (by
      intro seen s node r hr hRs _ hnot
      obtain ⟨r', hr', h1⟩ := hspec s node
      rw [hr] at hr'
      cases hr'
      obtain ⟨hnd, ns, hns, c1⟩ := hRs
      refine ⟨⟨List.nodup_cons.2 ⟨hnot, hnd⟩, node :: ns, by simp [hns], ?_⟩, fun _ _ => trivial⟩
      rw [h1, c1]; simp only [List.filter_cons]; split <;> simp)
    (fun _ _ => trivial) ⟨List.nodup_nil, [], rfl, rfl⟩
  simp only [pure_eq] at hrest
  cases hrest
  exact ⟨ns, hns ▸ hnd, hc⟩


end P2PVerif.Src
