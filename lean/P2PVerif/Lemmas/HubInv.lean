import P2PVerif.Model.Hub
/-! C11–C14, the rendezvous hubs of s/swarmutil/hubs.go: the invariant of the labelled transition system. -/
namespace P2PVerif.Hub
open P2PVerif

/-! ### lists -/

theorem getElem?_set' {α} (l : List α) (i j : Nat) (a : α) :
    (l.set i a)[j]? = if i = j ∧ j < l.length then some a else l[j]? := by
  by_cases h : i = j
  · subst h
    by_cases hl : i < l.length <;> simp [hl]
  · simp [h, List.getElem?_set_ne h]

theorem lt_of_get {α} {l : List α} {i : Nat} {a : α} (h : l[i]? = some a) : i < l.length := by
  rcases List.getElem?_eq_some_iff.mp h with ⟨h, _⟩; exact h

theorem getElem?_snoc {α} (l : List α) (a b : α) (j : Nat) (h : (l ++ [a])[j]? = some b) :
    l[j]? = some b ∨ (j = l.length ∧ b = a) := by
  by_cases hlt : j < l.length
  · rw [List.getElem?_append_left hlt] at h; exact Or.inl h
  · rw [List.getElem?_append_right (by omega)] at h
    cases hjj : j - l.length with
    | zero => simp [hjj] at h; exact Or.inr ⟨by omega, h.symm⟩
    | succ n => simp [hjj] at h

/-- what `set` leaves at position `k` -/
theorem get_set_cases {α} {l : List α} {i k : Nat} {a e : α} (h : (l.set i a)[k]? = some e) :
    (k = i ∧ e = a) ∨ (k ≠ i ∧ l[k]? = some e) := by
  rw [getElem?_set'] at h
  by_cases hik : i = k
  · subst hik
    by_cases hl : i < l.length
    · simp [hl] at h; exact Or.inl ⟨rfl, h.symm⟩
    · simp [hl] at h
  · simp [hik] at h; exact Or.inr ⟨fun e => hik e.symm, h⟩

theorem get_set_self {α} {l : List α} {i : Nat} {a b : α} (h : l[i]? = some b) : (l.set i a)[i]? = some a := by
  simp [lt_of_get h]

theorem get_set_ne {α} {l : List α} {i k : Nat} {a : α} (h : k ≠ i) : (l.set i a)[k]? = l[k]? := by
  exact List.getElem?_set_ne (fun e => h e.symm)

theorem mem_of_lookup {l : List (Nat × Nat)} {j n : Nat} (h : l.lookup j = some n) : (j, n) ∈ l := by
  induction l with
  | nil => simp [List.lookup] at h
  | cons x xs ih =>
    obtain ⟨a, b⟩ := x
    simp only [List.lookup] at h
    split at h
    · rename_i he
      have : j = a := by simpa using he
      cases h; subst this; exact List.mem_cons_self
    · exact List.mem_cons_of_mem _ (ih h)

theorem lookup_of_mem {l : List (Nat × Nat)} {j n : Nat} (h : (j, n) ∈ l) : ∃ n', l.lookup j = some n' := by
  induction l with
  | nil => cases h
  | cons x xs ih =>
    obtain ⟨a, b⟩ := x
    simp only [List.lookup]
    split
    · exact ⟨_, rfl⟩
    · rename_i hne
      rcases List.mem_cons.mp h with e | h'
      · cases e; simp at hne
      · exact ih h'

theorem key_mem {l : List (Nat × Nat)} {j : Nat} : j ∈ l.map (·.1) ↔ ∃ n, (j, n) ∈ l := by
  simp only [List.mem_map]
  constructor
  · rintro ⟨⟨a, b⟩, hm, rfl⟩; exact ⟨b, hm⟩
  · rintro ⟨n, hm⟩; exact ⟨(j, n), hm, rfl⟩

theorem keys_nodup_unique {l : List (Nat × Nat)} (h : (l.map (·.1)).Nodup) {j n n' : Nat}
    (h1 : (j, n) ∈ l) (h2 : (j, n') ∈ l) : n = n' := by
  induction l with
  | nil => cases h1
  | cons x xs ih =>
    simp only [List.map_cons, List.nodup_cons] at h
    rcases List.mem_cons.mp h1 with e1 | h1' <;> rcases List.mem_cons.mp h2 with e2 | h2'
    · rw [← e1] at e2; cases e2; rfl
    · exact absurd (key_mem.mpr ⟨n', h2'⟩) (by rw [← e1] at h; exact h.1)
    · exact absurd (key_mem.mpr ⟨n, h1'⟩) (by rw [← e2] at h; exact h.1)
    · exact ih h.2 h1' h2'

/-! ### the shape of the transitions -/

/-- the labels that only move receiver `i` outside a callback -/
def rOnly (i : Nat) (l : Lbl) : Prop :=
  l = .cancelR i ∨ l = .rSel2Ctx i ∨ l = .rSel2Closed i ∨ l = .rSel1Closed i ∨ l = .rSel1Default i ∨ l = .rCheck i

/-- such a step replaces receiver `i` by one that is outside a callback (or only marks its context done) -/
theorem step_rOnly (sk : Skel) (s s' : St) (i : Nat) (l : Lbl) (hl : rOnly i l) (hs : step sk s l = some s') :
    ∃ r r', s.rs[i]? = some r ∧ s' = setR s i r' ∧
      (r'.pc = r.pc ∨ ((∀ j, r'.pc ≠ .inCb j) ∧ (sk.nilGuard = true → r'.pc ≠ .done .nilErr) ∧
        (sk.kind = .ask → r'.pc ≠ .sel1))) := by
  have hcr : sk.nilGuard = true → sk.closedRes = .closedErr := fun h => by simp [Skel.closedRes, h]
  rcases hl with rfl | rfl | rfl | rfl | rfl | rfl
  · simp only [step, Option.map_eq_some_iff] at hs
    obtain ⟨r, hr, rfl⟩ := hs
    exact ⟨r, _, hr, rfl, Or.inl rfl⟩
  · simp only [step] at hs; split at hs
    · rename_i r hr
      split at hs
      · cases hs; exact ⟨r, _, hr, rfl, Or.inr ⟨(by intro j h; cases h), (by intro _ h; cases h), (by intro _ h; cases h)⟩⟩
      · cases hs
    · cases hs
  · simp only [step] at hs; split at hs
    · rename_i r hr
      split at hs
      · cases hs
        refine ⟨r, _, hr, rfl, Or.inr ⟨?_, ?_, ?_⟩⟩
        · intro j h; simp only [Skel.closedRes] at h; split at h <;> cases h
        · intro hg h; simp only [hcr hg] at h; cases h
        · intro _ h; cases h
      · cases hs
    · cases hs
  · simp only [step] at hs; split at hs
    · rename_i r hr
      split at hs
      · cases hs
        refine ⟨r, _, hr, rfl, Or.inr ⟨?_, ?_, ?_⟩⟩
        · intro j h; simp only [Skel.closedRes] at h; split at h <;> cases h
        · intro hg h; simp only [hcr hg] at h; cases h
        · intro _ h; cases h
      · cases hs
    · cases hs
  · simp only [step] at hs; split at hs
    · rename_i r hr
      split at hs
      · cases hs; exact ⟨r, _, hr, rfl, Or.inr ⟨(by intro j h; cases h), (by intro _ h; cases h), (by intro _ h; cases h)⟩⟩
      · cases hs
    · cases hs
  · simp only [step] at hs; split at hs
    · rename_i r hr
      split at hs
      · split at hs
        · cases hs; exact ⟨r, _, hr, rfl, Or.inr ⟨(by intro j h; cases h), (by intro _ h; cases h), (by intro _ h; cases h)⟩⟩
        · cases hs
          refine ⟨r, _, hr, rfl, Or.inr ⟨?_, ?_, ?_⟩⟩
          · intro j h; simp only at h; split at h <;> cases h
          · intro _ h; simp only at h; split at h <;> cases h
          · intro hk h; simp [hk] at h
      · cases hs
    · cases hs

/-- the labels that only move deliverer `j` -/
def dOnly (j : Nat) (l : Lbl) : Prop := l = .cancelD j ∨ l = .dCtx j ∨ l = .dClosed j ∨ l = .dDone j

theorem step_dOnly (sk : Skel) (s s' : St) (j : Nat) (l : Lbl) (hl : dOnly j l) (hs : step sk s l = some s') :
    ∃ d d', s.ds[j]? = some d ∧ s' = setD s j d' ∧
      (d'.pc = d.pc ∨
       (d.pc = .sel ∧ ∃ r, r ≠ .ok ∧ d'.pc = .done r 0 ∧ (sk.nilGuard = true → r ≠ .nilErr)) ∨
       (d.pc = .committed ∧ ∃ n, s.finished.lookup j = some n ∧ d'.pc = .done .ok n)) := by
  have hcr : sk.nilGuard = true → sk.closedRes = .closedErr := fun h => by simp [Skel.closedRes, h]
  rcases hl with rfl | rfl | rfl | rfl
  · simp only [step, Option.map_eq_some_iff] at hs
    obtain ⟨d, hd, rfl⟩ := hs
    exact ⟨d, _, hd, rfl, Or.inl rfl⟩
  · simp only [step] at hs; split at hs
    · rename_i d hd
      split at hs
      · rename_i hc; cases hs
        exact ⟨d, _, hd, rfl, Or.inr (Or.inl ⟨hc.1, .ctxErr, (by intro h; cases h), rfl, (by intro _ h; cases h)⟩)⟩
      · cases hs
    · cases hs
  · simp only [step] at hs; split at hs
    · rename_i d hd
      split at hs
      · rename_i hc; cases hs
        refine ⟨d, _, hd, rfl, Or.inr (Or.inl ⟨hc.1, sk.closedRes, ?_, rfl, ?_⟩)⟩
        · intro h; simp only [Skel.closedRes] at h; split at h <;> cases h
        · intro hg h; rw [hcr hg] at h; cases h
      · cases hs
    · cases hs
  · simp only [step] at hs; split at hs
    · rename_i d hd
      split at hs
      · rename_i n hn
        split at hs
        · rename_i hc; cases hs
          exact ⟨d, _, hd, rfl, Or.inr (Or.inr ⟨hc, n, hn, rfl⟩)⟩
        · cases hs
      · cases hs
    · cases hs

theorem step_rendezvous (sk : Skel) (s s' : St) (i j : Nat) (hs : step sk s (.rendezvous i j) = some s') :
    ∃ r d, s.rs[i]? = some r ∧ s.ds[j]? = some d ∧ (r.pc = .sel1 ∨ r.pc = .sel2) ∧ d.pc = .sel ∧
      s' = { s with rs := s.rs.set i { r with pc := .inCb j }, ds := s.ds.set j { d with pc := .committed },
                    started := j :: s.started } := by
  simp only [step] at hs; split at hs
  · rename_i r d hr hd
    split at hs
    · rename_i hc; cases hs
      exact ⟨r, d, hr, hd, hc.1.elim (fun h => Or.inl h.1) (fun h => Or.inr h.1), hc.2.1, rfl⟩
    · cases hs
  · cases hs

theorem step_cbReturn (sk : Skel) (s s' : St) (i n : Nat) (hs : step sk s (.cbReturn i n) = some s') :
    ∃ r j, s.rs[i]? = some r ∧ r.pc = .inCb j ∧
      s' = { s with rs := s.rs.set i { r with pc := .done .ok }, finished := (j, n) :: s.finished } := by
  simp only [step] at hs; split at hs
  · rename_i r hr
    split at hs
    · rename_i j hpc; cases hs; exact ⟨r, j, hr, hpc, rfl⟩
    · cases hs
  · cases hs

/-! ### the invariant -/

structure Inv (s : St) : Prop where
  nodup : s.started.Nodup
  finSub : ∀ j n, (j, n) ∈ s.finished → j ∈ s.started
  finNodup : (s.finished.map (·.1)).Nodup
  dSel : ∀ (j : Nat) (d : D), s.ds[j]? = some d → d.pc = .sel → j ∉ s.started
  dErr : ∀ (j : Nat) (d : D) (r : Res) (n : Nat), s.ds[j]? = some d → d.pc = .done r n → r ≠ .ok → j ∉ s.started
  dOk : ∀ (j : Nat) (d : D) (n : Nat), s.ds[j]? = some d → d.pc = .done .ok n → (j, n) ∈ s.finished
  startedLt : ∀ j ∈ s.started, j < s.ds.length
  rCb : ∀ (i : Nat) (r : R) (j : Nat), s.rs[i]? = some r → r.pc = .inCb j →
    j ∈ s.started ∧ (∀ n, (j, n) ∉ s.finished) ∧ ∃ d, s.ds[j]? = some d ∧ d.pc = .committed
  rUniq : ∀ (i i' : Nat) (r r' : R) (j : Nat), s.rs[i]? = some r → s.rs[i']? = some r' →
    r.pc = .inCb j → r'.pc = .inCb j → i = i'

theorem inv_init : Inv {} := by
  refine ⟨List.nodup_nil, ?_, List.nodup_nil, ?_, ?_, ?_, ?_, ?_, ?_⟩ <;> simp

/-- only receivers changed, and every receiver now in a callback was in the same callback before -/
theorem inv_rs {s s' : St} (h : Inv s) (hds : s'.ds = s.ds) (hst : s'.started = s.started)
    (hfin : s'.finished = s.finished)
    (hback : ∀ (k : Nat) (e : R) (j : Nat), s'.rs[k]? = some e → e.pc = .inCb j → ∃ e0 : R, s.rs[k]? = some e0 ∧ e0.pc = .inCb j) :
    Inv s' := by
  refine ⟨hst ▸ h.nodup, ?_, hfin ▸ h.finNodup, ?_, ?_, ?_, ?_, ?_, ?_⟩
  · rw [hst, hfin]; exact h.finSub
  · rw [hst, hds]; exact h.dSel
  · rw [hst, hds]; exact h.dErr
  · rw [hfin, hds]; exact h.dOk
  · rw [hst, hds]; exact h.startedLt
  · intro k e j hk he
    obtain ⟨e0, hk0, hpc⟩ := hback k e j hk he
    rw [hst, hfin, hds]; exact h.rCb k e0 j hk0 hpc
  · intro k k' e e' j hk hk' he he'
    obtain ⟨e0, hk0, hpc⟩ := hback k e j hk he
    obtain ⟨e0', hk0', hpc'⟩ := hback k' e' j hk' he'
    exact h.rUniq k k' e0 e0' j hk0 hk0' hpc hpc'

theorem inv_rOnly (sk : Skel) (s s' : St) (i : Nat) (l : Lbl) (hl : rOnly i l) (h : Inv s)
    (hs : step sk s l = some s') : Inv s' := by
  obtain ⟨r, r', hr, rfl, hpc⟩ := step_rOnly sk s s' i l hl hs
  refine inv_rs h rfl rfl rfl ?_
  intro k e j hk hj
  rcases get_set_cases hk with ⟨rfl, rfl⟩ | ⟨_, hk'⟩
  · refine ⟨r, hr, ?_⟩
    rcases hpc with hpc | hpc
    · rw [← hpc]; exact hj
    · exact absurd hj (hpc.1 j)
  · exact ⟨e, hk', hj⟩

/-- only deliverer `j` changed -/
theorem inv_setD {s : St} (h : Inv s) (j : Nat) (d d' : D) (hj : s.ds[j]? = some d)
    (hsel : d'.pc = .sel → j ∉ s.started)
    (herr : ∀ r n, d'.pc = .done r n → r ≠ .ok → j ∉ s.started)
    (hok : ∀ n, d'.pc = .done .ok n → (j, n) ∈ s.finished)
    (hcom : ∀ (i : Nat) (r : R), s.rs[i]? = some r → r.pc = .inCb j → d'.pc = .committed) : Inv (setD s j d') := by
  refine ⟨h.nodup, h.finSub, h.finNodup, ?_, ?_, ?_, ?_, ?_, h.rUniq⟩
  · intro k e hk he
    rcases get_set_cases hk with ⟨rfl, rfl⟩ | ⟨_, hk'⟩
    · exact hsel he
    · exact h.dSel k e hk' he
  · intro k e r n hk he hr
    rcases get_set_cases hk with ⟨rfl, rfl⟩ | ⟨_, hk'⟩
    · exact herr r n he hr
    · exact h.dErr k e r n hk' he hr
  · intro k e n hk he
    rcases get_set_cases hk with ⟨rfl, rfl⟩ | ⟨_, hk'⟩
    · exact hok n he
    · exact h.dOk k e n hk' he
  · intro k hk; simpa [setD] using h.startedLt k hk
  · intro i r k hi hr
    obtain ⟨h1, h2, d0, hd0, hc0⟩ := h.rCb i r k hi hr
    refine ⟨h1, h2, ?_⟩
    by_cases hkj : k = j
    · subst hkj
      exact ⟨d', get_set_self hj, hcom i r hi hr⟩
    · exact ⟨d0, by simp only [setD]; rw [get_set_ne hkj]; exact hd0, hc0⟩

theorem inv_dOnly (sk : Skel) (s s' : St) (j : Nat) (l : Lbl) (hl : dOnly j l) (h : Inv s)
    (hs : step sk s l = some s') : Inv s' := by
  obtain ⟨d, d', hd, rfl, hpc⟩ := step_dOnly sk s s' j l hl hs
  rcases hpc with hpc | ⟨hsel, r, hr, hpc, -⟩ | ⟨hcom, n, hn, hpc⟩
  · refine inv_setD h j d d' hd ?_ ?_ ?_ ?_
    · intro e; exact h.dSel j d hd (hpc ▸ e)
    · intro r n e hr; exact h.dErr j d r n hd (hpc ▸ e) hr
    · intro n e; exact h.dOk j d n hd (hpc ▸ e)
    · intro i r hi hr
      obtain ⟨_, _, d0, hd0, hc0⟩ := h.rCb i r j hi hr
      rw [hd] at hd0; cases hd0; rw [hpc]; exact hc0
  · have hns : j ∉ s.started := h.dSel j d hd hsel
    refine inv_setD h j d d' hd (fun _ => hns) (fun _ _ _ _ => hns) ?_ ?_
    · intro n e; rw [hpc] at e; cases e; exact absurd rfl hr
    · intro i r0 hi hr0
      exact absurd (h.rCb i r0 j hi hr0).1 hns
  · have hm : (j, n) ∈ s.finished := mem_of_lookup hn
    refine inv_setD h j d d' hd ?_ ?_ ?_ ?_
    · intro e; rw [hpc] at e; cases e
    · intro r m e hr; rw [hpc] at e; cases e; exact absurd rfl hr
    · intro m e; rw [hpc] at e; cases e; exact hm
    · intro i r0 hi hr0
      exact absurd hm ((h.rCb i r0 j hi hr0).2.1 n)

theorem inv_spawnR (s : St) (h : Inv s) : Inv { s with rs := s.rs ++ [{ pc := .start }] } := by
  refine inv_rs h rfl rfl rfl ?_
  intro k e j hk hj
  rcases getElem?_snoc _ _ _ _ hk with hk | ⟨_, rfl⟩
  · exact ⟨e, hk, hj⟩
  · cases hj

theorem inv_spawnD (s : St) (h : Inv s) : Inv { s with ds := s.ds ++ [{ pc := .sel }] } := by
  refine ⟨h.nodup, h.finSub, h.finNodup, ?_, ?_, ?_, ?_, ?_, h.rUniq⟩
  · intro j d hj hd
    rcases getElem?_snoc _ _ _ _ hj with hj | ⟨rfl, _⟩
    · exact h.dSel j d hj hd
    · intro hm; exact absurd (h.startedLt _ hm) (Nat.lt_irrefl _)
  · intro j d r n hj hd hr
    rcases getElem?_snoc _ _ _ _ hj with hj | ⟨_, rfl⟩
    · exact h.dErr j d r n hj hd hr
    · cases hd
  · intro j d n hj hd
    rcases getElem?_snoc _ _ _ _ hj with hj | ⟨_, rfl⟩
    · exact h.dOk j d n hj hd
    · cases hd
  · intro j hj; have := h.startedLt j hj; simp only [List.length_append, List.length_cons, List.length_nil]; omega
  · intro i r j hi hr
    obtain ⟨h1, h2, d, hd, hc⟩ := h.rCb i r j hi hr
    exact ⟨h1, h2, d, by simp only; rw [List.getElem?_append_left (lt_of_get hd)]; exact hd, hc⟩

theorem inv_close (s : St) (h : Inv s) : Inv { s with closed := true } :=
  ⟨h.nodup, h.finSub, h.finNodup, h.dSel, h.dErr, h.dOk, h.startedLt, h.rCb, h.rUniq⟩

theorem inv_cbReturn (sk : Skel) (s s' : St) (i n : Nat) (h : Inv s)
    (hs : step sk s (.cbReturn i n) = some s') : Inv s' := by
  obtain ⟨r, j, hr, hpc, rfl⟩ := step_cbReturn sk s s' i n hs
  obtain ⟨hjs, hjf, _⟩ := h.rCb i r j hr hpc
  refine ⟨h.nodup, ?_, ?_, h.dSel, h.dErr, ?_, h.startedLt, ?_, ?_⟩
  · intro k m hk
    rcases List.mem_cons.mp hk with e | hk
    · cases e; exact hjs
    · exact h.finSub k m hk
  · simp only [List.map_cons, List.nodup_cons]
    refine ⟨fun hm => ?_, h.finNodup⟩
    obtain ⟨m, hm⟩ := key_mem.mp hm
    exact hjf m hm
  · intro k d m hk hd; exact List.mem_cons_of_mem _ (h.dOk k d m hk hd)
  · intro k e j' hk he
    rcases get_set_cases hk with ⟨rfl, rfl⟩ | ⟨hne, hk'⟩
    · cases he
    · obtain ⟨h1, h2, h3⟩ := h.rCb k e j' hk' he
      refine ⟨h1, ?_, h3⟩
      intro m hm
      rcases List.mem_cons.mp hm with e' | hm
      · have hjj : j' = j := (Prod.mk.inj e').1
        rw [hjj] at he; exact hne (h.rUniq k i e r j hk' hr he hpc)
      · exact h2 m hm
  · intro k k' e e' j' hk hk' he he'
    rcases get_set_cases hk with ⟨rfl, rfl⟩ | ⟨_, hk0⟩
    · cases he
    · rcases get_set_cases hk' with ⟨rfl, rfl⟩ | ⟨_, hk0'⟩
      · cases he'
      · exact h.rUniq k k' e e' j' hk0 hk0' he he'

theorem inv_rendezvous (sk : Skel) (s s' : St) (i j : Nat) (h : Inv s)
    (hs : step sk s (.rendezvous i j) = some s') : Inv s' := by
  obtain ⟨r, d, hr, hd, _, hdpc, rfl⟩ := step_rendezvous sk s s' i j hs
  have hnot : j ∉ s.started := h.dSel j d hd hdpc
  have hjlt : j < s.ds.length := lt_of_get hd
  have hnocb : ∀ (k : Nat) (e : R), s.rs[k]? = some e → e.pc ≠ .inCb j := by
    intro k e hk he
    exact hnot (h.rCb k e j hk he).1
  refine ⟨List.nodup_cons.mpr ⟨hnot, h.nodup⟩, ?_, h.finNodup, ?_, ?_, ?_, ?_, ?_, ?_⟩
  · intro k m hk; exact List.mem_cons_of_mem _ (h.finSub k m hk)
  · intro k e hk he
    rcases get_set_cases hk with ⟨rfl, rfl⟩ | ⟨hne, hk'⟩
    · cases he
    · intro hm; rcases List.mem_cons.mp hm with e' | hm
      · exact hne e'
      · exact h.dSel k e hk' he hm
  · intro k e r' m hk he hr'
    rcases get_set_cases hk with ⟨rfl, rfl⟩ | ⟨hne, hk'⟩
    · cases he
    · intro hm; rcases List.mem_cons.mp hm with e' | hm
      · exact hne e'
      · exact h.dErr k e r' m hk' he hr' hm
  · intro k e m hk he
    rcases get_set_cases hk with ⟨rfl, rfl⟩ | ⟨hne, hk'⟩
    · cases he
    · exact h.dOk k e m hk' he
  · intro k hk
    simp only [List.length_set]
    rcases List.mem_cons.mp hk with e' | hk
    · rw [e']; exact hjlt
    · exact h.startedLt k hk
  · intro k e j' hk he
    rcases get_set_cases hk with ⟨rfl, rfl⟩ | ⟨hne, hk'⟩
    · have hjj : j = j' := RPc.inCb.inj he
      rw [← hjj]
      refine ⟨List.mem_cons_self, ?_, _, get_set_self hd, rfl⟩
      intro m hm; exact hnot (h.finSub j m hm)
    · obtain ⟨h1, h2, d0, hd0, hc0⟩ := h.rCb k e j' hk' he
      refine ⟨List.mem_cons_of_mem _ h1, h2, d0, ?_, hc0⟩
      have hjj : j' ≠ j := fun e' => hnot (e' ▸ h1)
      simp only; rw [get_set_ne hjj]; exact hd0
  · intro k k' e e' j' hk hk' he he'
    rcases get_set_cases hk with ⟨rfl, rfl⟩ | ⟨_, hk0⟩
    · rcases get_set_cases hk' with ⟨rfl, rfl⟩ | ⟨_, hk0'⟩
      · rfl
      · have hjj : j = j' := RPc.inCb.inj he
        rw [← hjj] at he'; exact absurd he' (hnocb k' e' hk0')
    · rcases get_set_cases hk' with ⟨rfl, rfl⟩ | ⟨_, hk0'⟩
      · have hjj : j = j' := RPc.inCb.inj he'
        rw [← hjj] at he; exact absurd he (hnocb k e hk0)
      · exact h.rUniq k k' e e' j' hk0 hk0' he he'

theorem step_inv (sk : Skel) (s s' : St) (l : Lbl) (h : Inv s) (hs : step sk s l = some s') : Inv s' := by
  cases l with
  | spawnR => simp only [step, Option.some.injEq] at hs; subst hs; exact inv_spawnR s h
  | spawnD => simp only [step, Option.some.injEq] at hs; subst hs; exact inv_spawnD s h
  | close => simp only [step, Option.some.injEq] at hs; subst hs; exact inv_close s h
  | cancelR i => exact inv_rOnly sk s s' i _ (Or.inl rfl) h hs
  | rSel2Ctx i => exact inv_rOnly sk s s' i _ (Or.inr (Or.inl rfl)) h hs
  | rSel2Closed i => exact inv_rOnly sk s s' i _ (Or.inr (Or.inr (Or.inl rfl))) h hs
  | rSel1Closed i => exact inv_rOnly sk s s' i _ (Or.inr (Or.inr (Or.inr (Or.inl rfl)))) h hs
  | rSel1Default i => exact inv_rOnly sk s s' i _ (Or.inr (Or.inr (Or.inr (Or.inr (Or.inl rfl))))) h hs
  | rCheck i => exact inv_rOnly sk s s' i _ (Or.inr (Or.inr (Or.inr (Or.inr (Or.inr rfl))))) h hs
  | cancelD j => exact inv_dOnly sk s s' j _ (Or.inl rfl) h hs
  | dCtx j => exact inv_dOnly sk s s' j _ (Or.inr (Or.inl rfl)) h hs
  | dClosed j => exact inv_dOnly sk s s' j _ (Or.inr (Or.inr (Or.inl rfl))) h hs
  | dDone j => exact inv_dOnly sk s s' j _ (Or.inr (Or.inr (Or.inr rfl))) h hs
  | rendezvous i j => exact inv_rendezvous sk s s' i j h hs
  | cbReturn i n => exact inv_cbReturn sk s s' i n h hs

theorem run_inv (sk : Skel) (ls : List Lbl) : ∀ s s', Inv s → run sk s ls = some s' → Inv s' := by
  induction ls with
  | nil => intro s s' h hr; simp only [run, Option.some.injEq] at hr; subst hr; exact h
  | cons l ls ih =>
    intro s s' h hr
    simp only [run, Option.bind_eq_some_iff] at hr
    obtain ⟨s1, h1, h2⟩ := hr
    exact ih s1 s' (step_inv sk s s1 l h h1) h2

end P2PVerif.Hub
