import P2PVerif.Model.Addr
import P2PVerif.Model.AddrSpec
import P2PVerif.Lemmas.Base64
import P2PVerif.Lemmas.AddrText
/-! C16: marshal / parse round trip of the address text forms at every nesting, and soundness of `parse`. -/
namespace P2PVerif.Addr
open P2PVerif

/-! ## facts about the generated alphabet (re-checked whenever `Gen/Facts.lean` is regenerated) -/
theorem at_not_mem_alphabet : '@' ∉ B64.alphabet := by decide
theorem nl_not_mem_alphabet : '\n' ∉ B64.alphabet := by decide

/-- the text of a valid peer id: 43 alphabet characters -/
theorem marshalText_spec (id : Bytes) (hl : id.length = 32) (hv : ∀ b ∈ id, b < 256) :
    (B64.marshalText B64.alphabet id).length = 43 ∧ ∀ c ∈ B64.marshalText B64.alphabet id, c ∈ B64.alphabet := by
  have h := B64.peerid_rejects_invalid _ _ (B64.peerid_roundtrip id hl hv)
  exact ⟨h.1, h.2.1⟩

/-! ## list helpers -/
theorem takeWhile_append_stop (p : Char → Bool) (l r : Str) (x : Char) (hl : ∀ c ∈ l, p c = true) (hx : p x = false) :
    (l ++ x :: r).takeWhile p = l ∧ (l ++ x :: r).dropWhile p = x :: r := by
  induction l with
  | nil => simp [hx]
  | cons c l ih =>
    have hc := hl c (by simp)
    have := ih (fun c hc => hl c (by simp [hc]))
    simp [hc, this]

/-! ## what marshalled text looks like -/
theorem intStr_ne_nil (n : Int) : intStr n ≠ [] := by
  rw [intStr_eq]; split
  · exact natStr_ne_nil _
  · simp

theorem nl_not_mem_intStr (n : Int) : '\n' ∉ intStr n := by
  rw [intStr_eq]; split
  · exact natStr_not_mem _ _ (by decide)
  · have := natStr_not_mem (-n).toNat '\n' (by decide)
    simp [this]

theorem marshal_ne_nil (a : Addr) : marshal a ≠ [] := by
  cases a with
  | mem n => exact intStr_ne_nil n
  | udp ip port => simp only [marshal, joinHostPort]; split <;> simp
  | ssh fp ip port => simp [marshal]
  | idAt id a => simp [marshal]
  | scheme s a => simp [marshal]

theorem nl_not_mem_marshal (env : Env) (a : Addr) (hv : Valid env a) : '\n' ∉ marshal a := by
  induction a with
  | mem n => exact nl_not_mem_intStr n
  | udp ip port =>
    have hd := natStr_not_mem port '\n' (by decide)
    have hip := hv.1.2.2.1
    simp only [marshal, joinHostPort]; split <;> simp [hd, hip]
  | ssh fp ip port =>
    obtain ⟨_, hfp, hip, _⟩ := hv
    have hd := natStr_not_mem port '\n' (by decide)
    have hip := hip.2.2.1
    have hfp' : '\n' ∉ fp := fun h => absurd (hfp _ h) (by decide)
    simp [marshal, hd, hip, hfp']
  | idAt id a ih =>
    obtain ⟨hl, hb, hva⟩ := hv
    have hm : '\n' ∉ B64.marshalText B64.alphabet id :=
      fun h => nl_not_mem_alphabet ((marshalText_spec id hl hb).2 _ h)
    simp [marshal, hm, ih hva]
  | scheme s a ih =>
    obtain ⟨hs, hva⟩ := hv
    simp [marshal, hs.2.1, ih hva]

/-! ## marshal then parse -/
theorem parse_marshal (env : Env) (henv : EnvOK env) (g : Gram) (a : Addr) (hv : Valid env a) (hf : Fits g a) :
    parse env g (marshal a) = some a := by
  induction g generalizing a with
  | mem =>
    cases a <;> simp only [Fits] at hf
    rename_i n
    simp [parse, marshal, atoi_intStr n hv.1 hv.2]
  | udp =>
    cases a <;> simp only [Fits] at hf
    rename_i ip port
    obtain ⟨hip, hp⟩ := hv
    simp only [parse, marshal]
    rw [splitHostPort_joinHostPort ip port hip.2.2.2.1 hip.2.2.2.2]
    simp only [henv.scan_nat port hp, hip.1]
  | ssh =>
    cases a <;> simp only [Fits] at hf
    rename_i fp ip port
    obtain ⟨hne, hfp, hip, hp⟩ := hv
    have hnl := nl_not_mem_marshal env (.ssh fp ip port) ⟨hne, hfp, hip, hp⟩
    have e : marshal (.ssh fp ip port) = fp ++ '@' :: (ip ++ ':' :: natStr port) := by simp [marshal]
    rw [e] at hnl ⊢
    obtain ⟨htw, hdw⟩ := takeWhile_append_stop fpChar fp (ip ++ ':' :: natStr port) '@' hfp (by decide)
    have hc : ':' ∉ natStr port := natStr_not_mem port _ (by decide)
    have hfe : fp.isEmpty = false := by cases fp <;> simp_all
    have hie : ip.isEmpty = false := by have := hip.2.1; cases ip <;> simp_all
    have hcn : (fp ++ '@' :: (ip ++ ':' :: natStr port)).contains '\n' = false := by
      simpa using hnl
    simp only [parse, htw, hdw, hfe, hcn, lastIndexOf_append _ _ _ hc]
    simp [hie, parseUint16_natStr port hp, hip.1]
  | idAt g ih =>
    cases a <;> simp only [Fits] at hf
    rename_i id a
    obtain ⟨hl, hb, hva⟩ := hv
    obtain ⟨hlen, hal⟩ := marshalText_spec id hl hb
    have hat : '@' ∉ B64.marshalText B64.alphabet id := fun h => at_not_mem_alphabet (hal _ h)
    have e : marshal (.idAt id a) = B64.marshalText B64.alphabet id ++ '@' :: marshal a := by simp [marshal]
    have hidx : (B64.marshalText B64.alphabet id ++ '@' :: marshal a).idxOf '@' =
        (B64.marshalText B64.alphabet id).length := by
      rw [List.idxOf_append]; simp [hat]
    rw [e]
    simp only [parse, hidx]
    rw [if_neg (by simp)]
    simp [B64.peerid_roundtrip id hl hb, ih a hva hf]
  | mnil => cases a <;> simp only [Fits] at hf
  | mcons name g rest ihg ihr =>
    cases a <;> simp only [Fits] at hf
    rename_i s a
    obtain ⟨hs, hva⟩ := hv
    have hnl := nl_not_mem_marshal env (.scheme s a) ⟨hs, hva⟩
    have e : marshal (.scheme s a) = s ++ [':', '/', '/'] ++ marshal a := rfl
    have hsep := findSchemeSep_append s (marshal a) 0 (fun _ => hs.1) (fun j hj => hs.2.2 j (by omega))
      (marshal_ne_nil a)
    rw [Nat.zero_add] at hsep
    have hcn : (marshal (.scheme s a)).contains '\n' = false := by simpa using hnl
    have htake : (s ++ [':', '/', '/'] ++ marshal a).take s.length = s := by simp
    have hdrop : (s ++ [':', '/', '/'] ++ marshal a).drop (s.length + 3) = marshal a := by
      rw [List.append_assoc, List.drop_append]; simp
    simp only [parse, hcn]
    rw [e, hsep]
    simp only [htake, hdrop]
    rcases hf with ⟨rfl, hfa⟩ | ⟨hne, hfr⟩
    · simp [ihg a hva hfa]
    · rw [if_neg hne, ← e]
      exact ihr (.scheme s a) ⟨hs, hva⟩ hfr

/-! ## what `parse` returns -/
theorem all_takeWhile (p : Char → Bool) (l : Str) : ∀ c ∈ l.takeWhile p, p c = true := by
  induction l with
  | nil => simp
  | cons x l ih =>
    rw [List.takeWhile_cons]
    split
    · intro c hc
      rcases List.mem_cons.mp hc with rfl | hc
      · assumption
      · exact ih c hc
    · simp

/-- the name a scheme table matched is a legal scheme name -/
theorem schemeOK_take (t : Str) (i : Nat) (hnl : '\n' ∉ t) (hsep : findSchemeSep t 0 = some i) :
    schemeOK (t.take i) := by
  obtain ⟨j, hij, h1, h2, h3, h4⟩ := findSchemeSep_some t 0 i hsep
  rw [Nat.zero_add] at hij; subst hij
  refine ⟨?_, fun h => hnl (List.mem_of_mem_take h), ?_⟩
  · intro h
    have := congrArg List.length h
    rw [List.length_take, List.length_nil] at this; omega
  · intro j hj heq
    have hlen := congrArg List.length heq
    simp only [List.length_take, List.length_drop, List.length_cons, List.length_nil] at hlen
    apply h4 j (by omega) (by omega)
    rw [← heq, List.drop_take, List.take_take]
    congr 1; omega

/-- whatever a scheme table parses is a scheme address named by the text before the separator -/
theorem parse_table_shape (env : Env) (g : Gram) (hg : IsTable g) (t : Str) (a : Addr)
    (h : parse env g t = some a) : ∃ i a', findSchemeSep t 0 = some i ∧ a = .scheme (t.take i) a' := by
  induction g with
  | mem | udp | ssh | idAt => simp [IsTable] at hg
  | mnil => simp [parse] at h
  | mcons name g rest _ ihr =>
    simp only [parse] at h
    split at h
    · simp at h
    · split at h
      · simp at h
      · rename_i i hsep
        split at h
        · rename_i hname
          simp only [Option.map_eq_some_iff] at h
          obtain ⟨a', _, rfl⟩ := h
          exact ⟨i, a', hsep, by rw [hname]⟩
        · exact ihr hg h

theorem parse_sound (env : Env) (henv : EnvOK env) (g : Gram) (hg : GramOK g) (t : Str) (a : Addr)
    (h : parse env g t = some a) : Valid env a ∧ Fits g a := by
  induction g generalizing t a with
  | mem =>
    simp only [parse, Option.map_eq_some_iff] at h
    obtain ⟨n, hn, rfl⟩ := h
    exact ⟨atoi_range t n hn, trivial⟩
  | udp =>
    simp only [parse] at h
    split at h
    · simp at h
    · split at h
      · rename_i hs hi
        simp only [Option.some.injEq] at h; subst h
        exact ⟨⟨henv.ip_out _ _ hi, henv.scan_lt _ _ hs⟩, trivial⟩
      · simp at h
  | ssh =>
    simp only [parse] at h
    split at h
    · split at h
      · simp at h
      · rename_i hcond
        split at h
        · simp at h
        · split at h
          · simp at h
          · split at h
            · rename_i hp hi
              simp only [Option.some.injEq] at h; subst h
              simp only [Bool.or_eq_true, not_or, Bool.not_eq_true] at hcond
              refine ⟨⟨?_, all_takeWhile _ _, henv.ip_out _ _ hi, parseUint16_lt _ _ hp⟩, trivial⟩
              intro he; rw [he] at hcond; simp at hcond
            · simp at h
    · simp at h
  | idAt g ih =>
    simp only [parse] at h
    split at h
    · simp at h
    · split at h
      · rename_i hid ha
        simp only [Option.some.injEq] at h; subst h
        have h1 := B64.peerid_rejects_invalid _ _ hid
        have h2 := ih hg _ _ ha
        exact ⟨⟨h1.2.2.1, h1.2.2.2.1, h2.1⟩, h2.2⟩
      · simp at h
  | mnil => simp [parse] at h
  | mcons name g rest ihg ihr =>
    obtain ⟨hgg, htab, hgr⟩ := hg
    have h0 := h
    simp only [parse] at h
    split at h
    · simp at h
    · rename_i hnl
      have hnl' : '\n' ∉ t := by simpa using hnl
      split at h
      · simp at h
      · rename_i i hsep
        split at h
        · rename_i hname
          simp only [Option.map_eq_some_iff] at h
          obtain ⟨a', ha', rfl⟩ := h
          obtain ⟨hva, hfa⟩ := ihg hgg _ _ ha'
          have hok := schemeOK_take t i hnl' hsep
          rw [hname] at hok
          exact ⟨⟨hok, hva⟩, Or.inl ⟨rfl, hfa⟩⟩
        · rename_i hname
          obtain ⟨hva, hfa⟩ := ihr hgr _ _ h
          obtain ⟨i', a', hsep', rfl⟩ := parse_table_shape env rest htab t a h
          rw [hsep] at hsep'
          simp only [Option.some.injEq] at hsep'; subst hsep'
          exact ⟨hva, Or.inr ⟨hname, hfa⟩⟩

theorem parse_total_or_canonical (env : Env) (henv : EnvOK env) (g : Gram) (hg : GramOK g) (t : Str) (a : Addr)
    (h : parse env g t = some a) :
    Valid env a ∧ Fits g a ∧ parse env g (marshal a) = some a := by
  obtain ⟨hv, hf⟩ := parse_sound env henv g hg t a h
  exact ⟨hv, hf, parse_marshal env henv g a hv hf⟩

end P2PVerif.Addr
