import P2PVerif.Gen.Src
import P2PVerif.Model.Mux
import P2PVerif.Lemmas.Varint
import P2PVerif.Lemmas.SrcKad
/-! The five mux/demux function pairs of p/p2pmux as regenerated from the Go source (`Gen/Src.lean`): closed forms
    of what they compute on every input (no faults), and their relation to the hand-written model `Model/Mux.lean`. -/
namespace P2PVerif.SrcMux
open P2PVerif P2PVerif.Src P2PVerif.Go P2PVerif.SrcKad

theorem byteOf_toNat (n : Nat) : (Go.byteOf n).toNat = n % 256 := by
  simp [Go.byteOf, UInt8.toNat_ofNat]

theorem nb_map_byteOf (l : List Nat) (h : ∀ b ∈ l, b < 256) : nb (l.map Go.byteOf) = l := by
  induction l with
  | nil => rfl
  | cons a l ih =>
    simp only [List.map_cons, nb_cons, byteOf_toNat]
    rw [ih (fun b hb => h b (List.mem_cons_of_mem _ hb)), Nat.mod_eq_of_lt (h a (List.mem_cons_self ..))]

/-! ### fixed-width headers -/

def hdr16 (c : UInt16) : Go.Bytes := [Go.byteOf (c.toNat / 256), Go.byteOf c.toNat]
def hdr32 (c : UInt32) : Go.Bytes :=
  [Go.byteOf (c.toNat / 16777216), Go.byteOf (c.toNat / 65536), Go.byteOf (c.toNat / 256), Go.byteOf c.toNat]
def hdr64 (c : UInt64) : Go.Bytes :=
  [Go.byteOf (c.toNat / 72057594037927936), Go.byteOf (c.toNat / 281474976710656), Go.byteOf (c.toNat / 1099511627776),
   Go.byteOf (c.toNat / 4294967296), Go.byteOf (c.toNat / 16777216), Go.byteOf (c.toNat / 65536),
   Go.byteOf (c.toNat / 256), Go.byteOf c.toNat]

theorem u16Mux_eq (c : UInt16) (x : List Go.Bytes) : p2pmux.uint16MuxFunc c x = .ok (hdr16 c :: x) := by
  unfold p2pmux.uint16MuxFunc hdr16
  simp [Go.bePutU16, Go.splice]

theorem u32Mux_eq (c : UInt32) (x : List Go.Bytes) : p2pmux.uint32MuxFunc c x = .ok (hdr32 c :: x) := by
  unfold p2pmux.uint32MuxFunc hdr32
  simp [Go.bePutU32, Go.splice]

theorem u64Mux_eq (c : UInt64) (x : List Go.Bytes) : p2pmux.uint64MuxFunc c x = .ok (hdr64 c :: x) := by
  unfold p2pmux.uint64MuxFunc hdr64
  simp [Go.bePutU64, Go.splice]

theorem nb_hdr16 (c : UInt16) : nb (hdr16 c) = Mux.be2 c.toNat := by
  simp [hdr16, Mux.be2, byteOf_toNat]
theorem nb_hdr32 (c : UInt32) : nb (hdr32 c) = Mux.be4 c.toNat := by
  simp [hdr32, Mux.be4, byteOf_toNat]
theorem nb_hdr64 (c : UInt64) : nb (hdr64 c) = Mux.be8 c.toNat := by
  simp [hdr64, Mux.be8, byteOf_toNat]

theorem u16Demux_short (data : Go.Bytes) (h : data.length < 2) :
    p2pmux.uint16DemuxFunc data = .ok (0, [], some "too short to be uint16") := by
  unfold p2pmux.uint16DemuxFunc
  have : Go.len data < 2 := by simp only [Go.len]; omega
  simp [this]

theorem u16Demux_ok (b0 b1 : UInt8) (rest : Go.Bytes) :
    p2pmux.uint16DemuxFunc (b0 :: b1 :: rest) = .ok (UInt16.ofNat (b0.toNat * 256 + b1.toNat), rest, none) := by
  unfold p2pmux.uint16DemuxFunc
  have h1 : ¬ ((rest.length : Int) + 1 + 1 < 2) := by omega
  have h2 : (2 : Int) ≤ (rest.length : Int) + 1 + 1 := by omega
  simp [Go.len, Go.slice, Go.beU16, h1, h2]
  split
  · congr 3; exact List.take_of_length_le (by omega)
  · have : rest = [] := List.eq_nil_of_length_eq_zero (by omega)
    simp [this]

theorem u32Demux_short (data : Go.Bytes) (h : data.length < 4) :
    p2pmux.uint32DemuxFunc data = .ok (0, [], some "too short to be uint32") := by
  unfold p2pmux.uint32DemuxFunc
  have : Go.len data < 4 := by simp only [Go.len]; omega
  simp [this]

theorem u32Demux_ok (b0 b1 b2 b3 : UInt8) (rest : Go.Bytes) :
    p2pmux.uint32DemuxFunc (b0 :: b1 :: b2 :: b3 :: rest)
      = .ok (UInt32.ofNat (((b0.toNat * 256 + b1.toNat) * 256 + b2.toNat) * 256 + b3.toNat), rest, none) := by
  unfold p2pmux.uint32DemuxFunc
  have h1 : ¬ ((rest.length : Int) + 1 + 1 + 1 + 1 < 4) := by omega
  have h2 : (4 : Int) ≤ (rest.length : Int) + 1 + 1 + 1 + 1 := by omega
  simp [Go.len, Go.slice, Go.beU32, h1, h2]
  split
  · congr 3; exact List.take_of_length_le (by omega)
  · have : rest = [] := List.eq_nil_of_length_eq_zero (by omega)
    simp [this]

theorem u64Demux_short (data : Go.Bytes) (h : data.length < 8) :
    p2pmux.uint64DemuxFunc data = .ok (0, [], some "too short to be uint64") := by
  unfold p2pmux.uint64DemuxFunc
  have : Go.len data < 8 := by simp only [Go.len]; omega
  simp [this]

theorem u64Demux_ok (b0 b1 b2 b3 b4 b5 b6 b7 : UInt8) (rest : Go.Bytes) :
    p2pmux.uint64DemuxFunc (b0 :: b1 :: b2 :: b3 :: b4 :: b5 :: b6 :: b7 :: rest)
      = .ok (UInt64.ofNat (((((((b0.toNat * 256 + b1.toNat) * 256 + b2.toNat) * 256 + b3.toNat) * 256 + b4.toNat) * 256
          + b5.toNat) * 256 + b6.toNat) * 256 + b7.toNat), rest, none) := by
  unfold p2pmux.uint64DemuxFunc
  have h1 : ¬ ((rest.length : Int) + 1 + 1 + 1 + 1 + 1 + 1 + 1 + 1 < 8) := by omega
  have h2 : (8 : Int) ≤ (rest.length : Int) + 1 + 1 + 1 + 1 + 1 + 1 + 1 + 1 := by omega
  simp [Go.len, Go.slice, Go.beU64, h1, h2]
  split
  · congr 3; exact List.take_of_length_le (by omega)
  · have : rest = [] := List.eq_nil_of_length_eq_zero (by omega)
    simp [this]

/-! ### varint and string headers -/

theorem uvarintBytes_len (c : UInt64) : (Go.uvarintBytes c).length ≤ 10 := by
  simp only [Go.uvarintBytes, List.length_map]
  exact Varint.put_length_le_10 _ c.toNat_lt

theorem nb_uvarintBytes (c : UInt64) : nb (Go.uvarintBytes c) = Varint.put c.toNat :=
  nb_map_byteOf _ (Varint.put_bytes_lt _)

theorem putUvarint_ok (buf : Go.Bytes) (c : UInt64) (h : 10 ≤ buf.length) :
    Go.putUvarint buf c
      = .ok (Go.uvarintBytes c ++ buf.drop (Go.uvarintBytes c).length, ((Go.uvarintBytes c).length : Int)) := by
  unfold Go.putUvarint
  have := uvarintBytes_len c
  have : ¬ buf.length < (Go.uvarintBytes c).length := by omega
  simp [this]

theorem varintMux_eq (c : UInt64) (x : List Go.Bytes) :
    p2pmux.varintMuxFunc c x = .ok (Go.uvarintBytes c :: x) := by
  unfold p2pmux.varintMuxFunc
  have hl := uvarintBytes_len c
  rw [Go.makeList_ok _ _ (by omega)]
  simp only [bind_ok]
  rw [putUvarint_ok _ _ (by simp)]
  simp only [bind_ok]
  rw [Go.slice_to _ _ (by simp)]
  simp

theorem stringMux_eq (c : Go.Bytes) (x : List Go.Bytes) (hc : c.length < 2 ^ 64) :
    p2pmux.stringMuxFunc c x = .ok ((Go.uvarintBytes (UInt64.ofNat c.length) ++ c) :: x) := by
  unfold p2pmux.stringMuxFunc
  have hl := uvarintBytes_len (UInt64.ofNat c.length)
  rw [Go.makeList_ok _ _ (by simp only [Go.len]; omega)]
  simp only [bind_ok]
  have e : Go.toU64 (Go.len c) = UInt64.ofNat c.length := by
    simp only [Go.toU64, Go.len]
    congr 1
    have : ((c.length : Int) % 18446744073709551616) = (c.length : Int) := Int.emod_eq_of_lt (by omega) (by omega)
    rw [this]; simp
  rw [e, putUvarint_ok _ _ (by simp [Go.len]; omega)]
  simp only [bind_ok]
  rw [Go.slice_to _ _ (by simp)]
  simp

/-- the result of `binary.Uvarint` on Nat-valued bytes, as the Go pair -/
theorem uvarint_model (data : Go.Bytes) :
    Go.uvarint data = match Varint.get (nb data) with
      | .ok v n => (UInt64.ofNat v, (n : Int))
      | .short => (0, 0)
      | .overflow i => (0, -((i : Int) + 1)) := rfl

theorem varintDemux_eq (data : Go.Bytes) :
    p2pmux.varintDemuxFunc data = match Varint.get (nb data) with
      | .ok v n => if 1 ≤ n ∧ n ≤ data.length then .ok (UInt64.ofNat v, data.drop n, none)
                   else if n < 1 then .ok (0, [], some "intmux: could not read message %q") else .error .slice
      | _ => .ok (0, [], some "intmux: could not read message %q") := by
  unfold p2pmux.varintDemuxFunc
  rw [uvarint_model]
  cases h : Varint.get (nb data) with
  | ok v n =>
    simp only [decide_eq_true_eq]
    by_cases h1 : (n : Int) < 1
    · have : ¬ (1 ≤ n ∧ n ≤ data.length) := by omega
      have : n < 1 := by omega
      simp [h1, *]
    · by_cases h2 : n ≤ data.length
      · have : 1 ≤ n ∧ n ≤ data.length := by omega
        simp only [h1, if_false, this, and_self, if_true]
        rw [Go.slice_from _ _ h2]
        rfl
      · have h3 : ¬ (1 ≤ n ∧ n ≤ data.length) := by omega
        have h4 : ¬ n < 1 := by omega
        simp only [h1, if_false, h3, h4]
        unfold Go.slice Go.len
        simp [h2]
  | short => simp
  | overflow i =>
    have : (-((i : Int) + 1)) < 1 := by omega
    simp [this]

theorem getAux_bounds : ∀ (bs : List Nat) (acc s i v n : Nat), Varint.getAux acc s i bs = .ok v n →
    i + 1 ≤ n ∧ n ≤ i + bs.length ∧ v < 2 ^ 64 := by
  intro bs
  induction bs with
  | nil => intro acc s i v n h; simp [Varint.getAux] at h
  | cons b bs ih =>
    intro acc s i v n h
    simp only [Varint.getAux] at h
    split at h
    · cases h
    · split at h
      · split at h
        · cases h
        · injection h with h1 h2
          subst h1 h2
          refine ⟨by omega, by simp, Nat.mod_lt _ (by decide)⟩
      · have := ih _ _ _ _ _ h
        simp only [List.length_cons]
        omega

theorem get_bounds (bs : List Nat) (v n : Nat) (h : Varint.get bs = .ok v n) :
    1 ≤ n ∧ n ≤ bs.length ∧ v < 2 ^ 64 := by
  have := getAux_bounds bs 0 0 0 v n h
  omega

/-- `varintDemuxFunc` never faults: it is the model's `demux .varint` -/
theorem varintDemux_model (data : Go.Bytes) :
    p2pmux.varintDemuxFunc data = match Varint.get (nb data) with
      | .ok v n => .ok (UInt64.ofNat v, data.drop n, none)
      | _ => .ok (0, [], some "intmux: could not read message %q") := by
  rw [varintDemux_eq]
  cases h : Varint.get (nb data) with
  | ok v n =>
    have := get_bounds _ _ _ h
    simp only [nb_length] at this
    simp [this.1, this.2.1]
  | short => rfl
  | overflow i => rfl

theorem u64_ofNat_toNat (l : Nat) (h : l < 2 ^ 64) : (UInt64.ofNat l).toNat = l := by
  simp only [UInt64.toNat_ofNat']
  exact Nat.mod_eq_of_lt h

/-- `stringDemuxFunc` (every Go slice is shorter than 2^63) -/
theorem stringDemux_model (x : Go.Bytes) (hx : x.length < 2 ^ 63) :
    p2pmux.stringDemuxFunc x = match Varint.get (nb x) with
      | .ok l n =>
        if (x.drop n).length < l then .ok ([], [], some "stringmux: length smaller than message")
        else .ok ((x.drop n).take l, (x.drop n).drop l, none)
      | _ => .ok ([], [], some "stringmux: could not read message") := by
  unfold p2pmux.stringDemuxFunc
  rw [uvarint_model]
  cases h : Varint.get (nb x) with
  | short => simp
  | overflow i =>
    have : (-((i : Int) + 1)) < 1 := by omega
    simp [this]
  | ok l n =>
    have hb := get_bounds _ _ _ h
    simp only [nb_length] at hb
    have h1 : ¬ ((n : Int) < 1) := by omega
    simp only [decide_eq_true_eq, h1, if_false]
    rw [Go.slice_from _ _ hb.2.1]
    simp only [bind_ok]
    have hdl : (x.drop n).length < 2 ^ 63 := by simp; omega
    generalize x.drop n = y at hdl ⊢
    have hl64 := u64_ofNat_toNat l hb.2.2
    have e1 : Go.toU64 (Go.len y) = UInt64.ofNat y.length := by
      simp only [Go.toU64, Go.len]
      congr 1
      have : ((y.length : Int) % 18446744073709551616) = (y.length : Int) :=
        Int.emod_eq_of_lt (by omega) (by omega)
      rw [this]; simp
    have e2 : (UInt64.ofNat y.length < UInt64.ofNat l) ↔ y.length < l := by
      rw [UInt64.lt_iff_toNat_lt, hl64, u64_ofNat_toNat _ (by omega)]
    rw [e1]
    simp only [e2]
    by_cases hlt : y.length < l
    · rw [if_pos hlt, if_pos hlt]; rfl
    · have hle : l ≤ y.length := by omega
      rw [if_neg hlt, if_neg hlt, hl64, Go.slice_to _ _ hle]
      simp only [bind_ok]
      have e3 : Go.intOfU64 (UInt64.ofNat l) = (l : Int) := by
        simp only [Go.intOfU64, hl64]
        have : l < 9223372036854775808 := by omega
        simp [this]
      rw [e3]
      by_cases hlt2 : (l : Int) < Go.len y
      · rw [if_pos (by simpa using hlt2), Go.slice_from _ _ hle]
        rfl
      · have : y.drop l = [] := List.drop_eq_nil_of_le (by simp only [Go.len] at hlt2; omega)
        rw [if_neg (by simpa using hlt2), this]
        rfl

end P2PVerif.SrcMux
