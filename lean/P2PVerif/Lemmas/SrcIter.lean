import P2PVerif.Gen.Src
import P2PVerif.Lemmas.SrcLoops
import P2PVerif.Lemmas.SrcKad
/-! The regenerated `kademlia.dhtIterate` (with `pop`, `contains`, the map of seen ids and `slices.SortFunc`):
    an invariant rule that holds for EVERY pure callback, proved on the definition the translator produces from
    p/kademlia/dht.go. The model-level rule `DHT.iterate_inv` has the same shape. -/
namespace P2PVerif.Go

/-- what a finished loop satisfies -/
def Out.sat {σ ρ} (Inv : σ → Prop) (Q : ρ → Prop) : Out σ ρ → Prop
  | .done s => Inv s
  | .ret r => Q r

/-- invariant rule for `Go.loop` (fuel may run out; nothing else goes wrong) -/
theorem loop_inv {σ ρ} (Inv : σ → Prop) (Q : ρ → Prop) (cond : σ → M Bool) (body : σ → M (Ctl σ ρ)) (post : σ → M σ)
    (hc : ∀ s, Inv s → ∃ b, cond s = .ok b)
    (hb : ∀ s, Inv s → cond s = .ok true → ∃ c, body s = .ok c ∧
      match c with | .next s' => Inv s' | .brk s' => Inv s' | .ret r => Q r)
    (hp : ∀ s, Inv s → ∃ s', post s = .ok s' ∧ Inv s') :
    ∀ (fuel : Nat) (s : σ), Inv s →
      loop fuel s cond body post = .error .fuel ∨
      ∃ o, loop fuel s cond body post = .ok o ∧ o.sat Inv Q := by
  intro fuel
  induction fuel with
  | zero => intro s _; left; rfl
  | succ n ih =>
    intro s hs
    obtain ⟨b, hcb⟩ := hc s hs
    cases b with
    | false =>
      right
      refine ⟨.done s, ?_, hs⟩
      simp [loop, hcb]
    | true =>
      obtain ⟨c, hbc, hcI⟩ := hb s hs hcb
      cases c with
      | next s' =>
        obtain ⟨s'', hps, hI⟩ := hp s' hcI
        have := ih s'' hI
        simp only [loop, hcb, hbc, hps, bind_ok, if_true]
        exact this
      | brk s' =>
        right
        exact ⟨.done s', by simp [loop, hcb, hbc], hcI⟩
      | ret r =>
        right
        exact ⟨.ret r, by simp [loop, hcb, hbc], hcI⟩

/-- invariant rule for `Go.forEach` whose body never returns from the function -/
theorem forEach_inv {α σ ρ} (Inv : σ → Prop) (f : Int → α → σ → M (Ctl σ ρ)) :
    ∀ (xs : List α) (i : Int) (s : σ), Inv s →
      (∀ j x s, x ∈ xs → Inv s → ∃ s', f j x s = .ok (.next s') ∧ Inv s') →
      ∃ s', forEach xs i s f = .ok (.done s') ∧ Inv s' := by
  intro xs
  induction xs with
  | nil => intro i s hs _; exact ⟨s, rfl, hs⟩
  | cons x xs ih =>
    intro i s hs h
    obtain ⟨s', h1, h2⟩ := h i x s (by simp) hs
    simp only [forEach, h1, bind_ok]
    exact ih (i + 1) s' h2 (fun j y s hy hs => h j y s (by simp [hy]) hs)

/-! ### maps -/

def Map.keys {κ ν} (m : Map κ ν) : List κ := m.map Prod.fst

theorem mapGet_true {κ ν} [BEq κ] [LawfulBEq κ] (m : Map κ ν) (k : κ) (z : ν) :
    (mapGet m k z).2 = true ↔ k ∈ Map.keys m := by
  unfold mapGet Map.keys
  induction m with
  | nil => simp [List.lookup]
  | cons p ps ih =>
    obtain ⟨a, b⟩ := p
    simp only [List.lookup, List.map_cons, List.mem_cons]
    by_cases hk : k == a
    · simp only [hk]
      simp [eq_of_beq hk]
    · simp only [hk]
      have : k ≠ a := fun e => hk (by simp [e])
      simp only [this, false_or]
      exact ih

theorem keys_mapSet_fresh {κ ν} [BEq κ] [LawfulBEq κ] (m : Map κ ν) (k : κ) (v : ν) (h : k ∉ Map.keys m) :
    Map.keys (mapSet m k v) = k :: Map.keys m := by
  unfold mapSet Map.keys
  simp only [List.map_cons, List.cons.injEq, true_and]
  congr 1
  apply List.filter_eq_self.2
  intro p hp
  simp only [Bool.not_eq_true', beq_eq_false_iff_ne, ne_eq]
  intro e
  exact h (by unfold Map.keys; exact List.mem_map.2 ⟨p, hp, e⟩)

/-! ### sorting with a pure comparator -/

def insertP {α} (lt : α → α → Bool) (x : α) : List α → List α
  | [] => [x]
  | y :: ys => if lt x y then x :: y :: ys else y :: insertP lt x ys

def sortP {α} (lt : α → α → Bool) (xs : List α) : List α := xs.foldl (fun acc x => insertP lt x acc) []

theorem insertBy_pure {α} (less : α → α → M Bool) (lt : α → α → Bool) (h : ∀ a b, less a b = .ok (lt a b)) (x : α) :
    ∀ l, insertBy less x l = .ok (insertP lt x l) := by
  intro l
  induction l with
  | nil => rfl
  | cons y ys ih =>
    simp only [insertBy, h, bind_ok, insertP]
    cases lt x y with
    | true => rfl
    | false => simp [ih]

theorem sortFunc_pure {α} (less : α → α → M Bool) (lt : α → α → Bool) (h : ∀ a b, less a b = .ok (lt a b)) (xs : List α) :
    sortFunc xs less = .ok (sortP lt xs) := by
  unfold sortFunc sortP
  generalize ([] : List α) = acc
  induction xs generalizing acc with
  | nil => rfl
  | cons x xs ih =>
    simp only [List.foldlM_cons, List.foldl_cons]
    rw [insertBy_pure less lt h x acc]
    exact ih _

theorem mem_insertP {α} (lt : α → α → Bool) (x y : α) (l : List α) : y ∈ insertP lt x l ↔ y = x ∨ y ∈ l := by
  induction l with
  | nil => simp [insertP]
  | cons z zs ih =>
    simp only [insertP]
    split
    · simp
    · simp only [List.mem_cons, ih]
      constructor
      · rintro (h | h | h)
        · exact .inr (.inl h)
        · exact .inl h
        · exact .inr (.inr h)
      · rintro (h | h | h)
        · exact .inr (.inl h)
        · exact .inl h
        · exact .inr (.inr h)

theorem mem_sortP {α} (lt : α → α → Bool) (y : α) (xs : List α) : y ∈ sortP lt xs ↔ y ∈ xs := by
  unfold sortP
  have : ∀ acc, y ∈ xs.foldl (fun acc x => insertP lt x acc) acc ↔ y ∈ acc ∨ y ∈ xs := by
    induction xs with
    | nil => intro acc; simp
    | cons x xs ih =>
      intro acc
      simp only [List.foldl_cons, ih, mem_insertP, List.mem_cons]
      constructor
      · rintro ((h | h) | h)
        · exact .inr (.inl h)
        · exact .inl h
        · exact .inr (.inr h)
      · rintro (h | h | h)
        · exact .inl (.inr h)
        · exact .inl (.inl h)
        · exact .inr h
  simpa using this []

theorem length_insertP {α} (lt : α → α → Bool) (x : α) (l : List α) : (insertP lt x l).length = l.length + 1 := by
  induction l with
  | nil => rfl
  | cons z zs ih => simp only [insertP]; split <;> simp [ih]

theorem length_sortP {α} (lt : α → α → Bool) (xs : List α) : (sortP lt xs).length = xs.length := by
  unfold sortP
  have : ∀ acc : List α, (xs.foldl (fun acc x => insertP lt x acc) acc).length = acc.length + xs.length := by
    induction xs with
    | nil => intro acc; simp
    | cons x xs ih => intro acc; simp only [List.foldl_cons, ih, length_insertP, List.length_cons]; omega
  simpa using this []

end P2PVerif.Go

namespace P2PVerif.Src
open P2PVerif P2PVerif.Go

/-- `pop` on a non-empty slice: the first element, and a rest made of elements of the slice, one shorter -/
theorem pop_spec {E : Type} [Inhabited E] (xs : List E) (h : xs ≠ []) :
    ∃ rest, kademlia.pop xs = .ok (xs.head h, rest) ∧ (∀ y ∈ rest, y ∈ xs) ∧ rest.length + 1 = xs.length := by
  cases xs with
  | nil => exact absurd rfl h
  | cons a t =>
    unfold kademlia.pop
    have hl : (Go.len (a :: t)) - (1 : Int) = (t.length : Int) := by simp [Go.len]
    simp only [hl, bind_ok, pure_eq]
    have h0 : Go.idx (a :: t) (0 : Int) = .ok a := by
      rw [show (0 : Int) = ((0 : Nat) : Int) from rfl, Go.idx_ofNat _ _ (by simp)]; rfl
    have hlast : Go.idx (a :: t) (t.length : Int) = .ok ((a :: t)[t.length]'(by simp)) := Go.idx_ofNat _ _ (by simp)
    simp only [hlast, h0, bind_ok]
    rw [Go.setIdx_ok _ _ _ (by omega) (by simp)]
    simp only [bind_ok, Int.toNat_zero, List.set_cons_zero]
    have hl2 : (Go.len ((a :: t)[t.length]'(by simp) :: t)) - (1 : Int) = (t.length : Int) := by simp [Go.len]
    simp only [hl2]
    rw [Go.setIdx_ok _ _ _ (by omega) (by simp)]
    simp only [bind_ok, Int.toNat_natCast]
    have hl3 : (Go.len (((a :: t)[t.length]'(by simp) :: t).set t.length a)) - (1 : Int) = (t.length : Int) := by simp [Go.len]
    simp only [hl3]
    rw [Go.idx_ofNat _ _ (by simp)]
    simp only [bind_ok]
    rw [Go.slice_to _ _ (by simp)]
    simp only [bind_ok]
    refine ⟨List.take t.length (((a :: t)[t.length]'(by simp) :: t).set t.length a), ?_, ?_, ?_⟩
    · congr 2
      simp
    · intro y hy
      have hy := List.mem_of_mem_take hy
      rcases List.mem_or_eq_of_mem_set hy with hy | hy
      · simp only [List.mem_cons] at hy
        rcases hy with hy | hy
        · rw [hy]; exact List.getElem_mem _
        · exact List.mem_cons_of_mem _ hy
      · rw [hy]; simp
    · simp

/-- `contains` with a pure predicate -/
theorem contains_pure {E : Type} [Inhabited E] (xs : List E) (x : E) (fn : E → E → Go.M Bool) (p : E → E → Bool)
    (h : ∀ a b, fn a b = .ok (p a b)) : kademlia.contains xs x fn = .ok (xs.any (fun a => p a x)) := by
  unfold kademlia.contains
  rw [Go.forRange_eq_pure (fun _ => True) _ (fun j _ => if p (xs.getD j.toNat default) x then .ret true else .next ()) 0 (Go.len xs) () trivial]
  · have : ∀ (n k : Nat), k + n = xs.length →
        Go.pureLoopN (σ := Unit) (ρ := Bool) n (k : Int) () (fun j _ => if p (xs.getD j.toNat default) x then .ret true else .next ())
          = if (xs.drop k).any (fun a => p a x) then .ret true else .done () := by
      intro n
      induction n with
      | zero => intro k hk; simp [Go.pureLoopN, List.drop_eq_nil_of_le (by omega : xs.length ≤ k)]
      | succ n ih =>
        intro k hk
        have hk' : k < xs.length := by omega
        simp only [Go.pureLoopN, Int.toNat_natCast, List.getD_eq_getElem?_getD, List.getElem?_eq_getElem hk', Option.getD_some]
        rw [List.drop_eq_getElem_cons hk', List.any_cons]
        cases hp : p xs[k] x with
        | true => simp
        | false =>
          simp only [Bool.false_eq_true, if_false, Bool.false_or]
          rw [show ((k : Int) + 1) = ((k + 1 : Nat) : Int) by omega]
          exact ih (k + 1) (by omega)
    have := this xs.length 0 (by omega)
    simp only [Go.len, Int.sub_zero, Int.toNat_natCast]
    simp only [Int.natCast_zero, List.drop_zero] at this
    rw [this]
    cases xs.any (fun a => p a x) <;> rfl
  · intro j s h0 h1 _
    refine ⟨?_, fun _ _ => trivial⟩
    have h1' : j.toNat < xs.length := by simp only [Go.len] at h1; omega
    simp only [Go.idx_ok xs j h0 h1', bind_ok, h, List.getD_eq_getElem?_getD, List.getElem?_eq_getElem h1', Option.getD_some]
    cases p xs[j.toNat] x <;> rfl

open P2PVerif.SrcKad

/-- the comparator `dhtIterate` sorts with, as a pure function -/
def ltN (key : Go.Bytes) (a b : kademlia.NodeInfoT) : Bool := Kad.distanceLt (nb key) (nb a.ID) (nb b.ID)

theorem bind_cases {α β : Type} {x : Go.M α} {k : α → Go.M β} {Post : α → Prop} {Fin : β → Prop}
    (hx : x = .error .fuel ∨ ∃ o, x = .ok o ∧ Post o)
    (hk : ∀ o, Post o → k o = .error .fuel ∨ ∃ b, k o = .ok b ∧ Fin b) :
    (x >>= k) = .error .fuel ∨ ∃ b, (x >>= k) = .ok b ∧ Fin b := by
  rcases hx with hx | ⟨o, hx, ho⟩
  · left; rw [hx]; rfl
  · rw [hx]; exact hk o ho

theorem bind_done {σ ρ β : Type} {x : Go.M (Go.Out σ ρ)} {k : Go.Out σ ρ → Go.M β} {I : σ → Prop} {G : β → Prop}
    (hx : ∃ s', x = .ok (.done s') ∧ I s') (hk : ∀ s', I s' → ∃ c, k (.done s') = .ok c ∧ G c) :
    ∃ c, (x >>= k) = .ok c ∧ G c := by
  obtain ⟨s', hx, hI⟩ := hx
  rw [hx]; exact hk s' hI

/-- one round of `dhtIterate` after sorting and truncating: shared by the two branches of the truncation -/
syntax "iter_round" : tactic
set_option hygiene false in
macro_rules
  | `(tactic| iter_round) => `(tactic| (
      obtain ⟨rest, hpop, hrest, _⟩ := pop_spec X hXne
      simp only [hpop, bind_ok]
      have hrP : ∀ x ∈ rest, P x := fun x hx => hXP x (hrest x hx)
      by_cases hex : (Go.mapGet seen (X.head hXne).ID ()).2 = true
      · simp only [hex, if_true]
        exact ⟨_, rfl, hrP, hR⟩
      · simp only [hex, if_false]
        have hnot : (X.head hXne).ID ∉ Go.Map.keys seen := fun hm => hex ((Go.mapGet_true _ _ _).2 hm)
        obtain ⟨hR', hnew⟩ := hstep _ st (X.head hXne) hR (hXP _ (List.head_mem hXne)) hnot
        have hkeys := Go.keys_mapSet_fresh seen (X.head hXne).ID () hnot
        by_cases hcont : (g st (X.head hXne)).2.2 = true
        · simp only [hcont, Bool.not_true, Bool.false_eq_true, if_false]
          refine bind_done (I := fun q : List kademlia.NodeInfoT => ∀ x ∈ q, P x) ?fe ?fin2
          case fe =>
            apply Go.forEach_inv (fun q : List kademlia.NodeInfoT => ∀ x ∈ q, P x)
            · exact hrP
            · intro j nn q hnn hq
              simp only [hcmp, bind_ok]
              cases hltn : ltN key nn (X.head hXne) with
              | false => exact ⟨q, rfl, hq⟩
              | true =>
                simp only [Bool.not_true, Bool.false_eq_true, if_false]
                split
                · exact ⟨q, rfl, hq⟩
                · rw [contains_pure q nn _ (fun a b => decide (a.ID = b.ID)) (fun _ _ => rfl)]
                  simp only [bind_ok]
                  cases q.any (fun a => decide (a.ID = nn.ID)) with
                  | true => exact ⟨q, rfl, hq⟩
                  | false =>
                    refine ⟨q ++ [nn], rfl, ?_⟩
                    intro x hx
                    rcases List.mem_append.1 hx with hx | hx
                    · exact hq x hx
                    · rw [List.mem_singleton.1 hx]; exact hnew nn hnn hltn
          case fin2 =>
            intro q hqP
            refine ⟨_, rfl, hqP, ?_⟩
            show R (Go.Map.keys (Go.mapSet seen (X.head hXne).ID ())) _
            rw [hkeys]; exact hR'
        · simp only [hcont, Bool.not_false, if_true]
          refine ⟨_, rfl, hrP, ?_⟩
          show R (Go.Map.keys (Go.mapSet seen (X.head hXne).ID ())) _
          rw [hkeys]; exact hR'))

theorem iterate_body_inv {σ : Type} (key : Go.Bytes) (n : Int) (hn : ¬ n < 1)
    (g : σ → kademlia.NodeInfoT → σ × List kademlia.NodeInfoT × Bool)
    (P : kademlia.NodeInfoT → Prop) (R : List Go.Bytes → σ → Prop)
    (hstep : ∀ seen st node, R seen st → P node → node.ID ∉ seen →
      R (node.ID :: seen) (g st node).1 ∧ ∀ x ∈ (g st node).2.1, ltN key x node = true → P x)
    (nodes : List kademlia.NodeInfoT) (hP : ∀ x ∈ nodes, P x) (st0 : σ) (h0 : R [] st0) :
    kademlia.dhtIterate nodes key n (fun s x => pure (g s x)) st0 = .error .fuel ∨
    ∃ st, kademlia.dhtIterate nodes key n (fun s x => pure (g s x)) st0 = .ok st ∧ ∃ seen, R seen st := by
  unfold kademlia.dhtIterate
  by_cases hne : Go.len nodes = 0
  · right
    exact ⟨st0, by simp [hne], [], h0⟩
  · simp only [hne, decide_false, Bool.false_eq_true, if_false, hn]
    let Inv : (List kademlia.NodeInfoT × Go.Map Go.Bytes Unit × σ) → Prop :=
      fun s => (∀ x ∈ s.1, P x) ∧ R (Map.keys s.2.1) s.2.2
    have hcmp : ∀ a b : kademlia.NodeInfoT, kademlia.DistanceLt key a.ID b.ID = .ok (ltN key a b) :=
      fun a b => DistanceLt_eq key a.ID b.ID
    have hid : ∀ a b : kademlia.NodeInfoT,
        (do pure (decide (a.ID = b.ID)) : Go.M Bool) = .ok (decide (a.ID = b.ID)) := fun _ _ => rfl
    refine bind_cases (Post := Go.Out.sat Inv (fun _ => False)) ?L ?fin
    case fin =>
      intro o ho
      cases o with
      | ret r => exact absurd ho id
      | done s => right; exact ⟨s.2.2, rfl, Map.keys s.2.1, ho.2⟩
    case L =>
      apply Go.loop_inv Inv (fun _ => False)
      · intro s _; exact ⟨_, rfl⟩
      · intro s hs hcond
        obtain ⟨ns, seen, st⟩ := s
        obtain ⟨hPn, hR⟩ := hs
        simp only [] at hPn hR
        have hlen : 0 < ns.length := by
          simp only [pure_eq, Except.ok.injEq, Go.len] at hcond
          have := of_decide_eq_true hcond
          omega
        have hsort := Go.sortFunc_pure _ (ltN key) hcmp ns
        simp only [hsort, bind_ok, pure_eq]
        have hsl : (Go.sortP (ltN key) ns).length = ns.length := Go.length_sortP _ _
        have hsP : ∀ x ∈ Go.sortP (ltN key) ns, P x := fun x hx => hPn x ((Go.mem_sortP _ _ _).1 hx)
        split
        · rename_i hgt
          have hgt := of_decide_eq_true hgt
          simp only [Go.len, gt_iff_lt] at hgt
          have hn1 : (1 : Int) ≤ n := by omega
          have hsl2 : Go.slice (Go.sortP (ltN key) ns) 0 n = .ok ((Go.sortP (ltN key) ns).take n.toNat) := by
            have := Go.slice_to (Go.sortP (ltN key) ns) n.toNat (by omega)
            rwa [show ((n.toNat : Nat) : Int) = n by omega] at this
          simp only [hsl2, bind_ok]
          have hXne : (Go.sortP (ltN key) ns).take n.toNat ≠ [] := by
            intro e
            have := congrArg List.length e
            simp only [List.length_take, List.length_nil] at this
            omega
          have hXP : ∀ x ∈ (Go.sortP (ltN key) ns).take n.toNat, P x := fun x hx => hsP x (List.mem_of_mem_take hx)
          generalize (Go.sortP (ltN key) ns).take n.toNat = X at hXne hXP ⊢
          iter_round
        · have hXne : Go.sortP (ltN key) ns ≠ [] := by
            intro e
            have := congrArg List.length e
            simp only [List.length_nil] at this
            omega
          have hXP := hsP
          generalize Go.sortP (ltN key) ns = X at hXne hXP ⊢
          iter_round
      · intro s hs; exact ⟨s, rfl, hs⟩
      · exact ⟨hP, h0⟩
end P2PVerif.Src

namespace P2PVerif.Src
open P2PVerif P2PVerif.Go P2PVerif.SrcKad

/-- the invariant rule for the regenerated `dhtIterate`, for every candidate limit: with `n < 1` and a non-empty
    candidate list the function panics (as the source says), otherwise it ends with the invariant or runs out of
    the model's loop fuel (2^64 + 1 rounds); no other run-time fault is possible. -/
theorem dhtIterate_inv {σ : Type} (key : Go.Bytes) (n : Int)
    (g : σ → kademlia.NodeInfoT → σ × List kademlia.NodeInfoT × Bool)
    (P : kademlia.NodeInfoT → Prop) (R : List Go.Bytes → σ → Prop)
    (hstep : ∀ seen st node, R seen st → P node → node.ID ∉ seen →
      R (node.ID :: seen) (g st node).1 ∧ ∀ x ∈ (g st node).2.1, ltN key x node = true → P x)
    (nodes : List kademlia.NodeInfoT) (hP : ∀ x ∈ nodes, P x) (st0 : σ) (h0 : R [] st0) :
    kademlia.dhtIterate nodes key n (fun s x => pure (g s x)) st0 = .error .fuel ∨
    (nodes ≠ [] ∧ n < 1 ∧ kademlia.dhtIterate nodes key n (fun s x => pure (g s x)) st0 = .error (.panic "panic")) ∨
    ∃ st, kademlia.dhtIterate nodes key n (fun s x => pure (g s x)) st0 = .ok st ∧ ∃ seen, R seen st := by
  by_cases hn : n < 1
  · by_cases hne : nodes = []
    · right; right
      refine ⟨st0, ?_, [], h0⟩
      unfold kademlia.dhtIterate
      simp [hne, Go.len]
    · right; left
      refine ⟨hne, hn, ?_⟩
      unfold kademlia.dhtIterate
      have : ¬ Go.len nodes = 0 := by
        simp only [Go.len]
        intro e
        exact hne (List.length_eq_zero_iff.1 (by omega))
      simp [this, hn]
  · rcases iterate_body_inv key n hn g P R hstep nodes hP st0 h0 with h | h
    · exact .inl h
    · exact .inr (.inr h)

end P2PVerif.Src
