import P2PVerif.Gen.Src
import P2PVerif.Model.Mbapp
import P2PVerif.Lemmas.SrcMbapp
/-! p/mbapp/message.go: the header getters, as regenerated from the Go source, read the fields of `Mbapp.decode`. -/
namespace P2PVerif.SrcHdr
open P2PVerif P2PVerif.Src P2PVerif.Go P2PVerif.SrcKad

/-- word `n` of a header, as a number -/
def word (h : Go.Bytes) (n : Nat) : Nat := Mbapp.val32 (nb ((h.drop (4 * n)).take 4))

theorem getUint32_eq (h : Go.Bytes) (n : Nat) (hn : 4 * n + 4 ≤ h.length) :
    mbapp.Header.getUint32 h (n : Int) = .ok (UInt32.ofNat (word h n)) := by
  unfold mbapp.Header.getUint32
  have e1 : ((n : Int) * 4) = ((4 * n : Nat) : Int) := by omega
  have e2 : (((n : Int) + 1) * 4) = ((4 * n + 4 : Nat) : Int) := by omega
  rw [e1, e2, Go.slice_ok _ _ _ (by omega) (by omega) (by omega)]
  simp only [bind_ok, Int.toNat_natCast]
  have e3 : (((4 * n + 4 : Nat) : Int) - ((4 * n : Nat) : Int)).toNat = 4 := by omega
  rw [e3]
  have hl : ((h.drop (4 * n)).take 4).length = 4 := by simp; omega
  match hx : (h.drop (4 * n)).take 4, hl with
  | [a, b, c, d], _ =>
    simp [Go.beU32, word, hx, Mbapp.val32]

theorem u32_ofNat_toNat (v : Nat) (h : v < 2 ^ 32) : (UInt32.ofNat v).toNat = v := by
  simp only [UInt32.toNat_ofNat']
  exact Nat.mod_eq_of_lt h

theorem val32_lt (l : Bytes) (h : ∀ b ∈ l, b < 256) : Mbapp.val32 l < 2 ^ 32 := by
  match l with
  | [a, b, c, d] =>
    have ha := h a (by simp); have hb := h b (by simp); have hc := h c (by simp); have hd := h d (by simp)
    simp only [Mbapp.val32]; omega
  | [] => simp [Mbapp.val32]
  | [_] => simp [Mbapp.val32]
  | [_, _] => simp [Mbapp.val32]
  | [_, _, _] => simp [Mbapp.val32]
  | _ :: _ :: _ :: _ :: _ :: _ => simp [Mbapp.val32]

theorem word_lt (h : Go.Bytes) (n : Nat) : word h n < 2 ^ 32 := val32_lt _ (nb_lt _)

/-! ### the getters -/

theorem and255 (x : UInt32) : (x &&& 255).toNat = x.toNat % 256 := by
  rw [UInt32.toNat_and]; exact Nat.and_two_pow_sub_one_eq_mod x.toNat 8
theorem and65535 (x : UInt32) : (x &&& 65535).toNat = x.toNat % 65536 := by
  rw [UInt32.toNat_and]; exact Nat.and_two_pow_sub_one_eq_mod x.toNat 16
theorem shr16 (x : UInt32) : (Go.shr32 x 16).toNat = x.toNat / 65536 := by
  simp only [Go.shr32, show (16 : Nat) < 32 by decide, if_true, UInt32.toNat_shiftRight]
  have : (Nat.toUInt32 16).toNat % 32 = 16 := by decide
  rw [this, Nat.shiftRight_eq_div_pow]

theorem and_two_pow' (x k : Nat) : x &&& 2 ^ k = if x.testBit k then 2 ^ k else 0 := by
  apply Nat.eq_of_testBit_eq
  intro j
  by_cases hb : x.testBit k
  · simp only [hb, if_true, Nat.testBit_and, Nat.testBit_two_pow]
    by_cases hj : k = j
    · subst hj; simp [hb]
    · simp [hj]
  · simp only [hb, Bool.false_eq_true, if_false, Nat.testBit_and, Nat.testBit_two_pow, Nat.zero_testBit]
    by_cases hj : k = j
    · subst hj; simp [hb]
    · simp [hj]

theorem getBit_eq (x : UInt32) (k : Nat) (hk : k < 32) :
    mbapp.getBit x (UInt64.ofNat k) = .ok (decide (x.toNat / 2 ^ k % 2 = 1)) := by
  unfold mbapp.getBit
  have hk64 : (UInt64.ofNat k).toNat = k := by
    simp only [UInt64.toNat_ofNat']; omega
  have hs : (Go.shl32 1 k).toNat = 2 ^ k := by
    simp only [Go.shl32, hk, if_true, UInt32.toNat_shiftLeft]
    have hb : (Nat.toUInt32 k).toNat % 32 = k := by
      simp only [Nat.toUInt32, UInt32.toNat_ofNat']; omega
    rw [hb]
    have : (1 : UInt32).toNat = 1 := rfl
    rw [this]
    simp only [Nat.shiftLeft_eq, Nat.one_mul]
    exact Nat.mod_eq_of_lt (Nat.pow_lt_pow_right (by decide) hk)
  simp only [hk64, pure_eq]
  congr 1
  have : ((x &&& Go.shl32 1 k) > 0) ↔ (x.toNat / 2 ^ k % 2 = 1) := by
    rw [gt_iff_lt, UInt32.lt_iff_toNat_lt, UInt32.toNat_and, hs, and_two_pow']
    have h0 : (0 : UInt32).toNat = 0 := rfl
    rw [h0, Nat.testBit_eq_decide_div_mod_eq]
    by_cases h : x.toNat / 2 ^ k % 2 = 1
    · simp [h, Nat.two_pow_pos]
    · simp [h]
  exact decide_eq_decide.mpr this

theorem GetErrorCode_eq (h : Go.Bytes) (hl : 4 ≤ h.length) :
    mbapp.Header.GetErrorCode h = .ok (UInt8.ofNat (word h 0 % 256)) := by
  unfold mbapp.Header.GetErrorCode
  have := getUint32_eq h 0 (by omega)
  simp only [Int.natCast_zero] at this
  rw [this]
  simp only [bind_ok, pure_eq]
  congr 1
  apply UInt8.toNat_inj.mp
  rw [UInt32.toNat_toUInt8, and255, u32_ofNat_toNat _ (word_lt h 0), UInt8.toNat_ofNat']

theorem IsAsk_eq (h : Go.Bytes) (hl : 4 ≤ h.length) :
    mbapp.Header.IsAsk h = .ok (decide (word h 0 / 2 ^ 31 % 2 = 1)) := by
  unfold mbapp.Header.IsAsk mbapp.Header.getUint32Bit
  have := getUint32_eq h 0 (by omega)
  simp only [Int.natCast_zero] at this
  rw [this]
  simp only [bind_ok]
  have e := getBit_eq (UInt32.ofNat (word h 0)) 31 (by decide)
  rw [u32_ofNat_toNat _ (word_lt h 0)] at e
  have e31 : (UInt64.ofNat 31) = (31 : UInt64) := rfl
  rw [e31] at e
  rw [e]

theorem IsReply_eq (h : Go.Bytes) (hl : 4 ≤ h.length) :
    mbapp.Header.IsReply h = .ok (decide (word h 0 / 2 ^ 30 % 2 = 1)) := by
  unfold mbapp.Header.IsReply
  have := getUint32_eq h 0 (by omega)
  simp only [Int.natCast_zero] at this
  rw [this]
  simp only [bind_ok]
  have e := getBit_eq (UInt32.ofNat (word h 0)) 30 (by decide)
  rw [u32_ofNat_toNat _ (word_lt h 0)] at e
  have e30 : (UInt64.ofNat 30) = (30 : UInt64) := rfl
  rw [e30] at e
  rw [e]

theorem GetOriginTime_eq (h : Go.Bytes) (hl : 8 ≤ h.length) :
    mbapp.Header.GetOriginTime h = .ok (UInt32.ofNat (word h 1)) := by
  unfold mbapp.Header.GetOriginTime
  have := getUint32_eq h 1 (by omega)
  simp only [Int.natCast_one] at this
  rw [this]

theorem GetCounter_eq (h : Go.Bytes) (hl : 12 ≤ h.length) :
    mbapp.Header.GetCounter h = .ok (UInt32.ofNat (word h 2)) := by
  unfold mbapp.Header.GetCounter
  have := getUint32_eq h 2 (by omega)
  rw [show ((2 : Nat) : Int) = 2 from rfl] at this
  rw [this]

theorem GetTotalSize_eq (h : Go.Bytes) (hl : 16 ≤ h.length) :
    mbapp.Header.GetTotalSize h = .ok (UInt32.ofNat (word h 3)) := by
  unfold mbapp.Header.GetTotalSize
  have := getUint32_eq h 3 (by omega)
  rw [show ((3 : Nat) : Int) = 3 from rfl] at this
  rw [this]

theorem GetPartIndex_eq (h : Go.Bytes) (hl : 20 ≤ h.length) :
    mbapp.Header.GetPartIndex h = .ok (UInt16.ofNat (word h 4 / 65536)) := by
  unfold mbapp.Header.GetPartIndex
  have := getUint32_eq h 4 (by omega)
  rw [show ((4 : Nat) : Int) = 4 from rfl] at this
  rw [this]
  simp only [bind_ok, pure_eq]
  congr 1
  apply UInt16.toNat_inj.mp
  rw [UInt32.toNat_toUInt16, shr16, u32_ofNat_toNat _ (word_lt h 4), UInt16.toNat_ofNat']

theorem GetPartCount_eq (h : Go.Bytes) (hl : 20 ≤ h.length) :
    mbapp.Header.GetPartCount h = .ok (UInt16.ofNat (word h 4 % 65536)) := by
  unfold mbapp.Header.GetPartCount
  have := getUint32_eq h 4 (by omega)
  rw [show ((4 : Nat) : Int) = 4 from rfl] at this
  rw [this]
  simp only [bind_ok, pure_eq]
  congr 1
  apply UInt16.toNat_inj.mp
  rw [UInt32.toNat_toUInt16, and65535, u32_ofNat_toNat _ (word_lt h 4), UInt16.toNat_ofNat']

/-! ### the receive path: `ParseMessage` and the getters are `Mbapp.decode` -/

theorem decide_eq_beq_one (a : Nat) : decide (a = 1) = (a == 1) := by
  by_cases h : a = 1 <;> simp [h]

theorem word_take (pkt : Go.Bytes) (n : Nat) (hn : 4 * n + 4 ≤ 24) :
    word (pkt.take 24) n = Mbapp.val32 (((nb pkt).drop (4 * n)).take 4) := by
  unfold word
  congr 1
  simp only [nb, List.map_take, List.map_drop, List.drop_take, List.take_take]
  congr 1
  omega

theorem ParseMessage_eq (pkt : Go.Bytes) (hl : 24 ≤ pkt.length) :
    mbapp.ParseMessage pkt = .ok (pkt.take 24, pkt.drop 24, none) := by
  unfold mbapp.ParseMessage
  have h : ¬ Go.len pkt < 24 := by simp only [Go.len]; omega
  have e1 : Go.slice pkt 0 24 = .ok (pkt.take 24) := Go.slice_to pkt 24 hl
  have e2 : Go.slice pkt 24 (Go.len pkt) = .ok (pkt.drop 24) := Go.slice_from pkt 24 hl
  simp only [decide_eq_true_eq, h, if_false, e1, e2, bind_ok, pure_eq]

/-- every field the receive path reads from a datagram is the field of the model's `decode` -/
theorem getters_are_decode (pkt : Go.Bytes) (hl : 24 ≤ pkt.length) :
    ∃ hdr body, Mbapp.decode (nb pkt) = some (hdr, body) ∧
      mbapp.ParseMessage pkt = .ok (pkt.take 24, pkt.drop 24, none) ∧ nb (pkt.drop 24) = body ∧
      mbapp.Header.IsAsk (pkt.take 24) = .ok hdr.isAsk ∧
      mbapp.Header.IsReply (pkt.take 24) = .ok hdr.isReply ∧
      mbapp.Header.GetErrorCode (pkt.take 24) = .ok (UInt8.ofNat hdr.errCode) ∧
      mbapp.Header.GetOriginTime (pkt.take 24) = .ok (UInt32.ofNat hdr.originTime) ∧
      mbapp.Header.GetCounter (pkt.take 24) = .ok (UInt32.ofNat hdr.counter) ∧
      mbapp.Header.GetTotalSize (pkt.take 24) = .ok (UInt32.ofNat hdr.totalSize) ∧
      mbapp.Header.GetPartIndex (pkt.take 24) = .ok (UInt16.ofNat hdr.partIndex) ∧
      mbapp.Header.GetPartCount (pkt.take 24) = .ok (UInt16.ofNat hdr.partCount) := by
  have hlt : (pkt.take 24).length = 24 := by simp; omega
  have hs : Mbapp.headerSize = 24 := by decide
  have hd : ¬ (nb pkt).length < Mbapp.headerSize := by rw [hs, nb_length]; omega
  refine ⟨_, _, by unfold Mbapp.decode; rw [if_neg hd], ParseMessage_eq pkt hl, ?_, ?_, ?_, ?_, ?_, ?_, ?_, ?_, ?_⟩
  · rw [hs, SrcFrag.nb_drop]
  · rw [IsAsk_eq _ (by omega), word_take pkt 0 (by omega)]
    simp only [Nat.mul_zero, List.drop_zero, Except.ok.injEq]
    exact decide_eq_beq_one _
  · rw [IsReply_eq _ (by omega), word_take pkt 0 (by omega)]
    simp only [Nat.mul_zero, List.drop_zero, Except.ok.injEq]
    exact decide_eq_beq_one _
  · rw [GetErrorCode_eq _ (by omega), word_take pkt 0 (by omega)]
  · rw [GetOriginTime_eq _ (by omega), word_take pkt 1 (by omega)]
  · rw [GetCounter_eq _ (by omega), word_take pkt 2 (by omega)]
  · rw [GetTotalSize_eq _ (by omega), word_take pkt 3 (by omega)]
  · rw [GetPartIndex_eq _ (by omega), word_take pkt 4 (by omega)]
  · rw [GetPartCount_eq _ (by omega), word_take pkt 4 (by omega)]

end P2PVerif.SrcHdr
