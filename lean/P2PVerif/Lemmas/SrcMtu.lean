import P2PVerif.Gen.Src
import P2PVerif.Model.Mbapp
import P2PVerif.Model.Frag
namespace P2PVerif.Src
open P2PVerif P2PVerif.Go

/-- the regenerated `mbapp.Swarm.MTU` is the model's (`s.inner.MTU()` and the configured MTU are its inputs) -/
theorem mbapp_MTU_eq (innerMTU cfgMTU : Nat) :
    mbapp.Swarm.MTU (cfgMTU : Int) (innerMTU : Int) = .ok (Mbapp.mtu innerMTU cfgMTU) := by
  have e : Mbapp.mtu innerMTU cfgMTU =
      if ((innerMTU : Int) - 24) * 65535 < (cfgMTU : Int) then ((innerMTU : Int) - 24) * 65535 else (cfgMTU : Int) := rfl
  rw [e]
  unfold mbapp.Swarm.MTU
  simp only [pure_eq]
  by_cases h : ((innerMTU : Int) - 24) * 65535 < (cfgMTU : Int)
  · simp [h]
  · simp [h]

/-- the regenerated `fragswarm` `MTU` is the model's -/
theorem frag_MTU_eq (innerMTU cfgMTU : Nat) :
    fragswarm.swarm.MTU (cfgMTU : Int) (innerMTU : Int) = .ok (Frag.mtu innerMTU cfgMTU) := by
  have e : Frag.mtu innerMTU cfgMTU =
      if ((innerMTU : Int) - 15) * 255 < (cfgMTU : Int) then ((innerMTU : Int) - 15) * 255 else (cfgMTU : Int) := rfl
  rw [e]
  unfold fragswarm.swarm.MTU
  simp only [pure_eq]
  by_cases h : ((innerMTU : Int) - 15) * 255 < (cfgMTU : Int)
  · simp [h]
  · simp [h]

end P2PVerif.Src
