import P2PVerif.Lemmas.Addr
/-! Machine-checked counterexamples to the two C16 statements as first written; they justify the two
    specification changes (`ip ≠ []` in `IPOK`, the hypothesis `GramOK g` of `parse_total_or_canonical`). -/
namespace P2PVerif.Addr.Counterexample
open P2PVerif P2PVerif.Addr

/-! ## 1. `parse_marshal` with the original `IPOK` (no non-emptiness) fails for sshswarm

The sshswarm regular expression `^([A-z0-9\-_/:+]+)@(.+):([0-9]+)$` needs a non-empty host. The original laws
did not exclude a standard library whose canonical IP text is empty. -/

def IPOK₀ (env : Env) (ip : Str) : Prop :=
  env.ipParse ip = some ip ∧ '\n' ∉ ip ∧ '[' ∉ ip ∧ ']' ∉ ip

structure EnvOK₀ (env : Env) : Prop where
  ip_out : ∀ t ip, env.ipParse t = some ip → IPOK₀ env ip
  scan_nat : ∀ n, n < 65536 → env.scan16 (natStr n) = some n
  scan_lt : ∀ t n, env.scan16 t = some n → n < 65536

def Valid₀ (env : Env) : Addr → Prop
  | .mem n => -(2 ^ 63 : Int) ≤ n ∧ n < 2 ^ 63
  | .udp ip port => IPOK₀ env ip ∧ port < 65536
  | .ssh fp ip port => fp ≠ [] ∧ (∀ c ∈ fp, fpChar c = true) ∧ IPOK₀ env ip ∧ port < 65536
  | .idAt id a => id.length = 32 ∧ (∀ b ∈ id, b < 256) ∧ Valid₀ env a
  | .scheme s a => schemeOK s ∧ Valid₀ env a

def env0 : Env := { ipParse := fun t => if t = [] then some [] else none, scan16 := parseUint16 }

theorem env0_ok : EnvOK₀ env0 where
  ip_out := by
    intro t ip h
    simp only [env0] at h
    split at h
    · simp only [Option.some.injEq] at h; subst h; exact ⟨by decide, by decide, by decide, by decide⟩
    · simp at h
  scan_nat := parseUint16_natStr
  scan_lt := parseUint16_lt

theorem original_parse_marshal_false :
    ¬ ∀ (env : Env), EnvOK₀ env → ∀ (g : Gram) (a : Addr), Valid₀ env a → Fits g a →
        parse env g (marshal a) = some a := by
  intro h
  have := h env0 env0_ok .ssh (.ssh ['a'] [] 1)
    ⟨by decide, by decide, ⟨by decide, by decide, by decide, by decide⟩, by decide⟩ trivial
  revert this
  decide

/-! ## 2. `parse_total_or_canonical` without `GramOK` fails for a junk grammar

`Gram` also contains `mcons name g rest` with `rest` not a scheme table; `parse` then falls through to an
ordinary swarm and returns an address that is not a multiswarm address and does not parse back. -/

def env1 : Env := { ipParse := fun _ => some "1.2.3.4".toList, scan16 := parseUint16 }

theorem env1_ok : EnvOK env1 where
  ip_out := by
    intro t ip h
    simp only [env1, Option.some.injEq] at h
    subst h; exact ⟨by decide, by decide, by decide, by decide, by decide⟩
  scan_nat := parseUint16_natStr
  scan_lt := parseUint16_lt

def g1 : Gram := .mcons "x".toList .mem .ssh

theorem original_parse_total_or_canonical_false :
    ¬ ∀ (env : Env), EnvOK env → ∀ (g : Gram) (t : Str) (a : Addr), parse env g t = some a →
        Valid env a ∧ Fits g a ∧ parse env g (marshal a) = some a := by
  intro h
  have := h env1 env1_ok g1 "ab@c://1:22".toList (.ssh "ab".toList "1.2.3.4".toList 22) (by decide)
  exact this.2.1

end P2PVerif.Addr.Counterexample
