import P2PVerif.Gen.Src
import P2PVerif.Model.Mbapp
import P2PVerif.Lemmas.SrcFrag
/-! p/mbapp bitmap.go and fragment.go (`collector`) as regenerated from the Go source: what they compute, that they do
    not fault on any input a well-formed collector can meet, and their relation to `Model/Mbapp.lean`. -/
namespace P2PVerif.SrcMbapp
open P2PVerif P2PVerif.Src P2PVerif.Go P2PVerif.SrcKad

theorem tdiv_nat (k : Nat) : Int.tdiv (k : Int) 8 = ((k / 8 : Nat) : Int) := by
  rw [Int.tdiv_eq_ediv_of_nonneg (by omega)]; simp
theorem tmod_nat (k : Nat) : Int.tmod (k : Int) 8 = ((k % 8 : Nat) : Int) := by
  rw [Int.tmod_eq_emod_of_nonneg (by omega)]; simp

theorem u8_or_and_distrib (x a b : UInt8) : (x ||| a) &&& b = (x &&& b) ||| (a &&& b) := by
  apply UInt8.toBitVec_inj.1
  simp only [UInt8.toBitVec_and, UInt8.toBitVec_or]
  ext i hi
  simp [Bool.and_or_distrib_right]
theorem u8_absorb (x a : UInt8) : (x ||| a) &&& a = a := by
  apply UInt8.toBitVec_inj.1
  simp only [UInt8.toBitVec_and, UInt8.toBitVec_or]
  ext i hi
  simp
  intro h; simp [h]
theorem mask_disjoint : ∀ k < 8, ∀ j < 8, k ≠ j → Go.shl8 1 k &&& Go.shl8 1 j = 0 := by decide
theorem mask_pos : ∀ k < 8, Go.shl8 1 k > 0 := by decide

/-- bit `i` of the map, as `bitMap.get` reads it -/
def getBit (bm : mbapp.bitMapT) (i : Nat) : Bool := decide ((bm.buf.getD (i / 8) 0 &&& Go.shl8 1 (i % 8)) > 0)

/-- the map as a list of booleans -/
def bits (bm : mbapp.bitMapT) : List Bool := (List.range bm.n.toNat).map (getBit bm)

/-- a well-formed map: as many bytes as its bits need -/
def bmOK (bm : mbapp.bitMapT) : Prop := 0 ≤ bm.n ∧ bm.n.toNat ≤ bm.buf.length * 8

theorem mask_eq (k : Nat) : mbapp.mask (k : Int) = .ok (Go.shl8 1 (k % 8)) := by
  unfold mbapp.mask
  rw [tmod_nat]
  have h0 : (0 : Int) ≤ ((k % 8 : Nat) : Int) := by omega
  simp only [Go.shiftCount, h0, if_true, pure_eq, bind_ok, Int.toNat_natCast]

theorem get_eq (bm : mbapp.bitMapT) (h : bmOK bm) (k : Nat) (hk : (k : Int) < bm.n) :
    mbapp.bitMap.get bm (k : Int) = .ok (getBit bm k) := by
  unfold mbapp.bitMap.get mbapp.bitMap.len
  have h1 : ¬ ((k : Int) ≥ bm.n) := by omega
  simp only [bind_ok, pure_eq, decide_eq_true_eq, h1, if_false, tdiv_nat, mask_eq]
  have hi : k / 8 < bm.buf.length := by have := h.2; omega
  rw [Go.idx_ofNat _ _ hi]
  simp [getBit, List.getD_eq_getElem?_getD, hi]

theorem get_oob (bm : mbapp.bitMapT) (i : Int) (hi : i ≥ bm.n) :
    mbapp.bitMap.get bm i = .error (.panic "bitMap: index out of bounds") := by
  unfold mbapp.bitMap.get mbapp.bitMap.len
  simp [hi]

theorem newBitMap_eq (n : Nat) :
    ∃ bm, mbapp.newBitMap (n : Int) = .ok bm ∧ bmOK bm ∧ bm.n = n ∧ bm.buf = List.replicate ((n + 7) / 8) 0 := by
  unfold mbapp.newBitMap
  simp only [tdiv_nat, tmod_nat, decide_eq_true_eq]
  by_cases h : ((n % 8 : Nat) : Int) > 0
  · simp only [h, if_true]
    have : ((n / 8 : Nat) : Int) + 1 = ((n / 8 + 1 : Nat) : Int) := by omega
    rw [this, Go.makeList_ok _ _ (by omega)]
    refine ⟨_, rfl, ?_, rfl, ?_⟩
    · simp [bmOK]; omega
    · simp; omega
  · simp only [h, if_false]
    rw [Go.makeList_ok _ _ (by omega)]
    refine ⟨_, rfl, ?_, rfl, ?_⟩
    · simp [bmOK]; omega
    · simp; omega

theorem bits_length (bm : mbapp.bitMapT) : (bits bm).length = bm.n.toNat := by simp [bits]

theorem bits_get (bm : mbapp.bitMapT) (i : Nat) (hi : i < bm.n.toNat) : (bits bm)[i]? = some (getBit bm i) := by
  simp [bits, hi]

theorem getBit_zero (n i : Nat) : getBit { buf := List.replicate n 0, n := 0 } i = false := by
  simp only [getBit, List.getD_eq_getElem?_getD]
  cases h : (List.replicate n (0 : UInt8))[i / 8]? with
  | none => simp
  | some v =>
    have := List.getElem?_replicate (a := (0 : UInt8)) (n := n) (i := i / 8)
    rw [h] at this
    split at this
    · injection this with e; subst e; simp
    · cases this

/-! ### set -/

/-- the map with bit `k` set -/
def setBit (bm : mbapp.bitMapT) (k : Nat) : mbapp.bitMapT :=
  { bm with buf := bm.buf.set (k / 8) (bm.buf.getD (k / 8) 0 ||| Go.shl8 1 (k % 8)) }

theorem set_true_eq (bm : mbapp.bitMapT) (h : bmOK bm) (k : Nat) (hk : (k : Int) < bm.n) :
    mbapp.bitMap.set bm (k : Int) true = .ok (setBit bm k) := by
  unfold mbapp.bitMap.set mbapp.bitMap.len setBit
  have h1 : ¬ ((k : Int) ≥ bm.n) := by omega
  have hi : k / 8 < bm.buf.length := by have := h.2; omega
  simp only [bind_ok, pure_eq, decide_eq_true_eq, h1, if_false, if_true, tdiv_nat, mask_eq, Go.idx_ofNat _ _ hi]
  have e : (((k / 8 : Nat) : Int)).toNat = k / 8 := by omega
  rw [Go.setIdx_ok _ _ _ (by omega) (by rw [e]; exact hi)]
  simp only [e, bind_ok, List.getD_eq_getElem?_getD, List.getElem?_eq_getElem hi, Option.getD_some]

theorem getBit_set (bm : mbapp.bitMapT) (h : bmOK bm) (k : Nat) (hk : (k : Int) < bm.n) (j : Nat) :
    getBit (setBit bm k) j = if j = k then true else getBit bm j := by
  have hi : k / 8 < bm.buf.length := by have := h.2; omega
  simp only [setBit, getBit, List.getD_eq_getElem?_getD, List.getElem?_set]
  by_cases hjk : j = k
  · subst hjk
    simp only [hi, if_true, Option.getD_some, u8_absorb]
    simp [mask_pos _ (Nat.mod_lt _ (by decide : 0 < 8))]
  · simp only [hjk, if_false]
    by_cases hb : k / 8 = j / 8
    · rw [← hb]
      simp only [hi, if_true, Option.getD_some, u8_or_and_distrib]
      have hne : k % 8 ≠ j % 8 := by omega
      rw [mask_disjoint _ (Nat.mod_lt _ (by decide)) _ (Nat.mod_lt _ (by decide)) hne]
      simp
    · simp [hb]

/-! ### allSet -/

def allStep (bm : mbapp.bitMapT) (i : Int) (_ : Unit) : Go.Ctl Unit Bool :=
  if !(getBit bm i.toNat) then .ret false else .next ()

theorem all_loop (bm : mbapp.bitMapT) : ∀ (m k : Nat),
    (match Go.pureLoopN m (k : Int) () (allStep bm) with
      | .ret v => v
      | .done _ => true) = (List.range' k m).all (getBit bm) := by
  intro m
  induction m with
  | zero => intro k; simp [Go.pureLoopN]
  | succ m ih =>
    intro k
    simp only [Go.pureLoopN, allStep, Int.toNat_natCast, List.range'_succ, List.all_cons]
    by_cases hb : getBit bm k = true
    · simp only [hb, Bool.not_true, Bool.false_eq_true, if_false, Bool.true_and]
      have := ih (k + 1)
      simpa using this
    · have hb' : getBit bm k = false := by simpa using hb
      simp [hb']

theorem allSet_eq (bm : mbapp.bitMapT) (h : bmOK bm) :
    mbapp.bitMap.allSet bm = .ok ((bits bm).all id) := by
  unfold mbapp.bitMap.allSet mbapp.bitMap.len
  simp only [bind_ok, pure_eq]
  rw [Go.forRange_eq_pure (fun _ => True) _ (allStep bm) 0 bm.n () trivial]
  · have := all_loop bm bm.n.toNat 0
    simp only [Int.natCast_zero] at this
    have e : (bits bm).all id = (List.range' 0 bm.n.toNat).all (getBit bm) := by
      simp [bits, List.all_map, List.range_eq_range']
    rw [e, ← this]
    simp only [Int.sub_zero, bind_ok]
    cases Go.pureLoopN bm.n.toNat 0 () (allStep bm) <;> rfl
  · intro j s h0 h1 _
    refine ⟨?_, fun _ _ => trivial⟩
    have hj : j = ((j.toNat : Nat) : Int) := by omega
    rw [hj, get_eq bm h j.toNat (by omega)]
    simp only [bind_ok, allStep, Int.toNat_natCast, pure_eq]
    split <;> rfl

/-! ### collector -/

def colOK (c : mbapp.collectorT) : Prop := bmOK c.bitMap ∧ c.bitMap.n = c.partCount

/-- `copy(buf[off:], data)` on a buffer -/
def overwrite (buf : Go.Bytes) (off : Nat) (data : Go.Bytes) : Go.Bytes :=
  buf.take off ++ data.take (buf.length - off) ++ buf.drop (off + data.length)

theorem copy_into (buf : Go.Bytes) (off : Nat) (data : Go.Bytes) (h : off < buf.length) :
    Go.splice buf (off : Int) (Go.copy (buf.drop off) data).1 = overwrite buf off data := by
  have hr : (Go.copy (buf.drop off) data).1
      = data.take (min (buf.length - off) data.length) ++ buf.drop (off + min (buf.length - off) data.length) := by
    simp [Go.copy, Nat.min_def, List.drop_drop]
  have hlen : (Go.copy (buf.drop off) data).1.length = buf.length - off := by
    rw [hr]; simp; omega
  unfold Go.splice overwrite
  rw [hlen, Int.toNat_natCast, List.drop_eq_nil_of_le (by omega : buf.length ≤ off + (buf.length - off)), List.append_nil, hr]
  by_cases hd : data.length ≤ buf.length - off
  · rw [Nat.min_eq_right hd, List.take_of_length_le (Nat.le_refl _), List.take_of_length_le hd, List.append_assoc]
  · have hd' : buf.length - off ≤ data.length := by omega
    rw [Nat.min_eq_left hd', List.drop_eq_nil_of_le (by omega : buf.length ≤ off + (buf.length - off)),
      List.drop_eq_nil_of_le (by omega : buf.length ≤ off + data.length), List.append_nil, List.append_nil]

theorem newCollector_eq (pc ts : Nat) :
    ∃ c, mbapp.newCollector (pc : Int) (ts : Int) = .ok c ∧ colOK c ∧ c.partCount = pc ∧
      c.buf = List.replicate ts 0 ∧ c.bitMap.buf = List.replicate ((pc + 7) / 8) 0 := by
  unfold mbapp.newCollector
  obtain ⟨bm, hb, hok, hn, hbuf⟩ := newBitMap_eq pc
  rw [Go.makeList_ok _ _ (by omega), hb]
  refine ⟨_, rfl, ⟨hok, by simpa using hn⟩, rfl, by simp, hbuf⟩

/-- `collector.addPart` on a well-formed collector and any part index a `uint16` can hold: never a fault -/
theorem addPart_eq (c : mbapp.collectorT) (h : colOK c) (k : Nat) (data : Go.Bytes) :
    mbapp.collector.addPart c (k : Int) data =
      if (k : Int) ≥ c.partCount then .ok (some "partIndex %d >= partCount %d", c)
      else if getBit c.bitMap k then .ok (none, c)
      else
        let off : Int := if (k : Int) = c.partCount - 1 then (c.buf.length : Int) - data.length else (data.length : Int) * k
        if off < 0 ∨ off ≥ c.buf.length then .ok (some "invalid offset len=%d for buf of len=%d", c)
        else .ok (none, { c with buf := overwrite c.buf off.toNat data, bitMap := setBit c.bitMap k }) := by
  unfold mbapp.collector.addPart
  obtain ⟨hbm, hn⟩ := h
  by_cases h1 : (k : Int) ≥ c.partCount
  · simp [h1]
  · have hk : (k : Int) < c.bitMap.n := by omega
    simp only [decide_eq_true_eq, h1, if_false, get_eq c.bitMap hbm k hk, bind_ok]
    by_cases hg : getBit c.bitMap k = true
    · simp [hg]
    · simp only [hg, Bool.false_eq_true, if_false]
      -- both branches of the offset computation continue in the same way
      have key : ∀ off : Int,
          (if (decide (off < 0) || decide (off ≥ Go.len c.buf)) = true then
              (pure ((some "invalid offset len=%d for buf of len=%d" : Go.Err), c) : Go.M _)
            else do
              let t_3 ← Go.slice c.buf off (Go.len c.buf)
              let (t_4, t_5) := Go.copy t_3 data
              let c := { c with buf := (Go.splice c.buf off t_4) }
              let t_6 ← mbapp.bitMap.set c.bitMap (k : Int) true
              let c := { c with bitMap := t_6 }
              pure ((none : Go.Err), c))
            = if off < 0 ∨ off ≥ c.buf.length then .ok (some "invalid offset len=%d for buf of len=%d", c)
              else .ok (none, { c with buf := overwrite c.buf off.toNat data, bitMap := setBit c.bitMap k }) := by
        intro off
        by_cases ho : off < 0 ∨ off ≥ c.buf.length
        · have : (decide (off < 0) || decide (off ≥ Go.len c.buf)) = true := by
            rcases ho with ho | ho
            · simp [ho]
            · simp [Go.len, ho]
          rw [if_pos this, if_pos ho]; rfl
        · have : ¬ ((decide (off < 0) || decide (off ≥ Go.len c.buf)) = true) := by
            have h1 : ¬ off < 0 := fun e => ho (Or.inl e)
            have h2 : ¬ off ≥ c.buf.length := fun e => ho (Or.inr e)
            simp [Go.len, h1, h2]
          rw [if_neg this, if_neg ho]
          obtain ⟨n, rfl⟩ : ∃ n : Nat, off = n := ⟨off.toNat, by omega⟩
          have hlt : n < c.buf.length := by omega
          rw [Go.slice_from _ _ (by omega)]
          simp only [bind_ok]
          rw [copy_into _ _ _ hlt, set_true_eq _ hbm k hk]
          simp
      split
      · rename_i hl
        have hl' : (k : Int) = c.partCount - 1 := by simpa using hl
        refine (key _).trans ?_
        simp only [hl', if_true, Go.len]
        rfl
      · rename_i hl
        have hl' : ¬ (k : Int) = c.partCount - 1 := by simpa using hl
        refine (key _).trans ?_
        simp only [hl', if_false, Go.len]
        rfl

/-! ### the collector and the model -/

theorem addPart_ok (c : mbapp.collectorT) (h : colOK c) (k : Nat) (data : Go.Bytes) :
    ∃ e c', mbapp.collector.addPart c (k : Int) data = .ok (e, c') ∧ colOK c' ∧ c'.partCount = c.partCount := by
  rw [addPart_eq c h k data]
  by_cases h1 : (k : Int) ≥ c.partCount
  · exact ⟨_, _, by rw [if_pos h1], h, rfl⟩
  · rw [if_neg h1]
    by_cases hg : getBit c.bitMap k = true
    · exact ⟨_, _, by rw [if_pos hg], h, rfl⟩
    · rw [if_neg hg]
      dsimp only
      generalize (if (k : Int) = c.partCount - 1 then (c.buf.length : Int) - data.length else (data.length : Int) * k) = off
      by_cases ho : off < 0 ∨ off ≥ c.buf.length
      · rw [if_pos ho]; exact ⟨_, _, rfl, h, rfl⟩
      · rw [if_neg ho]
        refine ⟨_, _, rfl, ⟨⟨h.1.1, ?_⟩, h.2⟩, rfl⟩
        simp only [setBit, List.length_set]
        exact h.1.2

theorem bits_setBit (bm : mbapp.bitMapT) (h : bmOK bm) (k : Nat) (hk : (k : Int) < bm.n) :
    bits (setBit bm k) = (bits bm).set k true := by
  apply List.ext_getElem?
  intro j
  have hn : (setBit bm k).n = bm.n := rfl
  by_cases hj : j < bm.n.toNat
  · rw [bits_get _ _ (by rw [hn]; exact hj), getBit_set bm h k hk, List.getElem?_set, bits_get _ _ hj]
    by_cases hjk : j = k
    · subst hjk; simp [bits_length, hj]
    · have : ¬ k = j := fun e => hjk e.symm
      simp [hjk, this]
  · have l1 : (bits (setBit bm k)).length ≤ j := by rw [bits_length, hn]; omega
    have l2 : ((bits bm).set k true).length ≤ j := by rw [List.length_set, bits_length]; omega
    rw [List.getElem?_eq_none l1, List.getElem?_eq_none l2]

theorem nb_overwrite (buf : Go.Bytes) (off : Nat) (data : Go.Bytes) :
    nb (overwrite buf off data) = Mbapp.overwrite (nb buf) off (nb data) := by
  simp [overwrite, Mbapp.overwrite, nb, List.map_take, List.map_drop]

/-- the regenerated collector and the model's collector describe the same state -/
def colRel (c : mbapp.collectorT) (m : Mbapp.Col) : Prop :=
  m.partCount = c.partCount.toNat ∧ m.buf = nb c.buf ∧ m.bits = bits c.bitMap

theorem newCollector_model (pc ts : Nat) :
    ∃ c, mbapp.newCollector (pc : Int) (ts : Int) = .ok c ∧ colOK c ∧ colRel c (Mbapp.Col.new pc ts) := by
  obtain ⟨c, hc, hok, hpc, hbuf, hbm⟩ := newCollector_eq pc ts
  refine ⟨c, hc, hok, ?_, ?_, ?_⟩
  · simp [Mbapp.Col.new, hpc]
  · simp [Mbapp.Col.new, hbuf, nb]
  · have hn : c.bitMap.n = pc := by rw [hok.2, hpc]
    apply List.ext_getElem?
    intro j
    by_cases hj : j < pc
    · rw [bits_get _ _ (by rw [hn]; simpa using hj)]
      have : getBit c.bitMap j = false := by
        have := getBit_zero ((pc + 7) / 8) j
        simp only [getBit] at this ⊢
        rw [hbm]; exact this
      simp [Mbapp.Col.new, hj, this]
    · have l1 : (bits c.bitMap).length ≤ j := by rw [bits_length, hn]; simp; omega
      rw [List.getElem?_eq_none l1]
      simp [Mbapp.Col.new]; omega

/-- one `addPart` on the regenerated collector is one `Col.addPart` of the model (and never faults) -/
theorem addPart_model (c : mbapp.collectorT) (m : Mbapp.Col) (h : colOK c) (hr : colRel c m) (k : Nat) (data : Go.Bytes) :
    ∃ e c', mbapp.collector.addPart c (k : Int) data = .ok (e, c') ∧ colOK c' ∧ colRel c' (m.addPart k (nb data)) := by
  obtain ⟨hpc, hbuf, hbits⟩ := hr
  have hpc0 : 0 ≤ c.partCount := by rw [← h.2]; exact h.1.1
  rw [addPart_eq c h k data]
  unfold Mbapp.Col.addPart
  by_cases h1 : (k : Int) ≥ c.partCount
  · have : k ≥ m.partCount := by omega
    rw [if_pos h1, if_pos this]
    exact ⟨_, _, rfl, h, hpc, hbuf, hbits⟩
  · have h1' : ¬ k ≥ m.partCount := by omega
    rw [if_neg h1, if_neg h1']
    have hk : (k : Int) < c.bitMap.n := by rw [h.2]; omega
    have hgd : m.bits.getD k false = getBit c.bitMap k := by
      rw [hbits, List.getD_eq_getElem?_getD, bits_get _ _ (by omega)]; rfl
    rw [hgd]
    by_cases hg : getBit c.bitMap k = true
    · rw [if_pos hg, if_pos hg]
      exact ⟨_, _, rfl, h, hpc, hbuf, hbits⟩
    · rw [if_neg hg, if_neg hg]
      dsimp only
      have hlen : m.buf.length = c.buf.length := by rw [hbuf]; simp
      have hoff : (if (k : Int) = c.partCount - 1 then (c.buf.length : Int) - data.length else (data.length : Int) * k)
          = (if k = m.partCount - 1 then (m.buf.length : Int) - (nb data).length else ((nb data).length * k : Nat)) := by
        have e : ((k : Int) = c.partCount - 1) ↔ (k = m.partCount - 1) := by omega
        simp only [e, hlen, nb_length]
        split <;> simp
      rw [hoff, hlen]
      generalize (if k = m.partCount - 1 then (c.buf.length : Int) - (nb data).length else ((nb data).length * k : Nat)) = off
      by_cases ho : off < 0 ∨ off ≥ c.buf.length
      · rw [if_pos ho, if_pos ho]; exact ⟨_, _, rfl, h, hpc, hbuf, hbits⟩
      · rw [if_neg ho, if_neg ho]
        refine ⟨_, _, rfl, ⟨⟨h.1.1, ?_⟩, h.2⟩, hpc, ?_, ?_⟩
        · simp only [setBit, List.length_set]; exact h.1.2
        · simp only [nb_overwrite, hbuf]
        · simp only [hbits, bits_setBit _ h.1 k hk]

/-- completeness test: `isComplete` is "all bits set", for every well-formed collector -/
theorem isComplete_eq (c : mbapp.collectorT) (h : colOK c) :
    mbapp.collector.isComplete c = .ok ((bits c.bitMap).all id) := by
  unfold mbapp.collector.isComplete
  rw [allSet_eq _ h.1]

end P2PVerif.SrcMbapp
