import P2PVerif.Lemmas.KePairSess
/-! One delivery / send at one side of the pair preserves that side's invariant and its relation to the peer. -/
set_option linter.unusedSimpArgs false
set_option linter.unusedVariables false
namespace P2PVerif.P2PKE
open P2PVerif

/-- the genuine messages that can be in the pool when the sides are at handshake indices `ihs`, `rhs` and
    nonces `inon`, `rnon` -/
inductive Gen (kI kR tI ihs inon rhs rnon : Nat) : Wire → Prop
  | ih : Gen kI kR tI ihs inon rhs rnon (mIH kI tI)
  | rh : 1 ≤ rhs → Gen kI kR tI ihs inon rhs rnon (mRH kI kR tI)
  | id : 2 ≤ ihs → Gen kI kR tI ihs inon rhs rnon (mID kI kR tI)
  | rd : 3 ≤ rhs → Gen kI kR tI ihs inon rhs rnon (mRD kI tI)
  | di (n : Nat) (p : Bytes) : 16 ≤ n → n < inon → Gen kI kR tI ihs inon rhs rnon (mDat kI tI .i2r n p)
  | dr (n : Nat) (p : Bytes) : 16 ≤ n → n < rnon → Gen kI kR tI ihs inon rhs rnon (mDat kI tI .r2i n p)

theorem Gen.mono {kI kR tI a b c d a' b' c' d' : Nat} {w : Wire} (h : Gen kI kR tI a b c d w)
    (ha : a ≤ a') (hb : b ≤ b') (hc : c ≤ c') (hd : d ≤ d') : Gen kI kR tI a' b' c' d' w := by
  cases h with
  | ih => exact .ih
  | rh h => exact .rh (by omega)
  | id h => exact .id (by omega)
  | rd h => exact .rd (by omega)
  | di n p h1 h2 => exact .di n p h1 (by omega)
  | dr n p h1 h2 => exact .dr n p h1 (by omega)

variable {kI kR tI : Nat}

/-! ### invariant under the field updates the code makes -/

theorem IOk.to2 {s : Sess} (h : IOk kI kR tI s) :
    IOk kI kR tI { s with hs := 2, nonce := 16, rEph := some 2, rKey := some kR, rSig := some (sg1 kI kR tI) } :=
  { isInit := h.isInit, key := h.key, eph := h.eph, hello := h.hello, wedged := h.wedged,
    hs := Or.inr (Or.inl rfl), n0 := fun h => (by simp at h), n2 := fun _ => rfl,
    n4 := fun h => (by simp at h), peer := fun _ => ⟨rfl, rfl, rfl⟩, fresh := h.fresh }

theorem IOk.to4 {s : Sess} (h : IOk kI kR tI s) (h2 : s.hs = 2) : IOk kI kR tI { s with hs := 4, nonce := 16 } :=
  { isInit := h.isInit, key := h.key, eph := h.eph, hello := h.hello, wedged := h.wedged,
    hs := Or.inr (Or.inr (Or.inl rfl)), n0 := fun h => (by simp at h), n2 := fun h => (by simp at h),
    n4 := fun _ => Nat.le_refl _, peer := fun _ => h.peer (by omega), fresh := h.fresh }

theorem IOk.rp8 {s : Sess} (h : IOk kI kR tI s) (h2 : 2 ≤ s.hs) {rp : Replay.Filter} (hf : Replay.Fresh rp) :
    IOk kI kR tI { s with rp := rp, hs := 8 } :=
  { isInit := h.isInit, key := h.key, eph := h.eph, hello := h.hello, wedged := h.wedged,
    hs := Or.inr (Or.inr (Or.inr rfl)), n0 := fun h => (by simp at h), n2 := fun h => (by simp at h),
    n4 := fun _ => by
      show 16 ≤ s.nonce
      rcases h.hs with h0 | h0 | h0 | h0
      · omega
      · have := h.n2 h0; omega
      · exact h.n4 (by omega)
      · exact h.n4 (by omega),
    peer := fun _ => h.peer h2, fresh := hf }

theorem IOk.rp' {s : Sess} (h : IOk kI kR tI s) {rp : Replay.Filter} (hf : Replay.Fresh rp) :
    IOk kI kR tI { s with rp := rp } :=
  { isInit := h.isInit, key := h.key, eph := h.eph, hello := h.hello, wedged := h.wedged,
    hs := h.hs, n0 := h.n0, n2 := h.n2, n4 := h.n4, peer := h.peer, fresh := hf }

theorem IOk.inc {s : Sess} (h : IOk kI kR tI s) (h4 : 4 ≤ s.hs) : IOk kI kR tI { s with nonce := s.nonce + 1 } :=
  { isInit := h.isInit, key := h.key, eph := h.eph, hello := h.hello, wedged := h.wedged,
    hs := h.hs, n0 := fun h0 => by have : s.hs = 0 := h0; omega, n2 := fun h0 => by have : s.hs = 2 := h0; omega,
    n4 := fun _ => by have := h.n4 h4; show 16 ≤ s.nonce + 1; omega, peer := h.peer, fresh := h.fresh }

theorem ROk.to1 {s : Sess} (h : ROk kI kR tI s) (h0 : s.hs = 0) :
    ROk kI kR tI { s with hs := 1, hello := some (hI kI tI), rEph := some 0, rKey := some kI, helloTime := tI,
                          rSig := some (sg1 kI kR tI) } :=
  { isInit := h.isInit, key := h.key, eph := h.eph, wedged := h.wedged,
    hs := Or.inr (Or.inl rfl), n0 := fun _ => h.n0 (by omega), n3 := fun h => (by simp at h),
    peer := fun _ => ⟨rfl, rfl, rfl, rfl⟩, fresh := h.fresh }

theorem ROk.to3 {s : Sess} (h : ROk kI kR tI s) (h1 : s.hs = 1) : ROk kI kR tI { s with hs := 3, nonce := 16 } :=
  { isInit := h.isInit, key := h.key, eph := h.eph, wedged := h.wedged,
    hs := Or.inr (Or.inr (Or.inl rfl)), n0 := fun h => (by simp at h), n3 := fun _ => Nat.le_refl _,
    peer := fun _ => h.peer (by omega), fresh := h.fresh }

theorem ROk.rp8 {s : Sess} (h : ROk kI kR tI s) (h2 : 2 ≤ s.hs) {rp : Replay.Filter} (hf : Replay.Fresh rp) :
    ROk kI kR tI { s with rp := rp, hs := 8 } :=
  { isInit := h.isInit, key := h.key, eph := h.eph, wedged := h.wedged,
    hs := Or.inr (Or.inr (Or.inr rfl)), n0 := fun h => (by simp at h),
    n3 := fun _ => by
      show 16 ≤ s.nonce
      rcases h.hs with h0 | h0 | h0 | h0
      · omega
      · omega
      · exact h.n3 (by omega)
      · exact h.n3 (by omega),
    peer := fun _ => h.peer (by omega), fresh := hf }

theorem ROk.rp' {s : Sess} (h : ROk kI kR tI s) {rp : Replay.Filter} (hf : Replay.Fresh rp) :
    ROk kI kR tI { s with rp := rp } :=
  { isInit := h.isInit, key := h.key, eph := h.eph, wedged := h.wedged,
    hs := h.hs, n0 := h.n0, n3 := h.n3, peer := h.peer, fresh := hf }

theorem ROk.inc {s : Sess} (h : ROk kI kR tI s) (h3 : 3 ≤ s.hs) : ROk kI kR tI { s with nonce := s.nonce + 1 } :=
  { isInit := h.isInit, key := h.key, eph := h.eph, wedged := h.wedged,
    hs := h.hs, n0 := fun h0 => by have : s.hs ≤ 1 := h0; omega,
    n3 := fun _ => by have := h.n3 h3; show 16 ≤ s.nonce + 1; omega, peer := h.peer, fresh := h.fresh }

theorem IOk.hs_of_nonce {s : Sess} (h : IOk kI kR tI s) (hn : 16 < s.nonce) : 4 ≤ s.hs := by
  rcases h.hs with h0 | h0 | h0 | h0
  · have := h.n0 h0; omega
  · have := h.n2 h0; omega
  · omega
  · omega

theorem ROk.hs_of_nonce {s : Sess} (h : ROk kI kR tI s) (hn : 16 < s.nonce) : 3 ≤ s.hs := by
  rcases h.hs with h0 | h0 | h0 | h0
  · have := h.n0 (by omega); omega
  · have := h.n0 (by omega); omega
  · omega
  · omega

/-- the `last` field after validating a genuine counter stays below the sender's nonce -/
theorem last_bound {f : Replay.Filter} {n non : Nat} (hl : f.last < non ∨ f.last = 0) (hn : n < non) :
    (Replay.validate f n maxNonce).1.last < non ∨ (Replay.validate f n maxNonce).1.last = 0 := by
  rcases Replay.validate_last f n maxNonce with h | ⟨h, _, _⟩
  · rw [h]; exact hl
  · left; rw [h]; exact hn

/-- what one delivery does at the initiator -/
structure IStep (kI kR tI rhs rnon : Nat) (s s' : Sess) (r : Res) : Prop where
  ok : IOk kI kR tI s'
  exp : s'.expiresAt = s.expiresAt
  hs : s.hs ≤ s'.hs
  non : s.nonce ≤ s'.nonce
  non' : s'.nonce = s.nonce ∨ s'.nonce = 16
  last : s'.rp.last < rnon ∨ s'.rp.last = 0
  c1 : 2 ≤ s'.hs → 1 ≤ rhs
  c3 : 4 ≤ s'.hs → 3 ≤ rhs
  err : r = .err → s' = s
  out : ∀ o, r = .hs (some o) → Gen kI kR tI s'.hs s'.nonce rhs rnon o

theorem I_hs_gen {s : Sess} (h : IOk kI kR tI s) (rhs rnon : Nat) (o : Wire) (ho : s.handshake = some o) :
    Gen kI kR tI s.hs s.nonce rhs rnon o := by
  rw [I_handshake h] at ho
  split at ho
  · cases ho; exact .ih
  · split at ho
    · cases ho; exact .id (by omega)
    · cases ho

theorem IStep.refl {s : Sess} {rhs rnon : Nat} {r : Res} (h : IOk kI kR tI s)
    (hl : s.rp.last < rnon ∨ s.rp.last = 0) (c1 : 2 ≤ s.hs → 1 ≤ rhs) (c3 : 4 ≤ s.hs → 3 ≤ rhs)
    (hr : r = .err ∨ r = .hs s.handshake) : IStep kI kR tI rhs rnon s s r :=
  { ok := h, exp := rfl, hs := Nat.le_refl _, non := Nat.le_refl _, non' := Or.inl rfl, last := hl, c1 := c1, c3 := c3,
    err := fun _ => rfl,
    out := fun o ho => by
      rcases hr with hr | hr
      · rw [hr] at ho; cases ho
      · rw [hr] at ho; injection ho with ho; exact I_hs_gen h rhs rnon o ho }

theorem I_step {s : Sess} {rhs rnon : Nat} {w : Wire} (now : Nat) (h : IOk kI kR tI s)
    (hg : Gen kI kR tI s.hs s.nonce rhs rnon w) (hl : s.rp.last < rnon ∨ s.rp.last = 0)
    (c1 : 2 ≤ s.hs → 1 ≤ rhs) (c3 : 4 ≤ s.hs → 3 ≤ rhs) (rn : 16 < rnon → 3 ≤ rhs) :
    IStep kI kR tI rhs rnon s (s.deliver w now).1 (s.deliver w now).2 := by
  cases hg with
  | ih => rw [I_mIH h]; exact .refl h hl c1 c3 (Or.inl rfl)
  | id _ => rw [I_mID h]; exact .refl h hl c1 c3 (Or.inl rfl)
  | di n p h1 h2 => rw [I_dat_own h n p now h1]; exact .refl h hl c1 c3 (Or.inl rfl)
  | rh hr =>
    rw [I_mRH h]
    split
    · exact .refl h hl c1 c3 (Or.inl rfl)
    split
    · rename_i h0
      exact { ok := h.to2, exp := rfl, hs := by show s.hs ≤ 2; omega, non := by have := h.n0 h0; show s.nonce ≤ 16; omega,
              non' := Or.inr rfl, last := hl, c1 := fun _ => hr, c3 := fun h => (by simp at h),
              err := fun h => (by cases h), out := fun o ho => by cases ho; exact .id (Nat.le_refl _) }
    · exact .refl h hl c1 c3 (Or.inr rfl)
  | rd hr =>
    rw [I_mRD h]
    split
    · exact .refl h hl c1 c3 (Or.inl rfl)
    split
    · rename_i h2
      exact { ok := h.to4 h2, exp := rfl, hs := by show s.hs ≤ 4; omega, non := by have := h.n2 h2; show s.nonce ≤ 16; omega,
              non' := Or.inr rfl, last := hl, c1 := fun _ => by omega, c3 := fun _ => hr,
              err := fun h => (by cases h), out := fun o ho => by cases ho }
    · exact .refl h hl c1 c3 (Or.inr rfl)
  | dr n p h1 h2 =>
    rw [I_dat h n p now h1]
    have h3 : 3 ≤ rhs := rn (by omega)
    split
    · exact .refl h hl c1 c3 (Or.inl rfl)
    split
    · exact .refl h hl c1 c3 (Or.inl rfl)
    rename_i hlt
    split
    · exact { ok := h.rp8 (by omega) (Replay.validate_fresh _ _ _ h.fresh), exp := rfl,
              hs := by show s.hs ≤ 8; rcases h.hs with h0 | h0 | h0 | h0 <;> omega,
              non := Nat.le_refl _, non' := Or.inl rfl, last := last_bound hl h2,
              c1 := fun _ => by omega, c3 := fun _ => h3,
              err := fun h => (by cases h), out := fun o ho => by cases ho }
    · exact { ok := h.rp' (Replay.validate_fresh _ _ _ h.fresh), exp := rfl,
              hs := Nat.le_refl _, non := Nat.le_refl _, non' := Or.inl rfl, last := last_bound hl h2,
              c1 := c1, c3 := c3, err := fun h => (by cases h), out := fun o ho => by cases ho }

/-- what one delivery does at the responder -/
structure RStep (kI kR tI ihs inon : Nat) (s s' : Sess) (r : Res) : Prop where
  ok : ROk kI kR tI s'
  exp : s'.expiresAt = s.expiresAt
  hs : s.hs ≤ s'.hs
  non : s.nonce ≤ s'.nonce
  non' : s'.nonce = s.nonce ∨ s'.nonce = 16
  last : s'.rp.last < inon ∨ s'.rp.last = 0
  c2 : 3 ≤ s'.hs → 2 ≤ ihs
  c4 : s'.hs = 8 → 4 ≤ ihs
  err : r = .err → s' = s
  out : ∀ o, r = .hs (some o) → Gen kI kR tI ihs inon s'.hs s'.nonce o

theorem R_hs_gen {s : Sess} (h : ROk kI kR tI s) (ihs inon : Nat) (o : Wire) (ho : s.handshake = some o) :
    Gen kI kR tI ihs inon s.hs s.nonce o := by
  rw [R_handshake h] at ho
  split at ho
  · cases ho; exact .rh (by omega)
  · split at ho
    · cases ho; exact .rd (by omega)
    · cases ho

theorem RStep.refl {s : Sess} {ihs inon : Nat} {r : Res} (h : ROk kI kR tI s)
    (hl : s.rp.last < inon ∨ s.rp.last = 0) (c2 : 3 ≤ s.hs → 2 ≤ ihs) (c4 : s.hs = 8 → 4 ≤ ihs)
    (hr : r = .err ∨ r = .hs s.handshake) : RStep kI kR tI ihs inon s s r :=
  { ok := h, exp := rfl, hs := Nat.le_refl _, non := Nat.le_refl _, non' := Or.inl rfl, last := hl, c2 := c2, c4 := c4,
    err := fun _ => rfl,
    out := fun o ho => by
      rcases hr with hr | hr
      · rw [hr] at ho; cases ho
      · rw [hr] at ho; injection ho with ho; exact R_hs_gen h ihs inon o ho }

theorem R_step {s : Sess} {ihs inon : Nat} {w : Wire} (now : Nat) (h : ROk kI kR tI s)
    (hg : Gen kI kR tI ihs inon s.hs s.nonce w) (hl : s.rp.last < inon ∨ s.rp.last = 0)
    (c2 : 3 ≤ s.hs → 2 ≤ ihs) (c4 : s.hs = 8 → 4 ≤ ihs) (inn : 16 < inon → 4 ≤ ihs) :
    RStep kI kR tI ihs inon s (s.deliver w now).1 (s.deliver w now).2 := by
  cases hg with
  | rh _ => rw [R_mRH h]; exact .refl h hl c2 c4 (Or.inl rfl)
  | rd _ => rw [R_mRD h]; exact .refl h hl c2 c4 (Or.inl rfl)
  | dr n p h1 h2 => rw [R_dat_own h n p now h1]; exact .refl h hl c2 c4 (Or.inl rfl)
  | ih =>
    rw [R_mIH h]
    split
    · exact .refl h hl c2 c4 (Or.inl rfl)
    split
    · rename_i h0
      exact { ok := h.to1 h0, exp := rfl, hs := by show s.hs ≤ 1; omega, non := Nat.le_refl _,
              non' := Or.inl rfl, last := hl, c2 := fun h => (by simp at h), c4 := fun h => (by simp at h),
              err := fun h => (by cases h), out := fun o ho => by cases ho; exact .rh (Nat.le_refl _) }
    · exact .refl h hl c2 c4 (Or.inr rfl)
  | id hi =>
    rw [R_mID h]
    split
    · exact .refl h hl c2 c4 (Or.inl rfl)
    split
    · rename_i h1
      exact { ok := h.to3 h1, exp := rfl, hs := by show s.hs ≤ 3; omega,
              non := by have := h.n0 (by omega); show s.nonce ≤ 16; omega,
              non' := Or.inr rfl, last := hl, c2 := fun _ => hi, c4 := fun h => (by simp at h),
              err := fun h => (by cases h), out := fun o ho => by cases ho; exact .rd (Nat.le_refl _) }
    · exact .refl h hl c2 c4 (Or.inr rfl)
  | di n p h1 h2 =>
    rw [R_dat h n p now h1]
    have h4 : 4 ≤ ihs := inn (by omega)
    split
    · exact .refl h hl c2 c4 (Or.inl rfl)
    split
    · exact .refl h hl c2 c4 (Or.inl rfl)
    rename_i hlt
    split
    · exact { ok := h.rp8 (by omega) (Replay.validate_fresh _ _ _ h.fresh), exp := rfl,
              hs := by show s.hs ≤ 8; rcases h.hs with h0 | h0 | h0 | h0 <;> omega,
              non := Nat.le_refl _, non' := Or.inl rfl, last := last_bound hl h2,
              c2 := fun _ => by omega, c4 := fun _ => h4,
              err := fun h => (by cases h), out := fun o ho => by cases ho }
    · exact { ok := h.rp' (Replay.validate_fresh _ _ _ h.fresh), exp := rfl,
              hs := Nat.le_refl _, non := Nat.le_refl _, non' := Or.inl rfl, last := last_bound hl h2,
              c2 := c2, c4 := c4, err := fun h => (by cases h), out := fun o ho => by cases ho }

end P2PVerif.P2PKE
