import P2PVerif.Model.KeTimed
import P2PVerif.Lemmas.KeTimed
/-! The quantitative form of `never_stranded` (C07 `acts_within_one_backoff`): while callers wait, a timer that
    acts for them is due within one handshake backoff, and the handshake timer is never armed further ahead than
    that. The invariant of `Lemmas/KeTimed.lean` (`TInv`) is carried along with two clauses that mention the
    clock. -/
namespace P2PVerif.P2PKE
open P2PVerif

/-- the handshake timer is armed at most one backoff ahead -/
def HsBound (t : TChan) (now : Nat) : Prop := ∀ b, t.hsAt = some b → b ≤ now + t.backoff

/-- `TSt.ActsSoon` with the clock as a parameter -/
def Soon (t : TChan) (now : Nat) : Prop :=
  t.chan.waiting > 0 →
    (∃ a, t.rekeyAt = some a ∧ a ≤ now + t.backoff) ∨
    (t.chan.next.isSome = true ∧ ∃ b, t.hsAt = some b ∧ b ≤ now + t.backoff)

structure SInv (t : TChan) (now : Nat) : Prop where
  inv : TInv t
  h : HsBound t now
  s : Soon t now

theorem SInv.fresh (key : KeyId) (accept : KeyId → Bool) (rj ka ra bo : Nat) :
    SInv (TChan.fresh key accept rj ka ra bo) 0 := by
  refine ⟨TInv.fresh key accept rj ka ra bo, fun b h => ?_, fun h => ?_⟩
  · exact absurd h (by simp [TChan.fresh])
  · exact absurd h (by simp [TChan.fresh, Chan.fresh])

/-- time passes: every bound is monotone in the clock -/
theorem SInv.mono {t : TChan} {now : Nat} (h : SInv t now) (d : Nat) : SInv t (now + d) := by
  refine ⟨h.inv, fun b hb => ?_, fun hw => ?_⟩
  · have := h.h b hb; omega
  · rcases h.s hw with ⟨a, ha, hle⟩ | ⟨hn, b, hb, hle⟩
    · exact .inl ⟨a, ha, by omega⟩
    · exact .inr ⟨hn, b, hb, by omega⟩

/-- the tail of `getOrInit`: whatever it finds, a timer is due within one backoff afterwards -/
theorem TChan.arm_soon (t : TChan) (c' : Chan) (now : Nat) (hb : HsBound t now) :
    HsBound (t.arm c' now) now ∧ Soon (t.arm c' now) now := by
  unfold TChan.arm
  split
  · refine ⟨hb, fun _ => .inl ⟨now, rfl, ?_⟩⟩
    show now ≤ now + t.backoff
    omega
  · rename_i hnn
    have hs : c'.next.isSome = true := by
      cases h : c'.next with
      | none => rw [h] at hnn; exact absurd rfl hnn
      | some e => rfl
    split
    · refine ⟨fun b h => ?_, fun _ => .inr ⟨hs, now + t.backoff, rfl, Nat.le_refl _⟩⟩
      have h' : some (now + t.backoff) = some b := h
      cases h'
      exact Nat.le_refl _
    · rename_i hh
      obtain ⟨b, hx⟩ : ∃ b, t.hsAt = some b := by
        cases hx : t.hsAt with
        | none => rw [hx] at hh; exact absurd rfl hh
        | some b => exact ⟨b, rfl⟩
      exact ⟨hb, fun _ => .inr ⟨hs, b, hx, hb b hx⟩⟩

theorem TChan.send_soon (t : TChan) (p : Bytes) (now : Nat) (h : SInv t now) : SInv (t.send p now).1 now := by
  have hi := TChan.send_inv t p now h.inv
  have hf := Chan.expire_facts t.chan now
  rcases Chan.send_cases t.chan p now with ⟨hcur, hs⟩ | ⟨e, hcur, hs⟩
  · have : (t.send p now).1 = t.arm (t.chan.send p now).1 now := by
      simp only [TChan.send, hs]
    rw [this] at hi ⊢
    have ha := TChan.arm_soon t (t.chan.send p now).1 now h.h
    exact ⟨hi, ha.1, ha.2⟩
  · have : (t.send p now).1 = { t with chan := (t.chan.send p now).1 } := by
      simp only [TChan.send, hs]
    rw [this] at hi ⊢
    refine ⟨hi, h.h, fun hw => ?_⟩
    rw [hs] at hw
    have hw' : (t.chan.expire now).waiting > 0 := hw
    rw [hf.waiting] at hw'
    have := hf.cur (h.inv.k hw')
    rw [this] at hcur; cases hcur

theorem TChan.pend_soon (t : TChan) (now : Nat) (h : SInv t now) : SInv (t.pend now).1 now := by
  have hi := TChan.pend_inv t now h.inv
  have hf := Chan.expire_facts t.chan now
  rcases Chan.pend_cases t.chan now with ⟨hcur, hs⟩ | ⟨hcur, hs⟩
  · have : (t.pend now).1 = t.arm (t.chan.pend now).1 now := by
      simp only [TChan.pend, hs]
    rw [this] at hi ⊢
    have ha := TChan.arm_soon t (t.chan.pend now).1 now h.h
    exact ⟨hi, ha.1, ha.2⟩
  · have : (t.pend now).1 = { t with chan := (t.chan.pend now).1 } := by
      simp only [TChan.pend, hs]
    rw [this] at hi ⊢
    refine ⟨hi, h.h, fun hw => ?_⟩
    rw [hs] at hw
    have hw' : (t.chan.expire now).waiting > 0 := hw
    rw [hf.waiting] at hw'
    have := hf.cur (h.inv.k hw')
    rw [this] at hcur; cases hcur

theorem TChan.unpend_soon (t : TChan) (now : Nat) (h : SInv t now) : SInv t.unpend now := by
  refine ⟨TChan.unpend_inv t h.inv, h.h, fun hw => ?_⟩
  have hw' : t.chan.waiting - 1 > 0 := hw
  exact h.s (by omega)

theorem TChan.deliver_soon (t : TChan) (lt : IdLt) (w : Wire) (eph now : Nat) (h : SInv t now) :
    SInv (t.deliver lt w eph now).1 now := by
  have ht := Chan.deliver_track t.chan lt w eph now h.inv.wf
  refine ⟨TChan.deliver_inv t lt w eph now h.inv, h.h, fun hw => ?_⟩
  rw [TChan.deliver_chan] at hw
  have hq : t.chan.waiting > 0 ∧ (t.chan.deliver lt w eph now).1.cur = none := by
    rcases ht.2 with hq | h0
    · have hw' : t.chan.waiting > 0 := by rw [← hq.1]; exact hw
      exact ⟨hw', hq.2 (h.inv.k hw')⟩
    · omega
  obtain ⟨hw', hcur'⟩ := hq
  show (∃ a, (t.deliver lt w eph now).1.rekeyAt = some a ∧ a ≤ now + t.backoff) ∨
    ((t.deliver lt w eph now).1.chan.next.isSome = true ∧
      ∃ b, (t.deliver lt w eph now).1.hsAt = some b ∧ b ≤ now + t.backoff)
  rw [TChan.deliver_chan, TChan.deliver_hsAt, TChan.deliver_rekeyAt, hcur']
  simp only [sameId_none_right, Bool.false_and, Bool.false_eq_true, if_false]
  rcases h.s hw' with ⟨a, ha, hle⟩ | ⟨hn, b, hb, hle⟩
  · left
    split
    · exact ⟨now + t.backoff, rfl, Nat.le_refl _⟩
    · exact ⟨a, ha, hle⟩
  · cases hn' : (t.chan.deliver lt w eph now).1.next with
    | none =>
      left
      refine ⟨now + t.backoff, ?_, Nat.le_refl _⟩
      simp [hn, hw']
    | some e => exact .inr ⟨rfl, b, hb, hle⟩

theorem TChan.fireRekey_backoff (t : TChan) (lt : IdLt) (eph now : Nat) :
    (t.fireRekey lt eph now).backoff = t.backoff := by
  unfold TChan.fireRekey
  simp only []
  split <;> rfl

theorem TChan.fireRekey_hsAt_le (t : TChan) (lt : IdLt) (eph now : Nat) (hb : HsBound t now) :
    ∃ b, (t.fireRekey lt eph now).hsAt = some b ∧ b ≤ now + t.backoff := by
  unfold TChan.fireRekey
  simp only []
  split
  · cases hx : t.hsAt with
    | none => exact ⟨now + t.backoff, rfl, Nat.le_refl _⟩
    | some b => exact ⟨b, rfl, hb b hx⟩
  · exact ⟨now, rfl, by omega⟩

theorem TChan.fireRekey_soon (t : TChan) (lt : IdLt) (eph now : Nat) (h : SInv t now) :
    SInv (t.fireRekey lt eph now) now := by
  obtain ⟨b, hb, hle⟩ := TChan.fireRekey_hsAt_le t lt eph now h.h
  have hbo := TChan.fireRekey_backoff t lt eph now
  refine ⟨TChan.fireRekey_inv t lt eph now h.inv, fun b' hb' => ?_, fun _ => .inr ⟨(TChan.fireRekey_spec t lt eph now).1, b, hb, ?_⟩⟩
  · rw [hb] at hb'
    cases hb'
    rw [hbo]; exact hle
  · rw [hbo]; exact hle

theorem TChan.fireHs_soon (t : TChan) (now : Nat) (h : SInv t now) : SInv (t.fireHs now).1 now := by
  have hf := Chan.expire_facts t.chan now
  have he := Chan.expire_keeps t.chan now h.inv.inv
  have hsub := Chan.nextAfter_sub t.chan now
  rw [← hf.next] at hsub
  have hwfe : NWf (t.chan.expire now) := h.inv.wf.of_sub hsub
  refine ⟨TChan.fireHs_inv t now h.inv, fun b hb => ?_, fun hw => ?_⟩
  · rw [TChan.fireHs_hsAt] at hb
    show b ≤ now + t.backoff
    split at hb
    · cases hb
    · cases hb; exact Nat.le_refl _
  · have hw' : t.chan.waiting > 0 := by rw [← hf.waiting]; exact hw
    show (∃ a, (t.fireHs now).1.rekeyAt = some a ∧ a ≤ now + t.backoff) ∨
      ((t.chan.expire now).next.isSome = true ∧ ∃ b, (t.fireHs now).1.hsAt = some b ∧ b ≤ now + t.backoff)
    cases hn' : (t.chan.expire now).next with
    | some e =>
      right
      refine ⟨rfl, now + t.backoff, ?_, Nat.le_refl _⟩
      rw [TChan.fireHs_hsAt,
        Chan.onHandshake_outs _ e hn' (he.inv.next e hn') ((hwfe e hn').handshake (he.inv.next e hn'))]
      rfl
    | none =>
      left
      cases hn : t.chan.next with
      | some n =>
        rw [abandon_restarts t now n hn hn' (.inr ⟨hw', hf.cur (h.inv.k hw')⟩)]
        exact ⟨now, rfl, by omega⟩
      | none =>
        rw [TChan.fireHs_rekeyAt, Chan.restart_eq, hn]
        simp only [Bool.false_eq_true, if_false]
        rcases h.s hw' with hr | ⟨hx, -⟩
        · exact hr
        · rw [hn] at hx; cases hx

/-! ## runs -/

theorem TSt.step_soon (s : TSt) (lt : IdLt) (op : TOp) (h : SInv s.t s.now) :
    SInv (s.step lt op).t (s.step lt op).now := by
  unfold TSt.step
  split
  · exact h
  · cases op with
    | send p => exact TChan.send_soon s.t p s.now h
    | pend => exact TChan.pend_soon s.t s.now h
    | unpend => exact TChan.unpend_soon s.t s.now h
    | deliver w eph => exact TChan.deliver_soon s.t lt w eph s.now h
    | tick d => exact h.mono d
    | fireRekey eph => exact TChan.fireRekey_soon s.t lt eph s.now h
    | fireHs => exact TChan.fireHs_soon s.t s.now h

theorem TSt.run_soon (s : TSt) (lt : IdLt) (ops : List TOp) (h : SInv s.t s.now) :
    SInv (s.run lt ops).t (s.run lt ops).now := by
  induction ops generalizing s with
  | nil => exact h
  | cons op ops ih => exact ih (s.step lt op) (TSt.step_soon s lt op h)

theorem acts_within_one_backoff (key : KeyId) (accept : KeyId → Bool) (rj ka ra bo : Nat) (lt : IdLt) (ops : List TOp) :
    let s := (TSt.mk (TChan.fresh key accept rj ka ra bo) 0).run lt ops
    s.ActsSoon ∧ (∀ b, s.t.hsAt = some b → b ≤ s.now + s.t.backoff) := by
  intro s
  have h := TSt.run_soon (TSt.mk (TChan.fresh key accept rj ka ra bo) 0) lt ops (SInv.fresh key accept rj ka ra bo)
  exact ⟨h.s, h.h⟩

end P2PVerif.P2PKE
