import P2PVerif.Model.Reasm
import P2PVerif.Lemmas.Chunks
import P2PVerif.Lemmas.MTU
import P2PVerif.Lemmas.ReasmFrag
/-! C10, mbapp: schedules against the reassembly model of p/mbapp. -/
namespace P2PVerif.Reasm
open P2PVerif

/-! ### `copy(buf[offset:], data)` -/

theorem overwrite_length (buf : Bytes) (off : Nat) (data : Bytes) (h : off + data.length ≤ buf.length) :
    (Mbapp.overwrite buf off data).length = buf.length := by
  unfold Mbapp.overwrite
  simp only [List.length_append, List.length_take, List.length_drop]
  omega

theorem overwrite_getElem? (buf : Bytes) (off : Nat) (data : Bytes) (h : off + data.length ≤ buf.length) (k : Nat) :
    (Mbapp.overwrite buf off data)[k]? = if off ≤ k ∧ k < off + data.length then data[k - off]? else buf[k]? := by
  unfold Mbapp.overwrite
  rw [List.take_of_length_le (show data.length ≤ buf.length - off by omega)]
  rw [List.append_assoc, List.getElem?_append]
  have hl : (List.take off buf).length = off := by simp; omega
  rw [hl]
  by_cases h1 : k < off
  · rw [if_pos h1, if_neg (by omega), List.getElem?_take, if_pos h1]
  · rw [if_neg h1, List.getElem?_append]
    by_cases h2 : k - off < data.length
    · rw [if_pos h2, if_pos (by omega)]
    · rw [if_neg h2, if_neg (by omega), List.getElem?_drop]; congr 1; omega

/-! ### one collector -/

/-- the collector is sized for `payload` cut into `n`-byte parts, only bits in `S` are set, and under every
    set bit the buffer agrees with the payload -/
def ColOK (n : Nat) (payload : Bytes) (col : Mbapp.Col) (S : Nat → Prop) : Prop :=
  col.partCount = (Frag.chunks n payload).length ∧ col.bits.length = (Frag.chunks n payload).length ∧
  col.buf.length = payload.length ∧
  (∀ j : Nat, col.bits[j]? = some true → S j) ∧
  (∀ j r : Nat, col.bits[j]? = some true → r < n → j * n + r < payload.length →
    col.buf[j * n + r]? = payload[j * n + r]?)

theorem colOK_new (n : Nat) (payload : Bytes) (S : Nat → Prop) :
    ColOK n payload (Mbapp.Col.new (Frag.chunks n payload).length payload.length) S := by
  have hno : ∀ j : Nat, (List.replicate (Frag.chunks n payload).length false)[j]? ≠ some true := by
    intro j h
    rw [List.getElem?_replicate] at h
    split at h <;> simp at h
  refine ⟨rfl, by simp [Mbapp.Col.new], by simp [Mbapp.Col.new], ?_, ?_⟩
  · intro j h; exact absurd h (hno j)
  · intro j r h; exact absurd h (hno j)

theorem colOK_mono {n payload col} {S T : Nat → Prop} (h : ColOK n payload col S) (hST : ∀ j, S j → T j) :
    ColOK n payload col T :=
  ⟨h.1, h.2.1, h.2.2.1, fun j hj => hST j (h.2.2.2.1 j hj), h.2.2.2.2⟩

theorem colOK_addPart {n payload col} {S : Nat → Prop} (hn : 1 ≤ n) (h : ColOK n payload col S)
    {pi : Nat} {p : Bytes} (hp : (Frag.chunks n payload)[pi]? = some p) :
    ColOK n payload (col.addPart pi p) (fun j => S j ∨ j = pi) ∧ (col.addPart pi p).bits[pi]? = some true ∧
    ∀ j : Nat, col.bits[j]? = some true → (col.addPart pi p).bits[j]? = some true := by
  obtain ⟨hpc, hbl, hbufl, hS, hbuf⟩ := h
  obtain ⟨hlt, hpeq⟩ := Frag.chunk_eq n hn payload pi p hp
  have hpi : pi < (Frag.chunks n payload).length := (List.getElem?_eq_some_iff.mp hp).1
  have hplen : p.length = min n (payload.length - pi * n) := by rw [hpeq]; simp [List.length_take]
  have hsucc : (pi + 1) * n = pi * n + n := Nat.succ_mul pi n
  unfold Mbapp.Col.addPart
  rw [if_neg (by omega)]
  by_cases hbit : col.bits.getD pi false = true
  · rw [if_pos hbit]
    have hb : col.bits[pi]? = some true := by
      have hlt' : pi < col.bits.length := by omega
      rw [List.getD_eq_getElem?_getD, List.getElem?_eq_getElem hlt'] at hbit
      rw [List.getElem?_eq_getElem hlt']
      simpa using hbit
    exact ⟨⟨hpc, hbl, hbufl, fun j hj => Or.inl (hS j hj), hbuf⟩, hb, fun j hj => hj⟩
  · rw [if_neg hbit]
    have hoff : (if pi = col.partCount - 1 then (col.buf.length : Int) - p.length else ((p.length * pi : Nat) : Int))
        = ((pi * n : Nat) : Int) := by
      by_cases hlast : pi = col.partCount - 1
      · rw [if_pos hlast]
        have : ¬ ((pi + 1) * n < payload.length) := by
          rw [← Frag.lt_chunks_length n hn]; omega
        omega
      · rw [if_neg hlast]
        have : (pi + 1) * n < payload.length := by rw [← Frag.lt_chunks_length n hn]; omega
        have : p.length = n := by omega
        rw [this, Nat.mul_comm]
    simp only [hoff]
    rw [if_neg (by omega)]
    simp only [Int.toNat_natCast]
    have hfit : pi * n + p.length ≤ col.buf.length := by omega
    have hmul_lt : ∀ j, j < pi → j * n + n ≤ pi * n := fun j hj => by
      have := Nat.mul_le_mul_right n (show j + 1 ≤ pi from hj)
      rw [Nat.succ_mul] at this; exact this
    have hmul_gt : ∀ j, pi < j → pi * n + n ≤ j * n := fun j hj => by
      have := Nat.mul_le_mul_right n (show pi + 1 ≤ j from hj)
      rw [Nat.succ_mul] at this; exact this
    refine ⟨⟨hpc, by simpa using hbl, by simpa [overwrite_length _ _ _ hfit] using hbufl, ?_, ?_⟩, ?_, ?_⟩
    · intro j hj
      simp only [List.getElem?_set] at hj
      by_cases e : pi = j
      · exact Or.inr e.symm
      · rw [if_neg e] at hj; exact Or.inl (hS j hj)
    · intro j r hj hr hjr
      simp only [List.getElem?_set] at hj
      simp only
      rw [overwrite_getElem? _ _ _ hfit]
      by_cases e : pi = j
      · subst e
        rw [if_pos (by omega)]
        rw [hpeq, List.getElem?_take, if_pos (by omega), List.getElem?_drop]
        congr 1; omega
      · rw [if_neg e] at hj
        have hout : ¬ (pi * n ≤ j * n + r ∧ j * n + r < pi * n + p.length) := by
          rcases Nat.lt_or_gt_of_ne e with h | h
          · have := hmul_gt j h; omega
          · have := hmul_lt j h; omega
        rw [if_neg hout]
        exact hbuf j r hj hr hjr
    · exact List.getElem?_set_self (by omega)
    · intro j hj
      simp only [List.getElem?_set]
      by_cases e : pi = j
      · subst e; rw [if_pos rfl, if_pos (by omega)]
      · rw [if_neg e]; exact hj

theorem colOK_all {n payload col} {S : Nat → Prop} (hn : 1 ≤ n) (h : ColOK n payload col S)
    (hall : col.bits.all id = true) :
    col.buf = payload ∧ ∀ j, j < (Frag.chunks n payload).length → S j := by
  obtain ⟨hpc, hbl, hbufl, hS, hbuf⟩ := h
  rw [List.all_eq_true] at hall
  have hbits : ∀ j, j < (Frag.chunks n payload).length → col.bits[j]? = some true := by
    intro j hj
    have hj' : j < col.bits.length := by omega
    have := hall _ (List.getElem_mem hj')
    simp only [id] at this
    rw [List.getElem?_eq_getElem hj', this]
  refine ⟨?_, fun j hj => hS j (hbits j hj)⟩
  apply List.ext_getElem?
  intro k
  by_cases hk : k < payload.length
  · have hdm : k / n * n + k % n = k := by rw [Nat.mul_comm]; exact Nat.div_add_mod k n
    have hjn : k / n * n < payload.length := by omega
    have hj := (Frag.lt_chunks_length n hn payload (k / n)).mpr hjn
    have := hbuf (k / n) (k % n) (hbits _ hj) (Nat.mod_lt _ (by omega)) (by omega)
    rw [hdm] at this; exact this
  · rw [List.getElem?_eq_none (by omega), List.getElem?_eq_none (by omega)]

/-! ### what the receiver's parser sees -/

/-- the sender's chunks of a message -/
def mps (innerMTU : Nat) (m : MMsg) : List Bytes := Frag.chunks (innerMTU - Mbapp.headerSize) m.payload

/-- the header the sender puts on part `pi` of `count` -/
@[reducible] def mhdr (m : MMsg) (pi count : Nat) : Mbapp.Hdr :=
  { m.hdr with partIndex := pi, partCount := count, totalSize := m.payload.length }

theorem mbapp_cases (innerMTU cfgMTU : Nat) (m : MMsg) (hg : m.genuine innerMTU cfgMTU) :
    m.payload.length ≤ cfgMTU ∧
    ((∃ pkt h, m.frags = [pkt] ∧ Mbapp.decode pkt = some (h, m.payload) ∧ h.totalSize = m.payload.length ∧
        h.partCount < 2 ∧ h.isAsk = m.hdr.isAsk ∧ h.isReply = m.hdr.isReply ∧ h.counter = m.hdr.counter) ∨
     (1 ≤ innerMTU - Mbapp.headerSize ∧ m.frags.length = (mps innerMTU m).length ∧ 2 ≤ (mps innerMTU m).length ∧
        ∀ pi pkt, m.frags[pi]? = some pkt → ∃ p, (mps innerMTU m)[pi]? = some p ∧
          Mbapp.decode pkt = some (mhdr m pi (mps innerMTU m).length, p))) := by
  obtain ⟨ho, hc, hto, he, hsz, _, hs⟩ := hg
  unfold Mbapp.send at hs
  by_cases hgt : (m.payload.length : Int) > Mbapp.mtu innerMTU cfgMTU
  · rw [if_pos hgt] at hs; cases hs
  rw [if_neg hgt] at hs
  refine ⟨MTU.mbapp_le_cfg innerMTU cfgMTU m.payload (by omega), ?_⟩
  simp only at hs
  by_cases h0 : m.payload.length = 0
  · rw [if_pos h0] at hs
    left
    have hpl : m.payload = [] := List.eq_nil_of_length_eq_zero h0
    refine ⟨_, ({ m.hdr with partIndex := 0, partCount := 0, totalSize := 0 } : Mbapp.Hdr),
      (Option.some.inj hs).symm, ?_, h0.symm, (by decide : (0 : Nat) < 2), rfl, rfl, rfl⟩
    have := Mbapp.decode_encode ({ m.hdr with partIndex := 0, partCount := 0, totalSize := 0 } : Mbapp.Hdr) []
      he ho hc (by decide : (0 : Nat) < 2 ^ 32) (by decide : (0 : Nat) < 65536) (by decide : (0 : Nat) < 65536) hto
    rw [List.append_nil] at this
    rw [this, hpl]
  rw [if_neg h0] at hs
  obtain ⟨hn, hle', _⟩ := MTU.mbapp_guard innerMTU cfgMTU m.payload (by omega) (by omega)
  have hgd : ¬ ((innerMTU : Int) - Mbapp.headerSize < 1 ∨
      m.payload.length > (innerMTU - Mbapp.headerSize) * Mbapp.maxParts) := by
    simp only [Mbapp.maxParts]; omega
  rw [if_neg hgd, Mbapp.chunks_eq_frag] at hs
  have hlenmax := Frag.chunks_length_le _ hn m.payload 65535 hle'
  have hlen1 := Frag.chunks_length_pos _ hn m.payload (by omega)
  by_cases h1 : (Frag.chunks (innerMTU - Mbapp.headerSize) m.payload).length < 2
  · rw [if_pos h1] at hs
    left
    refine ⟨_, mhdr m 0 (Frag.chunks (innerMTU - Mbapp.headerSize) m.payload).length,
      (Option.some.inj hs).symm, ?_, rfl, h1, rfl, rfl, rfl⟩
    exact Mbapp.decode_encode (mhdr m 0 _) _ he ho hc hsz (by decide : (0 : Nat) < 65536) (by simp only; omega) hto
  · rw [if_neg h1] at hs
    right
    have hfr := (Option.some.inj hs).symm
    refine ⟨hn, by rw [hfr]; simp [mps], by unfold mps; omega, ?_⟩
    intro pi pkt hp
    rw [hfr, List.getElem?_mapIdx, Option.map_eq_some_iff] at hp
    obtain ⟨p, hp1, hp2⟩ := hp
    refine ⟨p, hp1, ?_⟩
    have hpi : pi < (Frag.chunks (innerMTU - Mbapp.headerSize) m.payload).length :=
      (List.getElem?_eq_some_iff.mp hp1).1
    rw [← hp2]
    exact Mbapp.decode_encode (mhdr m pi _) _ he ho hc hsz (by simp only; omega) (by simp only; omega) hto

/-! ### the association list -/

theorem mmem_of_get {st : Mbapp.RState} {k : Nat × Nat × Nat} {a : Mbapp.Col} (h : st.get k = some a) :
    (k, a) ∈ st := by
  unfold Mbapp.RState.get at h
  rw [Option.map_eq_some_iff] at h
  obtain ⟨⟨k', a'⟩, hf, rfl⟩ := h
  have hk := List.find?_some hf
  have hm := List.mem_of_find?_eq_some hf
  simp only [beq_iff_eq] at hk
  subst hk; exact hm

theorem mmem_erase {st : Mbapp.RState} {k : Nat × Nat × Nat} {x} (h : x ∈ st.erase k) : x ∈ st :=
  (List.mem_filter.mp h).1

theorem mmem_put {st : Mbapp.RState} {k : Nat × Nat × Nat} {a : Mbapp.Col} {x} (h : x ∈ st.put k a) :
    x = (k, a) ∨ x ∈ st := by
  unfold Mbapp.RState.put at h
  rcases List.mem_cons.mp h with h | h
  · exact Or.inl h
  · exact Or.inr (mmem_erase h)

theorem mget_put_self (st : Mbapp.RState) (k : Nat × Nat × Nat) (a : Mbapp.Col) : (st.put k a).get k = some a := by
  simp [Mbapp.RState.get, Mbapp.RState.put]

/-- the collector `handlePart` works on: the stored one or a fresh one, with the part added -/
def mcol (st : Mbapp.RState) (remote : Nat) (h : Mbapp.Hdr) (body : Bytes) : Mbapp.Col :=
  ((st.get (remote, h.originTime, h.counter)).getD (Mbapp.Col.new h.partCount h.totalSize)).addPart h.partIndex body

theorem mrecv_multi (cfgMTU : Nat) (st : Mbapp.RState) (remote : Nat) (pkt : Bytes) (h : Mbapp.Hdr) (body : Bytes)
    (hd : Mbapp.decode pkt = some (h, body)) (hs : h.totalSize ≤ cfgMTU) (hc : 2 ≤ h.partCount) :
    Mbapp.recv cfgMTU st remote pkt =
      (if (mcol st remote h body).bits.all id
        then (st.erase (remote, h.originTime, h.counter), some (h, (mcol st remote h body).buf))
        else (st.put (remote, h.originTime, h.counter) (mcol st remote h body), none)) := by
  unfold Mbapp.recv
  rw [hd]
  simp only
  rw [if_neg (by omega), if_neg (by omega)]
  rfl

/-! ### schedules -/

def mstep (cfgMTU : Nat) (msgs : List MMsg) (e : MEvent) (st : Mbapp.RState) :
    Mbapp.RState × Option (Nat × Mbapp.Hdr × Bytes) :=
  match e with
  | .recv mi pi =>
    match msgs[mi]? with
    | none => (st, none)
    | some m =>
      match m.frags[pi]? with
      | none => (st, none)
      | some pkt => ((Mbapp.recv cfgMTU st m.src pkt).1, (Mbapp.recv cfgMTU st m.src pkt).2.map (fun p => (mi, p)))
  | .cleanup r o c => (st.erase (r, o, c), none)

theorem mrun_cons (cfgMTU : Nat) (msgs : List MMsg) (e : MEvent) (evs : List MEvent) (st : Mbapp.RState)
    (out : List (Nat × Mbapp.Hdr × Bytes)) :
    mrun cfgMTU msgs (e :: evs) st out =
      mrun cfgMTU msgs evs (mstep cfgMTU msgs e st).1
        (match (mstep cfgMTU msgs e st).2 with | some d => d :: out | none => out) := by
  cases e with
  | cleanup r o c => simp [mrun, mstep]
  | recv mi pi =>
    simp only [mrun, mstep]
    cases hm : msgs[mi]? with
    | none => simp
    | some m =>
      simp only
      cases hp : m.frags[pi]? with
      | none => simp
      | some pkt =>
        simp only
        cases (Mbapp.recv cfgMTU st m.src pkt).2 <;> simp

theorem mrun_out (cfgMTU : Nat) (msgs : List MMsg) (evs : List MEvent) :
    ∀ (st : Mbapp.RState) (out : List (Nat × Mbapp.Hdr × Bytes)),
    (mrun cfgMTU msgs evs st out).2 = out.reverse ++ (mrun cfgMTU msgs evs st []).2 := by
  induction evs with
  | nil => intro st out; simp [mrun]
  | cons e evs ih =>
    intro st out
    rw [mrun_cons, mrun_cons cfgMTU msgs e evs st []]
    cases (mstep cfgMTU msgs e st).2 with
    | none => exact ih _ _
    | some d =>
      simp only
      rw [ih _ (d :: out), ih _ [d]]
      simp

theorem mrun_cons_snd (cfgMTU : Nat) (msgs : List MMsg) (e : MEvent) (evs : List MEvent) (st : Mbapp.RState) :
    (mrun cfgMTU msgs (e :: evs) st []).2 =
      (mstep cfgMTU msgs e st).2.toList ++ (mrun cfgMTU msgs evs (mstep cfgMTU msgs e st).1 []).2 := by
  rw [mrun_cons]
  cases (mstep cfgMTU msgs e st).2 with
  | none => simp
  | some d => simp only; rw [mrun_out]; simp

/-- every stored collector belongs to a message of the list and holds only that message's bytes, each part
    put there by an event in `S` -/
def MInv (innerMTU : Nat) (msgs : List MMsg) (S : MEvent → Prop) (st : Mbapp.RState) : Prop :=
  ∀ k col, (k, col) ∈ st → ∃ mi m, msgs[mi]? = some m ∧ (m.src, m.hdr.originTime, m.hdr.counter) = k ∧
    ColOK (innerMTU - Mbapp.headerSize) m.payload col (fun j => S (.recv mi j))

theorem MInv.mono {innerMTU msgs st} {S T : MEvent → Prop} (h : MInv innerMTU msgs S st) (hST : ∀ e, S e → T e) :
    MInv innerMTU msgs T st := by
  intro k col hk
  obtain ⟨mi, m, h1, h2, h3⟩ := h k col hk
  exact ⟨mi, m, h1, h2, colOK_mono h3 (fun j => hST _)⟩

theorem MInv.erase {innerMTU msgs st} {S : MEvent → Prop} (h : MInv innerMTU msgs S st) (k : Nat × Nat × Nat) :
    MInv innerMTU msgs S (st.erase k) :=
  fun k' col hk => h k' col (mmem_erase hk)

theorem MInv.nil (innerMTU : Nat) (msgs : List MMsg) : MInv innerMTU msgs (fun _ => False) [] := by
  intro k col h; cases h

/-- what a delivery must look like -/
def MDeliv (msgs : List MMsg) (d : Nat × Mbapp.Hdr × Bytes) (m : MMsg) : Prop :=
  msgs[d.1]? = some m ∧ d.2.2 = m.payload ∧
    d.2.1.isAsk = m.hdr.isAsk ∧ d.2.1.isReply = m.hdr.isReply ∧ d.2.1.counter = m.hdr.counter

theorem mstep_inv (innerMTU cfgMTU : Nat) (msgs : List MMsg)
    (hg : ∀ m ∈ msgs, m.genuine innerMTU cfgMTU)
    (hk : msgs.Pairwise (fun a b => (a.src, a.hdr.originTime, a.hdr.counter) ≠ (b.src, b.hdr.originTime, b.hdr.counter)))
    (S : MEvent → Prop) (st : Mbapp.RState) (hinv : MInv innerMTU msgs S st) (e : MEvent) :
    MInv innerMTU msgs (fun x => S x ∨ x = e) (mstep cfgMTU msgs e st).1 ∧
    ∀ d, (mstep cfgMTU msgs e st).2 = some d → ∃ m, MDeliv msgs d m ∧
      ∀ j, j < m.frags.length → S (.recv d.1 j) ∨ MEvent.recv d.1 j = e := by
  have hmono : MInv innerMTU msgs (fun x => S x ∨ x = e) st := hinv.mono (fun _ h => Or.inl h)
  cases e with
  | cleanup r o c =>
    refine ⟨?_, by simp [mstep]⟩
    simp only [mstep]
    exact hmono.erase _
  | recv mi pi =>
    simp only [mstep]
    cases hm : msgs[mi]? with
    | none => exact ⟨hmono, by simp⟩
    | some m =>
      simp only
      cases hp : m.frags[pi]? with
      | none => exact ⟨hmono, by simp⟩
      | some pkt =>
        simp only
        have hgm := hg m (List.mem_of_getElem? hm)
        obtain ⟨hcfg, hcases⟩ := mbapp_cases innerMTU cfgMTU m hgm
        rcases hcases with ⟨pkt0, h, hfr, hdec, htot, hcnt, hask, hrep, hctr⟩ | ⟨hn, hlen, h2, hpk⟩
        · -- fast path: a single datagram is handed up directly
          rw [hfr] at hp
          have hpi : pi = 0 := by
            cases pi with
            | zero => rfl
            | succ n => simp at hp
          subst hpi
          simp only [List.getElem?_cons_zero, Option.some.injEq] at hp
          subst hp
          have hr : Mbapp.recv cfgMTU st m.src pkt0 = (st, some (h, m.payload)) := by
            unfold Mbapp.recv; rw [hdec]; simp only
            rw [if_neg (by omega), if_pos hcnt]
          rw [hr]
          refine ⟨hmono, ?_⟩
          intro d hd
          simp only [Option.map_some, Option.some.injEq] at hd
          subst hd
          refine ⟨m, ⟨hm, rfl, hask, hrep, hctr⟩, ?_⟩
          intro j hj
          rw [hfr] at hj
          simp only [List.length_singleton] at hj
          have : j = 0 := by omega
          subst this
          exact Or.inr rfl
        · obtain ⟨p, hpp, hdec⟩ := hpk pi pkt hp
          have hcolok : ColOK (innerMTU - Mbapp.headerSize) m.payload
              ((st.get (m.src, m.hdr.originTime, m.hdr.counter)).getD
                (Mbapp.Col.new (mps innerMTU m).length m.payload.length))
              (fun j => S (.recv mi j) ∨ MEvent.recv mi j = MEvent.recv mi pi) := by
            cases hget : st.get (m.src, m.hdr.originTime, m.hdr.counter) with
            | none => exact colOK_new _ _ _
            | some col =>
              obtain ⟨mi', m', hm', hkey, hok⟩ := hmono _ _ (mmem_of_get hget)
              have := idx_unique (fun a : MMsg => (a.src, a.hdr.originTime, a.hdr.counter)) hk hm' hm hkey
              subst this
              rw [hm] at hm'
              cases hm'
              exact hok
          obtain ⟨hadd, _, _⟩ := colOK_addPart hn hcolok hpp
          rw [mrecv_multi cfgMTU st m.src pkt _ p hdec (by simpa using hcfg) (by simpa using h2)]
          have hmc : mcol st m.src (mhdr m pi (mps innerMTU m).length) p =
              ((st.get (m.src, m.hdr.originTime, m.hdr.counter)).getD
                (Mbapp.Col.new (mps innerMTU m).length m.payload.length)).addPart pi p := rfl
          rw [hmc]
          split
          · rename_i hall
            refine ⟨hmono.erase _, ?_⟩
            intro d hd
            simp only [Option.map_some, Option.some.injEq] at hd
            subst hd
            obtain ⟨hbuf, hS⟩ := colOK_all hn hadd hall
            refine ⟨m, ⟨hm, hbuf, rfl, rfl, rfl⟩, ?_⟩
            intro j hj
            rcases hS j (by unfold mps at hlen; omega) with h | h
            · exact h
            · subst h; exact Or.inr rfl
          · refine ⟨?_, by simp⟩
            intro k col hkcol
            rcases mmem_put hkcol with h | h
            · cases h
              refine ⟨mi, m, hm, rfl, colOK_mono hadd ?_⟩
              intro j hj
              rcases hj with h | h
              · exact h
              · subst h; exact Or.inr rfl
            · exact hmono k col h

theorem mrun_inv (innerMTU cfgMTU : Nat) (msgs : List MMsg)
    (hg : ∀ m ∈ msgs, m.genuine innerMTU cfgMTU)
    (hk : msgs.Pairwise (fun a b => (a.src, a.hdr.originTime, a.hdr.counter) ≠ (b.src, b.hdr.originTime, b.hdr.counter)))
    (evs : List MEvent) : ∀ (S : MEvent → Prop) (st : Mbapp.RState), MInv innerMTU msgs S st →
    ∀ d ∈ (mrun cfgMTU msgs evs st []).2, ∃ m, MDeliv msgs d m ∧
      ∀ j, j < m.frags.length → S (.recv d.1 j) ∨ MEvent.recv d.1 j ∈ evs := by
  induction evs with
  | nil => intro S st _ d hd; simp [mrun] at hd
  | cons e evs ih =>
    intro S st hinv d hd
    rw [mrun_cons_snd] at hd
    obtain ⟨hinv', hdel⟩ := mstep_inv innerMTU cfgMTU msgs hg hk S st hinv e
    rcases List.mem_append.mp hd with h | h
    · rw [Option.mem_toList] at h
      obtain ⟨m, h1, h3⟩ := hdel d h
      refine ⟨m, h1, ?_⟩
      intro j hj
      rcases h3 j hj with h | h
      · exact Or.inl h
      · exact Or.inr (by rw [h]; exact List.mem_cons_self)
    · obtain ⟨m, h1, h3⟩ := ih _ _ hinv' d h
      refine ⟨m, h1, ?_⟩
      intro j hj
      rcases h3 j hj with (h | h) | h
      · exact Or.inl h
      · exact Or.inr (by rw [h]; exact List.mem_cons_self)
      · exact Or.inr (List.mem_cons_of_mem _ h)

/-! ### completeness -/

theorem mstep_recv0 (cfgMTU : Nat) (m : MMsg) (i : Nat) (pkt : Bytes) (hp : m.frags[i]? = some pkt)
    (st : Mbapp.RState) :
    mstep cfgMTU [m] (.recv 0 i) st =
      ((Mbapp.recv cfgMTU st m.src pkt).1, (Mbapp.recv cfgMTU st m.src pkt).2.map (fun p => (0, p))) := by
  simp [mstep, hp]

theorem mcomplete_aux (cfgMTU : Nat) (m : MMsg) (n : Nat) (hn : 1 ≤ n)
    (hlen : m.frags.length = (Frag.chunks n m.payload).length) (h2 : 2 ≤ (Frag.chunks n m.payload).length)
    (hcfg : m.payload.length ≤ cfgMTU)
    (hpk : ∀ pi pkt, m.frags[pi]? = some pkt → ∃ p, (Frag.chunks n m.payload)[pi]? = some p ∧
      Mbapp.decode pkt = some (mhdr m pi (Frag.chunks n m.payload).length, p)) :
    ∀ (order done : List Nat) (st : Mbapp.RState), order ≠ [] →
      (done ++ order).Perm (List.range (Frag.chunks n m.payload).length) →
      ColOK n m.payload ((st.get (m.src, m.hdr.originTime, m.hdr.counter)).getD
        (Mbapp.Col.new (Frag.chunks n m.payload).length m.payload.length)) (· ∈ done) →
      (∀ j ∈ done, ((st.get (m.src, m.hdr.originTime, m.hdr.counter)).getD
        (Mbapp.Col.new (Frag.chunks n m.payload).length m.payload.length)).bits[j]? = some true) →
      ((mrun cfgMTU [m] (order.map (MEvent.recv 0)) st []).2).map (fun d => (d.1, d.2.2)) = [(0, m.payload)] := by
  intro order
  induction order with
  | nil => intro _ _ h; exact absurd rfl h
  | cons i rest ih =>
    intro done st _ hperm hok hfilled
    have hnodup : (done ++ i :: rest).Nodup := hperm.nodup_iff.mpr List.nodup_range
    have hmemr : ∀ j, j ∈ done ++ i :: rest ↔ j < (Frag.chunks n m.payload).length :=
      fun j => by rw [hperm.mem_iff, List.mem_range]
    have hi : i < (Frag.chunks n m.payload).length := (hmemr i).mp (by simp)
    obtain ⟨pkt, hpkt⟩ : ∃ pkt, m.frags[i]? = some pkt := ⟨m.frags[i], List.getElem?_eq_getElem (by omega)⟩
    obtain ⟨p, hpp, hdec⟩ := hpk i pkt hpkt
    rw [List.map_cons, mrun_cons_snd, mstep_recv0 cfgMTU m i pkt hpkt,
      mrecv_multi cfgMTU st m.src pkt _ p hdec (by simpa using hcfg) (by simpa using h2)]
    have hmc : mcol st m.src (mhdr m i (Frag.chunks n m.payload).length) p =
        ((st.get (m.src, m.hdr.originTime, m.hdr.counter)).getD
          (Mbapp.Col.new (Frag.chunks n m.payload).length m.payload.length)).addPart i p := rfl
    rw [hmc]
    obtain ⟨hadd, hbi, hkeep⟩ := colOK_addPart hn hok hpp
    generalize ((st.get (m.src, m.hdr.originTime, m.hdr.counter)).getD
          (Mbapp.Col.new (Frag.chunks n m.payload).length m.payload.length)) = col at *
    cases rest with
    | nil =>
      have hall : (col.addPart i p).bits.all id = true := by
        rw [List.all_eq_true]
        intro x hx
        obtain ⟨j, hjl, hj⟩ := List.mem_iff_getElem.mp hx
        have hjn : j < (Frag.chunks n m.payload).length := by rw [← hadd.2.1]; exact hjl
        have hjm := (hmemr j).mpr hjn
        have hd : (col.addPart i p).bits[j]? = some true := by
          rcases List.mem_append.mp hjm with h | h
          · exact hkeep j (hfilled j h)
          · have : j = i := by simpa using h
            subst this; exact hbi
        rw [List.getElem?_eq_getElem hjl, hj] at hd
        cases hd; rfl
      rw [if_pos hall]
      obtain ⟨hbuf, _⟩ := colOK_all hn hadd hall
      simp [mrun, hbuf]
    | cons r rest' =>
      have hr : r < (Frag.chunks n m.payload).length := (hmemr r).mp (by simp)
      have hnall : ¬ ((col.addPart i p).bits.all id = true) := by
        intro hall
        obtain ⟨_, hS⟩ := colOK_all hn hadd hall
        have := hS r hr
        simp only [List.nodup_append, List.nodup_cons, List.mem_cons] at hnodup
        grind
      rw [if_neg hnall]
      simp only [Option.map_none, Option.toList_none, List.nil_append]
      apply ih (i :: done) _ (by simp)
      · exact (List.perm_middle.symm).trans hperm
      · rw [mget_put_self]
        exact colOK_mono hadd (fun j h => by
          rcases h with h | h
          · exact List.mem_cons_of_mem _ h
          · subst h; exact List.mem_cons_self)
      · rw [mget_put_self]
        intro j hj
        rcases List.mem_cons.mp hj with h | h
        · subst h; exact hbi
        · exact hkeep j (hfilled j h)

end P2PVerif.Reasm
