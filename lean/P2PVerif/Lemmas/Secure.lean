import P2PVerif.Model.Secure
import P2PVerif.Lemmas.KeChan
/-! Proofs for C04: identity attribution in the secure swarms. The p2pkeswarm statements are corollaries of the
    channel theorems of `Lemmas/KeChan.lean`. -/
namespace P2PVerif.Secure
open P2PVerif P2PVerif.P2PKE

/-! ## sshswarm -/

/-- invariant of the server state, relative to the (ghost) list of processed steps -/
structure SshInv (s : SshSrv) (seen : List AuthStep) : Prop where
  cache_self : ∀ a b, (a, b) ∈ s.cache → b = a
  authed_signed : ∀ k, s.authed = some k → AuthStep.sign k ∈ seen

theorem lookup_self {l : List (KeyId × KeyId)} (h : ∀ a b, (a, b) ∈ l → b = a) (k p : KeyId)
    (hl : l.lookup k = some p) : p = k := by
  induction l with
  | nil => simp at hl
  | cons x xs ih =>
    obtain ⟨a, b⟩ := x
    simp only [List.lookup_cons] at hl
    by_cases hka : (k == a) = true
    · simp only [hka] at hl
      have hb : b = a := h a b (by simp)
      have : k = a := by simpa using hka
      simp only [Option.some.injEq] at hl
      rw [← hl, hb, this]
    · have hka' : (k == a) = false := by simpa using hka
      simp only [hka'] at hl
      exact ih (fun a' b' hm => h a' b' (by simp [hm])) hl

theorem callback_spec (s : SshSrv) (k : KeyId) (hc : ∀ a b, (a, b) ∈ s.cache → b = a) :
    (s.callback k).2 = k ∧ (s.callback k).1.authed = s.authed ∧
      (∀ a b, (a, b) ∈ (s.callback k).1.cache → b = a) := by
  unfold SshSrv.callback
  cases hl : s.cache.lookup k with
  | some p => exact ⟨lookup_self hc k p hl, rfl, hc⟩
  | none =>
    refine ⟨rfl, rfl, ?_⟩
    intro a b hm
    simp only [List.mem_cons, Prod.mk.injEq] at hm
    rcases hm with ⟨rfl, rfl⟩ | hm
    · rfl
    · exact hc a b hm

theorem step_inv (s : SshSrv) (seen : List AuthStep) (st : AuthStep) (h : SshInv s seen) :
    SshInv (s.step st) (seen ++ [st]) := by
  have weaken : SshInv s (seen ++ [st]) :=
    ⟨h.cache_self, fun k hk => List.mem_append_left _ (h.authed_signed k hk)⟩
  cases st with
  | query k =>
    simp only [SshSrv.step]
    split
    · exact weaken
    · obtain ⟨_, ha, hc⟩ := callback_spec s k h.cache_self
      exact ⟨hc, fun k' hk' => List.mem_append_left _ (h.authed_signed k' (ha ▸ hk'))⟩
  | badSign k =>
    simp only [SshSrv.step]
    split
    · exact weaken
    · obtain ⟨_, ha, hc⟩ := callback_spec s k h.cache_self
      exact ⟨hc, fun k' hk' => List.mem_append_left _ (h.authed_signed k' (ha ▸ hk'))⟩
  | sign k =>
    simp only [SshSrv.step]
    split
    · exact weaken
    · obtain ⟨hp, _, hc⟩ := callback_spec s k h.cache_self
      refine ⟨hc, ?_⟩
      intro k' hk'
      simp only [Option.some.injEq] at hk'
      rw [hp] at hk'
      subst hk'
      simp

theorem foldl_inv (steps : List AuthStep) (s : SshSrv) (seen : List AuthStep) (h : SshInv s seen) :
    SshInv (steps.foldl SshSrv.step s) (seen ++ steps) := by
  induction steps generalizing s seen with
  | nil => simpa using h
  | cons st rest ih =>
    have := ih (s.step st) (seen ++ [st]) (step_inv s seen st h)
    simpa [List.append_assoc] using this

theorem ssh_src_is_proven_key (held : KeyId → Bool) (steps : List AuthStep) (h : stepsBy held steps) (k : KeyId)
    (hid : (SshSrv.run steps).identity = some k) : held k = true ∧ AuthStep.sign k ∈ steps := by
  have hinv : SshInv (SshSrv.run steps) ([] ++ steps) :=
    foldl_inv steps {} [] ⟨fun a b hm => (by cases hm), fun k hk => (by cases hk)⟩
  have hmem : AuthStep.sign k ∈ steps := by simpa using hinv.authed_signed k hid
  exact ⟨h _ hmem, hmem⟩

theorem ssh_closure_confusion :
    ∃ (held : KeyId → Bool) (steps : List AuthStep) (v : KeyId), stepsBy held steps ∧ held v = false ∧
      (SshSrv.run steps).identityClosure = some v := by
  refine ⟨fun k => k == 1, [.query 1, .query 2, .sign 1], 2, ?_, by decide, by decide⟩
  intro st hst
  simp only [List.mem_cons, List.not_mem_nil, or_false] at hst
  rcases hst with rfl | rfl | rfl <;> simp

/-! ## quicswarm -/

theorem quic_identity (dstID proven : KeyId) (allow : KeyId → Bool) :
    (quicMayUse dstID proven = true → proven = dstID) ∧
    (∀ src, quicAccept allow proven = some src → src = proven ∧ allow proven = true) := by
  refine ⟨fun h => by simpa [quicMayUse] using h, ?_⟩
  intro src h
  unfold quicAccept at h
  split at h
  · next ha => exact ⟨by simpa using h.symm, ha⟩
  · cases h

/-! ## p2pkeswarm -/

theorem ke_src_is_accepted_key (key : KeyId) (whitelist : KeyId → Bool) (how : Created) (ra ka ht : Nat) (lt : IdLt)
    (ops : List COp) (w : Wire) (eph now : Nat) (p : Bytes) :
    let c := (Chan.fresh key (acceptOf whitelist how) ra ka ht).run lt ops
    let c' := (c.step lt (.deliver w eph now)).1
    (c.step lt (.deliver w eph now)).2.app = some p →
    ∃ k, keSrcID c' = some k ∧ acceptOf whitelist how k = true ∧
      ∃ e, (c'.cur = some e ∨ c'.prev = some e) ∧ e.sess.rKey = some k := by
  intro c c' happ
  obtain ⟨k, hk, hacc, e, he, hr, _⟩ :=
    P2PKE.never_delivers_from_rejected key (acceptOf whitelist how) ra ka ht lt ops w eph now p happ
  exact ⟨k, hk, hacc, e, he, hr⟩

theorem run_snoc (c : Chan) (lt : IdLt) (ops : List COp) (op : COp) :
    c.run lt (ops ++ [op]) = ((c.run lt ops).step lt op).1 := by
  simp [Chan.run, List.foldl_append]

theorem ke_wrong_identity_never_receives (key : KeyId) (whitelist : KeyId → Bool) (how : Created) (ra ka ht : Nat)
    (lt : IdLt) (ops : List COp) (dstID : KeyId) (p : Bytes) (now : Nat) (w : Wire) :
    let c := (Chan.fresh key (acceptOf whitelist how) ra ka ht).run lt ops
    keMayUse dstID c = true → (c.step lt (.send p now)).2.sent = [w] →
    ∃ e, (c.expire now).cur = some e ∧ e.sess.rKey = some dstID := by
  intro c hmay hsent
  -- the channel's remote key is the addressed identity
  have hrk : c.remoteKey = some dstID := by
    unfold keMayUse at hmay
    split at hmay
    · next k hk =>
      simp only [Bool.and_eq_true, beq_iff_eq] at hmay
      rw [hk, hmay.2]
    · cases hmay
  obtain ⟨e, k, hcur, _, _, _⟩ :=
    P2PKE.never_encrypts_to_rejected key (acceptOf whitelist how) ra ka ht lt ops p now w hsent
  -- key continuity across expiry
  have hrk' : (c.step lt (.expire now)).1.remoteKey = some dstID :=
    P2PKE.key_continuity key (acceptOf whitelist how) ra ka ht lt ops (.expire now) dstID hrk
  have hstep : (c.step lt (.expire now)).1 = c.expire now := rfl
  rw [hstep] at hrk'
  -- the invariant in the state after expiry
  have hinv := P2PKE.never_ready_with_rejected key (acceptOf whitelist how) ra ka ht lt (ops ++ [.expire now])
  simp only [run_snoc] at hinv
  have hinv2 := hinv.2.1 e (by rw [hstep]; exact hcur)
  refine ⟨e, hcur, ?_⟩
  rw [hinv2.2.1, hstep, hrk']

theorem whitelist_respected (key : KeyId) (whitelist : KeyId → Bool) (ra ka ht : Nat) (lt : IdLt) (ops : List COp)
    (k : KeyId) (hk : whitelist k = false) :
    ((Chan.fresh key (acceptOf whitelist .inbound) ra ka ht).run lt ops).remoteKey ≠ some k := by
  intro hrk
  have h := (P2PKE.never_ready_with_rejected key (acceptOf whitelist .inbound) ra ka ht lt ops).1 k hrk
  simp only [acceptOf] at h
  rw [hk] at h
  cases h

end P2PVerif.Secure
