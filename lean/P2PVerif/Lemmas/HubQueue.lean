import P2PVerif.Model.Hub
/-! C12/C13/C14, the bounded queue of s/swarmutil/queue.go: slot conservation, FIFO, closing. -/
namespace P2PVerif.Hub
open P2PVerif

/-- every slot the queue knows about: free list, queued, lent to a callback -/
def Queue.slots (q : Queue) : List Nat := q.free ++ q.queue.map (·.1) ++ q.inCb.map (·.2.1)

/-- receiver ids are fresh: no `take r` is issued while receiver `r` is still inside a callback (each `Receive`
    call is one participant; it cannot call `Receive` again before its callback has returned). -/
def FreshTakes : Queue → List QOp → Prop
  | _, [] => True
  | q, op :: ops => (∀ r, op = .take r → r ∉ q.inCb.map (·.1)) ∧ FreshTakes (q.step op) ops

/-- executable form of `FreshTakes` -/
def freshTakesB : Queue → List QOp → Bool
  | _, [] => true
  | q, op :: ops =>
    (match op with
      | .take r => !(q.inCb.map (·.1)).contains r
      | _ => true) && freshTakesB (q.step op) ops

theorem freshTakes_iff (ops : List QOp) : ∀ q, FreshTakes q ops ↔ freshTakesB q ops = true := by
  induction ops with
  | nil => intro q; simp [FreshTakes, freshTakesB]
  | cons op ops ih =>
    intro q
    simp only [FreshTakes, freshTakesB, Bool.and_eq_true, ih]
    refine and_congr ?_ Iff.rfl
    cases op <;> simp

instance (q : Queue) (ops : List QOp) : Decidable (FreshTakes q ops) :=
  decidable_of_iff _ (freshTakes_iff ops q).symm

theorem find_split (l : List (Nat × Nat × QMsg)) (r r' s : Nat) (m : QMsg)
    (h : l.find? (·.1 == r) = some (r', s, m)) :
    ∃ l1 l2, l = l1 ++ (r', s, m) :: l2 ∧ r' = r ∧ l.filter (·.1 != r) = l1 ++ l2.filter (·.1 != r) := by
  rw [List.find?_eq_some_iff_append] at h
  obtain ⟨hp, l1, l2, rfl, hl1⟩ := h
  refine ⟨l1, l2, rfl, by simpa using hp, ?_⟩
  have hr : r' = r := by simpa using hp
  have h1 : l1.filter (·.1 != r) = l1 := by
    rw [List.filter_eq_self]; intro a ha; have := hl1 a ha; simpa using this
  simp [List.filter_append, h1, hr]

/-- the unconditional invariant: slots are distinct and there are at most `c` of them -/
def QInv (c : Nat) (q : Queue) : Prop := q.slots.Nodup ∧ q.slots.length ≤ c

theorem qinv_new (cap mtu : Nat) : QInv cap (Queue.new cap mtu) := by
  simp [QInv, Queue.slots, Queue.new, List.nodup_range]

theorem qinv_step (c : Nat) (q : Queue) (op : QOp) (h : QInv c q) : QInv c (q.step op) := by
  obtain ⟨hn, hl⟩ := h
  cases op with
  | deliver m vec =>
    simp only [Queue.step, Queue.deliver]
    split
    · exact ⟨hn, hl⟩
    · split
      · exact ⟨hn, hl⟩
      · split
        · exact ⟨hn, hl⟩
        · rename_i s rest hf
          simp only [QInv, Queue.slots, hf] at hn hl ⊢
          constructor
          · refine (List.Perm.nodup_iff (List.perm_iff_count.mpr fun a => ?_)).mp hn
            simp only [List.map_append, List.map_cons, List.map_nil, List.count_append, List.count_cons,
              List.count_nil]
            omega
          · simp only [List.length_append, List.length_map, List.length_cons, List.length_nil] at hl ⊢
            omega
  | take r =>
    simp only [Queue.step, Queue.take]
    split
    · exact ⟨hn, hl⟩
    · split
      · rename_i q' _ heq
        split at heq
        · cases heq
        · rename_i s m rest hq
          cases heq
          simp only [QInv, Queue.slots, hq] at hn hl ⊢
          constructor
          · refine (List.Perm.nodup_iff (List.perm_iff_count.mpr fun a => ?_)).mp hn
            simp only [List.map_cons, List.count_append, List.count_cons]
            omega
          · simp only [List.length_append, List.length_map, List.length_cons] at hl ⊢
            omega
      · exact ⟨hn, hl⟩
  | cbReturn r =>
    simp only [Queue.step, Queue.cbReturn]
    split
    · rename_i r' s m hf
      obtain ⟨l1, l2, hl12, -, hfil⟩ := find_split _ _ _ _ _ hf
      simp only [QInv, Queue.slots, hfil] at hn hl ⊢
      rw [hl12] at hn hl
      have hsub : (l2.filter (·.1 != r)).Sublist l2 := List.filter_sublist
      have hlen := hsub.length_le
      constructor
      · have hsub' : (q.free ++ [s] ++ q.queue.map (·.1) ++ (l1 ++ l2.filter (·.1 != r)).map (·.2.1)).Sublist
            (q.free ++ [s] ++ q.queue.map (·.1) ++ (l1 ++ l2).map (·.2.1)) :=
          List.Sublist.append (List.Sublist.refl _) ((List.Sublist.append (List.Sublist.refl _) hsub).map _)
        refine List.Nodup.sublist hsub' ?_
        refine (List.Perm.nodup_iff (List.perm_iff_count.mpr fun a => ?_)).mp hn
        simp only [List.map_append, List.map_cons, List.count_append, List.count_cons, List.count_nil]
        omega
      · simp only [List.length_append, List.length_map, List.length_cons, List.length_nil] at hl ⊢
        omega
    · exact ⟨hn, hl⟩
  | cancel r => exact ⟨hn, hl⟩
  | purge =>
    simp only [Queue.step, Queue.purge, QInv, Queue.slots] at hn hl ⊢
    simpa using And.intro hn hl
  | close =>
    simp only [Queue.step]
    split
    · rename_i he
      have : q.inCb = [] := by simpa using he
      simp [QInv, Queue.slots, Queue.close, this]
    · exact ⟨hn, hl⟩

theorem qinv_foldl (c : Nat) (ops : List QOp) : ∀ q, QInv c q → QInv c (ops.foldl Queue.step q) := by
  induction ops with
  | nil => intro q h; exact h
  | cons op ops ih => intro q h; exact ih _ (qinv_step c q op h)

/-- the invariant that needs fresh receiver ids: one callback per receiver, and no slot is ever lost -/
def QInvF (c : Nat) (q : Queue) : Prop := (q.inCb.map (·.1)).Nodup ∧ (q.closed = false → q.slots.length = c)

theorem qinvF_new (cap mtu : Nat) : QInvF cap (Queue.new cap mtu) := by
  simp [QInvF, Queue.slots, Queue.new]

theorem qinvF_step (c : Nat) (q : Queue) (op : QOp) (h : QInvF c q)
    (hfresh : ∀ r, op = .take r → r ∉ q.inCb.map (·.1)) : QInvF c (q.step op) := by
  obtain ⟨hn, hl⟩ := h
  cases op with
  | deliver m vec =>
    simp only [Queue.step, Queue.deliver]
    split
    · exact ⟨hn, hl⟩
    · split
      · exact ⟨hn, hl⟩
      · split
        · exact ⟨hn, hl⟩
        · rename_i s rest hf
          simp only [QInvF, Queue.slots, hf] at hn hl ⊢
          refine ⟨hn, fun hc => ?_⟩
          have := hl hc
          simp only [List.length_append, List.length_map, List.length_cons, List.length_nil] at this ⊢
          omega
  | take r =>
    simp only [Queue.step, Queue.take]
    split
    · exact ⟨hn, hl⟩
    · split
      · rename_i q' _ heq
        split at heq
        · cases heq
        · rename_i s m rest hq
          cases heq
          simp only [QInvF, Queue.slots, hq] at hn hl ⊢
          refine ⟨?_, fun hc => ?_⟩
          · simp only [List.map_cons]
            exact List.nodup_cons.mpr ⟨hfresh r rfl, hn⟩
          · have := hl hc
            simp only [List.length_append, List.length_map, List.length_cons] at this ⊢
            omega
      · exact ⟨hn, hl⟩
  | cbReturn r =>
    simp only [Queue.step, Queue.cbReturn]
    split
    · rename_i r' s m hf
      obtain ⟨l1, l2, hl12, hr', hfil⟩ := find_split _ _ _ _ _ hf
      have hsubA : (q.inCb.filter (·.1 != r)).Sublist q.inCb := List.filter_sublist
      have hl2 : l2.filter (·.1 != r) = l2 := by
        rw [List.filter_eq_self]
        intro a ha
        rw [hl12] at hn
        simp only [List.map_append, List.map_cons, List.nodup_append, List.nodup_cons, List.mem_map] at hn
        have : a.1 ≠ r := by
          intro he
          exact hn.2.1.1 ⟨a, ha, by rw [he, hr']⟩
        simpa using this
      simp only [QInvF, Queue.slots] at hl ⊢
      refine ⟨hn.sublist (hsubA.map _), fun hc => ?_⟩
      have := hl hc
      rw [hfil, hl2]
      rw [hl12] at this
      simp only [List.length_append, List.length_map, List.length_cons, List.length_nil] at this ⊢
      omega
    · exact ⟨hn, hl⟩
  | cancel r => exact ⟨hn, hl⟩
  | purge =>
    simp only [Queue.step, Queue.purge, QInvF, Queue.slots] at hn hl ⊢
    refine ⟨hn, fun hc => ?_⟩
    have := hl hc
    simp only [List.length_append, List.length_map, List.length_nil, List.map_nil] at this ⊢
    omega
  | close =>
    simp only [Queue.step]
    split
    · exact ⟨hn, fun hc => by simp [Queue.close] at hc⟩
    · exact ⟨hn, hl⟩

theorem qinvF_foldl (c : Nat) (ops : List QOp) :
    ∀ q, QInvF c q → FreshTakes q ops → QInvF c (ops.foldl Queue.step q) := by
  induction ops with
  | nil => intro q h _; exact h
  | cons op ops ih => intro q h hf; exact ih _ (qinvF_step c q op h hf.1) hf.2

/-- C13 (statement adjusted: the exact count needs fresh receiver ids, see `FreshTakes`) -/
theorem queue_slots_conserved (cap mtu : Nat) (ops : List QOp) :
    let q := ops.foldl Queue.step (Queue.new cap mtu)
    (q.free ++ q.queue.map (·.1) ++ q.inCb.map (·.2.1)).Nodup ∧
    (FreshTakes (Queue.new cap mtu) ops → q.closed = false →
      (q.free ++ q.queue.map (·.1) ++ q.inCb.map (·.2.1)).length = cap) ∧
    q.queue.length ≤ cap := by
  intro q
  have h := qinv_foldl cap ops _ (qinv_new cap mtu)
  refine ⟨h.1, fun hf => (qinvF_foldl cap ops _ (qinvF_new cap mtu) hf).2, ?_⟩
  have := h.2
  simp only [Queue.slots, List.length_append, List.length_map] at this
  show (List.foldl Queue.step (Queue.new cap mtu) ops).queue.length ≤ cap
  omega

theorem queue_fifo (q : Queue) (m : QMsg) (vec : Bool) (r : Nat) :
    (∀ q', q.deliver m vec = (q', true) → q'.queue.map (·.2) = q.queue.map (·.2) ++ [m]) ∧
    (∀ q' m', q.take r = some (q', m') → q.queue.map (·.2) = m' :: q'.queue.map (·.2)) ∧
    (q.step (.cancel r) = q) := by
  refine ⟨?_, ?_, rfl⟩
  · intro q' h
    simp only [Queue.deliver] at h
    split at h
    · cases h
    · split at h
      · cases h
      · split at h
        · cases h
        · cases h; simp
  · intro q' m' h
    simp only [Queue.take] at h
    split at h
    · cases h
    · rename_i s m2 rest hq
      cases h; simp [hq]

theorem queue_closed_for_good (q : Queue) (hq : q.inCb = []) (ops : List QOp) :
    let q' := ops.foldl Queue.step q.close
    q'.closed = true ∧ q'.queue = [] ∧ (∀ m vec, (q'.deliver m vec).2 = false) ∧ (∀ r, q'.step (.take r) = q') := by
  intro q'
  have key : ∀ (ops : List QOp) (p : Queue), p.closed = true → p.queue = [] → p.inCb = [] →
      (ops.foldl Queue.step p).closed = true ∧ (ops.foldl Queue.step p).queue = [] := by
    intro ops
    induction ops with
    | nil => intro p h1 h2 _; exact ⟨h1, h2⟩
    | cons op ops ih =>
      intro p h1 h2 h3
      have hstep : (p.step op).closed = true ∧ (p.step op).queue = [] ∧ (p.step op).inCb = [] := by
        cases op with
        | deliver m vec => simp [Queue.step, Queue.deliver, h1, h2, h3]
        | take r => simp [Queue.step, h1, h2, h3]
        | cbReturn r => simp [Queue.step, Queue.cbReturn, h1, h2, h3]
        | cancel r => exact ⟨h1, h2, h3⟩
        | purge => simp [Queue.step, Queue.purge, h1, h3]
        | close => simp [Queue.step, Queue.close, h3]
      simp only [List.foldl_cons]
      exact ih _ hstep.1 hstep.2.1 hstep.2.2
  obtain ⟨hc, hqq⟩ := key ops q.close rfl rfl hq
  refine ⟨hc, hqq, ?_, ?_⟩
  · intro m vec
    show ((List.foldl Queue.step q.close ops).deliver m vec).2 = false
    simp only [Queue.deliver, hc]
    split <;> simp
  · intro r
    show (List.foldl Queue.step q.close ops).step (.take r) = _
    show _ = List.foldl Queue.step q.close ops
    simp [Queue.step, hc]

/-- C14 -/
theorem callback_exclusive (cap mtu : Nat) (ops : List QOp) (r s : Nat) (m : QMsg) :
    let q := ops.foldl Queue.step (Queue.new cap mtu)
    (r, s, m) ∈ q.inCb → s ∉ q.free ∧ s ∉ q.queue.map (·.1) ∧ (∀ r' m', (r', s, m') ∈ q.inCb → r' = r ∧ m' = m) := by
  intro q hm
  have h : q.slots.Nodup := (qinv_foldl cap ops _ (qinv_new cap mtu)).1
  simp only [Queue.slots, List.nodup_append] at h
  obtain ⟨⟨-, -, hfq⟩, hcb, hdis⟩ := h
  have hs : s ∈ q.inCb.map (·.2.1) := List.mem_map.mpr ⟨_, hm, rfl⟩
  refine ⟨fun hf => hdis s (List.mem_append_left _ hf) s hs rfl,
          fun hf => hdis s (List.mem_append_right _ hf) s hs rfl, ?_⟩
  intro r' m' hm'
  have : (r', s, m') = (r, s, m) := by
    have hinj : ∀ (l : List (Nat × Nat × QMsg)), (l.map (·.2.1)).Nodup → ∀ a ∈ l, ∀ b ∈ l, a.2.1 = b.2.1 → a = b := by
      intro l
      induction l with
      | nil => intro _ a ha; cases ha
      | cons x xs ih =>
        intro hnd a ha b hb hab
        simp only [List.map_cons, List.nodup_cons, List.mem_map] at hnd
        rcases List.mem_cons.mp ha with ea | ha' <;> rcases List.mem_cons.mp hb with eb | hb'
        · rw [ea, eb]
        · exact absurd ⟨b, hb', by rw [← hab, ea]⟩ hnd.1
        · exact absurd ⟨a, ha', by rw [hab, eb]⟩ hnd.1
        · exact ih hnd.2 a ha' b hb' hab
    exact hinj _ hcb _ hm' _ hm rfl
  cases this; exact ⟨rfl, rfl⟩

theorem no_stale_exposure (q : Queue) (m : QMsg) (vec : Bool) (q1 : Queue) (h : q.deliver m vec = (q1, true))
    (hq : q.queue = []) (r : Nat) :
    ∃ q2, q1.take r = some (q2, m) := by
  simp only [Queue.deliver] at h
  split at h
  · cases h
  · split at h
    · cases h
    · split at h
      · cases h
      · cases h; simp [Queue.take, hq]

end P2PVerif.Hub
