import P2PVerif.Lemmas.StackRecv
import P2PVerif.Lemmas.ReasmFrag
/-! C01: one fragmenting layer — `fragTell` against `Frag.tell`, and its datagrams fed in order to an empty
    reassembly table. -/
namespace P2PVerif.Stack
open P2PVerif

/-! ## `fragTell` is `Frag.tell` over an integer inner MTU -/

theorem fragTell_nat (n cfg id : Nat) (x : Bytes) : fragTell (n : Int) cfg id x = Frag.tell n cfg id x := by
  unfold fragTell Frag.tell Frag.mtu
  simp only [Int.toNat_sub]

/-- a passing guard means the inner MTU is at least the overhead -/
theorem fragTell_guard (inner : Int) (cfg : Nat) (x : Bytes)
    (h : (x.length : Int) ≤ (if (inner - Frag.overhead) * Frag.maxParts < cfg then (inner - Frag.overhead) * Frag.maxParts else cfg)) :
    (Frag.overhead : Int) ≤ inner := by
  have hm : (Frag.maxParts : Int) = 255 := rfl
  rw [hm] at h
  split at h <;> omega

theorem fragTell_some_inner (inner : Int) (cfg id : Nat) (x : Bytes) (ps : List Bytes)
    (h : fragTell inner cfg id x = some ps) : (Frag.overhead : Int) ≤ inner := by
  by_cases hg : (x.length : Int) > (if (inner - Frag.overhead) * Frag.maxParts < cfg then (inner - Frag.overhead) * Frag.maxParts else cfg)
  · unfold fragTell at h
    simp only at h
    rw [if_pos hg] at h
    cases h
  · exact fragTell_guard inner cfg x (by omega)

theorem fragTell_eq_tell (inner : Int) (cfg id : Nat) (x : Bytes) (ps : List Bytes)
    (h : fragTell inner cfg id x = some ps) :
    (Frag.overhead : Int) ≤ inner ∧ Frag.tell inner.toNat cfg id x = some ps := by
  have hi := fragTell_some_inner inner cfg id x ps h
  refine ⟨hi, ?_⟩
  have e : inner = (inner.toNat : Int) := by omega
  rw [e, fragTell_nat] at h
  exact h

/-- what the datagrams of a told message look like to the receiver's parser -/
theorem fragTell_cases (inner : Int) (cfg id : Nat) (x : Bytes) (pieces : List Bytes) (hid : id < 2 ^ 32)
    (h : fragTell inner cfg id x = some pieces) :
    (∃ pkt, pieces = [pkt] ∧ Frag.parse pkt = some (id, 0, 1, x)) ∨
    (∃ ps : List Bytes, pieces.length = ps.length ∧ 2 ≤ ps.length ∧ ps.length ≤ 255 ∧ ps.flatten = x ∧
      ∀ pi pkt, pieces[pi]? = some pkt → ∃ p, ps[pi]? = some p ∧ Frag.parse pkt = some (id, pi, ps.length, p)) := by
  obtain ⟨_, ht⟩ := fragTell_eq_tell inner cfg id x pieces h
  rcases Reasm.frag_cases inner.toNat cfg ⟨0, id, x, pieces⟩ ⟨hid, ht⟩ with h1 | h2
  · exact Or.inl h1
  · exact Or.inr ⟨_, h2⟩

/-- every datagram of an accepted `fragTell` fits the inner MTU -/
theorem fragTell_accepted (inner : Int) (cfg id : Nat) (x : Bytes) (hid : id < 2 ^ 32)
    (hfit : (x.length : Int) ≤ (if (inner - Frag.overhead) * Frag.maxParts < cfg then (inner - Frag.overhead) * Frag.maxParts else cfg)) :
    ∃ ps, fragTell inner cfg id x = some ps ∧ ∀ p ∈ ps, (p.length : Int) ≤ inner := by
  have hi := fragTell_guard inner cfg x hfit
  have hov := Frag.nine_le_overhead
  have e : inner = (inner.toNat : Int) := by omega
  have hfit' : (x.length : Int) ≤ Frag.mtu inner.toNat cfg := by
    unfold Frag.mtu; rw [← e]; exact hfit
  obtain ⟨ps, h1, h2, _⟩ := MTU.frag_under_mtu_accepted inner.toNat cfg id x hid hfit' (by omega)
  refine ⟨ps, by rw [e, fragTell_nat]; exact h1, ?_⟩
  intro p hp
  have := h2 p hp
  omega

theorem fragTell_rejected (inner : Int) (cfg id : Nat) (x : Bytes)
    (h : (x.length : Int) > (if (inner - Frag.overhead) * Frag.maxParts < cfg then (inner - Frag.overhead) * Frag.maxParts else cfg)) :
    fragTell inner cfg id x = none := by
  unfold fragTell
  simp only
  rw [if_pos h]

/-! ## the datagrams of one multi-part message, in order, against an empty table -/

/-- the aggregator after the first `j` parts -/
def partsAfter (ps : List Bytes) (j : Nat) : List (Option Bytes) :=
  (ps.take j).map some ++ List.replicate (ps.length - j) none

/-- the table after the first `j` parts -/
def tableAfter (key : Nat × Nat) (ps : List Bytes) (j : Nat) : Frag.RState :=
  if j = 0 then [] else [(key, ⟨partsAfter ps j⟩)]

theorem partsAfter_length (ps : List Bytes) (j : Nat) (hj : j ≤ ps.length) :
    (partsAfter ps j).length = ps.length := by
  simp [partsAfter, List.length_take]; omega

theorem partsAfter_set (ps : List Bytes) (j : Nat) (p : Bytes) (hp : ps[j]? = some p) :
    (partsAfter ps j).set j (some p) = partsAfter ps (j + 1) := by
  obtain ⟨hj, rfl⟩ := List.getElem?_eq_some_iff.mp hp
  unfold partsAfter
  have hl : ((ps.take j).map some).length = j := by simp [List.length_take]; omega
  have hr : ps.length - j = (ps.length - (j + 1)) + 1 := by omega
  rw [List.set_append_right _ _ (by omega), hl, Nat.sub_self, hr, List.replicate_succ, List.set_cons_zero,
    List.take_succ_eq_append_getElem hj, List.map_append]
  simp

theorem partsAfter_all (ps : List Bytes) : (partsAfter ps ps.length).all Option.isSome = true := by
  simp [partsAfter]

theorem partsAfter_flat (ps : List Bytes) : (partsAfter ps ps.length).flatMap (·.getD []) = ps.flatten := by
  simp [partsAfter, List.flatMap_map]

theorem partsAfter_not_all (ps : List Bytes) (j : Nat) (hj : j < ps.length) :
    ¬ ((partsAfter ps j).all Option.isSome = true) := by
  intro h
  rw [List.all_eq_true] at h
  have : (none : Option Bytes) ∈ partsAfter ps j := by
    unfold partsAfter
    apply List.mem_append_right
    rw [List.mem_replicate]
    exact ⟨by omega, rfl⟩
  have := h _ this
  simp at this

theorem tableAfter_get (key : Nat × Nat) (ps : List Bytes) (j : Nat) :
    ((tableAfter key ps j).get key).getD ⟨List.replicate ps.length none⟩ = ⟨partsAfter ps j⟩ := by
  unfold tableAfter
  by_cases h : j = 0
  · subst h; simp [Frag.RState.get, partsAfter]
  · rw [if_neg h]; simp [Frag.RState.get]

theorem tableAfter_erase (key : Nat × Nat) (ps : List Bytes) (j : Nat) : (tableAfter key ps j).erase key = [] := by
  unfold tableAfter
  by_cases h : j = 0
  · subst h; simp [Frag.RState.erase]
  · rw [if_neg h]; simp [Frag.RState.erase]

theorem tableAfter_put (key : Nat × Nat) (ps : List Bytes) (j : Nat) :
    (tableAfter key ps j).put key ⟨partsAfter ps (j + 1)⟩ = tableAfter key ps (j + 1) := by
  unfold Frag.RState.put
  rw [tableAfter_erase]
  simp [tableAfter]

/-- the `j`-th datagram arrives after exactly the first `j` -/
theorem recv_inorder (src id : Nat) (ps : List Bytes) (h2 : 2 ≤ ps.length) (j : Nat) (p pkt : Bytes)
    (hp : ps[j]? = some p) (hparse : Frag.parse pkt = some (id, j, ps.length, p)) :
    Frag.recv (tableAfter (src, id) ps j) src pkt =
      if j + 1 = ps.length then ([], some ps.flatten) else (tableAfter (src, id) ps (j + 1), none) := by
  have hj : j < ps.length := (List.getElem?_eq_some_iff.mp hp).1
  rw [Reasm.frecv_multi _ src id j ps.length p pkt hparse (by omega) hj
    (by rw [tableAfter_get]; exact partsAfter_length ps j (by omega))]
  rw [tableAfter_get]
  simp only
  rw [partsAfter_set ps j p hp]
  by_cases hl : j + 1 = ps.length
  · rw [if_pos hl, hl, if_pos (partsAfter_all ps), partsAfter_flat, tableAfter_erase]
  · rw [if_neg hl, if_neg (partsAfter_not_all ps (j + 1) (by omega)), tableAfter_put]

/-- a proper prefix of the datagrams fills the table and delivers nothing -/
theorem fragFeed_take (src id : Nat) (ps pieces : List Bytes) (hlen : pieces.length = ps.length)
    (h2 : 2 ≤ ps.length)
    (hpk : ∀ pi pkt, pieces[pi]? = some pkt → ∃ p, ps[pi]? = some p ∧ Frag.parse pkt = some (id, pi, ps.length, p)) :
    ∀ j, j < ps.length → fragFeed [] src (pieces.take j) = (tableAfter (src, id) ps j, []) := by
  intro j
  induction j with
  | zero => intro _; simp [fragFeed_nil, tableAfter]
  | succ j ih =>
    intro hj
    have hj' : j < pieces.length := by omega
    obtain ⟨p, hp, hparse⟩ := hpk j pieces[j] (List.getElem?_eq_getElem hj')
    rw [List.take_succ_eq_append_getElem hj', fragFeed_append, ih (by omega), fragFeed_cons, fragFeed_nil,
      recv_inorder src id ps h2 j p _ hp hparse, if_neg (by omega)]
    simp

/-- all the datagrams, in order: exactly the payload, once, and the table is empty again -/
theorem fragFeed_all (src id : Nat) (ps pieces : List Bytes) (hlen : pieces.length = ps.length)
    (h2 : 2 ≤ ps.length)
    (hpk : ∀ pi pkt, pieces[pi]? = some pkt → ∃ p, ps[pi]? = some p ∧ Frag.parse pkt = some (id, pi, ps.length, p)) :
    fragFeed [] src pieces = ([], [ps.flatten]) := by
  have hj' : ps.length - 1 < pieces.length := by omega
  obtain ⟨p, hp, hparse⟩ := hpk _ pieces[ps.length - 1] (List.getElem?_eq_getElem hj')
  have e : pieces = pieces.take (ps.length - 1) ++ [pieces[ps.length - 1]] := by
    rw [List.take_append_getElem hj', List.take_of_length_le (by omega)]
  rw [e, fragFeed_append, fragFeed_take src id ps pieces hlen h2 hpk _ (by omega), fragFeed_cons, fragFeed_nil,
    recv_inorder src id ps h2 _ p _ hp hparse, if_pos (by omega)]
  simp

/-! ## one `fragTell`, received in order -/

theorem fragTell_feed_all (inner : Int) (cfg id src : Nat) (x : Bytes) (pieces : List Bytes) (hid : id < 2 ^ 32)
    (h : fragTell inner cfg id x = some pieces) : fragFeed [] src pieces = ([], [x]) := by
  rcases fragTell_cases inner cfg id x pieces hid h with ⟨pkt, rfl, hparse⟩ | ⟨ps, hlen, h2, _, hflat, hpk⟩
  · rw [fragFeed_cons, fragFeed_nil]
    have hr : Frag.recv [] src pkt = ([], some x) := by
      unfold Frag.recv; rw [hparse]; simp
    rw [hr]; simp
  · rw [fragFeed_all src id ps pieces hlen h2 hpk, hflat]

theorem fragTell_feed_take (inner : Int) (cfg id src : Nat) (x : Bytes) (pieces : List Bytes) (hid : id < 2 ^ 32)
    (h : fragTell inner cfg id x = some pieces) (j : Nat) (hj : j < pieces.length) :
    (fragFeed [] src (pieces.take j)).2 = [] := by
  rcases fragTell_cases inner cfg id x pieces hid h with ⟨pkt, rfl, hparse⟩ | ⟨ps, hlen, h2, _, hflat, hpk⟩
  · have : j = 0 := by simpa using hj
    subst this
    simp [fragFeed_nil]
  · rw [fragFeed_take src id ps pieces hlen h2 hpk j (by omega)]

end P2PVerif.Stack
