import P2PVerif.Lemmas.HubInv
import P2PVerif.Lemmas.HubQueue
/-! C11–C14: the hub theorems, from the invariant (`HubInv`) and the enabledness of single transitions. -/
namespace P2PVerif.Hub
open P2PVerif

/-! ### no nil error on a closed hub (needs the nil guard of `CloseWithError`) -/

def NoNil (s : St) : Prop :=
  (∀ (i : Nat) (r : R), s.rs[i]? = some r → r.pc ≠ .done .nilErr) ∧
  (∀ (j : Nat) (d : D) (n : Nat), s.ds[j]? = some d → d.pc ≠ .done .nilErr n)

theorem nonil_setR {s : St} (h : NoNil s) (i : Nat) (r' : R) (hr : r'.pc ≠ .done .nilErr) : NoNil (setR s i r') := by
  refine ⟨?_, h.2⟩
  intro k e hk
  rcases get_set_cases hk with ⟨_, rfl⟩ | ⟨_, hk'⟩
  · exact hr
  · exact h.1 k e hk'

theorem nonil_setD {s : St} (h : NoNil s) (j : Nat) (d' : D) (hd : ∀ n, d'.pc ≠ .done .nilErr n) :
    NoNil (setD s j d') := by
  refine ⟨h.1, ?_⟩
  intro k e n hk
  rcases get_set_cases hk with ⟨_, rfl⟩ | ⟨_, hk'⟩
  · exact hd n
  · exact h.2 k e n hk'

theorem step_nonil (sk : Skel) (hg : sk.nilGuard = true) (s s' : St) (l : Lbl) (h : NoNil s)
    (hs : step sk s l = some s') : NoNil s' := by
  have hR : ∀ i, rOnly i l → NoNil s' := by
    intro i hl
    obtain ⟨r, r', hr, rfl, hpc⟩ := step_rOnly sk s s' i l hl hs
    refine nonil_setR h i r' ?_
    rcases hpc with hpc | hpc
    · rw [hpc]; exact h.1 i r hr
    · exact hpc.2.1 hg
  have hD : ∀ j, dOnly j l → NoNil s' := by
    intro j hl
    obtain ⟨d, d', hd, rfl, hpc⟩ := step_dOnly sk s s' j l hl hs
    refine nonil_setD h j d' ?_
    intro n
    rcases hpc with hpc | ⟨_, r, _, hpc, hnil⟩ | ⟨_, m, _, hpc⟩
    · rw [hpc]; exact h.2 j d n hd
    · rw [hpc]; intro e; cases e; exact hnil hg rfl
    · rw [hpc]; intro e; cases e
  cases l with
  | spawnR =>
    simp only [step, Option.some.injEq] at hs; subst hs
    refine ⟨?_, h.2⟩
    intro k e hk
    rcases getElem?_snoc _ _ _ _ hk with hk | ⟨_, rfl⟩
    · exact h.1 k e hk
    · intro e; cases e
  | spawnD =>
    simp only [step, Option.some.injEq] at hs; subst hs
    refine ⟨h.1, ?_⟩
    intro k e n hk
    rcases getElem?_snoc _ _ _ _ hk with hk | ⟨_, rfl⟩
    · exact h.2 k e n hk
    · intro e; cases e
  | close => simp only [step, Option.some.injEq] at hs; subst hs; exact h
  | cancelR i => exact hR i (Or.inl rfl)
  | rSel2Ctx i => exact hR i (Or.inr (Or.inl rfl))
  | rSel2Closed i => exact hR i (Or.inr (Or.inr (Or.inl rfl)))
  | rSel1Closed i => exact hR i (Or.inr (Or.inr (Or.inr (Or.inl rfl))))
  | rSel1Default i => exact hR i (Or.inr (Or.inr (Or.inr (Or.inr (Or.inl rfl)))))
  | rCheck i => exact hR i (Or.inr (Or.inr (Or.inr (Or.inr (Or.inr rfl)))))
  | cancelD j => exact hD j (Or.inl rfl)
  | dCtx j => exact hD j (Or.inr (Or.inl rfl))
  | dClosed j => exact hD j (Or.inr (Or.inr (Or.inl rfl)))
  | dDone j => exact hD j (Or.inr (Or.inr (Or.inr rfl)))
  | rendezvous i j =>
    obtain ⟨r, d, hr, hd, _, _, rfl⟩ := step_rendezvous sk s s' i j hs
    constructor
    · intro k e hk
      rcases get_set_cases hk with ⟨_, rfl⟩ | ⟨_, hk'⟩
      · intro e; cases e
      · exact h.1 k e hk'
    · intro k e n hk
      rcases get_set_cases hk with ⟨_, rfl⟩ | ⟨_, hk'⟩
      · intro e; cases e
      · exact h.2 k e n hk'
  | cbReturn i n =>
    obtain ⟨r, j, hr, _, rfl⟩ := step_cbReturn sk s s' i n hs
    refine ⟨?_, h.2⟩
    intro k e hk
    rcases get_set_cases hk with ⟨_, rfl⟩ | ⟨_, hk'⟩
    · intro e; cases e
    · exact h.1 k e hk'

theorem run_nonil (sk : Skel) (hg : sk.nilGuard = true) (ls : List Lbl) :
    ∀ s s', NoNil s → run sk s ls = some s' → NoNil s' := by
  induction ls with
  | nil => intro s s' h hr; simp only [run, Option.some.injEq] at hr; subst hr; exact h
  | cons l ls ih =>
    intro s s' h hr
    simp only [run, Option.bind_eq_some_iff] at hr
    obtain ⟨s1, h1, h2⟩ := hr
    exact ih s1 s' (step_nonil sk hg s s1 l h h1) h2

theorem nonil_init : NoNil {} := by constructor <;> simp

/-! ### an ask hub has no non-blocking select: no receiver is ever at `sel1` -/

theorem step_nosel1 (sk : Skel) (hk : sk.kind = .ask) (s s' : St) (l : Lbl)
    (h : ∀ (i : Nat) (r : R), s.rs[i]? = some r → r.pc ≠ .sel1)
    (hs : step sk s l = some s') : ∀ (i : Nat) (r : R), s'.rs[i]? = some r → r.pc ≠ .sel1 := by
  have hR : ∀ i, rOnly i l → ∀ (k : Nat) (e : R), s'.rs[k]? = some e → e.pc ≠ .sel1 := by
    intro i hl
    obtain ⟨r, r', hr, rfl, hpc⟩ := step_rOnly sk s s' i l hl hs
    intro k e hke
    rcases get_set_cases hke with ⟨_, rfl⟩ | ⟨_, hk'⟩
    · rcases hpc with hpc | hpc
      · rw [hpc]; exact h i r hr
      · exact hpc.2.2 hk
    · exact h k e hk'
  have hD : ∀ j, dOnly j l → ∀ (k : Nat) (e : R), s'.rs[k]? = some e → e.pc ≠ .sel1 := by
    intro j hl
    obtain ⟨d, d', hd, rfl, _⟩ := step_dOnly sk s s' j l hl hs
    exact h
  cases l with
  | spawnR =>
    simp only [step, Option.some.injEq] at hs; subst hs
    intro k e hke
    rcases getElem?_snoc _ _ _ _ hke with hke | ⟨_, rfl⟩
    · exact h k e hke
    · intro e; cases e
  | spawnD => simp only [step, Option.some.injEq] at hs; subst hs; exact h
  | close => simp only [step, Option.some.injEq] at hs; subst hs; exact h
  | cancelR i => exact hR i (Or.inl rfl)
  | rSel2Ctx i => exact hR i (Or.inr (Or.inl rfl))
  | rSel2Closed i => exact hR i (Or.inr (Or.inr (Or.inl rfl)))
  | rSel1Closed i => exact hR i (Or.inr (Or.inr (Or.inr (Or.inl rfl))))
  | rSel1Default i => exact hR i (Or.inr (Or.inr (Or.inr (Or.inr (Or.inl rfl)))))
  | rCheck i => exact hR i (Or.inr (Or.inr (Or.inr (Or.inr (Or.inr rfl)))))
  | cancelD j => exact hD j (Or.inl rfl)
  | dCtx j => exact hD j (Or.inr (Or.inl rfl))
  | dClosed j => exact hD j (Or.inr (Or.inr (Or.inl rfl)))
  | dDone j => exact hD j (Or.inr (Or.inr (Or.inr rfl)))
  | rendezvous i j =>
    obtain ⟨r, d, hr, hd, _, _, rfl⟩ := step_rendezvous sk s s' i j hs
    intro k e hke
    rcases get_set_cases hke with ⟨_, rfl⟩ | ⟨_, hk'⟩
    · intro e; cases e
    · exact h k e hk'
  | cbReturn i n =>
    obtain ⟨r, j, hr, _, rfl⟩ := step_cbReturn sk s s' i n hs
    intro k e hke
    rcases get_set_cases hke with ⟨_, rfl⟩ | ⟨_, hk'⟩
    · intro e; cases e
    · exact h k e hk'

/-- in an ask hub (no non-blocking select) no receiver is ever parked at `sel1` -/
theorem ask_never_sel1 (sk : Skel) (hk : sk.kind = .ask) (ls : List Lbl) (s : St) (hr : run sk {} ls = some s) :
    ∀ (i : Nat) (r : R), s.rs[i]? = some r → r.pc ≠ .sel1 := by
  have key : ∀ (ls : List Lbl) (s0 s1 : St), (∀ (i : Nat) (r : R), s0.rs[i]? = some r → r.pc ≠ .sel1) →
      run sk s0 ls = some s1 → ∀ (i : Nat) (r : R), s1.rs[i]? = some r → r.pc ≠ .sel1 := by
    intro ls
    induction ls with
    | nil => intro s0 s1 h hr; simp only [run, Option.some.injEq] at hr; subst hr; exact h
    | cons l ls ih =>
      intro s0 s1 h hr
      simp only [run, Option.bind_eq_some_iff] at hr
      obtain ⟨s2, h1, h2⟩ := hr
      exact ih s2 s1 (step_nosel1 sk hk s0 s2 l h h1) h2
  exact key ls {} s (by simp) hr

/-! ### what `good` gives -/

theorem good_iff (sk : Skel) : sk.good = true ↔
    sk.s2Ctx = true ∧ sk.s2Closed = true ∧ sk.s2Chan = true ∧ sk.dClosed = true ∧ sk.dCtx = true ∧
    sk.dChan = true ∧ sk.nilGuard = true ∧ (sk.kind = .ask ∨ (sk.s1Closed = true ∧ sk.s1Chan = true)) := by
  simp [Skel.good, and_assoc]

theorem closedRes_of_guard {sk : Skel} (h : sk.nilGuard = true) : sk.closedRes = .closedErr := by
  simp [Skel.closedRes, h]

/-! ### C13 -/

theorem exactly_one_receiver (sk : Skel) (ls : List Lbl) (s : St) (hr : run sk {} ls = some s) :
    s.started.Nodup ∧
    (∀ (i i' : Nat) (r r' : R) (j : Nat), s.rs[i]? = some r → s.rs[i']? = some r' → r.pc = .inCb j → r'.pc = .inCb j → i = i') ∧
    (∀ (i : Nat) (r : R) (j : Nat), s.rs[i]? = some r → r.pc = .inCb j → j ∈ s.started) :=
  have h := run_inv sk ls _ _ inv_init hr
  ⟨h.nodup, h.rUniq, fun i r j hi hpc => (h.rCb i r j hi hpc).1⟩

theorem deliver_result_truthful (sk : Skel) (ls : List Lbl) (s : St) (hr : run sk {} ls = some s) :
    (∀ (j : Nat) (d : D) (n : Nat), s.ds[j]? = some d → d.pc = .done .ok n → (j, n) ∈ s.finished ∧ j ∈ s.started) ∧
    (∀ (j : Nat) (d : D) (r : Res) (n : Nat), s.ds[j]? = some d → d.pc = .done r n → r ≠ .ok → j ∉ s.started) ∧
    (∀ j n, (j, n) ∈ s.finished → j ∈ s.started) :=
  have h := run_inv sk ls _ _ inv_init hr
  ⟨fun j d n hj hd => ⟨h.dOk j d n hj hd, h.finSub j n (h.dOk j d n hj hd)⟩, h.dErr, h.finSub⟩

theorem cancel_enabled (sk : Skel) (hg : sk.good = true) (s : St) :
    (∀ (i : Nat) (r : R), s.rs[i]? = some r → r.pc = .sel2 → r.ctx = true →
        ∃ s', step sk s (.rSel2Ctx i) = some s' ∧ (s'.rs[i]?).map (·.pc) = some (.done .ctxErr)) ∧
    (∀ (j : Nat) (d : D), s.ds[j]? = some d → d.pc = .sel → d.ctx = true →
        ∃ s', step sk s (.dCtx j) = some s' ∧ (s'.ds[j]?).map (·.pc) = some (.done .ctxErr 0)) := by
  obtain ⟨h2ctx, -, -, -, hdctx, -⟩ := (good_iff sk).mp hg
  constructor
  · intro i r hr hpc hctx
    refine ⟨setR s i { r with pc := .done .ctxErr }, ?_, ?_⟩
    · simp [step, hr, hpc, hctx, h2ctx]
    · simp [setR, get_set_self hr]
  · intro j d hd hpc hctx
    refine ⟨setD s j { d with pc := .done .ctxErr 0 }, ?_, ?_⟩
    · simp [step, hd, hpc, hctx, hdctx]
    · simp [setD, get_set_self hd]

theorem cancel_loses_nothing (sk : Skel) (s s' : St) (i : Nat) (l : Lbl)
    (hl : l = .cancelR i ∨ l = .rSel2Ctx i ∨ l = .rSel2Closed i ∨ l = .rSel1Closed i ∨ l = .rSel1Default i ∨ l = .rCheck i)
    (hs : step sk s l = some s') : s'.ds = s.ds ∧ s'.started = s.started ∧ s'.finished = s.finished := by
  obtain ⟨r, r', _, rfl, _⟩ := step_rOnly sk s s' i l hl hs
  exact ⟨rfl, rfl, rfl⟩

/-! ### C12 -/

/-- statement adjusted: the non-blocking select exists only in TellHub.Receive (see Props/C12.lean) -/
theorem blocked_calls_return_after_close (sk : Skel) (hg : sk.good = true) (s : St) (hc : s.closed = true) :
    (∀ (i : Nat) (r : R), s.rs[i]? = some r → r.pc = .sel2 →
        ∃ s', step sk s (.rSel2Closed i) = some s' ∧ (s'.rs[i]?).map (·.pc) = some (.done .closedErr)) ∧
    (sk.kind = .tell → ∀ (i : Nat) (r : R), s.rs[i]? = some r → r.pc = .sel1 →
        ∃ s', step sk s (.rSel1Closed i) = some s' ∧ (s'.rs[i]?).map (·.pc) = some (.done .closedErr)) ∧
    (∀ (j : Nat) (d : D), s.ds[j]? = some d → d.pc = .sel →
        ∃ s', step sk s (.dClosed j) = some s' ∧ (s'.ds[j]?).map (·.pc) = some (.done .closedErr 0)) := by
  obtain ⟨-, h2c, -, hdc, -, -, hng, hk⟩ := (good_iff sk).mp hg
  have hcr := closedRes_of_guard hng
  refine ⟨?_, ?_, ?_⟩
  · intro i r hr hpc
    refine ⟨setR s i { r with pc := .done .closedErr }, ?_, ?_⟩
    · simp [step, hr, hpc, hc, h2c, hcr]
    · simp [setR, get_set_self hr]
  · intro hkind i r hr hpc
    have h1c : sk.s1Closed = true := by
      rcases hk with hk | hk
      · rw [hkind] at hk; cases hk
      · exact hk.1
    refine ⟨setR s i { r with pc := .done .closedErr }, ?_, ?_⟩
    · simp [step, hr, hpc, hc, h1c, hcr]
    · simp [setR, get_set_self hr]
  · intro j d hd hpc
    refine ⟨setD s j { d with pc := .done .closedErr 0 }, ?_, ?_⟩
    · simp [step, hd, hpc, hc, hdc, hcr]
    · simp [setD, get_set_self hd]

theorem after_close_error (sk : Skel) (hg : sk.good = true) (ls : List Lbl) (s : St) (hr : run sk {} ls = some s) :
    (∀ (i : Nat) (r : R), s.rs[i]? = some r → r.pc ≠ .done .nilErr) ∧ (∀ (j : Nat) (d : D) (n : Nat), s.ds[j]? = some d → d.pc ≠ .done .nilErr n) ∧
    (s.closed = true → ∀ (i : Nat) (r : R), s.rs[i]? = some r → r.pc = .start →
        ∃ s', step sk s (.rCheck i) = some s' ∧ (s'.rs[i]?).map (·.pc) = some (.done .closedErr)) := by
  obtain ⟨-, -, -, -, -, -, hng, -⟩ := (good_iff sk).mp hg
  have h := run_nonil sk hng ls _ _ nonil_init hr
  refine ⟨h.1, fun j d n => h.2 j d n, ?_⟩
  intro hc i r hi hpc
  refine ⟨setR s i { r with pc := .done .closedErr }, ?_, ?_⟩
  · simp [step, hi, hpc, hc, hng]
  · simp [setR, get_set_self hi]

theorem closed_receiver_only_returns (sk : Skel) (hg : sk.good = true) (s s' : St) (i : Nat) (r : R) (l : Lbl)
    (_hc : s.closed = true) (hr : s.rs[i]? = some r) (hpc : r.pc = .sel2)
    (hnod : ∀ (j : Nat) (d : D), s.ds[j]? = some d → d.pc ≠ .sel)
    (hl : l = .rSel2Closed i ∨ l = .rSel2Ctx i ∨ (∃ j, l = .rendezvous i j) ∨ l = .rCheck i ∨ l = .rSel1Closed i ∨
          l = .rSel1Default i ∨ (∃ n, l = .cbReturn i n))
    (hs : step sk s l = some s') :
    (s'.rs[i]?).map (·.pc) = some (.done .closedErr) ∨ (s'.rs[i]?).map (·.pc) = some (.done .ctxErr) := by
  obtain ⟨-, -, -, -, -, -, hng, -⟩ := (good_iff sk).mp hg
  have hcr := closedRes_of_guard hng
  rcases hl with rfl | rfl | ⟨j, rfl⟩ | rfl | rfl | rfl | ⟨n, rfl⟩
  · left
    simp only [step, hr] at hs
    split at hs
    · cases hs; simp [setR, get_set_self hr, hcr]
    · cases hs
  · right
    simp only [step, hr] at hs
    split at hs
    · cases hs; simp [setR, get_set_self hr]
    · cases hs
  · obtain ⟨_, d, _, hd, _, hdpc, _⟩ := step_rendezvous sk s s' i j hs
    exact absurd hdpc (hnod j d hd)
  · simp [step, hr, hpc] at hs
  · simp [step, hr, hpc] at hs
  · simp [step, hr, hpc] at hs
  · obtain ⟨r0, j, hr0, hpc0, _⟩ := step_cbReturn sk s s' i n hs
    rw [hr] at hr0; cases hr0; rw [hpc] at hpc0; cases hpc0

theorem no_callback_after_close_settles (sk : Skel) (_hg : sk.good = true) (s : St) (_hc : s.closed = true)
    (hparked : ∀ (i : Nat) (r : R), s.rs[i]? = some r → r.pc ≠ .sel1 ∧ r.pc ≠ .sel2) (i j : Nat) :
    step sk s (.rendezvous i j) = none := by
  cases hs : step sk s (.rendezvous i j) with
  | none => rfl
  | some s' =>
    obtain ⟨r, _, hr, _, hrpc, _, _⟩ := step_rendezvous sk s s' i j hs
    rcases hrpc with h | h
    · exact absurd h (hparked i r hr).1
    · exact absurd h (hparked i r hr).2

theorem close_idempotent (sk : Skel) (s s1 s2 : St) (h1 : step sk s .close = some s1) (h2 : step sk s1 .close = some s2) :
    s2 = s1 := by
  simp only [step, Option.some.injEq] at h1 h2
  subst h1; subst h2; rfl

/-! ### C14 -/

theorem hub_message_lent (sk : Skel) (ls : List Lbl) (s : St) (hr : run sk {} ls = some s) (i j : Nat) (r : R)
    (hi : s.rs[i]? = some r) (hcb : r.pc = .inCb j) :
    ∃ d, s.ds[j]? = some d ∧ d.pc = .committed :=
  ((run_inv sk ls _ _ inv_init hr).rCb i r j hi hcb).2.2

/-! ### C11 -/

theorem ask_returns_own_answer (ls : List Lbl) (s : St) (hr : run Skel.ask {} ls = some s) :
    (∀ (j : Nat) (d : D) (n : Nat), s.ds[j]? = some d → d.pc = .done .ok n → (j, n) ∈ s.finished) ∧
    (∀ j n n', (j, n) ∈ s.finished → (j, n') ∈ s.finished → n = n') ∧
    (∀ (j : Nat) (d : D) (r : Res) (n : Nat), s.ds[j]? = some d → d.pc = .done r n → r ≠ .ok → j ∉ s.started) :=
  have h := run_inv Skel.ask ls _ _ inv_init hr
  ⟨h.dOk, fun _ _ _ h1 h2 => keys_nodup_unique h.finNodup h1 h2, h.dErr⟩

/-- facts obligation: AskHub.CloseWithError(nil) stores ErrClosed -/
theorem ask_nilGuard : Skel.ask.nilGuard = true := by decide

theorem ask_closed_is_error (ls : List Lbl) (s : St) (hr : run Skel.ask {} ls = some s) :
    ∀ (j : Nat) (d : D) (n : Nat), s.ds[j]? = some d → d.pc ≠ .done .nilErr n :=
  fun j d n => (run_nonil Skel.ask ask_nilGuard ls _ _ nonil_init hr).2 j d n

end P2PVerif.Hub
