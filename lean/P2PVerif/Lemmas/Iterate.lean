import P2PVerif.Model.DHT
/-! Generic facts about `dhtIterate`: an invariant rule and a termination rule. Core Lean only. -/
namespace P2PVerif.DHT
open P2PVerif P2PVerif.Kad

theorem mem_insertNode (key : Bytes) (x y : NodeInfo) (l : List NodeInfo) :
    y ∈ insertNode key x l ↔ y = x ∨ y ∈ l := by
  induction l with
  | nil => simp [insertNode]
  | cons z zs ih =>
    simp only [insertNode]
    split
    · simp
    · simp [ih]; grind

theorem length_insertNode (key : Bytes) (x : NodeInfo) (l : List NodeInfo) :
    (insertNode key x l).length = l.length + 1 := by
  induction l with
  | nil => simp [insertNode]
  | cons z zs ih => simp only [insertNode]; split <;> simp [ih]

theorem mem_sortNodes (key : Bytes) (y : NodeInfo) (l : List NodeInfo) : y ∈ sortNodes key l ↔ y ∈ l := by
  induction l with
  | nil => simp [sortNodes]
  | cons z zs ih =>
    have : sortNodes key (z :: zs) = insertNode key z (sortNodes key zs) := rfl
    rw [this, mem_insertNode, ih]; simp

theorem length_sortNodes (key : Bytes) (l : List NodeInfo) : (sortNodes key l).length = l.length := by
  induction l with
  | nil => simp [sortNodes]
  | cons z zs ih =>
    have : sortNodes key (z :: zs) = insertNode key z (sortNodes key zs) := rfl
    rw [this, length_insertNode, ih]; simp

theorem mem_of_take_sort {key : Bytes} {n : Nat} {nodes : List NodeInfo} {node : NodeInfo} {rest : List NodeInfo}
    (h : (sortNodes key nodes).take n = node :: rest) : node ∈ nodes ∧ ∀ x ∈ rest, x ∈ nodes := by
  have hm : ∀ x ∈ (sortNodes key nodes).take n, x ∈ nodes :=
    fun x hx => (mem_sortNodes key x nodes).1 (List.mem_of_mem_take hx)
  rw [h] at hm
  exact ⟨hm _ (by simp), fun x hx => hm x (by simp [hx])⟩

theorem length_of_take_sort {key : Bytes} {n : Nat} {nodes : List NodeInfo} {node : NodeInfo} {rest : List NodeInfo}
    (h : (sortNodes key nodes).take n = node :: rest) : rest.length < nodes.length := by
  have h1 : ((sortNodes key nodes).take n).length ≤ nodes.length := by
    rw [List.length_take, length_sortNodes]; omega
  rw [h] at h1
  simp at h1; omega

theorem mem_enqueue (key : Bytes) (node : NodeInfo) (seen : List Bytes) (q new : List NodeInfo) (y : NodeInfo)
    (h : y ∈ enqueue key node seen q new) : y ∈ q ∨ y ∈ new := by
  unfold enqueue at h
  induction new generalizing q with
  | nil => simpa using h
  | cons nn ns ih =>
    rw [List.foldl_cons] at h
    have := ih _ h
    rcases this with h1 | h1
    · split at h1
      · simp [h1]
      · split at h1
        · simp [h1]
        · split at h1
          · simp [h1]
          · simp only [List.mem_append, List.mem_singleton] at h1
            rcases h1 with h1 | h1
            · simp [h1]
            · simp [h1]
    · simp [h1]

/-- Invariant rule. `P` is a property of queued nodes, `R seen st` ties the callback state to the list of ids
    already passed to the callback. -/
theorem iterate_inv {σ : Type} (key : Bytes) (n : Nat) (fn : σ → NodeInfo → σ × List NodeInfo × Bool)
    (P : NodeInfo → Prop) (R : List Bytes → σ → Prop)
    (hstep : ∀ seen st node, R seen st → P node → node.id ∉ seen →
      R (node.id :: seen) (fn st node).1 ∧ ∀ x ∈ (fn st node).2.1, P x) :
    ∀ (fuel : Nat) (nodes : List NodeInfo) (seen : List Bytes) (st st' : σ),
      (∀ x ∈ nodes, P x) → R seen st → iterate key n fn fuel nodes seen st = some st' → ∃ seen', R seen' st' := by
  intro fuel
  induction fuel with
  | zero => intro nodes seen st st' _ _ h; simp [iterate] at h
  | succ fuel ih =>
    intro nodes seen st st' hP hR h
    rw [iterate] at h
    split at h
    · cases h; exact ⟨seen, hR⟩
    · rename_i node rest hq
      have ⟨hn, hrest⟩ := mem_of_take_sort hq
      split at h
      · exact ih rest seen st st' (fun x hx => hP x (hrest x hx)) hR h
      · rename_i hns
        have hns' : node.id ∉ seen := by simpa using hns
        have ⟨hR', hnew⟩ := hstep seen st node hR (hP _ hn) hns'
        rcases hfn : fn st node with ⟨st1, new, cont⟩
        rw [hfn] at hR' hnew
        simp only [hfn] at h
        split at h
        · cases h; exact ⟨_, hR'⟩
        · refine ih _ _ _ _ ?_ hR' h
          intro x hx
          rcases mem_enqueue _ _ _ _ _ _ hx with hx | hx
          · exact hP x (hrest x hx)
          · exact hnew x hx

/-- Termination rule: if the ids that can ever be queued all satisfy `V`, and a duplicate-free list of `V`-ids
    has at most `B` elements, the iteration ends (each round either shortens the queue or contacts a new id). -/
theorem iterate_terminates {σ : Type} (key : Bytes) (n : Nat) (fn : σ → NodeInfo → σ × List NodeInfo × Bool)
    (V : Bytes → Prop) (B : Nat)
    (hfin : ∀ l : List Bytes, l.Nodup → (∀ x ∈ l, V x) → l.length ≤ B)
    (hnew : ∀ st node, ∀ x ∈ (fn st node).2.1, V x.id) :
    ∀ (k : Nat) (seen : List Bytes), B + 1 - seen.length ≤ k → seen.Nodup → (∀ x ∈ seen, V x) →
    ∀ (m : Nat) (nodes : List NodeInfo) (st : σ), nodes.length ≤ m → (∀ x ∈ nodes, V x.id) →
      ∃ fuel, (iterate key n fn fuel nodes seen st).isSome = true := by
  intro k
  induction k with
  | zero =>
    intro seen hk hnd hV
    have := hfin seen hnd hV
    omega
  | succ k ihk =>
    intro seen hk hnd hV m
    induction m with
    | zero =>
      intro nodes st hm _
      have : nodes = [] := by simpa using hm
      subst this
      exact ⟨1, by simp [iterate, sortNodes]⟩
    | succ m ihm =>
      intro nodes st hm hq
      cases hq' : (sortNodes key nodes).take n with
      | nil => exact ⟨1, by simp [iterate, hq']⟩
      | cons node rest =>
        have ⟨hn, hrest⟩ := mem_of_take_sort hq'
        have hlen := length_of_take_sort hq'
        by_cases hs : node.id ∈ seen
        · have ⟨f, hf⟩ := ihm rest st (by omega) (fun x hx => hq x (hrest x hx))
          exact ⟨f + 1, by simpa [iterate, hq', hs] using hf⟩
        · rcases hfn : fn st node with ⟨st1, new, cont⟩
          cases cont with
          | false => exact ⟨1, by simp [iterate, hq', hs, hfn]⟩
          | true =>
            have hs' : node.id ∉ seen := hs
            have hnd' : (node.id :: seen).Nodup := List.nodup_cons.2 ⟨hs', hnd⟩
            have hV' : ∀ x ∈ node.id :: seen, V x := by
              intro x hx
              rcases List.mem_cons.1 hx with hx | hx
              · subst hx; exact hq _ hn
              · exact hV x hx
            have hB := hfin _ hnd' hV'
            simp only [List.length_cons] at hB
            have hnew' := hnew st node
            rw [hfn] at hnew'
            have ⟨f, hf⟩ := ihk (node.id :: seen) (by simp only [List.length_cons]; omega) hnd' hV'
              _ (enqueue key node (node.id :: seen) rest new) st1 (Nat.le_refl _) (by
                intro x hx
                rcases mem_enqueue _ _ _ _ _ _ hx with hx | hx
                · exact hq x (hrest x hx)
                · exact hnew' x hx)
            exact ⟨f + 1, by simpa [iterate, hq', hs, hfn] using hf⟩

end P2PVerif.DHT
