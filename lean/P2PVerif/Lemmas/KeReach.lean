import P2PVerif.Lemmas.KeInv
/-! Every reachable world of the P2PKE adversary model satisfies the world invariant `WInv`. -/
namespace P2PVerif.P2PKE
open P2PVerif

/-! ## logs -/

/-- counters of the application deliveries of session `i` -/
def ctrs (apps : List (Nat × Wire × Bytes)) (i : Nat) : List Nat :=
  (apps.filter (fun a => a.1 == i)).map (fun a => a.2.1.counter)

structure Logs (W : World) : Prop where
  rp : ∀ (i : Nat) (s : Sess), W.sess[i]? = some s → Replay.Inv s.rp (ctrs W.apps i)
  sendsNodup : (W.sends.map (fun a => (a.1, a.2.1.counter))).Nodup
  appsNodup : (W.apps.map (fun a => (a.1, a.2.1))).Nodup

structure WInv (hk : KeyId → Bool) (W : World) : Prop where
  core : Core hk W
  logs : Logs W

/-- the replay part of `Logs` survives a step of session `i` that records nothing -/
theorem rp_step {W W' : World} {i : Nat} {s s' : Sess}
    (hL : ∀ (j : Nat) (t : Sess), W.sess[j]? = some t → Replay.Inv t.rp (ctrs W.apps j))
    (hs : W.sess[i]? = some s) (hsess : W'.sess = W.sess.set i s')
    (hrp : ∀ S, Replay.Inv s.rp S → Replay.Inv s'.rp S) (ha : W'.apps = W.apps) :
    ∀ (j : Nat) (t : Sess), W'.sess[j]? = some t → Replay.Inv t.rp (ctrs W'.apps j) := by
  intro j t ht
  rw [hsess, sess_set hs] at ht
  rw [ha]
  by_cases hij : i = j
  · subst hij; simp at ht; subst ht; exact hrp _ (hL i s hs)
  · simp [hij] at ht; exact hL j t ht

theorem set_self {l : List Sess} {i : Nat} {s : Sess} (hs : l[i]? = some s) : l.set i s = l := by
  apply List.ext_getElem?
  intro j
  rw [sess_set hs]
  by_cases h : i = j
  · subst h; simp [hs]
  · simp [h]

/-! ## emit -/

@[simp] theorem emit_sess (W : World) (o : Option Wire) : (W.emit o).sess = W.sess := by cases o <;> rfl
@[simp] theorem emit_sends (W : World) (o : Option Wire) : (W.emit o).sends = W.sends := by cases o <;> rfl
@[simp] theorem emit_apps (W : World) (o : Option Wire) : (W.emit o).apps = W.apps := by cases o <;> rfl
theorem mem_emit_wire (W : World) (o : Option Wire) (w : Wire) : w ∈ (W.emit o).wire ↔ o = some w ∨ w ∈ W.wire := by
  cases o with
  | none => simp [World.emit]
  | some x => simp [World.emit, eq_comm]

/-! ## the handshake message of a session in a good state is backed by that session -/

theorem handshake_backed {W : World} {i : Nat} {s : Sess} (hs : W.sess[i]? = some s) (hi : SInv i s) {w : Wire}
    (h : s.handshake = some w) : Backed W w := by
  unfold Sess.handshake at h
  split at h
  · simp at h
  · split at h
    · cases hh : s.hello <;> simp [hh] at h
      subst h; trivial
    · split at h
      · rename_i hc
        split at h
        · rename_i hh e sg h1 h2 h3
          cases h
          obtain ⟨h', e', a1, a2, a3, a4⟩ := hi.r1 (by simpa using hc.1) (by omega)
          rw [h1] at a1; cases a1
          rw [h2] at a2; cases a2
          rw [h3] at a4; cases a4
          exact ⟨i, s, hi.eph, hs, by simpa using hc.1, rfl, by omega, h1, h2, a3, rfl⟩
        · simp at h
      · split at h
        · rename_i hc
          split at h
          · rename_i hh eR rk rs h1 h2 h3 h4
            cases h
            exact ⟨i, s, hi.eph, hs, hc.1, by omega, h1, h2, rk, rs, h3, h4, by rw [hi.eph]⟩
          · simp at h
        · split at h
          · split at h
            · cases h; trivial
            · simp at h
          · simp at h

/-! ## what the adversary can read -/

theorem advEph_even (j : Nat) : advEph (2 * j) = false := by
  unfold advEph; simp [Nat.mul_mod_right]

/-- an honest `cb1` signature is readable only if it was made toward an adversary ephemeral -/
theorem advCS_cb1 {hk : KeyId → Bool} {W : World} (hW : Core hk W) {k : KeyId} {eI : Eph} {h : Hello}
    (hm : CSig.cb1 k eI h ∈ W.advCS) : advEph eI = true := by
  unfold World.advCS at hm
  obtain ⟨w, hw, hl⟩ := List.mem_flatMap.mp hm
  have hb := hW.wire w hw
  cases w with
  | respHello eR tw seen k' sg =>
    obtain ⟨j, sR, he, _, _, _, _, _, _, _, hsg⟩ := hb
    simp only [learn] at hl
    split at hl
    · rename_i hc
      simp only [List.mem_singleton] at hl
      rw [hsg] at hl
      cases hl
      subst he
      simpa [advEph_even] using hc
    · simp at hl
  | initDone eI' eR' tr sg =>
    obtain ⟨j, sI, _, _, _, _, _, _, rk, rs, _, _, hsg⟩ := hb
    simp only [learn] at hl
    split at hl
    · simp only [List.mem_singleton] at hl
      rw [hsg] at hl
      cases hl
    · simp at hl
  | initHello => simp [learn] at hl
  | respDone => simp [learn] at hl
  | data => simp [learn] at hl
  | junk => simp [learn] at hl
  | short => simp [learn] at hl

/-- every readable `cb2` signature was made by an honest session over its own (even) ephemeral -/
theorem advCS_cb2 {hk : KeyId → Bool} {W : World} (hW : Core hk W) {k : KeyId} {eI eR : Eph} {h : Hello}
    {rk : KeyId} {rs : CSig} (hm : CSig.cb2 k eI eR h rk rs ∈ W.advCS) : advEph eI = false := by
  unfold World.advCS at hm
  obtain ⟨w, hw, hl⟩ := List.mem_flatMap.mp hm
  have hb := hW.wire w hw
  cases w with
  | respHello eR' tw seen k' sg =>
    obtain ⟨j, sR, he, _, _, _, _, _, _, _, hsg⟩ := hb
    simp only [learn] at hl
    split at hl
    · simp only [List.mem_singleton] at hl
      rw [hsg] at hl
      cases hl
    · simp at hl
  | initDone eI' eR' tr sg =>
    obtain ⟨j, sI, _, _, _, _, _, _, rk', rs', _, _, hsg⟩ := hb
    simp only [learn] at hl
    split at hl
    · simp only [List.mem_singleton] at hl
      rw [hsg] at hl
      cases hl
      exact advEph_even j
    · simp at hl
  | initHello => simp [learn] at hl
  | respDone => simp [learn] at hl
  | data => simp [learn] at hl
  | junk => simp [learn] at hl
  | short => simp [learn] at hl

/-- the RespHello an initiator accepts, if it names an honest key, comes from an honest responder of that key
    that saw this initiator's ephemeral and claim -/
theorem init_peer {hk : KeyId → Bool} {W : World} (hW : Core hk W) {i : Nat} {s : Sess}
    (hs : W.sess[i]? = some s) (hini : s.isInit = true) {eR : Eph} {rk : KeyId} {h : Hello}
    (hh : s.hello = some h) (hb : Buildable hk W (.respHello eR s.eph h rk (.cb1 rk s.eph h)))
    (hon : hk rk = true) :
    ∃ j sR, W.sess[j]? = some sR ∧ sR.isInit = false ∧ sR.key = rk ∧ eR = 2 * j ∧ sR.rEph = some (2 * i) ∧
      sR.hello = some h ∧ 1 ≤ sR.hs ∧ sR.rKey = some s.key := by
  have hsi := hW.sinv i s hs
  have heph := hsi.eph
  obtain ⟨t, ht⟩ := hsi.ihello hini
  have hkey : h.key = s.key := by rw [hh] at ht; cases ht; rfl
  cases hb with
  | replay _ hm =>
    obtain ⟨j, sR, he, hj, a1, a2, a3, a4, a5, a6, _⟩ := hW.wire _ hm
    exact ⟨j, sR, hj, a1, a2, he, by rw [a5, heph], a4, a3, by rw [a6, hkey]⟩
  | resp _ _ _ _ _ hadv huse =>
    exfalso
    have hne : advEph s.eph = false := by rw [heph]; exact advEph_even i
    rcases huse with hin | hbog | ⟨k', hk', hdis⟩
    · have := advCS_cb1 hW hin
      rw [hne] at this; cases this
    · cases hbog
    · simp only [CSig.signer?, Option.some.injEq] at hk'
      subst hk'
      rw [hon] at hdis; cases hdis

/-- the InitDone a responder accepts, if its claimed key is honest, comes from an honest initiator of that key
    that accepted this responder's ephemeral and key -/
theorem resp_peer {hk : KeyId → Bool} {W : World} (hW : Core hk W) {i : Nat} {s : Sess}
    (hs : W.sess[i]? = some s) {h : Hello} {e : Eph} {rk : KeyId} {own : CSig}
    (hb : Buildable hk W (.initDone e s.eph h (.cb2 rk e s.eph h s.key own))) (hon : hk rk = true) :
    ∃ j sI, W.sess[j]? = some sI ∧ sI.isInit = true ∧ sI.key = rk ∧ e = 2 * j ∧ sI.rEph = some (2 * i) ∧
      sI.hello = some h ∧ 2 ≤ sI.hs ∧ sI.rKey = some s.key := by
  have hsi := hW.sinv i s hs
  have heph := hsi.eph
  cases hb with
  | replay _ hm =>
    obtain ⟨j, sI, he, hj, a1, a2, a3, a4, rk', rs', a5, a6, a7⟩ := hW.wire _ hm
    simp only [CSig.cb2.injEq] at a7
    obtain ⟨b1, _, _, _, b5, _⟩ := a7
    exact ⟨j, sI, hj, a1, b1.symm, he, by rw [a4, heph], a3, a2, by rw [a5, b5]⟩
  | done _ _ _ _ hadv huse =>
    exfalso
    have hne : advEph s.eph = false := by rw [heph]; exact advEph_even i
    rcases huse with hin | hbog | ⟨k', hk', hdis⟩
    · have := advCS_cb2 hW hin
      rcases hadv with hadv | hadv
      · rw [this] at hadv; cases hadv
      · rw [hne] at hadv; cases hadv
    · cases hbog
    · simp only [CSig.signer?, Option.some.injEq] at hk'
      subst hk'
      rw [hon] at hdis; cases hdis

/-! ## steps -/

theorem ReadCase.rp {s s' : Sess} {w : Wire} (h : ReadCase s w s') : s'.rp = s.rp := by
  cases h <;> rfl

theorem quiet_winv {hk : KeyId → Bool} {W : World} {i : Nat} {s s' : Sess} (hW : WInv hk W)
    (hs : W.sess[i]? = some s) (hq : Quiet s s') : WInv hk { W with sess := W.sess.set i s' } := by
  refine ⟨?_, ?_, hW.logs.sendsNodup, hW.logs.appsNodup⟩
  · refine core_step hW.core hs hq.le (hq.sinv (hW.core.sinv i s hs)) rfl (fun _ h => h) (fun _ h => h)
      (fun _ h => h) (fun _ h => Or.inl h) (fun _ h => Or.inl h) (fun _ h => Or.inl h) ?_ ?_
    · intro _ hlt h2; have := hq.le.hs; obtain ⟨wd, rp, rfl, _⟩ := hq; exact absurd h2 (by simp; omega)
    · intro _ hlt h3; obtain ⟨wd, rp, rfl, _⟩ := hq; exact absurd h3 (by simp; omega)
  · refine rp_step hW.logs.rp hs rfl ?_ rfl
    obtain ⟨wd, rp, rfl, hrp⟩ := hq
    exact hrp

theorem read_winv {hk : KeyId → Bool} {W : World} {i : Nat} {s s' : Sess} {w : Wire} (hW : WInv hk W)
    (hs : W.sess[i]? = some s) (hb : Buildable hk W w) (hr : ReadCase s w s') :
    WInv hk (({ W with sess := W.sess.set i s' } : World).emit s'.handshake) := by
  have hsi' : SInv i s' := hr.sinv (hW.core.sinv i s hs)
  have hWle : WorldLe W (({ W with sess := W.sess.set i s' } : World).emit s'.handshake) :=
    worldLe_set hs hr.le (by simp) (fun w h => (mem_emit_wire _ _ _).mpr (Or.inr h)) (fun _ h => by simpa using h)
      (fun _ h => by simpa using h)
  have hself : (({ W with sess := W.sess.set i s' } : World).emit s'.handshake).sess[i]? = some s' := by
    simp [sess_set hs]
  refine ⟨?_, ?_, by simpa using hW.logs.sendsNodup, by simpa using hW.logs.appsNodup⟩
  · refine core_step hW.core hs hr.le hsi' (by simp) hWle.wire hWle.sends hWle.apps ?_
      (fun _ h => Or.inl (by simpa using h)) (fun _ h => Or.inl (by simpa using h)) ?_ ?_
    · intro x hx
      rcases (mem_emit_wire _ _ _).mp hx with hx | hx
      · exact Or.inr (handshake_backed hself hsi' hx)
      · exact Or.inl hx
    · intro hi hlt h2 k hrk hon
      cases hr with
      | same => omega
      | resp01 _ _ hr0 _ _ _ => exact absurd hi (by simp [hr0])
      | init02 eR rk h hini h0 hh hw =>
        simp only [Option.some.injEq] at hrk
        subst hrk hw
        obtain ⟨j, sR, hj, a1, a2, a3, a4, a5, a6, a7⟩ := init_peer hW.core hs hini hh hb hon
        refine IPeer.mono hWle (W := W) (s := { s with rEph := some eR }) ?_ rfl rfl rfl
        exact ⟨j, sR, hj, a1, a2, by simp [a3], a4, by rw [a5, ← hh], a6, a7⟩
      | resp13 _ _ _ _ hr0 _ _ _ _ _ _ => exact absurd hi (by simp [hr0])
      | init24 _ h2' => omega
    · intro hi hlt h3 k hrk hon
      cases hr with
      | same => omega
      | resp01 _ _ hr0 _ _ _ => simp at h3
      | init02 _ _ _ hini _ _ _ => exact absurd hi (by simp [hini])
      | resp13 h e rk own hr0 h1 hh he hrk' hown hw =>
        have hrk2 : s.rKey = some k := hrk
        rw [hrk'] at hrk2
        simp only [Option.some.injEq] at hrk2
        subst hrk2 hw
        obtain ⟨j, sI, hj, a1, a2, a3, a4, a5, a6, a7⟩ := resp_peer hW.core hs hb hon
        refine RPeer.mono hWle (W := W) (s := s) ?_ rfl rfl rfl
        exact ⟨j, sI, hj, a1, a2, by simp [he, a3], a4, by rw [a5, ← hh], a6, a7⟩
      | init24 hini _ => exact absurd hi (by simp [hini])
  · refine rp_step (s' := s') hW.logs.rp hs (by simp) (fun S h => ?_) (by simp)
    rw [hr.rp]; exact h

theorem mem_ctrs {apps : List (Nat × Wire × Bytes)} {i : Nat} {w : Wire}
    (h : (i, w) ∈ apps.map (fun a => (a.1, a.2.1))) : w.counter ∈ ctrs apps i := by
  obtain ⟨a, ha, he⟩ := List.mem_map.mp h
  simp only [Prod.mk.injEq] at he
  unfold ctrs
  exact List.mem_map.mpr ⟨a, List.mem_filter.mpr ⟨ha, by simp [he.1]⟩, by rw [he.2]⟩

theorem app_winv {hk : KeyId → Bool} {W : World} {i : Nat} {s : Sess} {w : Wire} {ctr : Nat} {p : Bytes}
    {rp : Replay.Filter} (hW : WInv hk W) (hs : W.sess[i]? = some s) (hb : Buildable hk W w)
    (hw : w = .data s.eI s.eR s.tr s.inDir ctr p) (hcr : s.canReceive = true)
    (hv : Replay.validate s.rp ctr maxNonce = (rp, true)) :
    WInv hk { W with sess := W.sess.set i { s with rp := rp, hs := 8 }, apps := (i, w, p) :: W.apps } := by
  have hsi := hW.core.sinv i s hs
  have h2 : 2 ≤ s.hs := canReceive_hs.mp hcr
  have hspec := Replay.validate_spec s.rp (ctrs W.apps i) ctr maxNonce (hW.logs.rp i s hs)
  rw [hv] at hspec
  simp only [if_true] at hspec
  refine ⟨?_, ?_, hW.logs.sendsNodup, ?_⟩
  · refine core_step hW.core hs (app_le hsi rp) (app_sinv hsi hcr rp) rfl (fun _ h => h) (fun _ h => h)
      (fun _ h => List.mem_cons_of_mem _ h) (fun _ h => Or.inl h) (fun _ h => Or.inl h) ?_ ?_ ?_
    · intro a ha
      rcases List.mem_cons.mp ha with rfl | ha
      · refine Or.inr ⟨{ s with rp := rp, hs := 8 }, ctr, by simp [sess_set hs], by simp [Sess.canReceive], hw, ?_⟩
        subst hw
        cases hb with
        | replay _ hm => exact Or.inl hm
        | data _ _ _ _ _ _ hadv => exact Or.inr hadv
      · exact Or.inl ha
    · intro _ hlt; omega
    · intro hi hlt
      have := hsi.rhs hi
      omega
  · intro j t ht
    simp only [sess_set hs] at ht
    by_cases hij : i = j
    · subst hij
      simp at ht; subst ht
      have : ctrs ((i, w, p) :: W.apps) i = ctr :: ctrs W.apps i := by
        subst hw; simp [ctrs, Wire.counter]
      rw [this]; exact hspec.1
    · simp [hij] at ht
      have : ctrs ((i, w, p) :: W.apps) j = ctrs W.apps j := by
        simp [ctrs, hij]
      rw [this]; exact hW.logs.rp j t ht
  · simp only [List.map_cons, List.nodup_cons]
    refine ⟨fun hm => ?_, hW.logs.appsNodup⟩
    have := mem_ctrs hm
    rw [hw] at this
    exact hspec.2 trivial this

theorem deliver_winv {hk : KeyId → Bool} {W : World} (hW : WInv hk W) (i : Nat) (w : Wire) (now : Nat)
    (hb : Buildable hk W w) : WInv hk (W.deliver i w now) := by
  unfold World.deliver
  split
  · exact hW
  · rename_i s hs
    have hc := deliver_case s w now
    generalize s.deliver w now = x at hc
    cases hc with
    | quiet s' r hq hr =>
      rcases hr with rfl | rfl
      · exact quiet_winv hW hs hq
      · exact quiet_winv hW hs hq
    | hs s' hread => exact read_winv hW hs hb (readHandshake_case s s' w hread)
    | app ctr p rp hw hcr hv => exact app_winv hW hs hb hw hcr hv

theorem handshake_winv {hk : KeyId → Bool} {W : World} (hW : WInv hk W) (i : Nat) : WInv hk (W.handshake i) := by
  unfold World.handshake
  split
  · exact hW
  · rename_i s hs
    have := read_winv (w := .short) hW hs .short ReadCase.same
    rw [set_self hs] at this
    exact this

theorem send_winv {hk : KeyId → Bool} {W : World} (hW : WInv hk W) (i : Nat) (p : Bytes) (now : Nat) :
    WInv hk (W.send i p now) := by
  unfold World.send
  split
  · exact hW
  · rename_i s hs
    have hc := send_case s p now
    generalize s.send p now = x at hc
    cases hc with
    | none =>
      have := quiet_winv hW hs (Quiet.refl s)
      exact this
    | some hcs hlt =>
      have hsi := hW.core.sinv i s hs
      have h2 := canSend_hs hcs
      have hself : (W.sess.set i { s with nonce := s.nonce + 1 })[i]? = some { s with nonce := s.nonce + 1 } := by
        simp [sess_set hs]
      have hok : SendOK { W with sess := W.sess.set i { s with nonce := s.nonce + 1 },
                                 wire := .data s.eI s.eR s.tr s.outDir s.nonce p :: W.wire,
                                 sends := (i, .data s.eI s.eR s.tr s.outDir s.nonce p, p) :: W.sends }
          (i, .data s.eI s.eR s.tr s.outDir s.nonce p, p) :=
        ⟨_, hself, hcs, hsi.nonce16 h2, Nat.lt_succ_self _, hlt⟩
      refine ⟨?_, ?_, ?_, hW.logs.appsNodup⟩
      · refine core_step hW.core hs (send_le s) (send_sinv hsi) rfl (fun _ h => List.mem_cons_of_mem _ h)
          (fun _ h => List.mem_cons_of_mem _ h) (fun _ h => h) ?_ ?_ (fun _ h => Or.inl h) ?_ ?_
        · intro x hx
          rcases List.mem_cons.mp hx with rfl | hx
          · exact Or.inr ⟨i, _, hself, List.mem_cons_self, hcs, rfl, rfl, rfl, rfl⟩
          · exact Or.inl hx
        · intro a ha
          rcases List.mem_cons.mp ha with rfl | ha
          · exact Or.inr hok
          · exact Or.inl ha
        · intro _ hlt2 h2'; exact absurd h2' (by simp; omega)
        · intro _ hlt3 h3'; exact absurd h3' (by simp; omega)
      · exact rp_step hW.logs.rp hs rfl (fun _ h => h) rfl
      · simp only [List.map_cons, List.nodup_cons]
        refine ⟨fun hm => ?_, hW.logs.sendsNodup⟩
        obtain ⟨a, ha, he⟩ := List.mem_map.mp hm
        simp only [Prod.mk.injEq] at he
        have he2 : a.2.1.counter = s.nonce := he.2
        obtain ⟨s0, hs0, _, _, hc, _⟩ := hW.core.sends a ha
        rw [he.1, hs] at hs0
        cases hs0
        omega

theorem newSess_winv {hk : KeyId → Bool} {W : World} (hW : WInv hk W) (isInit : Bool) (key now ra : Nat) :
    WInv hk (W.newSess isInit key now ra) := by
  show WInv hk (({ W with sess := W.sess ++ [Sess.new isInit key (2 * W.sess.length) now ra] } : World).emit
    (if isInit = true then (Sess.new isInit key (2 * W.sess.length) now ra).handshake else none))
  generalize hs0 : Sess.new isInit key (2 * W.sess.length) now ra = s0
  have hsi0 : SInv W.sess.length s0 := by rw [← hs0]; exact sinv_new _ _ _ _ _
  have hhs0 : s0.hs = 0 := by rw [← hs0]; rfl
  have hrp0 : s0.rp = Replay.Filter.empty := by rw [← hs0]; rfl
  generalize ho : (if isInit = true then s0.handshake else none) = o
  have hlook : ∀ (j : Nat) (t : Sess), (W.sess ++ [s0])[j]? = some t →
      W.sess[j]? = some t ∨ (j = W.sess.length ∧ t = s0) := by
    intro j t ht
    rw [List.getElem?_append] at ht
    by_cases hj : j < W.sess.length
    · simp only [hj, if_true] at ht; exact Or.inl ht
    · simp only [hj, if_false, List.getElem?_singleton] at ht
      by_cases hj2 : j - W.sess.length = 0
      · simp [hj2] at ht; exact Or.inr ⟨by omega, ht.symm⟩
      · simp [hj2] at ht
  have hle : WorldLe W (({ W with sess := W.sess ++ [s0] } : World).emit o) := by
    refine ⟨fun j t ht => ⟨t, ?_, SessLe.refl t⟩, fun w h => (mem_emit_wire _ _ _).mpr (Or.inr h),
      fun _ h => by simpa using h, fun _ h => by simpa using h⟩
    simp only [emit_sess]
    rw [List.getElem?_append_left (lt_of_sess ht)]; exact ht
  have hnew : (({ W with sess := W.sess ++ [s0] } : World).emit o).sess[W.sess.length]? = some s0 := by simp
  refine ⟨?_, ?_, by simpa using hW.logs.sendsNodup, by simpa using hW.logs.appsNodup⟩
  · refine core_mono hW.core hle ?_ ?_ (fun _ h => Or.inl (by simpa using h)) (fun _ h => Or.inl (by simpa using h)) ?_ ?_
    · intro j t ht
      simp only [emit_sess] at ht
      rcases hlook j t ht with h | ⟨rfl, rfl⟩
      · exact hW.core.sinv j t h
      · exact hsi0
    · intro x hx
      rcases (mem_emit_wire _ _ _).mp hx with hx | hx
      · refine Or.inr (handshake_backed hnew hsi0 ?_)
        rw [← ho] at hx
        split at hx
        · exact hx
        · cases hx
      · exact Or.inl hx
    · intro j t k ht _ h2 _ _
      simp only [emit_sess] at ht
      rcases hlook j t ht with h | ⟨rfl, rfl⟩
      · exact Or.inl ⟨t, h, h2⟩
      · omega
    · intro j t k ht _ h3 _ _
      simp only [emit_sess] at ht
      rcases hlook j t ht with h | ⟨rfl, rfl⟩
      · exact Or.inl ⟨t, h, h3⟩
      · omega
  · intro j t ht
    simp only [emit_sess, emit_apps] at ht ⊢
    rcases hlook j t ht with h | ⟨rfl, rfl⟩
    · exact hW.logs.rp j t h
    · have : ctrs W.apps W.sess.length = [] := by
        unfold ctrs
        rw [List.map_eq_nil_iff, List.filter_eq_nil_iff]
        intro a ha hc
        obtain ⟨s, _, hsa, _⟩ := hW.core.apps a ha
        have := lt_of_sess hsa
        simp only [beq_iff_eq] at hc
        omega
      rw [this, hrp0]
      exact Replay.empty_inv

theorem init_winv (hk : KeyId → Bool) : WInv hk {} := by
  refine ⟨⟨?_, ?_, ?_, ?_, ?_, ?_⟩, ?_, ?_, ?_⟩
  · intro i s h; simp at h
  · intro w h; simp at h
  · intro i s k h; simp at h
  · intro i s k h; simp at h
  · intro a h; simp at h
  · intro a h; simp at h
  · intro i s h; simp at h
  · simp
  · simp

theorem reach_winv {hk : KeyId → Bool} {W : World} (hr : Reach hk W) : WInv hk W := by
  induction hr with
  | init => exact init_winv hk
  | newSess W isInit key now ra _ _ ih => exact newSess_winv ih isInit key now ra
  | deliver W i w now _ hb ih => exact deliver_winv ih i w now hb
  | handshake W i _ ih => exact handshake_winv ih i
  | send W i p now _ ih => exact send_winv ih i p now

end P2PVerif.P2PKE
