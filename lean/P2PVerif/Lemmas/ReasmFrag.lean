import P2PVerif.Model.Reasm
import P2PVerif.Lemmas.Chunks
import P2PVerif.Lemmas.MTU
/-! C10, fragswarm: schedules against the reassembly model of s/fragswarm. -/
namespace P2PVerif.Reasm
open P2PVerif

/-! ## generic helpers -/

/-- distinct keys: the key determines the index -/
theorem idx_unique {α β : Type} (f : α → β) {l : List α} (hk : l.Pairwise (fun a b => f a ≠ f b))
    {i j : Nat} {a b : α} (hi : l[i]? = some a) (hj : l[j]? = some b) (h : f a = f b) : i = j := by
  rw [List.pairwise_iff_getElem] at hk
  obtain ⟨hi', rfl⟩ := List.getElem?_eq_some_iff.mp hi
  obtain ⟨hj', rfl⟩ := List.getElem?_eq_some_iff.mp hj
  rcases Nat.lt_trichotomy i j with hlt | heq | hgt
  · exact absurd h (hk i j hi' hj' hlt)
  · exact heq
  · exact absurd h.symm (hk j i hj' hi' hgt)

/-! ## fragswarm -/

/-- the sender's chunks of a message -/
def fps (innerMTU : Nat) (m : FMsg) : List Bytes := Frag.chunks (innerMTU - Frag.overhead) m.payload

/-- what the datagrams of a genuine message look like to the receiver's parser -/
theorem frag_cases (innerMTU cfgMTU : Nat) (m : FMsg) (hg : m.genuine innerMTU cfgMTU) :
    (∃ pkt, m.frags = [pkt] ∧ Frag.parse pkt = some (m.id, 0, 1, m.payload)) ∨
    (m.frags.length = (fps innerMTU m).length ∧ 2 ≤ (fps innerMTU m).length ∧ (fps innerMTU m).length ≤ 255 ∧
      (fps innerMTU m).flatten = m.payload ∧
      ∀ pi pkt, m.frags[pi]? = some pkt →
        ∃ p, (fps innerMTU m)[pi]? = some p ∧ Frag.parse pkt = some (m.id, pi, (fps innerMTU m).length, p)) := by
  obtain ⟨hid, ht⟩ := hg
  unfold Frag.tell at ht
  by_cases hgt : (m.payload.length : Int) > Frag.mtu innerMTU cfgMTU
  · rw [if_pos hgt] at ht; cases ht
  rw [if_neg hgt] at ht
  by_cases h0 : m.payload.length = 0
  · rw [if_pos h0] at ht
    left
    refine ⟨_, (Option.some.inj ht).symm, ?_⟩
    have : m.payload = [] := List.eq_nil_of_length_eq_zero h0
    rw [this]
    have := Frag.parse_header m.id 0 1 [] hid (by decide) (by decide)
    simpa using this
  rw [if_neg h0] at ht
  obtain ⟨hn, hle, _⟩ := MTU.frag_guard innerMTU cfgMTU m.payload (by omega) (by omega)
  have hlen255 := Frag.chunks_length_le _ hn m.payload 255 hle
  have hlen1 := Frag.chunks_length_pos _ hn m.payload (by omega)
  simp only at ht
  by_cases h1 : (Frag.chunks (innerMTU - Frag.overhead) m.payload).length = 1
  · rw [if_pos h1] at ht
    left
    exact ⟨_, (Option.some.inj ht).symm, Frag.parse_header m.id 0 1 m.payload hid (by decide) (by decide)⟩
  · rw [if_neg h1] at ht
    right
    have hfr := (Option.some.inj ht).symm
    refine ⟨by rw [hfr]; simp [fps], by unfold fps; omega, hlen255, Frag.chunks_flatten _ hn _, ?_⟩
    intro pi pkt hp
    rw [hfr, List.getElem?_mapIdx] at hp
    rw [Option.map_eq_some_iff] at hp
    obtain ⟨p, hp1, hp2⟩ := hp
    refine ⟨p, hp1, ?_⟩
    have hpi : pi < (Frag.chunks (innerMTU - Frag.overhead) m.payload).length :=
      (List.getElem?_eq_some_iff.mp hp1).1
    rw [← hp2, Nat.mod_eq_of_lt (show pi < 256 by omega),
      Nat.mod_eq_of_lt (show (Frag.chunks (innerMTU - Frag.overhead) m.payload).length < 256 by omega)]
    exact Frag.parse_header m.id pi _ p hid hpi hlen255

/-! ### the association list -/

theorem fmem_of_get {st : Frag.RState} {k : Nat × Nat} {a : Frag.Agg} (h : st.get k = some a) : (k, a) ∈ st := by
  unfold Frag.RState.get at h
  rw [Option.map_eq_some_iff] at h
  obtain ⟨⟨k', a'⟩, hf, rfl⟩ := h
  have hk := List.find?_some hf
  have hm := List.mem_of_find?_eq_some hf
  simp only [beq_iff_eq] at hk
  subst hk; exact hm

theorem fmem_erase {st : Frag.RState} {k : Nat × Nat} {x} (h : x ∈ st.erase k) : x ∈ st :=
  (List.mem_filter.mp h).1

theorem fmem_put {st : Frag.RState} {k : Nat × Nat} {a : Frag.Agg} {x} (h : x ∈ st.put k a) :
    x = (k, a) ∨ x ∈ st := by
  unfold Frag.RState.put at h
  rcases List.mem_cons.mp h with h | h
  · exact Or.inl h
  · exact Or.inr (fmem_erase h)

theorem fget_put_self (st : Frag.RState) (k : Nat × Nat) (a : Frag.Agg) : (st.put k a).get k = some a := by
  simp [Frag.RState.get, Frag.RState.put]

/-! ### one aggregator -/

/-- the aggregator holds only chunks of `ps`, in their own cells, and only cells whose index is in `S` -/
def AggOK (ps : List Bytes) (agg : Frag.Agg) (S : Nat → Prop) : Prop :=
  agg.parts.length = ps.length ∧ ∀ j d, agg.parts[j]? = some (some d) → ps[j]? = some d ∧ S j

theorem aggOK_fresh (ps : List Bytes) (S : Nat → Prop) : AggOK ps ⟨List.replicate ps.length none⟩ S := by
  refine ⟨by simp, ?_⟩
  intro j d h
  rw [List.getElem?_replicate] at h
  split at h <;> simp at h

theorem aggOK_mono {ps agg} {S T : Nat → Prop} (h : AggOK ps agg S) (hST : ∀ j, S j → T j) : AggOK ps agg T :=
  ⟨h.1, fun j d hj => ⟨(h.2 j d hj).1, hST j (h.2 j d hj).2⟩⟩

theorem aggOK_set {ps agg} {S : Nat → Prop} (h : AggOK ps agg S) {pi : Nat} {p : Bytes} (hp : ps[pi]? = some p) :
    AggOK ps ⟨agg.parts.set pi (some p)⟩ (fun j => S j ∨ j = pi) := by
  refine ⟨by simpa using h.1, ?_⟩
  intro j d hj
  simp only [List.getElem?_set] at hj
  by_cases e : pi = j
  · subst e
    rw [if_pos rfl] at hj
    split at hj
    · simp only [Option.some.injEq] at hj; subst hj; exact ⟨hp, Or.inr rfl⟩
    · cases hj
  · rw [if_neg e] at hj
    exact ⟨(h.2 j d hj).1, Or.inl (h.2 j d hj).2⟩

theorem aggOK_all {ps agg} {S : Nat → Prop} (h : AggOK ps agg S) (hall : agg.parts.all Option.isSome = true) :
    agg.parts.flatMap (·.getD []) = ps.flatten ∧ ∀ j, j < ps.length → S j := by
  rw [List.all_eq_true] at hall
  have hcell : ∀ j, j < ps.length → ∃ d, agg.parts[j]? = some (some d) := by
    intro j hj
    have hj' : j < agg.parts.length := by rw [h.1]; exact hj
    have hmem : agg.parts[j] ∈ agg.parts := List.getElem_mem hj'
    have := hall _ hmem
    obtain ⟨d, hd⟩ := Option.isSome_iff_exists.mp this
    exact ⟨d, by rw [List.getElem?_eq_getElem hj', hd]⟩
  have heq : agg.parts = ps.map some := by
    apply List.ext_getElem?
    intro j
    by_cases hj : j < ps.length
    · obtain ⟨d, hd⟩ := hcell j hj
      rw [hd, List.getElem?_map, (h.2 j d hd).1]; rfl
    · rw [List.getElem?_eq_none (by rw [h.1]; omega), List.getElem?_eq_none (by simp; omega)]
  refine ⟨?_, ?_⟩
  · rw [heq, List.flatMap_map]
    simp
  · intro j hj
    obtain ⟨d, hd⟩ := hcell j hj
    exact (h.2 j d hd).2

/-- `handleTell` on a fragment of a multi-part message whose aggregator (stored or fresh) has the right size -/
theorem frecv_multi (st : Frag.RState) (src id pi total : Nat) (p pkt : Bytes)
    (hparse : Frag.parse pkt = some (id, pi, total, p)) (ht : total ≠ 1) (hpi : pi < total)
    (hlen : ((st.get (src, id)).getD ⟨List.replicate total none⟩).parts.length = total) :
    Frag.recv st src pkt =
      (if (((st.get (src, id)).getD ⟨List.replicate total none⟩).parts.set pi (some p)).all Option.isSome
        then (st.erase (src, id), some ((((st.get (src, id)).getD ⟨List.replicate total none⟩).parts.set pi (some p)).flatMap (·.getD [])))
        else (st.put (src, id) ⟨((st.get (src, id)).getD ⟨List.replicate total none⟩).parts.set pi (some p)⟩, none)) := by
  unfold Frag.recv
  rw [hparse]
  simp only [ht, if_false]
  have : ¬ (((st.get (src, id)).getD ⟨List.replicate total none⟩).parts.length ≠ total ∨
      pi ≥ ((st.get (src, id)).getD ⟨List.replicate total none⟩).parts.length) := by
    rw [hlen]; omega
  rw [if_neg this]

/-! ### schedules -/

/-- one event -/
def fstep (msgs : List FMsg) (e : FEvent) (st : Frag.RState) : Frag.RState × Option (Nat × Bytes) :=
  match e with
  | .recv mi pi =>
    match msgs[mi]? with
    | none => (st, none)
    | some m =>
      match m.frags[pi]? with
      | none => (st, none)
      | some pkt => ((Frag.recv st m.src pkt).1, (Frag.recv st m.src pkt).2.map (fun p => (mi, p)))
  | .cleanup s i => (Frag.cleanup st (s, i), none)

theorem frun_cons (msgs : List FMsg) (e : FEvent) (evs : List FEvent) (st : Frag.RState) (out : List (Nat × Bytes)) :
    frun msgs (e :: evs) st out =
      frun msgs evs (fstep msgs e st).1 (match (fstep msgs e st).2 with | some d => d :: out | none => out) := by
  cases e with
  | cleanup s i => simp [frun, fstep]
  | recv mi pi =>
    simp only [frun, fstep]
    cases hm : msgs[mi]? with
    | none => simp
    | some m =>
      simp only
      cases hp : m.frags[pi]? with
      | none => simp
      | some pkt =>
        simp only
        cases (Frag.recv st m.src pkt).2 <;> simp

theorem frun_out (msgs : List FMsg) (evs : List FEvent) : ∀ (st : Frag.RState) (out : List (Nat × Bytes)),
    (frun msgs evs st out).2 = out.reverse ++ (frun msgs evs st []).2 := by
  induction evs with
  | nil => intro st out; simp [frun]
  | cons e evs ih =>
    intro st out
    rw [frun_cons, frun_cons msgs e evs st []]
    cases (fstep msgs e st).2 with
    | none => exact ih _ _
    | some d =>
      simp only
      rw [ih _ (d :: out), ih _ [d]]
      simp

theorem frun_cons_snd (msgs : List FMsg) (e : FEvent) (evs : List FEvent) (st : Frag.RState) :
    (frun msgs (e :: evs) st []).2 = (fstep msgs e st).2.toList ++ (frun msgs evs (fstep msgs e st).1 []).2 := by
  rw [frun_cons]
  cases (fstep msgs e st).2 with
  | none => simp
  | some d => simp only; rw [frun_out]; simp

/-- every stored aggregator belongs to a message of the list and holds only that message's chunks, each
    put there by an event in `S` -/
def FInv (innerMTU : Nat) (msgs : List FMsg) (S : FEvent → Prop) (st : Frag.RState) : Prop :=
  ∀ k agg, (k, agg) ∈ st → ∃ mi m, msgs[mi]? = some m ∧ (m.src, m.id) = k ∧
    AggOK (fps innerMTU m) agg (fun j => S (.recv mi j))

theorem FInv.mono {innerMTU msgs st} {S T : FEvent → Prop} (h : FInv innerMTU msgs S st) (hST : ∀ e, S e → T e) :
    FInv innerMTU msgs T st := by
  intro k agg hk
  obtain ⟨mi, m, h1, h2, h3⟩ := h k agg hk
  exact ⟨mi, m, h1, h2, aggOK_mono h3 (fun j => hST _)⟩

theorem FInv.erase {innerMTU msgs st} {S : FEvent → Prop} (h : FInv innerMTU msgs S st) (k : Nat × Nat) :
    FInv innerMTU msgs S (st.erase k) :=
  fun k' agg hk => h k' agg (fmem_erase hk)

/-- one event preserves the invariant, and whatever it delivers is the payload of the message named by the
    event, all of whose fragments have been seen -/
theorem fstep_inv (innerMTU cfgMTU : Nat) (msgs : List FMsg)
    (hg : ∀ m ∈ msgs, m.genuine innerMTU cfgMTU)
    (hk : msgs.Pairwise (fun a b => (a.src, a.id) ≠ (b.src, b.id)))
    (S : FEvent → Prop) (st : Frag.RState) (hinv : FInv innerMTU msgs S st) (e : FEvent) :
    FInv innerMTU msgs (fun x => S x ∨ x = e) (fstep msgs e st).1 ∧
    ∀ d, (fstep msgs e st).2 = some d → ∃ m, msgs[d.1]? = some m ∧ d.2 = m.payload ∧
      ∀ j, j < m.frags.length → S (.recv d.1 j) ∨ FEvent.recv d.1 j = e := by
  have hmono : FInv innerMTU msgs (fun x => S x ∨ x = e) st := hinv.mono (fun _ h => Or.inl h)
  cases e with
  | cleanup s i =>
    refine ⟨?_, by simp [fstep]⟩
    simp only [fstep, Frag.cleanup]
    exact hmono.erase _
  | recv mi pi =>
    simp only [fstep]
    cases hm : msgs[mi]? with
    | none => exact ⟨hmono, by simp⟩
    | some m =>
      simp only
      cases hp : m.frags[pi]? with
      | none => exact ⟨hmono, by simp⟩
      | some pkt =>
        simp only
        have hgm := hg m (List.mem_of_getElem? hm)
        rcases frag_cases innerMTU cfgMTU m hgm with ⟨pkt0, hfr, hparse⟩ | ⟨hlen, h2, h255, hflat, hpk⟩
        · -- single datagram: delivered directly
          rw [hfr] at hp
          have hpi : pi = 0 := by
            cases pi with
            | zero => rfl
            | succ n => simp at hp
          subst hpi
          simp only [List.getElem?_cons_zero, Option.some.injEq] at hp
          subst hp
          have hr : Frag.recv st m.src pkt0 = (st, some m.payload) := by
            unfold Frag.recv; rw [hparse]; simp
          rw [hr]
          refine ⟨hmono, ?_⟩
          intro d hd
          simp only [Option.map_some, Option.some.injEq] at hd
          subst hd
          refine ⟨m, hm, rfl, ?_⟩
          intro j hj
          rw [hfr] at hj
          simp only [List.length_singleton] at hj
          have : j = 0 := by omega
          subst this
          exact Or.inr rfl
        · obtain ⟨p, hpp, hparse⟩ := hpk pi pkt hp
          have hpi : pi < (fps innerMTU m).length := (List.getElem?_eq_some_iff.mp hpp).1
          -- the aggregator in use is good for `m`
          have hagg : AggOK (fps innerMTU m)
              ((st.get (m.src, m.id)).getD ⟨List.replicate (fps innerMTU m).length none⟩)
              (fun j => S (.recv mi j) ∨ FEvent.recv mi j = FEvent.recv mi pi) := by
            cases hget : st.get (m.src, m.id) with
            | none => exact aggOK_fresh _ _
            | some agg =>
              obtain ⟨mi', m', hm', hkey, hok⟩ := hmono _ _ (fmem_of_get hget)
              have := idx_unique (fun a : FMsg => (a.src, a.id)) hk hm' hm hkey
              subst this
              rw [hm] at hm'
              cases hm'
              exact hok
          have hset := aggOK_set hagg hpp
          rw [frecv_multi st m.src m.id pi _ p pkt hparse (by omega) hpi hagg.1]
          split
          · rename_i hall
            refine ⟨hmono.erase _, ?_⟩
            intro d hd
            simp only [Option.map_some, Option.some.injEq] at hd
            subst hd
            obtain ⟨hfl, hS⟩ := aggOK_all hset hall
            refine ⟨m, hm, by simp only; rw [hfl, hflat], ?_⟩
            intro j hj
            rcases hS j (by omega) with h | h
            · exact h
            · subst h; exact Or.inr rfl
          · refine ⟨?_, by simp⟩
            intro k agg hkagg
            rcases fmem_put hkagg with h | h
            · cases h
              refine ⟨mi, m, hm, rfl, aggOK_mono hset ?_⟩
              intro j hj
              rcases hj with h | h
              · exact h
              · subst h; exact Or.inr rfl
            · exact hmono k agg h

theorem frun_inv (innerMTU cfgMTU : Nat) (msgs : List FMsg)
    (hg : ∀ m ∈ msgs, m.genuine innerMTU cfgMTU)
    (hk : msgs.Pairwise (fun a b => (a.src, a.id) ≠ (b.src, b.id)))
    (evs : List FEvent) : ∀ (S : FEvent → Prop) (st : Frag.RState), FInv innerMTU msgs S st →
    ∀ d ∈ (frun msgs evs st []).2, ∃ m, msgs[d.1]? = some m ∧ d.2 = m.payload ∧
      ∀ j, j < m.frags.length → S (.recv d.1 j) ∨ FEvent.recv d.1 j ∈ evs := by
  induction evs with
  | nil => intro S st _ d hd; simp [frun] at hd
  | cons e evs ih =>
    intro S st hinv d hd
    rw [frun_cons_snd] at hd
    obtain ⟨hinv', hdel⟩ := fstep_inv innerMTU cfgMTU msgs hg hk S st hinv e
    rcases List.mem_append.mp hd with h | h
    · rw [Option.mem_toList] at h
      obtain ⟨m, h1, h2, h3⟩ := hdel d h
      refine ⟨m, h1, h2, ?_⟩
      intro j hj
      rcases h3 j hj with h | h
      · exact Or.inl h
      · exact Or.inr (by rw [h]; exact List.mem_cons_self)
    · obtain ⟨m, h1, h2, h3⟩ := ih _ _ hinv' d h
      refine ⟨m, h1, h2, ?_⟩
      intro j hj
      rcases h3 j hj with (h | h) | h
      · exact Or.inl h
      · exact Or.inr (by rw [h]; exact List.mem_cons_self)
      · exact Or.inr (List.mem_cons_of_mem _ h)

theorem FInv.nil (innerMTU : Nat) (msgs : List FMsg) : FInv innerMTU msgs (fun _ => False) [] := by
  intro k agg h; cases h

/-! ### completeness -/

theorem fstep_recv0 (m : FMsg) (i : Nat) (pkt : Bytes) (hp : m.frags[i]? = some pkt) (st : Frag.RState) :
    fstep [m] (.recv 0 i) st =
      ((Frag.recv st m.src pkt).1, (Frag.recv st m.src pkt).2.map (fun p => (0, p))) := by
  simp [fstep, hp]

theorem set_filled {α : Type} (parts : List (Option α)) (i : Nat) (p : α) (hi : i < parts.length) (j : Nat)
    (h : j = i ∨ ∃ d, parts[j]? = some (some d)) : ∃ d, (parts.set i (some p))[j]? = some (some d) := by
  rw [List.getElem?_set]
  by_cases e : i = j
  · subst e; rw [if_pos rfl, if_pos hi]; exact ⟨p, rfl⟩
  · rw [if_neg e]
    rcases h with h | h
    · exact absurd h.symm e
    · exact h

theorem fcomplete_aux (m : FMsg) (ps : List Bytes)
    (hlen : m.frags.length = ps.length) (h2 : 2 ≤ ps.length) (hflat : ps.flatten = m.payload)
    (hpk : ∀ pi pkt, m.frags[pi]? = some pkt →
      ∃ p, ps[pi]? = some p ∧ Frag.parse pkt = some (m.id, pi, ps.length, p)) :
    ∀ (order done : List Nat) (st : Frag.RState), order ≠ [] →
      (done ++ order).Perm (List.range ps.length) →
      AggOK ps ((st.get (m.src, m.id)).getD ⟨List.replicate ps.length none⟩) (· ∈ done) →
      (∀ j ∈ done, ∃ d, ((st.get (m.src, m.id)).getD ⟨List.replicate ps.length none⟩).parts[j]? = some (some d)) →
      (frun [m] (order.map (FEvent.recv 0)) st []).2 = [(0, m.payload)] := by
  intro order
  induction order with
  | nil => intro _ _ h; exact absurd rfl h
  | cons i rest ih =>
    intro done st _ hperm hok hfilled
    have hnodup : (done ++ i :: rest).Nodup := hperm.nodup_iff.mpr List.nodup_range
    have hmemr : ∀ j, j ∈ done ++ i :: rest ↔ j < ps.length := fun j => by rw [hperm.mem_iff, List.mem_range]
    have hi : i < ps.length := (hmemr i).mp (by simp)
    obtain ⟨pkt, hpkt⟩ : ∃ pkt, m.frags[i]? = some pkt := ⟨m.frags[i], List.getElem?_eq_getElem (by omega)⟩
    obtain ⟨p, hpp, hparse⟩ := hpk i pkt hpkt
    rw [List.map_cons, frun_cons_snd, fstep_recv0 m i pkt hpkt,
      frecv_multi st m.src m.id i _ p pkt hparse (by omega) hi hok.1]
    have hset := aggOK_set hok hpp
    generalize ((st.get (m.src, m.id)).getD ⟨List.replicate ps.length none⟩) = agg at *
    have hi' : i < agg.parts.length := by rw [hok.1]; exact hi
    cases rest with
    | nil =>
      have hall : (agg.parts.set i (some p)).all Option.isSome = true := by
        rw [List.all_eq_true]
        intro x hx
        obtain ⟨j, hjl, hj⟩ := List.mem_iff_getElem.mp hx
        have hjn : j < ps.length := by simpa [hok.1] using hjl
        have hjm := (hmemr j).mpr hjn
        obtain ⟨d, hd⟩ := set_filled agg.parts i p hi' j (by
          rcases List.mem_append.mp hjm with h | h
          · exact Or.inr (hfilled j h)
          · exact Or.inl (by simpa using h))
        rw [List.getElem?_eq_getElem hjl, hj] at hd
        cases hd; rfl
      rw [if_pos hall]
      obtain ⟨hfl, _⟩ := aggOK_all hset hall
      simp only at hfl
      simp [frun, hfl, hflat]
    | cons r rest' =>
      have hr : r < ps.length := (hmemr r).mp (by simp)
      have hnall : ¬ ((agg.parts.set i (some p)).all Option.isSome = true) := by
        intro hall
        obtain ⟨_, hS⟩ := aggOK_all hset hall
        have := hS r hr
        simp only [List.nodup_append, List.nodup_cons, List.mem_cons] at hnodup
        grind
      rw [if_neg hnall]
      simp only [Option.map_none, Option.toList_none, List.nil_append]
      apply ih (i :: done) _ (by simp)
      · exact (List.perm_middle.symm).trans hperm
      · rw [fget_put_self]
        exact aggOK_mono hset (fun j h => by
          rcases h with h | h
          · exact List.mem_cons_of_mem _ h
          · subst h; exact List.mem_cons_self)
      · rw [fget_put_self]
        intro j hj
        exact set_filled agg.parts i p hi' j (by
          rcases List.mem_cons.mp hj with h | h
          · exact Or.inl h
          · exact Or.inr (hfilled j h))

end P2PVerif.Reasm
