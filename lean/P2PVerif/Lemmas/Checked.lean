import P2PVerif.Model.Checked
import P2PVerif.Lemmas.Varint
import P2PVerif.Lemmas.Chunks
/-! Lemmas for C08: the checked (faulting) renderings of the packet-facing entry points never fault and agree
    with the total models. -/
namespace P2PVerif.Checked
open P2PVerif

/-- core has no `DecidableEq (Except ε α)`; the closing `example … := by decide` of C08 need it -/
instance instDecidableEqExcept {ε α} [DecidableEq ε] [DecidableEq α] : DecidableEq (Except ε α)
  | .ok a, .ok b => if h : a = b then isTrue (h ▸ rfl) else isFalse (fun e => h (Except.ok.inj e))
  | .error a, .error b => if h : a = b then isTrue (h ▸ rfl) else isFalse (fun e => h (Except.error.inj e))
  | .ok _, .error _ => isFalse (fun e => nomatch e)
  | .error _, .ok _ => isFalse (fun e => nomatch e)

/-! ## the decoder consumes between 1 and `length` bytes -/

theorem getAux_ok_bound : ∀ (bs : List Nat) (acc s i v n : Nat),
    Varint.getAux acc s i bs = .ok v n → i + 1 ≤ n ∧ n ≤ i + bs.length := by
  intro bs
  induction bs with
  | nil => intro acc s i v n h; simp [Varint.getAux] at h
  | cons b bs ih =>
    intro acc s i v n h
    unfold Varint.getAux at h
    split at h
    · cases h
    · split at h
      · split at h
        · cases h
        · injection h with _ hn
          subst hn
          simp
      · have := ih _ _ _ _ _ h
        simp only [List.length_cons]
        omega

theorem get_ok_bound {x : Bytes} {v n : Nat} (h : Varint.get x = .ok v n) : 1 ≤ n ∧ n ≤ x.length := by
  have := getAux_ok_bound x 0 0 0 v n h
  omega

/-! ## checked slices that succeed -/

theorem sliceFrom_nat (x : Bytes) (n : Nat) (h : n ≤ x.length) : sliceFrom x (n : Int) = .ok (x.drop n) := by
  unfold sliceFrom
  rw [if_neg (by omega)]
  simp

theorem sliceTo_nat (x : Bytes) (n : Nat) (h : n ≤ x.length) : sliceTo x (n : Int) = .ok (x.take n) := by
  unfold sliceTo
  rw [if_neg (by omega)]
  simp

theorem slice_nat (x : Bytes) (a b : Nat) (hab : a ≤ b) (hb : b ≤ x.length) :
    slice x (a : Int) (b : Int) = .ok ((x.take b).drop a) := by
  unfold slice
  rw [if_neg (by omega)]
  simp

theorem slice_ok (x : Bytes) (a b : Int) (ha : 0 ≤ a) (hab : a ≤ b) (hb : b ≤ x.length) :
    slice x a b = .ok ((x.take b.toNat).drop a.toNat) := by
  unfold slice
  rw [if_neg (by omega)]

theorem sliceTo_ok (x : Bytes) (b : Int) (ha : 0 ≤ b) (hb : b ≤ x.length) :
    sliceTo x b = .ok (x.take b.toNat) := by
  unfold sliceTo
  rw [if_neg (by omega)]

theorem sliceFrom_ok (x : Bytes) (a : Int) (ha : 0 ≤ a) (hb : a ≤ x.length) :
    sliceFrom x a = .ok (x.drop a.toNat) := by
  unfold sliceFrom
  rw [if_neg (by omega)]

/-! ## demultiplexers -/

theorem demux_str (x : Bytes) : Mux.demux .str x =
    (match Varint.get x with
     | .ok l n => if (x.drop n).length < l then .err else .ok (.s ((x.drop n).take l)) ((x.drop n).drop l)
     | _ => .err) := rfl

theorem demux_varint (x : Bytes) : Mux.demux .varint x =
    (match Varint.get x with
     | .ok v n => .ok (.n v) (x.drop n)
     | _ => .err) := rfl

theorem stringDemux_eq (x : Bytes) : stringDemux x = .ok (Mux.demux .str x) := by
  rw [demux_str]
  unfold stringDemux
  cases h : Varint.get x with
  | ok l n =>
    obtain ⟨_, h2⟩ := get_ok_bound h
    simp only [sliceFrom_nat x n h2, bind, Except.bind, pure, Except.pure]
    by_cases hl : (x.drop n).length < l
    · simp only [hl, if_true]
    · have hl' : l ≤ (x.drop n).length := by omega
      simp only [hl, if_false, sliceTo_nat _ l hl']
      by_cases hlt : l < (x.drop n).length
      · simp only [hlt, if_true, sliceFrom_nat _ l hl']
      · have : (x.drop n).drop l = [] := by
          apply List.drop_eq_nil_of_le; omega
        simp only [hlt, if_false, this]
  | short => rfl
  | overflow i => rfl

theorem varintDemux_eq (x : Bytes) : varintDemux x = .ok (Mux.demux .varint x) := by
  rw [demux_varint]
  unfold varintDemux
  cases h : Varint.get x with
  | ok v n =>
    obtain ⟨_, h2⟩ := get_ok_bound h
    simp only [sliceFrom_nat x n h2, bind, Except.bind, pure, Except.pure]
  | short => rfl
  | overflow i => rfl

theorem demux_no_fault (x : Bytes) :
    stringDemux x = .ok (Mux.demux .str x) ∧ varintDemux x = .ok (Mux.demux .varint x) :=
  ⟨stringDemux_eq x, varintDemux_eq x⟩

/-! ## fragswarm -/

theorem fragParse_eq (x : Bytes) : fragParse x = .ok (Frag.parse x) := by
  unfold fragParse Frag.parse
  have h0 : sliceFrom x 0 = .ok x := by
    have := sliceFrom_nat x 0 (Nat.zero_le _)
    simpa using this
  simp only [h0, bind, Except.bind]
  cases g0 : Varint.get x with
  | short => rfl
  | overflow i => rfl
  | ok f0 n0 =>
    obtain ⟨_, b0⟩ := get_ok_bound g0
    simp only [sliceFrom_nat x n0 b0]
    cases g1 : Varint.get (x.drop n0) with
    | short => rfl
    | overflow i => rfl
    | ok f1 n1 =>
      obtain ⟨_, b1⟩ := get_ok_bound g1
      simp only [List.length_drop] at b1
      have b01 : n0 + n1 ≤ x.length := by omega
      simp only [sliceFrom_nat x (n0 + n1) b01]
      cases g2 : Varint.get (x.drop (n0 + n1)) with
      | short => rfl
      | overflow i => rfl
      | ok f2 n2 =>
        obtain ⟨_, b2⟩ := get_ok_bound g2
        simp only [List.length_drop] at b2
        have b012 : n0 + n1 + n2 ≤ x.length := by omega
        by_cases hp : f1 % 256 ≥ f2 % 256
        · simp only [hp, if_true]; rfl
        · simp only [hp, if_false, sliceFrom_nat x (n0 + n1 + n2) b012]; rfl

theorem aggAddPart_ok (parts : List (Option Bytes)) (part total : Nat) (data : Bytes) :
    ∃ r, aggAddPart parts part total data = .ok r := by
  unfold aggAddPart
  by_cases h : parts.length ≠ total ∨ part ≥ parts.length
  · exact ⟨none, by rw [if_pos h]; rfl⟩
  · rw [if_neg h]
    have hs : setIdx parts (part : Int) (some data) = .ok (parts.set part (some data)) := by
      unfold setIdx
      rw [if_neg (by omega)]
      simp
    exact ⟨some (parts.set part (some data)), by rw [hs]; rfl⟩

theorem frag_no_fault (x : Bytes) (parts : List (Option Bytes)) (part total : Nat) (data : Bytes) :
    fragParse x = .ok (Frag.parse x) ∧ (∃ r, aggAddPart parts part total data = .ok r) :=
  ⟨fragParse_eq x, aggAddPart_ok parts part total data⟩

theorem frag_history_aux (hist : List (Nat × Bytes)) :
    ∀ (st : Frag.RState) (acc : List (Option Bytes)), ∃ st' outs,
      hist.foldl (fun (acc : Frag.RState × List (Option Bytes)) p =>
        let (s, o) := Frag.recv acc.1 p.1 p.2; (s, acc.2 ++ [o])) (st, acc) = (st', outs) ∧
      outs.length = acc.length + hist.length := by
  induction hist with
  | nil => intro st acc; exact ⟨st, acc, rfl, by simp⟩
  | cons p ps ih =>
    intro st acc
    simp only [List.foldl_cons]
    obtain ⟨st', outs, he, hl⟩ := ih (Frag.recv st p.1 p.2).1 (acc ++ [(Frag.recv st p.1 p.2).2])
    refine ⟨st', outs, he, ?_⟩
    rw [hl]; simp; omega

theorem frag_history_no_fault (hist : List (Nat × Bytes)) :
    ∀ st : Frag.RState, ∃ st' outs, hist.foldl (fun (acc : Frag.RState × List (Option Bytes)) p =>
        let (s, o) := Frag.recv acc.1 p.1 p.2; (s, acc.2 ++ [o])) (st, []) = (st', outs) ∧ outs.length = hist.length := by
  intro st
  obtain ⟨st', outs, he, hl⟩ := frag_history_aux hist st []
  exact ⟨st', outs, he, by simpa using hl⟩

/-! ## mbapp -/

theorem mbDecode_eq (pkt : Bytes) : mbDecode pkt = .ok (Mbapp.decode pkt) := by
  unfold mbDecode Mbapp.decode
  simp only [Mbapp.headerSize_eq]
  by_cases h : pkt.length < 24
  · simp only [h, if_true]; rfl
  · have h24 : 24 ≤ pkt.length := by omega
    have hl : (pkt.take 24).length = 24 := by simp; omega
    simp only [h, if_false, bind, Except.bind, sliceTo_nat pkt 24 h24, sliceFrom_nat pkt 24 h24]
    rw [slice_ok (pkt.take 24) 0 4 (by omega) (by omega) (by omega)]
    rw [slice_ok (pkt.take 24) 4 8 (by omega) (by omega) (by omega)]
    rw [slice_ok (pkt.take 24) 8 12 (by omega) (by omega) (by omega)]
    rw [slice_ok (pkt.take 24) 12 16 (by omega) (by omega) (by omega)]
    rw [slice_ok (pkt.take 24) 16 20 (by omega) (by omega) (by omega)]
    rw [slice_ok (pkt.take 24) 20 24 (by omega) (by omega) (by omega)]
    simp [pure, Except.pure, List.take_take, List.drop_take]

theorem colAddPart_eq (c : Mbapp.Col) (idx : Nat) (data : Bytes) (hc : c.bits.length = c.partCount) :
    colAddPart c idx data = .ok (c.addPart idx data) := by
  unfold colAddPart Mbapp.Col.addPart
  by_cases h1 : idx ≥ c.partCount
  · simp only [h1, if_true]; rfl
  · have h2 : ¬ idx ≥ c.bits.length := by omega
    simp only [h1, h2, if_false]
    by_cases h3 : c.bits.getD idx false = true
    · simp only [h3, if_true]; rfl
    · have h3' : c.bits.getD idx false = false := by simpa using h3
      simp only [h3', Bool.false_eq_true, if_false]
      generalize (if idx = c.partCount - 1 then (c.buf.length : Int) - (data.length : Int)
        else ((data.length * idx : Nat) : Int)) = offset
      by_cases hoff : offset < 0 ∨ offset ≥ (c.buf.length : Int)
      · simp only [hoff, if_true]; rfl
      · simp only [hoff, if_false]
        rw [sliceFrom_ok _ _ (by omega) (by omega)]
        rfl

theorem addPart_inv (c : Mbapp.Col) (idx : Nat) (data : Bytes) (hc : c.bits.length = c.partCount) :
    (c.addPart idx data).bits.length = (c.addPart idx data).partCount := by
  unfold Mbapp.Col.addPart
  by_cases h1 : idx ≥ c.partCount
  · simp only [h1, if_true]; exact hc
  · simp only [h1, if_false]
    by_cases h3 : c.bits.getD idx false = true
    · simp only [h3, if_true]; exact hc
    · have h3' : c.bits.getD idx false = false := by simpa using h3
      simp only [h3', Bool.false_eq_true, if_false]
      generalize (if idx = c.partCount - 1 then (c.buf.length : Int) - (data.length : Int)
        else ((data.length * idx : Nat) : Int)) = offset
      by_cases hoff : offset < 0 ∨ offset ≥ (c.buf.length : Int)
      · simp only [hoff, if_true]; exact hc
      · simp only [hoff, if_false, List.length_set]; exact hc

theorem mbapp_no_fault (pkt : Bytes) (c : Mbapp.Col) (idx : Nat) (data : Bytes) (hc : c.bits.length = c.partCount) :
    mbDecode pkt = .ok (Mbapp.decode pkt) ∧ colAddPart c idx data = .ok (c.addPart idx data) ∧
    (c.addPart idx data).bits.length = (c.addPart idx data).partCount :=
  ⟨mbDecode_eq pkt, colAddPart_eq c idx data hc, addPart_inv c idx data hc⟩

theorem mbapp_new_collector_ok (partCount totalSize : Nat) :
    (Mbapp.Col.new partCount totalSize).bits.length = partCount := by
  simp [Mbapp.Col.new]

/-! ## framing -/

theorem readFrameDst_ok (dstLen l : Nat) : ∃ r, readFrameDst dstLen l = .ok r := by
  unfold readFrameDst
  by_cases h : dstLen < l
  · exact ⟨none, by rw [if_pos h]; rfl⟩
  · rw [if_neg h, sliceTo_nat _ l (by simp; omega)]
    exact ⟨_, rfl⟩

theorem keParse_ok (x : Bytes) : ∃ r, keParse x = .ok r := by
  unfold keParse
  by_cases h : x.length < 4
  · exact ⟨none, by rw [if_pos h]; rfl⟩
  · rw [if_neg h, sliceTo_ok x 4 (by omega) (by omega), sliceFrom_ok x 4 (by omega) (by omega)]
    exact ⟨_, rfl⟩

theorem ke_tail (body : Bytes) (l : Int) (hl0 : 0 ≤ l) (_h : ¬ body.length < 2) :
    ∃ r, (if (body.length : Int) - 2 - l < 0 then (pure none : Except Fault (Option Bytes)) else do
            let data ← slice body ((body.length : Int) - 2 - l) ((body.length : Int) - 2)
            pure (some data)) = .ok r := by
  by_cases hs : (body.length : Int) - 2 - l < 0
  · exact ⟨none, by rw [if_pos hs]; rfl⟩
  · rw [if_neg hs, slice_ok body _ _ (by omega) (by omega) (by omega)]
    exact ⟨_, rfl⟩

theorem keInitHelloPayload_ok (body : Bytes) : ∃ r, keInitHelloPayload body = .ok r := by
  unfold keInitHelloPayload
  by_cases h : body.length < 2
  · exact ⟨none, by rw [if_pos h]; rfl⟩
  · rw [if_neg h, sliceFrom_ok body _ (by omega) (by omega)]
    simp only [bind, Except.bind]
    generalize body.drop ((body.length : Int) - 2).toNat = lb
    match lb with
    | [] => exact ke_tail body 0 (Int.le_refl 0) h
    | [_] => exact ke_tail body 0 (Int.le_refl 0) h
    | [a, b] => exact ke_tail body _ (Int.natCast_nonneg (a * 256 + b)) h
    | _ :: _ :: _ :: _ => exact ke_tail body 0 (Int.le_refl 0) h

theorem framing_no_fault (dstLen l : Nat) (x body : Bytes) :
    (∃ r, readFrameDst dstLen l = .ok r) ∧ (∃ r, keParse x = .ok r) ∧ (∃ r, keInitHelloPayload body = .ok r) :=
  ⟨readFrameDst_ok dstLen l, keParse_ok x, keInitHelloPayload_ok body⟩

/-! ## rejected inputs -/

theorem rejected_input_is_noop (st : Frag.RState) (src : Nat) (pkt : Bytes) (cfg : Nat) (mst : Mbapp.RState) :
    (Frag.parse pkt = none → Frag.recv st src pkt = (st, none)) ∧
    (Mbapp.decode pkt = none → Mbapp.recv cfg mst src pkt = (mst, none)) := by
  constructor
  · intro h; simp [Frag.recv, h]
  · intro h; simp [Mbapp.recv, h]

end P2PVerif.Checked
