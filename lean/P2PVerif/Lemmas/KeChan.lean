import P2PVerif.Lemmas.KeSessChan
/-! Invariants of the channel's slot bookkeeping and key checks (C05, C07). No assumption on incoming terms. -/
namespace P2PVerif.P2PKE
open P2PVerif

def Chan.getSlot (c : Chan) : Nat → Option Entry
  | 0 => c.prev | 1 => c.cur | _ => c.next

def Chan.setSlot (c : Chan) (slot : Nat) (e : Entry) : Chan :=
  match slot with | 0 => { c with prev := some e } | 1 => { c with cur := some e } | _ => { c with next := some e }

def Chan.finish (c : Chan) (se : Entry) (s' : Sess) (r : Res) (now : Nat) : Chan × Option (Option DRes) :=
  match r with
  | .app p =>
    let isCur : Bool := match c.cur with | some ce => ce.id == se.id && ce.sess.eph == s'.eph | none => false
    (if isCur then { c with lastReceived := now } else c, some (some { app := some p }))
  | .hs (some out) => (c, some (some { sent := some out }))
  | _ => (c, none)

theorem Chan.deliverSlot_eq (c : Chan) (slot : Nat) (w : Wire) (now : Nat) :
    c.deliverSlot slot w now =
    match c.getSlot slot with
    | none => (c, none)
    | some se =>
      if w.isInitHello ∧ se.id ≠ w then (c, none) else
      let d := se.sess.deliver w now
      let c1 := c.setSlot slot { se with sess := d.1 }
      if d.2 = .err then (c1, none) else
      let c2 := if !se.sess.isReady && d.1.isReady then c1.onReady now else (c1, true)
      if !c2.2 then (c2.1, some none) else Chan.finish c2.1 se d.1 d.2 now := by
  have key : ∀ (ent : Option Entry) (f : Entry → Chan),
      (match ent with
       | none => (c, none)
       | some se =>
         if w.isInitHello ∧ se.id ≠ w then (c, none) else
         let readyBefore := se.sess.isReady
         let (s', r) := se.sess.deliver w now
         let se' : Entry := { se with sess := s' }
         let c := f se'
         match r with
         | .err => (c, none)
         | _ =>
           let promoted := !readyBefore && s'.isReady
           let (c, ok) := if promoted then c.onReady now else (c, true)
           if !ok then (c, some none)
           else
             match r with
             | .app p =>
               let isCur : Bool := match c.cur with | some ce => ce.id == se.id && ce.sess.eph == s'.eph | none => false
               (if isCur then { c with lastReceived := now } else c, some (some { app := some p }))
             | .hs (some out) => (c, some (some { sent := some out }))
             | _ => (c, none)) =
      (match ent with
      | none => (c, none)
      | some se =>
        if w.isInitHello ∧ se.id ≠ w then (c, none) else
        let d := se.sess.deliver w now
        let c1 := f { se with sess := d.1 }
        if d.2 = .err then (c1, none) else
        let c2 := if !se.sess.isReady && d.1.isReady then c1.onReady now else (c1, true)
        if !c2.2 then (c2.1, some none) else Chan.finish c2.1 se d.1 d.2 now : Chan × Option (Option DRes)) := by
    intro ent f
    cases ent with
    | none => rfl
    | some se =>
      simp only []
      by_cases h : w.isInitHello = true ∧ se.id ≠ w
      · rw [if_pos h, if_pos h]
      rw [if_neg h, if_neg h]
      generalize se.sess.deliver w now = d
      obtain ⟨s', r⟩ := d
      cases r with
      | err => simp
      | drop => simp [Chan.finish]
      | app p => simp [Chan.finish]
      | hs o => cases o <;> simp [Chan.finish]
  rcases slot with _ | _ | n
  · exact key c.prev (fun e => { c with prev := some e })
  · exact key c.cur (fun e => { c with cur := some e })
  · exact key c.next (fun e => { c with next := some e })

/-! ## the channel invariant -/

structure CInv (c : Chan) : Prop where
  acc : ∀ k, c.remoteKey = some k → c.accept k = true
  cur : ∀ e, c.cur = some e → e.sess.isReady = true ∧ e.sess.rKey = c.remoteKey ∧ c.remoteKey.isSome = true
  prev : ∀ e, c.prev = some e → e.sess.isReady = true ∧ e.sess.rKey = c.remoteKey ∧ c.remoteKey.isSome = true
  next : ∀ e, c.next = some e → e.sess.isReady = false

/-- what never changes, and key continuity -/
structure Frame (c c' : Chan) : Prop where
  accept : c'.accept = c.accept
  kc : ∀ k, c.remoteKey = some k → c'.remoteKey = some k

theorem Frame.refl (c : Chan) : Frame c c := ⟨rfl, fun _ h => h⟩
theorem Frame.trans {a b c : Chan} (h1 : Frame a b) (h2 : Frame b c) : Frame a c :=
  ⟨h2.accept.trans h1.accept, fun k h => h2.kc k (h1.kc k h)⟩

/-- equal up to `lastReceived` and the timer flags -/
structure SameView (c c' : Chan) : Prop where
  accept : c'.accept = c.accept
  remoteKey : c'.remoteKey = c.remoteKey
  prev : c'.prev = c.prev
  cur : c'.cur = c.cur
  next : c'.next = c.next

theorem CInv.of_view {c c' : Chan} (h : CInv c) (v : SameView c c') : CInv c' := by
  constructor
  · rw [v.remoteKey, v.accept]; exact h.acc
  · rw [v.remoteKey, v.cur]; exact h.cur
  · rw [v.remoteKey, v.prev]; exact h.prev
  · rw [v.next]; exact h.next

theorem SameView.frame {c c' : Chan} (v : SameView c c') : Frame c c' :=
  ⟨v.accept, fun k h => by rw [v.remoteKey]; exact h⟩

theorem CInv.fresh (key : KeyId) (accept : KeyId → Bool) (ra ka ht : Nat) : CInv (Chan.fresh key accept ra ka ht) := by
  constructor <;> simp [Chan.fresh]

/-! ## onReady -/

theorem Chan.checkKey_some {c : Chan} {rk k : KeyId} (h : c.remoteKey = some rk) (hk : c.checkKey k = true) : rk = k := by
  simpa [Chan.checkKey, h] using hk

theorem Chan.checkKey_none {c : Chan} {k : KeyId} (h : c.remoteKey = none) (hk : c.checkKey k = true) :
    c.accept k = true := by
  simpa [Chan.checkKey, h] using hk

/-- promotion of a ready prospective session: the result satisfies the invariant; either nothing but `next`
    changed (refused), or the session became current, the old current one previous, and its key is the
    channel's remote key — the same as before if there was one. -/
theorem Chan.onReady_spec (c : Chan) (now : Nat)
    (hacc : ∀ k, c.remoteKey = some k → c.accept k = true)
    (hcur : ∀ e, c.cur = some e → e.sess.isReady = true ∧ e.sess.rKey = c.remoteKey ∧ c.remoteKey.isSome = true)
    (hprev : ∀ e, c.prev = some e → e.sess.isReady = true ∧ e.sess.rKey = c.remoteKey ∧ c.remoteKey.isSome = true)
    (hnext : ∀ e, c.next = some e → e.sess.isReady = true) :
    CInv (c.onReady now).1 ∧ Frame c (c.onReady now).1 ∧
    (((c.onReady now).2 = false ∧ (c.onReady now).1.remoteKey = c.remoteKey ∧ (c.onReady now).1.cur = c.cur ∧
        (c.onReady now).1.prev = c.prev) ∨
     (c.next = none ∧ (c.onReady now).1 = c) ∨
     (∃ se, c.next = some se ∧ (c.onReady now).2 = true ∧ (c.onReady now).1.cur = some se ∧
        (c.onReady now).1.prev = c.cur ∧ (c.remoteKey.isSome = true → se.sess.rKey = c.remoteKey))) := by
  unfold Chan.onReady
  cases hn : c.next with
  | none =>
    simp only []
    exact ⟨⟨hacc, hcur, hprev, by simp [hn]⟩, Frame.refl c, .inr (.inl (by simp))⟩
  | some se =>
    simp only []
    cases hk : se.sess.rKey with
    | none =>
      simp only []
      exact ⟨⟨hacc, hcur, hprev, by simp⟩, ⟨rfl, fun _ h => h⟩, .inl (by simp)⟩
    | some k =>
      simp only []
      by_cases hck : c.checkKey k = true
      · have h1 : (!c.checkKey k) = false := by simp [hck]
        rw [h1, if_neg (by simp)]
        have hrk : ∀ rk, c.remoteKey = some rk → rk = k := fun rk h => Chan.checkKey_some h hck
        refine ⟨⟨?_, ?_, ?_, by simp⟩, ⟨rfl, ?_⟩, .inr (.inr ⟨se, rfl, rfl, rfl, rfl, ?_⟩)⟩
        · intro k' hk'
          simp only [Option.some.injEq] at hk'
          subst hk'
          show c.accept k = true
          cases hr : c.remoteKey with
          | none => exact Chan.checkKey_none hr hck
          | some rk => have := hrk rk hr; subst this; exact hacc _ hr
        · intro e he
          simp only [Option.some.injEq] at he
          subst he
          exact ⟨hnext _ hn, hk, rfl⟩
        · intro e he
          simp only at he
          obtain ⟨h1, h2, h3⟩ := hcur e he
          refine ⟨h1, ?_, rfl⟩
          cases hr : c.remoteKey with
          | none => rw [hr] at h3; cases h3
          | some rk => have := hrk rk hr; subst this; rw [h2, hr]
        · intro k' hk'
          have := hrk k' hk'; subst this; rfl
        · intro hsome
          cases hr : c.remoteKey with
          | none => rw [hr] at hsome; cases hsome
          | some rk => have := hrk rk hr; subst this; rw [hk]
      · have h1 : (!c.checkKey k) = true := by simpa using hck
        rw [h1, if_pos rfl]
        exact ⟨⟨hacc, hcur, hprev, by simp⟩, ⟨rfl, fun _ h => h⟩, .inl (by simp)⟩

/-! ## deliverSlot -/

/-- the entry holds a session that returned `p` for `w` just now -/
def AppFrom (e : Entry) (w : Wire) (now : Nat) (p : Bytes) : Prop :=
  ∃ s0 : Sess, (s0.deliver w now).1 = e.sess ∧ (s0.deliver w now).2 = .app p

/-- the current session stays in place (possibly advanced), the remote key is untouched -/
def NoPromo (c c' : Chan) : Prop :=
  c'.remoteKey = c.remoteKey ∧ ∀ e, c.cur = some e → ∃ e', c'.cur = some e' ∧ e'.sess.eph = e.sess.eph

/-- a prospective session became current -/
def Promo (c c' : Chan) : Prop :=
  ∃ e', c'.cur = some e' ∧ c'.prev = c.cur ∧ (c.remoteKey.isSome = true → e'.sess.rKey = c.remoteKey)

theorem NoPromo.refl (c : Chan) : NoPromo c c := ⟨rfl, fun e h => ⟨e, h, rfl⟩⟩

theorem NoPromo.trans {a b c : Chan} (h1 : NoPromo a b) (h2 : NoPromo b c) : NoPromo a c := by
  refine ⟨h2.1.trans h1.1, fun e he => ?_⟩
  obtain ⟨e1, h3, h4⟩ := h1.2 e he
  obtain ⟨e2, h5, h6⟩ := h2.2 e1 h3
  exact ⟨e2, h5, h6.trans h4⟩

theorem NoPromo.of_view {c c' c'' : Chan} (h : NoPromo c c') (v : SameView c' c'') : NoPromo c c'' :=
  ⟨v.remoteKey.trans h.1, fun e he => by rw [v.cur]; exact h.2 e he⟩

theorem Promo.of_view {c c' c'' : Chan} (h : Promo c c') (v : SameView c' c'') : Promo c c'' := by
  obtain ⟨e', h1, h2, h3⟩ := h
  exact ⟨e', by rw [v.cur]; exact h1, by rw [v.prev]; exact h2, h3⟩

theorem Chan.finish_view (c : Chan) (se : Entry) (s' : Sess) (r : Res) (now : Nat) :
    SameView c (c.finish se s' r now).1 := by
  unfold Chan.finish
  split
  · simp only []
    split
    · split <;> exact ⟨rfl, rfl, rfl, rfl, rfl⟩
    · exact ⟨rfl, rfl, rfl, rfl, rfl⟩
  · exact ⟨rfl, rfl, rfl, rfl, rfl⟩
  · exact ⟨rfl, rfl, rfl, rfl, rfl⟩

theorem Chan.finish_app (c : Chan) (se : Entry) (s' : Sess) (r : Res) (now : Nat) (x : DRes) (p : Bytes)
    (h : (c.finish se s' r now).2 = some (some x)) (hp : x.app = some p) : r = .app p := by
  unfold Chan.finish at h
  split at h
  · simp only [Option.some.injEq] at h
    subst h
    simp only [Option.some.injEq] at hp
    subst hp; rfl
  · simp only [Option.some.injEq] at h
    subst h; cases hp
  · cases h

theorem Chan.setSlot_frame (c : Chan) (slot : Nat) (e : Entry) :
    (c.setSlot slot e).accept = c.accept ∧ (c.setSlot slot e).remoteKey = c.remoteKey := by
  rcases slot with _ | _ | n <;> exact ⟨rfl, rfl⟩

theorem Chan.setSlot_inv {c : Chan} {slot : Nat} {se : Entry} (s' : Sess) (hinv : CInv c)
    (hg : c.getSlot slot = some se) (h1 : s'.isReady = se.sess.isReady)
    (h2 : se.sess.isReady = true → s'.rKey = se.sess.rKey) : CInv (c.setSlot slot ⟨se.id, s'⟩) := by
  rcases slot with _ | _ | n
  · refine ⟨hinv.acc, hinv.cur, ?_, hinv.next⟩
    intro e he
    simp only [Chan.setSlot, Option.some.injEq] at he
    subst he
    have := hinv.prev se hg
    exact ⟨by rw [h1]; exact this.1, by rw [h2 this.1]; exact this.2.1, this.2.2⟩
  · refine ⟨hinv.acc, ?_, hinv.prev, hinv.next⟩
    intro e he
    simp only [Chan.setSlot, Option.some.injEq] at he
    subst he
    have := hinv.cur se hg
    exact ⟨by rw [h1]; exact this.1, by rw [h2 this.1]; exact this.2.1, this.2.2⟩
  · refine ⟨hinv.acc, hinv.cur, hinv.prev, ?_⟩
    intro e he
    simp only [Chan.setSlot, Option.some.injEq] at he
    subst he
    have := hinv.next se hg
    show s'.isReady = false
    rw [h1]; exact this

theorem Chan.setSlot_noPromo {c : Chan} {slot : Nat} {se : Entry} (s' : Sess)
    (hg : c.getSlot slot = some se) (h1 : s'.eph = se.sess.eph) : NoPromo c (c.setSlot slot ⟨se.id, s'⟩) := by
  rcases slot with _ | _ | n
  · exact NoPromo.refl c
  · refine ⟨rfl, fun e he => ⟨⟨se.id, s'⟩, rfl, ?_⟩⟩
    have : c.cur = some se := hg
    rw [this] at he; cases he; exact h1
  · exact NoPromo.refl c

theorem Chan.getSlot_ready {c : Chan} {slot : Nat} {se : Entry} (hinv : CInv c) (hg : c.getSlot slot = some se) :
    (se.sess.isReady = true → slot < 2) ∧ (se.sess.isReady = false → 2 ≤ slot ∧ c.next = some se) := by
  rcases slot with _ | _ | n
  · have := (hinv.prev se hg).1
    exact ⟨fun _ => (by omega), fun h => (by rw [h] at this; cases this)⟩
  · have := (hinv.cur se hg).1
    exact ⟨fun _ => (by omega), fun h => (by rw [h] at this; cases this)⟩
  · have := hinv.next se hg
    exact ⟨fun h => (by rw [h] at this; cases this), fun _ => ⟨by omega, hg⟩⟩

theorem Chan.setSlot_mem {c : Chan} {slot : Nat} (e : Entry) (h : slot < 2) :
    (c.setSlot slot e).cur = some e ∨ (c.setSlot slot e).prev = some e := by
  rcases slot with _ | _ | n
  · exact .inr rfl
  · exact .inl rfl
  · omega

theorem Chan.setSlot_next {c : Chan} {slot : Nat} (e : Entry) (h : 2 ≤ slot) :
    c.setSlot slot e = { c with next := some e } := by
  rcases slot with _ | _ | n
  · omega
  · omega
  · rfl

/-- everything the channel-level proofs need to know about one slot of the `Deliver` loop -/
structure SlotPost (c : Chan) (slot : Nat) (w : Wire) (now : Nat) (R : Chan × Option (Option DRes)) : Prop where
  inv : CInv R.1
  frame : Frame c R.1
  app : ∀ x p, R.2 = some (some x) → x.app = some p →
    ∃ e, (R.1.cur = some e ∨ R.1.prev = some e) ∧ AppFrom e w now p
  stay : slot < 2 → NoPromo c R.1
  move : NoPromo c R.1 ∨ Promo c R.1

theorem Chan.deliverSlot_post (c : Chan) (slot : Nat) (w : Wire) (now : Nat) (hinv : CInv c) :
    SlotPost c slot w now (c.deliverSlot slot w now) := by
  rw [Chan.deliverSlot_eq]
  have triv : SlotPost c slot w now (c, none) :=
    ⟨hinv, Frame.refl c, fun x p h => (by cases h), fun _ => NoPromo.refl c, .inl (NoPromo.refl c)⟩
  cases hg : c.getSlot slot with
  | none => exact triv
  | some se =>
    simp only []
    by_cases hskip : w.isInitHello = true ∧ se.id ≠ w
    · rw [if_pos hskip]; exact triv
    rw [if_neg hskip]
    have hfix := Sess.deliver_fixed se.sess w now
    have hrd := Chan.getSlot_ready hinv hg
    have hfr := Chan.setSlot_frame c slot ⟨se.id, (se.sess.deliver w now).1⟩
    have hfr' : Frame c (c.setSlot slot ⟨se.id, (se.sess.deliver w now).1⟩) :=
      ⟨hfr.1, fun k h => by rw [hfr.2]; exact h⟩
    have hnp := Chan.setSlot_noPromo (c := c) (slot := slot) (se := se) (se.sess.deliver w now).1 hg hfix.2.2.1
    by_cases herr : (se.sess.deliver w now).2 = .err
    · rw [if_pos herr]
      have h := Sess.deliver_err_ready se.sess w now herr
      exact ⟨Chan.setSlot_inv _ hinv hg h.1 (fun _ => h.2), hfr', fun x p h => (by cases h), fun _ => hnp, .inl hnp⟩
    rw [if_neg herr]
    by_cases hp : (!se.sess.isReady && (se.sess.deliver w now).1.isReady) = true
    · -- the session became ready: it is the prospective one
      rw [if_pos hp]
      simp only [Bool.and_eq_true, Bool.not_eq_eq_eq_not, Bool.not_true] at hp
      obtain ⟨hslot, hnext⟩ := hrd.2 hp.1
      rw [Chan.setSlot_next _ hslot]
      have hspec := Chan.onReady_spec { c with next := some ⟨se.id, (se.sess.deliver w now).1⟩ } now
        hinv.acc hinv.cur hinv.prev (fun e he => by
          simp only [Option.some.injEq] at he; subst he; exact hp.2)
      obtain ⟨hI, hF, hcase⟩ := hspec
      have hF' : Frame c (Chan.onReady { c with next := some ⟨se.id, (se.sess.deliver w now).1⟩ } now).1 :=
        ⟨hF.accept, hF.kc⟩
      rcases hcase with ⟨hfalse, hk, hc, hpv⟩ | ⟨hnone, -⟩ | ⟨se', hse', htrue, hc, hpv, hkey⟩
      · rw [hfalse]
        simp only [Bool.not_false, if_true]
        have hnp' : NoPromo c (Chan.onReady { c with next := some ⟨se.id, (se.sess.deliver w now).1⟩ } now).1 :=
          ⟨hk, fun e he => ⟨e, by rw [hc]; exact he, rfl⟩⟩
        exact ⟨hI, hF', fun x p h => (by cases h), fun _ => hnp', .inl hnp'⟩
      · cases hnone
      · rw [htrue]
        simp only [Bool.not_true, Bool.false_eq_true, if_false]
        simp only [Option.some.injEq] at hse'
        subst hse'
        have v := Chan.finish_view (Chan.onReady { c with next := some ⟨se.id, (se.sess.deliver w now).1⟩ } now).1
          se (se.sess.deliver w now).1 (se.sess.deliver w now).2 now
        have hpromo : Promo c (Chan.onReady { c with next := some ⟨se.id, (se.sess.deliver w now).1⟩ } now).1 :=
          ⟨_, hc, hpv, hkey⟩
        refine ⟨hI.of_view v, hF'.trans v.frame, ?_, fun h => (by omega), .inr (hpromo.of_view v)⟩
        intro x p hx hxp
        have := Chan.finish_app _ _ _ _ _ x p hx hxp
        exact ⟨_, .inl (by rw [v.cur]; exact hc), se.sess, rfl, this⟩
    · -- no promotion
      rw [if_neg hp]
      simp only [Bool.not_true, Bool.false_eq_true, if_false]
      have hsame : (se.sess.deliver w now).1.isReady = se.sess.isReady ∧
          (se.sess.isReady = true → (se.sess.deliver w now).1.rKey = se.sess.rKey) := by
        cases hr : se.sess.isReady with
        | true => exact ⟨(Sess.deliver_ready se.sess w now hr).1, fun _ => (Sess.deliver_ready se.sess w now hr).2⟩
        | false =>
          refine ⟨?_, fun h => by cases h⟩
          rw [hr] at hp
          simpa using hp
      have v := Chan.finish_view (c.setSlot slot ⟨se.id, (se.sess.deliver w now).1⟩)
          se (se.sess.deliver w now).1 (se.sess.deliver w now).2 now
      have hI := Chan.setSlot_inv _ hinv hg hsame.1 hsame.2
      refine ⟨hI.of_view v, hfr'.trans v.frame, ?_, fun _ => hnp.of_view v, .inl (hnp.of_view v)⟩
      intro x p hx hxp
      have happ := Chan.finish_app _ _ _ _ _ x p hx hxp
      have hready := (Sess.deliver_app se.sess w now p happ).2.2.1
      rw [hsame.1] at hready
      have hlt := hrd.1 hready
      refine ⟨⟨se.id, (se.sess.deliver w now).1⟩, ?_, se.sess, rfl, happ⟩
      rw [v.cur, v.prev]
      exact Chan.setSlot_mem _ hlt

/-! ## propose, newResp, Deliver -/

/-- only `next` and the timer flags differ -/
structure Same4 (c c' : Chan) : Prop where
  accept : c'.accept = c.accept
  remoteKey : c'.remoteKey = c.remoteKey
  prev : c'.prev = c.prev
  cur : c'.cur = c.cur

theorem Same4.refl (c : Chan) : Same4 c c := ⟨rfl, rfl, rfl, rfl⟩

theorem Same4.frame {c c' : Chan} (v : Same4 c c') : Frame c c' :=
  ⟨v.accept, fun k h => by rw [v.remoteKey]; exact h⟩

theorem CInv.of_same4 {c c' : Chan} (h : CInv c) (v : Same4 c c')
    (hn : ∀ e, c'.next = some e → e.sess.isReady = false) : CInv c' := by
  constructor
  · rw [v.remoteKey, v.accept]; exact h.acc
  · rw [v.remoteKey, v.cur]; exact h.cur
  · rw [v.remoteKey, v.prev]; exact h.prev
  · exact hn

theorem Chan.propose_spec (c : Chan) (lt : IdLt) (e : Entry) (hinv : CInv c) (he : e.sess.isReady = false) :
    CInv (c.propose lt e).1 ∧ Same4 c (c.propose lt e).1 := by
  unfold Chan.propose
  have hnew : CInv { c with next := some e, rekeyPending := c.rekeyPending || e.sess.isInit } :=
    hinv.of_same4 ⟨rfl, rfl, rfl, rfl⟩ (fun e' h => by simp only [Option.some.injEq] at h; subst h; exact he)
  split
  · simp only []
    split <;> (try split) <;> first | exact ⟨hinv, Same4.refl c⟩ | exact ⟨hnew, ⟨rfl, rfl, rfl, rfl⟩⟩
  · exact ⟨hnew, ⟨rfl, rfl, rfl, rfl⟩⟩

theorem Chan.newResp_spec (c : Chan) (lt : IdLt) (w : Wire) (eph now : Nat) (hinv : CInv c) :
    CInv (c.newResp lt w eph now).1 ∧ Same4 c (c.newResp lt w eph now).1 ∧ (c.newResp lt w eph now).2.app = none := by
  have triv : CInv (c, ({} : DRes)).1 ∧ Same4 c (c, ({} : DRes)).1 ∧ (c, ({} : DRes)).2.app = none :=
    ⟨hinv, Same4.refl c, rfl⟩
  unfold Chan.newResp
  split
  · split
    · exact triv
    split
    · exact triv
    split
    · exact triv
    split
    · exact triv
    simp only []
    split
    · rename_i eI h _ _ _ _ _ _ _ _
      have hnr := Sess.deliver_resp0 (Sess.new false c.key eph now c.rejectAfter) (.initHello eI h) now rfl rfl
      have := Chan.propose_spec c lt ⟨.initHello eI h, _⟩ hinv hnr
      exact ⟨this.1, this.2, rfl⟩
    · exact triv
  · exact triv

/-- `foreign_handshake_leaves_current`, relative to the state before -/
def FH (c c' : Chan) : Prop :=
  ∀ e, c.cur = some e →
    (∃ e', c'.cur = some e' ∧ e'.sess.eph = e.sess.eph) ∨
    (∃ e' p', c'.cur = some e' ∧ c'.prev = some p' ∧ p'.sess.eph = e.sess.eph ∧ e'.sess.rKey = c.remoteKey)

theorem FH.of_noPromo {c c' : Chan} (h : NoPromo c c') : FH c c' := fun e he => .inl (h.2 e he)

theorem FH.of_promo {c a b : Chan} (hinv : CInv c) (h1 : NoPromo c a) (h2 : Promo a b) : FH c b := by
  intro e he
  obtain ⟨e1, h3, h4⟩ := h1.2 e he
  obtain ⟨e', h5, h6, h7⟩ := h2
  refine .inr ⟨e', e1, h5, by rw [h6, h3], h4, ?_⟩
  rw [h1.1] at h7
  exact h7 (hinv.cur e he).2.2

theorem FH.of_same4 {c a b : Chan} (h : FH c a) (v : Same4 a b) : FH c b := by
  intro e he
  rw [v.cur, v.prev]; exact h e he

structure DeliverPost (c : Chan) (w : Wire) (now : Nat) (R : Chan × DRes) : Prop where
  inv : CInv R.1
  frame : Frame c R.1
  app : ∀ p, R.2.app = some p → ∃ e, (R.1.cur = some e ∨ R.1.prev = some e) ∧ AppFrom e w now p
  fh : FH c R.1

theorem Chan.deliver_post (c : Chan) (lt : IdLt) (w : Wire) (eph now : Nat) (hinv : CInv c) :
    DeliverPost c w now (c.deliver lt w eph now) := by
  unfold Chan.deliver
  have p0 := Chan.deliverSlot_post c 0 w now hinv
  rcases h0 : c.deliverSlot 0 w now with ⟨c0, _ | r0⟩
  · rw [h0] at p0
    simp only []
    have n0 := p0.stay (by omega)
    have p1 := Chan.deliverSlot_post c0 1 w now p0.inv
    rcases h1 : c0.deliverSlot 1 w now with ⟨c1, _ | r1⟩
    · rw [h1] at p1
      simp only []
      have n1 := n0.trans (p1.stay (by omega))
      have p2 := Chan.deliverSlot_post c1 2 w now p1.inv
      rcases h2 : c1.deliverSlot 2 w now with ⟨c2, _ | r2⟩
      · rw [h2] at p2
        have f2 := (p0.frame.trans p1.frame).trans p2.frame
        simp only []
        have hfh : FH c c2 := by
          rcases p2.move with h | h
          · exact FH.of_noPromo (n1.trans h)
          · exact FH.of_promo hinv n1 h
        have pn := Chan.newResp_spec c2 lt w eph now p2.inv
        refine ⟨pn.1, f2.trans pn.2.1.frame, fun p hp => ?_, hfh.of_same4 pn.2.1⟩
        rw [pn.2.2] at hp; cases hp
      · rw [h2] at p2
        have f2 := (p0.frame.trans p1.frame).trans p2.frame
        simp only []
        have hfh : FH c c2 := by
          rcases p2.move with h | h
          · exact FH.of_noPromo (n1.trans h)
          · exact FH.of_promo hinv n1 h
        refine ⟨p2.inv, f2, fun p hp => ?_, hfh⟩
        cases r2 with
        | none => cases hp
        | some x => exact p2.app x p rfl hp
    · rw [h1] at p1
      simp only []
      refine ⟨p1.inv, p0.frame.trans p1.frame, fun p hp => ?_, FH.of_noPromo (n0.trans (p1.stay (by omega)))⟩
      cases r1 with
      | none => cases hp
      | some x => exact p1.app x p rfl hp
  · rw [h0] at p0
    simp only []
    refine ⟨p0.inv, p0.frame, fun p hp => ?_, FH.of_noPromo (p0.stay (by omega))⟩
    cases r0 with
    | none => cases hp
    | some x => exact p0.app x p rfl hp

/-! ## expire, rekey, handshake timer, Send -/

def Chan.expire1 (c : Chan) (now : Nat) : Chan :=
  match c.prev with
  | some e => if e.sess.expiresAt < now then { c with prev := none } else c
  | none => c

def Chan.expire2 (c : Chan) (now : Nat) : Chan :=
  match c.cur with
  | some e => if e.sess.expiresAt < now ∨ now - c.lastReceived > c.keepAlive then { c with prev := c.cur, cur := none } else c
  | none => c

def Chan.expire3 (c : Chan) (now : Nat) : Chan :=
  match c.next with
  | some e => if e.sess.expiresAt < now ∨ now - (e.sess.expiresAt - c.rejectAfter) > c.hsTimeout then { c with next := none } else c
  | none => c

theorem Chan.expire_eq (c : Chan) (now : Nat) : c.expire now = ((c.expire1 now).expire2 now).expire3 now := rfl

/-- invariant kept; acceptance predicate and remote key untouched -/
structure Keeps (c c' : Chan) : Prop where
  inv : CInv c'
  accept : c'.accept = c.accept
  remoteKey : c'.remoteKey = c.remoteKey

theorem Keeps.frame {c c' : Chan} (h : Keeps c c') : Frame c c' :=
  ⟨h.accept, fun k hk => by rw [h.remoteKey]; exact hk⟩

theorem Keeps.trans {a b c : Chan} (h1 : Keeps a b) (h2 : Keeps b c) : Keeps a c :=
  ⟨h2.inv, h2.accept.trans h1.accept, h2.remoteKey.trans h1.remoteKey⟩

theorem Chan.expire1_keeps (c : Chan) (now : Nat) (h : CInv c) : Keeps c (c.expire1 now) := by
  unfold Chan.expire1
  split
  · split
    · exact ⟨⟨h.acc, h.cur, fun e he => (by cases he), h.next⟩, rfl, rfl⟩
    · exact ⟨h, rfl, rfl⟩
  · exact ⟨h, rfl, rfl⟩

theorem Chan.expire2_keeps (c : Chan) (now : Nat) (h : CInv c) : Keeps c (c.expire2 now) := by
  unfold Chan.expire2
  split
  · split
    · exact ⟨⟨h.acc, fun e he => (by cases he), h.cur, h.next⟩, rfl, rfl⟩
    · exact ⟨h, rfl, rfl⟩
  · exact ⟨h, rfl, rfl⟩

theorem Chan.expire3_keeps (c : Chan) (now : Nat) (h : CInv c) : Keeps c (c.expire3 now) := by
  unfold Chan.expire3
  split
  · split
    · exact ⟨⟨h.acc, h.cur, h.prev, fun e he => by cases he⟩, rfl, rfl⟩
    · exact ⟨h, rfl, rfl⟩
  · exact ⟨h, rfl, rfl⟩

theorem Chan.expire_keeps (c : Chan) (now : Nat) (h : CInv c) : Keeps c (c.expire now) := by
  rw [Chan.expire_eq]
  have h1 := Chan.expire1_keeps c now h
  have h2 := Chan.expire2_keeps _ now h1.inv
  have h3 := Chan.expire3_keeps _ now h2.inv
  exact (h1.trans h2).trans h3

theorem Chan.onRekey_keeps (c : Chan) (lt : IdLt) (eph now : Nat) (h : CInv c) :
    Keeps c (c.onRekey lt eph now) ∧ (c.onRekey lt eph now).cur = (c.expire now).cur := by
  have he := Chan.expire_keeps c now h
  have h0 : Keeps c { c.expire now with rekeyPending := false } :=
    ⟨he.inv.of_view ⟨rfl, rfl, rfl, rfl, rfl⟩, he.accept, he.remoteKey⟩
  unfold Chan.onRekey
  simp only []
  split
  · exact ⟨h0, rfl⟩
  · split
    · rename_i id hid
      have hp := Chan.propose_spec { c.expire now with rekeyPending := false } lt
        ⟨id, Sess.new true c.key eph now c.rejectAfter⟩ h0.inv (Sess.new_not_ready _ _ _ _ _)
      have hkey : (c.expire now).key = c.key := by
        rw [Chan.expire_eq]; unfold Chan.expire1 Chan.expire2 Chan.expire3
        repeat' split
        all_goals rfl
      have hra : (c.expire now).rejectAfter = c.rejectAfter := by
        rw [Chan.expire_eq]; unfold Chan.expire1 Chan.expire2 Chan.expire3
        repeat' split
        all_goals rfl
      simp only [hkey, hra] at hp ⊢
      refine ⟨⟨hp.1.of_view ⟨rfl, rfl, rfl, rfl, rfl⟩, ?_, ?_⟩, ?_⟩
      · exact hp.2.accept.trans h0.accept
      · exact hp.2.remoteKey.trans h0.remoteKey
      · exact hp.2.cur
    · exact ⟨h0, rfl⟩

theorem Chan.onHandshake_keeps (c : Chan) (h : CInv c) : Keeps c c.onHandshake.1 ∧ c.onHandshake.1.cur = c.cur :=
  ⟨⟨h.of_view ⟨rfl, rfl, rfl, rfl, rfl⟩, rfl, rfl⟩, rfl⟩

theorem Chan.send_keeps (c : Chan) (p : Bytes) (now : Nat) (h : CInv c) :
    Keeps c (c.send p now).1 ∧ (c.send p now).1.cur.isSome = (c.expire now).cur.isSome := by
  have he := Chan.expire_keeps c now h
  unfold Chan.send
  simp only []
  split
  · rename_i e hcur
    have hf := Sess.send_fixed e.sess p now
    have hc := he.inv.cur e hcur
    refine ⟨⟨⟨he.inv.acc, ?_, he.inv.prev, he.inv.next⟩, he.accept, he.remoteKey⟩, by simp [hcur]⟩
    intro e' he'
    simp only [Option.some.injEq] at he'
    subst he'
    exact ⟨by rw [hf.1]; exact hc.1, by rw [hf.2.1]; exact hc.2.1, hc.2.2⟩
  · rename_i hcur
    exact ⟨⟨he.inv.of_view ⟨rfl, rfl, rfl, rfl, rfl⟩, he.accept, he.remoteKey⟩, by simp [hcur]⟩

/-! ## steps and runs -/

theorem Chan.step_deliver (c : Chan) (lt : IdLt) (w : Wire) (eph now : Nat) :
    (c.step lt (.deliver w eph now)).1 = (c.deliver lt w eph now).1 ∧
    (c.step lt (.deliver w eph now)).2.app = (c.deliver lt w eph now).2.app := ⟨rfl, rfl⟩

theorem Chan.step_send_fst (c : Chan) (lt : IdLt) (p : Bytes) (now : Nat) :
    (c.step lt (.send p now)).1 = (c.send p now).1 := by
  show (match c.send p now with
      | (c', none) => (c', ({ blocked := true } : COut))
      | (c', some o) => (c', { sent := o.toList })).fst = _
  split <;> simp_all

theorem Chan.onHandshakeAt_fst (c : Chan) (now : Nat) : (c.onHandshakeAt now).1 = (c.expire now).onHandshake.1 := rfl

theorem Chan.onHandshakeAt_outs (c : Chan) (now : Nat) : (c.onHandshakeAt now).2.1 = (c.expire now).onHandshake.2 := rfl

theorem Chan.step_hs_fst (c : Chan) (lt : IdLt) (now : Nat) :
    (c.step lt (.hs now)).1 = (c.onHandshakeAt now).1 := rfl

theorem Chan.step_pend_fst (c : Chan) (lt : IdLt) (now : Nat) :
    (c.step lt (.pend now)).1 = (c.pend now).1 := rfl

theorem Chan.onHandshakeAt_keeps (c : Chan) (now : Nat) (h : CInv c) : Keeps c (c.onHandshakeAt now).1 := by
  rw [Chan.onHandshakeAt_fst]
  have he := Chan.expire_keeps c now h
  exact he.trans (Chan.onHandshake_keeps _ he.inv).1

theorem Chan.onHandshakeAt_cur (c : Chan) (now : Nat) : (c.onHandshakeAt now).1.cur = (c.expire now).cur := rfl

theorem Chan.pend_keeps (c : Chan) (now : Nat) (h : CInv c) :
    Keeps c (c.pend now).1 ∧ (c.pend now).1.cur = (c.expire now).cur := by
  have he := Chan.expire_keeps c now h
  unfold Chan.pend
  simp only []
  split
  · exact ⟨he, rfl⟩
  · exact ⟨⟨he.inv.of_view ⟨rfl, rfl, rfl, rfl, rfl⟩, he.accept, he.remoteKey⟩, rfl⟩

theorem Chan.unpend_keeps (c : Chan) (h : CInv c) : Keeps c c.unpend :=
  ⟨h.of_view ⟨rfl, rfl, rfl, rfl, rfl⟩, rfl, rfl⟩

theorem Chan.step_keeps (c : Chan) (lt : IdLt) (op : COp) (h : CInv c) :
    CInv (c.step lt op).1 ∧ Frame c (c.step lt op).1 := by
  cases op with
  | deliver w eph now =>
    have := Chan.deliver_post c lt w eph now h
    exact ⟨this.inv, this.frame⟩
  | send p now =>
    rw [Chan.step_send_fst]
    have := (Chan.send_keeps c p now h).1
    exact ⟨this.inv, this.frame⟩
  | rekey eph now =>
    have := (Chan.onRekey_keeps c lt eph now h).1
    exact ⟨this.inv, this.frame⟩
  | hs now =>
    rw [Chan.step_hs_fst]
    have := Chan.onHandshakeAt_keeps c now h
    exact ⟨this.inv, this.frame⟩
  | expire now =>
    have := Chan.expire_keeps c now h
    exact ⟨this.inv, this.frame⟩
  | pend now =>
    rw [Chan.step_pend_fst]
    have := (Chan.pend_keeps c now h).1
    exact ⟨this.inv, this.frame⟩
  | unpend =>
    have := Chan.unpend_keeps c h
    exact ⟨this.inv, this.frame⟩

theorem Chan.run_keeps (c : Chan) (lt : IdLt) (ops : List COp) (h : CInv c) :
    CInv (c.run lt ops) ∧ Frame c (c.run lt ops) := by
  induction ops generalizing c with
  | nil => exact ⟨h, Frame.refl c⟩
  | cons op ops ih =>
    have h1 := Chan.step_keeps c lt op h
    have h2 := ih (c.step lt op).1 h1.1
    exact ⟨h2.1, h1.2.trans h2.2⟩

theorem Chan.reach (key : KeyId) (accept : KeyId → Bool) (ra ka ht : Nat) (lt : IdLt) (ops : List COp) :
    CInv ((Chan.fresh key accept ra ka ht).run lt ops) ∧ ((Chan.fresh key accept ra ka ht).run lt ops).accept = accept := by
  have := Chan.run_keeps _ lt ops (CInv.fresh key accept ra ka ht)
  exact ⟨this.1, this.2.accept⟩

/-! ## C05 -/

theorem never_ready_with_rejected (key : KeyId) (accept : KeyId → Bool) (ra ka ht : Nat) (lt : IdLt) (ops : List COp) :
    let c := (Chan.fresh key accept ra ka ht).run lt ops
    (∀ k, c.remoteKey = some k → accept k = true) ∧
    (∀ e, c.cur = some e → e.sess.isReady = true ∧ e.sess.rKey = c.remoteKey ∧ c.remoteKey.isSome) ∧
    (∀ e, c.prev = some e → e.sess.rKey = c.remoteKey ∧ c.remoteKey.isSome) := by
  intro c
  obtain ⟨hinv, hacc⟩ := Chan.reach key accept ra ka ht lt ops
  refine ⟨fun k hk => ?_, hinv.cur, fun e he => (hinv.prev e he).2⟩
  have := hinv.acc k hk
  rw [hacc] at this; exact this

theorem never_delivers_from_rejected (key : KeyId) (accept : KeyId → Bool) (ra ka ht : Nat) (lt : IdLt) (ops : List COp)
    (w : Wire) (eph now : Nat) (p : Bytes) :
    let c := (Chan.fresh key accept ra ka ht).run lt ops
    (c.step lt (.deliver w eph now)).2.app = some p →
    ∃ k, (c.step lt (.deliver w eph now)).1.remoteKey = some k ∧ accept k = true ∧
      ∃ e, ((c.step lt (.deliver w eph now)).1.cur = some e ∨ (c.step lt (.deliver w eph now)).1.prev = some e) ∧
        e.sess.rKey = some k ∧ (e.sess.deliver w now).2 ≠ .err := by
  intro c happ
  obtain ⟨hinv, hacc⟩ := Chan.reach key accept ra ka ht lt ops
  have hp := Chan.deliver_post c lt w eph now hinv
  rw [(Chan.step_deliver c lt w eph now).2] at happ
  rw [(Chan.step_deliver c lt w eph now).1]
  obtain ⟨e, hmem, s0, hs0, hr0⟩ := hp.app p happ
  have hk : e.sess.rKey = (c.deliver lt w eph now).1.remoteKey ∧ (c.deliver lt w eph now).1.remoteKey.isSome = true := by
    rcases hmem with h | h
    · exact (hp.inv.cur e h).2
    · exact (hp.inv.prev e h).2
  cases hrk : (c.deliver lt w eph now).1.remoteKey with
  | none => rw [hrk] at hk; cases hk.2
  | some k =>
    refine ⟨k, rfl, ?_, e, hmem, by rw [hk.1, hrk], ?_⟩
    · have := hp.inv.acc k hrk
      rw [hp.frame.accept, hacc] at this; exact this
    · rw [← hs0]; exact (Sess.deliver_app s0 w now p hr0).2.2.2.2

theorem never_encrypts_to_rejected (key : KeyId) (accept : KeyId → Bool) (ra ka ht : Nat) (lt : IdLt) (ops : List COp)
    (p : Bytes) (now : Nat) (w : Wire) :
    let c := (Chan.fresh key accept ra ka ht).run lt ops
    (c.step lt (.send p now)).2.sent = [w] →
    ∃ e k, (c.expire now).cur = some e ∧ e.sess.rKey = some k ∧ accept k = true ∧ (e.sess.send p now).2 = some w := by
  intro c hsent
  obtain ⟨hinv, hacc⟩ := Chan.reach key accept ra ka ht lt ops
  have he := Chan.expire_keeps c now hinv
  unfold Chan.step Chan.send at hsent
  simp only [] at hsent
  cases hcur : (c.expire now).cur with
  | none => simp [hcur] at hsent
  | some e =>
    simp only [hcur] at hsent
    have hc := he.inv.cur e hcur
    cases hrk : (c.expire now).remoteKey with
    | none => rw [hrk] at hc; cases hc.2.2
    | some k =>
      refine ⟨e, k, rfl, by rw [hc.2.1, hrk], ?_, ?_⟩
      · have := he.inv.acc k hrk
        rw [he.accept, hacc] at this; exact this
      · cases ho : (e.sess.send p now).2 with
        | none => rw [ho] at hsent; simp at hsent
        | some w' => rw [ho] at hsent; simp at hsent; rw [hsent]

theorem key_continuity (key : KeyId) (accept : KeyId → Bool) (ra ka ht : Nat) (lt : IdLt) (ops : List COp) (op : COp) (k : KeyId) :
    let c := (Chan.fresh key accept ra ka ht).run lt ops
    c.remoteKey = some k → (c.step lt op).1.remoteKey = some k := by
  intro c hk
  obtain ⟨hinv, -⟩ := Chan.reach key accept ra ka ht lt ops
  exact (Chan.step_keeps c lt op hinv).2.kc k hk

theorem foreign_handshake_leaves_current (key : KeyId) (accept : KeyId → Bool) (ra ka ht : Nat) (lt : IdLt) (ops : List COp)
    (w : Wire) (eph now : Nat) (e : Entry) :
    let c := (Chan.fresh key accept ra ka ht).run lt ops
    c.cur = some e →
    let c' := (c.step lt (.deliver w eph now)).1
    (∃ e', c'.cur = some e' ∧ e'.sess.eph = e.sess.eph) ∨
    (∃ e' p', c'.cur = some e' ∧ c'.prev = some p' ∧ p'.sess.eph = e.sess.eph ∧ e'.sess.rKey = c.remoteKey) := by
  intro c hcur c'
  obtain ⟨hinv, -⟩ := Chan.reach key accept ra ka ht lt ops
  exact (Chan.deliver_post c lt w eph now hinv).fh e hcur

/-! ## C07: slot discipline, make-before-break, keep-alive -/

theorem slots_inv (key : KeyId) (accept : KeyId → Bool) (ra ka ht : Nat) (lt : IdLt) (ops : List COp) :
    let c := (Chan.fresh key accept ra ka ht).run lt ops
    (∀ e, c.prev = some e → e.sess.isReady = true) ∧ (∀ e, c.cur = some e → e.sess.isReady = true) ∧
    (∀ e, c.next = some e → e.sess.isReady = false) := by
  intro c
  obtain ⟨hinv, -⟩ := Chan.reach key accept ra ka ht lt ops
  exact ⟨fun e he => (hinv.prev e he).1, fun e he => (hinv.cur e he).1, hinv.next⟩

theorem make_before_break (key : KeyId) (accept : KeyId → Bool) (ra ka ht : Nat) (lt : IdLt) (ops : List COp) (op : COp) :
    let c := (Chan.fresh key accept ra ka ht).run lt ops
    c.cur.isSome →
    (match op with
     | .deliver .. | .unpend => True
     | .send _ now | .rekey _ now | .expire now | .hs now | .pend now => (c.expire now).cur.isSome) →
    (c.step lt op).1.cur.isSome := by
  intro c hcur hop
  obtain ⟨hinv, -⟩ := Chan.reach key accept ra ka ht lt ops
  cases op with
  | deliver w eph now =>
    cases hc : c.cur with
    | none => rw [hc] at hcur; cases hcur
    | some e =>
      rcases (Chan.deliver_post c lt w eph now hinv).fh e hc with ⟨e', h, -⟩ | ⟨e', p', h, -⟩
      · show ((c.deliver lt w eph now).1.cur.isSome : Prop); rw [h]; rfl
      · show ((c.deliver lt w eph now).1.cur.isSome : Prop); rw [h]; rfl
  | send p now =>
    rw [Chan.step_send_fst, (Chan.send_keeps c p now hinv).2]; exact hop
  | rekey eph now =>
    show ((c.onRekey lt eph now).cur.isSome : Prop)
    rw [(Chan.onRekey_keeps c lt eph now hinv).2]; exact hop
  | hs now =>
    rw [Chan.step_hs_fst, Chan.onHandshakeAt_cur]; exact hop
  | expire now => exact hop
  | pend now =>
    rw [Chan.step_pend_fst, (Chan.pend_keeps c now hinv).2]; exact hop
  | unpend => exact hcur

theorem Chan.expire_cur_keep (c : Chan) (e : Entry) (now : Nat) (hcur : c.cur = some e)
    (h1 : now ≤ e.sess.expiresAt) (h2 : now - c.lastReceived ≤ c.keepAlive) : (c.expire now).cur = some e := by
  rw [Chan.expire_eq]
  have e1 : (c.expire1 now).cur = c.cur ∧ (c.expire1 now).lastReceived = c.lastReceived ∧
      (c.expire1 now).keepAlive = c.keepAlive := by
    unfold Chan.expire1
    split
    · split <;> exact ⟨rfl, rfl, rfl⟩
    · exact ⟨rfl, rfl, rfl⟩
  have e2 : ((c.expire1 now).expire2 now).cur = some e := by
    unfold Chan.expire2
    rw [e1.1, hcur]
    simp only []
    rw [e1.2.1, e1.2.2, if_neg (by omega)]
    rw [e1.1, hcur]
  have e3 : ∀ c' : Chan, (c'.expire3 now).cur = c'.cur := by
    intro c'
    unfold Chan.expire3
    split
    · split <;> rfl
    · rfl
  rw [e3, e2]

theorem keepalive_sound (key : KeyId) (accept : KeyId → Bool) (ra ka ht : Nat) (lt : IdLt) (ops : List COp) :
    let c := (Chan.fresh key accept ra ka ht).run lt ops
    (∀ e w now p, c.cur = some e → (e.sess.deliver w now).2 = .app p →
        (c.deliverSlot 1 w now).1.lastReceived = now ∧ (c.deliverSlot 1 w now).2 = some (some { app := some p })) ∧
    (∀ e now, c.cur = some e → now ≤ e.sess.expiresAt → now - c.lastReceived ≤ c.keepAlive → (c.expire now).cur = some e) := by
  intro c
  obtain ⟨hinv, -⟩ := Chan.reach key accept ra ka ht lt ops
  refine ⟨?_, fun e now => Chan.expire_cur_keep c e now⟩
  intro e w now p hcur happ
  have ha := Sess.deliver_app e.sess w now p happ
  have hready := (hinv.cur e hcur).1
  rw [Chan.deliverSlot_eq]
  have hg : c.getSlot 1 = some e := hcur
  rw [hg]
  simp only []
  rw [if_neg (by rw [ha.1]; simp), if_neg (by rw [happ]; simp)]
  simp only [hready, Bool.not_true, Bool.false_and, Bool.false_eq_true, if_false]
  rw [happ]
  simp [Chan.finish, Chan.setSlot]

/-! ## C07: simultaneous initiation -/

def helloOf (k : KeyId) (t : Nat) : Hello := ⟨k, t, .ts k t⟩

theorem maxNonce_eq : maxNonce = 4294967294 := rfl

theorem Sess.expired_false (s : Sess) (now : Nat) (h1 : now ≤ s.expiresAt) (h2 : s.nonce < 4294967294) :
    s.expired now = false := by
  simp [Sess.expired, maxNonce_eq]; omega

/-- responder that has read the InitHello `(e, h)` -/
def respS1 (key : KeyId) (eph exp e : Nat) (h : Hello) : Sess :=
  { isInit := false, key, eph, hs := 1, expiresAt := exp, hello := some h, rEph := some e,
    rKey := some h.key, rSig := some (.cb1 key e h), helloTime := h.t }

/-- a fresh responder reads a well-signed InitHello -/
theorem Sess.new_resp_deliver_hello (key : KeyId) (eph now ra e : Nat) (k : KeyId) (t : Nat) :
    (Sess.new false key eph now ra).deliver (.initHello e (helloOf k t)) now =
    (respS1 key eph (now + ra) e (helloOf k t),
     .hs (some (.respHello eph e (helloOf k t) key (.cb1 key e (helloOf k t))))) := by
  have hx : (Sess.new false key eph now ra).expired now = false :=
    Sess.expired_false _ _ (by simp [Sess.new]) (by simp [Sess.new])
  unfold Sess.deliver
  rw [hx]
  simp [Sess.new, Wire.counter, Sess.readHandshake, helloOf, Sess.handshake, respS1]

/-- no session in the slot was created from `w` -/
def NoId (ent : Option Entry) (w : Wire) : Prop := ∀ se, ent = some se → se.id ≠ w

theorem NoId.none (w : Wire) : NoId none w := fun _ h => by cases h

theorem NoId.any {ent : Option Entry} {w : Wire} (h : NoId ent w) : ent.any (·.id = w) = false := by
  cases ent with
  | none => rfl
  | some se => simpa using h se rfl

theorem Chan.deliverSlot_skip (c : Chan) (slot : Nat) (w : Wire) (now : Nat) (hw : w.isInitHello = true)
    (h : NoId (c.getSlot slot) w) : c.deliverSlot slot w now = (c, none) := by
  rw [Chan.deliverSlot_eq]
  cases hg : c.getSlot slot with
  | none => rfl
  | some se =>
    simp only []
    rw [if_pos ⟨hw, h se hg⟩]

/-- an InitHello that matches no session: a responder is created and proposed -/
theorem Chan.deliver_hello_new (c : Chan) (lt : IdLt) (e : Nat) (k : KeyId) (t eph now : Nat)
    (h0 : NoId c.prev (.initHello e (helloOf k t))) (h1 : NoId c.cur (.initHello e (helloOf k t)))
    (h2 : NoId c.next (.initHello e (helloOf k t))) (hts : c.remoteTimestamp ≤ t) (hck : c.checkKey k = true) :
    c.deliver lt (.initHello e (helloOf k t)) eph now =
    ((c.propose lt ⟨.initHello e (helloOf k t), respS1 c.key eph (now + c.rejectAfter) e (helloOf k t)⟩).1,
     { sent := (c.propose lt ⟨.initHello e (helloOf k t), respS1 c.key eph (now + c.rejectAfter) e (helloOf k t)⟩).2.handshake }) := by
  unfold Chan.deliver
  rw [Chan.deliverSlot_skip c 0 _ now rfl h0]
  simp only []
  rw [Chan.deliverSlot_skip c 1 _ now rfl h1]
  simp only []
  rw [Chan.deliverSlot_skip c 2 _ now rfl h2]
  simp only []
  unfold Chan.newResp
  simp only [h0.any, h1.any, h2.any, Bool.or_self, Bool.false_eq_true, if_false]
  have ht : (helloOf k t).t = t := rfl
  rw [if_neg (by rw [ht]; omega)]
  have hk : (helloOf k t).key = k := rfl
  rw [if_neg (by simp [helloOf]), hk, hck]
  simp only [Bool.not_true, Bool.false_eq_true, if_false]
  rw [Sess.new_resp_deliver_hello]

theorem Chan.onRekey_fresh (key : KeyId) (accept : KeyId → Bool) (ra ka ht : Nat) (lt : IdLt) (eph t : Nat) :
    (Chan.fresh key accept ra ka ht).onRekey lt eph t =
    { key, accept, rejectAfter := ra, keepAlive := ka, hsTimeout := ht,
      next := some ⟨.initHello eph (helloOf key t), Sess.new true key eph t ra⟩,
      rekeyPending := true, hsPending := true } := rfl

/-- both sides hold their own initiator session and receive the other's InitHello -/
theorem tie_side (k k' : KeyId) (ra ka ht : Nat) (lt : IdLt) (t t' eph eph' e now : Nat) (hne : eph ≠ eph') :
    (((Chan.fresh k (fun _ => true) ra ka ht).onRekey lt eph t).deliver lt
      (.initHello eph' (helloOf k' t')) e now).1.next.map (·.id) =
    some (if lt (.initHello eph (helloOf k t)) (.initHello eph' (helloOf k' t')) = true
      then .initHello eph (helloOf k t) else .initHello eph' (helloOf k' t')) := by
  rw [Chan.onRekey_fresh, Chan.deliver_hello_new _ lt eph' k' t' e now (NoId.none _) (NoId.none _)
    (fun se h => by
      simp only [Option.some.injEq] at h; subst h
      simp only [ne_eq, Wire.initHello.injEq, not_and]
      intro h; exact absurd h hne)
    (Nat.zero_le _) rfl]
  simp only [Chan.propose, Sess.new, respS1]
  simp
  split <;> simp_all

theorem tie_break_converges (kA kB : KeyId) (ra ka ht : Nat) (lt : IdLt) (tA tB ephA ephB eA' eB' now : Nat)
    (hlt : ∀ a b, a ≠ b → (lt a b = true ↔ lt b a = false)) (hne : ephA ≠ ephB) :
    let A := (Chan.fresh kA (fun _ => true) ra ka ht).onRekey lt ephA tA
    let B := (Chan.fresh kB (fun _ => true) ra ka ht).onRekey lt ephB tB
    ∀ a b, A.next.map (·.id) = some a → B.next.map (·.id) = some b →
      let A' := (A.deliver lt b eA' now).1
      let B' := (B.deliver lt a eB' now).1
      A'.next.map (·.id) = B'.next.map (·.id) ∧ (A'.next.map (·.id) = some a ∨ A'.next.map (·.id) = some b) := by
  intro A B a b ha hb
  have ha' : a = .initHello ephA (helloOf kA tA) := by
    have : A.next.map (·.id) = some (.initHello ephA (helloOf kA tA)) := rfl
    rw [this] at ha; exact (Option.some.inj ha).symm
  have hb' : b = .initHello ephB (helloOf kB tB) := by
    have : B.next.map (·.id) = some (.initHello ephB (helloOf kB tB)) := rfl
    rw [this] at hb; exact (Option.some.inj hb).symm
  subst ha' hb'
  intro A' B'
  have hA := tie_side kA kB ra ka ht lt tA tB ephA ephB eA' now hne
  have hB := tie_side kB kA ra ka ht lt tB tA ephB ephA eB' now (Ne.symm hne)
  show (A.deliver lt _ eA' now).1.next.map (·.id) = (B.deliver lt _ eB' now).1.next.map (·.id) ∧ _
  show _ ∧ ((A.deliver lt _ eA' now).1.next.map (·.id) = _ ∨ (A.deliver lt _ eA' now).1.next.map (·.id) = _)
  rw [hA, hB]
  have hab : Wire.initHello ephA (helloOf kA tA) ≠ Wire.initHello ephB (helloOf kB tB) := by
    simp only [ne_eq, Wire.initHello.injEq, not_and]
    intro h; exact absurd h hne
  have := hlt _ _ hab
  cases h1 : lt (Wire.initHello ephA (helloOf kA tA)) (Wire.initHello ephB (helloOf kB tB)) <;>
  cases h2 : lt (Wire.initHello ephB (helloOf kB tB)) (Wire.initHello ephA (helloOf kA tA)) <;>
  simp_all

end P2PVerif.P2PKE
