import P2PVerif.Lemmas.KeReach
/-! The C02 / C03 property statements, derived from the world invariant (`reach_winv`).
    `P2PKE.gates` is in `Lemmas/KeSess.lean`. -/
namespace P2PVerif.P2PKE
open P2PVerif

theorem responder_ready_authentic (hk : KeyId → Bool) (W : World) (hr : Reach hk W) (i : Nat) (s : Sess)
    (hs : W.sess[i]? = some s) (hresp : s.isInit = false) (h3 : 3 ≤ s.hs) (k : KeyId) (hkey : s.rKey = some k)
    (hon : hk k = true) :
    ∃ j sI, W.sess[j]? = some sI ∧ sI.isInit = true ∧ sI.key = k ∧ s.rEph = some (2 * j) ∧
      sI.rEph = some (2 * i) ∧ sI.hello = s.hello ∧ 2 ≤ sI.hs ∧ sI.rKey = some s.key :=
  (reach_winv hr).core.rauth i s k hs hresp h3 hkey hon

theorem initiator_ready_authentic (hk : KeyId → Bool) (W : World) (hr : Reach hk W) (i : Nat) (s : Sess)
    (hs : W.sess[i]? = some s) (hinit : s.isInit = true) (h2 : 2 ≤ s.hs) (k : KeyId) (hkey : s.rKey = some k)
    (hon : hk k = true) :
    ∃ j sR, W.sess[j]? = some sR ∧ sR.isInit = false ∧ sR.key = k ∧ s.rEph = some (2 * j) ∧
      sR.rEph = some (2 * i) ∧ sR.hello = s.hello ∧ 1 ≤ sR.hs ∧ sR.rKey = some s.key :=
  (reach_winv hr).core.iauth i s k hs hinit h2 hkey hon

theorem no_victim_key (hk : KeyId → Bool) (W : World) (hr : Reach hk W) (k : KeyId) (hon : hk k = true)
    (hnone : ∀ s ∈ W.sess, s.key ≠ k) :
    ∀ s ∈ W.sess, (s.canSend = true ∨ s.canReceive = true) → s.rKey ≠ some k := by
  intro s hmem hcan hkey
  obtain ⟨i, hs⟩ := List.getElem?_of_mem hmem
  have hsi := (reach_winv hr).core.sinv i s hs
  have h2 : 2 ≤ s.hs := by
    rcases hcan with h | h
    · exact canSend_hs h
    · exact canReceive_hs.mp h
  cases hini : s.isInit with
  | true =>
    obtain ⟨j, sR, hj, _, hk', _⟩ := initiator_ready_authentic hk W hr i s hs hini h2 k hkey hon
    exact hnone sR (List.mem_of_getElem? hj) hk'
  | false =>
    have := hsi.rhs hini
    obtain ⟨j, sI, hj, _, hk', _⟩ := responder_ready_authentic hk W hr i s hs hini (by omega) k hkey hon
    exact hnone sI (List.mem_of_getElem? hj) hk'

theorem session_authentic (hk : KeyId → Bool) (W : World) (hr : Reach hk W) (i : Nat) (w : Wire) (p : Bytes)
    (hd : (i, w, p) ∈ W.apps) (s : Sess) (hs : W.sess[i]? = some s) (k : KeyId) (hkey : s.rKey = some k)
    (hon : hk k = true) :
    ∃ j sP, (j, w, p) ∈ W.sends ∧ W.sess[j]? = some sP ∧ sP.key = k ∧ sP.isInit = !s.isInit ∧
      s.rEph = some (2 * j) ∧ sP.rEph = some (2 * i) := by
  have hW := reach_winv hr
  obtain ⟨s0, c, hs0, hcr, hw, hsrc⟩ := hW.core.apps _ hd
  simp only at hs0 hw hsrc
  rw [hs] at hs0; cases hs0
  have hsi := hW.core.sinv i s hs
  have h2 : 2 ≤ s.hs := canReceive_hs.mp hcr
  cases hini : s.isInit with
  | true =>
    obtain ⟨j, sR, hj, b1, b2, b3, b4, b5, b6, b7⟩ := initiator_ready_authentic hk W hr i s hs hini h2 k hkey hon
    have heI : s.eI = 2 * i := by simp [Sess.eI, hini, hsi.eph]
    have heR : s.eR = 2 * j := by simp [Sess.eR, hini, b3]
    have hdir : s.inDir = .r2i := by simp [Sess.inDir, hini]
    have hwire : w ∈ W.wire := by
      rcases hsrc with h | h | h
      · exact h
      · rw [heI, advEph_even] at h; cases h
      · rw [heR, advEph_even] at h; cases h
    have hb := hW.core.wire w hwire
    rw [hw] at hb
    obtain ⟨j', s', hj', hm, c1, c2, c3, c4, c5⟩ := hb
    have hr' : s'.isInit = false := by
      rw [hdir] at c5
      cases h' : s'.isInit
      · rfl
      · simp [Sess.outDir, h'] at c5
    have : j' = j := by
      have e := (hW.core.sinv j' s' hj').eph
      rw [heR] at c3
      have : s'.eR = 2 * j' := by simp [Sess.eR, hr', e]
      have h3 : (2 * j' : Nat) = 2 * j := this.symm.trans c3.symm
      omega
    subst this
    rw [hj] at hj'; cases hj'
    refine ⟨j', sR, by rw [hw]; exact hm, hj, b2, by simp [b1], b3, b4⟩
  | false =>
    have := hsi.rhs hini
    obtain ⟨j, sI, hj, b1, b2, b3, b4, b5, b6, b7⟩ :=
      responder_ready_authentic hk W hr i s hs hini (by omega) k hkey hon
    have heI : s.eI = 2 * j := by simp [Sess.eI, hini, b3]
    have heR : s.eR = 2 * i := by simp [Sess.eR, hini, hsi.eph]
    have hdir : s.inDir = .i2r := by simp [Sess.inDir, hini]
    have hwire : w ∈ W.wire := by
      rcases hsrc with h | h | h
      · exact h
      · rw [heI, advEph_even] at h; cases h
      · rw [heR, advEph_even] at h; cases h
    have hb := hW.core.wire w hwire
    rw [hw] at hb
    obtain ⟨j', s', hj', hm, c1, c2, c3, c4, c5⟩ := hb
    have hr' : s'.isInit = true := by
      rw [hdir] at c5
      cases h' : s'.isInit
      · simp [Sess.outDir, h'] at c5
      · rfl
    have : j' = j := by
      have e := (hW.core.sinv j' s' hj').eph
      rw [heI] at c2
      have : s'.eI = 2 * j' := by simp [Sess.eI, hr', e]
      have h3 : (2 * j' : Nat) = 2 * j := this.symm.trans c2.symm
      omega
    subst this
    rw [hj] at hj'; cases hj'
    refine ⟨j', sI, by rw [hw]; exact hm, hj, b2, by simp [b1], b3, b4⟩

theorem at_most_once (hk : KeyId → Bool) (W : World) (hr : Reach hk W) :
    (W.apps.map (fun a => (a.1, a.2.1))).Nodup ∧
    ∀ i i' w p p', (i, w, p) ∈ W.apps → (i', w, p') ∈ W.apps → i = i' ∧ p = p' := by
  have hW := reach_winv hr
  refine ⟨hW.logs.appsNodup, ?_⟩
  intro i i' w p p' h1 h2
  obtain ⟨s, c, hs, _, hw, _⟩ := hW.core.apps _ h1
  obtain ⟨s', c', hs', _, hw', _⟩ := hW.core.apps _ h2
  simp only at hs hw hs' hw'
  rw [hw] at hw'
  simp only [Wire.data.injEq] at hw'
  obtain ⟨e1, e2, _, e4, _, e6⟩ := hw'
  refine ⟨?_, e6⟩
  have he := (hW.core.sinv i s hs).eph
  have he' := (hW.core.sinv i' s' hs').eph
  have h2i : (2 * i : Nat) = 2 * i' := by
    cases hi : s.isInit <;> cases hi' : s'.isInit <;> simp [Sess.inDir, hi, hi'] at e4
    · have a : s.eR = 2 * i := by simp [Sess.eR, hi, he]
      have b : s'.eR = 2 * i' := by simp [Sess.eR, hi', he']
      exact a.symm.trans (e2.trans b)
    · have a : s.eI = 2 * i := by simp [Sess.eI, hi, he]
      have b : s'.eI = 2 * i' := by simp [Sess.eI, hi', he']
      exact a.symm.trans (e1.trans b)
  omega

theorem nonce_unique (hk : KeyId → Bool) (W : World) (hr : Reach hk W) :
    (W.sends.map (fun a => (a.1, a.2.1.counter))).Nodup ∧
    ∀ a ∈ W.sends, noncePostHandshake ≤ a.2.1.counter ∧ a.2.1.counter < maxNonce := by
  have hW := reach_winv hr
  refine ⟨hW.logs.sendsNodup, ?_⟩
  intro a ha
  obtain ⟨s, _, _, h1, _, h2⟩ := hW.core.sends a ha
  exact ⟨h1, h2⟩

theorem no_plaintext_on_wire (hk : KeyId → Bool) (W : World) (hr : Reach hk W) :
    ∀ w ∈ W.wire, match w with
      | .initHello .. | .respHello .. | .initDone .. | .respDone .. => True
      | .data eI eR _ _ _ _ => advEph eI = false ∨ advEph eR = false
      | _ => False := by
  have hW := reach_winv hr
  intro w hw
  have hb := hW.core.wire w hw
  cases w with
  | initHello => trivial
  | respHello => trivial
  | initDone => trivial
  | respDone => trivial
  | junk => exact hb
  | short => exact hb
  | data eI eR tr dir c p =>
    obtain ⟨j, s, hj, _, _, c2, c3, _, _⟩ := hb
    have he := (hW.core.sinv j s hj).eph
    cases hi : s.isInit
    · right; rw [c3]; simp [Sess.eR, hi, he, advEph_even]
    · left; rw [c2]; simp [Sess.eI, hi, he, advEph_even]

end P2PVerif.P2PKE
