import P2PVerif.Model.Stack
/-! C01: the receiving stack fed a list of base datagrams, layer by layer. -/
namespace P2PVerif.Stack
open P2PVerif

/-! ## `recvAll` as a left fold -/

theorem recvAll_nil (s : Stack) (st : RState) (src : Nat) : recvAll s st src [] = (st, []) := rfl

private theorem recvAll_foldl (s : Stack) (src : Nat) (ds : List Bytes) : ∀ (st : RState) (acc : List Bytes),
    ds.foldl (fun (a : RState × List Bytes) d => ((recv s a.1 src d).1, a.2 ++ (recv s a.1 src d).2)) (st, acc) =
      ((recvAll s st src ds).1, acc ++ (recvAll s st src ds).2) := by
  induction ds with
  | nil => intro st acc; simp [recvAll]
  | cons d ds ih =>
    intro st acc
    have e : recvAll s st src (d :: ds) =
        ds.foldl (fun (a : RState × List Bytes) d => ((recv s a.1 src d).1, a.2 ++ (recv s a.1 src d).2))
          ((recv s st src d).1, [] ++ (recv s st src d).2) := rfl
    rw [List.foldl_cons, ih, e, ih]
    simp

theorem recvAll_cons (s : Stack) (st : RState) (src : Nat) (d : Bytes) (ds : List Bytes) :
    recvAll s st src (d :: ds) =
      ((recvAll s (recv s st src d).1 src ds).1, (recv s st src d).2 ++ (recvAll s (recv s st src d).1 src ds).2) := by
  have e : recvAll s st src (d :: ds) =
      ds.foldl (fun (a : RState × List Bytes) d => ((recv s a.1 src d).1, a.2 ++ (recv s a.1 src d).2))
        ((recv s st src d).1, [] ++ (recv s st src d).2) := rfl
  rw [e, recvAll_foldl]
  simp

theorem recvAll_append (s : Stack) (src : Nat) (a b : List Bytes) : ∀ (st : RState),
    recvAll s st src (a ++ b) =
      ((recvAll s (recvAll s st src a).1 src b).1,
        (recvAll s st src a).2 ++ (recvAll s (recvAll s st src a).1 src b).2) := by
  induction a with
  | nil => intro st; simp [recvAll_nil]
  | cons d a ih =>
    intro st
    rw [List.cons_append, recvAll_cons, ih, recvAll_cons]
    simp

/-! ## one fragmenting layer: the reassembly table fed a list of inner datagrams -/

/-- the fold of `recv` for a `.frag` layer -/
def fragFeed (fs : Frag.RState) (src : Nat) (ups : List Bytes) : Frag.RState × List Bytes :=
  ups.foldl (fun (acc : Frag.RState × List Bytes) u =>
    let (fs', o) := Frag.recv acc.1 src u
    (fs', acc.2 ++ o.toList)) (fs, [])

theorem fragFeed_nil (fs : Frag.RState) (src : Nat) : fragFeed fs src [] = (fs, []) := rfl

private theorem fragFeed_foldl (src : Nat) (ups : List Bytes) : ∀ (fs : Frag.RState) (acc : List Bytes),
    ups.foldl (fun (a : Frag.RState × List Bytes) u =>
      ((Frag.recv a.1 src u).1, a.2 ++ (Frag.recv a.1 src u).2.toList)) (fs, acc) =
      ((fragFeed fs src ups).1, acc ++ (fragFeed fs src ups).2) := by
  induction ups with
  | nil => intro fs acc; simp [fragFeed]
  | cons u ups ih =>
    intro fs acc
    have e : fragFeed fs src (u :: ups) =
        ups.foldl (fun (a : Frag.RState × List Bytes) u =>
          ((Frag.recv a.1 src u).1, a.2 ++ (Frag.recv a.1 src u).2.toList))
          ((Frag.recv fs src u).1, [] ++ (Frag.recv fs src u).2.toList) := rfl
    rw [List.foldl_cons, ih, e, ih]
    simp

theorem fragFeed_cons (fs : Frag.RState) (src : Nat) (u : Bytes) (ups : List Bytes) :
    fragFeed fs src (u :: ups) =
      ((fragFeed (Frag.recv fs src u).1 src ups).1,
        (Frag.recv fs src u).2.toList ++ (fragFeed (Frag.recv fs src u).1 src ups).2) := by
  have e : fragFeed fs src (u :: ups) =
      ups.foldl (fun (a : Frag.RState × List Bytes) u =>
        ((Frag.recv a.1 src u).1, a.2 ++ (Frag.recv a.1 src u).2.toList))
        ((Frag.recv fs src u).1, [] ++ (Frag.recv fs src u).2.toList) := rfl
  rw [e, fragFeed_foldl]
  simp

theorem fragFeed_append (src : Nat) (a b : List Bytes) : ∀ (fs : Frag.RState),
    fragFeed fs src (a ++ b) =
      ((fragFeed (fragFeed fs src a).1 src b).1,
        (fragFeed fs src a).2 ++ (fragFeed (fragFeed fs src a).1 src b).2) := by
  induction a with
  | nil => intro fs; simp [fragFeed_nil]
  | cons u a ih =>
    intro fs
    rw [List.cons_append, fragFeed_cons, ih, fragFeed_cons]
    simp

theorem recv_frag (cfg : Nat) (rest : Stack) (st : RState) (src : Nat) (x : Bytes) :
    recv (.frag cfg :: rest) st src x =
      ((fragFeed (st.headD []) src (recv rest st.tail src x).2).1 :: (recv rest st.tail src x).1,
        (fragFeed (st.headD []) src (recv rest st.tail src x).2).2) := rfl

/-- the demultiplexing filter of a `.mux` layer -/
def muxFilter (k : Mux.Kind) (c : Mux.Chan) (ups : List Bytes) : List Bytes :=
  ups.filterMap (fun u =>
    match Mux.demux k u with
    | .ok c' body => if c' = c then some body else none
    | .err => none)

theorem recv_mux (k : Mux.Kind) (c : Mux.Chan) (rest : Stack) (st : RState) (src : Nat) (x : Bytes) :
    recv (.mux k c :: rest) st src x =
      (st.headD [] :: (recv rest st.tail src x).1, muxFilter k c (recv rest st.tail src x).2) := rfl

theorem muxFilter_append (k : Mux.Kind) (c : Mux.Chan) (a b : List Bytes) :
    muxFilter k c (a ++ b) = muxFilter k c a ++ muxFilter k c b := by
  simp [muxFilter, List.filterMap_append]

/-! ## `recvAll` through one layer -/

theorem recvAll_frag (cfg : Nat) (rest : Stack) (src : Nat) (ds : List Bytes) : ∀ (h : Frag.RState) (t : RState),
    recvAll (.frag cfg :: rest) (h :: t) src ds =
      ((fragFeed h src (recvAll rest t src ds).2).1 :: (recvAll rest t src ds).1,
        (fragFeed h src (recvAll rest t src ds).2).2) := by
  induction ds with
  | nil => intro h t; simp [recvAll_nil, fragFeed_nil]
  | cons d ds ih =>
    intro h t
    rw [recvAll_cons, recv_frag]
    simp only [List.headD_cons, List.tail_cons]
    rw [ih, recvAll_cons rest, fragFeed_append]

theorem recvAll_mux (k : Mux.Kind) (c : Mux.Chan) (rest : Stack) (src : Nat) (ds : List Bytes) :
    ∀ (h : Frag.RState) (t : RState),
    recvAll (.mux k c :: rest) (h :: t) src ds =
      (h :: (recvAll rest t src ds).1, muxFilter k c (recvAll rest t src ds).2) := by
  induction ds with
  | nil => intro h t; simp [recvAll_nil, muxFilter]
  | cons d ds ih =>
    intro h t
    rw [recvAll_cons, recv_mux]
    simp only [List.headD_cons, List.tail_cons]
    rw [ih, recvAll_cons rest, muxFilter_append]

theorem recvAll_base (src : Nat) (ds : List Bytes) : ∀ (st : RState), recvAll [] st src ds = (st, ds) := by
  induction ds with
  | nil => intro st; rfl
  | cons d ds ih =>
    intro st
    rw [recvAll_cons, ih]
    simp [recv]

end P2PVerif.Stack
