import P2PVerif.Model.CacheOps
/-! A duplicate-free list of `k`-byte strings has at most `256 ^ k` elements. Core Lean only. -/
namespace P2PVerif.Kad
open P2PVerif

/-- little-endian value of a byte string (only used as an injection into `Nat`) -/
def leVal : Bytes → Nat
  | [] => 0
  | b :: bs => b + 256 * leVal bs

theorem leVal_lt (a : Bytes) (ha : validBytes a) : leVal a < 256 ^ a.length := by
  induction a with
  | nil => simp [leVal]
  | cons b bs ih =>
    have hb : b < 256 := ha b (by simp)
    have := ih (fun x hx => ha x (by simp [hx]))
    simp only [leVal, List.length_cons, Nat.pow_succ]
    omega

theorem leVal_inj (a b : Bytes) (hl : a.length = b.length) (ha : validBytes a) (hb : validBytes b)
    (h : leVal a = leVal b) : a = b := by
  induction a generalizing b with
  | nil => cases b with
    | nil => rfl
    | cons => simp at hl
  | cons x xs ih =>
    cases b with
    | nil => simp at hl
    | cons y ys =>
      have hx : x < 256 := ha x (by simp)
      have hy : y < 256 := hb y (by simp)
      simp only [leVal] at h
      have h1 : x = y := by omega
      have h2 : leVal xs = leVal ys := by omega
      rw [h1, ih ys (by simpa using hl) (fun z hz => ha z (by simp [hz])) (fun z hz => hb z (by simp [hz])) h2]

theorem nodup_nat_length_le (B : Nat) (l : List Nat) (hnd : l.Nodup) (hlt : ∀ x ∈ l, x < B) : l.length ≤ B := by
  induction B generalizing l with
  | zero =>
    cases l with
    | nil => simp
    | cons x xs => exact absurd (hlt x (by simp)) (by omega)
  | succ B ih =>
    have h1 : (l.erase B).Nodup := hnd.erase B
    have h2 : ∀ x ∈ l.erase B, x < B := by
      intro x hx
      have := (List.Nodup.mem_erase_iff hnd).1 hx
      have := hlt x this.2
      omega
    have h3 := ih _ h1 h2
    have h4 : (l.erase B).length = if B ∈ l then l.length - 1 else l.length := List.length_erase ..
    split at h4 <;> omega

theorem nodup_bytes_length_le (k : Nat) (l : List Bytes) (hnd : l.Nodup)
    (hv : ∀ x ∈ l, x.length = k ∧ validBytes x) : l.length ≤ 256 ^ k := by
  have h1 : (l.map leVal).Nodup := by
    induction l with
    | nil => simp
    | cons a as ih =>
      have ⟨ha, has⟩ := List.nodup_cons.1 hnd
      simp only [List.map_cons, List.nodup_cons, List.mem_map, not_exists, not_and]
      refine ⟨?_, ih has (fun x hx => hv x (by simp [hx]))⟩
      intro b hb heq
      have hva := hv a (by simp)
      have hvb := hv b (by simp [hb])
      have := leVal_inj b a (by omega) hvb.2 hva.2 heq
      subst this
      exact ha hb
  have h2 : ∀ x ∈ l.map leVal, x < 256 ^ k := by
    intro x hx
    rcases List.mem_map.1 hx with ⟨a, ha, rfl⟩
    have := hv a ha
    rw [← this.1]
    exact leVal_lt a this.2
  simpa using nodup_nat_length_le _ _ h1 h2

end P2PVerif.Kad
